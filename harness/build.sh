#!/bin/sh
# build.sh <outdir> <scenario.c> [extra cc flags]: compile the unmodified nsync sources of /repo against the vrt
# runtime (override atomic.h first on the include path, libc entry points renamed) and link one scenario.
set -e
REPO=${VERIF_REPO:-/repo}
H=$(cd "$(dirname "$0")" && pwd)
OUT=$1; SCEN=$2; shift 2
mkdir -p "$OUT"
INC="-I$H/platform -I$H/rt -I$REPO/platform/linux -I$REPO/platform/gcc -I$REPO/platform/posix -I$REPO/platform/x86_64 -I$REPO/public -I$REPO/internal"
REN="-Dsyscall=vrt_syscall -Dclock_gettime=vrt_clock_gettime -Dmalloc=vrt_malloc -Dfree=vrt_free -Dsched_yield=vrt_sched_yield"
CF="-O1 -g -w -pthread -fsanitize=thread -fno-omit-frame-pointer"
SRCS="internal/common.c internal/counter.c internal/cv.c internal/debug.c internal/dll.c internal/mu.c internal/mu_wait.c internal/note.c internal/once.c internal/sem_wait.c internal/time_internal.c internal/wait.c platform/posix/src/nsync_panic.c platform/posix/src/per_thread_waiter.c platform/posix/src/time_rep.c platform/linux/src/nsync_semaphore_futex.c"
if [ "$VRT_SEMFLAVOUR" = "binary" ]; then
  SRCS=$(echo $SRCS | sed 's#platform/linux/src/nsync_semaphore_futex.c##')
fi
if [ ! -f "$OUT/libnsync_vrt.a" ] || [ -n "$VRT_REBUILD" ]; then
  rm -f "$OUT"/*.o "$OUT/libnsync_vrt.a"
  for s in $SRCS; do
    o="$OUT/$(echo $s | tr '/' '_' | sed 's/\.c$/.o/')"
    clang $CF $INC $REN -c "$REPO/$s" -o "$o" &
  done
  if [ "$VRT_SEMFLAVOUR" = "binary" ]; then clang $CF $INC $REN -c "$H/rt/sem_binary.c" -o "$OUT/sem_binary.o" & fi
  gcc -O1 -g -w -pthread -I$H/rt -c "$H/rt/vrt.c" -o "$OUT/vrt.o" &
  clang $CF -I$H/rt -c "$H/rt/yield.c" -o "$OUT/yield.o" &
  wait
  ar rcs "$OUT/libnsync_vrt.a" $(ls "$OUT"/*.o | grep -v scen.o)
fi
b=$(basename "$SCEN" .c)
clang $CF $INC $REN "$@" -c "$SCEN" -o "$OUT/$b.scen.o"
gcc -g -pthread "$OUT/$b.scen.o" "$OUT/libnsync_vrt.a" -o "$OUT/$b.tmp.$$" -lpthread
mv -f "$OUT/$b.tmp.$$" "$OUT/$b"
echo "$OUT/$b"
