/* waitn_mix (C11, C13b): one or two nsync_wait_n callers over 1..5 objects of mixed kinds (notes, counters,
   condition variables, and an instrumented custom waitable) -- more than 4 objects take the heap bookkeeping path --
   with notifiers / decrementers / signallers running concurrently, deadlines past / future / never, with and
   without a mutex.  Oracles:
   - index r < count: object r is ready (note notified, counter zero, cv signalled after this call started);
   - r == count only at/after the deadline;
   - the mutex callbacks: unlock exactly once after every enqueue, lock again before return;
   - after return every object is made ready again: a leftover registration makes a waker touch the caller's dead
     stack frame or freed heap block (runtime DEADSTACK / UAF checks);
   - no caller keeps sleeping after an object became ready (stuck detector). */
#include "nsync.h"
#include "vrt.h"
#include <stdio.h>
#include <string.h>

#define MAXO 5
static nsync_mu mu;
static nsync_note notes[MAXO];
static nsync_counter ctrs[MAXO];
static nsync_cv cvs[MAXO];
static int kind_of[MAXO];         /* 0 note, 1 counter, 2 cv */
static int nobj;
#define SIGNALLED(i) (10 + (i))    /* a signal/broadcast on cv i has been issued */
#define ENQ 30                     /* enqueue calls seen by the probe waitable */
#define UNLOCKS(t) (31 + 2 * (t))
#define LOCKS(t) (32 + 2 * (t))
#define DEC(i) (5 + (i))           /* counter i has been decremented to zero by somebody */
static int sticky_actor;          /* some actor makes a note or a counter ready (readiness that cannot be missed) */
static int64_t ts_ns (nsync_time t) { return (int64_t) t.tv_sec * 1000000000LL + t.tv_nsec; }

/* ---- notes for the lock-step tie with coq/Model/WaitNModel.v (replay/waitn_replay.ml) ----
   The waitable functions are called through thin wrappers that announce "rb/re" (ready_time begin/end),
   "qb/qe" (enqueue), "db/de" (dequeue) and then call the real functions of the library. */
struct wrapv { void *v; const struct nsync_waitable_funcs_s *f; int j; };
static const char *tm_str (nsync_time t, char *buf) {
	if (nsync_time_cmp (t, nsync_time_no_deadline) == 0) snprintf (buf, 32, "none");
	else snprintf (buf, 32, "%lld", (long long) ts_ns (t));
	return buf;
}
static nsync_time w_ready (void *v, struct nsync_waiter_s *nw) {
	struct wrapv *x = (struct wrapv *) v;
	nsync_time r;
	char b[32];
	vrt_note ("rb %d %d %d", vrt_self (), x->j, nw == NULL);
	r = (*x->f->ready_time) (x->v, nw);
	vrt_note ("re %d %d %s", vrt_self (), x->j, tm_str (r, b));
	return r;
}
/* shadow bookkeeping for "a broadcast reaches every registered caller": REG(t,j) = caller t is registered on object j,
   MUST(t) = a broadcast was issued on a cv on which t was registered, before t's deadline: t must not report a timeout */
#define REG(t,j) (100 + (t) * 8 + (j))
#define MUST(t) (200 + (t))
#define DLS(t) (220 + (t))
/* called before (phase 0) and after (phase 1) nsync_cv_broadcast on object j: callers registered before the call started whose
   deadline has still not been reached when the call has RETURNED were covered by it */
static void note_broadcast (int j, int phase) {
	int t, me = vrt_self ();
	for (t = 1; t < 12; t++) {
		if (phase == 0) vrt_sh_set (240 + t, vrt_sh_get (REG (t, j)) ? me : 0);
		else if (vrt_sh_get (240 + t) == me && vrt_now_ns () < vrt_sh_get (DLS (t))) vrt_sh_set (MUST (t), 1);
	}
}
static int w_enqueue (void *v, struct nsync_waiter_s *nw) {
	struct wrapv *x = (struct wrapv *) v;
	int r;
	vrt_note ("qb %d %d", vrt_self (), x->j);
	r = (*x->f->enqueue) (x->v, nw);
	vrt_note ("qe %d %d %d", vrt_self (), x->j, r);
	if (r) vrt_sh_set (REG (vrt_self (), x->j), 1);
	return r;
}
static int w_dequeue (void *v, struct nsync_waiter_s *nw) {
	struct wrapv *x = (struct wrapv *) v;
	int r;
	vrt_note ("db %d %d", vrt_self (), x->j);
	vrt_sh_set (REG (vrt_self (), x->j), 0);
	r = (*x->f->dequeue) (x->v, nw);
	vrt_note ("de %d %d %d", vrt_self (), x->j, r);
	return r;
}
static const struct nsync_waitable_funcs_s wrap_funcs = { &w_ready, &w_enqueue, &w_dequeue };

/* lock callbacks that check the ordering contract */
static void my_lock (void *m) { nsync_mu_lock ((nsync_mu *) m); vrt_note ("lock %d", vrt_self ()); vrt_acquired (m, 1); vrt_sh_add (LOCKS (vrt_self ()), 1); }
static void my_unlock (void *m) { vrt_sh_add (UNLOCKS (vrt_self ()), 1); vrt_releasing (m, 1); vrt_note ("unlock %d", vrt_self ()); nsync_mu_unlock ((nsync_mu *) m); }

static int deep_call (int depth, int use_mu, nsync_time dl, int count, struct nsync_waitable_s *pw[]) {
	volatile char pad[256];
	int r;
	pad[0] = (char) depth;
	if (depth > 0) return deep_call (depth - 1, use_mu, dl, count, pw) + (pad[0] & 0);
	if (use_mu) r = nsync_wait_n (&mu, &my_lock, &my_unlock, dl, count, pw);
	else r = nsync_wait_n (NULL, NULL, NULL, dl, count, pw);
	return r;
}

static void make_all_ready (void) {
	int i;
	for (i = 0; i < nobj; i++) {
		if (kind_of[i] == 0) { vrt_note ("ab %d notify %d", vrt_self (), i); nsync_note_notify (notes[i]); vrt_note ("ae %d", vrt_self ()); }
		else if (kind_of[i] == 1) {
			if (vrt_sh_add (DEC (i), 1) == 1) { vrt_note ("ab %d add %d -1", vrt_self (), i); nsync_counter_add (ctrs[i], -1); vrt_note ("ae %d", vrt_self ()); }
		} else { vrt_sh_set (SIGNALLED (i), 1); note_broadcast (i, 0); vrt_note ("ab %d broadcast %d", vrt_self (), i); nsync_cv_broadcast (&cvs[i]); vrt_note ("ae %d", vrt_self ()); note_broadcast (i, 1); }
	}
}

static void caller (void *a) {
	struct nsync_waitable_s w[MAXO], *pw[MAXO];
	struct wrapv wv[MAXO];
	char desc[64], tb[32];
	int i, r, use_mu = (int) vrt_rand (2), k = (int) vrt_rand (4);
	nsync_time dl;
	if (k == 0 && !sticky_actor) k = 3;      /* without a guaranteed source of readiness always use a deadline */
	dl = k == 0 ? nsync_time_no_deadline : vrt_abs ((int64_t) k * 900 - 900);
	long cv_sig_before[MAXO];
	for (i = 0; i < nobj; i++) {
		pw[i] = &w[i];
		if (kind_of[i] == 0) { w[i].v = notes[i]; w[i].funcs = &nsync_note_waitable_funcs; }
		else if (kind_of[i] == 1) { w[i].v = ctrs[i]; w[i].funcs = &nsync_counter_waitable_funcs; }
		else { w[i].v = &cvs[i]; w[i].funcs = &nsync_cv_waitable_funcs; }
		cv_sig_before[i] = 0;
		wv[i].v = w[i].v; wv[i].f = w[i].funcs; wv[i].j = i;
		w[i].v = &wv[i]; w[i].funcs = &wrap_funcs;
		desc[2 * i] = "NCV"[kind_of[i]]; desc[2 * i + 1] = ' '; desc[2 * i + 2] = 0;
	}
	if (nobj == 0) desc[0] = 0;
	if (use_mu) { nsync_mu_lock (&mu); vrt_note ("mulock %d", vrt_self ()); vrt_acquired (&mu, 1); }
	{
		long u0 = vrt_sh_get (UNLOCKS (vrt_self ())), l0 = vrt_sh_get (LOCKS (vrt_self ()));
		vrt_sh_set (DLS (vrt_self ()), k == 0 ? 0x7fffffffffffffffL : (long) ts_ns (dl));
		vrt_sh_set (MUST (vrt_self ()), 0);
		vrt_note ("call %d %d %s %d %s", vrt_self (), use_mu, tm_str (dl, tb), nobj, desc);
		r = deep_call (3, use_mu, dl, nobj, pw);
		vrt_note ("ret %d %d", vrt_self (), r);
		if (use_mu && vrt_holders (&mu, 1) != 1) vrt_fail ("C01", "nsync_wait_n returned without having re-acquired the mutex: the caller believes it holds it");
		if (use_mu && (vrt_sh_get (UNLOCKS (vrt_self ())) - u0) != (vrt_sh_get (LOCKS (vrt_self ())) - l0)) vrt_fail ("C11", "unlock/lock callbacks unbalanced");
	}
	if (r < 0 || r > nobj) vrt_fail ("C11", "result %d out of range", r);
	if (r < nobj) {
		vrt_count ("ret_index");
		if (kind_of[r] == 0) vrt_note ("ab %d poll %d", vrt_self (), r);
		if (kind_of[r] == 0 && !nsync_note_is_notified (notes[r])) vrt_fail ("C11", "returned index %d but that note is not notified", r);
		if (kind_of[r] == 0) vrt_note ("ae %d", vrt_self ());
		if (kind_of[r] == 1 && nsync_counter_value (ctrs[r]) != 0) vrt_fail ("C11", "returned index %d but that counter is %u", r, nsync_counter_value (ctrs[r]));
		if (kind_of[r] == 2 && !vrt_sh_get (SIGNALLED (r))) vrt_fail ("C11", "returned index %d but cv %d was never signalled", r, r);
	} else {
		vrt_count ("ret_timeout");
		if (k == 0) vrt_fail ("C11", "no deadline but returned count");
		if (vrt_now_ns () < ts_ns (dl)) vrt_fail ("C11", "returned count before the deadline");
		if (vrt_sh_get (MUST (vrt_self ()))) vrt_fail ("C11", "a broadcast was issued on a condition variable this call was registered on, before its deadline, yet it slept on and returned count");
	}
	if (use_mu) { vrt_releasing (&mu, 1); vrt_note ("muunlock %d", vrt_self ()); nsync_mu_unlock (&mu); }
	/* the frame of nsync_wait_n (and deep_call) is dead now: wake everything; any leftover registration is touched */
	make_all_ready ();
}

static void actor (void *a) {
	int i = (int) (long) a;
	vrt_point ("actor");
	if (kind_of[i] == 0) { vrt_note ("ab %d notify %d", vrt_self (), i); nsync_note_notify (notes[i]); vrt_note ("ae %d", vrt_self ()); }
	else if (kind_of[i] == 1) {
		if (vrt_sh_add (DEC (i), 1) == 1) { vrt_note ("ab %d add %d -1", vrt_self (), i); nsync_counter_add (ctrs[i], -1); vrt_note ("ae %d", vrt_self ()); }
	} else {
		vrt_sh_set (SIGNALLED (i), 1);
		if (vrt_rand (2)) { vrt_note ("ab %d signal %d", vrt_self (), i); nsync_cv_signal (&cvs[i]); }
		else { note_broadcast (i, 0); vrt_note ("ab %d broadcast %d", vrt_self (), i); nsync_cv_broadcast (&cvs[i]); note_broadcast (i, 1); }
		vrt_note ("ae %d", vrt_self ());
	}
	vrt_count ("actor");
}

int main (void) {
	int i, ncall = 1 + (int) vrt_rand (2), nact, act_obj[MAXO + 1];
	static char nm[12][8];
	nobj = vrt_opt ("NOBJ", 1 + (int) vrt_rand (MAXO));
	vrt_register (&mu, sizeof (mu), "mu0");
	for (i = 0; i < nobj; i++) {
		kind_of[i] = vrt_opt ("KIND", (int) vrt_rand (3));
		if (kind_of[i] == 0) {
			int ready = vrt_rand (5) == 0;
			notes[i] = nsync_note_new (NULL, vrt_rand (4) == 0 ? vrt_abs (1200) : nsync_time_no_deadline);
			if (ready) nsync_note_notify (notes[i]);
		} else if (kind_of[i] == 1) {
			int zero = vrt_rand (5) == 0;
			ctrs[i] = nsync_counter_new (zero ? 0 : 1);
			if (zero) vrt_sh_set (DEC (i), 1);
		}
	}
	for (i = 0; i < nobj; i++) {
		char tb[32];
		if (kind_of[i] == 0) vrt_note ("obj %d N %d %s", i, nsync_note_is_notified (notes[i]), tm_str (nsync_note_expiry (notes[i]), tb));
		else if (kind_of[i] == 1) vrt_note ("obj %d C %u", i, nsync_counter_value (ctrs[i]));
		else vrt_note ("obj %d V", i);
	}
	/* decide the actors first: callers need to know whether readiness is guaranteed */
	nact = (int) vrt_rand (nobj + 1);
	for (i = 0; i < nact; i++) { act_obj[i] = (int) vrt_rand (nobj); if (kind_of[act_obj[i]] != 2) sticky_actor = 1; }
	for (i = 0; i < ncall; i++) { snprintf (nm[i], 8, "c%d", i); vrt_thread (nm[i], caller, NULL); }
	for (i = 0; i < nact; i++) {
		snprintf (nm[4 + i], 8, "a%d", i);
		vrt_thread (nm[4 + i], actor, (void *) (long) act_obj[i]);
	}
	vrt_run ();
	printf ("VRT-END ok\n");
	return 0;
}
