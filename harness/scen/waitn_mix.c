/* waitn_mix (C11, C13b): one or two nsync_wait_n callers over 1..5 objects of mixed kinds (notes, counters,
   condition variables, and an instrumented custom waitable) -- more than 4 objects take the heap bookkeeping path --
   with notifiers / decrementers / signallers running concurrently, deadlines past / future / never, with and
   without a mutex.  Oracles:
   - index r < count: object r is ready (note notified, counter zero, cv signalled after this call started);
   - r == count only at/after the deadline;
   - the mutex callbacks: unlock exactly once after every enqueue, lock again before return;
   - after return every object is made ready again: a leftover registration makes a waker touch the caller's dead
     stack frame or freed heap block (runtime DEADSTACK / UAF checks);
   - no caller keeps sleeping after an object became ready (stuck detector);
   - r == count is refused when a note / counter of the call had been made ready by a call that RETURNED before the call
     started or strictly before its deadline (sticky readiness), or a note's own deadline lies before the caller's;
   - a cv index needs a signal / broadcast of that cv overlapping the call, and a registration of this call on it;
   - the mutex is released only after all `count` enqueue callbacks returned, at most once, exactly once when the call
     blocked on its semaphore, and THIS thread holds it on return;
   - deadlines nsync_time_zero / before the epoch: no semaphore sleep;
   - C03: the thread that makes an object ready writes a plain payload first; the caller to which that object is reported reads it
     when that thread is the only possible cause (the runtime's happens-before detector judges the pair).
   VRT_PRE=1 (default: one run in three): +1/-1 pairs and value reads on the counters by one or two threads BEFORE any wait
   starts (callers and actors are spawned by the last of them). */
#include "nsync.h"
#include "vrt.h"
#include <stdio.h>
#include <string.h>

#define MAXO 5
static nsync_mu mu;
static nsync_note notes[MAXO];
static nsync_counter ctrs[MAXO];
static nsync_cv cvs[MAXO];
static int kind_of[MAXO];         /* 0 note, 1 counter, 2 cv */
static int nobj;
#define HOLDER 3                   /* tid of the thread that holds `mu` according to the lock/unlock calls made by the scenario and the callbacks */
#define PREDONE 4                  /* pre-phase threads that have finished */
#define RDY(i) (15 + (i))          /* virtual time at which the sticky readiness of object i (note notified, counter zero) was COMPLETED:
                                      nsync_note_notify / the nsync_counter_add that reached zero has RETURNED; 0 = not yet */
#define SIGB(i) (20 + (i))         /* signals + broadcasts on cv i that have STARTED */
#define SIGE(i) (25 + (i))         /* ... that have RETURNED */
#define WHO_SIG(i) (55 + (i))      /* the first thread that signalled / broadcast cv i */
#define NSTARTED(i) (60 + (i))     /* nsync_note_notify calls started on note i */
#define WHO_N(i) (65 + (i))        /* the first thread that started one */
#define UNLOCKS(t) (31 + 2 * (t))
#define LOCKS(t) (32 + 2 * (t))
#define DEC(i) (5 + (i))           /* counter i has been decremented to zero by somebody */
static int sticky_actor;          /* some actor makes a note or a counter ready (readiness that cannot be missed) */
static int64_t ts_ns (nsync_time t) { return (int64_t) t.tv_sec * 1000000000LL + t.tv_nsec; }
static int64_t ndl[MAXO];         /* a note's own absolute deadline (INT64_MAX = none); written by main only */
static int ready0[MAXO];          /* the object was ready (note notified, counter zero) before any thread started; written by main only */
static unsigned base0[MAXO];      /* initial value of a counter; written by main only */

/* per-caller bookkeeping, touched only by the caller's own thread (index = vrt_self ()) */
static struct percall {
	int use_mu;                   /* the current call was given the mutex */
	long enq_b, enq_e;            /* enqueue callbacks begun / returned in the current call */
	long cb_sleeps;               /* futex sleeps of this thread INSIDE a callback (object locks, the mutex): not nsync_wait_n's own semaphore wait */
	int was_reg[MAXO];            /* the current call has been registered on object j (its enqueue returned 1) */
} pc[12];

/* C03 payloads: ordinary (non-atomic) client data written by the thread that makes an object ready BEFORE it does so, read by the
   caller to which nsync_wait_n reported that object.  One slot per writer thread, so that writers never conflict with each other. */
static int npay[MAXO][12], cpay[MAXO], vpay[MAXO][12];

/* ---- notes for the lock-step tie with coq/Model/WaitNModel.v (replay/waitn_replay.ml) ----
   The waitable functions are called through thin wrappers that announce "rb/re" (ready_time begin/end),
   "qb/qe" (enqueue), "db/de" (dequeue) and then call the real functions of the library. */
struct wrapv { void *v; const struct nsync_waitable_funcs_s *f; int j; };
static const char *tm_str (nsync_time t, char *buf) {
	if (nsync_time_cmp (t, nsync_time_no_deadline) == 0) snprintf (buf, 32, "none");
	else snprintf (buf, 32, "%lld", (long long) ts_ns (t));
	return buf;
}
static nsync_time w_ready (void *v, struct nsync_waiter_s *nw) {
	struct wrapv *x = (struct wrapv *) v;
	nsync_time r;
	char b[32];
	long s0 = vrt_sleeps_of (vrt_self ());
	vrt_note ("rb %d %d %d", vrt_self (), x->j, nw == NULL);
	r = (*x->f->ready_time) (x->v, nw);
	vrt_note ("re %d %d %s", vrt_self (), x->j, tm_str (r, b));
	pc[vrt_self ()].cb_sleeps += vrt_sleeps_of (vrt_self ()) - s0;
	return r;
}
/* shadow bookkeeping for "a wake-up reaches the registered callers": REG(t,j) = caller t is registered on object j,
   MUST(t) = a wake-up that had to reach t (a broadcast; a signal when t was the only registered caller) was issued on a cv on
   which t was registered and has RETURNED before t's deadline: t must not report a timeout */
#define REG(t,j) (100 + (t) * 8 + (j))
#define MUST(t) (200 + (t))
#define DLS(t) (220 + (t))
/* called before (phase 0) and after (phase 1) nsync_cv_broadcast / nsync_cv_signal on object j: callers registered before the call
   started whose deadline has still not been reached when the call has RETURNED were covered by it.  A signal wakes at least one
   of the threads that waited before it was issued (C04): with exactly ONE caller registered (the scenario has no native
   nsync_cv_wait waiters) that caller is the one */
static void note_wake (int j, int phase, int is_signal) {
	int t, me = vrt_self (), nreg = 0;
	if (phase == 0) for (t = 1; t < 12; t++) nreg += vrt_sh_get (REG (t, j)) != 0;
	for (t = 1; t < 12; t++) {
		if (phase == 0) vrt_sh_set (240 + t, vrt_sh_get (REG (t, j)) && (!is_signal || nreg == 1) ? me : 0);
		else if (vrt_sh_get (240 + t) == me && vrt_now_ns () < vrt_sh_get (DLS (t))) vrt_sh_set (MUST (t), 1);
	}
}
static int w_enqueue (void *v, struct nsync_waiter_s *nw) {
	struct wrapv *x = (struct wrapv *) v;
	struct percall *c = &pc[vrt_self ()];
	int r;
	long s0 = vrt_sleeps_of (vrt_self ());
	c->enq_b++;
	if (c->use_mu && vrt_sh_get (UNLOCKS (vrt_self ())) != 0)
		vrt_fail ("C11", "object %d is enqueued after the mutex has been released: the mutex must be released only after registration on every object", x->j);
	vrt_note ("qb %d %d", vrt_self (), x->j);
	r = (*x->f->enqueue) (x->v, nw);
	vrt_note ("qe %d %d %d", vrt_self (), x->j, r);
	if (r) { vrt_sh_set (REG (vrt_self (), x->j), 1); c->was_reg[x->j] = 1; }
	c->enq_e++;
	c->cb_sleeps += vrt_sleeps_of (vrt_self ()) - s0;
	return r;
}
static int w_dequeue (void *v, struct nsync_waiter_s *nw) {
	struct wrapv *x = (struct wrapv *) v;
	int r;
	long s0 = vrt_sleeps_of (vrt_self ());
	vrt_note ("db %d %d", vrt_self (), x->j);
	vrt_sh_set (REG (vrt_self (), x->j), 0);
	r = (*x->f->dequeue) (x->v, nw);
	vrt_note ("de %d %d %d", vrt_self (), x->j, r);
	pc[vrt_self ()].cb_sleeps += vrt_sleeps_of (vrt_self ()) - s0;
	return r;
}
static const struct nsync_waitable_funcs_s wrap_funcs = { &w_ready, &w_enqueue, &w_dequeue };

/* lock callbacks that check the ordering contract: the mutex is released only after every one of the `count` enqueue callbacks
   of this call has returned, by the thread that holds it; it is re-acquired only after having been released */
static void my_lock (void *m) {
	int me = vrt_self ();
	long s0 = vrt_sleeps_of (me);
	if (vrt_sh_get (LOCKS (me)) + 1 != vrt_sh_get (UNLOCKS (me))) vrt_fail ("C11", "lock callback called although the mutex had not been released by this call");
	nsync_mu_lock ((nsync_mu *) m); vrt_note ("lock %d", me); vrt_acquired (m, 1); vrt_sh_set (HOLDER, me); vrt_sh_add (LOCKS (me), 1);
	pc[me].cb_sleeps += vrt_sleeps_of (me) - s0;
}
static void my_unlock (void *m) {
	int me = vrt_self ();
	struct percall *c = &pc[me];
	if (c->enq_e != nobj || c->enq_b != nobj)
		vrt_fail ("C11", "the mutex is released after %ld of the %d enqueue calls have returned (%ld begun): it must be released only after registration on every object",
			  c->enq_e, nobj, c->enq_b);
	if (vrt_sh_get (HOLDER) != me) vrt_fail ("C11", "unlock callback called while thread %ld, not the caller %d, holds the mutex", vrt_sh_get (HOLDER), me);
	vrt_sh_add (UNLOCKS (me), 1); vrt_sh_set (HOLDER, 0); vrt_releasing (m, 1); vrt_note ("unlock %d", me); nsync_mu_unlock ((nsync_mu *) m);
}

static int deep_call (int depth, int use_mu, nsync_time dl, int count, struct nsync_waitable_s *pw[]) {
	volatile char pad[256];
	int r;
	pad[0] = (char) depth;
	if (depth > 0) return deep_call (depth - 1, use_mu, dl, count, pw) + (pad[0] & 0);
	if (use_mu) r = nsync_wait_n (&mu, &my_lock, &my_unlock, dl, count, pw);
	else r = nsync_wait_n (NULL, NULL, NULL, dl, count, pw);
	return r;
}

/* the three ways in which the scenario makes an object ready; each writes its payload slot first */
static void ready_note (int i) {
	int me = vrt_self ();
	npay[i][me] = 1;
	if (vrt_sh_add (NSTARTED (i), 1) == 1) vrt_sh_set (WHO_N (i), me);
	vrt_note ("ab %d notify %d", me, i); nsync_note_notify (notes[i]); vrt_note ("ae %d", me);
	if (vrt_sh_get (RDY (i)) == 0) vrt_sh_set (RDY (i), vrt_now_ns ());       /* sticky: the note stays notified */
}
static void ready_counter (int i) {
	int me = vrt_self ();
	if (vrt_sh_add (DEC (i), 1) == 1) {
		cpay[i] = 1;                /* the single decrement 1 -> 0 of this counter */
		vrt_note ("ab %d add %d -1", me, i); nsync_counter_add (ctrs[i], -1); vrt_note ("ae %d", me);
		vrt_sh_set (RDY (i), vrt_now_ns ());                                    /* sticky: nobody increments afterwards */
	}
}
static void wake_cv (int i, int is_signal) {
	int me = vrt_self ();
	vpay[i][me] = 1;
	if (vrt_sh_add (SIGB (i), 1) == 1) vrt_sh_set (WHO_SIG (i), me);
	note_wake (i, 0, is_signal);
	if (is_signal) { vrt_note ("ab %d signal %d", me, i); nsync_cv_signal (&cvs[i]); }
	else { vrt_note ("ab %d broadcast %d", me, i); nsync_cv_broadcast (&cvs[i]); }
	vrt_note ("ae %d", me);
	note_wake (i, 1, is_signal);
	vrt_sh_add (SIGE (i), 1);
}

static void make_all_ready (void) {
	int i;
	for (i = 0; i < nobj; i++) {
		if (kind_of[i] == 0) ready_note (i);
		else if (kind_of[i] == 1) ready_counter (i);
		else wake_cv (i, 0);
	}
}

static void caller (void *a) {
	struct nsync_waitable_s w[MAXO], *pw[MAXO];
	struct wrapv wv[MAXO];
	char desc[64], tb[32];
	int me = vrt_self ();
	struct percall *c = &pc[me];
	int i, r, use_mu = (int) vrt_rand (2), k = (int) vrt_rand (4);
	nsync_time dl;
	long rdy0[MAXO], sige0[MAXO];
	int64_t dlns, t0;
	if (k == 0 && !sticky_actor) k = 3;      /* without a guaranteed source of readiness always use a deadline */
	if (vrt_rand (6) == 0) k = 4 + (int) vrt_rand (2);   /* the deadline values wait.c special-cases: zero, and before the epoch */
	dl = k == 0 ? nsync_time_no_deadline : k == 4 ? nsync_time_zero : vrt_abs ((int64_t) k * 900 - 900);
	if (k == 5) { dl.tv_sec = -3; dl.tv_nsec = 500; }
	dlns = k == 0 ? INT64_MAX : ts_ns (dl);
	for (i = 0; i < nobj; i++) {
		pw[i] = &w[i];
		if (kind_of[i] == 0) { w[i].v = notes[i]; w[i].funcs = &nsync_note_waitable_funcs; }
		else if (kind_of[i] == 1) { w[i].v = ctrs[i]; w[i].funcs = &nsync_counter_waitable_funcs; }
		else { w[i].v = &cvs[i]; w[i].funcs = &nsync_cv_waitable_funcs; }
		wv[i].v = w[i].v; wv[i].f = w[i].funcs; wv[i].j = i;
		w[i].v = &wv[i]; w[i].funcs = &wrap_funcs;
		desc[2 * i] = "NCV"[kind_of[i]]; desc[2 * i + 1] = ' '; desc[2 * i + 2] = 0;
	}
	if (nobj == 0) desc[0] = 0;
	if (use_mu) { nsync_mu_lock (&mu); vrt_note ("mulock %d", me); vrt_acquired (&mu, 1); vrt_sh_set (HOLDER, me); }
	{
		long sl0, own;
		/* what had COMPLETED before this call starts */
		for (i = 0; i < nobj; i++) { rdy0[i] = vrt_sh_get (RDY (i)) != 0; sige0[i] = vrt_sh_get (SIGE (i)); c->was_reg[i] = 0; }
		c->use_mu = use_mu; c->enq_b = c->enq_e = 0; c->cb_sleeps = 0;
		vrt_sh_set (UNLOCKS (me), 0); vrt_sh_set (LOCKS (me), 0);
		t0 = vrt_now_ns ();
		sl0 = vrt_sleeps_of (me);
		vrt_sh_set (DLS (me), k == 0 ? 0x7fffffffffffffffL : (long) ts_ns (dl));
		vrt_sh_set (MUST (me), 0);
		vrt_note ("call %d %d %s %d %s", me, use_mu, tm_str (dl, tb), nobj, desc);
		r = deep_call (3, use_mu, dl, nobj, pw);
		vrt_note ("ret %d %d", me, r);
		own = vrt_sleeps_of (me) - sl0 - c->cb_sleeps;      /* sleeps of nsync_wait_n itself: on its semaphore */
		if (use_mu && vrt_holders (&mu, 1) != 1) vrt_fail ("C01", "nsync_wait_n returned without having re-acquired the mutex: the caller believes it holds it");
		if (use_mu && vrt_sh_get (HOLDER) != me) vrt_fail ("C01", "nsync_wait_n returned to thread %d without having re-acquired the mutex for it (holder: thread %ld)", me, vrt_sh_get (HOLDER));
		if (use_mu) {
			long nu = vrt_sh_get (UNLOCKS (me)), nl = vrt_sh_get (LOCKS (me));
			if (nu != nl) vrt_fail ("C11", "unlock/lock callbacks unbalanced");
			if (nu > 1) vrt_fail ("C11", "the mutex was released %ld times by one call", nu);
			if (own > 0 && nu != 1) vrt_fail ("C11", "the call blocked on its semaphore without having released the mutex");
		}
		if (dlns <= t0 && own > 0) vrt_fail ("C11", "the deadline %lld had passed when the call started at %lld, yet it slept on its semaphore", (long long) dlns, (long long) t0);
	}
	if (r < 0 || r > nobj) vrt_fail ("C11", "result %d out of range", r);
	if (r < nobj) {
		vrt_count ("ret_index");
		if (kind_of[r] == 0) vrt_note ("ab %d poll %d", me, r);
		if (kind_of[r] == 0 && !nsync_note_is_notified (notes[r])) vrt_fail ("C11", "returned index %d but that note is not notified", r);
		if (kind_of[r] == 0) vrt_note ("ae %d", me);
		if (kind_of[r] == 1 && nsync_counter_value (ctrs[r]) != 0) vrt_fail ("C11", "returned index %d but that counter is %u", r, nsync_counter_value (ctrs[r]));
		/* a cv is "signalled for this call" only while this call is registered on it: by a signal / broadcast that had not
		   returned before the call started (and has started by now) */
		if (kind_of[r] == 2 && !c->was_reg[r]) vrt_fail ("C11", "returned index %d but this call was never registered on cv %d", r, r);
		if (kind_of[r] == 2 && vrt_sh_get (SIGB (r)) - sige0[r] <= 0)
			vrt_fail ("C11", "returned index %d but no nsync_cv_signal / nsync_cv_broadcast of cv %d ran during this call", r, r);
		/* C03: read the payload of the thread that made object r ready, when it is the only possible cause */
		if (kind_of[r] == 0 && !ready0[r] && ndl[r] == INT64_MAX && vrt_sh_get (NSTARTED (r)) == 1) {
			vrt_count ("payload_read");
			if (npay[r][vrt_sh_get (WHO_N (r))] != 1) vrt_fail ("RACE", "payload written before nsync_note_notify of note %d is not visible", r);
		}
		if (kind_of[r] == 1 && !ready0[r]) {
			vrt_count ("payload_read");
			if (cpay[r] != 1) vrt_fail ("RACE", "payload written before the decrement to zero of counter %d is not visible", r);
		}
		if (kind_of[r] == 2 && vrt_sh_get (SIGB (r)) == 1) {
			vrt_count ("payload_read");
			if (vpay[r][vrt_sh_get (WHO_SIG (r))] != 1) vrt_fail ("RACE", "payload written before the wake-up of cv %d is not visible", r);
		}
	} else {
		vrt_count ("ret_timeout");
		if (k == 0) vrt_fail ("C11", "no deadline but returned count");
		if (vrt_now_ns () < dlns) vrt_fail ("C11", "returned count before the deadline");
		if (vrt_sh_get (MUST (me))) vrt_fail ("C04", "a wake-up that had to reach this call was issued on a condition variable it was registered on and returned before its deadline, yet it slept on and returned count");
		/* count means "none ready": sticky readiness (a notified note, a counter of this scenario at zero) that was completed before
		   the call started, or strictly before its deadline, contradicts it */
		for (i = 0; i < nobj; i++) {
			long at = vrt_sh_get (RDY (i));
			if (kind_of[i] == 2) continue;
			if (rdy0[i]) vrt_fail ("C11", "returned count although object %d had been made ready before the call started", i);
			if (at != 0 && at < dlns) vrt_fail ("C11", "returned count although object %d had been made ready (by a call that returned at %ld) before the deadline %lld", i, at, (long long) dlns);
			if (kind_of[i] == 0 && (ndl[i] < dlns || ndl[i] < t0))
				vrt_fail ("C11", "returned count although the deadline %lld of note %d lies before the call's start or deadline", (long long) ndl[i], i);
		}
	}
	if (use_mu) { vrt_releasing (&mu, 1); vrt_sh_set (HOLDER, 0); vrt_note ("muunlock %d", me); nsync_mu_unlock (&mu); }
	/* the frame of nsync_wait_n (and deep_call) is dead now: wake everything; any leftover registration is touched */
	make_all_ready ();
}

static void actor (void *a) {
	int i = (int) (long) a;
	vrt_point ("actor");
	if (kind_of[i] == 0) ready_note (i);
	else if (kind_of[i] == 1) ready_counter (i);
	else wake_cv (i, (int) vrt_rand (2));
	vrt_count ("actor");
}

static int ncall, nact, act_obj[MAXO + 1], npre;
static char nm[12][8];
static void spawn_all (void) {
	int i;
	for (i = 0; i < ncall; i++) { snprintf (nm[i], 8, "c%d", i); vrt_thread (nm[i], caller, NULL); }
	for (i = 0; i < nact; i++) {
		snprintf (nm[4 + i], 8, "a%d", i);
		vrt_thread (nm[4 + i], actor, (void *) (long) act_obj[i]);
	}
}
/* pre-phase (VRT_PRE): +1/-1 pairs and value reads on the counters BEFORE any wait has started (the counter's contract forbids
   increments from zero once a wait began); every returned value must be one the counter can hold: at most one increment per
   pre-thread is outstanding at any time */
static void pre_thr (void *a) {
	int me = vrt_self (), rounds = 1 + (int) vrt_rand (2), k, i, nc = 0, cs[MAXO];
	for (i = 0; i < nobj; i++) if (kind_of[i] == 1) cs[nc++] = i;
	for (k = 0; k < rounds && nc > 0; k++) {
		unsigned v, lo;
		i = cs[vrt_rand (nc)];
		lo = base0[i];
		vrt_note ("ab %d add %d 1", me, i); v = nsync_counter_add (ctrs[i], 1); vrt_note ("ae %d", me);
		if (v < lo + 1 || v > lo + npre) vrt_fail ("C10", "nsync_counter_add (+1) on counter %d returned %u, possible: %u..%u", i, v, lo + 1, lo + npre);
		if (vrt_rand (2)) { v = nsync_counter_value (ctrs[i]); if (v < lo + 1 || v > lo + npre) vrt_fail ("C10", "nsync_counter_value of counter %d = %u, possible: %u..%u", i, v, lo + 1, lo + npre); }
		vrt_note ("ab %d add %d -1", me, i); v = nsync_counter_add (ctrs[i], -1); vrt_note ("ae %d", me);
		if (v < lo || v > lo + npre - 1) vrt_fail ("C10", "nsync_counter_add (-1) on counter %d returned %u, possible: %u..%u", i, v, lo, lo + npre - 1);
		if (vrt_rand (2)) { v = nsync_counter_value (ctrs[i]); if (v < lo || v > lo + npre - 1) vrt_fail ("C10", "nsync_counter_value of counter %d = %u, possible: %u..%u", i, v, lo, lo + npre - 1); }
		vrt_count ("pre_pair");
	}
	if (vrt_sh_add (PREDONE, 1) == npre) {
		for (i = 0; i < nobj; i++) if (kind_of[i] == 1 && nsync_counter_value (ctrs[i]) != base0[i])
			vrt_fail ("C10", "after all +1/-1 pairs counter %d is %u, not its initial value %u", i, nsync_counter_value (ctrs[i]), base0[i]);
		spawn_all ();
	}
}

int main (void) {
	int i, have_ctr = 0;
	ncall = 1 + (int) vrt_rand (2);
	nobj = vrt_opt ("NOBJ", 1 + (int) vrt_rand (MAXO));
	vrt_register (&mu, sizeof (mu), "mu0");
	for (i = 0; i < nobj; i++) {
		kind_of[i] = vrt_opt ("KIND", (int) vrt_rand (3));
		ndl[i] = INT64_MAX;
		if (kind_of[i] == 0) {
			int ready = vrt_rand (5) == 0;
			nsync_time d = vrt_rand (4) == 0 ? vrt_abs (1200) : nsync_time_no_deadline;
			if (nsync_time_cmp (d, nsync_time_no_deadline) != 0) ndl[i] = ts_ns (d);
			notes[i] = nsync_note_new (NULL, d);
			if (ready) { nsync_note_notify (notes[i]); vrt_sh_set (RDY (i), 1); ready0[i] = 1; }
		} else if (kind_of[i] == 1) {
			int zero = vrt_rand (5) == 0;
			ctrs[i] = nsync_counter_new (zero ? 0 : 1);
			base0[i] = zero ? 0 : 1;
			have_ctr = 1;
			if (zero) { vrt_sh_set (DEC (i), 1); vrt_sh_set (RDY (i), 1); ready0[i] = 1; }
		}
	}
	for (i = 0; i < nobj; i++) {
		char tb[32];
		if (kind_of[i] == 0) vrt_note ("obj %d N %d %s", i, nsync_note_is_notified (notes[i]), tm_str (nsync_note_expiry (notes[i]), tb));
		else if (kind_of[i] == 1) vrt_note ("obj %d C %u", i, nsync_counter_value (ctrs[i]));
		else vrt_note ("obj %d V", i);
	}
	/* decide the actors first: callers need to know whether readiness is guaranteed */
	nact = (int) vrt_rand (nobj + 1);
	for (i = 0; i < nact; i++) { act_obj[i] = (int) vrt_rand (nobj); if (kind_of[act_obj[i]] != 2) sticky_actor = 1; }
	npre = have_ctr && vrt_opt ("PRE", vrt_rand (3) == 0) ? 1 + (int) vrt_rand (2) : 0;
	if (npre == 0) spawn_all ();
	else for (i = 0; i < npre; i++) { snprintf (nm[10 + i], 8, "p%d", i); vrt_thread (nm[10 + i], pre_thr, NULL); }
	vrt_run ();
	printf ("VRT-END ok\n");
	return 0;
}
