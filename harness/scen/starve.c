/* starve (C14): a victim blocks in nsync_mu_lock / nsync_mu_rlock while bargers keep taking the mutex.
   ADVERSARY=1: a scenario-directed scheduler lets a barger take the mutex in every window between the victim's
   wake-up and its next attempt (the victim runs only while a barger pauses inside its critical section).
   ADVERSARY=0: random schedules with several bargers.
   Oracle: the number of times the victim blocks on its semaphore inside ONE lock call is bounded by
   LONG_WAIT_THRESHOLD + slack (once it has lost the race that often, fresh threads can no longer overtake it). */
#include "nsync_cpp.h"
#include "platform.h"
#include "compiler.h"
#include "cputype.h"
#include "nsync.h"
#include "dll.h"
#include "sem.h"
#include "wait_internal.h"
#include "common.h"      /* LONG_WAIT_THRESHOLD: the library's own fixed threshold (C14: "a fixed number of times") */
#include "atomic.h"
#include "vrt.h"
#include <stdio.h>

static nsync_mu mu;
static int victim_tid, nbarger, kind;     /* kind 0: writer among writers, 1: writer among readers, 2: reader among writers */
#define HOLD 3        /* shadow: number of bargers pausing inside their critical section */
#define VDONE 4
#define BOUND (LONG_WAIT_THRESHOLD + 4)

static void victim (void *a) {
	long before = vrt_sleeps_of (vrt_self ()), n;
	if (kind == 2) { nsync_mu_rlock (&mu); nsync_mu_runlock (&mu); }
	else { nsync_mu_lock (&mu); nsync_mu_unlock (&mu); }
	n = vrt_sleeps_of (vrt_self ()) - before;
	vrt_sh_set (VDONE, 1);
	vrt_note ("victim slept %ld times", n);
	if (n > BOUND) vrt_fail ("C14", "the victim blocked %ld times inside one lock call (bound %d): it is overtaken indefinitely", n, BOUND);
	if (n >= LONG_WAIT_THRESHOLD) vrt_count ("victim_escalated");
	vrt_count ("victim_done");
}
static void barger (void *a) {
	int k, rounds = vrt_opt ("ROUNDS", 2 * LONG_WAIT_THRESHOLD);   /* enough arrivals to exceed BOUND if nothing stopped them */
	for (k = 0; k < rounds && !vrt_sh_get (VDONE); k++) {
		int reader = (kind == 1);
		if (reader) nsync_mu_rlock (&mu); else if (vrt_rand (4) == 0) { if (!nsync_mu_trylock (&mu)) continue; } else nsync_mu_lock (&mu);
		vrt_sh_add (HOLD, 1);
		vrt_point ("hold");
		vrt_sh_add (HOLD, -1);
		if (reader) nsync_mu_runlock (&mu); else nsync_mu_unlock (&mu);
	}
}
/* adversary: run the victim only while some barger pauses inside its critical section (so its attempt fails), or when
   no barger can run; otherwise prefer a barger that is NOT pausing (it releases and immediately re-takes the mutex) */
static int choose (int n, const int *r, int cur) {
	int i, v = -1, b_free = -1, b_hold = -1;
	for (i = 0; i < n; i++) {
		if (r[i] == victim_tid) v = r[i]; else if (b_free < 0) b_free = r[i];
	}
	(void) b_hold; (void) cur;
	if (v >= 0 && vrt_sh_get (HOLD) > 0) return v;          /* somebody holds: let the victim try and fail */
	if (b_free >= 0) return r[vrt_rand (n)] == victim_tid ? b_free : r[vrt_rand (n)] == victim_tid ? b_free : b_free;
	return v;
}
int main (void) {
	int i;
	static char nm[6][8];
	kind = vrt_opt ("KIND", (int) vrt_rand (3));
	nbarger = vrt_opt ("BARGERS", 1 + (int) vrt_rand (3));
	vrt_register (&mu, sizeof (mu), "mu0");
	for (i = 0; i < nbarger; i++) { snprintf (nm[i], 8, "b%d", i); vrt_thread (nm[i], barger, NULL); }
	victim_tid = vrt_thread ("victim", victim, NULL);
	if (vrt_opt ("ADVERSARY", 1)) vrt_set_chooser (choose);
	vrt_run ();
	printf ("VRT-END ok\n");
	return 0;
}
