/* longwait_stuck: does the real nsync show the livelock that Model/MuWaitModel.v shows between MU_LONG_WAIT and
   mu_try_acquire_after_timeout_or_cancel?

   mu_try_acquire_after_timeout_or_cancel spins until (word & (MU_WZERO_TO_ACQUIRE|MU_SPINLOCK)) == 0, and MU_WZERO_TO_ACQUIRE
   contains MU_LONG_WAIT.  If the timed-out waiter T has meanwhile been WOKEN by an unlocker (so T is the thread everybody
   relies on to take the mutex next and wake the others when it releases), while a long waiter V (woken LONG_WAIT_THRESHOLD
   times without getting the lock) has queued itself again with MU_LONG_WAIT set, T can never get in (MU_LONG_WAIT is cleared
   only by V's acquisition), V is never woken (nobody holds or will hold the mutex), and every later nsync_mu_lock / rlock /
   trylock fails or queues behind V because of MU_LONG_WAIT: the mutex is dead.

   Threads:  V   nsync_mu_rlock; nsync_mu_runlock                       victim, becomes the long waiter
             R2  nsync_mu_rlock; nsync_mu_runlock                       woken together with V in the last round; clears MU_DESIG_WAKER
             B   (nsync_mu_lock; nsync_mu_unlock) x LONG_WAIT_THRESHOLD  barger
             T   nsync_mu_lock; nsync_mu_wait_with_deadline (c0, +10ms); nsync_mu_unlock
             S   nsync_mu_lock; x0 = 1; nsync_mu_unlock                 makes T's condition true; its unlock scans and wakes T
   The scripted scheduler (SCRIPT=1) plays the model's schedule. */
#include "nsync_cpp.h"
#include "platform.h"
#include "compiler.h"
#include "cputype.h"
#include "nsync.h"
#include "dll.h"
#include "sem.h"
#include "wait_internal.h"
#include "common.h"
#include "atomic.h"
#include "vrt.h"
#include <stdio.h>
#include <errno.h>
#include <limits.h>
#include <unistd.h>
#include <sys/syscall.h>
#include <linux/futex.h>

#define NOSAN __attribute__ ((no_sanitize ("thread")))
static nsync_mu mu;
static int x0;
static int tV, tR2, tB, tT, tS, tO;
static int64_t t_deadline;
#define B_HOLD 3
#define B_ROUND 4     /* number of unlocks B has completed */
#define S_EVAL 5
#define T_SPIN 6
#define PHASE 7
#define ROUND 8
#define T_RET 9
#define OBS_GO 10
#define TSTEPS 11

NOSAN static uint32_t mu_word_peek (void) { return *(volatile uint32_t *) &mu.word; }
static int c0 (const void *v) {
	if (vrt_self () == tS) { vrt_sh_set (S_EVAL, 1); vrt_point ("s-eval"); }
	return x0 != 0;
}
static void thrV (void *a) { nsync_mu_rlock (&mu); nsync_mu_runlock (&mu); }
static void thrR2 (void *a) { nsync_mu_rlock (&mu); nsync_mu_runlock (&mu); }
static void thrB (void *a) {
	int k;
	for (k = 0; k < LONG_WAIT_THRESHOLD; k++) {
		nsync_mu_lock (&mu);
		vrt_sh_set (B_HOLD, 1);
		vrt_point ("b-hold");
		vrt_sh_set (B_HOLD, 0);
		nsync_mu_unlock (&mu);
		vrt_sh_add (B_ROUND, 1);
		vrt_point ("b-free");
	}
}
static void thrT (void *a) {
	int r;
	nsync_mu_lock (&mu);
	r = nsync_mu_wait_with_deadline (&mu, c0, NULL, NULL, vrt_abs (10000000), NULL);
	vrt_sh_set (T_RET, 1 + r);
	nsync_mu_unlock (&mu);
}
static void thrS (void *a) { nsync_mu_lock (&mu); x0 = 1; nsync_mu_unlock (&mu); }

static void monitor (volatile void *p, uint32_t o, uint32_t n, const char *file, int line) {
	if (p == (volatile void *) &mu.word && vrt_self () == tT && (o & MU_WRITER_WAITING) == 0 && (n & MU_WRITER_WAITING) != 0 &&
	    vrt_sh_get (S_EVAL)) vrt_sh_set (T_SPIN, 1);
}

static void observer (void *a) {
	uint32_t w = mu_word_peek ();
	vrt_note ("observer: word %u V blocked %d T blocked %d finished %d", w, vrt_is_blocked (tV), vrt_is_blocked (tT), vrt_is_finished (tT));
	if ((w & (MU_WLOCK | MU_RLOCK_FIELD)) == 0 && (w & MU_LONG_WAIT) != 0 && vrt_is_blocked (tV) && !vrt_is_finished (tT) && !vrt_is_blocked (tT))
		vrt_fail ("C02", "LIVELOCK: the mutex is free (word %u = 0x%x: MU_LONG_WAIT %d MU_WRITER_WAITING %d MU_WAITING %d MU_DESIG_WAKER %d), the long waiter V "
			  "is asleep on the queue, B, R2 and S have finished, and T -- woken by S's unlock -- has been spinning in "
			  "mu_try_acquire_after_timeout_or_cancel for %ld scheduling points without the word changing", w, w,
			  (w & MU_LONG_WAIT) != 0, (w & MU_WRITER_WAITING) != 0, (w & MU_WAITING) != 0, (w & MU_DESIG_WAKER) != 0, vrt_sh_get (TSTEPS));
	/* no live-lock: let everybody run on under the default scheduler; a thread left asleep for ever ends the run STUCK */
}

static int has (int n, const int *r, int t) { int i; for (i = 0; i < n; i++) if (r[i] == t) return 1; return 0; }
static int choose (int n, const int *r, int cur) {
	long ph = vrt_sh_get (PHASE);
	for (;;) {
		switch (ph) {
		case 0: if (!vrt_is_blocked (tT)) { if (has (n, r, tT)) return tT; return -1; } ph = 1; break;           /* T waits */
		case 1: if (!vrt_sh_get (B_HOLD)) { if (has (n, r, tB)) return tB; return -1; } ph = 2; break;           /* B holds */
		case 2: if (!vrt_is_blocked (tV)) { if (has (n, r, tV)) return tV; return -1; } ph = 3; break;           /* V queued */
		case 3: /* rounds 1 .. LONG_WAIT_THRESHOLD-1: B unlocks (wakes V), B barges, V fails and queues again */
			if (vrt_sh_get (ROUND) >= LONG_WAIT_THRESHOLD - 1) { ph = 6; break; }
			if (vrt_sh_get (B_ROUND) <= vrt_sh_get (ROUND)) { if (has (n, r, tB)) return tB; return -1; }
			ph = 4; break;
		case 4: if (!vrt_sh_get (B_HOLD)) { if (has (n, r, tB)) return tB; return -1; } ph = 5; break;
		case 5: if (!vrt_is_blocked (tV)) { if (has (n, r, tV)) return tV; return -1; } vrt_sh_add (ROUND, 1); ph = 3; break;
		case 6: if (!vrt_is_blocked (tR2)) { if (has (n, r, tR2)) return tR2; return -1; } ph = 7; break;       /* R2 queued */
		case 7: if (!vrt_is_finished (tB)) { if (has (n, r, tB)) return tB; return -1; } ph = 8; break;         /* last unlock: wakes V and R2 */
		case 8: if (!vrt_is_finished (tR2)) { if (has (n, r, tR2)) return tR2; return -1; } ph = 9; break;      /* R2 in and out */
		case 9: if (!vrt_sh_get (S_EVAL)) { if (has (n, r, tS)) return tS; return -1; }                         /* S scanning, evaluating T's condition */
			vrt_clock_forward_to (t_deadline + 1); ph = 10; break;
		case 10: if (!vrt_sh_get (T_SPIN) && !vrt_is_finished (tT)) { if (has (n, r, tT)) return tT; return -1; } ph = 11; break;   /* T timed out, spins */
		case 11: if (!vrt_is_blocked (tV) && !vrt_is_finished (tV)) { if (has (n, r, tV)) return tV; return -1; } ph = 12; break;  /* V queues with MU_LONG_WAIT */
		case 12: if (!vrt_is_finished (tS)) { if (has (n, r, tS)) return tS; return -1; } ph = 13; break;        /* S finishes: wakes T */
		case 13: if (vrt_sh_get (TSTEPS) < 3000 && !vrt_is_finished (tT)) { if (has (n, r, tT)) { vrt_sh_add (TSTEPS, 1); return tT; } }
			 ph = 14; break;
		default: vrt_sh_set (PHASE, ph); if (has (n, r, tO)) return tO; return -1;
		}
		vrt_sh_set (PHASE, ph);
	}
}
/* under the script the observer runs only when the chooser lets it; without a script it naps */
static uint32_t nap_word;
NOSAN static void nap_until (int64_t abs_ns) {
	struct timespec ts;
	ts.tv_sec = abs_ns / 1000000000LL; ts.tv_nsec = abs_ns % 1000000000LL;
	while (vrt_now_ns () < abs_ns)
		syscall (SYS_futex, &nap_word, (long) (FUTEX_WAIT_BITSET | FUTEX_PRIVATE_FLAG | FUTEX_CLOCK_REALTIME), 0L, &ts, NULL, -1L);
}
static void observer_entry (void *a) {
	if (!vrt_opt ("SCRIPT", 1)) { nap_until (vrt_now_ns () + 5000000000LL); if (vrt_is_finished (tT) && vrt_is_finished (tV)) return; }
	observer (a);
}

int main (void) {
	vrt_register (&mu, sizeof (mu), "mu0");
	{ struct timespec ts = vrt_abs (10000000); t_deadline = (int64_t) ts.tv_sec * 1000000000LL + ts.tv_nsec; }
	tV = vrt_thread ("V", thrV, NULL);
	tR2 = vrt_thread ("R2", thrR2, NULL);
	tB = vrt_thread ("B", thrB, NULL);
	tT = vrt_thread ("T", thrT, NULL);
	tS = vrt_thread ("S", thrS, NULL);
	tO = vrt_thread ("obs", observer_entry, NULL);
	vrt_set_write_monitor (monitor);
	if (vrt_opt ("SCRIPT", 1)) vrt_set_chooser (choose);
	vrt_run ();
	printf ("VRT-END ok\n");
	return 0;
}
