/* refcount_cv (C13, mutex half, F15 shape): the WRITE-mode reference-count pattern
       lock; last = (--refs == 0); unlock; if (last) free (obj);
   on a malloc'ed {nsync_mu mu; int refs;} whose users also make an extra reader round with a condition-variable wait, while a
   thread that is NOT a user of the object waits on the same cv through nsync_wait_n (the cv is not part of the object).
     users: A, Y, D, T2 (refs = 4).  Z: nsync_wait_n (NULL, ..., {cv}).
     Y: rlock; nsync_cv_wait (cv, mu); runlock; ...; decrement round
     A: lock; [D queues behind A and sleeps]; unlock (D is woken: designated waker, not yet running);
        rlock; nsync_cv_broadcast (cv) -- Y is a reader that can acquire, Z's record is not a mutex waiter: NOBODY is transferred,
        but wake_waiters' first CAS has set MU_WAITING; runlock; decrement round
     D: its decrement round: its unlock sees MU_WAITING without a designated waker, takes the spinlock and drops the lock bit EARLY
        (nsync_mu_unlock_slow_), with an EMPTY queue -- nobody who still owns a reference pins the mutex;
     T2: lock; last = (--refs == 0): yes; unlock (designated-waker bit set by D: plain CAS path); free.
     D then reads mu->waiters and CASes mu->word in freed memory.
   Oracle: the arena (the block is unmapped on free).  VRT_SCRIPT=1 (default) directs the schedule with a chooser that holds D back
   between its wake-up and the others' rounds and again inside the early-release window; VRT_SCRIPT=0 leaves everything to the random
   scheduler (the same program; the window is then hit rarely). */
#include "nsync_cpp.h"
#include "platform.h"
#include "compiler.h"
#include "cputype.h"
#include "nsync.h"
#include "dll.h"
#include "sem.h"
#include "wait_internal.h"
#include "common.h"
#include "atomic.h"
#include "nsync_waiter.h"
#include "vrt.h"
#include <stdio.h>
#include <stdlib.h>

struct obj { nsync_mu mu; int refs; };
static struct obj *o;
static nsync_cv cv;              /* NOT part of the freed object */
static int tidA, tidY, tidZ, tidD, tidT2, script;
#define HOLD_D 3                 /* shadow: the chooser keeps D off the processor while anybody else can run */
#define Y_READ 4                 /* Y has finished its reader round */
#define D_GO 5                   /* D may start its decrement round */
#define FREED 6
#define A_DONE 7
#define Y_DONE 8
#define FLAG 9                   /* the condition Y waits for (a shadow variable: the scenario's own data stays out of the race detection) */
#define A_HOLDS 10

static int choose (int n, const int *runnable, int cur) {
	int i, k = 0, pick[16];
	if (!vrt_sh_get (HOLD_D)) {
		/* also hold D back once it is INSIDE the early-release window (spinlock held, lock bits clear) after Y's round, whether or not T2 has
		   noticed yet: T2 polls with yields and would otherwise see the window only by luck (fourth review, M2) */
		uint32_t w;
		if (vrt_sh_get (FREED) || !vrt_sh_get (Y_DONE)) return -1;
		w = vrt_peek32 (&o->mu.word);
		if (!((w & MU_SPINLOCK) != 0 && (w & (MU_WLOCK | MU_RLOCK_FIELD)) == 0)) return -1;
		vrt_count ("chooser_saw_window");
	}
	for (i = 0; i < n && k < 16; i++) if (runnable[i] != tidD) pick[k++] = runnable[i];
	if (k == 0) return -1;
	return pick[vrt_rand ((uint32_t) k)];
}
static void dec_round (void) {
	int last;
	nsync_mu_lock (&o->mu);
	last = (--o->refs == 0);
	nsync_mu_unlock (&o->mu);
	if (last) { vrt_sh_set (FREED, 1); free (o); vrt_count ("freed"); }
}
static void thrY (void *a) {
	nsync_mu_rlock (&o->mu);
	while (!vrt_sh_get (FLAG)) nsync_cv_wait (&cv, &o->mu);     /* extra reader round with a cv wait */
	nsync_mu_runlock (&o->mu);
	vrt_sh_set (Y_READ, 1);
	while (!vrt_sh_get (A_DONE)) vrt_yield ();
	dec_round ();
	vrt_sh_set (Y_DONE, 1);
}
static void thrZ (void *a) {                     /* not a user of o */
	struct nsync_waitable_s w, *pw[1];
	w.v = &cv; w.funcs = &nsync_cv_waitable_funcs; pw[0] = &w;
	if (script) while (!vrt_is_blocked (tidY)) vrt_yield ();      /* the shape needs the READER first on the cv queue and this record behind it */
	nsync_wait_n (NULL, NULL, NULL, nsync_time_no_deadline, 1, pw);
}
static void thrD (void *a) {
	/* the lock call below queues behind A; everything after it is D's decrement round */
	int last;
	while (!vrt_sh_get (A_HOLDS)) vrt_yield ();
	nsync_mu_lock (&o->mu);
	last = (--o->refs == 0);
	nsync_mu_unlock (&o->mu);
	if (last) { vrt_sh_set (FREED, 1); free (o); vrt_count ("freed"); }
}
static void thrT2 (void *a) {
	/* starts its round once D is inside the early-release window: spinlock held, lock bits clear (peeked, un-instrumented) */
	for (;;) {
		uint32_t w;
		if (vrt_sh_get (FREED)) return;      /* cannot happen before our own decrement; defensive */
		w = vrt_peek32 (&o->mu.word);
		if (vrt_sh_get (Y_DONE) && (w & MU_SPINLOCK) != 0 && (w & (MU_WLOCK | MU_RLOCK_FIELD)) == 0) { vrt_count ("t2_saw_window"); break; }
		if (vrt_sh_get (Y_DONE) && vrt_is_finished (tidD)) break;      /* D got through without a window: just finish the pattern */
		vrt_yield ();
	}
	if (script) vrt_sh_set (HOLD_D, 1);
	dec_round ();
	vrt_sh_set (HOLD_D, 0);
}
static void thrA (void *a) {
	while (!vrt_is_blocked (tidY) || !vrt_is_blocked (tidZ)) vrt_yield ();   /* Y and Z are asleep on the cv */
	nsync_mu_lock (&o->mu);                          /* extra write round */
	vrt_sh_set (A_HOLDS, 1);
	while (!vrt_is_blocked (tidD)) vrt_yield ();     /* D queues behind A and sleeps */
	if (script) vrt_sh_set (HOLD_D, 1);
	nsync_mu_unlock (&o->mu);                        /* wakes D: designated waker */
	nsync_mu_rlock (&o->mu);                         /* extra reader round */
	vrt_sh_set (FLAG, 1);
	nsync_cv_broadcast (&cv);                        /* Y can acquire, Z is an nsync_wait_n record: nobody is transferred */
	/* keep the read lock until Y has made its reader round (two readers: the releases take the plain-CAS path) -- unless Y went to sleep
	   on the mutex itself behind a writer that got in between (unscripted schedules): then waiting here would be the scenario's own deadlock */
	while (!vrt_sh_get (Y_READ) && !vrt_is_blocked (tidY)) vrt_yield ();
	nsync_mu_runlock (&o->mu);
	dec_round ();
	vrt_sh_set (A_DONE, 1);
	while (!vrt_sh_get (Y_DONE)) vrt_yield ();
	vrt_sh_set (HOLD_D, 0);                          /* D now acquires: its decrement round */
}
int main (void) {
	script = vrt_opt ("SCRIPT", 1);
	o = (struct obj *) malloc (sizeof (*o));
	nsync_mu_init (&o->mu);
	nsync_cv_init (&cv);
	o->refs = 4;
	tidY = vrt_thread ("Y", thrY, NULL);
	tidZ = vrt_thread ("Z", thrZ, NULL);
	tidA = vrt_thread ("A", thrA, NULL);
	tidD = vrt_thread ("D", thrD, NULL);
	tidT2 = vrt_thread ("T2", thrT2, NULL);
	if (script) vrt_set_chooser (choose);
	vrt_run ();
	printf ("VRT-END ok\n");
	return 0;
}
