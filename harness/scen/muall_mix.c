/* muall_mix (C06 "alongside cv waiters"; tie of coq/Model/MuAllModel.v): the interplay of cv.c's wake_waiters with the
   CONDITIONAL scan of nsync_mu_unlock_slow_.  Conditional waiters M (conditions that stay false until the end, so every
   nsync_mu_unlock / nsync_mu_runlock by anybody swaps mu->waiters out, RELEASES the spinlock and evaluates them), cv waiters C
   in writer or reader mode that wait several times, lockers that lock / unlock in a loop, and a signaller that bumps the cv
   waiters' counter under the lock and then calls nsync_cv_signal / nsync_cv_broadcast holding NO lock (and sometimes a read
   lock): a wake_waiters that finds the write bit set by a scanner which has released the spinlock takes the spinlock, appends
   the cv waiters to mu->waiters (NULL plus earlier arrivals, the scanner has the rest in private lists), applies F15's
   "queue empty => clear MU_WAITING" test to that list, and the scanner's next round picks the arrivals up.
   Notes / snapshot exactly as muwait_mix (replay/muall_replay.ml).  Oracles: check_eval (C06: a condition is evaluated only
   under the lock, no other thread inside a write section), every waiter returns (stuck detector: no deadlines anywhere),
   returns of nsync_mu_wait with a true condition. */
#include "nsync_cpp.h"
#include "platform.h"
#include "compiler.h"
#include "cputype.h"
#include "nsync.h"
#include "dll.h"
#include "sem.h"
#include "wait_internal.h"
#include "common.h"
#include "atomic.h"
#include "vrt.h"
#include <stdio.h>
#include <errno.h>
#include <limits.h>
#include <unistd.h>
#include <sys/syscall.h>
#include <linux/futex.h>

static nsync_mu mu;
static nsync_cv cv;
static int x[4];               /* protected by mu */
static int go;                 /* protected by mu: what the cv waiters wait for */
struct box { int idx; };
static struct box b0 = { 0 }, b0_alias = { 0 }, b1 = { 1 }, b2 = { 2 };
#define WOWNER 8               /* shadow: tid of the thread inside a write section, or 0 */
#define SH_DONE 20             /* shadow: number of cv waiters + signallers that have finished */
#define SH_GATE 21
#define NOSAN __attribute__ ((no_sanitize ("thread")))
#define ROUNDS 3

static int arg_id (const void *v) { return v == &b0 ? 0 : v == &b0_alias ? 1 : v == &b1 ? 2 : v == &b2 ? 3 : 4; }
static void snapshot (char *buf, size_t n) {
	size_t k = 0;
	nsync_dll_element_ *last = mu.waiters, *p;
	k += snprintf (buf + k, n - k, "Q");
	if (last != NULL) {
		p = last->next;
		for (;;) {
			char nm[40], np[40], nn[40];
			waiter *w = CONTAINER (waiter, nw, (struct nsync_waiter_s *) p->container);
			vrt_region_name (p->container, nm, sizeof (nm));
			vrt_region_name (w->same_condition.prev, np, sizeof (np));
			vrt_region_name (w->same_condition.next, nn, sizeof (nn));
			k += snprintf (buf + k, n - k, " %s/%s/%s", nm, np, nn);
			if (p == last || k > n - 130) break;
			p = p->next;
		}
	}
}
NOSAN static uint32_t mu_word_peek (void) { return *(volatile uint32_t *) &mu.word; }
static void check_eval (void) {
	long o = vrt_sh_get (WOWNER);
	uint32_t w = mu_word_peek ();
	vrt_count ("cond_eval");
	if (o != 0 && o != vrt_self ()) vrt_fail ("C06", "condition evaluated by thread %d while thread %ld is inside a write critical section", vrt_self (), o);
	if ((w & MU_WLOCK) == 0 && (w & MU_RLOCK_FIELD) == 0)
		vrt_fail ("C06", "condition evaluated by thread %d while nobody holds the mutex (word %u)", vrt_self (), w);
}
static int nonzero (const void *v) { int r; check_eval (); r = x[((const struct box *) v)->idx] != 0; vrt_note ("eval %d 0 %d %d", vrt_self (), arg_id (v), r); return r; }
static int two (const void *v) { int r; check_eval (); r = x[((const struct box *) v)->idx] >= 2; vrt_note ("eval %d 1 %d %d", vrt_self (), arg_id (v), r); return r; }
static void wsection_begin (void) { vrt_acquired (&mu, 1); vrt_sh_set (WOWNER, vrt_self ()); }
static void wsection_end (void) { vrt_sh_set (WOWNER, 0); vrt_releasing (&mu, 1); }

static uint32_t gate;
NOSAN static void gate_wait (uint32_t *g, int sh) {
	while (!vrt_sh_get (sh)) syscall (SYS_futex, g, (long) (FUTEX_WAIT_BITSET | FUTEX_PRIVATE_FLAG), 0L, NULL, NULL, -1L);
}
NOSAN static void gate_open (uint32_t *g, int sh) {
	vrt_sh_set (sh, 1);
	*g = 1;
	syscall (SYS_futex, g, (long) (FUTEX_WAKE | FUTEX_PRIVATE_FLAG), (long) INT_MAX, NULL, NULL, 0L);
}
static int n_parties;
static void party_done (void) { if (vrt_sh_add (SH_DONE, 1) == n_parties) gate_open (&gate, SH_GATE); }

/* a conditional waiter: kind 0: two (&b2), writer;  1: nonzero (&b1), reader;  2: nonzero (&b1), writer (same condition as 1) */
static void mwaiter (void *a) {
	int kind = (int) (long) a, writer = kind != 1, r;
	int (*f) (const void *) = kind == 0 ? two : nonzero;
	const struct box *arg = kind == 0 ? &b2 : &b1;
	if (writer) { nsync_mu_lock (&mu); wsection_begin (); wsection_end (); } else { nsync_mu_rlock (&mu); vrt_acquired (&mu, 0); vrt_releasing (&mu, 0); }
	vrt_note ("mwait %d %d %d 0 none 0", vrt_self (), f == nonzero ? 0 : 1, arg_id (arg));
	r = nsync_mu_wait_with_deadline (&mu, f, arg, NULL, nsync_time_no_deadline, NULL);
	vrt_note ("mwret %d %d", vrt_self (), r);
	if (writer) wsection_begin (); else vrt_acquired (&mu, 0);
	if (r != 0 || !(f == nonzero ? x[arg->idx] != 0 : x[arg->idx] >= 2)) vrt_fail ("C05", "nsync_mu_wait returned %d with its condition false", r);
	if (writer) { wsection_end (); nsync_mu_unlock (&mu); } else { vrt_releasing (&mu, 0); nsync_mu_runlock (&mu); }
	vrt_count ("ret_true");
}
static void cvwaiter (void *a) {
	int reader = (int) (long) a;
	if (reader) {
		nsync_mu_rlock (&mu); vrt_acquired (&mu, 0);
		while (go < ROUNDS) { vrt_releasing (&mu, 0); nsync_cv_wait (&cv, &mu); vrt_acquired (&mu, 0); vrt_count ("cv_woken"); }
		vrt_releasing (&mu, 0); nsync_mu_runlock (&mu);
	} else {
		nsync_mu_lock (&mu); wsection_begin ();
		while (go < ROUNDS) { wsection_end (); nsync_cv_wait (&cv, &mu); wsection_begin (); vrt_count ("cv_woken"); }
		wsection_end (); nsync_mu_unlock (&mu);
	}
	party_done ();
}
static void locker (void *a) {
	int k, n = 3 + (int) vrt_rand (4);
	for (k = 0; k < n; k++) {
		if (vrt_rand (4) == 0) { nsync_mu_rlock (&mu); vrt_acquired (&mu, 0); vrt_releasing (&mu, 0); nsync_mu_runlock (&mu); }
		else { nsync_mu_lock (&mu); wsection_begin (); if (vrt_rand (2)) vrt_point ("in-section"); wsection_end (); nsync_mu_unlock (&mu); }
	}
}
static void signaller (void *a) {
	int k, j;
	for (k = 0; k < ROUNDS; k++) {
		for (j = 0; j < (int) vrt_rand (6); j++) vrt_point ("s-wait");
		nsync_mu_lock (&mu); wsection_begin (); go++; wsection_end (); nsync_mu_unlock (&mu);
		switch (vrt_rand (4)) {
		case 0: nsync_cv_signal (&cv); break;                                   /* no lock held */
		case 1: nsync_mu_rlock (&mu); vrt_acquired (&mu, 0); nsync_cv_broadcast (&cv); vrt_releasing (&mu, 0); nsync_mu_runlock (&mu); break;
		default: nsync_cv_broadcast (&cv); break;                               /* no lock held */
		}
	}
	nsync_cv_broadcast (&cv);             /* a signal wakes one waiter only */
	party_done ();
}
static void finisher (void *a) {
	gate_wait (&gate, SH_GATE);
	nsync_mu_lock (&mu); wsection_begin ();
	x[1] = 1; vrt_note ("setc %d 0 2 1", vrt_self ());
	x[2] = 2; vrt_note ("setc %d 0 3 1", vrt_self ()); vrt_note ("setc %d 1 3 1", vrt_self ());
	wsection_end (); nsync_mu_unlock (&mu);
}

int main (void) {
	int nm = 1 + (int) vrt_rand (3), nc = 1 + (int) vrt_rand (2), nl = 1 + (int) vrt_rand (2), i;
	static char nmb[3][8], ncb[2][8], nlb[2][8];
	vrt_register (&mu, sizeof (mu), "mu0");
	vrt_set_snapshot (snapshot);
	n_parties = nc + 1;
	for (i = 0; i < nm; i++) { snprintf (nmb[i], 8, "M%d", i); vrt_thread (nmb[i], mwaiter, (void *) (long) i); }
	for (i = 0; i < nc; i++) { snprintf (ncb[i], 8, "C%d", i); vrt_thread (ncb[i], cvwaiter, (void *) (long) (vrt_rand (3) == 0)); }
	for (i = 0; i < nl; i++) { snprintf (nlb[i], 8, "L%d", i); vrt_thread (nlb[i], locker, NULL); }
	vrt_thread ("S", signaller, NULL);
	vrt_thread ("F", finisher, NULL);
	vrt_run ();
	printf ("VRT-END ok\n");
	return 0;
}
