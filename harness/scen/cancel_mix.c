/* cancel_mix (C05): cancellable waits with no source of wake-ups other than the note (and the wait's own deadline).
   Note kinds: fresh (notified later by a notifier thread), already notified, expiring (own deadline), child of an
   expiring parent.  Waits: nsync_cv_wait_with_deadline (nobody signals) and nsync_mu_wait_with_deadline on a
   never-true condition, in reader and writer mode, with a deadline that is none / before / after the cancellation.
   Oracles: result ECANCELED only with the note notified, ETIMEDOUT only at/after the deadline, lock held in the
   caller's mode on return; once the note is notified the call needs no further wake-up: a wait without deadline must
   return (stuck detector), and a wait must not report ETIMEDOUT when the notification had completed before its deadline. */
#include "nsync.h"
#include "vrt.h"
#include <stdio.h>
#include <errno.h>
#include <stdint.h>

static nsync_mu mu;
static nsync_cv cv;
static nsync_note parent_note, note;
static int kind;                     /* 0 fresh, 1 already notified, 2 expiring, 3 child of expiring parent */
#define NOTIFY_DONE_AT 9             /* shadow: virtual time at which the cancellation was complete (0 = not yet) */
static int64_t ts_ns (nsync_time t) { return (int64_t) t.tv_sec * 1000000000LL + t.tv_nsec; }
static int never (const void *v) { return 0; }

static void waiter (void *a) {
	int use_mu_wait = (int) vrt_rand (2), writer = (int) vrt_rand (2), dk = (int) vrt_rand (3), r;
	nsync_time dl = dk == 0 ? nsync_time_no_deadline : vrt_abs (dk == 1 ? 600 : 4000);
	int64_t dl_ns = dk == 0 ? INT64_MAX : ts_ns (dl);
	if (writer) nsync_mu_lock (&mu); else nsync_mu_rlock (&mu);
	vrt_acquired (&mu, writer);
	vrt_releasing (&mu, writer);
	if (use_mu_wait) r = nsync_mu_wait_with_deadline (&mu, never, NULL, NULL, dl, note);
	else { r = 0; while (r == 0) r = nsync_cv_wait_with_deadline (&cv, &mu, dl, note); }
	vrt_acquired (&mu, writer);
	if (r == ECANCELED) {
		vrt_count ("ret_cancel");
		if (!nsync_note_is_notified (note)) vrt_fail ("C05", "ECANCELED but the note is not notified");
	} else if (r == ETIMEDOUT) {
		long done = vrt_sh_get (NOTIFY_DONE_AT);
		vrt_count ("ret_timeout");
		if (dk == 0) vrt_fail ("C05", "ETIMEDOUT without a deadline");
		if (vrt_now_ns () < dl_ns) vrt_fail ("C05", "ETIMEDOUT before the deadline");
		if (done != 0 && done < dl_ns) vrt_fail ("C05", "the note was notified (completely, at %ld) before the deadline %lld, yet the wait slept on and reported ETIMEDOUT", done, (long long) dl_ns);
	} else vrt_fail ("C05", "a wait that nobody wakes returned %d", r);
	vrt_releasing (&mu, writer);
	if (writer) nsync_mu_unlock (&mu); else nsync_mu_runlock (&mu);
}
static void notifier (void *a) {
	int k, n = (int) vrt_rand (12);
	for (k = 0; k < n; k++) vrt_point ("before-notify");
	nsync_note_notify (kind == 3 && vrt_rand (2) ? parent_note : note);
	if (nsync_note_is_notified (note)) vrt_sh_set (NOTIFY_DONE_AT, (long) vrt_now_ns ());
	vrt_count ("notify");
}
static void bystander (void *a) {     /* keeps the mutex busy now and then, in both modes */
	int k;
	for (k = 0; k < 3; k++) {
		if (vrt_rand (2)) { nsync_mu_lock (&mu); vrt_acquired (&mu, 1); vrt_point ("busy-w"); vrt_releasing (&mu, 1); nsync_mu_unlock (&mu); }
		else { nsync_mu_rlock (&mu); vrt_acquired (&mu, 0); vrt_point ("busy-r"); vrt_releasing (&mu, 0); nsync_mu_runlock (&mu); }
	}
}
int main (void) {
	int i, nw = 1 + (int) vrt_rand (2);
	static char nm[4][8];
	kind = vrt_opt ("KIND", (int) vrt_rand (4));
	vrt_register (&mu, sizeof (mu), "mu0");
	if (kind == 3) { parent_note = nsync_note_new (NULL, vrt_abs (1500)); note = nsync_note_new (parent_note, nsync_time_no_deadline); }
	else note = nsync_note_new (NULL, kind == 2 ? vrt_abs (1500) : nsync_time_no_deadline);
	if (kind == 1) { nsync_note_notify (note); vrt_sh_set (NOTIFY_DONE_AT, 1); }
	for (i = 0; i < nw; i++) { snprintf (nm[i], 8, "w%d", i); vrt_thread (nm[i], waiter, NULL); }
	/* somebody always notifies eventually (expiring notes are also notified explicitly so that waits without deadline end) */
	vrt_thread ("ntf", notifier, NULL);
	if (vrt_rand (2)) vrt_thread ("by", bystander, NULL);
	vrt_run ();
	printf ("VRT-END ok\n");
	return 0;
}
