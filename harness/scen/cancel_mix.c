/* cancel_mix (C05): cancellable waits with no source of wake-ups other than the note (and the wait's own deadline).
   Note kinds: fresh (notified later by a notifier thread), already notified, expiring (own deadline), child of an
   expiring parent.  Waits: nsync_cv_wait_with_deadline (nobody signals) and nsync_mu_wait_with_deadline on a
   never-true condition, in reader and writer mode, with a deadline that is none / before / after the cancellation.
   Oracles: result ECANCELED only with the note notified (= nsync_note_notify has been called on it or its parent, or its
   expiry time has been reached on the virtual clock; the scenario's own record, not nsync_note_is_notified), ETIMEDOUT only
   at/after the deadline, lock held in the caller's mode on return; once the deadline has passed or the note is notified the
   call needs no further wake-up: a wait without deadline must return (stuck detector), a wait must not report ETIMEDOUT when
   the notification had completed before its deadline, and whenever the notifier thread runs while everybody else is asleep
   or finished, no waiter may be asleep inside a wait whose deadline has passed / whose note has expired or been notified
   (observe ()).  Expiring notes (kinds 2, 3) are notified explicitly only in half of the runs (VRT_OMIT). */
#include "nsync.h"
#include "vrt.h"
#include <stdio.h>
#include <errno.h>
#include <stdint.h>
#include <limits.h>
#include <unistd.h>
#include <sys/syscall.h>
#include <linux/futex.h>

static nsync_mu mu;
static nsync_cv cv;
static nsync_note parent_note, note;
static int kind;                     /* 0 fresh, 1 already notified, 2 expiring, 3 child of expiring parent */
static int omit_notify;              /* kinds 2, 3: nobody calls nsync_note_notify, the note's expiry is the only cancellation */
static int64_t note_expiry_ns = INT64_MAX;   /* the time at which the note becomes notified by itself */
#define NOTIFY_DONE_AT 9             /* shadow: virtual time at which the cancellation was complete (0 = not yet) */
#define NOTIFY_STARTED_AT 10         /* shadow: virtual time just BEFORE nsync_note_notify was called (0 = not yet): the scenario's
                                        own record; ECANCELED is judged against it and the clock, not against the library's answer */
#define IN_WAIT(i) (20 + (i))        /* shadow: waiter i is inside its wait call */
#define DL_OF(i) (24 + (i))          /* shadow: its deadline (ns), INT64_MAX if none */
static int nwaiters, wtid[2], n_tids, tids[6];
static int64_t ts_ns (nsync_time t) { return (int64_t) t.tv_sec * 1000000000LL + t.tv_nsec; }
static int never (const void *v) { return 0; }

/* scenario-level sleep on a private futex word (not through the library under test): the thread has a pending deadline, so
   when everybody else is asleep the virtual clock jumps to it and it looks at a quiescent world */
#define NOSAN __attribute__ ((no_sanitize ("thread")))
static uint32_t nap_word;
NOSAN static void nap_until (int64_t abs_ns) {
	struct timespec ts;
	ts.tv_sec = abs_ns / 1000000000LL; ts.tv_nsec = abs_ns % 1000000000LL;
	while (vrt_now_ns () < abs_ns)
		syscall (SYS_futex, &nap_word, (long) (FUTEX_WAIT_BITSET | FUTEX_PRIVATE_FLAG | FUTEX_CLOCK_REALTIME), 0L, &ts, NULL, -1L);
}
static int others_quiet (void) {      /* every other thread is asleep or has finished: nobody holds the mutex, nobody will wake anybody */
	int i;
	for (i = 0; i < n_tids; i++)
		if (tids[i] != vrt_self () && !vrt_is_blocked (tids[i]) && !vrt_is_finished (tids[i])) return 0;
	return 1;
}
/* the note counts as notified once somebody has called nsync_note_notify on it (or on its parent) or its expiry time is reached */
static int shadow_notified (void) { return vrt_sh_get (NOTIFY_STARTED_AT) != 0 || vrt_now_ns () >= note_expiry_ns; }

/* C05 "once the deadline has passed or the note is notified the call needs no further wake-up: it returns as soon as the mutex
   can be re-acquired".  Looked at from a thread that runs while every other thread is asleep or finished: the mutex is free and
   stays free, no wake-up is on its way (the modelled futex makes a sleeper runnable the moment its own timeout is reached), so a
   waiter that is asleep inside its wait although its deadline has passed / the note has expired / the notification has completed
   will not return without a FURTHER wake-up.  (A waiter that is merely runnable and has not been scheduled is never judged.) */
static void observe (void) {
	int i;
	int64_t now = vrt_now_ns ();
	long done = vrt_sh_get (NOTIFY_DONE_AT);
	if (!others_quiet ()) return;
	vrt_count ("observed_quiet");
	for (i = 0; i < nwaiters; i++) {
		int64_t dl = (int64_t) vrt_sh_get (DL_OF (i));
		if (!vrt_sh_get (IN_WAIT (i)) || !vrt_is_blocked (wtid[i])) continue;
		if (dl < now) vrt_fail ("C05", "waiter %d is asleep in its wait at %lld although its deadline %lld has passed and the mutex is free: it needs a further wake-up", i, (long long) now, (long long) dl);
		if (note_expiry_ns < now) vrt_fail ("C05", "waiter %d is asleep in its wait at %lld although the note expired at %lld and the mutex is free: it needs a further wake-up", i, (long long) now, (long long) note_expiry_ns);
		if (done != 0) vrt_fail ("C05", "waiter %d is asleep in its wait at %lld although the notification of its note completed at %ld and the mutex is free: it needs a further wake-up", i, (long long) now, done);
	}
}

static void waiter (void *a) {
	int me = (int) (long) a;
	int use_mu_wait = (int) vrt_rand (2), writer = (int) vrt_rand (2), dk = (int) vrt_rand (3), r;
	nsync_time dl = dk == 0 ? nsync_time_no_deadline : vrt_abs (dk == 1 ? 600 : 4000);
	int64_t dl_ns = dk == 0 ? INT64_MAX : ts_ns (dl);
	if (writer) nsync_mu_lock (&mu); else nsync_mu_rlock (&mu);
	vrt_acquired (&mu, writer);
	vrt_sh_set (DL_OF (me), (long) dl_ns); vrt_sh_set (IN_WAIT (me), 1);
	vrt_releasing (&mu, writer);
	/* for replay/semwait_replay.ml: every nsync_sem_wait_with_cancel_ between these two notes has (deadline dl, cancel note 0) */
	if (dk == 0) vrt_note ("sw wait %d 0 none", vrt_self ()); else vrt_note ("sw wait %d 0 %lld", vrt_self (), (long long) dl_ns);
	if (use_mu_wait) r = nsync_mu_wait_with_deadline (&mu, never, NULL, NULL, dl, note);
	else { r = 0; while (r == 0) r = nsync_cv_wait_with_deadline (&cv, &mu, dl, note); }
	vrt_note ("sw ret %d %d", vrt_self (), r);
	vrt_sh_set (IN_WAIT (me), 0);
	vrt_acquired (&mu, writer);
	if (r == ECANCELED) {
		vrt_count ("ret_cancel");
		if (!shadow_notified ())
			vrt_fail ("C05", "ECANCELED at %lld, but nobody has called nsync_note_notify and the note's expiry %lld has not been reached", (long long) vrt_now_ns (), (long long) note_expiry_ns);
		if (vrt_sh_get (NOTIFY_STARTED_AT) == 0) vrt_count ("ret_cancel_by_expiry");
	} else if (r == ETIMEDOUT) {
		long done = vrt_sh_get (NOTIFY_DONE_AT);
		vrt_count ("ret_timeout");
		if (dk == 0) vrt_fail ("C05", "ETIMEDOUT without a deadline");
		if (vrt_now_ns () < dl_ns) vrt_fail ("C05", "ETIMEDOUT before the deadline");
		if (done != 0 && done < dl_ns) vrt_fail ("C05", "the note was notified (completely, at %ld) before the deadline %lld, yet the wait slept on and reported ETIMEDOUT", done, (long long) dl_ns);
	} else vrt_fail ("C05", "a wait that nobody wakes returned %d", r);
	vrt_releasing (&mu, writer);
	if (writer) nsync_mu_unlock (&mu); else nsync_mu_runlock (&mu);
}
static int all_waiters_finished (void) {
	int i;
	for (i = 0; i < nwaiters; i++) if (!vrt_is_finished (wtid[i])) return 0;
	return 1;
}
static void notifier (void *a) {
	int k, n = (int) vrt_rand (12);
	/* either a few steps after the start (the notification lands anywhere inside the waiters' entry / sleep / timeout paths), or
	   at a chosen time that may lie after the waits' deadline (600 / 4000) and after the note's expiry (1500): the clock gets
	   there when everybody else sleeps, so the notifier then sees who is still asleep BEFORE it rescues them */
	if (vrt_rand (3) == 0) nap_until (ts_ns (vrt_abs (300 + (int64_t) vrt_rand (10) * 500)));
	else for (k = 0; k < n; k++) vrt_point ("before-notify");
	observe ();
	if (!omit_notify) {
		int via_parent, isn;
		vrt_sh_set (NOTIFY_STARTED_AT, (long) vrt_now_ns ());
		via_parent = kind == 3 && vrt_rand (2);
		vrt_note ("sw call %d %s 0", vrt_self (), via_parent ? "pnotify" : "notify");
		nsync_note_notify (via_parent ? parent_note : note);
		vrt_note ("sw ret %d -", vrt_self ());
		vrt_note ("sw call %d isn 0", vrt_self ());
		isn = nsync_note_is_notified (note);
		vrt_note ("sw ret %d %d", vrt_self (), isn);
		if (isn) vrt_sh_set (NOTIFY_DONE_AT, (long) vrt_now_ns ());
		vrt_count ("notify");
	} else vrt_count ("notify_omitted");
	/* keep looking until the waiters are done or every deadline and expiry lies in the past; whoever is still asleep then and is
	   not reported by observe () is left to the stuck detector */
	while (!all_waiters_finished () && vrt_now_ns () <= ts_ns (vrt_abs (4600))) {
		nap_until (vrt_now_ns () + 450);
		observe ();
	}
}
static void bystander (void *a) {     /* keeps the mutex busy now and then, in both modes */
	int k;
	for (k = 0; k < 3; k++) {
		if (vrt_rand (2)) { nsync_mu_lock (&mu); vrt_acquired (&mu, 1); vrt_point ("busy-w"); vrt_releasing (&mu, 1); nsync_mu_unlock (&mu); }
		else { nsync_mu_rlock (&mu); vrt_acquired (&mu, 0); vrt_point ("busy-r"); vrt_releasing (&mu, 0); nsync_mu_runlock (&mu); }
	}
}
/* for replay/semwait_replay.ml: the cancel note is note 0 of the model: its block, its expiry, whether it has a parent (and the
   parent's block).  Not instrumented: the announcement adds no plain access to the run. */
NOSAN static void announce_note (void) {
	char rb[40], pb[40];
	vrt_region_name (note, rb, sizeof (rb));
	if (kind == 3) vrt_region_name (parent_note, pb, sizeof (pb)); else snprintf (pb, sizeof (pb), "-");
	if (kind >= 2) vrt_note ("sw note 0 %s %lld %d %s", rb, (long long) note_expiry_ns, kind == 3, pb);
	else vrt_note ("sw note 0 %s none 0 %s", rb, pb);
}
int main (void) {
	int i;
	static char nm[4][8];
	nwaiters = 1 + (int) vrt_rand (2);
	kind = vrt_opt ("KIND", (int) vrt_rand (4));
	vrt_register (&mu, sizeof (mu), "mu0");
	if (kind == 3) { parent_note = nsync_note_new (NULL, vrt_abs (1500)); note = nsync_note_new (parent_note, nsync_time_no_deadline); }
	else note = nsync_note_new (NULL, kind == 2 ? vrt_abs (1500) : nsync_time_no_deadline);
	if (kind >= 2) note_expiry_ns = ts_ns (vrt_abs (1500));
	announce_note ();
	if (kind == 1) {
		vrt_sh_set (NOTIFY_STARTED_AT, 1);
		vrt_note ("sw call %d notify 0", vrt_self ());
		nsync_note_notify (note);
		vrt_note ("sw ret %d -", vrt_self ());
		vrt_sh_set (NOTIFY_DONE_AT, 1);
	}
	for (i = 0; i < nwaiters; i++) { snprintf (nm[i], 8, "w%d", i); wtid[i] = tids[n_tids++] = vrt_thread (nm[i], waiter, (void *) (long) i); }
	/* fresh notes are always notified by the notifier thread; expiring notes and children of expiring parents are notified
	   explicitly in half of the runs only: in the others the expiry is the only thing that can end a wait without deadline */
	tids[n_tids++] = vrt_thread ("ntf", notifier, NULL);
	if (vrt_rand (2)) tids[n_tids++] = vrt_thread ("by", bystander, NULL);
	if (kind >= 2) omit_notify = vrt_opt ("OMIT", (int) vrt_rand (2));
	vrt_run ();
	printf ("VRT-END ok\n");
	return 0;
}
