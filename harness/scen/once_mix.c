/* once_mix (C07, C03): 2..4 callers mixing the four nsync_run_once variants on nsync_once objects,
   two of which share an internal once_sync slot (indices 0 and 64 of an array).
   Oracles: the function ran exactly once and had completed before any call returned;
   its plain writes are visible (happens-before, checked by the runtime's race detector);
   a call on a once that is already done does not block. */
#include "nsync.h"
#include "vrt.h"
#include <stdio.h>

static nsync_once onces[65];
static int payload[3];          /* plain data written by the once function, read by every caller */
#define RUNS(k) (10 + (k))
#define DONE(k) (20 + (k))
static int idx_of[3] = { 0, 64, 1 };

static void body (int k) {
	vrt_note ("f-begin %d %d", vrt_self (), idx_of[k]);   /* for the lock-step replay: thread, index of the once word */
	if (vrt_sh_add (RUNS (k), 1) != 1) vrt_fail ("C07", "once function of object %d ran a second time", k);
	payload[k] = 41;
	vrt_point ("inside-once-fn");
	payload[k]++;
	vrt_sh_set (DONE (k), 1);
	vrt_note ("f-end %d %d", vrt_self (), idx_of[k]);
}
static void f0 (void) { body (0); }
static void f1 (void) { body (1); }
static void f2 (void) { body (2); }
static void fa (void *a) { body ((int) (long) a); }
static void (*fs[3]) (void) = { f0, f1, f2 };

static void call (int k, int variant) {
	nsync_once *o = &onces[idx_of[k]];
	switch (variant) {
	case 0: nsync_run_once (o, fs[k]); break;
	case 1: nsync_run_once_arg (o, fa, (void *) (long) k); break;
	case 2: nsync_run_once_spin (o, fs[k]); break;
	default: nsync_run_once_arg_spin (o, fa, (void *) (long) k); break;
	}
	if (vrt_sh_get (DONE (k)) != 1) vrt_fail ("C07", "a run_once call (variant %d) on object %d returned before the function had completed", variant, k);
	if (vrt_sh_get (RUNS (k)) != 1) vrt_fail ("C07", "after return the function of object %d has run %ld times", k, vrt_sh_get (RUNS (k)));
	if (payload[k] != 42) vrt_fail ("C07", "caller does not see the once function's effects");
}
static void worker (void *a) {
	int j, n = 1 + (int) vrt_rand (2);
	int used[3] = { 0, 0, 0 };
	for (j = 0; j < n; j++) { int k = (int) vrt_rand (vrt_opt ("NOBJ", 2)); used[k] = 1; call (k, (int) vrt_rand (4)); }
	/* every object this thread used is done now: a further call must not block */
	{
		long before = vrt_sleeps_of (vrt_self ());
		int k;
		for (k = 0; k < 3; k++) if (used[k]) call (k, (int) vrt_rand (4));   /* a call on it has returned: it is done */
		if (vrt_sleeps_of (vrt_self ()) != before) vrt_fail ("C07", "a call on an already-done nsync_once blocked");
	}
}
int main (void) {
	int i, n = 2 + (int) vrt_rand (3);
	static char nm[6][8];
	vrt_register (onces, sizeof (onces), "once");
	for (i = 0; i < n; i++) { snprintf (nm[i], 8, "t%d", i); vrt_thread (nm[i], worker, NULL); }
	vrt_run ();
	printf ("VRT-END ok\n");
	return 0;
}
