/* cv_mixlocks (C02, C04; F16 shape): native waiters (nsync_cv_wait on the nsync_mu) and generic-interface waiters
   (nsync_cv_wait_with_deadline_generic with the caller's own lock / unlock routines, which here simply wrap nsync_mu_lock /
   nsync_mu_unlock of the SAME mutex) wait on ONE cv; once all of them are asleep a thread sets the flag and broadcasts (or signals
   and then broadcasts) while it HOLDS the mutex, so wake_waiters works on the mutex queue; after every waiter has returned a holder
   takes the mutex, a late locker queues behind it and the holder unlocks: the late locker must get the mutex.
   Oracles: the stuck detector (a late locker asleep on a free mutex: nobody left to wake it), shadow occupancy (C01), and at the
   end the mutex word must be 0 (nobody holds, nobody queues: no designated-waker or waiting bit may be left behind). */
#include "nsync_cpp.h"
#include "platform.h"
#include "compiler.h"
#include "cputype.h"
#include "nsync.h"
#include "dll.h"
#include "sem.h"
#include "wait_internal.h"
#include "common.h"
#include "atomic.h"
#include "vrt.h"
#include <stdio.h>

static nsync_mu mu;
static nsync_cv cv;
#define FLAG 3
#define H_HOLDS 4
static int nw, wtid[6], tidL;
static void my_lock (void *v) { nsync_mu_lock ((nsync_mu *) v); }
static void my_unlock (void *v) { nsync_mu_unlock ((nsync_mu *) v); }

static void native_waiter (void *a) {
	int reader = (int) (long) a;
	if (reader) nsync_mu_rlock (&mu); else nsync_mu_lock (&mu);
	vrt_acquired (&mu, !reader);
	while (!vrt_sh_get (FLAG)) { vrt_releasing (&mu, !reader); nsync_cv_wait (&cv, &mu); vrt_acquired (&mu, !reader); }
	vrt_releasing (&mu, !reader);
	if (reader) nsync_mu_runlock (&mu); else nsync_mu_unlock (&mu);
}
static void generic_waiter (void *a) {
	my_lock (&mu); vrt_acquired (&mu, 1);
	while (!vrt_sh_get (FLAG)) {
		vrt_releasing (&mu, 1);
		(void) nsync_cv_wait_with_deadline_generic (&cv, &mu, &my_lock, &my_unlock, nsync_time_no_deadline, NULL);
		vrt_acquired (&mu, 1);
	}
	vrt_releasing (&mu, 1); my_unlock (&mu);
}
static int all_blocked (void) { int i; for (i = 0; i < nw; i++) if (!vrt_is_blocked (wtid[i])) return 0; return 1; }
static int all_finished (void) { int i; for (i = 0; i < nw; i++) if (!vrt_is_finished (wtid[i])) return 0; return 1; }
static void signaller (void *a) {
	while (!all_blocked ()) vrt_yield ();
	nsync_mu_lock (&mu); vrt_acquired (&mu, 1);
	vrt_sh_set (FLAG, 1);
	if (vrt_rand (3) == 0) nsync_cv_signal (&cv);
	nsync_cv_broadcast (&cv);
	if (vrt_rand (2)) vrt_point ("after-broadcast-under-lock");
	vrt_releasing (&mu, 1); nsync_mu_unlock (&mu);
}
static void holder (void *a) {
	while (!all_finished ()) vrt_yield ();
	nsync_mu_lock (&mu); vrt_acquired (&mu, 1);
	vrt_sh_set (H_HOLDS, 1);
	while (!vrt_is_blocked (tidL) && !vrt_is_finished (tidL)) vrt_yield ();   /* the late locker queues behind us and sleeps */
	vrt_releasing (&mu, 1); nsync_mu_unlock (&mu);
}
static void late_locker (void *a) {
	while (!vrt_sh_get (H_HOLDS)) vrt_yield ();
	nsync_mu_lock (&mu); vrt_acquired (&mu, 1); vrt_releasing (&mu, 1); nsync_mu_unlock (&mu);
}
int main (void) {
	int i, order = (int) vrt_rand (4);
	static char nm[6][8];
	vrt_register (&mu, sizeof (mu), "mu0");
	vrt_register (&cv, sizeof (cv), "cv0");
	nw = 2 + (int) vrt_rand (2);
	for (i = 0; i < nw; i++) {
		/* at least one native and one generic waiter; which comes first on the cv queue is left to the schedule and to `order` */
		int generic = i == 0 ? (order & 1) : i == 1 ? !(order & 1) : (int) vrt_rand (2);
		snprintf (nm[i], 8, "%c%d", generic ? 'g' : 'n', i);
		wtid[i] = vrt_thread (nm[i], generic ? generic_waiter : native_waiter, (void *) (long) (generic ? 0 : (order >> 1) & (int) vrt_rand (2)));
	}
	vrt_thread ("S", signaller, NULL);
	vrt_thread ("H", holder, NULL);
	tidL = vrt_thread ("L", late_locker, NULL);
	vrt_run ();
	if (vrt_peek32 (&mu.word) != 0) vrt_fail ("C02", "after every thread has finished the free mutex word is 0x%x (a bit was left behind: the next locker that has to queue may never be woken)", vrt_peek32 (&mu.word));
	printf ("VRT-END ok\n");
	return 0;
}
