/* alloc_fail (C19): build a small note tree and some counters, failing each allocation of the constructors in turn
   (VRT_KTH = which allocation fails, 1-based; 0 = none).  After a failed constructor call: the result must be NULL,
   every existing object -- in particular the intended parent -- must be byte-for-byte unchanged and still usable
   (new child under it, notify reaches the children, counter still counts). */
#include "nsync.h"
#include "vrt.h"
#include <stdio.h>
#include <string.h>
#include <stdlib.h>

static nsync_note root, kid, kid2;
static nsync_counter c1, c2;
static unsigned char snap[4][512];
static void *objs[4];
static size_t szs[4];

static void take (void) { int i; for (i = 0; i < 4; i++) if (objs[i]) memcpy (snap[i], objs[i], szs[i]); }
static void same (const char *when) {
	int i;
	for (i = 0; i < 4; i++) if (objs[i] && memcmp (snap[i], objs[i], szs[i]) != 0)
		vrt_fail ("C19", "existing object %d changed although the constructor failed (%s)", i, when);
}
static void body (void *a) {
	int kth = vrt_opt ("KTH", 0), n = 0;
	int which = vrt_opt ("WHICH", (int) vrt_rand (3));   /* which constructor call gets the failing allocation */
	root = nsync_note_new (NULL, nsync_time_no_deadline);
	c1 = nsync_counter_new (2);
	objs[0] = root; szs[0] = vrt_region_size (root); objs[1] = c1; szs[1] = vrt_region_size (c1);
	kid = nsync_note_new (root, vrt_abs (5000));
	objs[2] = kid; szs[2] = vrt_region_size (kid);
	take ();
	/* the allocation under test */
	vrt_fail_alloc_after (1);
	if (which == 0) {
		kid2 = nsync_note_new (root, nsync_time_no_deadline);
		if (kid2 != NULL) vrt_fail ("C19", "nsync_note_new returned non-NULL although malloc failed");
	} else if (which == 1) {
		kid2 = nsync_note_new (kid, vrt_abs (100));
		if (kid2 != NULL) vrt_fail ("C19", "nsync_note_new returned non-NULL although malloc failed");
	} else {
		c2 = nsync_counter_new (7);
		if (c2 != NULL) vrt_fail ("C19", "nsync_counter_new returned non-NULL although malloc failed");
	}
	vrt_fail_alloc_after (0);
	same ("right after the failed call");
	vrt_count ("failed_ctor");
	(void) kth; (void) n;
	/* everything is still usable */
	kid2 = nsync_note_new (root, nsync_time_no_deadline);
	if (kid2 == NULL) vrt_fail ("C19", "parent unusable after a failed constructor");
	if (nsync_counter_add (c1, -1) != 1) vrt_fail ("C19", "counter unusable");
	nsync_note_notify (root);
	if (!nsync_note_is_notified (kid) || !nsync_note_is_notified (kid2)) vrt_fail ("C19", "notification no longer reaches the children");
	nsync_note_free (kid2); nsync_note_free (kid); nsync_note_free (root);
	if (nsync_counter_add (c1, -1) != 0) vrt_fail ("C19", "counter unusable (2)");
	nsync_counter_free (c1);
}
int main (void) {
	vrt_thread ("t", body, NULL);
	vrt_run ();
	printf ("VRT-END ok\n");
	return 0;
}
