/* sem_mix (C12): one owner thread P's its semaphore (plain and timed), 1..2 posters V it.
   The kernel futex is the vrt model with injected EINTR / early-ETIMEDOUT / EAGAIN.
   Oracles: a P never succeeds without a matching V (no free lunch); posts are never lost
   (the run ends with every P that has a post available completed: stuck detector);
   a timed P reports ETIMEDOUT only at or after its deadline; 0 only by consuming a post. */
#include "nsync.h"
#include "sem.h"
#include "vrt.h"
#include <stdio.h>
#include <errno.h>

static nsync_semaphore sem;
#define POSTS 0
#define TAKES 1
static int n_calls, kinds[8], poster_tid[2], n_posters;   /* 0 plain P, 1 timed with a finite deadline, 2 timed with nsync_time_no_deadline */

static int64_t ts_ns (nsync_time t) { return (int64_t) t.tv_sec * 1000000000LL + t.tv_nsec; }

static void owner (void *a) {
	int k, n = n_calls;
	for (k = 0; k < n; k++) {
		if (kinds[k] == 0) {
			vrt_note ("call p");
			nsync_mu_semaphore_p (&sem);
			vrt_sh_add (TAKES, 1);
			vrt_count ("p_ok");
		} else {
			int64_t off = (int64_t) vrt_rand (4) * 1000 - 1000;   /* -1us .. 2us from start */
			nsync_time dl = vrt_abs (off);
			if (vrt_rand (8) == 0) { dl.tv_sec = -(time_t) vrt_rand (3) - 1; }   /* before the epoch */
			if (kinds[k] == 2) dl = nsync_time_no_deadline;
			int r;
			vrt_note ("call tp %lld %lld", (long long) dl.tv_sec, (long long) dl.tv_nsec);
			r = nsync_mu_semaphore_p_with_deadline (&sem, dl);
			vrt_note ("ret %d", r);
			if (r == 0) { vrt_sh_add (TAKES, 1); vrt_count ("tp_ok"); }
			else if (r == ETIMEDOUT) {
				vrt_count ("tp_timeout");
				if (vrt_now_ns () < ts_ns (dl)) vrt_fail ("C12", "timed P returned ETIMEDOUT at %lld, before its deadline %lld", (long long) vrt_now_ns (), (long long) ts_ns (dl));
			} else vrt_fail ("C12", "timed P returned %d", r);
		}
		if (vrt_sh_get (TAKES) > vrt_sh_get (POSTS)) vrt_fail ("C12", "P succeeded %ld times with only %ld posts", vrt_sh_get (TAKES), vrt_sh_get (POSTS));
	}
	/* final accounting (counting semaphore): once every poster has finished, the posts not taken by a successful P must still be
	   on the semaphore -- drain it with timed P calls whose deadline lies shortly in the FUTURE of the virtual clock (the property
	   does not say whether a timed P whose deadline has passed still takes an available post, so no expired deadline is used):
	   a post that is still there makes the call return 0 ("a post makes a ... future wait return"); with the count at 0 the call
	   blocks in the (modelled) kernel until the deadline and reports ETIMEDOUT.  Nobody posts any more, so a call that BLOCKED found
	   the count at 0 for good: that ends the drain.  An ETIMEDOUT from a call that never blocked (the virtual clock may jump past
	   the deadline before the call looks at the count) decides nothing and is retried with a new deadline. */
	if (vrt_opt ("DRAIN", 1)) {
		int undecided = 0, decided = 0;
		int64_t start = ts_ns (vrt_abs (0));
		for (k = 0; k < n_posters; k++) { while (!vrt_is_finished (poster_tid[k])) vrt_yield (); }
		while (!decided && undecided < 10) {
			nsync_time dl = vrt_abs (vrt_now_ns () - start + 3000);
			long slept = vrt_sleeps_of (vrt_self ());
			int r;
			vrt_note ("call tp %lld %lld", (long long) dl.tv_sec, (long long) dl.tv_nsec);
			r = nsync_mu_semaphore_p_with_deadline (&sem, dl);
			vrt_note ("ret %d", r);
			if (r == 0) {
				vrt_sh_add (TAKES, 1);
				vrt_count ("drain_ok");
				if (vrt_sh_get (TAKES) > vrt_sh_get (POSTS)) vrt_fail ("C12", "P succeeded %ld times with only %ld posts", vrt_sh_get (TAKES), vrt_sh_get (POSTS));
			} else if (r == ETIMEDOUT) {
				if (vrt_now_ns () < ts_ns (dl)) vrt_fail ("C12", "timed P returned ETIMEDOUT at %lld, before its deadline %lld", (long long) vrt_now_ns (), (long long) ts_ns (dl));
				if (vrt_sleeps_of (vrt_self ()) != slept) decided = 1; else { undecided++; vrt_count ("drain_retry"); }
			} else vrt_fail ("C12", "timed P returned %d", r);
		}
		if (!decided) vrt_count ("drain_undecided");
		else if (vrt_sh_get (TAKES) != vrt_sh_get (POSTS))
			vrt_fail ("C12", "%ld posts were made but only %ld could ever be taken: a post was lost (consumed by a P that did not report success)",
				  vrt_sh_get (POSTS), vrt_sh_get (TAKES));
	}
}
static void poster (void *a) {
	int k, n = (int) (long) a;
	for (k = 0; k < n; k++) {
		vrt_sh_add (POSTS, 1);  /* counted before the V starts: takes <= posts must hold at every P return */
		nsync_mu_semaphore_v (&sem);
		vrt_count ("v");
	}
}
int main (void) {
	int np = 1 + (int) vrt_rand (2);
	nsync_mu_semaphore_init (&sem);
	vrt_register (&sem, sizeof (sem), "sem0");
	int k, need = 0;
	n_calls = 2 + (int) vrt_rand (3);
	for (k = 0; k < n_calls; k++) {
		kinds[k] = vrt_rand (3) == 0 ? 0 : (vrt_rand (8) == 0 ? 2 : 1);
		need++;   /* a timed call may also consume a post, so provide one per call */
	}
	vrt_thread ("owner", owner, NULL);
	/* posters together post at least as often as the owner makes calls that can only end by a post, so none may stay asleep */
	poster_tid[0] = vrt_thread ("post1", poster, (void *) (long) (need > 0 ? need : 1));
	n_posters = 1;
	if (np > 1) { poster_tid[1] = vrt_thread ("post2", poster, (void *) (long) (1 + vrt_rand (2))); n_posters = 2; }
	vrt_run ();
	printf ("VRT-END ok\n");
	return 0;
}
