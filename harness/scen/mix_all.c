/* mix_all (C13 mutex half, C01, crash oracles): every kind of operation on ONE malloc'ed nsync_mu, mixed at random, ended by the
   write-mode reference-count pattern.  The object {mu, refs} has 3..5 users; each user makes 2..5 rounds drawn from
     lock / unlock            rlock / runlock            trylock / rtrylock
     nsync_mu_wait_with_deadline on a counter condition (writer or reader mode, always TIMED)
     nsync_cv_wait_with_deadline (writer or reader mode, always TIMED, sometimes cancellable)
     nsync_wait_n on {cv, note} with the mutex (writer mode), TIMED
     nsync_cv_signal / nsync_cv_broadcast under the write lock, under a read lock, or outside any lock
     a write section that changes the counter and ends with nsync_mu_unlock
     nsync_mu_debug_state_and_waiters (VRT_DEBUGGER=1 only)
   and then   lock; last = (--refs == 0); unlock; if (last) free (obj).
   One or two NON-users wait on the cv through nsync_wait_n without a mutex (timed); the cv and the note are not part of the object.
   Every wait is timed, so nothing can stay asleep for ever: lost wake-ups are the business of the other scenarios.  This one
   looks for what only the MIX produces (F15 needed a cv broadcast under a read lock + an nsync_wait_n record + a designated waker
   pending + the refcount pattern):
     - arena: any access to the freed object (UAF), any access to a returned stack frame (DEADSTACK);
     - shadow occupancy (C01) on every acquisition path; nsync's own panics; the stuck / livelock detectors. */
#include "nsync.h"
#include "nsync_waiter.h"
#include "vrt.h"
#include <stdio.h>
#include <stdlib.h>
#include <errno.h>

struct obj { nsync_mu mu; int refs; int counter; };
static struct obj *o;
static nsync_cv cv;
static nsync_note note;
#define SH_CNT 3                 /* shadow copy of o->counter for conditions evaluated after the object may be gone: never used that way; kept for symmetry */

static int positive (const void *v) { return o->counter > 0; }
static nsync_time soon (void) { return vrt_abs ((int64_t) vrt_rand (8) * 500 - 500); }   /* some already expired */

static void rounds (int n) {
	char buf[160];
	while (n-- > 0) {
		switch (vrt_rand (12)) {
		case 0: nsync_mu_lock (&o->mu); vrt_acquired (&o->mu, 1); o->counter++; vrt_releasing (&o->mu, 1); nsync_mu_unlock (&o->mu); break;
		case 1: nsync_mu_rlock (&o->mu); vrt_acquired (&o->mu, 0); (void) o->counter; if (vrt_rand (2)) vrt_point ("r"); vrt_releasing (&o->mu, 0); nsync_mu_runlock (&o->mu); break;
		case 2: if (nsync_mu_trylock (&o->mu)) { vrt_acquired (&o->mu, 1); if (o->counter > 0) o->counter--; vrt_releasing (&o->mu, 1); nsync_mu_unlock (&o->mu); } break;
		case 3: if (nsync_mu_rtrylock (&o->mu)) { vrt_acquired (&o->mu, 0); vrt_releasing (&o->mu, 0); nsync_mu_runlock (&o->mu); } break;
		case 4: {       /* conditional critical section, writer mode: consumes */
			int r;
			nsync_mu_lock (&o->mu); vrt_acquired (&o->mu, 1); vrt_releasing (&o->mu, 1);
			r = nsync_mu_wait_with_deadline (&o->mu, positive, NULL, NULL, soon (), vrt_rand (3) == 0 ? note : NULL);
			vrt_acquired (&o->mu, 1);
			if (r == 0) { if (o->counter <= 0) vrt_fail ("C05", "nsync_mu_wait_with_deadline returned 0 with a false condition"); o->counter--; }
			vrt_releasing (&o->mu, 1); nsync_mu_unlock (&o->mu);
			break; }
		case 5: {       /* conditional critical section, reader mode */
			nsync_mu_rlock (&o->mu); vrt_acquired (&o->mu, 0); vrt_releasing (&o->mu, 0);
			(void) nsync_mu_wait_with_deadline (&o->mu, positive, NULL, NULL, soon (), NULL);
			vrt_acquired (&o->mu, 0); vrt_releasing (&o->mu, 0); nsync_mu_runlock (&o->mu);
			break; }
		case 6: {       /* cv wait, writer or reader mode */
			int w = (int) vrt_rand (2);
			if (w) nsync_mu_lock (&o->mu); else nsync_mu_rlock (&o->mu);
			vrt_acquired (&o->mu, w); vrt_releasing (&o->mu, w);
			(void) nsync_cv_wait_with_deadline (&cv, &o->mu, soon (), vrt_rand (3) == 0 ? note : NULL);
			vrt_acquired (&o->mu, w); vrt_releasing (&o->mu, w);
			if (w) nsync_mu_unlock (&o->mu); else nsync_mu_runlock (&o->mu);
			break; }
		case 7: {       /* nsync_wait_n on the cv (and the note) with the mutex */
			struct nsync_waitable_s wa[2], *pw[2];
			int cnt = 1 + (int) vrt_rand (2);
			wa[0].v = &cv; wa[0].funcs = &nsync_cv_waitable_funcs; wa[1].v = note; wa[1].funcs = &nsync_note_waitable_funcs; pw[0] = &wa[0]; pw[1] = &wa[1];
			nsync_mu_lock (&o->mu); vrt_acquired (&o->mu, 1); vrt_releasing (&o->mu, 1);
			(void) nsync_wait_n (&o->mu, (void (*) (void *)) &nsync_mu_lock, (void (*) (void *)) &nsync_mu_unlock, soon (), cnt, pw);
			vrt_acquired (&o->mu, 1); vrt_releasing (&o->mu, 1); nsync_mu_unlock (&o->mu);
			break; }
		case 8: {       /* wake-ups under the write lock */
			nsync_mu_lock (&o->mu); vrt_acquired (&o->mu, 1); o->counter++;
			if (vrt_rand (2)) nsync_cv_signal (&cv); else nsync_cv_broadcast (&cv);
			vrt_releasing (&o->mu, 1); nsync_mu_unlock (&o->mu);
			break; }
		case 9: {       /* wake-ups under a read lock */
			nsync_mu_rlock (&o->mu); vrt_acquired (&o->mu, 0);
			if (vrt_rand (2)) nsync_cv_signal (&cv); else nsync_cv_broadcast (&cv);
			if (vrt_rand (2)) vrt_point ("after-wake-under-rlock");
			vrt_releasing (&o->mu, 0); nsync_mu_runlock (&o->mu);
			break; }
		case 10: if (vrt_rand (2)) nsync_cv_signal (&cv); else nsync_cv_broadcast (&cv); break;     /* outside any lock */
		default:        /* VRT_DEBUGGER=1 (run with VRT_RACE=0: emit_waiters reads mu->waiters without the spinlock when MU_WAITING was clear, DESIGN 9.2) */
			if (vrt_opt ("DEBUGGER", 0)) (void) nsync_mu_debug_state_and_waiters (&o->mu, buf, (int) sizeof (buf));
			else { nsync_mu_lock (&o->mu); vrt_acquired (&o->mu, 1); vrt_releasing (&o->mu, 1); nsync_mu_unlock (&o->mu); }
			break;
		}
	}
}
static void user (void *a) {
	int last;
	rounds (2 + (int) vrt_rand (4));
	nsync_mu_lock (&o->mu); vrt_acquired (&o->mu, 1);
	last = (--o->refs == 0);
	vrt_releasing (&o->mu, 1); nsync_mu_unlock (&o->mu);
	if (last) { free (o); vrt_count ("freed"); }
}
static void outsider (void *a) {              /* not a user of o */
	int k;
	for (k = 0; k < 2; k++) {
		struct nsync_waitable_s wa, *pw[1];
		wa.v = &cv; wa.funcs = &nsync_cv_waitable_funcs; pw[0] = &wa;
		(void) nsync_wait_n (NULL, NULL, NULL, soon (), 1, pw);
	}
}
static void notifier (void *a) { int k; for (k = 0; k < (int) vrt_rand (30); k++) vrt_point ("n"); nsync_note_notify (note); }
int main (void) {
	int i, n = 3 + (int) vrt_rand (3);
	static char nm[6][8];
	o = (struct obj *) malloc (sizeof (*o));
	nsync_mu_init (&o->mu);
	nsync_cv_init (&cv);
	note = nsync_note_new (NULL, nsync_time_no_deadline);
	o->refs = n; o->counter = 0;
	for (i = 0; i < n; i++) { snprintf (nm[i], 8, "u%d", i); vrt_thread (nm[i], user, NULL); }
	vrt_thread ("z0", outsider, NULL);
	if (vrt_rand (2)) vrt_thread ("z1", outsider, NULL);
	if (vrt_rand (3) == 0) vrt_thread ("ntf", notifier, NULL);
	vrt_run ();
	printf ("VRT-END ok\n");
	return 0;
}
