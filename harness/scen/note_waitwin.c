/* note_waitwin (C13 second sentence, C11, C08; round-6 seeded change C13e): waits on a note that END FOR ANOTHER REASON while a notification
   of that note is in progress and blocked.  Tree P -> C.  One thread notifies P; another frees C at the same time (each note is freed
   only by the one thread that uses it), so the notifier of P can find C already disconnecting, skip it and sleep in its wait for "no
   children" with P's lock released.  Meanwhile
     W1: nsync_note_wait (P, a short deadline)                       (= nsync_wait_n on one object)
     W2: nsync_wait_n ({P, a counter}) while K brings the counter to zero
     W3: nsync_cv_wait_with_deadline (cv, mu, no deadline, cancel_note = P) while S signals the cv
   Each waiter, when its wait has returned, calls a function that scribbles over the stack area the wait used (so that a late access by
   the notifier to the wait's on-stack record meets memory of a RETURNED frame: the runtime's dead-stack check), and then checks that it is
   registered nowhere.  Oracles: DEADSTACK / UAF (runtime), stuck detector; W1 must not report "not notified" once notify (P) has returned
   before its call started (not checked here: note_mix does). */
#include "nsync_cpp.h"
#include "platform.h"
#include "compiler.h"
#include "cputype.h"
#include "nsync.h"
#include "dll.h"
#include "sem.h"
#include "wait_internal.h"
#include "common.h"
#include "atomic.h"
#include "nsync_waiter.h"
#include "vrt.h"
#include <stdio.h>
#include <string.h>

static nsync_note P, C;
static nsync_counter cnt;
static nsync_mu mu;
static nsync_cv cv;
#define SH_GO 3
static void scribble (void) { volatile char pad[1024]; memset ((void *) pad, 0x5a, sizeof (pad)); (void) pad[17]; }

static void t_notify (void *a) { int k, n = (int) vrt_rand (12); for (k = 0; k < n; k++) vrt_point ("n"); nsync_note_notify (P); }
static void t_free_child (void *a) { int k, n = (int) vrt_rand (12); for (k = 0; k < n; k++) vrt_point ("f"); nsync_note_free (C); }
static void t_w1 (void *a) {
	(void) nsync_note_wait (P, vrt_abs ((int64_t) vrt_rand ((uint32_t) vrt_opt ("FINE", 400))));
	scribble ();
}
static void t_w2 (void *a) {
	struct nsync_waitable_s w[2], *pw[2];
	w[0].v = P; w[0].funcs = &nsync_note_waitable_funcs; w[1].v = cnt; w[1].funcs = &nsync_counter_waitable_funcs; pw[0] = &w[0]; pw[1] = &w[1];
	(void) nsync_wait_n (NULL, NULL, NULL, nsync_time_no_deadline, 2, pw);
	scribble ();
}
static void t_k (void *a) { int k, n = (int) vrt_rand (40); for (k = 0; k < n; k++) vrt_point ("k"); (void) nsync_counter_add (cnt, -1); }
static void t_w3 (void *a) {
	nsync_mu_lock (&mu);
	while (!vrt_sh_get (SH_GO)) {
		if (nsync_cv_wait_with_deadline (&cv, &mu, nsync_time_no_deadline, P) != 0) break;
	}
	nsync_mu_unlock (&mu);
	scribble ();
}
static void t_s (void *a) {
	int k, n = (int) vrt_rand (40);
	for (k = 0; k < n; k++) vrt_point ("s");
	nsync_mu_lock (&mu); vrt_sh_set (SH_GO, 1); nsync_cv_signal (&cv); nsync_mu_unlock (&mu);
}
int main (void) {
	P = nsync_note_new (NULL, nsync_time_no_deadline);
	C = nsync_note_new (P, nsync_time_no_deadline);
	cnt = nsync_counter_new (1);
	vrt_thread ("nP", t_notify, NULL);
	vrt_thread ("fC", t_free_child, NULL);
	vrt_thread ("w1", t_w1, NULL);
	if (vrt_rand (2)) { vrt_thread ("w2", t_w2, NULL); vrt_thread ("k", t_k, NULL); }
	if (vrt_rand (2)) { vrt_thread ("w3", t_w3, NULL); vrt_thread ("s", t_s, NULL); }
	vrt_run ();
	if (!nsync_note_is_notified (P)) vrt_fail ("C08", "nsync_note_notify (P) has returned but P is not notified");
	nsync_note_free (P);
	nsync_counter_free (cnt);
	printf ("VRT-END ok\n");
	return 0;
}
