/* note_alloc (C19, concurrent half): one creator thread makes children of P and of C (P -> C) while the allocation inside some of
   its nsync_note_new calls fails (vrt_fail_my_alloc_after: only that thread's next allocation, so the waiter structs other threads
   allocate lazily are never hit); concurrently a thread notifies P, one polls C, one waits on C with a deadline.
   After every failed constructor call: the result must be NULL, and the intended parent must still be usable -- the very next
   nsync_note_new under the same parent (no fault injected) must succeed, and a notification of P must still reach every live child.
   Announcements ("call"/"ret") are those of note_mix, so that replay/note_replay.ml follows the run in lock-step against NoteModel
   (the failing malloc is the model's choice c = true at pc W1).  Note ids = allocation order of SUCCESSFUL allocations; only main
   (before the threads start) and the creator allocate notes. */
#include "nsync.h"
#include "vrt.h"
#include <stdio.h>
#include <string.h>
#include <stdint.h>

enum { P = 0, C = 1, MAXN = 12 };
static nsync_note note[MAXN];       /* by model id; slots >= 2 are private to the creator until the end of the run */
static int nnotes = 0;
static int freed_by_creator[MAXN];
static int par_of[MAXN];
#define NOTIFY_RETURNED 30

static int64_t ts_ns (nsync_time t) { return (int64_t) t.tv_sec * 1000000000LL + t.tv_nsec; }
static void fmt_time (char *b, size_t n, nsync_time t) {
	if (nsync_time_cmp (t, nsync_time_no_deadline) == 0) snprintf (b, n, "none");
	else snprintf (b, n, "%lld", (long long) ts_ns (t));
}
static nsync_note x_new (int par, nsync_time dl, int fail) {
	char b[32];
	nsync_note n;
	fmt_time (b, sizeof (b), dl);
	vrt_note ("call %d new %d %s", vrt_self (), par, b);
	if (fail) vrt_fail_my_alloc_after (1);
	n = nsync_note_new (par < 0 ? NULL : note[par], dl);
	vrt_fail_my_alloc_after (0);
	vrt_note ("ret %d %d", vrt_self (), n != NULL);
	if (fail && n != NULL) vrt_fail ("C19", "nsync_note_new returned non-NULL although its allocation failed");
	if (!fail && n == NULL) vrt_fail ("C19", "nsync_note_new returned NULL although its allocation succeeded (parent %d unusable?)", par);
	if (fail) vrt_count ("failed_ctor");
	return n;
}
static int x_is_notified (int i) {
	int v;
	vrt_note ("call %d isn %d", vrt_self (), i);
	v = nsync_note_is_notified (note[i]);
	vrt_note ("ret %d %d", vrt_self (), v);
	return v;
}
static void x_free (int i) {
	vrt_note ("call %d free %d", vrt_self (), i);
	nsync_note_free (note[i]);
	vrt_note ("ret %d -", vrt_self ());
}

static void t_creator (void *a) {
	int k, rounds = 2 + (int) vrt_rand (3);
	for (k = 0; k < rounds && nnotes + 2 < MAXN; k++) {
		int par = (int) vrt_rand (2) ? P : C;
		int fail = (int) vrt_rand (2);
		nsync_time dl = vrt_rand (3) == 0 ? vrt_abs (2000 + 500 * (int64_t) vrt_rand (4)) : nsync_time_no_deadline;
		nsync_note x = x_new (par, dl, fail);
		if (fail) {
			/* the parent is unchanged and usable: the same call without the fault succeeds */
			x = x_new (par, dl, 0);
		}
		note[nnotes] = x; par_of[nnotes] = par;
		{
			int id = nnotes++;
			if (vrt_rand (2)) (void) x_is_notified (id);
			vrt_point ("creator");
			if (vrt_rand (3) == 0) { x_free (id); freed_by_creator[id] = 1; }
		}
	}
}
static void t_notify (void *a) {
	vrt_note ("call %d notify %d", vrt_self (), P);
	nsync_note_notify (note[P]);
	vrt_note ("ret %d -", vrt_self ());
	vrt_sh_set (NOTIFY_RETURNED, 1);
}
static void t_poll (void *a) {
	int k;
	for (k = 0; k < 3; k++) { (void) x_is_notified (C); vrt_point ("poll"); }
}
static void t_wait (void *a) {
	char b[32];
	int v;
	nsync_time dl = vrt_abs (1500);
	fmt_time (b, sizeof (b), dl);
	vrt_note ("call %d wait %d %s", vrt_self (), C, b);
	v = nsync_note_wait (note[C], dl);
	vrt_note ("ret %d %d", vrt_self (), v);
}

int main (void) {
	int i, notifier;
	vrt_note ("call 0 new -1 none");
	note[P] = nsync_note_new (NULL, nsync_time_no_deadline);
	vrt_note ("ret 0 %d", note[P] != NULL);
	vrt_note ("call 0 new %d none", P);
	note[C] = nsync_note_new (note[P], nsync_time_no_deadline);
	vrt_note ("ret 0 %d", note[C] != NULL);
	par_of[P] = -1; par_of[C] = P;
	nnotes = 2;
	notifier = (int) vrt_rand (4) != 0;
	vrt_thread ("cr", t_creator, NULL);
	if (notifier) vrt_thread ("nP", t_notify, NULL);
	if (vrt_rand (2)) vrt_thread ("pC", t_poll, NULL);
	if (vrt_rand (2)) vrt_thread ("wC", t_wait, NULL);
	vrt_run ();
	/* the tree is still whole: a notification of P (made now if no thread made one) reaches every live note */
	if (!notifier) {
		vrt_note ("call 0 notify %d", P);
		nsync_note_notify (note[P]);
		vrt_note ("ret 0 -");
	}
	for (i = 0; i < nnotes; i++) {
		if (freed_by_creator[i]) continue;
		if (!x_is_notified (i)) vrt_fail ("C19", "after failed constructor calls a notification of P no longer reaches note %d (child of %d)", i, par_of[i]);
	}
	for (i = nnotes - 1; i >= 0; i--) if (!freed_by_creator[i]) x_free (i);
	printf ("VRT-END ok\n");
	return 0;
}
