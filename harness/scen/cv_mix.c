/* cv_mix: monitor-pattern scenarios on one nsync_mu + nsync_cv(s).
   MODE 0 (tokens): consumers (plain / timed / cancellable, write mode) each take one token; producers add a
          token and signal (inside or after the critical section) or broadcast.  Enough tokens are produced,
          so every consumer without a deadline must finish: a lost or swallowed wake-up ends as a stuck run.
   MODE 1 (readers): reader-mode waiters wait for a flag; one writer sets it and issues ONE nsync_cv_signal:
          all waiting readers must be released (C04), plus optionally a writer-mode waiter.
   MODE 5 (all queued, ONE wake-up): 2..4 waiters without deadline (writer mode, reader mode, generic-lock callers of
          nsync_cv_wait_with_deadline_generic) are all on the cv queue; then the flag is set and ONE nsync_cv_broadcast
          is issued (every waiter must return: stuck detector) or ONE nsync_cv_signal (at least one waiter returns, and
          if only readers returned then every reader returned), see below.
   MODE 6 (flag monitor, everything races): reader-mode / writer-mode / generic-lock waiters, plain / timed /
          cancellable, race a setter's broadcast, signals that change nothing, deadlines and the cancellation.
   Oracles on every wait return: lock held in the caller's mode (C01/C05 shadow occupancy), ETIMEDOUT only at or
   after the deadline, ECANCELED only with the note notified (C05; "notified" is the scenario's own record that
   nsync_note_notify has been called, not the library's answer).  VRT_DEBUGGER=1 adds a thread calling the
   debug-state functions of the mutex and the cv, with a write monitor (C16). */
#include "nsync.h"
#include "vrt.h"
#include <stdio.h>
#include <string.h>
#include <errno.h>
#include <stdint.h>
#include <limits.h>
#include <unistd.h>
#include <sys/syscall.h>
#include <linux/futex.h>
#include "dll.h"

static nsync_mu mu;
static nsync_cv cv;
static int tokens, go_flag, taken;
static nsync_note cancel;
#define SH_NOTIFIED 2         /* shadow: set BEFORE nsync_note_notify (cancel) is called (the note has no expiry and no parent) */

static int64_t ts_ns (nsync_time t) { return (int64_t) t.tv_sec * 1000000000LL + t.tv_nsec; }

/* canonical snapshot for the lock-step replay (replay/cv_replay.ml): the cv queue and the mutex queue as lists of
   the memory blocks holding the waiter records, head first */
static size_t snap_list (char *buf, size_t k, size_t n, nsync_dll_element_ *last) {
	nsync_dll_element_ *p;
	if (last != NULL) {
		p = last->next;
		for (;;) {
			char nm[40];
			vrt_region_name (p->container, nm, sizeof (nm));
			k += snprintf (buf + k, n - k, " %s", nm);
			if (p == last || k > n - 60) break;
			p = p->next;
		}
	}
	return k;
}
static void snapshot (char *buf, size_t n) {
	size_t k = 0;
	k += snprintf (buf + k, n - k, "CVQ");
	k = snap_list (buf, k, n, cv.waiters);
	k += snprintf (buf + k, n - k, " | MQ");
	k = snap_list (buf, k, n, mu.waiters);
}

static void monitor (volatile void *p, uint32_t o, uint32_t n, const char *file, int line) {
	size_t L = strlen (file);
	if (L >= 7 && strcmp (file + L - 7, "debug.c") == 0) {
		if (p == (volatile void *) &mu.word && ((o ^ n) & ~2u) != 0)
			vrt_fail ("C16", "debug-state function wrote the mutex word %u -> %u at debug.c:%d", o, n, line);
		if (p == (volatile void *) &cv.word && ((o ^ n) & ~1u) != 0)
			vrt_fail ("C16", "debug-state function wrote the cv word %u -> %u at debug.c:%d: bits other than the spinlock changed", o, n, line);
	}
}

/* ---- scenario-level blocking that does not go through the library under test: private futex words.  A thread that
   naps has a pending deadline, so when every other thread is asleep the virtual clock jumps and it runs again: it then
   sees a QUIESCENT world (nobody else can take a step), which is what "this waiter was not woken" soundly means under an
   arbitrary scheduler.  Kept out of the race detector's sight (oracle bookkeeping, not client data). */
#define NOSAN __attribute__ ((no_sanitize ("thread")))
static uint32_t nap_word;
NOSAN static void nap_until (int64_t abs_ns) {
	struct timespec ts;
	ts.tv_sec = abs_ns / 1000000000LL; ts.tv_nsec = abs_ns % 1000000000LL;
	while (vrt_now_ns () < abs_ns)
		syscall (SYS_futex, &nap_word, (long) (FUTEX_WAIT_BITSET | FUTEX_PRIVATE_FLAG | FUTEX_CLOCK_REALTIME), 0L, &ts, NULL, -1L);
}
/* a gate: gate_wait blocks (no deadline) until gate_open has been called; sh is the shadow index that records "open" */
NOSAN static void gate_wait (uint32_t *g, int sh) {
	while (!vrt_sh_get (sh)) syscall (SYS_futex, g, (long) (FUTEX_WAIT_BITSET | FUTEX_PRIVATE_FLAG), 0L, NULL, NULL, -1L);
}
NOSAN static void gate_open (uint32_t *g, int sh) {
	vrt_sh_set (sh, 1);
	*g = 1;
	syscall (SYS_futex, g, (long) (FUTEX_WAKE | FUTEX_PRIVATE_FLAG), (long) INT_MAX, NULL, NULL, 0L);
}
static int n_tids, tids[12];          /* all threads of the run, filled in by main before vrt_run */
static int others_quiet (void) {      /* every other thread is asleep or has finished */
	int i;
	for (i = 0; i < n_tids; i++)
		if (tids[i] != vrt_self () && !vrt_is_blocked (tids[i]) && !vrt_is_finished (tids[i])) return 0;
	return 1;
}

/* the checks on the result code of a timed / cancellable cv wait (C05); dl_ns is meaningful only if timed */
static void check_result (int r, int timed, int64_t dl_ns, int cancellable) {
	if (r == ETIMEDOUT) {
		vrt_count ("ret_timeout");
		if (!timed) vrt_fail ("C05", "wait without deadline returned ETIMEDOUT");
		if (vrt_now_ns () < dl_ns) vrt_fail ("C05", "ETIMEDOUT at %lld before the deadline %lld", (long long) vrt_now_ns (), (long long) dl_ns);
	} else if (r == ECANCELED) {
		vrt_count ("ret_cancel");
		if (!cancellable) vrt_fail ("C05", "ECANCELED without a note");
		if (!vrt_sh_get (SH_NOTIFIED)) vrt_fail ("C05", "ECANCELED but nobody has called nsync_note_notify on the note (it has no expiry)");
	} else if (r != 0) vrt_fail ("C05", "unexpected result %d", r);
	else vrt_count ("ret_woken");
}

/* one wait with all the return-time checks; mode: 1 writer, 0 reader */
static int checked_wait (int writer, int timed, int cancellable) {
	nsync_time dl = nsync_time_no_deadline;
	int r;
	if (timed) dl = vrt_abs ((int64_t) vrt_rand (6) * 700 - 700);
	vrt_releasing (&mu, writer);
	vrt_note ("wait %d %lld %d", vrt_self (), timed ? (long long) ts_ns (dl) : -1LL, cancellable);  /* for the lock-step replay */
	r = nsync_cv_wait_with_deadline (&cv, &mu, dl, cancellable ? cancel : NULL);
	vrt_note ("ret %d %d", vrt_self (), r);
	vrt_acquired (&mu, writer);
	check_result (r, timed, ts_ns (dl), cancellable);
	return r;
}

/* waits through nsync_cv_wait_with_deadline_generic with caller-supplied lock functions: thin wrappers around the
   nsync_mu calls, so that the library cannot recognise the lock as an nsync_mu (cv.c: cv_mu == NULL, l_type == NULL: no
   transfer to the mutex queue, re-acquisition through the callback).  The callbacks count their calls per thread: a
   wait must call unlock once and then lock once. */
#define SH_GUN(t) (100 + (t))        /* shadow: unlock callbacks by thread t during its current generic wait */
#define SH_GLK(t) (130 + (t))        /* shadow: lock callbacks ... */
static void g_relock_check (void) {
	int t = vrt_self ();
	if (vrt_sh_get (SH_GUN (t)) != 1 || vrt_sh_get (SH_GLK (t)) != 0)
		vrt_fail ("C05", "generic cv wait called the lock callback after %ld unlock and %ld lock callbacks", vrt_sh_get (SH_GUN (t)), vrt_sh_get (SH_GLK (t)));
	vrt_sh_add (SH_GLK (t), 1);
}
static void g_unlock_check (void) {
	int t = vrt_self ();
	if (vrt_sh_get (SH_GUN (t)) != 0 || vrt_sh_get (SH_GLK (t)) != 0)
		vrt_fail ("C05", "generic cv wait called the unlock callback after %ld unlock and %ld lock callbacks", vrt_sh_get (SH_GUN (t)), vrt_sh_get (SH_GLK (t)));
	vrt_sh_add (SH_GUN (t), 1);
}
static void g_lock (void *m) { nsync_mu_lock ((nsync_mu *) m); vrt_acquired (m, 1); g_relock_check (); }
static void g_unlock (void *m) { g_unlock_check (); vrt_releasing (m, 1); nsync_mu_unlock ((nsync_mu *) m); }
static void g_rlock (void *m) { nsync_mu_rlock ((nsync_mu *) m); vrt_acquired (m, 0); g_relock_check (); }
static void g_runlock (void *m) { g_unlock_check (); vrt_releasing (m, 0); nsync_mu_runlock ((nsync_mu *) m); }

/* lock kinds of MODE 5 / 6 waiters */
enum { LK_W = 0, LK_R = 1, LK_GW = 2, LK_GR = 3 };   /* native writer, native reader, generic exclusive, generic shared */
static int lk_writer (int lk) { return lk == LK_W || lk == LK_GW; }
static void lk_lock (int lk) {
	if (lk == LK_R || lk == LK_GR) nsync_mu_rlock (&mu); else nsync_mu_lock (&mu);
	vrt_acquired (&mu, lk_writer (lk));
}
static void lk_unlock (int lk) {
	vrt_releasing (&mu, lk_writer (lk));
	if (lk == LK_R || lk == LK_GR) nsync_mu_runlock (&mu); else nsync_mu_unlock (&mu);
}
/* one wait of a MODE 5 / 6 waiter, by either entry point, with all the return-time checks */
static int checked_wait2 (int lk, int timed, int cancellable) {
	nsync_time dl = nsync_time_no_deadline;
	int r, t = vrt_self (), writer = lk_writer (lk);
	if (timed) dl = vrt_abs ((int64_t) vrt_rand (6) * 700 - 700);
	/* for the lock-step replay: thread, deadline (-1: none), cancellable, generic (the caller's own lock routines) */
	vrt_note ("wait %d %lld %d %d", t, timed ? (long long) ts_ns (dl) : -1LL, cancellable, !(lk == LK_W || lk == LK_R));
	if (lk == LK_W || lk == LK_R) {
		vrt_releasing (&mu, writer);
		if (!timed && !cancellable && vrt_rand (2)) { nsync_cv_wait (&cv, &mu); r = 0; }
		else r = nsync_cv_wait_with_deadline (&cv, &mu, dl, cancellable ? cancel : NULL);
		vrt_note ("ret %d %d", t, r);
		vrt_acquired (&mu, writer);
	} else {
		vrt_sh_set (SH_GUN (t), 0); vrt_sh_set (SH_GLK (t), 0);
		r = nsync_cv_wait_with_deadline_generic (&cv, &mu, lk == LK_GW ? &g_lock : &g_rlock, lk == LK_GW ? &g_unlock : &g_runlock,
							 dl, cancellable ? cancel : NULL);
		vrt_note ("ret %d %d", t, r);
		if (vrt_sh_get (SH_GUN (t)) != 1 || vrt_sh_get (SH_GLK (t)) != 1)
			vrt_fail ("C05", "generic cv wait returned %d after %ld unlock and %ld lock callbacks: the caller's lock is not held as it was on entry",
				  r, vrt_sh_get (SH_GUN (t)), vrt_sh_get (SH_GLK (t)));
		vrt_count ("ret_generic");
	}
	if (vrt_holders (&mu, writer) < 1) vrt_fail ("C05", "cv wait returned without the lock held in the caller's mode");
	check_result (r, timed, ts_ns (dl), cancellable);
	return r;
}

static void consumer (void *a) {
	int kind = (int) (long) a;   /* 0 plain, 1 timed, 2 cancellable, 3 timed+cancellable */
	int r = 0;
	nsync_mu_lock (&mu); vrt_acquired (&mu, 1);
	while (tokens == 0 && r == 0) r = checked_wait (1, kind & 1, (kind & 2) != 0);
	if (tokens > 0) { tokens--; taken++; }
	else if (r == 0) vrt_fail ("HARNESS", "loop exit");
	vrt_releasing (&mu, 1); nsync_mu_unlock (&mu);
}
static void producer (void *a) {
	int k, n = (int) (long) a;
	for (k = 0; k < n; k++) {
		int style = (int) vrt_rand (3);
		nsync_mu_lock (&mu); vrt_acquired (&mu, 1);
		tokens++;
		if (style == 0) nsync_cv_signal (&cv);
		if (style == 2) nsync_cv_broadcast (&cv);
		vrt_releasing (&mu, 1); nsync_mu_unlock (&mu);
		if (style == 1) nsync_cv_signal (&cv);
	}
}
static void notifier (void *a) { vrt_point ("before-notify"); vrt_sh_set (SH_NOTIFIED, 1); nsync_note_notify (cancel); }

static void rsignaller (void *a) {
	int nwait = (int) (long) a;
	/* wait until every waiter is really waiting (the property speaks of threads that started waiting before the wake-up) */
	for (;;) {
		int q;
		nsync_mu_lock (&mu); vrt_acquired (&mu, 1);
		q = (int) vrt_sh_get (5);
		if (q >= nwait) break;
		vrt_releasing (&mu, 1); nsync_mu_unlock (&mu);
		vrt_yield ();
	}
	go_flag = 1;
	nsync_cv_signal (&cv);     /* ONE signal: if the first waiter is a reader all readers must wake */
	vrt_releasing (&mu, 1); nsync_mu_unlock (&mu);
}
static void rwaiter_counted (void *a) {
	int r = 0;
	nsync_mu_rlock (&mu); vrt_acquired (&mu, 0);
	vrt_sh_add (5, 1);       /* counted while holding the lock: the signaller sees it only after we are queued on the cv */
	while (!go_flag && r == 0) r = checked_wait (0, 0, 0);
	vrt_releasing (&mu, 0); nsync_mu_runlock (&mu);
}

/* MODE 2: a writer waits on the cv; a reader signals it while holding only a read lock (the waiter is then
   transferred to the mutex queue by wake_waiters, which works on the mutex word under its spinlock) while other
   readers come and go -- exclusion must hold when the writer returns from the wait. */
static void m2_writer (void *a) {
	nsync_mu_lock (&mu); vrt_acquired (&mu, 1);
	while (!go_flag) checked_wait (1, 0, 0);
	tokens++;                       /* a write section */
	vrt_releasing (&mu, 1); nsync_mu_unlock (&mu);
}
static void m2_rsignaller (void *a) {
	/* the flag is set in a short write section, the signal is issued under a READ lock */
	nsync_mu_lock (&mu); vrt_acquired (&mu, 1); go_flag = 1; vrt_releasing (&mu, 1); nsync_mu_unlock (&mu);
	nsync_mu_rlock (&mu); vrt_acquired (&mu, 0);
	if (vrt_rand (2)) nsync_cv_signal (&cv); else nsync_cv_broadcast (&cv);
	vrt_point ("after-signal-under-rlock");
	vrt_releasing (&mu, 0); nsync_mu_runlock (&mu);
	nsync_cv_broadcast (&cv);      /* in case the writer started waiting only after the first signal */
}
static void m2_reader (void *a) {
	int k;
	for (k = 0; k < 3; k++) {
		if (vrt_rand (2)) { nsync_mu_rlock (&mu); }
		else if (!nsync_mu_rtrylock (&mu)) continue;
		vrt_acquired (&mu, 0);
		(void) tokens;
		vrt_point ("reading");
		vrt_releasing (&mu, 0); nsync_mu_runlock (&mu);
	}
}

/* MODE 3 (wait_n): the token monitor of MODE 0 in which some consumers wait on the cv through nsync_wait_n
   (cv_enqueue / cv_dequeue with a record in the caller's frame), with and without a deadline, next to native
   waiters; the producers signal or broadcast inside or after the critical section. */
static void my_lock (void *m) { nsync_mu_lock ((nsync_mu *) m); vrt_acquired (m, 1); }
static void my_unlock (void *m) { vrt_releasing (m, 1); nsync_mu_unlock ((nsync_mu *) m); }
static void nconsumer (void *a) {
	int timed = (int) (long) a;
	int r = 0;
	struct nsync_waitable_s wb, *pw[1];
	wb.v = &cv; wb.funcs = &nsync_cv_waitable_funcs; pw[0] = &wb;
	nsync_mu_lock (&mu); vrt_acquired (&mu, 1);
	while (tokens == 0 && r == 0) {
		nsync_time dl = nsync_time_no_deadline;
		if (timed) dl = vrt_abs ((int64_t) vrt_rand (6) * 700 - 700);
		vrt_note ("waitn %d %lld", vrt_self (), timed ? (long long) ts_ns (dl) : -1LL);
		r = nsync_wait_n (&mu, &my_lock, &my_unlock, dl, 1, pw);
		vrt_note ("retn %d %d", vrt_self (), r);
		if (vrt_holders (&mu, 1) != 1) vrt_fail ("C11", "nsync_wait_n returned without holding the mutex");
		if (r == 1) {
			vrt_count ("retn_timeout");
			if (!timed) vrt_fail ("C11", "nsync_wait_n without deadline returned count");
			if (vrt_now_ns () < ts_ns (dl)) vrt_fail ("C11", "nsync_wait_n returned count before the deadline");
		} else if (r == 0) vrt_count ("retn_woken");
		else vrt_fail ("C11", "result %d out of range", r);
	}
	if (tokens > 0) { tokens--; taken++; }
	else if (r == 0) vrt_fail ("HARNESS", "loop exit");
	vrt_releasing (&mu, 1); nsync_mu_unlock (&mu);
}

/* MODE 4: ONE waiter (timed and/or cancellable), one waker that signals or broadcasts INSIDE its critical section,
   strictly before the waiter's deadline and before the cancellation is started, and then keeps the mutex while the clock
   passes the deadline / the note gets notified.  The wake-up reached the waiter (it was the only one queued), so the
   wait must report 0 -- never ETIMEDOUT or ECANCELED (C04: a consumed wake-up is reported as a wake-up).  Whatever it
   reports also goes through the C05 checks of every other wait (ETIMEDOUT only at/after the deadline, ECANCELED only
   after nsync_note_notify was called, lock held in the caller's mode). */
#define M3_QUEUED 6
#define M3_SIGNALLED_IN_TIME 7
#define M3_DECIDED 9
static int64_t m3_deadline_ns;
static uint32_t m3_gate;
static void m3_waiter (void *a) {
	int kind = 1 + (int) vrt_rand (3);      /* 1 timed, 2 cancellable, 3 both */
	int writer = (int) vrt_rand (2), r;
	nsync_time dl = (kind & 1) ? vrt_abs (1500 + (int64_t) vrt_rand (3) * 500) : nsync_time_no_deadline;
	m3_deadline_ns = (kind & 1) ? ts_ns (dl) : INT64_MAX;
	if (writer) nsync_mu_lock (&mu); else nsync_mu_rlock (&mu);
	vrt_acquired (&mu, writer);
	vrt_sh_set (M3_QUEUED, 1);       /* still holding the mutex: the waker can see this only after we are on the cv queue */
	vrt_releasing (&mu, writer);
	r = nsync_cv_wait_with_deadline (&cv, &mu, dl, (kind & 2) ? cancel : NULL);
	vrt_acquired (&mu, writer);
	if (vrt_sh_get (M3_SIGNALLED_IN_TIME) && r != 0)
		vrt_fail ("C04", "the only waiter was signalled before its deadline / cancellation, yet its wait returned %d instead of 0", r);
	check_result (r, kind & 1, m3_deadline_ns, (kind & 2) != 0);
	vrt_releasing (&mu, writer);
	if (writer) nsync_mu_unlock (&mu); else nsync_mu_runlock (&mu);
}
static void m3_waker (void *a) {
	for (;;) {
		nsync_mu_lock (&mu); vrt_acquired (&mu, 1);
		if (vrt_sh_get (M3_QUEUED)) break;
		vrt_releasing (&mu, 1); nsync_mu_unlock (&mu);
		vrt_yield ();
	}
	if (vrt_now_ns () < m3_deadline_ns && !vrt_sh_get (SH_NOTIFIED)) {
		if (vrt_rand (2)) nsync_cv_signal (&cv); else nsync_cv_broadcast (&cv);
		/* the wake-up has been issued in time if the clock still is before the deadline now and nobody has started to cancel */
		if (vrt_now_ns () < m3_deadline_ns && !vrt_sh_get (SH_NOTIFIED)) vrt_sh_set (M3_SIGNALLED_IN_TIME, 1);
	}
	gate_open (&m3_gate, M3_DECIDED);      /* the notifier may go ahead */
	/* keep the mutex while the deadline passes (and the notifier may run): the waiter's timed sleep ends, it goes through
	   its timeout / cancellation confirmation path and then has to wait for the mutex */
	vrt_point ("holding-1");
	if (vrt_rand (3) != 0 && m3_deadline_ns != INT64_MAX) vrt_clock_forward_to (m3_deadline_ns + (int64_t) vrt_rand (3));
	{ int k, n = 3 + (int) vrt_rand (12); for (k = 0; k < n; k++) vrt_point ("holding"); }
	vrt_releasing (&mu, 1); nsync_mu_unlock (&mu);
	nsync_cv_broadcast (&cv);
}
static void m3_notifier (void *a) {
	/* cancel only after the waker has issued its wake-up (or has found that it is too late for one): a cancellation before it
	   would be a legitimate ECANCELED.  Blocks on a gate; no step budget, no assumption about the scheduler. */
	gate_wait (&m3_gate, M3_DECIDED);
	vrt_sh_set (SH_NOTIFIED, 1);
	nsync_note_notify (cancel);
}

/* MODE 5: every waiter is on the cv queue before the ONE wake-up is issued (C04: "a thread that started waiting before a
   wake-up is issued is covered by it").  Waiters have no deadline and wait for go_flag: in writer mode or reader mode on the
   nsync_mu, or (all waiters of the run) through the generic entry point with exclusive / shared lock callbacks -- for the cv
   those are not readers, it cannot know.  Each announces itself while it still holds the mutex, so the
   waker, who looks under the mutex in write mode, sees the announcement only after the waiter is queued on the cv.
   Variant 0: the flag is set and ONE nsync_cv_broadcast is issued inside or after the critical section; nobody helps
   afterwards: a waiter that was not woken ends the run stuck.
   Variant 1: ONE nsync_cv_signal instead.  The waker then naps until the world is quiescent (everybody else asleep or
   finished) and looks at who has returned: at least one waiter; and if no waiter that signal could have picked as a
   non-reader has returned (only native reader-mode waiters have), the picked thread held the mutex as a reader, so ALL
   reader-mode waiters must have returned.  (The property does not say WHICH thread signal picks, so outcomes in which
   some writer returned are all accepted.)  A final broadcast releases the rest. */
#define M5_ANNOUNCED 10
#define M5_DONE(i) (40 + (i))
static int m5_n, m5_variant, m5_lk[4];
static void m5_waiter (void *a) {
	int i = (int) (long) a, lk = m5_lk[i], r = 0;
	lk_lock (lk);
	vrt_sh_add (M5_ANNOUNCED, 1);
	while (!go_flag) {
		r = checked_wait2 (lk, 0, 0);
		if (r != 0) vrt_fail ("C05", "wait without deadline or note returned %d", r);
	}
	vrt_sh_set (M5_DONE (i), 1);
	lk_unlock (lk);
}
static void m5_waker (void *a) {
	int inside = (int) vrt_rand (2), i;
	for (;;) {     /* until every waiter is on the cv queue */
		nsync_mu_lock (&mu); vrt_acquired (&mu, 1);
		if (vrt_sh_get (M5_ANNOUNCED) >= m5_n) break;
		vrt_releasing (&mu, 1); nsync_mu_unlock (&mu);
		vrt_yield ();
	}
	go_flag = 1;
	if (inside) { if (m5_variant == 0) nsync_cv_broadcast (&cv); else nsync_cv_signal (&cv); }
	vrt_releasing (&mu, 1); nsync_mu_unlock (&mu);
	if (!inside) { if (m5_variant == 0) nsync_cv_broadcast (&cv); else nsync_cv_signal (&cv); }
	vrt_count (m5_variant == 0 ? "one_broadcast" : "one_signal");
	if (m5_variant == 1) {
		int nret = 0, nonreader_ret = 0, readers = 0, readers_ret = 0;
		do nap_until (vrt_now_ns () + 5000); while (!others_quiet ());
		for (i = 0; i < m5_n; i++) {
			int d = vrt_sh_get (M5_DONE (i)) != 0;
			nret += d;
			if (m5_lk[i] == LK_R) { readers++; readers_ret += d; } else nonreader_ret += d;   /* the cv cannot know that a generic lock is shared */
		}
		if (nret == 0) vrt_fail ("C04", "%d threads were waiting on the cv when nsync_cv_signal was called, none of them has been woken", m5_n);
		if (nonreader_ret == 0 && readers_ret < readers)
			vrt_fail ("C04", "nsync_cv_signal picked a reader-mode waiter (only readers returned) but woke only %d of the %d waiting readers", readers_ret, readers);
		if (nret < m5_n) vrt_count ("signal_left_some");
		nsync_cv_broadcast (&cv);     /* release the others; the flag is set */
	}
}

/* MODE 6: flag monitor in which everything races: waiters in all four lock kinds, plain / timed / cancellable / both, start
   at any time; a setter sets the flag under the mutex and broadcasts (inside or after the critical section) at a random
   moment that may be near the waiters' deadlines; a noise thread signals / broadcasts without changing anything (woken
   waiters go back to waiting); the note may get notified.  A waiter that finds the flag clear and starts waiting does so
   atomically with respect to the setter, so the setter's broadcast covers it: every waiter without deadline and note must
   finish (stuck detector).  Every return goes through checked_wait2. */
static int m6_lk[4], m6_kind[4];
static void m6_waiter (void *a) {
	int i = (int) (long) a, lk = m6_lk[i], r = 0;
	lk_lock (lk);
	while (!go_flag && r == 0) r = checked_wait2 (lk, m6_kind[i] & 1, (m6_kind[i] & 2) != 0);
	lk_unlock (lk);
}
static void m6_setter (void *a) {
	int inside = (int) vrt_rand (2), k, n = (int) vrt_rand (20);
	if (vrt_rand (3) == 0) nap_until (ts_ns (vrt_abs ((int64_t) vrt_rand (5) * 700 - 2 + (int64_t) vrt_rand (4))));   /* close to a possible deadline */
	else for (k = 0; k < n; k++) vrt_point ("setter-delay");
	nsync_mu_lock (&mu); vrt_acquired (&mu, 1);
	go_flag = 1;
	if (inside) nsync_cv_broadcast (&cv);
	vrt_releasing (&mu, 1); nsync_mu_unlock (&mu);
	if (!inside) nsync_cv_broadcast (&cv);
}
static void m6_noise (void *a) {
	int k, n = 1 + (int) vrt_rand (3);
	for (k = 0; k < n; k++) {
		int how = (int) vrt_rand (3);     /* without the mutex, under a write lock, under a read lock */
		if (how == 1) { nsync_mu_lock (&mu); vrt_acquired (&mu, 1); }
		if (how == 2) { nsync_mu_rlock (&mu); vrt_acquired (&mu, 0); }
		if (vrt_rand (3) == 0) nsync_cv_broadcast (&cv); else nsync_cv_signal (&cv);
		if (how == 1) { vrt_releasing (&mu, 1); nsync_mu_unlock (&mu); }
		if (how == 2) { vrt_releasing (&mu, 0); nsync_mu_runlock (&mu); }
		vrt_point ("noise");
	}
}

static void debugger (void *a) {
	int k;
	char buf[200];
	for (k = 0; k < 8; k++) {
		int pick = (int) vrt_rand (4);
		vrt_note ("dbgcall %d %d", vrt_self (), pick == 0 ? 0 : pick == 1 ? 9 : 1);   /* for replay/cvdbg_replay.ml: 0 cv state, 1 cv state + waiters, 9 mutex */
		vrt_observer_begin (buf, sizeof (buf));      /* C16: a debug-state call writes nothing but its buffer (and its own stack) */
		switch (pick) {
		case 0: nsync_cv_debug_state (&cv, buf, (int) sizeof (buf)); break;
		case 1: nsync_mu_debug_state_and_waiters (&mu, buf, (int) sizeof (buf)); break;
		default: nsync_cv_debug_state_and_waiters (&cv, buf, (int) sizeof (buf)); break;
		}
		vrt_observer_end ();
		vrt_count ("debug_call");
	}
}

/* MODE 7 (F15 shape, added with the repair): reader-mode native waiters and ONE nsync_wait_n caller wait on
   the cv; the waker sets the flag / adds the token in a write section and then signals or broadcasts under a READ lock: when a
   reader is first on the cv queue it can acquire, the nsync_wait_n record is not a mutex waiter, so wake_waiters takes the mutex
   spinlock (setting MU_WAITING) and transfers nobody. */
static void m7_waker (void *a) {
	int nwait = (int) (long) a;
	for (;;) {
		int q;
		nsync_mu_lock (&mu); vrt_acquired (&mu, 1);
		q = (int) vrt_sh_get (5);
		if (q >= nwait) break;
		vrt_releasing (&mu, 1); nsync_mu_unlock (&mu);
		vrt_yield ();
	}
	go_flag = 1; tokens++;
	vrt_releasing (&mu, 1); nsync_mu_unlock (&mu);
	nsync_mu_rlock (&mu); vrt_acquired (&mu, 0);
	if (vrt_rand (2)) nsync_cv_signal (&cv); else nsync_cv_broadcast (&cv);
	vrt_point ("after-wake-under-rlock");
	vrt_releasing (&mu, 0); nsync_mu_runlock (&mu);
	nsync_cv_broadcast (&cv);
}
int main (void) {
	int mode = vrt_opt ("MODE", (int) vrt_rand (5));
	int i;
	static char nm[12][8];
	/* MODE 5 / 6: VRT_MIXLOCKS=1 (default: half of the runs) mixes native waiters (the nsync_mu itself) and generic-interface waiters (an opaque
	   lock with callbacks that wrap the same nsync_mu) on the cv.  Until the fourth review these modes used ONE lock identity per run, because a
	   generic waiter queued behind a native one was moved to the nsync_mu's queue with a null lock type and MU_DESIG_WAKER was never cleared (a later
	   locker slept for ever) -- that had been filed as a violation of an internal comment of cv.c ("every waiter is associated with the same
	   mutex"); the public header states no such rule: it was the genuine defect F16, repaired in /repo f28c99f. */
	int gen = 0, mix = vrt_opt ("MIXLOCKS", (int) vrt_rand (2));   /* since the F16 repair mixing native and generic waiters is part of the default runs */
#define THREAD(name, fn, arg) (tids[n_tids++] = vrt_thread (name, fn, arg))
	vrt_register (&mu, sizeof (mu), "mu0");
	vrt_register (&cv, sizeof (cv), "cv0");
	vrt_set_write_monitor (monitor);
	vrt_set_snapshot (snapshot);
	if (mode == 7) {
		int nr = 1 + (int) vrt_rand (2);
		for (i = 0; i < nr; i++) { snprintf (nm[i], 8, "r%d", i); vrt_thread (nm[i], rwaiter_counted, NULL); }
		vrt_thread ("n", nconsumer, (void *) (long) 0);
		vrt_thread ("wk", m7_waker, (void *) (long) nr);
		if (vrt_rand (2)) vrt_thread ("x", m2_reader, NULL);
		if (vrt_rand (3) == 0) vrt_thread ("y", m2_writer, NULL);
	} else if (mode == 3) {
		int nc = 2 + (int) vrt_rand (3), np = 1 + (int) vrt_rand (2), left, nn = 0;
		left = nc;
		for (i = 0; i < nc; i++) {
			int kind = (int) vrt_rand (4);     /* 0,1: wait_n caller (plain, timed); 2,3: native waiter (plain, timed) */
			if (i == nc - 1 && nn == 0) kind &= 1;
			snprintf (nm[i], 8, "%c%d", kind < 2 ? 'n' : 'c', i);
			if (kind < 2) { nn++; vrt_thread (nm[i], nconsumer, (void *) (long) kind); }
			else vrt_thread (nm[i], consumer, (void *) (long) (kind & 1));
		}
		for (i = 0; i < np; i++) {
			int n = (i == np - 1) ? left : (int) vrt_rand (left + 1);
			left -= n;
			snprintf (nm[6 + i], 8, "p%d", i);
			if (n > 0) vrt_thread (nm[6 + i], producer, (void *) (long) n);
		}
	} else if (mode == 0) {
		int nc = 2 + (int) vrt_rand (2), np = 1 + (int) vrt_rand (2), left;
		int any_cancel = 0;
		cancel = nsync_note_new (NULL, nsync_time_no_deadline);
		left = nc;
		for (i = 0; i < nc; i++) {
			int kind = (int) vrt_rand (4);
			if (kind & 2) any_cancel = 1;
			snprintf (nm[i], 8, "c%d", i);
			vrt_thread (nm[i], consumer, (void *) (long) kind);
		}
		for (i = 0; i < np; i++) {
			int n = (i == np - 1) ? left : (int) vrt_rand (left + 1);
			left -= n;
			snprintf (nm[6 + i], 8, "p%d", i);
			if (n > 0) vrt_thread (nm[6 + i], producer, (void *) (long) n);
		}
		if (any_cancel && vrt_rand (2)) vrt_thread ("ntf", notifier, NULL);
	} else if (mode == 4) {
		cancel = nsync_note_new (NULL, nsync_time_no_deadline);
		vrt_thread ("w", m3_waiter, NULL);
		vrt_thread ("s", m3_waker, NULL);
		vrt_thread ("n", m3_notifier, NULL);
	} else if (mode == 5) {
		m5_n = 2 + (int) vrt_rand (3);
		gen = vrt_opt ("GENERIC", vrt_rand (3) == 0);
		m5_variant = vrt_opt ("VARIANT", (int) vrt_rand (2));
		for (i = 0; i < m5_n; i++) {
			/* variant 1 wants reader-heavy queues such as [reader, reader, writer] */
			int rd = m5_variant == 1 ? vrt_rand (5) >= 2 : (int) vrt_rand (2);
			m5_lk[i] = (rd ? LK_R : LK_W) + ((gen || (mix && vrt_rand (2))) ? 2 : 0);
			snprintf (nm[i], 8, "%c%d", "wrgh"[m5_lk[i]], i);
			THREAD (nm[i], m5_waiter, (void *) (long) i);
		}
		THREAD ("wk", m5_waker, NULL);
	} else if (mode == 6) {
		int nw = 2 + (int) vrt_rand (3), any_cancel = 0;
		gen = vrt_opt ("GENERIC", vrt_rand (3) == 0);
		cancel = nsync_note_new (NULL, nsync_time_no_deadline);
		for (i = 0; i < nw; i++) {
			m6_lk[i] = (int) vrt_rand (2) + ((gen || (mix && vrt_rand (2))) ? 2 : 0);
			m6_kind[i] = (int) vrt_rand (4);
			if (m6_kind[i] & 2) any_cancel = 1;
			snprintf (nm[i], 8, "%c%d", "wrgh"[m6_lk[i]], i);
			THREAD (nm[i], m6_waiter, (void *) (long) i);
		}
		THREAD ("set", m6_setter, NULL);
		if (vrt_rand (3) != 0) THREAD ("nz", m6_noise, NULL);
		if (any_cancel && vrt_rand (2)) THREAD ("ntf", notifier, NULL);
	} else if (mode == 2) {
		vrt_thread ("w", m2_writer, NULL);
		vrt_thread ("rs", m2_rsignaller, NULL);
		vrt_thread ("r1", m2_reader, NULL);
		if (vrt_rand (2)) vrt_thread ("r2", m2_reader, NULL);
	} else {
		int nr = 2 + (int) vrt_rand (2);
		for (i = 0; i < nr; i++) { snprintf (nm[i], 8, "r%d", i); vrt_thread (nm[i], rwaiter_counted, NULL); }
		vrt_thread ("sig", rsignaller, (void *) (long) nr);
	}
	if (vrt_opt ("DEBUGGER", 0)) THREAD ("dbg", debugger, NULL);
	vrt_run ();
	/* everybody has finished: nobody holds the mutex and nobody is queued on it or on the cv, so both words must be 0 -- a designated-waker,
	   waiting or spinlock bit left behind would strand the NEXT locker / waiter (F15, F16 and the seeded change C06e all leave such a bit) */
	if (vrt_peek32 (&mu.word) != 0) vrt_fail ("C02", "after every thread has finished the mutex word is 0x%x, not 0", vrt_peek32 (&mu.word));
	if (vrt_peek32 (&cv.word) != 0) vrt_fail ("C04", "after every thread has finished the cv word is 0x%x, not 0", vrt_peek32 (&cv.word));
	printf ("VRT-END ok\n");
	return 0;
}
