/* cv_mix: monitor-pattern scenarios on one nsync_mu + nsync_cv(s).
   MODE 0 (tokens): consumers (plain / timed / cancellable, write mode) each take one token; producers add a
          token and signal (inside or after the critical section) or broadcast.  Enough tokens are produced,
          so every consumer without a deadline must finish: a lost or swallowed wake-up ends as a stuck run.
   MODE 1 (readers): reader-mode waiters wait for a flag; one writer sets it and issues ONE nsync_cv_signal:
          all waiting readers must be released (C04), plus optionally a writer-mode waiter.
   Oracles on every wait return: lock held in the caller's mode (C01/C05 shadow occupancy), ETIMEDOUT only at or
   after the deadline, ECANCELED only with the note notified (C05).  VRT_DEBUGGER=1 adds a thread calling the
   debug-state functions of the mutex and the cv, with a write monitor (C16). */
#include "nsync.h"
#include "vrt.h"
#include <stdio.h>
#include <string.h>
#include <errno.h>
#include <stdint.h>
#include "dll.h"

static nsync_mu mu;
static nsync_cv cv;
static int tokens, go_flag, taken;
static nsync_note cancel;
#define SH_NOTIFIED 2

static int64_t ts_ns (nsync_time t) { return (int64_t) t.tv_sec * 1000000000LL + t.tv_nsec; }

/* canonical snapshot for the lock-step replay (replay/cv_replay.ml): the cv queue and the mutex queue as lists of
   the memory blocks holding the waiter records, head first */
static size_t snap_list (char *buf, size_t k, size_t n, nsync_dll_element_ *last) {
	nsync_dll_element_ *p;
	if (last != NULL) {
		p = last->next;
		for (;;) {
			char nm[40];
			vrt_region_name (p->container, nm, sizeof (nm));
			k += snprintf (buf + k, n - k, " %s", nm);
			if (p == last || k > n - 60) break;
			p = p->next;
		}
	}
	return k;
}
static void snapshot (char *buf, size_t n) {
	size_t k = 0;
	k += snprintf (buf + k, n - k, "CVQ");
	k = snap_list (buf, k, n, cv.waiters);
	k += snprintf (buf + k, n - k, " | MQ");
	k = snap_list (buf, k, n, mu.waiters);
}

static void monitor (volatile void *p, uint32_t o, uint32_t n, const char *file, int line) {
	size_t L = strlen (file);
	if (L >= 7 && strcmp (file + L - 7, "debug.c") == 0) {
		if (p == (volatile void *) &mu.word && ((o ^ n) & ~2u) != 0)
			vrt_fail ("C16", "debug-state function wrote the mutex word %u -> %u at debug.c:%d", o, n, line);
		if (p == (volatile void *) &cv.word && ((o ^ n) & ~1u) != 0)
			vrt_fail ("C16", "debug-state function wrote the cv word %u -> %u at debug.c:%d: bits other than the spinlock changed", o, n, line);
	}
}

/* one wait with all the return-time checks; mode: 1 writer, 0 reader */
static int checked_wait (int writer, int timed, int cancellable) {
	nsync_time dl = nsync_time_no_deadline;
	int r;
	if (timed) dl = vrt_abs ((int64_t) vrt_rand (6) * 700 - 700);
	vrt_releasing (&mu, writer);
	vrt_note ("wait %d %lld %d", vrt_self (), timed ? (long long) ts_ns (dl) : -1LL, cancellable);  /* for the lock-step replay */
	r = nsync_cv_wait_with_deadline (&cv, &mu, dl, cancellable ? cancel : NULL);
	vrt_note ("ret %d %d", vrt_self (), r);
	vrt_acquired (&mu, writer);
	if (r == ETIMEDOUT) {
		vrt_count ("ret_timeout");
		if (!timed) vrt_fail ("C05", "wait without deadline returned ETIMEDOUT");
		if (vrt_now_ns () < ts_ns (dl)) vrt_fail ("C05", "ETIMEDOUT at %lld before the deadline %lld", (long long) vrt_now_ns (), (long long) ts_ns (dl));
	} else if (r == ECANCELED) {
		vrt_count ("ret_cancel");
		if (!cancellable) vrt_fail ("C05", "ECANCELED without a note");
		if (!nsync_note_is_notified (cancel)) vrt_fail ("C05", "ECANCELED but the note is not notified");
	} else if (r != 0) vrt_fail ("C05", "unexpected result %d", r);
	else vrt_count ("ret_woken");
	return r;
}

static void consumer (void *a) {
	int kind = (int) (long) a;   /* 0 plain, 1 timed, 2 cancellable, 3 timed+cancellable */
	int r = 0;
	nsync_mu_lock (&mu); vrt_acquired (&mu, 1);
	while (tokens == 0 && r == 0) r = checked_wait (1, kind & 1, (kind & 2) != 0);
	if (tokens > 0) { tokens--; taken++; }
	else if (r == 0) vrt_fail ("HARNESS", "loop exit");
	vrt_releasing (&mu, 1); nsync_mu_unlock (&mu);
}
static void producer (void *a) {
	int k, n = (int) (long) a;
	for (k = 0; k < n; k++) {
		int style = (int) vrt_rand (3);
		nsync_mu_lock (&mu); vrt_acquired (&mu, 1);
		tokens++;
		if (style == 0) nsync_cv_signal (&cv);
		if (style == 2) nsync_cv_broadcast (&cv);
		vrt_releasing (&mu, 1); nsync_mu_unlock (&mu);
		if (style == 1) nsync_cv_signal (&cv);
	}
}
static void notifier (void *a) { vrt_point ("before-notify"); nsync_note_notify (cancel); }

static void rwaiter (void *a) {
	int timed = (int) (long) a;
	int r = 0;
	nsync_mu_rlock (&mu); vrt_acquired (&mu, 0);
	while (!go_flag && r == 0) r = checked_wait (0, timed, 0);
	vrt_releasing (&mu, 0); nsync_mu_runlock (&mu);
}
static void wwaiter (void *a) {
	nsync_mu_lock (&mu); vrt_acquired (&mu, 1);
	while (!go_flag) checked_wait (1, 0, 0);
	vrt_releasing (&mu, 1); nsync_mu_unlock (&mu);
	nsync_cv_signal (&cv);     /* pass the baton on, in case a reader queued behind us */
}
static void rsignaller (void *a) {
	int nwait = (int) (long) a;
	/* wait until every waiter is really waiting (the property speaks of threads that started waiting before the wake-up) */
	for (;;) {
		int q;
		nsync_mu_lock (&mu); vrt_acquired (&mu, 1);
		q = (int) vrt_sh_get (5);
		if (q >= nwait) break;
		vrt_releasing (&mu, 1); nsync_mu_unlock (&mu);
		vrt_yield ();
	}
	go_flag = 1;
	nsync_cv_signal (&cv);     /* ONE signal: if the first waiter is a reader all readers must wake */
	vrt_releasing (&mu, 1); nsync_mu_unlock (&mu);
}
static void rwaiter_counted (void *a) {
	int r = 0;
	nsync_mu_rlock (&mu); vrt_acquired (&mu, 0);
	vrt_sh_add (5, 1);       /* counted while holding the lock: the signaller sees it only after we are queued on the cv */
	while (!go_flag && r == 0) r = checked_wait (0, 0, 0);
	vrt_releasing (&mu, 0); nsync_mu_runlock (&mu);
}

/* MODE 2: a writer waits on the cv; a reader signals it while holding only a read lock (the waiter is then
   transferred to the mutex queue by wake_waiters, which works on the mutex word under its spinlock) while other
   readers come and go -- exclusion must hold when the writer returns from the wait. */
static void m2_writer (void *a) {
	nsync_mu_lock (&mu); vrt_acquired (&mu, 1);
	while (!go_flag) checked_wait (1, 0, 0);
	tokens++;                       /* a write section */
	vrt_releasing (&mu, 1); nsync_mu_unlock (&mu);
}
static void m2_rsignaller (void *a) {
	/* the flag is set in a short write section, the signal is issued under a READ lock */
	nsync_mu_lock (&mu); vrt_acquired (&mu, 1); go_flag = 1; vrt_releasing (&mu, 1); nsync_mu_unlock (&mu);
	nsync_mu_rlock (&mu); vrt_acquired (&mu, 0);
	if (vrt_rand (2)) nsync_cv_signal (&cv); else nsync_cv_broadcast (&cv);
	vrt_point ("after-signal-under-rlock");
	vrt_releasing (&mu, 0); nsync_mu_runlock (&mu);
	nsync_cv_broadcast (&cv);      /* in case the writer started waiting only after the first signal */
}
static void m2_reader (void *a) {
	int k;
	for (k = 0; k < 3; k++) {
		if (vrt_rand (2)) { nsync_mu_rlock (&mu); }
		else if (!nsync_mu_rtrylock (&mu)) continue;
		vrt_acquired (&mu, 0);
		(void) tokens;
		vrt_point ("reading");
		vrt_releasing (&mu, 0); nsync_mu_runlock (&mu);
	}
}

/* MODE 3 (wait_n): the token monitor of MODE 0 in which some consumers wait on the cv through nsync_wait_n
   (cv_enqueue / cv_dequeue with a record in the caller's frame), with and without a deadline, next to native
   waiters; the producers signal or broadcast inside or after the critical section. */
static void my_lock (void *m) { nsync_mu_lock ((nsync_mu *) m); vrt_acquired (m, 1); }
static void my_unlock (void *m) { vrt_releasing (m, 1); nsync_mu_unlock ((nsync_mu *) m); }
static void nconsumer (void *a) {
	int timed = (int) (long) a;
	int r = 0;
	struct nsync_waitable_s wb, *pw[1];
	wb.v = &cv; wb.funcs = &nsync_cv_waitable_funcs; pw[0] = &wb;
	nsync_mu_lock (&mu); vrt_acquired (&mu, 1);
	while (tokens == 0 && r == 0) {
		nsync_time dl = nsync_time_no_deadline;
		if (timed) dl = vrt_abs ((int64_t) vrt_rand (6) * 700 - 700);
		vrt_note ("waitn %d %lld", vrt_self (), timed ? (long long) ts_ns (dl) : -1LL);
		r = nsync_wait_n (&mu, &my_lock, &my_unlock, dl, 1, pw);
		vrt_note ("retn %d %d", vrt_self (), r);
		if (vrt_holders (&mu, 1) != 1) vrt_fail ("C11", "nsync_wait_n returned without holding the mutex");
		if (r == 1) {
			vrt_count ("retn_timeout");
			if (!timed) vrt_fail ("C11", "nsync_wait_n without deadline returned count");
			if (vrt_now_ns () < ts_ns (dl)) vrt_fail ("C11", "nsync_wait_n returned count before the deadline");
		} else if (r == 0) vrt_count ("retn_woken");
		else vrt_fail ("C11", "result %d out of range", r);
	}
	if (tokens > 0) { tokens--; taken++; }
	else if (r == 0) vrt_fail ("HARNESS", "loop exit");
	vrt_releasing (&mu, 1); nsync_mu_unlock (&mu);
}

/* MODE 4: ONE waiter (timed and/or cancellable), one waker that signals or broadcasts INSIDE its critical section,
   strictly before the waiter's deadline and before the note is notified, and then keeps the mutex while the clock
   passes the deadline / the note gets notified.  The wake-up reached the waiter (it was the only one queued), so the
   wait must report 0 -- never ETIMEDOUT or ECANCELED (C04: a consumed wake-up is reported as a wake-up). */
#define M3_QUEUED 6
#define M3_SIGNALLED_IN_TIME 7
static int64_t m3_deadline_ns;
static void m3_waiter (void *a) {
	int kind = 1 + (int) vrt_rand (3);      /* 1 timed, 2 cancellable, 3 both */
	int writer = (int) vrt_rand (2), r;
	nsync_time dl = (kind & 1) ? vrt_abs (1500 + (int64_t) vrt_rand (3) * 500) : nsync_time_no_deadline;
	m3_deadline_ns = (kind & 1) ? ts_ns (dl) : INT64_MAX;
	if (writer) nsync_mu_lock (&mu); else nsync_mu_rlock (&mu);
	vrt_acquired (&mu, writer);
	vrt_sh_set (M3_QUEUED, 1);       /* still holding the mutex: the waker can see this only after we are on the cv queue */
	vrt_releasing (&mu, writer);
	r = nsync_cv_wait_with_deadline (&cv, &mu, dl, (kind & 2) ? cancel : NULL);
	vrt_acquired (&mu, writer);
	if (vrt_sh_get (M3_SIGNALLED_IN_TIME) && r != 0)
		vrt_fail ("C04", "the only waiter was signalled before its deadline / cancellation, yet its wait returned %d instead of 0", r);
	vrt_count (r == 0 ? "ret_woken" : "ret_other");
	vrt_releasing (&mu, writer);
	if (writer) nsync_mu_unlock (&mu); else nsync_mu_runlock (&mu);
}
static void m3_waker (void *a) {
	for (;;) {
		nsync_mu_lock (&mu); vrt_acquired (&mu, 1);
		if (vrt_sh_get (M3_QUEUED)) break;
		vrt_releasing (&mu, 1); nsync_mu_unlock (&mu);
		vrt_yield ();
	}
	if (vrt_now_ns () < m3_deadline_ns && !nsync_note_is_notified (cancel)) {
		if (vrt_rand (2)) nsync_cv_signal (&cv); else nsync_cv_broadcast (&cv);
		/* the wake-up has been issued in time if the clock still is before the deadline now */
		if (vrt_now_ns () < m3_deadline_ns && !nsync_note_is_notified (cancel)) vrt_sh_set (M3_SIGNALLED_IN_TIME, 1);
	}
	/* keep the mutex while the deadline passes (and the notifier may run): the waiter's timed sleep ends, it goes through
	   its timeout / cancellation confirmation path and then has to wait for the mutex */
	vrt_point ("holding-1");
	if (vrt_rand (3) != 0 && m3_deadline_ns != INT64_MAX) vrt_clock_forward_to (m3_deadline_ns + (int64_t) vrt_rand (3));
	{ int k, n = 3 + (int) vrt_rand (12); for (k = 0; k < n; k++) vrt_point ("holding"); }
	vrt_releasing (&mu, 1); nsync_mu_unlock (&mu);
	vrt_sh_set (8, 1);
	nsync_cv_broadcast (&cv);
}
static void m3_notifier (void *a) {
	/* cancel only after the wake-up has been issued (a cancellation before it is a legitimate ECANCELED) */
	int k;
	for (k = 0; k < 200 && !vrt_sh_get (M3_SIGNALLED_IN_TIME) && !vrt_sh_get (8); k++) vrt_yield ();
	nsync_note_notify (cancel);
}

static void debugger (void *a) {
	int k;
	char buf[200];
	for (k = 0; k < 8; k++) {
		switch (vrt_rand (4)) {
		case 0: nsync_cv_debug_state (&cv, buf, (int) sizeof (buf)); break;
		case 1: nsync_mu_debug_state_and_waiters (&mu, buf, (int) sizeof (buf)); break;
		default: nsync_cv_debug_state_and_waiters (&cv, buf, (int) sizeof (buf)); break;
		}
		vrt_count ("debug_call");
	}
}

int main (void) {
	int mode = vrt_opt ("MODE", (int) vrt_rand (5));
	int i;
	static char nm[12][8];
	vrt_register (&mu, sizeof (mu), "mu0");
	vrt_register (&cv, sizeof (cv), "cv0");
	vrt_set_write_monitor (monitor);
	vrt_set_snapshot (snapshot);
	if (mode == 3) {
		int nc = 2 + (int) vrt_rand (3), np = 1 + (int) vrt_rand (2), left, nn = 0;
		left = nc;
		for (i = 0; i < nc; i++) {
			int kind = (int) vrt_rand (4);     /* 0,1: wait_n caller (plain, timed); 2,3: native waiter (plain, timed) */
			if (i == nc - 1 && nn == 0) kind &= 1;
			snprintf (nm[i], 8, "%c%d", kind < 2 ? 'n' : 'c', i);
			if (kind < 2) { nn++; vrt_thread (nm[i], nconsumer, (void *) (long) kind); }
			else vrt_thread (nm[i], consumer, (void *) (long) (kind & 1));
		}
		for (i = 0; i < np; i++) {
			int n = (i == np - 1) ? left : (int) vrt_rand (left + 1);
			left -= n;
			snprintf (nm[6 + i], 8, "p%d", i);
			if (n > 0) vrt_thread (nm[6 + i], producer, (void *) (long) n);
		}
	} else if (mode == 0) {
		int nc = 2 + (int) vrt_rand (2), np = 1 + (int) vrt_rand (2), left;
		int any_cancel = 0;
		cancel = nsync_note_new (NULL, nsync_time_no_deadline);
		left = nc;
		for (i = 0; i < nc; i++) {
			int kind = (int) vrt_rand (4);
			if (kind & 2) any_cancel = 1;
			snprintf (nm[i], 8, "c%d", i);
			vrt_thread (nm[i], consumer, (void *) (long) kind);
		}
		for (i = 0; i < np; i++) {
			int n = (i == np - 1) ? left : (int) vrt_rand (left + 1);
			left -= n;
			snprintf (nm[6 + i], 8, "p%d", i);
			if (n > 0) vrt_thread (nm[6 + i], producer, (void *) (long) n);
		}
		if (any_cancel && vrt_rand (2)) vrt_thread ("ntf", notifier, NULL);
	} else if (mode == 4) {
		cancel = nsync_note_new (NULL, nsync_time_no_deadline);
		vrt_thread ("w", m3_waiter, NULL);
		vrt_thread ("s", m3_waker, NULL);
		vrt_thread ("n", m3_notifier, NULL);
	} else if (mode == 2) {
		vrt_thread ("w", m2_writer, NULL);
		vrt_thread ("rs", m2_rsignaller, NULL);
		vrt_thread ("r1", m2_reader, NULL);
		if (vrt_rand (2)) vrt_thread ("r2", m2_reader, NULL);
	} else {
		int nr = 2 + (int) vrt_rand (2);
		for (i = 0; i < nr; i++) { snprintf (nm[i], 8, "r%d", i); vrt_thread (nm[i], rwaiter_counted, NULL); }
		vrt_thread ("sig", rsignaller, (void *) (long) nr);
	}
	if (vrt_opt ("DEBUGGER", 0)) vrt_thread ("dbg", debugger, NULL);
	vrt_run ();
	printf ("VRT-END ok\n");
	return 0;
}
