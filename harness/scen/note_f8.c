/* Tailored scenario for the schedule found in NoteModel (C09_no_uaf): q -> n -> g.
   Y: nsync_note_notify (q); nsync_note_free (q).   Z: nsync_note_free (n).   U: nsync_note_free (g).
   Every note is freed by exactly one thread and no other thread ever names it in a call that overlaps the free
   (Y's notify (q) has returned before Y's own free (q) starts). */
#include "nsync.h"
#include "vrt.h"
#include <stdio.h>
static nsync_note q, n, g;
static void tY (void *a) { nsync_note_notify (q); nsync_note_free (q); }
static void tZ (void *a) { nsync_note_free (n); }
static void tU (void *a) { nsync_note_free (g); }
int main (void) {
	q = nsync_note_new (NULL, nsync_time_no_deadline);
	n = nsync_note_new (q, nsync_time_no_deadline);
	g = nsync_note_new (n, nsync_time_no_deadline);
	vrt_thread ("Y", tY, NULL);
	vrt_thread ("Z", tZ, NULL);
	vrt_thread ("U", tU, NULL);
	vrt_run ();
	printf ("VRT-END ok\n");
	return 0;
}
