/* note_f8 (F10 shape), with the call/ret announcements that
   replay/note_replay.ml needs.  q -> n -> g.
   Y: nsync_note_notify (q); nsync_note_free (q).   Z: nsync_note_free (n).   U: nsync_note_free (g). */
#include "nsync.h"
#include "vrt.h"
#include <stdio.h>
static nsync_note note[3];   /* q = 0, n = 1, g = 2 (allocation order = the model's ids) */
static void x_new (int i, int par) {
	vrt_note ("call %d new %d none", vrt_self (), par);
	note[i] = nsync_note_new (par < 0 ? NULL : note[par], nsync_time_no_deadline);
	vrt_note ("ret %d %d", vrt_self (), note[i] != NULL);
}
static void x_notify (int i) {
	vrt_note ("call %d notify %d", vrt_self (), i);
	nsync_note_notify (note[i]);
	vrt_note ("ret %d -", vrt_self ());
}
static void x_free (int i) {
	vrt_note ("call %d free %d", vrt_self (), i);
	nsync_note_free (note[i]);
	vrt_note ("ret %d -", vrt_self ());
}
static void tY (void *a) { x_notify (0); x_free (0); }
static void tZ (void *a) { x_free (1); }
static void tU (void *a) { x_free (2); }
int main (void) {
	x_new (0, -1);
	x_new (1, 0);
	x_new (2, 1);
	vrt_thread ("Y", tY, NULL);
	vrt_thread ("Z", tZ, NULL);
	vrt_thread ("U", tU, NULL);
	vrt_run ();
	printf ("VRT-END ok\n");
	return 0;
}
