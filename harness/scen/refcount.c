/* refcount (C13, mutex half): N threads share a malloc'ed object {nsync_mu mu; int refs;} and each runs the
   pattern   lock; last = (--refs == 0); unlock; if (last) free (obj);
   in write mode (some arrive via trylock, some first do an extra lock/unlock round so that waiters are present).
   Oracle: the runtime's arena -- the block is unmapped on free, so any access to the mutex by a releasing thread
   after another thread could acquire, drop the last reference and free is an immediate UAF report.
   VRT_MUWAIT=1: some users first time out in nsync_mu_wait_with_deadline inside the critical section.
   VRT_RMODE=1 lets users hold the reference through read locks for part of the work (the reader-mode variant). */
#include "nsync.h"
#include "vrt.h"
#include <stdio.h>
#include <stdlib.h>

struct obj { nsync_mu mu; int refs; int payload; };
static struct obj *o;

static int never (const void *v) { return 0; }

static void user (void *a) {
	int last, rounds = (int) vrt_rand (2);
	while (rounds-- > 0) {                       /* extra traffic so that queues form */
		if (vrt_opt ("RMODE", 0) && vrt_rand (2)) { nsync_mu_rlock (&o->mu); (void) o->payload; nsync_mu_runlock (&o->mu); }
		else { nsync_mu_lock (&o->mu); o->payload++; nsync_mu_unlock (&o->mu); }
	}
	if (vrt_rand (3) == 0) { while (!nsync_mu_trylock (&o->mu)) vrt_yield (); }
	else nsync_mu_lock (&o->mu);
	if (vrt_opt ("MUWAIT", 0) && vrt_rand (2)) {
		/* a conditional wait that times out inside the critical section (the user still holds its reference) */
		nsync_mu_wait_with_deadline (&o->mu, never, NULL, NULL, vrt_abs ((int64_t) vrt_rand (3) * 600), NULL);
		vrt_count ("timed_wait");
	}
	last = (--o->refs == 0);
	nsync_mu_unlock (&o->mu);
	if (last) { free (o); vrt_count ("freed"); }
}
int main (void) {
	int i, n = 2 + (int) vrt_rand (3);
	static char nm[6][8];
	o = (struct obj *) malloc (sizeof (*o));
	nsync_mu_init (&o->mu);
	o->refs = n; o->payload = 0;
	for (i = 0; i < n; i++) { snprintf (nm[i], 8, "u%d", i); vrt_thread (nm[i], user, NULL); }
	vrt_run ();
	printf ("VRT-END ok\n");
	return 0;
}
