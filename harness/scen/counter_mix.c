/* counter_mix (C10): threads add +1/-1 and read an nsync_counter whose initial value equals the number of
   outstanding decrements; waiters wait (with / without deadline, alone).  Oracles:
   - linearizability of every returned value (add results, nsync_counter_value, wait results) against an integer,
     checked at the end by searching for a linearization that respects real-time order;
   - a wait returns non-zero only at/after its deadline; a wait that starts after zero does not block;
   - every waiter is released when the counter reaches zero (stuck detector);
   - C03: every decrementer writes its own plain payload slot before its first nsync_counter_add; the counter reaches zero only after
     ALL decrements, so a thread whose nsync_counter_wait returned 0, or that read the value 0, reads every slot (the runtime's
     happens-before detector judges the pairs). */
#include "nsync.h"
#include "vrt.h"
#include <stdio.h>
#include <string.h>

static nsync_counter c;
struct op { long call, ret; int kind; int delta; unsigned result; int tid; };   /* kind 0 add, 1 value, 2 wait-returned-0 */
static struct op ops[64];
#define NOPS 0
static int initial;
static int64_t ts_ns (nsync_time t) { return (int64_t) t.tv_sec * 1000000000LL + t.tv_nsec; }
/* C03 payloads: ordinary client data, one slot per decrementer (no two writers share one) */
static int nd_total;
static int slot[8];
static void read_slots (const char *how) {
	int k;
	vrt_count ("payload_read");
	for (k = 0; k < nd_total; k++)
		if (slot[k] != 1) vrt_fail ("RACE", "payload written by decrementer %d before its decrement is not visible to a thread that %s", k, how);
}

static void record (long call, int kind, int delta, unsigned result) {
	int i = (int) vrt_sh_add (NOPS, 1) - 1;
	if (i < 64) { ops[i].call = call; ops[i].ret = vrt_steps (); ops[i].kind = kind; ops[i].delta = delta; ops[i].result = result; ops[i].tid = vrt_self (); }
}
/* the notes announce every call and its result to the lock-step replayer (replay/counter_replay.ml) */
static unsigned noted_value (void) {
	unsigned r;
	vrt_note ("call %d value", vrt_self ());
	r = nsync_counter_value (c);
	vrt_note ("ret %d %u", vrt_self (), r);
	return r;
}
static unsigned noted_wait (nsync_time dl) {
	unsigned r;
	if (nsync_time_cmp (dl, nsync_time_no_deadline) == 0) vrt_note ("call %d wait none", vrt_self ());
	else vrt_note ("call %d wait %lld", vrt_self (), (long long) ts_ns (dl));
	r = nsync_counter_wait (c, dl);
	vrt_note ("ret %d %u", vrt_self (), r);
	return r;
}
static void do_add (int d) {
	long t = vrt_steps (); unsigned r;
	vrt_note ("call %d add %d", vrt_self (), d);
	r = nsync_counter_add (c, d);
	vrt_note ("ret %d %u", vrt_self (), r);
	record (t, 0, d, r); vrt_count ("add");
}
static void do_value (void) { long t = vrt_steps (); unsigned r = noted_value (); record (t, 1, 0, r); if (r == 0) read_slots ("read the value 0"); }

static void decrementer (void *a) {
	slot[(int) (long) a] = 1;
	if (vrt_rand (3) == 0) { do_add (1); do_add (-1); }   /* legal: our own decrement is still outstanding, the value is >= 1 */
	if (vrt_rand (2)) do_value ();
	do_add (-1);
	if (vrt_rand (2)) do_value ();
}
static void waiter_thr (void *a) {
	int timed = (int) (long) a;
	nsync_time dl = nsync_time_no_deadline;
	long t = vrt_steps ();
	unsigned r;
	if (timed) dl = vrt_abs ((int64_t) vrt_rand (5) * 800 - 800);
	r = noted_wait (dl);
	if (r == 0) { record (t, 2, 0, 0); vrt_count ("wait_zero"); read_slots ("returned 0 from nsync_counter_wait"); }
	else {
		vrt_count ("wait_timeout");
		if (!timed) vrt_fail ("C10", "wait without deadline returned %u", r);
		if (vrt_now_ns () < ts_ns (dl)) vrt_fail ("C10", "wait returned non-zero (%u) before its deadline", r);
		record (t, 1, 0, r);     /* the value it reports must be one the counter held */
	}
}
static void late_waiter (void *a) {
	/* waits until the counter is known to be zero, then a fresh wait must return 0 without blocking */
	long before;
	while (noted_value () != 0) vrt_yield ();
	read_slots ("read the value 0");
	before = vrt_sleeps_of (vrt_self ());
	if (noted_wait (nsync_time_no_deadline) != 0) vrt_fail ("C10", "wait after zero returned non-zero");
	if (vrt_sleeps_of (vrt_self ()) != before) vrt_fail ("C10", "a wait that started after the counter reached zero blocked");
	read_slots ("returned 0 from nsync_counter_wait");
}

/* search for a linearization: order the ops so that running value matches, respecting real-time order */
static int nops, used[64];
static int search (int done, long value) {
	int i, j;
	if (done == nops) return 1;
	for (i = 0; i < nops; i++) {
		int ok = 1;
		if (used[i]) continue;
		for (j = 0; j < nops && ok; j++) if (!used[j] && j != i && ops[j].ret < ops[i].call) ok = 0;  /* j must come first */
		if (!ok) continue;
		if (ops[i].kind == 0) { if ((unsigned) (value + ops[i].delta) != ops[i].result) continue; }
		else if (ops[i].kind == 1) { if ((unsigned) value != ops[i].result) continue; }
		else { if (value != 0) continue; }
		used[i] = 1;
		if (search (done + 1, ops[i].kind == 0 ? value + ops[i].delta : value)) return 1;
		used[i] = 0;
	}
	return 0;
}

int main (void) {
	int i, nd = 1 + (int) vrt_rand (3), nw = (int) vrt_rand (3);
	static char nm[8][8];
	initial = nd;
	nd_total = nd;
	c = nsync_counter_new (initial);
	for (i = 0; i < nd; i++) { snprintf (nm[i], 8, "d%d", i); vrt_thread (nm[i], decrementer, (void *) (long) i); }
	for (i = 0; i < nw; i++) { snprintf (nm[4 + i], 8, "w%d", i); vrt_thread (nm[4 + i], waiter_thr, (void *) (long) (vrt_rand (2))); }
	if (vrt_rand (2)) vrt_thread ("late", late_waiter, NULL);
	vrt_run ();
	nops = (int) vrt_sh_get (NOPS);
	if (nops > 64) nops = 64;
	/* a wait that returned 0 observed zero at SOME point of its interval: allow it anywhere in the interval (already modelled) */
	if (!search (0, initial)) {
		char buf[900]; int k = 0;
		for (i = 0; i < nops && k < 800; i++) k += snprintf (buf + k, sizeof (buf) - k, " [t%d %s%d ->%u @%ld-%ld]", ops[i].tid,
			ops[i].kind == 0 ? "add" : ops[i].kind == 1 ? "value" : "wait0", ops[i].delta, ops[i].result, ops[i].call, ops[i].ret);
		vrt_fail ("C10", "returned values are not linearizable against an integer starting at %d:%s", initial, buf);
	}
	{ unsigned fin = noted_value (); if (fin != 0) vrt_fail ("C10", "final value %u", fin); }
	printf ("VRT-END ok\n");
	return 0;
}
