/* rdwait_stuck: does the real nsync show the lost wake-up that Model/MuWaitModel.v shows for a READER-mode nsync_mu_wait?
   (counterexample to C06_no_stuck_full found on the model; see coq/Proof/MuWaitWorld*.v)

   Threads:  Y  nsync_mu_lock; nsync_mu_wait (x[0] != 0); nsync_mu_unlock          (writer-mode conditional waiter)
             D  nsync_mu_rlock; nsync_mu_runlock                                  (a reader: will be the designated waker)
             X  nsync_mu_lock; x[0] = 1; nsync_mu_unlock                          (makes Y's condition true)
             A  nsync_mu_rlock; nsync_mu_wait (x[1] != 0)  [never true]           (READER-mode conditional waiter)
   SCRIPT=1 (default): a scenario-directed scheduler plays the model's schedule:
     Y locks; D queues and sleeps; Y waits (queues behind D, its unlock_slow wakes D: MU_DESIG_WAKER set) and sleeps;
     X locks, sets x[0], unlocks (fast path: a designated waker exists); A rlocks (barges), enters nsync_mu_wait and takes the
     spinlock: had_waiters = 0 because MU_DESIG_WAKER is set; now D re-acquires in read mode (clearing MU_DESIG_WAKER) and
     runlocks (not the last reader: fast path); A releases the spinlock and its read lock directly (had_waiters == 0).
     Result if the code behaves like the model: Y is asleep, on the queue, its condition TRUE, the mutex FREE, nobody left to wake it.
   SCRIPT=0: random schedules of the same four threads (how often does a random scheduler find it?).
   AMODE=1: control: A takes a WRITE lock instead (the window does not exist: D cannot get in while A holds).
   The observer thread naps on a private futex with a deadline; it runs only when everybody else is asleep or finished. */
#include "nsync_cpp.h"
#include "platform.h"
#include "compiler.h"
#include "cputype.h"
#include "nsync.h"
#include "dll.h"
#include "sem.h"
#include "wait_internal.h"
#include "common.h"
#include "atomic.h"
#include "vrt.h"
#include <stdio.h>
#include <errno.h>
#include <limits.h>
#include <unistd.h>
#include <sys/syscall.h>
#include <linux/futex.h>

#define NOSAN __attribute__ ((no_sanitize ("thread")))
static nsync_mu mu;
static int x[2];
static int tY, tD, tX, tA, tO;
static int amode;
/* shadows */
#define Y_LOCKED 3
#define X_DONE 4
#define A_SPIN 5      /* A has taken the spinlock inside nsync_mu_wait */
#define A_LOCKED 6
#define Y_INWAIT 7
#define PHASE 8

static int c0 (const void *v) { return x[0] != 0; }
static int c1 (const void *v) { return x[1] != 0; }
NOSAN static uint32_t mu_word_peek (void) { return *(volatile uint32_t *) &mu.word; }

static void thrY (void *a) {
	nsync_mu_lock (&mu);
	vrt_sh_set (Y_LOCKED, 1);
	vrt_point ("y-locked");
	vrt_sh_set (Y_INWAIT, 1);
	nsync_mu_wait (&mu, c0, NULL, NULL);
	vrt_sh_set (Y_INWAIT, 0);
	nsync_mu_unlock (&mu);
}
static void thrD (void *a) { nsync_mu_rlock (&mu); vrt_point ("d-reading"); nsync_mu_runlock (&mu); }
static void thrX (void *a) { nsync_mu_lock (&mu); x[0] = 1; nsync_mu_unlock (&mu); vrt_sh_set (X_DONE, 1); }
static void thrA (void *a) {
	if (amode) nsync_mu_lock (&mu); else nsync_mu_rlock (&mu);
	vrt_sh_set (A_LOCKED, 1);
	nsync_mu_wait (&mu, c1, NULL, NULL);     /* never true: A sleeps for ever, legitimately */
	if (amode) nsync_mu_unlock (&mu); else nsync_mu_runlock (&mu);
}

static void monitor (volatile void *p, uint32_t o, uint32_t n, const char *file, int line) {
	if (p == (volatile void *) &mu.word && vrt_self () == tA && vrt_sh_get (A_LOCKED) && (o & MU_SPINLOCK) == 0 && (n & MU_SPINLOCK) != 0)
		vrt_sh_set (A_SPIN, 1);
}

static uint32_t nap_word;
NOSAN static void nap_until (int64_t abs_ns) {
	struct timespec ts;
	ts.tv_sec = abs_ns / 1000000000LL; ts.tv_nsec = abs_ns % 1000000000LL;
	while (vrt_now_ns () < abs_ns)
		syscall (SYS_futex, &nap_word, (long) (FUTEX_WAIT_BITSET | FUTEX_PRIVATE_FLAG | FUTEX_CLOCK_REALTIME), 0L, &ts, NULL, -1L);
}
static void observer (void *a) {
	int others[4], i, quiet;
	others[0] = tY; others[1] = tD; others[2] = tX; others[3] = tA;
	for (;;) {
		nap_until (vrt_now_ns () + 1000000000LL);
		quiet = 1;
		for (i = 0; i < 4; i++) if (!vrt_is_blocked (others[i]) && !vrt_is_finished (others[i])) quiet = 0;
		if (!quiet) continue;
		{
			uint32_t w = mu_word_peek ();
			vrt_note ("quiescent: word %u Y blocked %d inwait %ld Xdone %ld", w, vrt_is_blocked (tY), vrt_sh_get (Y_INWAIT), vrt_sh_get (X_DONE));
			if (vrt_is_blocked (tY) && vrt_sh_get (Y_INWAIT) && vrt_sh_get (X_DONE) && (w & (MU_WLOCK | MU_RLOCK_FIELD)) == 0) {
				vrt_count ("lost_wakeup");
				vrt_fail ("C06", "LOST WAKE-UP: everybody is asleep or finished; Y is asleep inside nsync_mu_wait although its condition was made "
					  "true by a write section whose nsync_mu_unlock has returned; the mutex is free (word %u = 0x%x: MU_WAITING %d "
					  "MU_DESIG_WAKER %d MU_SPINLOCK %d), D finished %d, A blocked %d", w, w, (w & MU_WAITING) != 0, (w & MU_DESIG_WAKER) != 0,
					  (w & MU_SPINLOCK) != 0, vrt_is_finished (tD), vrt_is_blocked (tA));
			}
			vrt_count ("quiet_ok");
			/* nobody is stuck wrongly: Y returned; only A (never-true condition) sleeps.  End the run: wake A by making its condition true */
			if (vrt_is_finished (tY)) {
				nsync_mu_lock (&mu); x[1] = 1; nsync_mu_unlock (&mu);
				return;
			}
			if ((w & (MU_WLOCK | MU_RLOCK_FIELD)) == 0)
				vrt_fail ("C02", "LOST HAND-OFF: everybody is asleep or finished, the mutex is free (word %u = 0x%x) and Y / X have not finished: "
					  "a thread is asleep in nsync_mu_lock or nsync_mu_wait with nobody left who is responsible for waking it", w, w);
			vrt_fail ("C06x", "unexpected quiescent state: word %u", w);
		}
	}
}

/* the scripted scheduler */
static int has (int n, const int *r, int t) { int i; for (i = 0; i < n; i++) if (r[i] == t) return 1; return 0; }
static int choose (int n, const int *r, int cur) {
	long ph = vrt_sh_get (PHASE);
	for (;;) {
		switch (ph) {
		case 0: if (!vrt_sh_get (Y_LOCKED)) { if (has (n, r, tY)) return tY; return -1; } ph = 1; break;
		case 1: if (!vrt_is_blocked (tD)) { if (has (n, r, tD)) return tD; return -1; } ph = 2; break;
		case 2: if (!vrt_is_blocked (tY)) { if (has (n, r, tY)) return tY; return -1; } ph = 3; break;
		case 3: if (!vrt_is_finished (tX)) { if (has (n, r, tX)) return tX; return -1; } ph = 4; break;
		case 4: if (!vrt_sh_get (A_SPIN) && !vrt_is_blocked (tA)) { if (has (n, r, tA)) return tA; return -1; } ph = 5; break;
		case 5: if (!vrt_is_finished (tD)) { if (has (n, r, tD)) return tD; ph = 6; break; } ph = 6; break;
		case 6: if (!vrt_is_blocked (tA) && !vrt_is_finished (tA)) { if (has (n, r, tA)) return tA; } ph = 7; break;
		default: vrt_sh_set (PHASE, ph); return -1;
		}
		vrt_sh_set (PHASE, ph);
	}
}

int main (void) {
	amode = vrt_opt ("AMODE", 0);
	vrt_register (&mu, sizeof (mu), "mu0");
	tY = vrt_thread ("Y", thrY, NULL);
	tD = vrt_thread ("D", thrD, NULL);
	tX = vrt_thread ("X", thrX, NULL);
	tA = vrt_thread ("A", thrA, NULL);
	tO = vrt_thread ("obs", observer, NULL);
	vrt_set_write_monitor (monitor);
	if (vrt_opt ("SCRIPT", 1)) vrt_set_chooser (choose);
	vrt_run ();
	printf ("VRT-END ok\n");
	return 0;
}
