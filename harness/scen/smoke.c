/* smoke scenario: N threads increment a counter under nsync_mu; readers check it */
#include "nsync.h"
#include "vrt.h"
#include <stdio.h>
static nsync_mu mu;
static int shared;
static int writers_in, readers_in;
static void writer (void *a) {
	int i;
	for (i = 0; i < 3; i++) {
		nsync_mu_lock (&mu);
		if (++writers_in != 1 || readers_in != 0) vrt_fail ("C01", "writer entered with writers=%d readers=%d", writers_in, readers_in);
		shared++;
		--writers_in;
		nsync_mu_unlock (&mu);
	}
}
static void reader (void *a) {
	int i;
	for (i = 0; i < 3; i++) {
		nsync_mu_rlock (&mu);
		++readers_in;
		if (writers_in != 0) vrt_fail ("C01", "reader entered with writers=%d", writers_in);
		(void) shared;
		--readers_in;
		nsync_mu_runlock (&mu);
	}
}
int main (void) {
	vrt_register (&mu, sizeof (mu), "mu0");
	vrt_thread ("w1", writer, NULL);
	vrt_thread ("w2", writer, NULL);
	vrt_thread ("r1", reader, NULL);
	vrt_thread ("r2", reader, NULL);
	vrt_run ();
	if (shared != 6) vrt_fail ("C01", "lost update: %d", shared);
	printf ("VRT-END ok\n");
	return 0;
}
