/* muwait_mix (C06, C05): conditional critical sections on one nsync_mu.
   2..4 waiters block in nsync_mu_wait / nsync_mu_wait_with_deadline on conditions drawn from
     {same function + same arg, same function + different arg, eq-equivalent args (condition_arg_eq), different function, none}
   in reader or writer mode; setters make the conditions true inside write sections that end with plain nsync_mu_unlock
   (no signalling); a bystander uses nsync_mu_unlock_without_wakeup after sections that change nothing; cv waiters
   share the mutex (VRT_CV=1).  Oracles:
   - every waiter without a deadline returns once its condition has been made true (stuck detector);
   - inside every condition callback no OTHER thread is inside a write critical section (C06);
   - returns: lock held in the caller's mode; 0 iff the condition is true at return; ETIMEDOUT only at/after the deadline;
     ECANCELED only with the note notified (C05). */
#include "nsync_cpp.h"
#include "platform.h"
#include "compiler.h"
#include "cputype.h"
#include "nsync.h"
#include "dll.h"
#include "sem.h"
#include "wait_internal.h"
#include "common.h"
#include "atomic.h"
#include "vrt.h"
#include <stdio.h>
#include <errno.h>

static nsync_mu mu;
static nsync_cv cv;
static nsync_note cancel;
static int x[4];               /* protected by mu */
struct box { int idx; };
static struct box b0 = { 0 }, b0_alias = { 0 }, b1 = { 1 }, b2 = { 2 };
#define WOWNER 8               /* shadow: tid of the thread inside a write section, or 0 */
static int64_t ts_ns (nsync_time t) { return (int64_t) t.tv_sec * 1000000000LL + t.tv_nsec; }

/* tie with coq/Model/MuWaitModel.v (replay/muwait_replay.ml): condition functions and arguments have small ids,
   announced in trace notes: "mwait tid f a eq deadline_ns|none cancellable", "mwret tid r", "eval tid f a result",
   "setc tid f a value" (the truth of condition f on argument a changed inside this write section). */
static int arg_id (const void *v);
/* canonical snapshot: the mutex queue head first, each waiter with its same_condition neighbours */
static void snapshot (char *buf, size_t n) {
	size_t k = 0;
	nsync_dll_element_ *last = mu.waiters, *p;
	k += snprintf (buf + k, n - k, "Q");
	if (last != NULL) {
		p = last->next;
		for (;;) {
			char nm[40], np[40], nn[40];
			waiter *w = CONTAINER (waiter, nw, (struct nsync_waiter_s *) p->container);
			vrt_region_name (p->container, nm, sizeof (nm));
			vrt_region_name (w->same_condition.prev, np, sizeof (np));
			vrt_region_name (w->same_condition.next, nn, sizeof (nn));
			k += snprintf (buf + k, n - k, " %s/%s/%s", nm, np, nn);
			if (p == last || k > n - 130) break;
			p = p->next;
		}
	}
}
static void check_eval (void) {
	long o = vrt_sh_get (WOWNER);
	vrt_count ("cond_eval");
	if (o != 0 && o != vrt_self ()) vrt_fail ("C06", "condition evaluated by thread %d while thread %ld is inside a write critical section", vrt_self (), o);
}
static int nonzero (const void *v) { int r; check_eval (); r = x[((const struct box *) v)->idx] != 0; vrt_note ("eval %d 0 %d %d", vrt_self (), arg_id (v), r); return r; }
static int two (const void *v) { int r; check_eval (); r = x[((const struct box *) v)->idx] >= 2; vrt_note ("eval %d 1 %d %d", vrt_self (), arg_id (v), r); return r; }
static int box_eq (const void *a, const void *b) { return ((const struct box *) a)->idx == ((const struct box *) b)->idx; }

static int arg_id (const void *v) { return v == &b0 ? 0 : v == &b0_alias ? 1 : v == &b1 ? 2 : v == &b2 ? 3 : 4; }
static void announce_wait (int (*f) (const void *), const void *arg, int has_eq, int timed, nsync_time dl, int canc);
static void wsection_begin (void) { vrt_acquired (&mu, 1); vrt_sh_set (WOWNER, vrt_self ()); }
static void wsection_end (void) { vrt_sh_set (WOWNER, 0); vrt_releasing (&mu, 1); }

static void waiter_thr (void *a) {
	int k = (int) (long) a;            /* condition kind */
	int writer = (int) vrt_rand (2), timed = vrt_rand (3) == 0, canc = vrt_rand (4) == 0;
	int (*f) (const void *) = nonzero;
	int (*eq) (const void *, const void *) = NULL;
	const struct box *arg = &b0;
	nsync_time dl = nsync_time_no_deadline;
	int r, truth;
	switch (k) {
	case 0: arg = &b0; break;                          /* same f, same arg */
	case 1: arg = &b1; break;                          /* same f, different arg */
	case 2: arg = &b0_alias; eq = box_eq; break;       /* eq-equivalent to b0 */
	case 3: f = two; arg = &b2; break;                 /* different function */
	default: f = NULL; arg = NULL; break;              /* no condition */
	}
	/* VRT_FINE=<ns>: deadlines at nanosecond granularity inside the busy part of the run (the virtual clock advances 1 ns per
	   step), so that timeouts fire INSIDE other threads' unlock / scan / wake windows rather than only while everybody sleeps */
	if (vrt_opt ("FINE", 0) > 0) { timed = vrt_rand (3) != 0; }
	if (timed) dl = vrt_opt ("FINE", 0) > 0 ? vrt_abs ((int64_t) vrt_rand ((uint32_t) vrt_opt ("FINE", 0))) : vrt_abs ((int64_t) vrt_rand (5) * 900 - 900);
	if (writer) { nsync_mu_lock (&mu); wsection_begin (); } else { nsync_mu_rlock (&mu); vrt_acquired (&mu, 0); }
	if (writer) wsection_end (); else vrt_releasing (&mu, 0);
	announce_wait (f, arg, eq != NULL, timed, dl, canc);
	r = nsync_mu_wait_with_deadline (&mu, f, arg, eq, dl, canc ? cancel : NULL);
	vrt_note ("mwret %d %d", vrt_self (), r);
	if (writer) wsection_begin (); else vrt_acquired (&mu, 0);
	truth = f == NULL ? 1 : (f == nonzero ? x[arg->idx] != 0 : x[arg->idx] >= 2);
	if ((r == 0) != (truth != 0)) vrt_fail ("C05", "nsync_mu_wait_with_deadline returned %d but the condition is %s", r, truth ? "true" : "false");
	if (r == ETIMEDOUT) { vrt_count ("ret_timeout"); if (!timed) vrt_fail ("C05", "ETIMEDOUT without deadline"); if (vrt_now_ns () < ts_ns (dl)) vrt_fail ("C05", "ETIMEDOUT before the deadline"); }
	else if (r == ECANCELED) { vrt_count ("ret_cancel"); if (!canc || !nsync_note_is_notified (cancel)) vrt_fail ("C05", "ECANCELED without a notified note"); }
	else if (r == 0) vrt_count ("ret_true"); else vrt_fail ("C05", "result %d", r);
	if (writer) { wsection_end (); nsync_mu_unlock (&mu); } else { vrt_releasing (&mu, 0); nsync_mu_runlock (&mu); }
}
static void setter (void *a) {
	int i = (int) (long) a;
	nsync_mu_lock (&mu); wsection_begin ();
	x[i]++;
	if (i == 0) { vrt_note ("setc %d 0 0 1", vrt_self ()); vrt_note ("setc %d 0 1 1", vrt_self ()); }
	if (i == 1) vrt_note ("setc %d 0 2 1", vrt_self ());
	if (i == 2) vrt_note ("setc %d 0 3 1", vrt_self ());
	if (vrt_rand (2)) vrt_point ("in-write-section");
	if (i == 2) { x[2]++; vrt_note ("setc %d 1 3 1", vrt_self ()); }
	wsection_end (); nsync_mu_unlock (&mu);
	vrt_count ("set");
}
static void bystander (void *a) {
	int k;
	for (k = 0; k < 2; k++) {
		nsync_mu_lock (&mu); wsection_begin ();
		(void) x[3];                          /* changes nothing any waiter depends on */
		wsection_end ();
		nsync_mu_unlock_without_wakeup (&mu);
		if (vrt_rand (2)) { nsync_mu_rlock (&mu); vrt_acquired (&mu, 0); vrt_point ("reading"); vrt_releasing (&mu, 0); nsync_mu_runlock (&mu); }
	}
}
static void cvwaiter (void *a) {
	nsync_mu_lock (&mu); wsection_begin ();
	while (x[1] == 0) { wsection_end (); nsync_cv_wait (&cv, &mu); wsection_begin (); }
	wsection_end (); nsync_mu_unlock (&mu);
}
static void cvsetter (void *a) { nsync_mu_lock (&mu); wsection_begin (); x[1]++; vrt_note ("setc %d 0 2 1", vrt_self ()); nsync_cv_broadcast (&cv); wsection_end (); nsync_mu_unlock (&mu); }
static void notifier (void *a) { vrt_point ("n"); nsync_note_notify (cancel); }

/* MODE 1: reader-mode waits whose condition never becomes true and whose deadline expires while other readers hold
   the mutex; afterwards fresh readers and writers must still be able to acquire (nobody may be left asleep on a mutex
   that is free, or only read-held for a reader). */
static int never (const void *v) { check_eval (); vrt_note ("eval %d 2 4 0", vrt_self ()); return 0; }
static void announce_wait (int (*f) (const void *), const void *arg, int has_eq, int timed, nsync_time dl, int canc) {
	int fi = f == NULL ? -1 : f == nonzero ? 0 : f == two ? 1 : 2;
	if (timed) vrt_note ("mwait %d %d %d %d %lld %d", vrt_self (), fi, arg_id (arg), has_eq, (long long) ts_ns (dl), canc);
	else vrt_note ("mwait %d %d %d %d none %d", vrt_self (), fi, arg_id (arg), has_eq, canc);
}
static void m1_timed_reader (void *a) {
	nsync_time dl = vrt_abs ((int64_t) vrt_rand (4) * 700);
	int r;
	nsync_mu_rlock (&mu); vrt_acquired (&mu, 0);
	vrt_releasing (&mu, 0);
	announce_wait (never, NULL, 0, 1, dl, 0);
	r = nsync_mu_wait_with_deadline (&mu, never, NULL, NULL, dl, NULL);
	vrt_note ("mwret %d %d", vrt_self (), r);
	vrt_acquired (&mu, 0);
	if (r != ETIMEDOUT) vrt_fail ("C05", "wait on a false condition returned %d", r);
	if (vrt_now_ns () < ts_ns (dl)) vrt_fail ("C05", "ETIMEDOUT before the deadline");
	vrt_count ("ret_timeout");
	vrt_releasing (&mu, 0); nsync_mu_runlock (&mu);
}
static void m1_holder (void *a) {
	int k;
	for (k = 0; k < 2; k++) {
		nsync_mu_rlock (&mu); vrt_acquired (&mu, 0);
		vrt_point ("hold-r"); vrt_point ("hold-r2");
		vrt_releasing (&mu, 0); nsync_mu_runlock (&mu);
	}
}
static void m1_late (void *a) {
	int k;
	for (k = 0; k < 3; k++) {
		vrt_point ("late");
		if ((long) a) { nsync_mu_lock (&mu); wsection_begin (); wsection_end (); nsync_mu_unlock (&mu); }
		else { nsync_mu_rlock (&mu); vrt_acquired (&mu, 0); vrt_releasing (&mu, 0); nsync_mu_runlock (&mu); }
	}
}

/* MODE 2: plain lockers queue in front of a conditional waiter; the one that makes the condition true releases with
   nsync_mu_unlock, the others change nothing and release with nsync_mu_unlock_without_wakeup: the waiter must still return. */
static void m2_waiter (void *a) {
	int k, n = (int) vrt_rand (25);
	nsync_mu_lock (&mu); wsection_begin ();
	for (k = 0; k < n; k++) vrt_point ("w-holds");       /* give the lockers time to queue up behind us */
	wsection_end ();
	nsync_mu_wait (&mu, nonzero, &b0, NULL);
	wsection_begin ();
	if (x[0] == 0) vrt_fail ("C06", "nsync_mu_wait returned with a false condition");
	wsection_end (); nsync_mu_unlock (&mu);
	vrt_count ("ret_true");
}
static void m2_locker (void *a) {
	int sets = (int) (long) a;
	nsync_mu_lock (&mu); wsection_begin ();
	if (sets) x[0] = 1;
	wsection_end ();
	if (sets) nsync_mu_unlock (&mu); else nsync_mu_unlock_without_wakeup (&mu);
}

/* MODE 3: a conditional waiter M whose condition stays false (so a writer's unlock leaves "all conditions false" recorded in the
   mutex), a cv waiter C in writer mode, a thread S that sets C's flag and then signals or broadcasts the cv while the mutex is
   held only by READERS (C is then transferred to the mutex queue), readers that come and go.  Only after C has returned does the
   finisher make M's condition true.  C must return without any further writer activity: the wake-up must not be lost. */
#define M3_CDONE 20
static int m3_go;
static void m3_mwaiter (void *a) {
	nsync_mu_lock (&mu); wsection_begin (); wsection_end ();
	nsync_mu_wait (&mu, two, &b2, NULL);
	wsection_begin (); wsection_end (); nsync_mu_unlock (&mu);
}
static void m3_cvwaiter (void *a) {
	nsync_mu_lock (&mu); wsection_begin ();
	while (!m3_go) { wsection_end (); nsync_cv_wait (&cv, &mu); wsection_begin (); }
	wsection_end (); nsync_mu_unlock (&mu);
	vrt_sh_set (M3_CDONE, 1);
}
static void m3_signaller (void *a) {
	int k;
	for (k = 0; k < (int) vrt_rand (10); k++) vrt_point ("s-wait");
	nsync_mu_lock (&mu); wsection_begin (); m3_go = 1; wsection_end (); nsync_mu_unlock (&mu);   /* evaluates M's (false) condition */
	nsync_mu_rlock (&mu); vrt_acquired (&mu, 0);
	if (vrt_rand (2)) nsync_cv_signal (&cv); else nsync_cv_broadcast (&cv);
	vrt_point ("after-signal-under-rlock");
	vrt_releasing (&mu, 0); nsync_mu_runlock (&mu);
	nsync_cv_broadcast (&cv);     /* in case C started waiting only after the first wake-up (outside any lock: wakes, does not transfer) */
}
static void m3_reader (void *a) {
	int k;
	for (k = 0; k < 2; k++) { nsync_mu_rlock (&mu); vrt_acquired (&mu, 0); vrt_point ("reading"); vrt_releasing (&mu, 0); nsync_mu_runlock (&mu); }
}
static void m3_finisher (void *a) {
	int k;
	for (k = 0; k < 3000 && !vrt_sh_get (M3_CDONE); k++) vrt_yield ();
	if (!vrt_sh_get (M3_CDONE)) vrt_fail ("C04", "the cv waiter was signalled (its flag is set) but has not returned although no writer is active: lost wake-up");
	nsync_mu_lock (&mu); wsection_begin (); x[2] = 2; wsection_end (); nsync_mu_unlock (&mu);
}

int main (void) {
	int i, nw = 2 + (int) vrt_rand (3);
	static char nm[12][8];
	vrt_register (&mu, sizeof (mu), "mu0");
	vrt_set_snapshot (snapshot);
	cancel = nsync_note_new (NULL, nsync_time_no_deadline);
	if (vrt_opt ("MODE", 0) == 3) {
		vrt_thread ("M", m3_mwaiter, NULL);
		vrt_thread ("C", m3_cvwaiter, NULL);
		vrt_thread ("S", m3_signaller, NULL);
		if (vrt_rand (2)) vrt_thread ("R", m3_reader, NULL);
		vrt_thread ("F", m3_finisher, NULL);
		vrt_run ();
		printf ("VRT-END ok\n");
		return 0;
	}
	if (vrt_opt ("MODE", 0) == 2) {
		vrt_thread ("w", m2_waiter, NULL);
		vrt_thread ("a", m2_locker, (void *) 1L);
		vrt_thread ("b", m2_locker, (void *) 0L);
		if (vrt_rand (2)) vrt_thread ("c", m2_locker, (void *) 0L);
		vrt_run ();
		printf ("VRT-END ok\n");
		return 0;
	}
	if (vrt_opt ("MODE", vrt_rand (3) == 0) == 1) {
		vrt_thread ("tr", m1_timed_reader, NULL);
		if (vrt_rand (2)) vrt_thread ("tr2", m1_timed_reader, NULL);
		vrt_thread ("h", m1_holder, NULL);
		vrt_thread ("lr", m1_late, (void *) 0L);
		if (vrt_rand (2)) vrt_thread ("lw", m1_late, (void *) 1L);
		vrt_run ();
		printf ("VRT-END ok\n");
		return 0;
	}
	for (i = 0; i < nw; i++) { snprintf (nm[i], 8, "w%d", i); vrt_thread (nm[i], waiter_thr, (void *) (long) vrt_rand (5)); }
	/* every condition is made true by somebody, in random order */
	vrt_thread ("s0", setter, (void *) 0L);
	vrt_thread ("s1", setter, (void *) 1L);
	vrt_thread ("s2", setter, (void *) 2L);
	if (vrt_rand (2)) vrt_thread ("by", bystander, NULL);
	if (vrt_opt ("CV", (int) vrt_rand (2))) { vrt_thread ("cvw", cvwaiter, NULL); vrt_thread ("cvs", cvsetter, NULL); }
	if (vrt_rand (3) == 0) vrt_thread ("ntf", notifier, NULL);
	vrt_run ();
	printf ("VRT-END ok\n");
	return 0;
}
