/* muwait_mix (C06, C05): conditional critical sections on one nsync_mu.
   2..4 waiters block in nsync_mu_wait / nsync_mu_wait_with_deadline on conditions drawn from
     {same function + same arg, same function + different arg, eq-equivalent args (condition_arg_eq), different function, none}
   in reader or writer mode; setters make the conditions true inside write sections that end with plain nsync_mu_unlock
   (no signalling); a bystander uses nsync_mu_unlock_without_wakeup after sections that change nothing; cv waiters
   share the mutex (VRT_CV=1).  Oracles:
   - every waiter without a deadline returns once its condition has been made true (stuck detector);
   - inside every condition callback no OTHER thread is inside a write critical section, and the mutex word shows a holder
     (writer bit or a non-zero reader count): a condition is only ever evaluated by a thread that holds the mutex (C06);
   - returns: lock held in the caller's mode; 0 iff the condition is true at return; ETIMEDOUT only at/after the deadline;
     ECANCELED only after nsync_note_notify has been called on the note (the scenario's own record; the note has no expiry) (C05);
   - VRT_OBS=1 adds an observer thread that looks at the world whenever everybody else is asleep or finished: no waiter may then
     be asleep inside its wait with its condition already made true by a section that ended with nsync_mu_unlock (C06: a lost
     wake-up that a timed waiter's own timeout would mask). */
#include "nsync_cpp.h"
#include "platform.h"
#include "compiler.h"
#include "cputype.h"
#include "nsync.h"
#include "dll.h"
#include "sem.h"
#include "wait_internal.h"
#include "common.h"
#include "atomic.h"
#include "nsync_waiter.h"
#include "vrt.h"
#include <stdio.h>
#include <errno.h>
#include <limits.h>
#include <unistd.h>
#include <sys/syscall.h>
#include <linux/futex.h>

static nsync_mu mu;
static nsync_cv cv;
static nsync_note cancel;
static int x[4];               /* protected by mu */
struct box { int idx; };
static struct box b0 = { 0 }, b0_alias = { 0 }, b1 = { 1 }, b2 = { 2 };
#define WOWNER 8               /* shadow: tid of the thread inside a write section, or 0 */
#define SH_NOTIFIED 21         /* shadow: set BEFORE nsync_note_notify (cancel) is called */
#define NOSAN __attribute__ ((no_sanitize ("thread")))
static int64_t ts_ns (nsync_time t) { return (int64_t) t.tv_sec * 1000000000LL + t.tv_nsec; }

/* tie with coq/Model/MuWaitModel.v (replay/muwait_replay.ml): condition functions and arguments have small ids,
   announced in trace notes: "mwait tid f a eq deadline_ns|none cancellable", "mwret tid r", "eval tid f a result",
   "setc tid f a value" (the truth of condition f on argument a changed inside this write section). */
static int arg_id (const void *v);
/* canonical snapshot: the mutex queue head first, each waiter with its same_condition neighbours */
static void snapshot (char *buf, size_t n) {
	size_t k = 0;
	nsync_dll_element_ *last = mu.waiters, *p;
	k += snprintf (buf + k, n - k, "Q");
	if (last != NULL) {
		p = last->next;
		for (;;) {
			char nm[40], np[40], nn[40];
			waiter *w = CONTAINER (waiter, nw, (struct nsync_waiter_s *) p->container);
			vrt_region_name (p->container, nm, sizeof (nm));
			vrt_region_name (w->same_condition.prev, np, sizeof (np));
			vrt_region_name (w->same_condition.next, nn, sizeof (nn));
			k += snprintf (buf + k, n - k, " %s/%s/%s", nm, np, nn);
			if (p == last || k > n - 130) break;
			p = p->next;
		}
	}
}
/* the mutex word read as plain memory: no scheduling point, no trace event, not seen by the race detector */
NOSAN static uint32_t mu_word_peek (void) { return *(volatile uint32_t *) &mu.word; }
static void check_eval (void) {
	long o = vrt_sh_get (WOWNER);
	uint32_t w = mu_word_peek ();
	vrt_count ("cond_eval");
	if (o != 0 && o != vrt_self ()) vrt_fail ("C06", "condition evaluated by thread %d while thread %ld is inside a write critical section", vrt_self (), o);
	if ((w & MU_WLOCK) == 0 && (w & MU_RLOCK_FIELD) == 0)
		vrt_fail ("C06", "condition evaluated by thread %d while nobody holds the mutex (word %u: writer bit clear, reader count 0)", vrt_self (), w);
}
static int nonzero (const void *v) { int r; check_eval (); r = x[((const struct box *) v)->idx] != 0; vrt_note ("eval %d 0 %d %d", vrt_self (), arg_id (v), r); return r; }
static int two (const void *v) { int r; check_eval (); r = x[((const struct box *) v)->idx] >= 2; vrt_note ("eval %d 1 %d %d", vrt_self (), arg_id (v), r); return r; }
static int box_eq (const void *a, const void *b) { return ((const struct box *) a)->idx == ((const struct box *) b)->idx; }

static int arg_id (const void *v) { return v == &b0 ? 0 : v == &b0_alias ? 1 : v == &b1 ? 2 : v == &b2 ? 3 : 4; }
static void announce_wait (int (*f) (const void *), const void *arg, int has_eq, int timed, nsync_time dl, int canc);
static void wsection_begin (void) { vrt_acquired (&mu, 1); vrt_sh_set (WOWNER, vrt_self ()); }
static void wsection_end (void) { vrt_sh_set (WOWNER, 0); vrt_releasing (&mu, 1); }

/* ---- VRT_OBS=1: an observer for lost wake-ups that a timed waiter's own timeout would turn into a late, but legal-looking,
   return of 0.  Return times say nothing under an arbitrary scheduler (a woken waiter may simply not have been scheduled), so
   the observer judges only QUIESCENT states: it naps on a private futex word until just before the nearest deadline of a
   sleeping waiter; when every other thread is asleep or finished the virtual clock jumps and the observer runs.  In such a
   state nobody holds the mutex and nobody is about to wake anybody; a waiter that is asleep inside its wait although its
   condition was made true by a write section whose nsync_mu_unlock HAS RETURNED has not been woken by that critical section
   (C06: "a thread blocked in nsync_mu_wait returns once its condition has been made true by a critical section that ended
   with nsync_mu_unlock, with no explicit signalling ... alongside ... timeouts and cancellations"): only a timeout (its own
   or somebody else's) could still get it out.  Conditions never become false again in this scenario. */
#define SH_INWAIT(i) (30 + (i))      /* waiter i is inside its nsync_mu_wait_with_deadline call */
#define SH_XIDX(i) (36 + (i))        /* which x[] its condition is about (-1: none) */
#define SH_DL(i) (42 + (i))          /* its deadline in ns (INT64_MAX: none) */
#define SH_SETDONE(j) (48 + (j))     /* condition(s) on x[j] made true and the setter's nsync_mu_unlock has returned */
static int n_tids, tids[12], n_waiters, wtid[6];
static uint32_t nap_word;
NOSAN static void nap_until (int64_t abs_ns) {
	struct timespec ts;
	ts.tv_sec = abs_ns / 1000000000LL; ts.tv_nsec = abs_ns % 1000000000LL;
	while (vrt_now_ns () < abs_ns)
		syscall (SYS_futex, &nap_word, (long) (FUTEX_WAIT_BITSET | FUTEX_PRIVATE_FLAG | FUTEX_CLOCK_REALTIME), 0L, &ts, NULL, -1L);
}
static void observer (void *a) {
	for (;;) {
		int i, quiet = 1, unfinished = 0, pending = 0;
		int64_t now = vrt_now_ns (), target = now + 300;
		for (i = 0; i < n_tids; i++) if (tids[i] != vrt_self ()) {
			if (!vrt_is_finished (tids[i])) unfinished++;
			if (!vrt_is_blocked (tids[i]) && !vrt_is_finished (tids[i])) quiet = 0;
		}
		if (unfinished == 0) return;
		if (quiet) {
			vrt_count ("observed_quiet");
			for (i = 0; i < n_waiters; i++) {
				long j = vrt_sh_get (SH_XIDX (i));
				if (!vrt_sh_get (SH_INWAIT (i)) || !vrt_is_blocked (wtid[i])) continue;
				if (j >= 0 && vrt_sh_get (SH_SETDONE (j)))
					vrt_fail ("C06", "waiter %d is asleep in nsync_mu_wait_with_deadline (deadline %s) at %lld although its condition on x[%ld] was made true by a section that ended with nsync_mu_unlock, and no thread is running: it was not woken", i, vrt_sh_get (SH_DL (i)) == INT64_MAX ? "none" : "pending", (long long) now, j);
			}
		}
		for (i = 0; i < n_waiters; i++) {       /* wake up just before the nearest deadline of a waiting waiter */
			int64_t d = (int64_t) vrt_sh_get (SH_DL (i));
			if (vrt_sh_get (SH_INWAIT (i)) && d != INT64_MAX && d > now) { pending = 1; if (d - 1 < target) target = d - 1; }
		}
		if (quiet && !pending) return;          /* nothing can change any more: whoever is asleep is left to the stuck detector */
		if (target <= now) target = now + 1;
		nap_until (target);
	}
}

static void waiter_thr (void *a) {
	int k = (int) (long) a % 8, me = (int) (long) a / 8;            /* condition kind, waiter index */
	int writer = (int) vrt_rand (2), timed = vrt_rand (3) == 0, canc = vrt_rand (4) == 0;
	int (*f) (const void *) = nonzero;
	int (*eq) (const void *, const void *) = NULL;
	const struct box *arg = &b0;
	nsync_time dl = nsync_time_no_deadline;
	int r, truth;
	switch (k) {
	case 0: arg = &b0; break;                          /* same f, same arg */
	case 1: arg = &b1; break;                          /* same f, different arg */
	case 2: arg = &b0_alias; eq = box_eq; break;       /* eq-equivalent to b0 */
	case 3: f = two; arg = &b2; break;                 /* different function */
	default: f = NULL; arg = NULL; break;              /* no condition */
	}
	/* VRT_FINE=<ns>: deadlines at nanosecond granularity inside the busy part of the run (the virtual clock advances 1 ns per
	   step), so that timeouts fire INSIDE other threads' unlock / scan / wake windows rather than only while everybody sleeps */
	if (vrt_opt ("FINE", 0) > 0) { timed = vrt_rand (3) != 0; }
	if (timed) dl = vrt_opt ("FINE", 0) > 0 ? vrt_abs ((int64_t) vrt_rand ((uint32_t) vrt_opt ("FINE", 0))) : vrt_abs ((int64_t) vrt_rand (5) * 900 - 900);
	/* VRT_OBS=2: every waiter has a deadline far beyond the busy part of the run (the shape of the library's own stress tests):
	   a lost wake-up never ends stuck, the waiter's timeout finds the condition true and the call returns 0; only the observer
	   can tell */
	if (vrt_opt ("OBS", 0) == 2) { timed = 1; dl = vrt_abs (3000 + (int64_t) vrt_rand (4) * 1000); }
	if (writer) { nsync_mu_lock (&mu); wsection_begin (); } else { nsync_mu_rlock (&mu); vrt_acquired (&mu, 0); }
	if (writer) wsection_end (); else vrt_releasing (&mu, 0);
	announce_wait (f, arg, eq != NULL, timed, dl, canc);
	vrt_sh_set (SH_XIDX (me), f == NULL ? -1 : arg->idx); vrt_sh_set (SH_DL (me), timed ? (long) ts_ns (dl) : (long) INT64_MAX); vrt_sh_set (SH_INWAIT (me), 1);
	r = nsync_mu_wait_with_deadline (&mu, f, arg, eq, dl, canc ? cancel : NULL);
	vrt_sh_set (SH_INWAIT (me), 0);
	vrt_note ("mwret %d %d", vrt_self (), r);
	if (writer) wsection_begin (); else vrt_acquired (&mu, 0);
	truth = f == NULL ? 1 : (f == nonzero ? x[arg->idx] != 0 : x[arg->idx] >= 2);
	if ((r == 0) != (truth != 0)) vrt_fail ("C05", "nsync_mu_wait_with_deadline returned %d but the condition is %s", r, truth ? "true" : "false");
	if (r == ETIMEDOUT) { vrt_count ("ret_timeout"); if (!timed) vrt_fail ("C05", "ETIMEDOUT without deadline"); if (vrt_now_ns () < ts_ns (dl)) vrt_fail ("C05", "ETIMEDOUT before the deadline"); }
	else if (r == ECANCELED) { vrt_count ("ret_cancel"); if (!canc || !vrt_sh_get (SH_NOTIFIED)) vrt_fail ("C05", "ECANCELED although %s", !canc ? "no note was given" : "nobody has called nsync_note_notify on the note (it has no expiry)"); }
	else if (r == 0) vrt_count ("ret_true"); else vrt_fail ("C05", "result %d", r);
	if (writer) { wsection_end (); nsync_mu_unlock (&mu); } else { vrt_releasing (&mu, 0); nsync_mu_runlock (&mu); }
}
static void setter (void *a) {
	int i = (int) (long) a;
	nsync_mu_lock (&mu); wsection_begin ();
	x[i]++;
	if (i == 0) { vrt_note ("setc %d 0 0 1", vrt_self ()); vrt_note ("setc %d 0 1 1", vrt_self ()); }
	if (i == 1) vrt_note ("setc %d 0 2 1", vrt_self ());
	if (i == 2) vrt_note ("setc %d 0 3 1", vrt_self ());
	if (vrt_rand (2)) vrt_point ("in-write-section");
	if (i == 2) { x[2]++; vrt_note ("setc %d 1 3 1", vrt_self ()); }
	wsection_end (); nsync_mu_unlock (&mu);
	vrt_sh_set (SH_SETDONE (i), 1);
	vrt_count ("set");
}
static void bystander (void *a) {
	int k;
	for (k = 0; k < 2; k++) {
		nsync_mu_lock (&mu); wsection_begin ();
		(void) x[3];                          /* changes nothing any waiter depends on */
		wsection_end ();
		nsync_mu_unlock_without_wakeup (&mu);
		if (vrt_rand (2)) { nsync_mu_rlock (&mu); vrt_acquired (&mu, 0); vrt_point ("reading"); vrt_releasing (&mu, 0); nsync_mu_runlock (&mu); }
	}
}
static void cvwaiter (void *a) {
	nsync_mu_lock (&mu); wsection_begin ();
	while (x[1] == 0) { wsection_end (); nsync_cv_wait (&cv, &mu); wsection_begin (); }
	wsection_end (); nsync_mu_unlock (&mu);
}
static void cvsetter (void *a) { nsync_mu_lock (&mu); wsection_begin (); x[1]++; vrt_note ("setc %d 0 2 1", vrt_self ()); nsync_cv_broadcast (&cv); wsection_end (); nsync_mu_unlock (&mu); vrt_sh_set (SH_SETDONE (1), 1); }
static void notifier (void *a) { vrt_point ("n"); vrt_sh_set (SH_NOTIFIED, 1); nsync_note_notify (cancel); }

/* MODE 1: reader-mode waits whose condition never becomes true and whose deadline expires while other readers hold
   the mutex; afterwards fresh readers and writers must still be able to acquire (nobody may be left asleep on a mutex
   that is free, or only read-held for a reader). */
static int never (const void *v) { check_eval (); vrt_note ("eval %d 2 4 0", vrt_self ()); return 0; }
static void announce_wait (int (*f) (const void *), const void *arg, int has_eq, int timed, nsync_time dl, int canc) {
	int fi = f == NULL ? -1 : f == nonzero ? 0 : f == two ? 1 : 2;
	if (timed) vrt_note ("mwait %d %d %d %d %lld %d", vrt_self (), fi, arg_id (arg), has_eq, (long long) ts_ns (dl), canc);
	else vrt_note ("mwait %d %d %d %d none %d", vrt_self (), fi, arg_id (arg), has_eq, canc);
}
static void m1_timed_reader (void *a) {
	nsync_time dl = vrt_abs ((int64_t) vrt_rand (4) * 700);
	int r;
	nsync_mu_rlock (&mu); vrt_acquired (&mu, 0);
	vrt_releasing (&mu, 0);
	announce_wait (never, NULL, 0, 1, dl, 0);
	r = nsync_mu_wait_with_deadline (&mu, never, NULL, NULL, dl, NULL);
	vrt_note ("mwret %d %d", vrt_self (), r);
	vrt_acquired (&mu, 0);
	if (r != ETIMEDOUT) vrt_fail ("C05", "wait on a false condition returned %d", r);
	if (vrt_now_ns () < ts_ns (dl)) vrt_fail ("C05", "ETIMEDOUT before the deadline");
	vrt_count ("ret_timeout");
	vrt_releasing (&mu, 0); nsync_mu_runlock (&mu);
}
static void m1_holder (void *a) {
	int k;
	for (k = 0; k < 2; k++) {
		nsync_mu_rlock (&mu); vrt_acquired (&mu, 0);
		vrt_point ("hold-r"); vrt_point ("hold-r2");
		vrt_releasing (&mu, 0); nsync_mu_runlock (&mu);
	}
}
static void m1_late (void *a) {
	int k;
	for (k = 0; k < 3; k++) {
		vrt_point ("late");
		if ((long) a) { nsync_mu_lock (&mu); wsection_begin (); wsection_end (); nsync_mu_unlock (&mu); }
		else { nsync_mu_rlock (&mu); vrt_acquired (&mu, 0); vrt_releasing (&mu, 0); nsync_mu_runlock (&mu); }
	}
}

/* MODE 2: plain lockers queue in front of a conditional waiter; the one that makes the condition true releases with
   nsync_mu_unlock, the others change nothing and release with nsync_mu_unlock_without_wakeup: the waiter must still return. */
static void m2_waiter (void *a) {
	int k, n = (int) vrt_rand (25);
	nsync_mu_lock (&mu); wsection_begin ();
	for (k = 0; k < n; k++) vrt_point ("w-holds");       /* give the lockers time to queue up behind us */
	wsection_end ();
	nsync_mu_wait (&mu, nonzero, &b0, NULL);
	wsection_begin ();
	if (x[0] == 0) vrt_fail ("C06", "nsync_mu_wait returned with a false condition");
	wsection_end (); nsync_mu_unlock (&mu);
	vrt_count ("ret_true");
}
static void m2_locker (void *a) {
	int sets = (int) (long) a;
	nsync_mu_lock (&mu); wsection_begin ();
	if (sets) x[0] = 1;
	wsection_end ();
	if (sets) nsync_mu_unlock (&mu); else nsync_mu_unlock_without_wakeup (&mu);
}

/* MODE 3: a conditional waiter M whose condition stays false (so a writer's unlock leaves "all conditions false" recorded in the
   mutex), a cv waiter C in writer mode, a thread S that sets C's flag and then signals or broadcasts the cv while the mutex is
   held only by READERS (C is then transferred to the mutex queue), readers that come and go.  Only after C has returned does the
   finisher make M's condition true.  C must return without any further writer activity: the wake-up must not be lost. */
#define M3_CDONE 20
static int m3_go;
/* a gate on a private futex word (not through the library under test): gate_wait blocks, without deadline, until gate_open */
static uint32_t m3_gate;
NOSAN static void gate_wait (uint32_t *g, int sh) {
	while (!vrt_sh_get (sh)) syscall (SYS_futex, g, (long) (FUTEX_WAIT_BITSET | FUTEX_PRIVATE_FLAG), 0L, NULL, NULL, -1L);
}
NOSAN static void gate_open (uint32_t *g, int sh) {
	vrt_sh_set (sh, 1);
	*g = 1;
	syscall (SYS_futex, g, (long) (FUTEX_WAKE | FUTEX_PRIVATE_FLAG), (long) INT_MAX, NULL, NULL, 0L);
}
static void m3_mwaiter (void *a) {
	nsync_mu_lock (&mu); wsection_begin (); wsection_end ();
	nsync_mu_wait (&mu, two, &b2, NULL);
	wsection_begin (); wsection_end (); nsync_mu_unlock (&mu);
}
static void m3_cvwaiter (void *a) {
	nsync_mu_lock (&mu); wsection_begin ();
	while (!m3_go) { wsection_end (); nsync_cv_wait (&cv, &mu); wsection_begin (); }
	wsection_end (); nsync_mu_unlock (&mu);
	gate_open (&m3_gate, M3_CDONE);
}
static void m3_signaller (void *a) {
	int k;
	for (k = 0; k < (int) vrt_rand (10); k++) vrt_point ("s-wait");
	nsync_mu_lock (&mu); wsection_begin (); m3_go = 1; wsection_end (); nsync_mu_unlock (&mu);   /* evaluates M's (false) condition */
	nsync_mu_rlock (&mu); vrt_acquired (&mu, 0);
	if (vrt_rand (2)) nsync_cv_signal (&cv); else nsync_cv_broadcast (&cv);
	vrt_point ("after-signal-under-rlock");
	vrt_releasing (&mu, 0); nsync_mu_runlock (&mu);
	nsync_cv_broadcast (&cv);     /* in case C started waiting only after the first wake-up (outside any lock: wakes, does not transfer) */
}
static void m3_reader (void *a) {
	int k;
	for (k = 0; k < 2; k++) { nsync_mu_rlock (&mu); vrt_acquired (&mu, 0); vrt_point ("reading"); vrt_releasing (&mu, 0); nsync_mu_runlock (&mu); }
}
static void m3_finisher (void *a) {
	/* sleeps until C has returned: if C's wake-up is lost, M, C and the finisher are all asleep with no deadline pending and the
	   run ends STUCK (no step budget, no assumption about the scheduler) */
	gate_wait (&m3_gate, M3_CDONE);
	nsync_mu_lock (&mu); wsection_begin (); x[2] = 2; wsection_end (); nsync_mu_unlock (&mu);
}

/* MODE 5: producers and consumers -- conditions that become FALSE again.  Consumers wait (writer mode) for a token in x[0] or x[1]
   (x[0] through &b0 or the eq-equivalent &b0_alias) and take it; producers add the tokens one per write section; exactly as many
   tokens are produced as will be consumed.  A consumer that has been woken may find its token taken by a consumer that arrived
   later and never slept, and then waits AGAIN inside the same nsync_mu_wait call, behind or in front of waiters with other
   conditions.  Readers wait (reader mode) for x[0] != 0 and for x[2] >= 2 and take nothing: the token that finally satisfies the
   x[0] readers is produced only after every consumer has finished.  No deadlines: a waiter that is not woken although a section
   ending in nsync_mu_unlock made its condition true ends the run STUCK (everybody asleep or finished). */
#define M5_CONSDONE 19
#define M5_GATE 18
static int m5_nconsumers;
static uint32_t m5_gate;
static void m5_truth (int j, int v) {       /* the truth of the conditions on x[j] changed to v inside this write section */
	if (j == 0) { vrt_note ("setc %d 0 0 %d", vrt_self (), v); vrt_note ("setc %d 0 1 %d", vrt_self (), v); }
	if (j == 1) vrt_note ("setc %d 0 2 %d", vrt_self (), v);
}
static void m5_consumer (void *a) {
	int j = (int) (long) a & 1, n = (int) ((long) a >> 1), k;
	for (k = 0; k < n; k++) {
		const struct box *arg = j == 1 ? &b1 : vrt_rand (2) ? &b0 : &b0_alias;
		int (*eq) (const void *, const void *) = arg == &b0_alias ? box_eq : NULL;
		int r;
		nsync_mu_lock (&mu); wsection_begin (); wsection_end ();
		announce_wait (nonzero, arg, eq != NULL, 0, nsync_time_no_deadline, 0);
		r = nsync_mu_wait_with_deadline (&mu, nonzero, arg, eq, nsync_time_no_deadline, NULL);
		vrt_note ("mwret %d %d", vrt_self (), r);
		wsection_begin ();
		if (r != 0) vrt_fail ("C05", "nsync_mu_wait_with_deadline without deadline or note returned %d", r);
		if (x[j] == 0) vrt_fail ("C05", "nsync_mu_wait_with_deadline returned 0 but the condition is false (no token in x[%d])", j);
		x[j]--;
		if (x[j] == 0) m5_truth (j, 0);
		if (vrt_rand (2)) vrt_point ("consumed");
		wsection_end (); nsync_mu_unlock (&mu);
		vrt_count ("ret_true");
	}
	if (vrt_sh_add (M5_CONSDONE, 1) == m5_nconsumers) gate_open (&m5_gate, M5_GATE);
}
static void m5_producer (void *a) {
	int j = (int) (long) a & 1, n = (int) ((long) a >> 1), k;
	for (k = 0; k < n; k++) {
		nsync_mu_lock (&mu); wsection_begin ();
		x[j]++;
		if (x[j] == 1) m5_truth (j, 1);
		if (vrt_rand (2)) vrt_point ("produced");
		wsection_end (); nsync_mu_unlock (&mu);
		vrt_count ("set");
	}
}
static void m5_reader (void *a) {
	int which = (int) (long) a;     /* 0: x[0] != 0 through &b0;  1: x[2] >= 2 */
	int r;
	nsync_mu_rlock (&mu); vrt_acquired (&mu, 0); vrt_releasing (&mu, 0);
	announce_wait (which ? two : nonzero, which ? &b2 : &b0, 0, 0, nsync_time_no_deadline, 0);
	r = nsync_mu_wait_with_deadline (&mu, which ? two : nonzero, which ? &b2 : &b0, NULL, nsync_time_no_deadline, NULL);
	vrt_note ("mwret %d %d", vrt_self (), r);
	vrt_acquired (&mu, 0);
	if (r != 0 || (which ? x[2] < 2 : x[0] == 0)) vrt_fail ("C05", "reader-mode nsync_mu_wait returned %d with its condition %s", r, (which ? x[2] < 2 : x[0] == 0) ? "false" : "true");
	vrt_releasing (&mu, 0); nsync_mu_runlock (&mu);
	vrt_count ("ret_true");
}
static void m5_two_setter (void *a) {
	int k;
	for (k = 0; k < 2; k++) {
		nsync_mu_lock (&mu); wsection_begin ();
		x[2]++;
		if (x[2] == 1) vrt_note ("setc %d 0 3 1", vrt_self ());
		if (x[2] == 2) vrt_note ("setc %d 1 3 1", vrt_self ());
		wsection_end (); nsync_mu_unlock (&mu);
	}
}
static void m5_finisher (void *a) {
	gate_wait (&m5_gate, M5_GATE);          /* every consumer has finished: this token stays */
	nsync_mu_lock (&mu); wsection_begin ();
	x[0]++;
	if (x[0] == 1) m5_truth (0, 1);
	wsection_end (); nsync_mu_unlock (&mu);
}

/* MODE 6 (round-6 seeded change C06e): a conditional waiter M queued on the mutex, a READER-mode cv waiter C, an nsync_wait_n caller N on the
   same cv (not a mutex waiter: it makes all_readers false and is never transferred), and a thread S that, once all three are asleep, signals
   or broadcasts the cv under a READ lock -- wake_waiters takes the mutex spinlock (setting MU_WAITING, which is already set for M), transfers
   nobody, and must NOT take the bit back because M is queued -- and then makes M's condition true in a write section ended by nsync_mu_unlock.
   M has no deadline: if that unlock does not scan the queue the run ends STUCK. */
#define M6_GO 17
static int m6_tid[3];
static void m6_mwaiter (void *a) {
	int writer = (int) (long) a, r;
	if (writer) { nsync_mu_lock (&mu); wsection_begin (); wsection_end (); } else { nsync_mu_rlock (&mu); vrt_acquired (&mu, 0); vrt_releasing (&mu, 0); }
	announce_wait (nonzero, &b0, 0, 0, nsync_time_no_deadline, 0);
	r = nsync_mu_wait_with_deadline (&mu, nonzero, &b0, NULL, nsync_time_no_deadline, NULL);
	vrt_note ("mwret %d %d", vrt_self (), r);
	if (writer) wsection_begin (); else vrt_acquired (&mu, 0);
	if (r != 0 || x[0] == 0) vrt_fail ("C05", "nsync_mu_wait without deadline returned %d with x[0] = %d", r, x[0]);
	if (writer) { wsection_end (); nsync_mu_unlock (&mu); } else { vrt_releasing (&mu, 0); nsync_mu_runlock (&mu); }
	vrt_count ("ret_true");
}
static void m6_cvreader (void *a) {
	nsync_mu_rlock (&mu); vrt_acquired (&mu, 0);
	while (!vrt_sh_get (M6_GO)) { vrt_releasing (&mu, 0); nsync_cv_wait (&cv, &mu); vrt_acquired (&mu, 0); }
	vrt_releasing (&mu, 0); nsync_mu_runlock (&mu);
}
static void m6_waitn (void *a) {
	struct nsync_waitable_s w, *pw[1];
	w.v = &cv; w.funcs = &nsync_cv_waitable_funcs; pw[0] = &w;
	(void) nsync_wait_n (NULL, NULL, NULL, nsync_time_no_deadline, 1, pw);
}
static void m6_signaller (void *a) {
	while (!vrt_is_blocked (m6_tid[0]) || !vrt_is_blocked (m6_tid[1]) || !vrt_is_blocked (m6_tid[2])) vrt_yield ();
	/* the predicate changes under the WRITE lock (under a read lock it could change between C's test and C's enqueue on the cv, both
	   threads holding read locks: the scenario's own lost wake-up -- seen once in 20000 thorough-tier runs, a false alarm of the first
	   version of this mode); the wake-up itself is then issued under a read lock */
	nsync_mu_lock (&mu); wsection_begin (); vrt_sh_set (M6_GO, 1); wsection_end (); nsync_mu_unlock (&mu);
	nsync_mu_rlock (&mu); vrt_acquired (&mu, 0);
	if (vrt_rand (2)) nsync_cv_signal (&cv); else nsync_cv_broadcast (&cv);
	if (vrt_rand (2)) vrt_point ("after-wake-under-rlock");
	vrt_releasing (&mu, 0); nsync_mu_runlock (&mu);
	nsync_cv_broadcast (&cv);                       /* whoever the signal did not take (outside any lock: wakes, does not transfer) */
	nsync_mu_lock (&mu); wsection_begin ();
	x[0] = 1; vrt_note ("setc %d 0 0 1", vrt_self ()); vrt_note ("setc %d 0 1 1", vrt_self ());
	wsection_end (); nsync_mu_unlock (&mu);
	vrt_count ("set");
}

int main (void) {
	int i, nw = 2 + (int) vrt_rand (3);
	static char nm[12][8];
	vrt_register (&mu, sizeof (mu), "mu0");
	vrt_set_snapshot (snapshot);
	cancel = nsync_note_new (NULL, nsync_time_no_deadline);
	if (vrt_opt ("MODE", 0) == 3) {
		vrt_thread ("M", m3_mwaiter, NULL);
		vrt_thread ("C", m3_cvwaiter, NULL);
		vrt_thread ("S", m3_signaller, NULL);
		if (vrt_rand (2)) vrt_thread ("R", m3_reader, NULL);
		vrt_thread ("F", m3_finisher, NULL);
		vrt_run ();
		printf ("VRT-END ok\n");
		return 0;
	}
	if (vrt_opt ("MODE", 0) == 6) {
		m6_tid[0] = vrt_thread ("M", m6_mwaiter, (void *) (long) vrt_rand (2));
		m6_tid[1] = vrt_thread ("C", m6_cvreader, NULL);
		m6_tid[2] = vrt_thread ("N", m6_waitn, NULL);
		vrt_thread ("S", m6_signaller, NULL);
		if (vrt_rand (2)) vrt_thread ("R", m3_reader, NULL);
		vrt_run ();
		printf ("VRT-END ok\n");
		return 0;
	}
	if (vrt_opt ("MODE", 0) == 5) {
		int need[2] = { 0, 0 }, nc = 2 + (int) vrt_rand (2), j, nthreads = 0;
		static char cn[6][8];
		m5_nconsumers = nc;
		for (i = 0; i < nc; i++) {
			int jj = (int) vrt_rand (3) == 0, n = 1 + (int) vrt_rand (2);
			need[jj] += n;
			snprintf (cn[i], 8, "c%d", i);
			vrt_thread (cn[i], m5_consumer, (void *) (long) (jj | (n << 1)));
		}
		for (j = 0; j < 2; j++) if (need[j] > 0) {
			int first = (need[j] > 1 && nc + nthreads < 5) ? 1 + (int) vrt_rand ((uint32_t) need[j] - 1) : need[j];   /* the runtime has room for 11 threads */
			vrt_thread (j ? "p1a" : "p0a", m5_producer, (void *) (long) (j | (first << 1))); nthreads++;
			if (need[j] - first > 0) { vrt_thread (j ? "p1b" : "p0b", m5_producer, (void *) (long) (j | ((need[j] - first) << 1))); nthreads++; }
		}
		if (vrt_rand (2)) vrt_thread ("r0", m5_reader, (void *) 0L);
		if (vrt_rand (2)) { vrt_thread ("r2", m5_reader, (void *) 1L); vrt_thread ("s2", m5_two_setter, NULL); }
		vrt_thread ("fin", m5_finisher, NULL);
		vrt_run ();
		printf ("VRT-END ok\n");
		return 0;
	}
	if (vrt_opt ("MODE", 0) == 2) {
		vrt_thread ("w", m2_waiter, NULL);
		vrt_thread ("a", m2_locker, (void *) 1L);
		vrt_thread ("b", m2_locker, (void *) 0L);
		if (vrt_rand (2)) vrt_thread ("c", m2_locker, (void *) 0L);
		vrt_run ();
		printf ("VRT-END ok\n");
		return 0;
	}
	if (vrt_opt ("MODE", vrt_rand (3) == 0) == 1) {
		vrt_thread ("tr", m1_timed_reader, NULL);
		if (vrt_rand (2)) vrt_thread ("tr2", m1_timed_reader, NULL);
		vrt_thread ("h", m1_holder, NULL);
		vrt_thread ("lr", m1_late, (void *) 0L);
		if (vrt_rand (2)) vrt_thread ("lw", m1_late, (void *) 1L);
		vrt_run ();
		printf ("VRT-END ok\n");
		return 0;
	}
#define THREAD(name, fn, arg) (tids[n_tids++] = vrt_thread (name, fn, arg))
	n_waiters = nw;
	for (i = 0; i < nw; i++) { snprintf (nm[i], 8, "w%d", i); wtid[i] = THREAD (nm[i], waiter_thr, (void *) (long) (vrt_rand (5) + 8 * i)); }
	/* every condition is made true by somebody, in random order */
	THREAD ("s0", setter, (void *) 0L);
	THREAD ("s1", setter, (void *) 1L);
	THREAD ("s2", setter, (void *) 2L);
	if (vrt_rand (2)) THREAD ("by", bystander, NULL);
	if (vrt_opt ("CV", (int) vrt_rand (2))) { THREAD ("cvw", cvwaiter, NULL); THREAD ("cvs", cvsetter, NULL); }
	if (vrt_rand (3) == 0) THREAD ("ntf", notifier, NULL);
	if (vrt_opt ("OBS", 0) && n_tids < 11) THREAD ("obs", observer, NULL);     /* the runtime has room for 11 threads */
	vrt_run ();
	printf ("VRT-END ok\n");
	return 0;
}
