/* alloc_waiter (C19; KNOWN FINDING, DESIGN 9.2 / 9.5 fifth review): the SECOND allocation nsync_note_new (parent, ..) can perform.
   When parent->note_mu is contended, the constructor's nsync_mu_lock queues the caller, and a thread that has never blocked before
   gets its waiter struct from nsync_waiter_new_ (), i.e. from malloc -- unchecked (internal/common.c: w = malloc (..); w->tag = ..).
   Pollers keep parent->note_mu busy (nsync_note_is_notified takes it); fresh threads call nsync_note_new (parent) with THEIR OWN second
   allocation made to fail.  If that allocation happens the library stores through NULL (CRASH) instead of returning NULL; if it does not
   happen (no contention in this schedule) the call succeeds and the fault is withdrawn.  The crash is a genuine violation of C19's
   "every allocation performed by the constructors"; it has no local repair (a lock acquisition cannot report failure) and is listed in
   known_findings.json under the key "alloc_waiter:CRASH". */
#include "nsync.h"
#include "vrt.h"
#include <stdio.h>

static nsync_note P;
static void poller (void *a) { int k; for (k = 0; k < 12; k++) (void) nsync_note_is_notified (P); }
static void creator (void *a) {
	nsync_note n;
	vrt_fail_my_alloc_after (2);          /* 1st allocation of this thread: the note; 2nd, if any: its waiter struct */
	n = nsync_note_new (P, nsync_time_no_deadline);
	vrt_fail_my_alloc_after (0);
	if (n == NULL) vrt_fail ("C19", "nsync_note_new returned NULL although its own allocation succeeded");
	vrt_count ("created");
	nsync_note_free (n);
}
int main (void) {
	P = nsync_note_new (NULL, nsync_time_no_deadline);
	vrt_thread ("p0", poller, NULL);
	vrt_thread ("p1", poller, NULL);
	vrt_thread ("c0", creator, NULL);
	vrt_thread ("c1", creator, NULL);
	vrt_run ();
	nsync_note_free (P);
	printf ("VRT-END ok\n");
	return 0;
}
