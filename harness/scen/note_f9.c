/* Tailored scenario for the stuck world found in NoteModel (C09_no_stuck): P -> c -> g.
   T1: nsync_note_free (c).   T2: nsync_note_free (P); nsync_note_free (g).
   Each note is freed by exactly one thread and named by no other call. */
#include "nsync.h"
#include "vrt.h"
#include <stdio.h>
static nsync_note P, c, g;
static void t1 (void *a) { nsync_note_free (c); }
static void t2 (void *a) { nsync_note_free (P); vrt_count ("freeP_returned"); nsync_note_free (g); }
int main (void) {
	P = nsync_note_new (NULL, nsync_time_no_deadline);
	c = nsync_note_new (P, nsync_time_no_deadline);
	g = nsync_note_new (c, nsync_time_no_deadline);
	vrt_thread ("T1", t1, NULL);
	vrt_thread ("T2", t2, NULL);
	vrt_run ();
	printf ("VRT-END ok\n");
	return 0;
}
