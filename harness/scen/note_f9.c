/* note_f9 (F11 shape), with the call/ret announcements that
   replay/note_replay.ml needs.  P -> c -> g.
   T1: nsync_note_free (c).   T2: nsync_note_free (P); nsync_note_free (g).
   VRT_T3=1 (default: half of the runs): a third thread notifies g while the two frees run (T3: nsync_note_notify (g)) -- its
   g->disconnecting++ can land between free (P)'s wait for "children changed" and its next pass over the adopted g, which must then
   WAIT again (seeded change C09c: a stale seen_adoptions makes that wait return at once for ever, holding P's lock). */
#include "nsync_cpp.h"
#include "platform.h"
#include "compiler.h"
#include "cputype.h"
#include "nsync.h"
#include "dll.h"
#include "sem.h"
#include "wait_internal.h"
#include "common.h"
#include "atomic.h"
#include "vrt.h"
#include <stddef.h>
#include <stdio.h>
#include <stdint.h>
static int with_t3;
static size_t adoptions_off;
static nsync_note note[3];   /* P = 0, c = 1, g = 2 (allocation order = the model's ids) */
static void x_new (int i, int par) {
	vrt_note ("call %d new %d none", vrt_self (), par);
	note[i] = nsync_note_new (par < 0 ? NULL : note[par], nsync_time_no_deadline);
	vrt_note ("ret %d %d", vrt_self (), note[i] != NULL);
}
static void x_free (int i) {
	vrt_note ("call %d free %d", vrt_self (), i);
	nsync_note_free (note[i]);
	vrt_note ("ret %d -", vrt_self ());
}
static void t1 (void *a) { x_free (1); }
static uint32_t t3_done_w;
static void t2 (void *a) {
	x_free (0); vrt_count ("freeP_returned");
	/* g may be freed only when no other thread uses it: wait for T3's notify to return (an atomic of the scenario, a scheduling point) */
	while (with_t3 && vrt_load (&t3_done_w, VRT_ACQ, "note_f9.c", __LINE__) == 0) vrt_yield ();
	x_free (2);
}
static void t3 (void *a) {
	/* VRT_T3=2: directed -- start the notification only once free (c) has handed g over to P (P->adoptions != 0), or P is gone */
	while (with_t3 == 2 && vrt_peek32_or ((const char *) note[0] + adoptions_off, 1) == 0) vrt_yield ();
	vrt_note ("call %d notify 2", vrt_self ());
	nsync_note_notify (note[2]);
	vrt_note ("ret %d -", vrt_self ());
	vrt_store (&t3_done_w, 1, VRT_REL, "note_f9.c", __LINE__);
}
int main (void) {
	x_new (0, -1);
	x_new (1, 0);
	x_new (2, 1);
	vrt_thread ("T1", t1, NULL);
	vrt_thread ("T2", t2, NULL);
	with_t3 = vrt_opt ("T3", (int) vrt_rand (3));
	adoptions_off = offsetof (struct nsync_note_s_, adoptions);
	if (with_t3) vrt_thread ("T3", t3, NULL);
	vrt_run ();
	printf ("VRT-END ok\n");
	return 0;
}
