/* note_f9 (F11 shape), with the call/ret announcements that
   replay/note_replay.ml needs.  P -> c -> g.
   T1: nsync_note_free (c).   T2: nsync_note_free (P); nsync_note_free (g). */
#include "nsync.h"
#include "vrt.h"
#include <stdio.h>
static nsync_note note[3];   /* P = 0, c = 1, g = 2 (allocation order = the model's ids) */
static void x_new (int i, int par) {
	vrt_note ("call %d new %d none", vrt_self (), par);
	note[i] = nsync_note_new (par < 0 ? NULL : note[par], nsync_time_no_deadline);
	vrt_note ("ret %d %d", vrt_self (), note[i] != NULL);
}
static void x_free (int i) {
	vrt_note ("call %d free %d", vrt_self (), i);
	nsync_note_free (note[i]);
	vrt_note ("ret %d -", vrt_self ());
}
static void t1 (void *a) { x_free (1); }
static void t2 (void *a) { x_free (0); vrt_count ("freeP_returned"); x_free (2); }
int main (void) {
	x_new (0, -1);
	x_new (1, 0);
	x_new (2, 1);
	vrt_thread ("T1", t1, NULL);
	vrt_thread ("T2", t2, NULL);
	vrt_run ();
	printf ("VRT-END ok\n");
	return 0;
}
