/* mu_mix: 2..4 threads (plus optional late arrivals) run random sequences of
   lock / rlock / trylock / rtrylock critical sections on one nsync_mu.
   Oracles: C01 shadow occupancy, C02 global progress (runtime stuck detector, try-locks
   never sleep), C03 happens-before on `data` (instrumented plain accesses),
   C16(a) when VRT_DEBUGGER=1 adds a thread calling the debug-state functions. */
#include "nsync.h"
#include "vrt.h"
#include <stdio.h>
#include <string.h>
#include "dll.h"

static nsync_mu mu;
static int data[4];
static int total_w;

/* canonical snapshot: the mutex queue as the list of waiter blocks, head first */
static void snapshot (char *buf, size_t n) {
	size_t k = 0;
	nsync_dll_element_ *last = mu.waiters, *p;
	k += snprintf (buf + k, n - k, "Q");
	if (last != NULL) {
		p = last->next;
		for (;;) {
			char nm[40];
			vrt_region_name (p->container, nm, sizeof (nm));
			k += snprintf (buf + k, n - k, " %s", nm);
			if (p == last || k > n - 48) break;
			p = p->next;
		}
	}
}

/* C16(a): a debug-state function may take and drop the queue spinlock, nothing else */
static void monitor (volatile void *p, uint32_t o, uint32_t n, const char *file, int line) {
	size_t L = strlen (file);
	if (p == (volatile void *) &mu.word && L >= 7 && strcmp (file + L - 7, "debug.c") == 0 && ((o ^ n) & ~2u) != 0) {
		vrt_fail ("C16", "debug-state function wrote the mutex word %u -> %u at debug.c:%d: bits other than the "
			  "queue spinlock changed (lock ownership / wake-up flags clobbered)", o, n, line);
	}
}

static void section (int writer) {
	vrt_acquired (&mu, writer);
	if (writer) { data[0]++; data[1] = data[0]; total_w++; }
	else if (data[0] != data[1]) vrt_fail ("C01", "reader saw a half-done write section");
	if (vrt_rand (3) == 0 || vrt_opt ("DEBUGGER", 0)) vrt_point ("in-section");
	vrt_releasing (&mu, writer);
}

static void worker (void *a) {
	int k, n = 2 + (int) vrt_rand (3);
	int dbg = vrt_opt ("DEBUGGER", 0);
	if (dbg) n = 4;
	for (k = 0; k < n; k++) {
		switch (dbg ? vrt_rand (4) : vrt_rand (6)) {
		case 0: case 1:
			nsync_mu_lock (&mu); section (1); nsync_mu_unlock (&mu); break;
		case 2: case 3:
			nsync_mu_rlock (&mu); section (0); nsync_mu_runlock (&mu); break;
		case 4:
			vrt_sh_set (48 + vrt_self (), vrt_sleeps_of (vrt_self ()));
			if (nsync_mu_trylock (&mu)) { vrt_count ("try_ok"); section (1); nsync_mu_unlock (&mu); } else vrt_count ("try_fail");
			if (vrt_sleeps_of (vrt_self ()) != vrt_sh_get (48 + vrt_self ())) vrt_fail ("C02", "nsync_mu_trylock blocked on the semaphore");
			break;
		default:
			vrt_sh_set (48 + vrt_self (), vrt_sleeps_of (vrt_self ()));
			if (nsync_mu_rtrylock (&mu)) { vrt_count ("rtry_ok"); section (0); nsync_mu_runlock (&mu); } else vrt_count ("rtry_fail");
			if (vrt_sleeps_of (vrt_self ()) != vrt_sh_get (48 + vrt_self ())) vrt_fail ("C02", "nsync_mu_rtrylock blocked on the semaphore");
			break;
		}
	}
	if (a != NULL && vrt_rand (2) == 0) {   /* a fresh thread arrives late */
		vrt_thread ("late", worker, NULL);
	}
}

static void debugger (void *a) {
	int k;
	char buf[160];
	for (k = 0; k < 8; k++) {
		int full = vrt_rand (4) != 0;
		/* VRT_DEBUGGER=2: every third call (on average) is nsync_mu_debugger, the non-blocking variant that may walk
		   the queue without the spinlock (it prints into nsync's static buffer); VRT_DEBUGGER=1 is unchanged */
		int unsafe = vrt_opt ("DEBUGGER", 0) == 2 && vrt_rand (3) == 0;
		vrt_note ("dbgcall %d %d", vrt_self (), unsafe ? 2 : full);   /* for replay/mudbg_replay.ml: which entry point */
		if (unsafe) { nsync_mu_debugger (&mu); vrt_count ("debug_call"); continue; }
		vrt_observer_begin (buf, sizeof (buf));     /* C16: from here to _end this thread may write (plainly) only into buf */
		if (full) nsync_mu_debug_state_and_waiters (&mu, buf, (int) sizeof (buf));
		else nsync_mu_debug_state (&mu, buf, (int) sizeof (buf));
		vrt_observer_end ();
		vrt_count ("debug_call");
	}
}

int main (void) {
	int i, n = vrt_opt ("N", 2 + (int) vrt_rand (3));
	static char names[8][8];
	vrt_register (&mu, sizeof (mu), "mu0");
	vrt_set_snapshot (snapshot);
	vrt_set_write_monitor (monitor);
	for (i = 0; i < n; i++) {
		snprintf (names[i], 8, "t%d", i);
		vrt_thread (names[i], worker, i == 0 ? (void *) 1 : NULL);
	}
	if (vrt_opt ("DEBUGGER", 0)) vrt_thread ("dbg", debugger, NULL);
	vrt_run ();
	if (data[0] != total_w) vrt_fail ("C01", "lost update");
	if (vrt_holders (&mu, 1) || vrt_holders (&mu, 0)) vrt_fail ("HARNESS", "unbalanced");
	printf ("VRT-END ok\n");
	return 0;
}
