/* note_mix (C08, C09): a parent - child - grandchild family (plus a sibling) of nsync_notes with assorted deadlines;
   threads notify, poll, wait on, create children of and free DIFFERENT notes (each note is freed only by the
   single thread that uses it, after the threads using it are done -- the documented contract).
   FAMILY 0: notify(P) | free(C) [C has child G] | poll/wait G | new child under P
   FAMILY 1: notify(C) | notify(C) | free(P)                      (two notifiers of one note; the F4 shape)
   FAMILY 2: deadlines only: P expires, waiters on C and G, pollers
   Oracles: arena/UAF (runtime), stuck detector (runtime), per-note observation history is monotone,
   notify(n) returns with n notified, at the end every live descendant of a notified note is notified,
   a notified note has a cause (notify started on it or a creation-time ancestor, or a deadline reached),
   nsync_note_expiry = min of the deadlines on the creation path (a notified parent counts as zero). */
#include "nsync.h"
#include "vrt.h"
#include <stdio.h>
#include <string.h>
#include <stdint.h>

enum { P = 0, C = 1, G = 2, S = 3, NEWC = 4, NN = 5 };
static nsync_note note[NN];
static int parent_of[NN] = { -1, P, C, P, -1 };
static int64_t dl_of[NN];         /* creation deadline offset, or -1 = none */
#define SEEN(i) (30 + (i))        /* observed notified */
#define NSTART(i) (40 + (i))      /* nsync_note_notify (note[i]) has been called */
#define FREED(i) (50 + (i))
static int64_t ts_ns (nsync_time t) { return (int64_t) t.tv_sec * 1000000000LL + t.tv_nsec; }

/* ---- announcements for the lock-step replay (NoteModel): "call <tid> <op> <note index> [<parent index>] [<deadline ns|none>]", "ret <tid> <value>".
   Note indices are allocation order (= the model's note ids). ---- */
static void fmt_time (char *b, size_t n, nsync_time t) {
	if (nsync_time_cmp (t, nsync_time_no_deadline) == 0) snprintf (b, n, "none");
	else snprintf (b, n, "%lld", (long long) ts_ns (t));
}
static int x_is_notified (int i) {
	int v;
	vrt_note ("call %d isn %d", vrt_self (), i);
	v = nsync_note_is_notified (note[i]);
	vrt_note ("ret %d %d", vrt_self (), v);
	return v;
}
static void x_notify (int i) {
	vrt_note ("call %d notify %d", vrt_self (), i);
	nsync_note_notify (note[i]);
	vrt_note ("ret %d -", vrt_self ());
}
static int x_wait (int i, nsync_time dl) {
	char b[32];
	int v;
	fmt_time (b, sizeof (b), dl);
	vrt_note ("call %d wait %d %s", vrt_self (), i, b);
	v = nsync_note_wait (note[i], dl);
	vrt_note ("ret %d %d", vrt_self (), v);
	return v;
}
static nsync_note x_new (int par, nsync_time dl) {
	char b[32];
	nsync_note n;
	fmt_time (b, sizeof (b), dl);
	vrt_note ("call %d new %d %s", vrt_self (), par, b);
	n = nsync_note_new (par < 0 ? NULL : note[par], dl);
	vrt_note ("ret %d %d", vrt_self (), n != NULL);
	return n;
}
static nsync_time x_expiry (int i) {
	char b[32];
	nsync_time e;
	vrt_note ("call %d expiry %d", vrt_self (), i);
	e = nsync_note_expiry (note[i]);
	fmt_time (b, sizeof (b), e);
	vrt_note ("ret %d %s", vrt_self (), b);
	return e;
}
static void x_free (int i) {
	vrt_note ("call %d free %d", vrt_self (), i);
	nsync_note_free (note[i]);
	vrt_note ("ret %d -", vrt_self ());
}

/* soundness at every observation: a note seen notified NOW has a cause NOW -- nsync_note_notify was called on it or on a note of its
   creation path, or a deadline on that path has been reached on the virtual clock */
static int64_t dabs[NN];           /* absolute deadline given at creation, INT64_MAX for none */
static void check_cause (int i) {
	int j;
	int64_t now = vrt_now_ns ();
	for (j = i; j >= 0; j = parent_of[j]) {
		if (vrt_sh_get (NSTART (j)) || dabs[j] <= now) return;
	}
	vrt_fail ("C08", "note %d is observed notified at %lld although nsync_note_notify was called on no note of its path and no deadline on the path has passed", i, (long long) now);
}
static void observe (int i) {
	long seen_before = vrt_sh_get (SEEN (i));   /* only observations that COMPLETED before this call started bind it */
	int v = x_is_notified (i);
	if (v) check_cause (i);
	if (v) vrt_sh_set (SEEN (i), 1);
	else if (seen_before) vrt_fail ("C08", "note %d was observed notified and is now observed un-notified", i);
}
static void do_notify (int i) {
	vrt_sh_set (NSTART (i), 1);
	x_notify (i);
	if (!x_is_notified (i)) vrt_fail ("C08", "nsync_note_notify returned but note %d is not notified", i);
	vrt_sh_set (SEEN (i), 1);
	vrt_count ("notify");
}
static void do_wait (int i, int timed) {
	nsync_time dl = nsync_time_no_deadline;
	int r;
	if (timed) dl = vrt_abs ((int64_t) vrt_rand (5) * 900 - 900);
	r = x_wait (i, dl);
	if (r) { check_cause (i); vrt_sh_set (SEEN (i), 1); vrt_count ("wait_notified"); if (!x_is_notified (i)) vrt_fail ("C08", "wait said notified, poll says not"); }
	else {
		vrt_count ("wait_timeout");
		if (!timed) vrt_fail ("C08", "wait without deadline returned 0");
		if (vrt_now_ns () < ts_ns (dl)) vrt_fail ("C08", "note wait timed out before its deadline");
	}
}
static void t_notify (void *a) { do_notify ((int) (long) a); }
static void t_poll (void *a) { int i = (int) (long) a, k; for (k = 0; k < 3; k++) { observe (i); vrt_point ("poll"); } }
static void t_wait (void *a) { int i = (int) (long) a; do_wait (i & 7, i >> 3); }
static void t_free (void *a) { int i = (int) (long) a; x_free (i); vrt_sh_set (FREED (i), 1); vrt_count ("free"); }
static void t_newchild (void *a) {
	int par = (int) (long) a;
	nsync_time dl = vrt_rand (2) ? nsync_time_no_deadline : vrt_abs (3000);
	dabs[NEWC] = nsync_time_cmp (dl, nsync_time_no_deadline) == 0 ? INT64_MAX : ts_ns (dl);
	parent_of[NEWC] = par;
	note[NEWC] = x_new (par, dl);
	observe (NEWC);
	vrt_count ("newchild");
}
static void t_busy_parent (void *a) {
	int i = (int) (long) a, k;
	int next_id = 4;          /* FAMILY 3: P, C, G, S are notes 0..3 and this thread is the only one that allocates afterwards */
	for (k = 0; k < 4; k++) {
		if (vrt_rand (2)) {
			nsync_note x;
			int id = next_id++;     /* allocation order = the model's note id (announcements for the lock-step replay only) */
			vrt_note ("call %d new %d none", vrt_self (), i);
			x = nsync_note_new (note[i], nsync_time_no_deadline);
			vrt_note ("ret %d %d", vrt_self (), x != NULL);
			observe (i);
			vrt_note ("call %d free %d", vrt_self (), id);
			nsync_note_free (x);
			vrt_note ("ret %d -", vrt_self ());
		}
		else observe (i);
	}
}
static nsync_time mk_dl (int i) {
	int k = (int) vrt_rand (4);
	dl_of[i] = k == 0 ? 1500 : k == 1 ? -500 : -1;      /* future, past, none, none */
	return dl_of[i] < 0 && k != 1 ? nsync_time_no_deadline : vrt_abs (dl_of[i]);
}

int main (void) {
	int fam = vrt_opt ("FAMILY", (int) vrt_rand (4));
	int i;
	nsync_time d[NN], e;
	/* build P -> C -> G, P -> S and check expiry = min over the creation path */
	for (i = 0; i < 4; i++) {
		d[i] = (fam == 2 && i == P) ? vrt_abs (800) : ((fam == 1 || fam == 3) ? nsync_time_no_deadline : mk_dl (i));
		{
			/* expiry = min (own deadline, the parent's notification time at creation), a notified parent counting as zero --
			   for EVERY note, also one whose own deadline has already passed (F12) */
			int pn0 = parent_of[i] >= 0 ? x_is_notified (parent_of[i]) : 0, pn1, k, ok = 0;
			dabs[i] = nsync_time_cmp (d[i], nsync_time_no_deadline) == 0 ? INT64_MAX : ts_ns (d[i]);
			note[i] = x_new (parent_of[i], d[i]);
			pn1 = parent_of[i] >= 0 ? x_is_notified (parent_of[i]) : 0;
			for (k = 0; k < 2 && !ok; k++) {
				e = d[i];
				if (parent_of[i] >= 0) {
					nsync_time pe = (k == 0 ? pn0 : pn1) ? nsync_time_zero : x_expiry (parent_of[i]);
					if (nsync_time_cmp (pe, e) < 0) e = pe;
				}
				ok = nsync_time_cmp (x_expiry (i), e) == 0;
			}
			if (!ok) vrt_fail ("C08", "nsync_note_expiry of note %d is not the minimum of the deadlines on its path to the root", i);
			if (parent_of[i] >= 0 && nsync_time_cmp (x_expiry (i), x_expiry (parent_of[i])) > 0)
				vrt_fail ("C08", "nsync_note_expiry of note %d is later than its parent's", i);
		}
	}
	if (fam == 0) {
		vrt_thread ("nP", t_notify, (void *) (long) P);
		vrt_thread ("fC", t_free, (void *) (long) C);
		vrt_thread (vrt_rand (2) ? "pG" : "wG", vrt_rand (2) ? t_poll : t_wait, (void *) (long) G);
		if (vrt_rand (2)) vrt_thread ("new", t_newchild, (void *) (long) P);
		if (vrt_rand (2)) vrt_thread ("pS", t_poll, (void *) (long) S);
	} else if (fam == 3) {
		/* two notifiers of one child while the parent's lock is kept busy by a third thread (new children / polls of the parent) */
		vrt_thread ("nC1", t_notify, (void *) (long) C);
		vrt_thread ("nC2", t_notify, (void *) (long) C);
		vrt_thread ("busyP", t_busy_parent, (void *) (long) P);
		if (vrt_rand (2)) vrt_thread ("pC", t_poll, (void *) (long) C);
	} else if (fam == 1) {
		vrt_thread ("nC1", t_notify, (void *) (long) C);
		vrt_thread ("nC2", t_notify, (void *) (long) C);
		vrt_thread ("fP", t_free, (void *) (long) P);
		if (vrt_rand (2)) vrt_thread ("wG", t_wait, (void *) (long) (G | (vrt_rand (2) << 3)));
	} else {
		vrt_thread ("wC", t_wait, (void *) (long) (C | (vrt_rand (2) << 3)));
		vrt_thread ("wG", t_wait, (void *) (long) G);
		vrt_thread ("pS", t_poll, (void *) (long) S);
		if (vrt_rand (2)) vrt_thread ("nS", t_notify, (void *) (long) S);
	}
	vrt_run ();
	/* end of run: no notification is in progress any more */
	for (i = 0; i < NN; i++) {
		int j, anc_notified = 0, cause = 0;
		if (note[i] == NULL || vrt_sh_get (FREED (i))) continue;
		for (j = i; j >= 0; j = parent_of[j]) {
			if (vrt_sh_get (NSTART (j)) || dabs[j] <= vrt_now_ns ()) cause = 1;
			if (j != i && !vrt_sh_get (FREED (j)) && note[j] != NULL && vrt_sh_get (NSTART (j))) anc_notified = 1;
			if (j != i && vrt_sh_get (FREED (j)) && vrt_sh_get (NSTART (j))) anc_notified = 0;
		}
		/* descendants of a note whose nsync_note_notify has returned are notified (adopted grandchildren included) */
		for (j = parent_of[i]; j >= 0; j = parent_of[j]) {
			if (vrt_sh_get (NSTART (j)) && i != NEWC) {
				if (!x_is_notified (i)) vrt_fail ("C08", "note %d is a descendant of note %d whose notify has returned, but it is not notified", i, j);
			}
		}
		if (x_is_notified (i) && !cause) vrt_fail ("C08", "note %d is notified although neither it nor an ancestor was notified or had a deadline", i);
	}
	printf ("VRT-END ok\n");
	return 0;
}
