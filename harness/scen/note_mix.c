/* note_mix (C08, C09, C03): a parent - child - grandchild family (plus a sibling) of nsync_notes with assorted deadlines;
   threads notify, poll, wait on, create children of and free DIFFERENT notes (each note is freed only by the
   single thread that uses it, after the threads using it are done -- the documented contract).
   FAMILY 0: notify(P) | free(C) [C has child G] | poll/wait G | new child under P
   FAMILY 1: notify(C) | notify(C) | free(P)                      (two notifiers of one note; the F4 shape)
   FAMILY 2: deadlines only: P expires, waiters on C and G, pollers
   FAMILY 3: two notifiers of C while a third thread keeps P's lock busy
   FAMILY 4: new children (created, observed and possibly freed by ONE creator thread) under C and G while an ancestor is being
             notified and / or freed: notify(P) | creator {C,G} | poll/wait G;  notify(P) | free(C) | creator {G};
             free(P) | notify(C) | creator {C,G}
   Oracles: arena/UAF (runtime), stuck detector (runtime), per-note observation history is monotone,
   notify(n) returns with n notified, a notified note has a cause (notify started on it or a creation-time ancestor, or a deadline
   reached),
   completeness: is_notified / wait must report "notified" when, BEFORE the call started, the note had been observed notified, an
     nsync_note_notify of it had returned, an nsync_note_notify of a creation-path ancestor had returned with no notification of
     that ancestor or of its ancestors in progress, or a deadline on its creation path had passed (for a timed wait also: before
     the wait's own deadline),
   when nsync_note_notify (n) has returned and no notification of n or of an ancestor is in progress, every live descendant (that no
     thread may be freeing) is notified; at the end every live descendant of a notified note is notified,
   nsync_note_expiry = min of the deadlines on the creation path, computed from the deadlines the harness passed; both readings of
     "a notified parent" (its deadline as given / zero) are accepted; it never exceeds the parent's and never changes,
   C03: every notifier writes a plain payload before nsync_note_notify; an observer that sees a note notified whose only possible
     cause is that call reads it (the runtime's happens-before detector judges the pair). */
#include "nsync.h"
#include "vrt.h"
#include <stdio.h>
#include <string.h>
#include <stdint.h>

enum { P = 0, C = 1, G = 2, S = 3, NEWC = 4, NEW2 = 5, NN = 6 };
static nsync_note note[NN];
static int parent_of[NN] = { -1, P, C, P, -1, -1 };
static int64_t dl_of[NN];         /* creation deadline offset, or -1 = none */
static int freeable[NN];          /* some thread other than its creator frees this note: nobody else may touch it (main only writes) */
static int fam;
#define SEEN(i) (30 + (i))        /* observed notified */
#define NSTART(i) (40 + (i))      /* nsync_note_notify (note[i]) has been called */
#define FREED(i) (50 + (i))
#define NDONE(i) (60 + (i))       /* number of nsync_note_notify (note[i]) calls that have RETURNED */
#define NINPROG(i) (70 + (i))     /* number of nsync_note_notify (note[i]) calls in progress */
#define FREEING(i) (80 + (i))     /* nsync_note_free (note[i]) is about to be called / has been called */
#define CREATED(i) (90 + (i))     /* the nsync_note_new that made note[i] has RETURNED */
#define NWHO(i) (100 + (i))       /* the first thread that called nsync_note_notify (note[i]) */
#define NSTARTC(i) (110 + (i))    /* number of nsync_note_notify (note[i]) calls started */
#define POLLING(i) (120 + (i))    /* is_notified / wait calls in progress on note[i]: each may carry out a deadline-driven notification of it */
#define NDONE_AT(i) (130 + (i))   /* virtual time at which the first nsync_note_notify (note[i]) returned */
#define NPTR(i) (140 + (i))       /* the pointer of a note made by a thread (slots >= NEWC): other threads read it from here, not from note[] */
static int64_t ts_ns (nsync_time t) { return (int64_t) t.tv_sec * 1000000000LL + t.tv_nsec; }
/* note[0..3] are written by main before the threads start; the later slots by their creator thread, which publishes them through a
   shadow variable (the harness' own data must not take part in the race detection) */
static nsync_note N (int i) { return i < NEWC ? note[i] : (nsync_note) vrt_sh_get (NPTR (i)); }
/* ... and, as a real program must, with a release store / acquire load pair (an atomic of the scenario, run by the runtime like the
   library's own): a thread that uses a note made by another thread is ordered after its creation */
static uint32_t pub[NN];
static void publish (int i) { vrt_store (&pub[i], 1, VRT_REL, "note_mix.c", __LINE__); }
static int published (int i) { return i < NEWC || vrt_load (&pub[i], VRT_ACQ, "note_mix.c", __LINE__) != 0; }

/* C03 payload: payload[i][t] is written by thread t before it calls nsync_note_notify (note[i]) */
static int payload[NN][12];

/* ---- announcements for the lock-step replay (NoteModel): "call <tid> <op> <note index> [<parent index>] [<deadline ns|none>]", "ret <tid> <value>".
   Note indices are allocation order (= the model's note ids). ---- */
static void fmt_time (char *b, size_t n, nsync_time t) {
	if (nsync_time_cmp (t, nsync_time_no_deadline) == 0) snprintf (b, n, "none");
	else snprintf (b, n, "%lld", (long long) ts_ns (t));
}
static int x_is_notified (int i) {
	int v;
	vrt_sh_add (POLLING (i), 1);
	vrt_note ("call %d isn %d", vrt_self (), i);
	v = nsync_note_is_notified (N (i));
	vrt_note ("ret %d %d", vrt_self (), v);
	vrt_sh_add (POLLING (i), -1);
	return v;
}
static void x_notify (int i) {
	vrt_note ("call %d notify %d", vrt_self (), i);
	nsync_note_notify (N (i));
	vrt_note ("ret %d -", vrt_self ());
}
static int x_wait (int i, nsync_time dl) {
	char b[32];
	int v;
	fmt_time (b, sizeof (b), dl);
	vrt_sh_add (POLLING (i), 1);
	vrt_note ("call %d wait %d %s", vrt_self (), i, b);
	v = nsync_note_wait (N (i), dl);
	vrt_note ("ret %d %d", vrt_self (), v);
	vrt_sh_add (POLLING (i), -1);
	return v;
}
static nsync_note x_new (int par, nsync_time dl) {
	char b[32];
	nsync_note n;
	fmt_time (b, sizeof (b), dl);
	vrt_note ("call %d new %d %s", vrt_self (), par, b);
	n = nsync_note_new (par < 0 ? NULL : N (par), dl);
	vrt_note ("ret %d %d", vrt_self (), n != NULL);
	return n;
}
static nsync_time x_expiry (int i) {
	char b[32];
	nsync_time e;
	vrt_note ("call %d expiry %d", vrt_self (), i);
	e = nsync_note_expiry (N (i));
	fmt_time (b, sizeof (b), e);
	vrt_note ("ret %d %s", vrt_self (), b);
	return e;
}
static void x_free (int i) {
	vrt_note ("call %d free %d", vrt_self (), i);
	nsync_note_free (N (i));
	vrt_note ("ret %d -", vrt_self ());
}

/* soundness at every observation: a note seen notified NOW has a cause NOW -- nsync_note_notify was called on it or on a note of its
   creation path, or a deadline on that path has been reached on the virtual clock */
static int64_t dabs[NN];           /* absolute deadline given at creation, INT64_MAX for none */
static void check_cause (int i) {
	int j;
	int64_t now = vrt_now_ns ();
	for (j = i; j >= 0; j = parent_of[j]) {
		if (vrt_sh_get (NSTART (j)) || dabs[j] <= now) return;
	}
	vrt_fail ("C08", "note %d is observed notified at %lld although nsync_note_notify was called on no note of its path and no deadline on the path has passed", i, (long long) now);
}
/* no notification of note j or of one of its creation-path ancestors is in progress: no nsync_note_notify call, and no poll / wait that
   could be carrying out a deadline-driven one */
static int quiet (int j) {
	int k;
	for (k = j; k >= 0; k = parent_of[k]) if (vrt_sh_get (NINPROG (k)) != 0 || vrt_sh_get (POLLING (k)) != 0) return 0;
	return 1;
}
/* completeness: the reason why note i must be reported notified by a call that starts now (only events that have COMPLETED count), or NULL */
static const char *must_be_notified (int i) {
	int j;
	int64_t now = vrt_now_ns ();
	if (vrt_sh_get (SEEN (i))) return "an observation of it as notified had completed";
	if (vrt_sh_get (NDONE (i))) return "an nsync_note_notify of it had returned";
	for (j = i; j >= 0; j = parent_of[j]) if (dabs[j] < now) return "a deadline on its creation path had passed";
	for (j = parent_of[i]; j >= 0; j = parent_of[j])
		if (vrt_sh_get (NDONE (j)) && quiet (j)) return "an nsync_note_notify of an ancestor had returned and no notification of that ancestor was in progress";
	return NULL;
}
/* C03: note d has just been observed notified by this thread.  If the only possible cause is ONE nsync_note_notify call (exactly one
   call started on the whole creation path, no deadline of the path reached yet), read the payload its caller wrote beforehand */
static void read_payload (int d) {
	int j, cause = -1, n = 0;
	int64_t now = vrt_now_ns ();
	for (j = d; j >= 0; j = parent_of[j]) {
		if (dabs[j] <= now) return;
		if (vrt_sh_get (NSTARTC (j)) != 0) { n += (int) vrt_sh_get (NSTARTC (j)); cause = j; }
	}
	if (n != 1) return;
	vrt_count ("payload_read");
	if (payload[cause][vrt_sh_get (NWHO (cause))] != 1) vrt_fail ("RACE", "payload written before nsync_note_notify of note %d is not visible to an observer of note %d", cause, d);
}
static void observe (int i) {
	long seen_before = vrt_sh_get (SEEN (i));   /* only observations that COMPLETED before this call started bind it */
	const char *why = must_be_notified (i);
	int v = x_is_notified (i);
	if (v) check_cause (i);
	if (v) { vrt_sh_set (SEEN (i), 1); read_payload (i); }
	else if (seen_before) vrt_fail ("C08", "note %d was observed notified and is now observed un-notified", i);
	else if (why != NULL) vrt_fail ("C08", "nsync_note_is_notified of note %d returned 0 although, before the call started, %s", i, why);
}
static void do_notify (int i) {
	int me = vrt_self (), d, j;
	payload[i][me] = 1;
	if (vrt_sh_add (NSTARTC (i), 1) == 1) vrt_sh_set (NWHO (i), me);
	vrt_sh_set (NSTART (i), 1);
	vrt_sh_add (NINPROG (i), 1);
	x_notify (i);
	vrt_sh_add (NINPROG (i), -1);
	if (vrt_sh_add (NDONE (i), 1) == 1) vrt_sh_set (NDONE_AT (i), vrt_now_ns ());
	if (!x_is_notified (i)) vrt_fail ("C08", "nsync_note_notify returned but note %d is not notified", i);
	vrt_sh_set (SEEN (i), 1);
	vrt_count ("notify");
	/* nsync_note_notify (i) has returned; if no notification of i or of an ancestor is in progress at this instant, every descendant
	   whose creation has returned is notified at this instant (and for ever after).  Notes that another thread frees are not
	   touched: the contract forbids it. */
	if (quiet (i)) {
		for (d = 0; d < NN; d++) {
			if (d == i || freeable[d] || !vrt_sh_get (CREATED (d)) || vrt_sh_get (FREEING (d))) continue;
			for (j = parent_of[d]; j >= 0 && j != i; j = parent_of[j]) { }
			if (j != i || !published (d)) continue;
			vrt_count ("desc_checked");
			if (!x_is_notified (d)) vrt_fail ("C08", "nsync_note_notify of note %d has returned and no notification of it or of an ancestor is in progress, but its descendant %d is not notified", i, d);
			vrt_sh_set (SEEN (d), 1);
		}
	}
}
static void do_wait (int i, int timed) {
	nsync_time dl = nsync_time_no_deadline;
	const char *why;
	int64_t dlns = INT64_MAX;
	int r, j;
	if (timed) { dl = vrt_abs ((int64_t) vrt_rand (5) * 900 - 900); dlns = ts_ns (dl); }
	why = must_be_notified (i);
	r = x_wait (i, dl);
	if (r) { check_cause (i); vrt_sh_set (SEEN (i), 1); vrt_count ("wait_notified"); if (!x_is_notified (i)) vrt_fail ("C08", "wait said notified, poll says not"); read_payload (i); }
	else {
		vrt_count ("wait_timeout");
		if (!timed) vrt_fail ("C08", "wait without deadline returned 0");
		if (vrt_now_ns () < dlns) vrt_fail ("C08", "note wait timed out before its deadline");
		if (why != NULL) vrt_fail ("C08", "nsync_note_wait of note %d returned 0 although, before the call started, %s", i, why);
		/* what completed strictly before the wait's own deadline forbids the timeout result too */
		if (vrt_sh_get (NDONE_AT (i)) != 0 && vrt_sh_get (NDONE_AT (i)) < dlns)
			vrt_fail ("C08", "nsync_note_wait of note %d returned 0 at its deadline %lld although an nsync_note_notify of it had returned at %ld", i, (long long) dlns, vrt_sh_get (NDONE_AT (i)));
		for (j = i; j >= 0; j = parent_of[j]) if (dabs[j] < dlns)
			vrt_fail ("C08", "nsync_note_wait of note %d returned 0 at its deadline %lld although the deadline %lld of note %d on its creation path is earlier", i, (long long) dlns, (long long) dabs[j], j);
	}
}

/* ---- nsync_note_expiry: the set of values the property text allows, from the deadlines the harness itself passed ---- */
static int64_t cand[NN][8];
static int ncand[NN];
static int64_t exp0[NN];           /* the value nsync_note_expiry gave right after creation */
static void add_cand (int i, int64_t v) {
	int k;
	for (k = 0; k < ncand[i]; k++) if (cand[i][k] == v) return;
	if (ncand[i] < 8) cand[i][ncand[i]++] = v;
}
static int64_t min64 (int64_t a, int64_t b) { return a < b ? a : b; }
static int64_t tns (nsync_time t) { return nsync_time_cmp (t, nsync_time_no_deadline) == 0 ? INT64_MAX : ts_ns (t); }
/* may_be_notified / may_be_unnotified: what the parent's state at the creation may have been */
static void expiry_candidates (int i, int may_be_notified, int may_be_unnotified) {
	int j, k, par = parent_of[i];
	int64_t lit = INT64_MAX;
	ncand[i] = 0;
	for (j = i; j >= 0; j = parent_of[j]) lit = min64 (lit, dabs[j]);
	add_cand (i, lit);                                           /* the literal minimum of the deadlines from the note to the root */
	if (par >= 0) {
		if (may_be_notified) add_cand (i, min64 (dabs[i], 0));      /* a notified parent counts as zero */
		if (may_be_unnotified) for (k = 0; k < ncand[par]; k++) add_cand (i, min64 (dabs[i], cand[par][k]));
	}
}
static void check_expiry (int i, const char *when) {
	int k, ok = 0, par = parent_of[i];
	int64_t e = tns (x_expiry (i));
	for (k = 0; k < ncand[i]; k++) ok |= cand[i][k] == e;
	if (!ok) vrt_fail ("C08", "nsync_note_expiry of note %d %s is %lld: not the minimum of the deadlines on its path to the root (own deadline %lld, literal minimum %lld)",
			   i, when, (long long) e, (long long) dabs[i], (long long) cand[i][0]);
	if (par >= 0 && exp0[par] >= 0 && e > exp0[par]) vrt_fail ("C08", "nsync_note_expiry of note %d (%lld) is later than its parent's (%lld)", i, (long long) e, (long long) exp0[par]);
	exp0[i] = e;
}

static void t_notify (void *a) { do_notify ((int) (long) a); }
static void t_poll (void *a) { int i = (int) (long) a, k; for (k = 0; k < 3; k++) { observe (i); vrt_point ("poll"); } }
static void t_wait (void *a) { int i = (int) (long) a; do_wait (i & 7, i >> 3); }
static void t_free (void *a) { int i = (int) (long) a; vrt_sh_set (FREEING (i), 1); x_free (i); vrt_sh_set (FREED (i), 1); vrt_count ("free"); }
/* creates note[slot] (by the calling thread, which is the only one that allocates at this time) under the parent and with the deadline
   that main has drawn (parent_of[], dabs[] and plan_dl[] are written by main only), and checks its expiry */
static nsync_time plan_dl[NN];
static int plan_free[NN];
static void plan_child (int slot, int par, nsync_time dl) { parent_of[slot] = par; plan_dl[slot] = dl; dabs[slot] = nsync_time_cmp (dl, nsync_time_no_deadline) == 0 ? INT64_MAX : ts_ns (dl); }
static void create_child (int slot) {
	int j, started = 0, par = parent_of[slot];
	int64_t t1;
	note[slot] = x_new (par, plan_dl[slot]);
	vrt_sh_set (NPTR (slot), (long) note[slot]);
	t1 = vrt_now_ns ();
	publish (slot);
	vrt_sh_set (CREATED (slot), 1);
	/* the parent may have been notified at the creation if a notify had started on its path or a deadline of its path had been reached */
	for (j = par; j >= 0; j = parent_of[j]) if (vrt_sh_get (NSTART (j)) || dabs[j] <= t1) started = 1;
	expiry_candidates (slot, started, 1);
	check_expiry (slot, "right after its creation");
}
static void t_newchild (void *a) {
	create_child (NEWC);
	observe (NEWC);
	vrt_count ("newchild");
}
/* FAMILY 4: one creator makes one or two children under notes whose ancestors are being notified / freed, observes them and
   frees some of them itself (nobody else touches them) */
static int creator_n;
static void plan_creator (int npar, int p0, int p1) {
	int k;
	creator_n = 1 + (int) vrt_rand (2);
	for (k = 0; k < creator_n; k++) {
		int kd = (int) vrt_rand (4);
		nsync_time dl = kd == 0 ? nsync_time_no_deadline : kd == 1 ? vrt_abs (3000) : kd == 2 ? vrt_abs (-300 - 10 * k) : vrt_abs (500 + 400 * (int64_t) vrt_rand (6) + k);
		plan_child (NEWC + k, vrt_rand (npar) == 0 ? p0 : p1, dl);
		plan_free[NEWC + k] = (int) vrt_rand (2);
		freeable[NEWC + k] = 1;      /* its creator may free it at any time: no other thread touches it */
	}
}
static void t_creator (void *a) {
	int n = creator_n, k;
	for (k = 0; k < n; k++) {
		int slot = NEWC + k;
		create_child (slot);
		observe (slot);
		vrt_point ("creator");
		if (vrt_rand (2)) observe (slot);
		vrt_count ("newchild");
	}
	for (k = 0; k < n; k++) if (plan_free[NEWC + k]) {
		vrt_sh_set (FREEING (NEWC + k), 1); x_free (NEWC + k); vrt_sh_set (FREED (NEWC + k), 1); vrt_count ("free_child");
	}
}
static void t_busy_parent (void *a) {
	int i = (int) (long) a, k;
	int next_id = 4;          /* FAMILY 3: P, C, G, S are notes 0..3 and this thread is the only one that allocates afterwards */
	for (k = 0; k < 4; k++) {
		if (vrt_rand (2)) {
			nsync_note x;
			int id = next_id++;     /* allocation order = the model's note id (announcements for the lock-step replay only) */
			vrt_note ("call %d new %d none", vrt_self (), i);
			x = nsync_note_new (note[i], nsync_time_no_deadline);
			vrt_note ("ret %d %d", vrt_self (), x != NULL);
			observe (i);
			vrt_note ("call %d free %d", vrt_self (), id);
			nsync_note_free (x);
			vrt_note ("ret %d -", vrt_self ());
		}
		else observe (i);
	}
}
/* future deadlines are distinct per note, so that parent-earlier-than-child and parent-later-than-child both occur; so are the past ones */
static nsync_time mk_dl (int i) {
	int k = (int) vrt_rand (4);
	dl_of[i] = k == 0 ? 700 + 400 * (int64_t) vrt_rand (6) + i : k == 1 ? -500 - 40 * (int64_t) vrt_rand (4) - i : -1;      /* future, past, none, none */
	return k >= 2 ? nsync_time_no_deadline : vrt_abs (dl_of[i]);
}

int main (void) {
	int i, prepoll;
	nsync_time d[NN];
	fam = vrt_opt ("FAMILY", (int) vrt_rand (5));
	prepoll = (int) vrt_rand (2);   /* polling the parent around the creation sets its notified flag when its deadline has passed: in the other
	                                    half of the runs nsync_note_new meets parents whose deadline has passed but whose flag is not set */
	for (i = 0; i < NN; i++) dabs[i] = INT64_MAX;
	/* build P -> C -> G, P -> S and check expiry = min over the creation path */
	for (i = 0; i < 4; i++) {
		int par = parent_of[i], j, pn0 = 0, pn1 = 0;
		int64_t t1, pd = INT64_MAX;
		d[i] = (fam == 2 && i == P) ? vrt_abs (800) : ((fam == 1 || fam == 3) ? nsync_time_no_deadline : mk_dl (i));
		if (par >= 0 && prepoll) pn0 = x_is_notified (par);
		dabs[i] = tns (d[i]);
		note[i] = x_new (par, d[i]);
		t1 = vrt_now_ns ();
		vrt_sh_set (CREATED (i), 1);
		if (par >= 0 && prepoll) pn1 = x_is_notified (par);
		for (j = par; j >= 0; j = parent_of[j]) pd = min64 (pd, dabs[j]);
		/* nobody calls nsync_note_notify here: the parent is notified exactly when a deadline on its path has passed.  With the polls
		   around the creation we know what the library thought; without them both readings of a parent whose deadline has
		   passed are accepted */
		if (prepoll) expiry_candidates (i, pn0 || pn1, !pn0);
		else expiry_candidates (i, pd <= t1, 1);
		check_expiry (i, "right after its creation");
	}
	if (fam == 0) {
		freeable[C] = 1;
		vrt_thread ("nP", t_notify, (void *) (long) P);
		vrt_thread ("fC", t_free, (void *) (long) C);
		vrt_thread (vrt_rand (2) ? "pG" : "wG", vrt_rand (2) ? t_poll : t_wait, (void *) (long) G);
		if (vrt_rand (2)) { plan_child (NEWC, P, vrt_rand (2) ? nsync_time_no_deadline : vrt_abs (3000)); vrt_thread ("new", t_newchild, (void *) (long) P); }
		if (vrt_rand (2)) vrt_thread ("pS", t_poll, (void *) (long) S);
	} else if (fam == 3) {
		/* two notifiers of one child while the parent's lock is kept busy by a third thread (new children / polls of the parent) */
		vrt_thread ("nC1", t_notify, (void *) (long) C);
		vrt_thread ("nC2", t_notify, (void *) (long) C);
		vrt_thread ("busyP", t_busy_parent, (void *) (long) P);
		if (vrt_rand (2)) vrt_thread ("pC", t_poll, (void *) (long) C);
	} else if (fam == 1) {
		freeable[P] = 1;
		vrt_thread ("nC1", t_notify, (void *) (long) C);
		vrt_thread ("nC2", t_notify, (void *) (long) C);
		vrt_thread ("fP", t_free, (void *) (long) P);
		if (vrt_rand (2)) vrt_thread ("wG", t_wait, (void *) (long) (G | (vrt_rand (2) << 3)));
	} else if (fam == 4) {
		int sub = (int) vrt_rand (3);
		if (sub == 0) {
			plan_creator (2, C, G);
			vrt_thread ("nP", t_notify, (void *) (long) P);
			vrt_thread ("cr", t_creator, NULL);
			if (vrt_rand (2)) vrt_thread ("wG", t_wait, (void *) (long) (G | (vrt_rand (2) << 3))); else vrt_thread ("pG", t_poll, (void *) (long) G);
			if (vrt_rand (2)) vrt_thread ("pS", t_poll, (void *) (long) S);
		} else if (sub == 1) {
			plan_creator (1, G, G);
			freeable[C] = 1;
			if (vrt_rand (4) != 0) vrt_thread ("nP", t_notify, (void *) (long) P);
			vrt_thread ("fC", t_free, (void *) (long) C);
			vrt_thread ("cr", t_creator, NULL);
			if (vrt_rand (2)) vrt_thread ("pS", t_poll, (void *) (long) S);
		} else {
			plan_creator (2, C, G);
			freeable[P] = 1;
			vrt_thread ("fP", t_free, (void *) (long) P);
			vrt_thread ("nC", t_notify, (void *) (long) C);
			vrt_thread ("cr", t_creator, NULL);
			if (vrt_rand (2)) vrt_thread ("wG", t_wait, (void *) (long) (G | (vrt_rand (2) << 3)));
		}
	} else {
		vrt_thread ("wC", t_wait, (void *) (long) (C | (vrt_rand (2) << 3)));
		vrt_thread ("wG", t_wait, (void *) (long) G);
		vrt_thread ("pS", t_poll, (void *) (long) S);
		if (vrt_rand (2)) vrt_thread ("nS", t_notify, (void *) (long) S);
	}
	vrt_run ();
	/* end of run: no notification is in progress any more */
	for (i = 0; i < NN; i++) {
		int j, cause = 0;
		if (note[i] == NULL || vrt_sh_get (FREED (i))) continue;
		for (j = i; j >= 0; j = parent_of[j]) {
			if (vrt_sh_get (NSTART (j)) || dabs[j] <= vrt_now_ns ()) cause = 1;
		}
		/* descendants of a note whose nsync_note_notify has returned are notified (adopted grandchildren and children created
		   while the notification ran included) */
		for (j = parent_of[i]; j >= 0; j = parent_of[j]) {
			if (vrt_sh_get (NSTART (j))) {
				if (!x_is_notified (i)) vrt_fail ("C08", "note %d is a descendant of note %d whose notify has returned, but it is not notified", i, j);
			}
		}
		/* so are those on whose path a deadline has passed */
		for (j = i; j >= 0; j = parent_of[j])
			if (dabs[j] < vrt_now_ns () && !x_is_notified (i)) vrt_fail ("C08", "the deadline of note %d on the creation path of note %d has passed, but it is not notified", j, i);
		if (x_is_notified (i) && !cause) vrt_fail ("C08", "note %d is notified although neither it nor an ancestor was notified or had a deadline", i);
		/* the expiry of a live note never changes */
		{
			int64_t e0 = exp0[i];
			check_expiry (i, "at the end of the run");
			if (exp0[i] != e0) vrt_fail ("C08", "nsync_note_expiry of note %d changed from %lld to %lld", i, (long long) e0, (long long) exp0[i]);
		}
	}
	printf ("VRT-END ok\n");
	return 0;
}
