/* starve2 (C14, witness of C14_bound_refuted_writer / _reader on the REAL code):
   KIND=1: a WRITER victim among three readers, no barging writer.  KIND=2: a READER victim, one writer A, one reader U.
   The scenario-directed scheduler below follows the cycle of Proof/MuProof5.v (wv_cycle / sv_cycle):
     - the victim runs only while somebody pauses inside its critical section AND (KIND=1) another thread that has been
       woken (has slept in its current call) is still waiting to run;
     - an arriving thread runs until it blocks or acquires; a holder releases only when nothing else can be done;
     - a woken thread acquires only when nobody holds.
   It reports how often the victim blocked inside ONE lock call after ROUNDS critical sections of the others. */
#include "nsync_cpp.h"
#include "platform.h"
#include "compiler.h"
#include "cputype.h"
#include "nsync.h"
#include "dll.h"
#include "sem.h"
#include "wait_internal.h"
#include "common.h"
#include "atomic.h"
#include "vrt.h"
#include <stdio.h>

static nsync_mu mu;
static int victim_tid, kind, nb;
#define HOLD 3
#define VDONE 4
#define ST(t) (16 + (t))      /* 0 outside, 1 inside a lock call, 2 inside the critical section */
#define BASE(t) (64 + (t))    /* sleeps of t when it entered its current lock call */
#define WR(t) (112 + (t))     /* 1: t locks in write mode */
#define STOP 5

static void victim (void *a) {
	long before = vrt_sleeps_of (vrt_self ()), n;
	if (kind == 2) { nsync_mu_rlock (&mu); nsync_mu_runlock (&mu); }
	else { nsync_mu_lock (&mu); nsync_mu_unlock (&mu); }
	n = vrt_sleeps_of (vrt_self ()) - before;
	vrt_sh_set (VDONE, 1);
	vrt_note ("victim slept %ld times", n);
	printf ("VICTIM slept %ld times inside one call (LONG_WAIT_THRESHOLD %d)\n", n, LONG_WAIT_THRESHOLD);
}
static void other (void *a) {
	int me = vrt_self (), k, rounds = vrt_opt ("ROUNDS", 400), wr = (int) vrt_sh_get (WR (me));
	for (k = 0; k < rounds && !vrt_sh_get (VDONE); k++) {
		vrt_sh_set (BASE (me), vrt_sleeps_of (me));
		vrt_sh_set (ST (me), 1);
		if (wr) nsync_mu_lock (&mu); else nsync_mu_rlock (&mu);
		vrt_sh_set (ST (me), 2);
		vrt_sh_add (HOLD, 1);
		vrt_point ("hold");
		vrt_sh_add (HOLD, -1);
		vrt_sh_set (ST (me), 0);
		if (wr) nsync_mu_unlock (&mu); else nsync_mu_runlock (&mu);
	}
	vrt_sh_add (STOP, 1);
}
static int setup_tid = -1, s_h, s_y;
static int runnable (int n, const int *r, int t) { int i; for (i = 0; i < n; i++) if (r[i] == t) return 1; return 0; }
static int choose (int n, const int *r, int cur) {
	int i, v = -1, arriving = -1, woken = -1, holder = -1, outside = -1, wholder = 0;
	if (vrt_sh_get (STOP) > 0) return -1;         /* the others are running out of rounds: default policy, let the victim finish */
	if (kind == 1 && !vrt_is_finished (setup_tid)) {   /* the scene: A holds; H, Y, V queue; A releases (wakes H and Y) and is done */
		if (vrt_sh_get (6)) return setup_tid;
		if (vrt_sh_get (ST (setup_tid)) != 2) return setup_tid;
		if (!vrt_is_blocked (s_h)) return s_h;
		if (!vrt_is_blocked (s_y)) return s_y;
		if (!vrt_is_blocked (victim_tid)) return victim_tid;
		vrt_sh_set (6, 1);
		return setup_tid;
	}
	for (i = 0; i < n; i++) {
		int t = r[i];
		if (t == victim_tid) { v = t; continue; }
		switch ((int) vrt_sh_get (ST (t))) {
		case 0: if (outside < 0) outside = t; break;
		case 1: if (vrt_sleeps_of (t) > vrt_sh_get (BASE (t))) { if (woken < 0) woken = t; } else if (arriving < 0) arriving = t; break;
		case 2: if (holder < 0) holder = t; if (vrt_sh_get (WR (t))) wholder = 1; break;
		}
	}
	(void) cur;
	if (outside >= 0) return outside;                                                   /* finish the release / start the next call */
	if (v >= 0 && (kind == 2 ? wholder : (vrt_sh_get (HOLD) > 0 && woken >= 0))) return v;   /* the victim tries and fails */
	if (arriving >= 0) return arriving;
	if (holder >= 0) return holder;
	if (woken >= 0) return woken;
	return v;
}
static void setup_writer (void *a) {
	int me = vrt_self ();
	nsync_mu_lock (&mu);
	vrt_sh_set (ST (me), 2);
	vrt_point ("hold");
	nsync_mu_unlock (&mu);
}
int main (void) {
	int i, t;
	static char nm[6][8];
	kind = vrt_opt ("KIND", 1);
	nb = kind == 1 ? 3 : 2;
	vrt_register (&mu, sizeof (mu), "mu0");
	for (i = 0; i < nb; i++) {
		snprintf (nm[i], 8, "b%d", i);
		t = vrt_thread (nm[i], other, NULL);
		vrt_sh_set (WR (t), kind == 2 && i == 0);
		if (i == 0) s_h = t;
		if (i == 1) s_y = t;
	}
	if (kind == 1) setup_tid = vrt_thread ("setup", setup_writer, NULL);
	victim_tid = vrt_thread ("victim", victim, NULL);
	vrt_set_chooser (choose);
	vrt_run ();
	printf ("VRT-END ok\n");
	return 0;
}
