/* Differential driver for C17: runs the real dll.c on operation sequences.
   Input: lines "N <nelem> <nempty>" (reset), "F i j", "L i j", "R i k", "S i k j", "P" (print),
   "T <op ...>" (save the whole state -- elements, list heads, number of lists -- on a stack, apply the op, print) and
   "O" (restore the state saved by the matching T): a tree of operation sequences is walked with one op per node, each
   sequence seeing exactly the memory contents its prefix left behind.
   Output for P: for each list "fwd: ... | bwd: ..." using first/next and last/prev with a step bound. */
#include "nsync_cpp.h"
#include "platform.h"
#include "compiler.h"
#include "cputype.h"
#include "dll.h"
#include <stdio.h>
#include <string.h>
#include <stdlib.h>
NSYNC_CPP_USING_

#define MAXE 64
static nsync_dll_element_ el[MAXE];
static nsync_dll_list_ lists[4 * MAXE];
static int nlists, nel;
#define MAXSNAP 16
static struct { nsync_dll_element_ el[MAXE]; nsync_dll_list_ lists[4 * MAXE]; int nlists; } snap[MAXSNAP];
static int nsnap;

static int idx (nsync_dll_element_ *e) { return e == NULL ? 0 : (int) (e - el); }
static nsync_dll_element_ *kth (nsync_dll_list_ l, int k) {
	nsync_dll_element_ *p = nsync_dll_first_ (l);
	while (k-- > 0 && p != NULL) p = nsync_dll_next_ (l, p);
	return p;
}
static void print_all (void) {
	int i;
	for (i = 0; i < nlists; i++) {
		nsync_dll_element_ *p;
		int n = 0;
		printf ("%d%s:", i, nsync_dll_is_empty_ (lists[i]) ? "e" : "n");
		for (p = nsync_dll_first_ (lists[i]); p != NULL && n < 2 * MAXE; p = nsync_dll_next_ (lists[i], p), n++) printf (" %d", idx (p));
		printf (" |");
		n = 0;
		if (lists[i] != NULL)
			for (p = nsync_dll_last_ (lists[i]); p != NULL && n < 2 * MAXE; p = nsync_dll_prev_ (lists[i], p), n++) printf (" %d", idx (p));
		printf (" ;");
	}
	printf ("\n");
}
static int apply (const char *op) {
	int a, b, c;
	if (op[0] == 'F') {
		if (scanf ("%d %d", &a, &b) != 2) return 2;
		lists[a] = nsync_dll_make_first_in_list_ (lists[a], nsync_dll_first_ (lists[b])); lists[b] = NULL;
	} else if (op[0] == 'L') {
		if (scanf ("%d %d", &a, &b) != 2) return 2;
		lists[a] = nsync_dll_make_last_in_list_ (lists[a], nsync_dll_last_ (lists[b])); lists[b] = NULL;
	} else if (op[0] == 'R') {
		nsync_dll_element_ *e;
		if (scanf ("%d %d", &a, &b) != 2) return 2;
		e = kth (lists[a], b);
		lists[a] = nsync_dll_remove_ (lists[a], e);
		lists[nlists++] = e;
	} else if (op[0] == 'S') {
		if (scanf ("%d %d %d", &a, &b, &c) != 3) return 2;
		nsync_dll_splice_after_ (kth (lists[a], b), nsync_dll_first_ (lists[c])); lists[c] = NULL;
	} else return 3;
	return 0;
}
int main (void) {
	char op[8];
	int a, b, r;
	/* after a crash the checker reruns the input with this set, so that every completed operation's line is seen */
	if (getenv ("DLL_DRIVER_FLUSH") != NULL) setvbuf (stdout, NULL, _IOLBF, 0);
	while (scanf ("%7s", op) == 1) {
		if (op[0] == 'N') {
			int i;
			if (scanf ("%d %d", &a, &b) != 2) return 2;
			nel = a; nlists = 0; nsnap = 0;
			memset (el, 0, sizeof (el));
			for (i = 1; i <= nel; i++) { nsync_dll_init_ (&el[i], &el[i]); lists[nlists++] = &el[i]; }
			for (i = 0; i < b; i++) lists[nlists++] = NULL;
		} else if (op[0] == 'P') {
			print_all ();
		} else if (op[0] == 'T') {
			if (nsnap >= MAXSNAP) return 4;
			memcpy (snap[nsnap].el, el, sizeof (el)); memcpy (snap[nsnap].lists, lists, sizeof (lists)); snap[nsnap].nlists = nlists;
			nsnap++;
			if (scanf ("%7s", op) != 1) return 2;
			if ((r = apply (op)) != 0) return r;
			print_all ();
		} else if (op[0] == 'O') {
			if (nsnap <= 0) return 4;
			nsnap--;
			memcpy (el, snap[nsnap].el, sizeof (el)); memcpy (lists, snap[nsnap].lists, sizeof (lists)); nlists = snap[nsnap].nlists;
		} else if ((r = apply (op)) != 0) return r;
	}
	return 0;
}
