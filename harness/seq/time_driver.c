/* Differential driver for C18: runs the real nsync_time functions (C build or,
   compiled as C++, the C++ build) on cases read from stdin, one per line. */
#include "nsync_cpp.h"
#include "platform.h"
#include "compiler.h"
#include "cputype.h"
#include "nsync_time.h"
#include <stdio.h>
#include <string.h>
#include <stdlib.h>
NSYNC_CPP_USING_

static nsync_time mk (long long s, long long n) {
	nsync_time t;
	memset (&t, 0, sizeof (t));
	t.tv_sec = (time_t) s;
	t.tv_nsec = (long) n;
	return (t);
}

int main (void) {
	char op[32];
	long long a, b, c, d;
	while (scanf ("%31s", op) == 1) {
		if (strcmp (op, "add") == 0 || strcmp (op, "sub") == 0 || strcmp (op, "cmp") == 0 ||
		    strcmp (op, "rt") == 0) {
			nsync_time x, y, r;
			if (scanf ("%lld %lld %lld %lld", &a, &b, &c, &d) != 4) return 2;
			x = mk (a, b); y = mk (c, d);
			if (op[0] == 'a') { r = nsync_time_add (x, y); printf ("%lld %lld\n", (long long) r.tv_sec, (long long) r.tv_nsec); }
			else if (op[0] == 's') { r = nsync_time_sub (x, y); printf ("%lld %lld\n", (long long) r.tv_sec, (long long) r.tv_nsec); }
			else if (op[0] == 'r') { r = nsync_time_sub (nsync_time_add (x, y), y); printf ("%lld %lld\n", (long long) r.tv_sec, (long long) r.tv_nsec); }
			else { printf ("%d\n", nsync_time_cmp (x, y)); }
		} else if (strcmp (op, "ms") == 0 || strcmp (op, "us") == 0) {
			nsync_time r;
			if (scanf ("%lld", &a) != 1) return 2;
			r = op[0] == 'm' ? nsync_time_ms ((unsigned) a) : nsync_time_us ((unsigned) a);
			printf ("%lld %lld\n", (long long) r.tv_sec, (long long) r.tv_nsec);
		} else if (strcmp (op, "sns") == 0) {
			nsync_time r;
			if (scanf ("%lld %lld", &a, &b) != 2) return 2;
			r = nsync_time_s_ns ((time_t) a, (unsigned) b);
			printf ("%lld %lld\n", (long long) r.tv_sec, (long long) r.tv_nsec);
		} else if (strcmp (op, "consts") == 0) {
			printf ("%lld %lld %lld %lld\n", (long long) nsync_time_zero.tv_sec, (long long) nsync_time_zero.tv_nsec,
				(long long) nsync_time_no_deadline.tv_sec, (long long) nsync_time_no_deadline.tv_nsec);
		} else {
			return 3;
		}
	}
	return 0;
}
