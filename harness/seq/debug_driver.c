/* C16(b) driver: calls the real debug-state functions of /repo (normal build, real threads)
   for every buffer size, with canary bytes around the buffer.  Output per case:
   "<fn> <state> <n> <hex of full text> <hex of buf[-8..n+8)>" */
#include "nsync.h"
#include "nsync_debug.h"
#include <stdio.h>
#include <string.h>
#include <stdlib.h>
#include <unistd.h>
#include <pthread.h>
NSYNC_CPP_USING_

static nsync_mu mu;
static nsync_cv cv;
static int go;
static int cond_go (const void *v) { return go; }
static void *locker (void *a) { nsync_mu_lock (&mu); nsync_mu_unlock (&mu); return NULL; }
static void *rlocker (void *a) { nsync_mu_rlock (&mu); nsync_mu_runlock (&mu); return NULL; }
static void *cwaiter (void *a) { nsync_mu_lock (&mu); nsync_mu_wait (&mu, &cond_go, NULL, NULL); nsync_mu_unlock (&mu); return NULL; }
static void *cvwaiter (void *a) { nsync_mu_lock (&mu); while (!go) nsync_cv_wait (&cv, &mu); nsync_mu_unlock (&mu); return NULL; }

static void hex (const unsigned char *p, int n) { int i; for (i = 0; i < n; i++) printf ("%02x", p[i]); }

static void run_sizes (int fn, int state) {
	static char big[8192];
	unsigned char area[8192 + 64];
	int n, sizes[140], ns = 0;
	for (n = 0; n <= 80; n++) sizes[ns++] = n;
	sizes[ns++] = 127; sizes[ns++] = 128; sizes[ns++] = 200; sizes[ns++] = 511; sizes[ns++] = 1024; sizes[ns++] = 4000;
	sizes[ns++] = -1; sizes[ns++] = -100;
	for (n = 0; n < ns; n++) {
		int sz = sizes[n];
		char *buf = (char *) area + 32;
		char *r;
		memset (area, 0xEE, sizeof (area));
		memset (big, 0, sizeof (big));
		switch (fn) {
		case 0: nsync_mu_debug_state (&mu, big, sizeof (big)); r = nsync_mu_debug_state (&mu, buf, sz); break;
		case 1: nsync_mu_debug_state_and_waiters (&mu, big, sizeof (big)); r = nsync_mu_debug_state_and_waiters (&mu, buf, sz); break;
		case 2: nsync_cv_debug_state (&cv, big, sizeof (big)); r = nsync_cv_debug_state (&cv, buf, sz); break;
		default: nsync_cv_debug_state_and_waiters (&cv, big, sizeof (big)); r = nsync_cv_debug_state_and_waiters (&cv, buf, sz); break;
		}
		printf ("%d %d %d %d ", fn, state, sz, r == buf);
		hex ((unsigned char *) big, (int) strlen (big));
		printf (" ");
		hex (area + 32 - 8, (sz > 0 ? sz : 0) + 16);
		printf ("\n");
	}
}

int main (void) {
	pthread_t th[8];
	int state, fn, k, nt = 0;
	for (state = 0; state <= 3; state++) {
		/* state s: s waiters queued on mu (mixed kinds) and s on cv */
		if (state == 1) { nsync_mu_lock (&mu); pthread_create (&th[nt++], NULL, locker, NULL); usleep (30000); }
		if (state == 2) { pthread_create (&th[nt++], NULL, rlocker, NULL); usleep (30000); }
		if (state == 3) { pthread_create (&th[nt++], NULL, locker, NULL); usleep (30000); }
		for (fn = 0; fn < 2; fn++) run_sizes (fn, state);
	}
	go = 1;
	nsync_mu_unlock (&mu);
	for (k = 0; k < nt; k++) pthread_join (th[k], NULL);
	nt = 0; go = 0;
	for (state = 0; state <= 3; state++) {
		if (state >= 1) { pthread_create (&th[nt++], NULL, state == 2 ? cwaiter : cvwaiter, NULL); usleep (30000); }
		for (fn = 0; fn < 4; fn++) run_sizes (fn, 10 + state);
	}
	nsync_mu_lock (&mu); go = 1; nsync_cv_broadcast (&cv); nsync_mu_unlock (&mu);
	for (k = 0; k < nt; k++) pthread_join (th[k], NULL);
	return 0;
}
