/* C16(b) driver: calls the real debug-state functions of /repo (normal build, real threads)
   for every buffer size, with canary bytes around the buffer.  Output per case:
   "<fn> <state> <n> <ret==buf> <hex of full text> <hex of buf[-8..n+8)> <stable>"
   The full text is taken with a big buffer BEFORE and AFTER the call with the small buffer; <stable> is 1 when the two agree
   (the object did not change meanwhile, so the small-buffer result describes the same state); otherwise the triple is
   retried a few times, and a case that never settles is printed with <stable> 0 (only its text-independent parts are judged). */
#include "nsync.h"
#include "nsync_debug.h"
#include <stdio.h>
#include <string.h>
#include <stdlib.h>
#include <unistd.h>
#include <pthread.h>
NSYNC_CPP_USING_

static nsync_mu mu;
static nsync_cv cv;
static int go;
static int cond_go (const void *v) { return go; }
static void *locker (void *a) { nsync_mu_lock (&mu); nsync_mu_unlock (&mu); return NULL; }
static void *rlocker (void *a) { nsync_mu_rlock (&mu); nsync_mu_runlock (&mu); return NULL; }
static void *cwaiter (void *a) { nsync_mu_lock (&mu); nsync_mu_wait (&mu, &cond_go, NULL, NULL); nsync_mu_unlock (&mu); return NULL; }
static void *cvwaiter (void *a) { nsync_mu_lock (&mu); while (!go) nsync_cv_wait (&cv, &mu); nsync_mu_unlock (&mu); return NULL; }

static void hex (const unsigned char *p, int n) { int i; for (i = 0; i < n; i++) printf ("%02x", p[i]); }

static char *call (int fn, char *b, int n) {
	switch (fn) {
	case 0: return nsync_mu_debug_state (&mu, b, n);
	case 1: return nsync_mu_debug_state_and_waiters (&mu, b, n);
	case 2: return nsync_cv_debug_state (&cv, b, n);
	default: return nsync_cv_debug_state_and_waiters (&cv, b, n);
	}
}

static void run_sizes (int fn, int state) {
	static char big[8192], big2[8192];
	unsigned char area[8192 + 64];
	int n, sizes[140], ns = 0;
	for (n = 0; n <= 80; n++) sizes[ns++] = n;
	sizes[ns++] = 127; sizes[ns++] = 128; sizes[ns++] = 200; sizes[ns++] = 511; sizes[ns++] = 1024; sizes[ns++] = 4000;
	sizes[ns++] = -1; sizes[ns++] = -100;
	for (n = 0; n < ns; n++) {
		int sz = sizes[n], attempt, stable = 0;
		char *buf = (char *) area + 32;
		char *r = NULL;
		for (attempt = 0; attempt < 8 && !stable; attempt++) {
			if (attempt > 0) usleep (3000);
			memset (area, 0xEE, sizeof (area));
			memset (big, 0, sizeof (big));
			memset (big2, 0, sizeof (big2));
			call (fn, big, (int) sizeof (big));
			r = call (fn, buf, sz);
			call (fn, big2, (int) sizeof (big2));
			stable = strcmp (big, big2) == 0;
		}
		printf ("%d %d %d %d ", fn, state, sz, r == buf);
		hex ((unsigned char *) big, (int) strlen (big));
		printf (" ");
		hex (area + 32 - 8, (sz > 0 ? sz : 0) + 16);
		printf (" %d\n", stable);
	}
}

/* the combined waiter-list text of mu and cv: changes when a thread queues on either */
static void queues (char *out, int n) {
	int k;
	nsync_mu_debug_state_and_waiters (&mu, out, n / 2);
	k = (int) strlen (out);
	nsync_cv_debug_state_and_waiters (&cv, out + k, n - k);
}
/* start a thread that is going to block, and wait (at most ~3 s) until it has queued: the combined text differs from the
   one before the thread existed and stays the same for 20 ms.  Only coverage depends on this (which states get exercised);
   the verdicts do not, see <stable>. */
static void spawn_and_settle (pthread_t *th, void *(*f) (void *)) {
	static char before[8192], a[8192], b[8192];
	int i, same = 0;
	queues (before, (int) sizeof (before));
	pthread_create (th, NULL, f, NULL);
	for (i = 0; i < 600 && same < 4; i++) {
		usleep (5000);
		queues (a, (int) sizeof (a));
		if (strcmp (a, before) != 0 && strcmp (a, b) == 0) same++; else same = 0;
		strcpy (b, a);
	}
}

int main (void) {
	pthread_t th[8];
	int state, fn, k, nt = 0;
	for (state = 0; state <= 3; state++) {
		/* state s: s waiters queued on mu (mixed kinds) and s on cv */
		if (state == 1) { nsync_mu_lock (&mu); spawn_and_settle (&th[nt++], locker); }
		if (state == 2) spawn_and_settle (&th[nt++], rlocker);
		if (state == 3) spawn_and_settle (&th[nt++], locker);
		for (fn = 0; fn < 2; fn++) run_sizes (fn, state);
	}
	go = 1;
	nsync_mu_unlock (&mu);
	for (k = 0; k < nt; k++) pthread_join (th[k], NULL);
	nt = 0; go = 0;
	for (state = 0; state <= 3; state++) {
		if (state >= 1) spawn_and_settle (&th[nt++], state == 2 ? cwaiter : cvwaiter);
		for (fn = 0; fn < 4; fn++) run_sizes (fn, 10 + state);
	}
	nsync_mu_lock (&mu); go = 1; nsync_cv_broadcast (&cv); nsync_mu_unlock (&mu);
	for (k = 0; k < nt; k++) pthread_join (th[k], NULL);
	return 0;
}
