/* C15 driver (real library, real threads, real futex): one timed entry point with one deadline per process.
   usage: deadline_driver <entry> <kind> <sec> <nsec>
     entry: cv | mu | note | counter | waitn
     kind : abs  -> deadline = {sec,nsec} literally
            rel  -> deadline = now + sec s + nsec ns  (sec may be negative)
            none -> nsync_time_no_deadline (a helper thread produces the event after 100 ms)
   prints: "<result-class> elapsed_ms=<n> ret=<r>" where result-class is TIMEOUT / EVENT / OTHER. */
#include "nsync.h"
#include <stdio.h>
#include <stdlib.h>
#include <string.h>
#include <errno.h>
#include <unistd.h>
#include <pthread.h>
NSYNC_CPP_USING_

static nsync_mu mu;
static nsync_cv cv;
static int flag;
static nsync_note note;
static nsync_counter counter;
static int cond_flag (const void *v) { return flag; }

static void *helper (void *a) {
	usleep (100000);
	nsync_mu_lock (&mu); flag = 1; nsync_cv_broadcast (&cv); nsync_mu_unlock (&mu);
	if (note) nsync_note_notify (note);
	if (counter) nsync_counter_add (counter, -1);
	return NULL;
}
static double ms_since (nsync_time t0) {
	nsync_time d = nsync_time_sub (nsync_time_now (), t0);
	return d.tv_sec * 1000.0 + d.tv_nsec / 1e6;
}
int main (int argc, char **argv) {
	const char *entry = argv[1], *kind = argv[2];
	long long sec = atoll (argv[3]), nsec = atoll (argv[4]);
	nsync_time dl, t0;
	int ret = -1, is_timeout = 0, is_event = 0;
	pthread_t th;
	if (strcmp (kind, "abs") == 0) { memset (&dl, 0, sizeof (dl)); dl.tv_sec = (time_t) sec; dl.tv_nsec = (long) nsec; }
	else if (strcmp (kind, "rel") == 0) {
		nsync_time now = nsync_time_now (), d;
		memset (&d, 0, sizeof (d));
		if (sec >= 0) { d.tv_sec = sec; d.tv_nsec = nsec; dl = nsync_time_add (now, d); }
		else { d.tv_sec = -sec; d.tv_nsec = nsec; dl = nsync_time_sub (now, d); }
	} else { dl = nsync_time_no_deadline; }
	if (strcmp (entry, "note") == 0) note = nsync_note_new (NULL, nsync_time_no_deadline);
	if (strcmp (entry, "counter") == 0) counter = nsync_counter_new (1);
	if (strcmp (kind, "none") == 0) pthread_create (&th, NULL, helper, NULL);
	t0 = nsync_time_now ();
	if (strcmp (entry, "cv") == 0) {
		nsync_mu_lock (&mu);
		ret = 0;
		while (!flag && ret == 0) ret = nsync_cv_wait_with_deadline (&cv, &mu, dl, NULL);
		is_timeout = (ret == ETIMEDOUT); is_event = (ret == 0 && flag);
		nsync_mu_unlock (&mu);
	} else if (strcmp (entry, "mu") == 0) {
		nsync_mu_lock (&mu);
		ret = nsync_mu_wait_with_deadline (&mu, &cond_flag, NULL, NULL, dl, NULL);
		is_timeout = (ret == ETIMEDOUT); is_event = (ret == 0 && flag);
		nsync_mu_unlock (&mu);
	} else if (strcmp (entry, "note") == 0) {
		ret = nsync_note_wait (note, dl);
		is_timeout = (ret == 0); is_event = (ret != 0);
	} else if (strcmp (entry, "counter") == 0) {
		ret = (int) nsync_counter_wait (counter, dl);
		is_timeout = (ret != 0); is_event = (ret == 0);
	} else if (strcmp (entry, "waitn") == 0) {
		struct nsync_waitable_s w, *pw = &w;
		note = nsync_note_new (NULL, nsync_time_no_deadline);
		if (strcmp (kind, "none") == 0) { pthread_t t2; pthread_create (&t2, NULL, helper, NULL); }
		w.v = note; w.funcs = &nsync_note_waitable_funcs;
		ret = nsync_wait_n (NULL, NULL, NULL, dl, 1, &pw);
		is_timeout = (ret == 1); is_event = (ret == 0);
	} else return 2;
	printf ("%s elapsed_ms=%.1f ret=%d\n", is_timeout ? "TIMEOUT" : is_event ? "EVENT" : "OTHER", ms_since (t0), ret);
	return 0;
}
