/* C15 driver (real library, real threads, real futex): one timed entry point with one deadline per process.
   usage: deadline_driver <entry> <kind> <sec> <nsec>
     entry: cv | mu | note | counter | waitn | cvn | mun | rmun | waitn5
            cvtp | mutp | notetp | countertp | waitntp | exptp (C++ builds only): the same entry points through the C++ overloads that take a
             std::chrono::system_clock::time_point (public/nsync_time_internal.h; the deadline is converted by nsync_from_time_point_), and
             exptp: nsync_note_expiry_timepoint of a note created with that deadline must lie in the past for an expired deadline and in the
             future for a far / absent one (nsync_to_time_point_)
            (cvn / mun / rmun: cv wait, writer-mode and reader-mode mu wait WITH a cancel note that nobody ever notifies and that has
             no expiry: an expired deadline must still give ETIMEDOUT, never ECANCELED; waitn5: five notes, the heap path of nsync_wait_n)
     kind : abs   -> deadline = {sec,nsec} literally
            rel   -> deadline = now + sec s + nsec ns  (sec may be negative)
            none  -> nsync_time_no_deadline
            absh / relh -> like abs / rel, meant for deadlines FAR in the future
            maxm1 -> one nanosecond below nsync_time_no_deadline (the library's own constant)
     For none, absh, relh and maxm1 a helper thread produces the awaited event after 100 ms (such a wait must behave like
     "never times out": it must end by the event, not by ETIMEDOUT).
   prints: "<result-class> elapsed_ms=<n> ret=<r> early=<0|1> since_dl_ms=<n>" where result-class is TIMEOUT / EVENT / OTHER,
     elapsed_ms    = CLOCK_MONOTONIC time spent inside the call,
     early         = the call reported its timeout result while CLOCK_REALTIME, read AFTER the call returned, was still before the
                     deadline (compared field by field here, not with the library's own nsync_time_cmp),
     since_dl_ms   = CLOCK_MONOTONIC time from the instant just BEFORE the deadline was computed to the return of the call
                     (for kind rel: >= the requested offset whenever the deadline has really been reached). */
#include "nsync.h"
#include <stdio.h>
#include <stdlib.h>
#include <string.h>
#include <errno.h>
#include <unistd.h>
#include <pthread.h>
#include <time.h>
#ifdef __cplusplus
#include <chrono>
#endif
NSYNC_CPP_USING_

static nsync_mu mu;
static nsync_cv cv;
static int flag;
static nsync_note note;
static nsync_note cancel;   /* never notified, no expiry */
static nsync_note more[4];
static nsync_counter counter;
static int cond_flag (const void *v) { return flag; }

static void *helper (void *a) {
	usleep (100000);
	nsync_mu_lock (&mu); flag = 1; nsync_cv_broadcast (&cv); nsync_mu_unlock (&mu);
	if (note) nsync_note_notify (note);
	if (counter) nsync_counter_add (counter, -1);
	return NULL;
}
static double mono_ms (void) {
	struct timespec ts;
	clock_gettime (CLOCK_MONOTONIC, &ts);
	return ts.tv_sec * 1000.0 + ts.tv_nsec / 1e6;
}
/* is the real clock still before dl?  (plain field comparison) */
static int before_deadline (nsync_time dl) {
	struct timespec now;
	clock_gettime (CLOCK_REALTIME, &now);
	return now.tv_sec < dl.tv_sec || (now.tv_sec == dl.tv_sec && now.tv_nsec < dl.tv_nsec);
}
int main (int argc, char **argv) {
	const char *entry = argv[1], *kind = argv[2];
	long long sec = atoll (argv[3]), nsec = atoll (argv[4]);
	nsync_time dl;
	double t_dl, t0, t1;
	int ret = -1, is_timeout = 0, is_event = 0, early, with_helper;
	pthread_t th;
	t_dl = mono_ms ();
	if (strcmp (kind, "abs") == 0 || strcmp (kind, "absh") == 0) { memset (&dl, 0, sizeof (dl)); dl.tv_sec = (time_t) sec; dl.tv_nsec = (long) nsec; }
	else if (strcmp (kind, "rel") == 0 || strcmp (kind, "relh") == 0) {
		nsync_time now = nsync_time_now (), d;
		memset (&d, 0, sizeof (d));
		if (sec >= 0) { d.tv_sec = sec; d.tv_nsec = nsec; dl = nsync_time_add (now, d); }
		else { d.tv_sec = -sec; d.tv_nsec = nsec; dl = nsync_time_sub (now, d); }
	} else if (strcmp (kind, "maxm1") == 0) {
		dl = nsync_time_no_deadline;
		if (dl.tv_nsec > 0) dl.tv_nsec--; else { dl.tv_sec--; dl.tv_nsec = 999999999; }
	} else { dl = nsync_time_no_deadline; }
	with_helper = strcmp (kind, "abs") != 0 && strcmp (kind, "rel") != 0;
	if (strcmp (entry, "note") == 0 || strcmp (entry, "waitn") == 0 || strcmp (entry, "notetp") == 0 || strcmp (entry, "waitntp") == 0) note = nsync_note_new (NULL, nsync_time_no_deadline);
	if (strcmp (entry, "waitn5") == 0) { int i; note = nsync_note_new (NULL, nsync_time_no_deadline); for (i = 0; i < 4; i++) more[i] = nsync_note_new (NULL, nsync_time_no_deadline); }
	if (strcmp (entry, "cvn") == 0 || strcmp (entry, "mun") == 0 || strcmp (entry, "rmun") == 0) cancel = nsync_note_new (NULL, nsync_time_no_deadline);
	if (strcmp (entry, "counter") == 0 || strcmp (entry, "countertp") == 0) counter = nsync_counter_new (1);
	if (with_helper) pthread_create (&th, NULL, helper, NULL);
	t0 = mono_ms ();
	if (strcmp (entry, "cv") == 0) {
		nsync_mu_lock (&mu);
		ret = 0;
		while (!flag && ret == 0) ret = nsync_cv_wait_with_deadline (&cv, &mu, dl, NULL);
		t1 = mono_ms (); early = before_deadline (dl);
		is_timeout = (ret == ETIMEDOUT); is_event = (ret == 0 && flag);
		nsync_mu_unlock (&mu);
	} else if (strcmp (entry, "mu") == 0) {
		nsync_mu_lock (&mu);
		ret = nsync_mu_wait_with_deadline (&mu, &cond_flag, NULL, NULL, dl, NULL);
		t1 = mono_ms (); early = before_deadline (dl);
		is_timeout = (ret == ETIMEDOUT); is_event = (ret == 0 && flag);
		nsync_mu_unlock (&mu);
	} else if (strcmp (entry, "cvn") == 0) {
		nsync_mu_lock (&mu);
		ret = 0;
		while (!flag && ret == 0) ret = nsync_cv_wait_with_deadline (&cv, &mu, dl, cancel);
		t1 = mono_ms (); early = before_deadline (dl);
		is_timeout = (ret == ETIMEDOUT); is_event = (ret == 0 && flag);
		nsync_mu_unlock (&mu);
	} else if (strcmp (entry, "mun") == 0) {
		nsync_mu_lock (&mu);
		ret = nsync_mu_wait_with_deadline (&mu, &cond_flag, NULL, NULL, dl, cancel);
		t1 = mono_ms (); early = before_deadline (dl);
		is_timeout = (ret == ETIMEDOUT); is_event = (ret == 0 && flag);
		nsync_mu_unlock (&mu);
	} else if (strcmp (entry, "rmun") == 0) {
		nsync_mu_rlock (&mu);
		ret = nsync_mu_wait_with_deadline (&mu, &cond_flag, NULL, NULL, dl, cancel);
		t1 = mono_ms (); early = before_deadline (dl);
		is_timeout = (ret == ETIMEDOUT); is_event = (ret == 0 && flag);
		nsync_mu_runlock (&mu);
	} else if (strcmp (entry, "waitn5") == 0) {
		struct nsync_waitable_s w[5], *pw[5];
		int i;
		for (i = 0; i < 5; i++) { w[i].v = i == 2 ? note : more[i < 2 ? i : i - 1]; w[i].funcs = &nsync_note_waitable_funcs; pw[i] = &w[i]; }
		ret = nsync_wait_n (NULL, NULL, NULL, dl, 5, pw);
		t1 = mono_ms (); early = before_deadline (dl);
		is_timeout = (ret == 5); is_event = (ret == 2);
	} else if (strcmp (entry, "note") == 0) {
		ret = nsync_note_wait (note, dl);
		t1 = mono_ms (); early = before_deadline (dl);
		is_timeout = (ret == 0); is_event = (ret != 0);
	} else if (strcmp (entry, "counter") == 0) {
		ret = (int) nsync_counter_wait (counter, dl);
		t1 = mono_ms (); early = before_deadline (dl);
		is_timeout = (ret != 0); is_event = (ret == 0);
	} else if (strcmp (entry, "waitn") == 0) {
		struct nsync_waitable_s w, *pw = &w;
		w.v = note; w.funcs = &nsync_note_waitable_funcs;
		ret = nsync_wait_n (NULL, NULL, NULL, dl, 1, &pw);
		t1 = mono_ms (); early = before_deadline (dl);
		is_timeout = (ret == 1); is_event = (ret == 0);
#ifdef __cplusplus
	} else if (strcmp (entry, "exptp") == 0) {
		/* nsync_note_expiry_timepoint (nsync_to_time_point_): in the past for an expired deadline, in the future for a far or absent one;
		   for a near future deadline we first let it pass */
		nsync_note n2 = nsync_note_new (NULL, dl);
		std::chrono::system_clock::time_point e;
		if (!with_helper) { while (before_deadline (dl)) usleep (1000); }
		e = nsync_note_expiry_timepoint (n2);
		t1 = mono_ms (); early = 0; ret = 0;
		is_timeout = (e <= std::chrono::system_clock::now ());
		is_event = !is_timeout;
		nsync_note_free (n2);
#endif

#ifdef __cplusplus
	} else if (strlen (entry) > 2 && strcmp (entry + strlen (entry) - 2, "tp") == 0) {
		/* the time_point overloads: the time_point is epoch + the deadline's seconds and nanoseconds when that fits in 64 bits of
		   nanoseconds, else the case does not apply (exit 3) */
		typedef std::chrono::system_clock::time_point tp_t;
		tp_t tp;
		if ((long long) dl.tv_sec > 9000000000LL || (long long) dl.tv_sec < -9000000000LL) { printf ("NA elapsed_ms=0 ret=0 early=0 since_dl_ms=0\n"); return 0; }
		tp = tp_t () + std::chrono::duration_cast<tp_t::duration> (std::chrono::seconds ((long long) dl.tv_sec) + std::chrono::nanoseconds ((long long) dl.tv_nsec));
		if (strcmp (entry, "cvtp") == 0) {
			nsync_mu_lock (&mu);
			ret = 0;
			while (!flag && ret == 0) ret = nsync_cv_wait_with_deadline (&cv, &mu, tp, NULL);
			t1 = mono_ms (); early = before_deadline (dl);
			is_timeout = (ret == ETIMEDOUT); is_event = (ret == 0 && flag);
			nsync_mu_unlock (&mu);
		} else if (strcmp (entry, "mutp") == 0) {
			nsync_mu_lock (&mu);
			ret = nsync_mu_wait_with_deadline (&mu, &cond_flag, NULL, NULL, tp, NULL);
			t1 = mono_ms (); early = before_deadline (dl);
			is_timeout = (ret == ETIMEDOUT); is_event = (ret == 0 && flag);
			nsync_mu_unlock (&mu);
		} else if (strcmp (entry, "notetp") == 0) {
			ret = nsync_note_wait (note, tp);
			t1 = mono_ms (); early = before_deadline (dl);
			is_timeout = (ret == 0); is_event = (ret != 0);
		} else if (strcmp (entry, "countertp") == 0) {
			ret = (int) nsync_counter_wait (counter, tp);
			t1 = mono_ms (); early = before_deadline (dl);
			is_timeout = (ret != 0); is_event = (ret == 0);
		} else if (strcmp (entry, "waitntp") == 0) {
			struct nsync_waitable_s w, *pw = &w;
			w.v = note; w.funcs = &nsync_note_waitable_funcs;
			ret = nsync_wait_n (NULL, NULL, NULL, tp, 1, &pw);
			t1 = mono_ms (); early = before_deadline (dl);
			is_timeout = (ret == 1); is_event = (ret == 0);
		} else return 2;
#endif
	} else return 2;
	printf ("%s elapsed_ms=%.1f ret=%d early=%d since_dl_ms=%.1f\n", is_timeout ? "TIMEOUT" : is_event ? "EVENT" : "OTHER",
		t1 - t0, ret, is_timeout && early, t1 - t_dl);
	return 0;
}
