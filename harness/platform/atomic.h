/* Override of platform/<compiler>/atomic.h, found first on the include path:
   every ATM_* operation of the unmodified nsync sources becomes a call into
   the vrt runtime carrying the memory order the source asked for. */
#ifndef VERIF_HARNESS_ATOMIC_H_
#define VERIF_HARNESS_ATOMIC_H_
#include "compiler.h"
#include "nsync_atomic.h"
#include "vrt.h"
#define ATM_CAS(p,o,n)        vrt_cas ((volatile void *) (p), (o), (n), VRT_RLX, __FILE__, __LINE__)
#define ATM_CAS_ACQ(p,o,n)    vrt_cas ((volatile void *) (p), (o), (n), VRT_ACQ, __FILE__, __LINE__)
#define ATM_CAS_REL(p,o,n)    vrt_cas ((volatile void *) (p), (o), (n), VRT_REL, __FILE__, __LINE__)
#define ATM_CAS_RELACQ(p,o,n) vrt_cas ((volatile void *) (p), (o), (n), VRT_ACQREL, __FILE__, __LINE__)
#define ATM_LOAD(p)           vrt_load ((volatile void *) (p), VRT_RLX, __FILE__, __LINE__)
#define ATM_LOAD_ACQ(p)       vrt_load ((volatile void *) (p), VRT_ACQ, __FILE__, __LINE__)
#define ATM_STORE(p,v)        vrt_store ((volatile void *) (p), (v), VRT_RLX, __FILE__, __LINE__)
#define ATM_STORE_REL(p,v)    vrt_store ((volatile void *) (p), (v), VRT_REL, __FILE__, __LINE__)
#endif
