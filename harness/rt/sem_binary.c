/* A BINARY semaphore flavour for the harness (the property C01/C02 quantify over "both semaphore flavours the platform
   layer allows").  Same futex protocol as platform/linux/src/nsync_semaphore_futex.c, but V sets the count to 1
   instead of incrementing it, like platform/posix/src/nsync_semaphore_mutex.c (which cannot run under the
   deterministic scheduler because it blocks in pthread_cond_wait).  Used INSTEAD of the futex file when
   VRT_SEMFLAVOUR=binary; the code under test above the semaphore is unchanged. */
#include "headers.h"
NSYNC_CPP_START_
static int bfutex (int *uaddr, int op, int val, const struct timespec *timeout, int *uaddr2, int val3) {
	return (syscall (__NR_futex, uaddr, op, val, timeout, uaddr2, val3));
}
#define BWAIT (FUTEX_WAIT_BITSET | FUTEX_PRIVATE_FLAG | FUTEX_CLOCK_REALTIME)
#define BWAKE (FUTEX_WAKE | FUTEX_PRIVATE_FLAG)
struct bfutex { int i; };
void nsync_mu_semaphore_init (nsync_semaphore *s) { ((struct bfutex *) s)->i = 0; }
void nsync_mu_semaphore_p (nsync_semaphore *s) {
	struct bfutex *f = (struct bfutex *) s;
	int i;
	do {
		i = ATM_LOAD ((nsync_atomic_uint32_ *) &f->i);
		if (i == 0) bfutex (&f->i, BWAIT, i, NULL, NULL, FUTEX_BITSET_MATCH_ANY);
	} while (i == 0 || !ATM_CAS_ACQ ((nsync_atomic_uint32_ *) &f->i, i, 0));
}
int nsync_mu_semaphore_p_with_deadline (nsync_semaphore *s, nsync_time abs_deadline) {
	struct bfutex *f = (struct bfutex *) s;
	int i, result = 0;
	do {
		i = ATM_LOAD ((nsync_atomic_uint32_ *) &f->i);
		if (i == 0) {
			struct timespec ts_buf;
			const struct timespec *ts = NULL;
			int r;
			if (nsync_time_cmp (abs_deadline, nsync_time_no_deadline) != 0) {
				memset (&ts_buf, 0, sizeof (ts_buf));
				ts_buf.tv_sec = NSYNC_TIME_SEC (abs_deadline);
				ts_buf.tv_nsec = NSYNC_TIME_NSEC (abs_deadline);
				if (ts_buf.tv_sec < 0) { ts_buf.tv_sec = 0; ts_buf.tv_nsec = 0; }
				ts = &ts_buf;
			}
			r = bfutex (&f->i, BWAIT, i, ts, NULL, FUTEX_BITSET_MATCH_ANY);
			if (r == -1 && errno == ETIMEDOUT && nsync_time_cmp (abs_deadline, nsync_time_now ()) <= 0) result = ETIMEDOUT;
		}
	} while (result == 0 && (i == 0 || !ATM_CAS_ACQ ((nsync_atomic_uint32_ *) &f->i, i, 0)));
	return (result);
}
void nsync_mu_semaphore_v (nsync_semaphore *s) {
	struct bfutex *f = (struct bfutex *) s;
	uint32_t old_value;
	do {
		old_value = ATM_LOAD ((nsync_atomic_uint32_ *) &f->i);
	} while (!ATM_CAS_REL ((nsync_atomic_uint32_ *) &f->i, old_value, 1));
	bfutex (&f->i, BWAKE, 1, NULL, NULL, 0);
}
NSYNC_CPP_END_
