/* vrt.c: deterministic scheduler, modelled futex / clock / allocator, happens-before
   detector and trace writer.  NOT compiled with -fsanitize=thread (the code under
   test and the scenarios are). */
#define _GNU_SOURCE
#include "vrt.h"
#include <pthread.h>
#include <semaphore.h>
#include <signal.h>
#include <stdarg.h>
#include <stdio.h>
#include <stdlib.h>
#include <string.h>
#include <errno.h>
#include <unistd.h>
#include <sys/mman.h>
#include <sys/syscall.h>
#include <linux/futex.h>

#define MAXT 12
#define STACK_SZ (512 * 1024)
enum { ST_UNUSED = 0, ST_RUNNABLE, ST_BLOCKED, ST_FINISHED };
enum { K_CAS = 1, K_LOAD, K_STORE, K_FWAIT, K_FWAKE, K_CLOCK, K_YIELD, K_MALLOC, K_FREE, K_POINT, K_START, K_END };
static const char *kname[] = { "?", "cas", "load", "store", "fwait", "fwake", "clock", "yield", "malloc", "free",
			       "point", "start", "end" };
static const char *oname[] = { "rlx", "acq", "rel", "acqrel" };

struct thr {
	int id, state;
	pthread_t pt;
	sem_t go;
	vrt_fn fn;
	void *arg;
	char name[32];
	volatile void *futex_addr;
	int has_deadline;
	int64_t deadline;
	int wake_reason; /* 0 woken, 1 timeout */
	char *stack_lo, *stack_hi;
	char *sp_park;
	uint32_t vc[MAXT];
	int yielding;
	int prio;
	long nsteps;
	long nsleeps;
	int aim;             /* the thread has just cleared a flag (1 -> 0) with an atomic store: its next shared plain access is an aimed preemption point */
	long pending_snap;   /* trace index whose post-state snapshot is taken when this thread next parks */
	long plain_run;      /* instrumented plain accesses since this thread's last scheduling point: a loop without any atomic operation, futex call or yield never gives the baton back */
	int obs_on;          /* observer mode (vrt_observer_begin/end): plain writes outside [obs_lo, obs_hi) and the own stack are C16 violations */
	const char *obs_lo, *obs_hi;
};
static struct thr T[MAXT];
static int nthr = 1; /* T[0] is main */
static int cur = 0;
static int started = 0;
static sem_t done_sem;
static __thread int self_id = 0;
static int64_t now_ns = 1000LL * 1000000000LL;
static int64_t start_ns = 1000LL * 1000000000LL;
static long steps = 0, max_steps = 400000;
static uint64_t rng = 88172645463325252ULL;
static long seed = 1;
static int switch_pct = 35, clock_pct = 3, inject_pct = 0, inject_left = 0, strategy = 0;
static int expect_stuck = 0;
static int64_t timepoints[64];
static int ntimepoints = 0;
static long last_progress_step = 0;
static int pct_changes[8];
static int npct = 0;
static int alloc_count = 0, fail_alloc_at = 0;
static __thread int my_fail_in = 0;   /* fail the k-th next allocation made by THIS thread (vrt_fail_my_alloc_after) */
static int quiet = 0;
static long nplain = 0;

/* ---------- PRNG ---------- */
static uint64_t rnd64 (void) {
	rng ^= rng >> 12; rng ^= rng << 25; rng ^= rng >> 27;
	return rng * 2685821657736338717ULL;
}
uint32_t vrt_rand (uint32_t n) { return n == 0 ? 0 : (uint32_t) (rnd64 () >> 33) % n; }

int vrt_opt (const char *name, int dflt) {
	char buf[64];
	const char *v;
	snprintf (buf, sizeof (buf), "VRT_%s", name);
	v = getenv (buf);
	return v != NULL && *v ? atoi (v) : dflt;
}

/* ---------- regions (for readable traces) ---------- */
struct region { const char *lo, *hi; char name[24]; int freed; };
static struct region regions[4096];
static int nregions = 0;
void vrt_register (const void *p, size_t n, const char *name) {
	if (nregions < 4096) {
		struct region *r = &regions[nregions++];
		r->lo = (const char *) p; r->hi = r->lo + n; r->freed = 0;
		snprintf (r->name, sizeof (r->name), "%s", name);
	}
}
static struct region *find_region (const void *p) {
	int i;
	for (i = nregions - 1; i >= 0; i--) {
		if ((const char *) p >= regions[i].lo && (const char *) p < regions[i].hi) {
			return &regions[i];
		}
	}
	return NULL;
}
static void addr_name (const volatile void *p, char *buf, size_t n) {
	struct region *r = find_region ((const void *) p);
	int i;
	if (r != NULL) {
		snprintf (buf, n, "%s+%ld", r->name, (long) ((const char *) p - r->lo));
		return;
	}
	for (i = 0; i < nthr; i++) {
		if (T[i].stack_lo != NULL && (char *) p >= T[i].stack_lo && (char *) p < T[i].stack_hi) {
			snprintf (buf, n, "stk%d", i);
			return;
		}
	}
	snprintf (buf, n, "glb");
}
size_t vrt_region_size (const void *p) { struct region *r = find_region (p); return r ? (size_t) (r->hi - r->lo) : 0; }
int vrt_is_freed (const void *p) {
	struct region *r = find_region (p);
	return r != NULL && r->freed;
}

/* ---------- trace ---------- */
struct ev { long step; int tid, kind, order, ok, line; uint32_t a, b; char where[28]; char obj[28]; int64_t now; };
static struct ev *trace = NULL;
static long ntrace = 0, cap_trace = 0;
static char notes[4096][96];
static long note_step[4096];
static long note_pos[4096];
static int nnotes = 0;

static void log_ev (int tid, int kind, int order, const volatile void *p, uint32_t a, uint32_t b, int ok,
		    const char *file, int line) {
	struct ev *e;
	const char *base;
	if (ntrace == cap_trace) {
		cap_trace = cap_trace ? cap_trace * 2 : 4096;
		trace = (struct ev *) realloc (trace, cap_trace * sizeof (*trace));
	}
	e = &trace[ntrace++];
	e->now = now_ns;
	e->step = steps; e->tid = tid; e->kind = kind; e->order = order; e->ok = ok; e->a = a; e->b = b; e->line = line;
	base = file ? strrchr (file, '/') : NULL;
	snprintf (e->where, sizeof (e->where), "%s", file ? (base ? base + 1 : file) : "-");
	if (p != NULL) addr_name (p, e->obj, sizeof (e->obj)); else strcpy (e->obj, "-");
}
static void (*snapshot_fn) (char *buf, size_t n) = NULL;
static int in_snapshot = 0;
static char **snaps = NULL;   /* snapshot text per trace entry (only when tracing) */
static long cap_snaps = 0;
void vrt_set_snapshot (void (*fn) (char *, size_t)) { snapshot_fn = fn; }
static void take_snapshot (long idx) {
	char buf[512];
	if (snapshot_fn == NULL || getenv ("VRT_TRACE") == NULL) return;
	if (idx >= cap_snaps) {
		long nc = cap_snaps ? cap_snaps * 2 : 4096;
		while (nc <= idx) nc *= 2;
		snaps = (char **) realloc (snaps, nc * sizeof (char *));
		memset (snaps + cap_snaps, 0, (nc - cap_snaps) * sizeof (char *));
		cap_snaps = nc;
	}
	buf[0] = 0;
	in_snapshot = 1;
	snapshot_fn (buf, sizeof (buf));
	in_snapshot = 0;
	snaps[idx] = strdup (buf);
}
void vrt_region_name (const void *p, char *buf, size_t n) { addr_name (p, buf, n); }
static void print_ev (FILE *f, struct ev *e) {
	fprintf (f, "E %ld %d %s %s %s:%d %s %u %u %d %lld\n", e->step, e->tid, kname[e->kind], oname[e->order & 3],
		 e->where, e->line, e->obj, e->a, e->b, e->ok, (long long) e->now);
}
static void dump_trace (void) {
	const char *path = getenv ("VRT_TRACE");
	FILE *f;
	long i;
	int k = 0;
	if (path == NULL) return;
	f = fopen (path, "w");
	if (f == NULL) return;
	fprintf (f, "H seed=%ld steps=%ld threads=%d\n", seed, steps, nthr);
	for (i = 0; i < ntrace; i++) {
		while (k < nnotes && note_pos[k] <= i) { fprintf (f, "N %ld %s\n", note_step[k], notes[k]); k++; }
		print_ev (f, &trace[i]);
		if (snaps != NULL && i < cap_snaps && snaps[i] != NULL) fprintf (f, "S %s\n", snaps[i]);
	}
	while (k < nnotes) { fprintf (f, "N %ld %s\n", note_step[k], notes[k]); k++; }
	fclose (f);
}
void vrt_note (const char *fmt, ...) {
	va_list ap;
	if (nnotes < 4096) {
		va_start (ap, fmt);
		vsnprintf (notes[nnotes], sizeof (notes[0]), fmt, ap);
		va_end (ap);
		note_pos[nnotes] = ntrace;
		note_step[nnotes++] = steps;
	}
}

/* ---------- counters ---------- */
static struct { char key[40]; long n; } counters[128];
static int ncounters = 0;
void vrt_count (const char *key) {
	int i;
	for (i = 0; i < ncounters; i++) if (strcmp (counters[i].key, key) == 0) { counters[i].n++; return; }
	if (ncounters < 128) { snprintf (counters[ncounters].key, 40, "%s", key); counters[ncounters++].n = 1; }
}
static void dump_counters (void) {
	int i;
	printf ("VRT-STATS seed=%ld steps=%ld threads=%d strategy=%d switch=%d clockp=%d plain=%ld", seed, steps, nthr, strategy, switch_pct, clock_pct, nplain);
	for (i = 0; i < ncounters; i++) printf (" %s=%ld", counters[i].key, counters[i].n);
	printf ("\n");
}

/* ---------- failure ---------- */
static void tail (void) {
	long i = ntrace > 40 ? ntrace - 40 : 0;
	for (; i < ntrace; i++) print_ev (stderr, &trace[i]);
}
void vrt_fail (const char *prop, const char *fmt, ...) {
	va_list ap;
	char msg[400];
	va_start (ap, fmt);
	vsnprintf (msg, sizeof (msg), fmt, ap);
	va_end (ap);
	fprintf (stderr, "VRT-VIOLATION prop=%s seed=%ld step=%ld tid=%d %s\n", prop, seed, steps, self_id, msg);
	if (!quiet) tail ();
	dump_trace ();
	fflush (NULL);
	_exit (strcmp (prop, "STUCK") == 0 ? 43 : strcmp (prop, "BUDGET") == 0 ? 45 : 42);
}

static void on_segv (int sig, siginfo_t *si, void *uc) {
	char buf[64];
	struct region *r = find_region (si->si_addr);
	(void) uc;
	addr_name (si->si_addr, buf, sizeof (buf));
	fprintf (stderr, "VRT-VIOLATION prop=%s seed=%ld step=%ld tid=%d signal %d at address %p (%s)%s\n",
		 r != NULL && r->freed ? "UAF" : "CRASH", seed, steps, self_id, sig, si->si_addr, buf,
		 r != NULL && r->freed ? " inside a block already released by free()" :
		 (uintptr_t) si->si_addr < 4096 ? " (null store: ASSERT failure in the code under test)" : "");
	if (!quiet) tail ();
	dump_trace ();
	fflush (NULL);
	_exit (r != NULL && r->freed ? 46 : 44);
}

/* ---------- vector clocks & happens-before ---------- */
static void vc_join (uint32_t *a, const uint32_t *b) {
	int i;
	for (i = 0; i < MAXT; i++) if (b[i] > a[i]) a[i] = b[i];
}
struct ashadow { const volatile void *addr; uint32_t rel[MAXT]; int used; };
#define ASH 4096
static struct ashadow ash[ASH];
static struct ashadow *ash_get (const volatile void *p) {
	unsigned h = (unsigned) (((uintptr_t) p >> 2) * 2654435761u) % ASH;
	while (ash[h].used && ash[h].addr != p) h = (h + 1) % ASH;
	if (!ash[h].used) { ash[h].used = 1; ash[h].addr = p; memset (ash[h].rel, 0, sizeof (ash[h].rel)); }
	return &ash[h];
}
static void hb_load (int t, const volatile void *p, int order) {
	if (order == VRT_ACQ || order == VRT_ACQREL) vc_join (T[t].vc, ash_get (p)->rel);
}
static void hb_store (int t, const volatile void *p, int order) {
	struct ashadow *s = ash_get (p);
	if (order == VRT_REL || order == VRT_ACQREL) { memcpy (s->rel, T[t].vc, sizeof (s->rel)); T[t].vc[t]++; }
	else memset (s->rel, 0, sizeof (s->rel)); /* a relaxed store ends the release sequence */
}
static void hb_rmw (int t, const volatile void *p, int order) {
	struct ashadow *s = ash_get (p);
	if (order == VRT_ACQ || order == VRT_ACQREL) vc_join (T[t].vc, s->rel);
	if (order == VRT_REL || order == VRT_ACQREL) { vc_join (s->rel, T[t].vc); T[t].vc[t]++; }
	/* a relaxed RMW continues the release sequence: rel unchanged */
}

struct pshadow { uintptr_t key; int used; int wtid; uint32_t wclk; uint32_t rclk[MAXT]; const void *wpc; };
#define PSH (1 << 16)
static struct pshadow *psh;
static int race_check = 1;
static int own_stack_check = 1;
static struct pshadow *psh_get (uintptr_t key) {
	unsigned h = (unsigned) (key * 2654435761u) & (PSH - 1);
	int n = 0;
	while (psh[h].used && psh[h].key != key) { h = (h + 1) & (PSH - 1); if (++n > PSH - 2) return NULL; }
	if (!psh[h].used) { psh[h].used = 1; psh[h].key = key; psh[h].wtid = -1; }
	return &psh[h];
}
static struct pshadow *psh_find (uintptr_t key) {     /* lookup only */
	unsigned h = (unsigned) (key * 2654435761u) & (PSH - 1);
	int n = 0;
	if (psh == NULL) return NULL;
	while (psh[h].used && psh[h].key != key) { h = (h + 1) & (PSH - 1); if (++n > PSH - 2) return NULL; }
	return psh[h].used ? &psh[h] : NULL;
}
static void dead_stack_check (int t, const volatile void *addr, const char *what) {
	int i;
	for (i = 1; i < nthr; i++) {
		if (i != t && T[i].stack_lo != NULL && (char *) addr >= T[i].stack_lo && (char *) addr < T[i].stack_hi) {
			if (T[i].state == ST_FINISHED || (T[i].sp_park != NULL && (char *) addr < T[i].sp_park)) {
				vrt_fail ("DEADSTACK", "%s by thread %d at %p lies in the dead part of thread %d's stack "
					  "(below its parked frame %p): the frame it belonged to has returned",
					  what, t, (void *) addr, i, (void *) T[i].sp_park);
			}
		}
	}
}
static int aim_pct = 0;
static int plain_pct = 0;     /* percentage of shared plain accesses that are scheduling points (finer than one step per atomic site) */
static struct thr *sched_point (int kind);
static int wake_timeouts (void);
void vrt_plain (const void *addr, int size, int is_write, const void *pc) {
	int t = self_id, g;
	if (!started || in_snapshot || t == 0) return;
	nplain++;
	if (++T[t].plain_run > 20000000L) {
		vrt_fail ("BUDGET", "thread %d has made %ld plain accesses without reaching any atomic operation, futex call, yield or allocation: "
			  "it spins in a loop that no other thread can end (livelock)", t, T[t].plain_run);
	}
	int own = (char *) addr >= T[t].stack_lo && (char *) addr < T[t].stack_hi;
	if (own) {
		/* own stack: private unless another thread has accessed this very word (an on-stack nsync_waiter_s record handed to wakers:
		   nsync_wait_n's nw_set[], nsync_sem_wait_with_cancel_'s nw) -- then the owner's accesses are checked like any shared data */
		if (!own_stack_check || !race_check || psh_find ((uintptr_t) addr >> 2) == NULL) return;
	}
	if (!own && is_write && T[t].obs_on && !((const char *) addr >= T[t].obs_lo && (const char *) addr + size <= T[t].obs_hi)) {
		/* observer mode (C16): this thread is inside a call that may only observe */
		char nm[48];
		addr_name (addr, nm, sizeof (nm));
		vrt_fail ("C16", "plain write of %d bytes at %p (%s) by thread %d inside a debug-state call: the debug-state functions "
			  "may write only into the caller's buffer", size, addr, nm, t);
	}
	if (T[t].aim && aim_pct > 0) {
		T[t].aim = 0;
		if ((int) vrt_rand (100) < aim_pct) {
			/* aimed: between a waker's `waiting := 0` and what it does next with the record; also let pending deadlines fire */
			int i;
			vrt_count ("aimed_preempt");
			for (i = 1; i < nthr; i++) if (T[i].state == ST_BLOCKED && T[i].has_deadline && vrt_rand (2)) { if (T[i].deadline > now_ns) now_ns = T[i].deadline; }
			wake_timeouts ();
			sched_point (K_POINT);
		}
	} else if (plain_pct > 0 && (int) vrt_rand (1000) < plain_pct) {
		/* preempt BEFORE the access: other threads may run between the preceding atomic operation and this plain access */
		vrt_count ("plain_preempt");
		sched_point (K_POINT);
	}
	if (vrt_is_freed (addr)) {
		vrt_fail ("UAF", "plain %s of %d bytes at %p inside a block already released by free()",
			  is_write ? "write" : "read", size, addr);
	}
	dead_stack_check (t, addr, is_write ? "plain write" : "plain read");
	if (!race_check || psh == NULL) return;
	for (g = 0; g < (size + 3) / 4; g++) {
		struct pshadow *s = psh_get (((uintptr_t) addr >> 2) + (uintptr_t) g);
		int i;
		if (s == NULL) return;
		if (s->wtid >= 0 && s->wtid != t && s->wclk > T[t].vc[s->wtid]) {
			char nm[48];
			addr_name (addr, nm, sizeof (nm));
			vrt_fail ("RACE", "%s at %p (%s) by thread %d is not ordered after the write by thread %d "
				  "(no happens-before edge under the declared memory orders)",
				  is_write ? "write" : "read", addr, nm, t, s->wtid);
		}
		if (is_write) {
			for (i = 0; i < MAXT; i++) {
				if (i != t && s->rclk[i] > T[t].vc[i]) {
					char nm[48];
					addr_name (addr, nm, sizeof (nm));
					vrt_fail ("RACE", "write at %p (%s) by thread %d is not ordered after a read by "
						  "thread %d", addr, nm, t, i);
				}
			}
			s->wtid = t; s->wclk = T[t].vc[t]; s->wpc = pc;
			memset (s->rclk, 0, sizeof (s->rclk));
		} else {
			s->rclk[t] = T[t].vc[t];
		}
	}
}
/* observer mode: between begin and end the calling thread may make plain writes only to [allowed, allowed+n) and to its own stack */
void vrt_observer_begin (const void *allowed, size_t n) {
	struct thr *me = &T[self_id];
	me->obs_lo = (const char *) allowed; me->obs_hi = me->obs_lo + n; me->obs_on = 1;
}
void vrt_observer_end (void) { T[self_id].obs_on = 0; }
void vrt_client_write (const void *addr, const char *what) { (void) what; vrt_plain (addr, 4, 1, NULL); }
void vrt_client_read (const void *addr, const char *what) { (void) what; vrt_plain (addr, 4, 0, NULL); }

/* ---------- scheduler ---------- */
static void stuck_report (void) {
	int i;
	char buf[512];
	int n = 0;
	buf[0] = 0;
	for (i = 1; i < nthr; i++) {
		if (T[i].state == ST_BLOCKED) {
			char nm[48];
			addr_name (T[i].futex_addr, nm, sizeof (nm));
			n += snprintf (buf + n, sizeof (buf) - n, " t%d(%s) asleep on %s;", i, T[i].name, nm);
		}
	}
	if (expect_stuck) {
		dump_trace ();
		dump_counters ();
		printf ("VRT-END stuck-as-expected\n");
		fflush (NULL);
		_exit (0);
	}
	vrt_fail ("STUCK", "no thread can run and no deadline is pending:%s", buf);
}

static int wake_timeouts (void) {
	int i, n = 0;
	for (i = 1; i < nthr; i++) {
		if (T[i].state == ST_BLOCKED && T[i].has_deadline && T[i].deadline <= now_ns) {
			T[i].state = ST_RUNNABLE; T[i].wake_reason = 1; n++;
		}
	}
	return n;
}

static int advance_to_next_deadline (void) {
	int i;
	int64_t best = -1;
	for (i = 1; i < nthr; i++) {
		if (T[i].state == ST_BLOCKED && T[i].has_deadline && (best < 0 || T[i].deadline < best)) best = T[i].deadline;
	}
	if (best < 0) return 0;
	if (best > now_ns) now_ns = best;
	wake_timeouts ();
	vrt_count ("clock_jump_idle");
	return 1;
}

static void maybe_advance_clock (void) {
	if (clock_pct > 0 && (int) vrt_rand (100) < clock_pct) {
		int i, n = 0;
		int64_t cand[96];
		for (i = 1; i < nthr; i++) if (T[i].state == ST_BLOCKED && T[i].has_deadline && T[i].deadline > now_ns) cand[n++] = T[i].deadline;
		for (i = 0; i < ntimepoints; i++) if (timepoints[i] > now_ns && n < 96) cand[n++] = timepoints[i];
		if (n > 0 && vrt_rand (3) != 0) {
			int64_t tgt = cand[vrt_rand (n)];
			int d = (int) vrt_rand (3); /* just before, exactly at, just after */
			now_ns = tgt + (d - 1);
			vrt_count ("clock_jump_aimed");
		} else {
			now_ns += 1 + vrt_rand (1000000);
		}
		wake_timeouts ();
	} else {
		now_ns += 1;
		wake_timeouts ();
	}
}

static int (*chooser) (int n, const int *runnable, int cur) = NULL;
void vrt_set_chooser (int (*fn) (int, const int *, int)) { chooser = fn; }
long vrt_steps (void) { return steps; }
long vrt_sleeps_of (int tid) { return tid > 0 && tid < nthr ? T[tid].nsleeps : 0; }
int vrt_is_blocked (int tid) { return tid > 0 && tid < nthr && T[tid].state == ST_BLOCKED; }
int vrt_is_finished (int tid) { return tid > 0 && tid < nthr && T[tid].state == ST_FINISHED; }

static int pick (struct thr *me) {
	int i, n = 0, c[MAXT];
	for (i = 1; i < nthr; i++) if (T[i].state == ST_RUNNABLE) c[n++] = i;
	if (n == 0) return -1;
	if (chooser != NULL) {
		int k = chooser (n, c, me != NULL && me->state == ST_RUNNABLE ? me->id : -1);
		for (i = 0; i < n; i++) if (c[i] == k) return k;
	}
	if (strategy == 1) { /* PCT-like: highest priority runnable; a yielding thread drops to the bottom */
		int best = -1;
		for (i = 0; i < npct; i++) if (pct_changes[i] == steps && me != NULL) me->prio = -(int) steps;
		if (me != NULL && me->yielding) me->prio = -(int) steps - 1000000;
		for (i = 0; i < n; i++) if (best < 0 || T[c[i]].prio > T[best].prio) best = c[i];
		return best;
	}
	if (me != NULL && me->state == ST_RUNNABLE) {
		if (me->yielding && n > 1) {
			int k;
			do { k = c[vrt_rand (n)]; } while (k == me->id);
			return k;
		}
		if ((int) vrt_rand (100) >= switch_pct) return me->id;
	}
	return c[vrt_rand (n)];
}

static void handoff (struct thr *me) {
	for (;;) {
		int n = pick (me);
		if (n >= 0) {
			if (n == me->id) return;
			cur = n;
			sem_post (&T[n].go);
			if (me->state == ST_FINISHED) return;
			sem_wait (&me->go);
			return;
		} else {
			int i, unfinished = 0;
			for (i = 1; i < nthr; i++) if (T[i].state != ST_FINISHED) unfinished++;
			if (unfinished == 0) { sem_post (&done_sem); return; }
			if (advance_to_next_deadline ()) continue;
			stuck_report ();
		}
	}
}

static struct thr *sched_point (int kind) {
	struct thr *me = &T[self_id];
	char here;
	if (!started || self_id == 0) return me;
	if (me->pending_snap >= 0) { take_snapshot (me->pending_snap); me->pending_snap = -1; }
	steps++;
	me->nsteps++;
	me->plain_run = 0;
	if (steps > max_steps) {
		vrt_fail ("BUDGET", "step budget %ld exhausted (last progress at step %ld): livelock or starvation",
			  max_steps, last_progress_step);
	}
	me->sp_park = &here;
	me->yielding = (kind == K_YIELD);
	maybe_advance_clock ();
	handoff (me);
	me->yielding = 0;
	me->sp_park = NULL;
	return me;
}

static void *trampoline (void *v) {
	struct thr *me = (struct thr *) v;
	sem_t never;
	self_id = me->id;
	sem_wait (&me->go);
	log_ev (me->id, K_START, 0, NULL, 0, 0, 1, me->name, 0);
	me->pending_snap = -1;
	me->fn (me->arg);
	if (me->pending_snap >= 0) { take_snapshot (me->pending_snap); me->pending_snap = -1; }
	steps++;
	log_ev (me->id, K_END, 0, NULL, 0, 0, 1, me->name, 0);
	me->state = ST_FINISHED;
	last_progress_step = steps;
	T[0].vc[me->id] = me->vc[me->id]; /* joined by main at the end */
	vc_join (T[0].vc, me->vc);
	handoff (me);
	/* never exit: thread-specific destructors of the code under test must not run outside the baton */
	sem_init (&never, 0, 0);
	for (;;) sem_wait (&never);
	return NULL;
}

int vrt_thread (const char *name, vrt_fn f, void *arg) {
	struct thr *t;
	pthread_attr_t at;
	char *stk;
	int parent = self_id;
	if (nthr >= MAXT) { fprintf (stderr, "vrt: too many threads\n"); _exit (3); }
	t = &T[nthr];
	memset (t, 0, sizeof (*t));
	t->id = nthr;
	t->fn = f; t->arg = arg;
	snprintf (t->name, sizeof (t->name), "%s", name);
	sem_init (&t->go, 0, 0);
	stk = (char *) mmap (NULL, STACK_SZ, PROT_READ | PROT_WRITE, MAP_PRIVATE | MAP_ANONYMOUS | MAP_STACK, -1, 0);
	t->stack_lo = stk; t->stack_hi = stk + STACK_SZ;
	memcpy (t->vc, T[parent].vc, sizeof (t->vc));
	t->vc[t->id] = 1;
	T[parent].vc[parent]++;
	t->prio = (int) vrt_rand (1000000);
	t->state = ST_RUNNABLE;
	nthr++;
	pthread_attr_init (&at);
	pthread_attr_setstack (&at, stk, STACK_SZ);
	if (pthread_create (&t->pt, &at, trampoline, t) != 0) { perror ("pthread_create"); _exit (3); }
	return t->id;
}

static void setup (void) {
	struct sigaction sa;
	stack_t ss;
	static int done = 0;
	int i;
	if (done) return;
	done = 1;
	seed = vrt_opt ("SEED", 1);
	{	/* splitmix64 so that neighbouring seeds give unrelated streams */
		uint64_t z = (uint64_t) seed + 0x9E3779B97F4A7C15ULL;
		z = (z ^ (z >> 30)) * 0xBF58476D1CE4E5B9ULL;
		z = (z ^ (z >> 27)) * 0x94D049BB133111EBULL;
		rng = (z ^ (z >> 31)) | 1;
	}
	for (i = 0; i < 8; i++) rnd64 ();
	max_steps = vrt_opt ("MAXSTEPS", 400000);
	switch_pct = vrt_opt ("SWITCH", 10 + (int) vrt_rand (60));
	clock_pct = vrt_opt ("CLOCKP", (int) vrt_rand (8));
	own_stack_check = vrt_opt ("OWNSTACK", 1);
	inject_pct = vrt_opt ("INJECT", 0);
	inject_left = vrt_opt ("INJECTK", 3);
	strategy = vrt_opt ("STRATEGY", (int) vrt_rand (4) == 0 ? 1 : 0);
	race_check = vrt_opt ("RACE", 1);
	plain_pct = vrt_opt ("PLAINPM", 0);
	aim_pct = vrt_opt ("AIM", 0);     /* per mille */
	quiet = vrt_opt ("QUIET", 0);
	fail_alloc_at = vrt_opt ("FAILALLOC", 0);
	npct = 3;
	for (i = 0; i < npct; i++) pct_changes[i] = 1 + (int) vrt_rand (vrt_opt ("PCTLEN", 120));
	psh = (struct pshadow *) calloc (PSH, sizeof (*psh));
	T[0].state = ST_RUNNABLE; T[0].id = 0; T[0].vc[0] = 1; strcpy (T[0].name, "main");
	sem_init (&done_sem, 0, 0);
	ss.ss_sp = malloc (65536); ss.ss_size = 65536; ss.ss_flags = 0;
	sigaltstack (&ss, NULL);
	memset (&sa, 0, sizeof (sa));
	sa.sa_sigaction = on_segv;
	sa.sa_flags = SA_SIGINFO | SA_ONSTACK;
	sigaction (SIGSEGV, &sa, NULL);
	sigaction (SIGBUS, &sa, NULL);
	sigaction (SIGABRT, &sa, NULL);
}

__attribute__ ((constructor)) static void vrt_ctor (void) { setup (); }

int vrt_run (void) {
	int i, n;
	setup ();
	started = 1;
	n = pick (NULL);
	if (n >= 0) {
		cur = n;
		sem_post (&T[n].go);
		sem_wait (&done_sem);
	}
	started = 0;
	for (i = 1; i < nthr; i++) vc_join (T[0].vc, T[i].vc);
	cur = 0;
	dump_trace ();
	dump_counters ();
	return 0;
}

int vrt_self (void) { return self_id; }
int64_t vrt_now_ns (void) { return now_ns; }
void vrt_expect_stuck (int yes) { expect_stuck = yes; }
struct timespec vrt_abs (int64_t off) {
	struct timespec ts;
	int64_t t = start_ns + off;
	if (ntimepoints < 64) timepoints[ntimepoints++] = t;
	ts.tv_sec = t / 1000000000LL; ts.tv_nsec = t % 1000000000LL;
	if (ts.tv_nsec < 0) { ts.tv_nsec += 1000000000LL; ts.tv_sec--; }
	return ts;
}
void vrt_point (const char *what) {
	struct thr *me = sched_point (K_POINT);
	log_ev (me->id, K_POINT, 0, NULL, 0, 0, 1, what, 0);
}

/* ---------- atomics ---------- */
static void (*write_monitor) (volatile void *, uint32_t, uint32_t, const char *, int) = NULL;
void vrt_set_write_monitor (void (*fn) (volatile void *, uint32_t, uint32_t, const char *, int)) { write_monitor = fn; }
static void atomic_addr_check (int t, volatile void *p, const char *what) {
	if (!started) return;
	if (vrt_is_freed ((const void *) p)) {
		vrt_fail ("UAF", "%s at %p inside a block already released by free()", what, (void *) p);
	}
	dead_stack_check (t, p, what);
}
int vrt_cas (volatile void *p, uint32_t o, uint32_t n, int order, const char *file, int line) {
	struct thr *me = sched_point (K_CAS);
	volatile uint32_t *w = (volatile uint32_t *) p;
	int ok;
	atomic_addr_check (me->id, p, "atomic compare-and-swap");
	ok = (*w == o);
	if (ok) { *w = n; hb_rmw (me->id, p, order); last_progress_step = steps; }
	log_ev (me->id, K_CAS, order, p, o, n, ok, file, line);
	if (ok && write_monitor != NULL) write_monitor (p, o, n, file, line);
	me->pending_snap = ntrace - 1;
	return ok;
}
uint32_t vrt_load (volatile void *p, int order, const char *file, int line) {
	struct thr *me = sched_point (K_LOAD);
	uint32_t v;
	atomic_addr_check (me->id, p, "atomic load");
	v = *(volatile uint32_t *) p;
	hb_load (me->id, p, order);
	log_ev (me->id, K_LOAD, order, p, v, 0, 1, file, line);
	me->pending_snap = ntrace - 1;
	return v;
}
void vrt_store (volatile void *p, uint32_t v, int order, const char *file, int line) {
	struct thr *me = sched_point (K_STORE);
	atomic_addr_check (me->id, p, "atomic store");
	log_ev (me->id, K_STORE, order, p, *(volatile uint32_t *) p, v, 1, file, line);
	if (write_monitor != NULL) write_monitor (p, *(volatile uint32_t *) p, v, file, line);
	if (v == 0 && *(volatile uint32_t *) p == 1) me->aim = 1;
	*(volatile uint32_t *) p = v;
	hb_store (me->id, p, order);
	last_progress_step = steps;
	me->pending_snap = ntrace - 1;
}
void vrt_yield (void) {
	struct thr *me = sched_point (K_YIELD);
	log_ev (me->id, K_YIELD, 0, NULL, 0, 0, 1, NULL, 0);
}

int vrt_sched_yield (void) { vrt_yield (); return 0; }
/* scenario-directed clock: move the virtual clock forward to t (never backwards) and fire the timeouts that are due */
void vrt_clock_forward_to (int64_t t) { if (t > now_ns) { now_ns = t; wake_timeouts (); vrt_count ("clock_jump_scenario"); } }

/* ---------- clock ---------- */
int vrt_clock_gettime (clockid_t c, struct timespec *ts) {
	struct thr *me;
	if (!started || self_id == 0) {
		ts->tv_sec = now_ns / 1000000000LL; ts->tv_nsec = now_ns % 1000000000LL;
		return 0;
	}
	(void) c;
	me = sched_point (K_CLOCK);
	ts->tv_sec = now_ns / 1000000000LL; ts->tv_nsec = now_ns % 1000000000LL;
	log_ev (me->id, K_CLOCK, 0, NULL, (uint32_t) (now_ns / 1000000000LL), (uint32_t) (now_ns % 1000000000LL), 1, NULL, 0);
	return 0;
}

/* ---------- futex ---------- */
static long futex_wait (struct thr *me, volatile uint32_t *uaddr, uint32_t val, const struct timespec *ts) {
	int64_t dl = 0;
	atomic_addr_check (me->id, uaddr, "futex wait");
	if (ts != NULL) vrt_note ("fts %d %lld %lld", me->id, (long long) ts->tv_sec, (long long) ts->tv_nsec);
	else vrt_note ("fts %d none", me->id);
	if (ts != NULL) {
		/* Linux: timespec64_valid() -- tv_sec >= 0 and 0 <= tv_nsec < 1e9, else EINVAL */
		if (ts->tv_sec < 0 || ts->tv_nsec < 0 || ts->tv_nsec >= 1000000000L) {
			log_ev (me->id, K_FWAIT, 0, uaddr, val, EINVAL, 0, NULL, 0);
			errno = EINVAL;
			return -1;
		}
		if (ts->tv_sec > 9000000000LL) dl = INT64_MAX; else dl = (int64_t) ts->tv_sec * 1000000000LL + ts->tv_nsec;
	}
	if (*uaddr != val) {
		log_ev (me->id, K_FWAIT, 0, uaddr, val, EAGAIN, 0, NULL, 0);
		errno = EAGAIN;
		vrt_count ("futex_eagain");
		return -1;
	}
	if (inject_pct > 0 && inject_left > 0 && (int) vrt_rand (100) < inject_pct) {
		int k = (int) vrt_rand (ts != NULL ? 2 : 1);
		inject_left--;
		vrt_count (k == 0 ? "inject_eintr" : "inject_early_timeout");
		log_ev (me->id, K_FWAIT, 0, uaddr, val, k == 0 ? EINTR : ETIMEDOUT, 0, "injected", 0);
		errno = k == 0 ? EINTR : ETIMEDOUT;
		return -1;
	}
	if (ts != NULL && dl <= now_ns) {
		log_ev (me->id, K_FWAIT, 0, uaddr, val, ETIMEDOUT, 0, NULL, 0);
		errno = ETIMEDOUT;
		vrt_count ("futex_timeout_immediate");
		return -1;
	}
	/* block */
	if (me->pending_snap >= 0) { take_snapshot (me->pending_snap); me->pending_snap = -1; }
	me->state = ST_BLOCKED;
	me->futex_addr = uaddr;
	me->has_deadline = ts != NULL && dl != INT64_MAX;
	me->deadline = dl;
	me->wake_reason = 0;
	vrt_count ("futex_sleep");
	me->nsleeps++;
	log_ev (me->id, K_FWAIT, 0, uaddr, val, 0, 1, "sleep", 0);
	{
		char here;
		me->sp_park = &here;
		handoff (me);
		me->sp_park = NULL;
	}
	steps++;
	if (me->wake_reason == 1) {
		log_ev (me->id, K_FWAIT, 0, uaddr, val, ETIMEDOUT, 0, "wake-timeout", 0);
		errno = ETIMEDOUT;
		vrt_count ("futex_timeout");
		return -1;
	}
	log_ev (me->id, K_FWAIT, 0, uaddr, val, 0, 1, "woken", 0);
	return 0;
}
static long futex_wake (struct thr *me, volatile uint32_t *uaddr, int n) {
	int i, woken = 0;
	atomic_addr_check (me->id, uaddr, "futex wake");
	for (i = 1; i < nthr && woken < n; i++) {
		if (T[i].state == ST_BLOCKED && T[i].futex_addr == uaddr) {
			T[i].state = ST_RUNNABLE; T[i].wake_reason = 0; woken++;
		}
	}
	if (woken) last_progress_step = steps;
	log_ev (me->id, K_FWAKE, 0, uaddr, (uint32_t) n, (uint32_t) woken, 1, NULL, 0);
	return woken;
}
long vrt_syscall (long nr, ...) {
	va_list ap;
	long a[6];
	int i, op;
	va_start (ap, nr);
	for (i = 0; i < 6; i++) a[i] = va_arg (ap, long);
	va_end (ap);
	if (nr != SYS_futex) {
		return syscall (nr, a[0], a[1], a[2], a[3], a[4], a[5]);
	}
	op = (int) a[1] & ~(FUTEX_PRIVATE_FLAG | FUTEX_CLOCK_REALTIME);
	if (!started || self_id == 0) {
		if (op == FUTEX_WAKE) return 0;
		fprintf (stderr, "vrt: futex wait outside the scheduler\n");
		_exit (3);
	}
	if (op == FUTEX_WAIT_BITSET) {
		struct thr *me = sched_point (K_FWAIT);
		return futex_wait (me, (volatile uint32_t *) a[0], (uint32_t) a[2], (const struct timespec *) a[3]);
	} else if (op == FUTEX_WAKE) {
		struct thr *me = sched_point (K_FWAKE);
		return futex_wake (me, (volatile uint32_t *) a[0], (int) a[2]);
	}
	fprintf (stderr, "vrt: unmodelled futex op %ld\n", a[1]);
	_exit (3);
}

/* ---------- allocator: one mapping per block, never reused, PROT_NONE after free ---------- */
struct blk { char *base; size_t maplen; char *user; size_t n; int freed; };
static struct blk blks[2048];
static int nblks = 0;
void vrt_fail_alloc_after (int k) { fail_alloc_at = k > 0 ? alloc_count + k : 0; }
void vrt_fail_my_alloc_after (int k) { my_fail_in = k > 0 ? k : 0; }
/* scenario-side peek at a word of library state for DIRECTING a run (not instrumented, not a scheduling point, not part of race detection) */
uint32_t vrt_peek32 (const void *p) { return *(const volatile uint32_t *) p; }
/* the same, but `dflt` if the word lies in a block that has been freed (test and read are one un-interruptible runtime call) */
uint32_t vrt_peek32_or (const void *p, uint32_t dflt) { return vrt_is_freed (p) ? dflt : *(const volatile uint32_t *) p; }
int vrt_alloc_count (void) { return alloc_count; }
void *vrt_malloc (size_t n) {
	size_t pg = 4096, len;
	struct blk *b;
	char nm[24];
	struct thr *me = NULL;
	if (started && self_id != 0) me = sched_point (K_MALLOC);
	alloc_count++;
	if ((fail_alloc_at != 0 && alloc_count == fail_alloc_at) || (my_fail_in > 0 && --my_fail_in == 0)) {
		if (me) log_ev (me->id, K_MALLOC, 0, NULL, (uint32_t) n, 0, 0, "fail", 0);
		vrt_count ("malloc_failed");
		errno = ENOMEM;
		return NULL;
	}
	if (nblks >= 2048) { fprintf (stderr, "vrt: out of blocks\n"); _exit (3); }
	len = ((n + pg - 1) / pg + 2) * pg;
	b = &blks[nblks];
	b->base = (char *) mmap (NULL, len, PROT_READ | PROT_WRITE, MAP_PRIVATE | MAP_ANONYMOUS, -1, 0);
	mprotect (b->base, pg, PROT_NONE);
	mprotect (b->base + len - pg, pg, PROT_NONE);
	b->maplen = len;
	/* right-align so that overruns hit the guard page; keep 16-byte alignment */
	b->user = b->base + len - pg - ((n + 15) & ~(size_t) 15);
	b->n = n; b->freed = 0;
	memset (b->user, 0xAB, n);
	snprintf (nm, sizeof (nm), "blk%d", nblks);
	vrt_register (b->user, n, nm);
	nblks++;
	if (me) log_ev (me->id, K_MALLOC, 0, b->user, (uint32_t) n, (uint32_t) (nblks - 1), 1, NULL, 0);
	return b->user;
}
void vrt_free (void *p) {
	int i;
	struct thr *me = NULL;
	if (p == NULL) return;
	if (started && self_id != 0) me = sched_point (K_FREE);
	for (i = 0; i < nblks; i++) {
		if (blks[i].user == (char *) p) {
			struct region *r = find_region (p);
			if (blks[i].freed) vrt_fail ("UAF", "double free of blk%d", i);
			blks[i].freed = 1;
			if (r != NULL) r->freed = 1;
			if (me) log_ev (me->id, K_FREE, 0, p, (uint32_t) i, 0, 1, NULL, 0);
			mprotect (blks[i].base, blks[i].maplen, PROT_NONE);
			return;
		}
	}
	fprintf (stderr, "vrt: free of unknown pointer %p\n", p);
	_exit (3);
}

/* shadow variables for scenario oracles (kept outside the instrumented code) */
static long shadow[256];
long vrt_sh_add (int i, long d) { shadow[i & 255] += d; return shadow[i & 255]; }
long vrt_sh_get (int i) { return shadow[i & 255]; }
void vrt_sh_set (int i, long v) { shadow[i & 255] = v; }

/* ---------- C01 oracle: shadow occupancy ---------- */
static struct { const void *mu; int w, r; } occ[16];
static int nocc = 0;
static int occ_idx (const void *mu) {
	int i;
	for (i = 0; i < nocc; i++) if (occ[i].mu == mu) return i;
	occ[nocc].mu = mu; occ[nocc].w = occ[nocc].r = 0;
	return nocc++;
}
void vrt_acquired (const void *mu, int writer) {
	int i = occ_idx (mu);
	if (writer) occ[i].w++; else occ[i].r++;
	if (occ[i].w > 1 || (occ[i].w == 1 && occ[i].r > 0)) {
		vrt_fail ("C01", "after a %s acquisition returned the mutex is held by %d writer(s) and %d reader(s)",
			  writer ? "write" : "read", occ[i].w, occ[i].r);
	}
	vrt_count (writer ? "acq_w" : "acq_r");
}
void vrt_releasing (const void *mu, int writer) {
	int i = occ_idx (mu);
	if (writer) occ[i].w--; else occ[i].r--;
	if (occ[i].w < 0 || occ[i].r < 0) vrt_fail ("HARNESS", "release without acquire");
}
int vrt_holders (const void *mu, int writer) { int i = occ_idx (mu); return writer ? occ[i].w : occ[i].r; }

/* ---------- compile-only ThreadSanitizer instrumentation lands here ---------- */
#define TS(n) \
	void __tsan_read##n (void *a) { vrt_plain (a, n, 0, __builtin_return_address (0)); } \
	void __tsan_write##n (void *a) { vrt_plain (a, n, 1, __builtin_return_address (0)); } \
	void __tsan_unaligned_read##n (void *a) { vrt_plain (a, n, 0, __builtin_return_address (0)); } \
	void __tsan_unaligned_write##n (void *a) { vrt_plain (a, n, 1, __builtin_return_address (0)); }
TS (1) TS (2) TS (4) TS (8) TS (16)
void __tsan_read_range (void *a, unsigned long n) { unsigned long i; for (i = 0; i < n; i += 4) vrt_plain ((char *) a + i, 4, 0, NULL); }
void __tsan_write_range (void *a, unsigned long n) { unsigned long i; for (i = 0; i < n; i += 4) vrt_plain ((char *) a + i, 4, 1, NULL); }
void __tsan_func_entry (void *pc) { (void) pc; }
void __tsan_func_exit (void) { }
void __tsan_init (void) { }
void __tsan_vptr_update (void **a, void *b) { (void) a; (void) b; }
void __tsan_vptr_read (void **a) { (void) a; }
/* nsync's own annotations: deliberately no-ops, nsync's internal accesses are checked too */
void AnnotateIgnoreWritesBegin (const char *f, int l) { (void) f; (void) l; }
void AnnotateIgnoreWritesEnd (const char *f, int l) { (void) f; (void) l; }
void AnnotateIgnoreReadsBegin (const char *f, int l) { (void) f; (void) l; }
void AnnotateIgnoreReadsEnd (const char *f, int l) { (void) f; (void) l; }
void AnnotateRWLockCreate (const char *f, int l, void *m) { (void) f; (void) l; (void) m; }
void AnnotateRWLockAcquired (const char *f, int l, void *m, long w) { (void) f; (void) l; (void) m; (void) w; }
void AnnotateRWLockReleased (const char *f, int l, void *m, long w) { (void) f; (void) l; (void) m; (void) w; }
