/* vrt: deterministic runtime under which the unmodified nsync sources are run.
   One logical thread runs at a time (pthread baton); every atomic operation,
   futex call, clock read, yield and allocation of the code under test is a
   scheduling point.  See DESIGN.md section 2.4. */
#ifndef VRT_H_
#define VRT_H_
#include <stdint.h>
#include <stddef.h>
#include <time.h>

#ifdef __cplusplus
extern "C" {
#endif

enum { VRT_RLX = 0, VRT_ACQ = 1, VRT_REL = 2, VRT_ACQREL = 3 };

/* ---- entry points used by harness/platform/atomic.h ---- */
int vrt_cas (volatile void *p, uint32_t o, uint32_t n, int order, const char *file, int line);
uint32_t vrt_load (volatile void *p, int order, const char *file, int line);
void vrt_store (volatile void *p, uint32_t v, int order, const char *file, int line);

/* ---- renamed libc entry points (-Dsyscall=vrt_syscall ...) ---- */
long vrt_syscall (long nr, ...);
int vrt_clock_gettime (clockid_t c, struct timespec *ts);
void *vrt_malloc (size_t n);
void vrt_free (void *p);
void vrt_yield (void);

/* ---- scenario API ---- */
typedef void (*vrt_fn) (void *);
int vrt_thread (const char *name, vrt_fn f, void *arg);  /* before vrt_run: initial thread; inside: spawn */
int vrt_run (void);                   /* runs all threads to completion; returns 0, or exits the process on a violation */
int vrt_self (void);
void vrt_fail (const char *prop, const char *fmt, ...) __attribute__ ((format (printf, 2, 3), noreturn));
void vrt_note (const char *fmt, ...) __attribute__ ((format (printf, 1, 2)));  /* goes to the trace */
void vrt_point (const char *what);    /* an extra scheduling point in scenario code */
int64_t vrt_now_ns (void);
void vrt_clock_forward_to (int64_t ns);   /* scenario-directed clock jump (forward only); fires due futex timeouts */            /* virtual CLOCK_REALTIME, ns */
struct timespec vrt_abs (int64_t ns_from_start); /* absolute deadline = start + offset */
void vrt_register (const void *p, size_t n, const char *name); /* names a region in traces */
uint32_t vrt_rand (uint32_t n);       /* scenario-level random choice drawn from the run's PRNG */
int vrt_opt (const char *name, int dflt); /* integer option from the environment VRT_<name> */
void vrt_expect_stuck (int yes);      /* scenario declares that ending stuck is acceptable (e.g. no waker exists) */
/* client-data accesses for the happens-before oracle (C03) */
void vrt_client_write (const void *addr, const char *what);
void vrt_client_read (const void *addr, const char *what);
/* statistics */
void vrt_count (const char *key);
/* memory: is this address inside a block that vrt_free has released? */
int vrt_is_freed (const void *p);
size_t vrt_region_size (const void *p);   /* size of the registered region / allocated block containing p (0 if none) */
/* allocation fault injection: fail the k-th allocation from now (1-based), 0 = never */
void vrt_fail_alloc_after (int k);
void vrt_fail_my_alloc_after (int k);   /* the same, counting only the calling thread's allocations */
int vrt_alloc_count (void);
uint32_t vrt_peek32 (const void *p);
uint32_t vrt_peek32_or (const void *p, uint32_t dflt);   /* dflt if the word lies in a freed block */    /* un-instrumented read of a 32-bit word of library state, for directing a scenario only */

/* plain-access callbacks (from the compile-only -fsanitize=thread instrumentation) */
void vrt_plain (const void *addr, int size, int is_write, const void *pc);

#ifdef __cplusplus
}
#endif
#endif

/* ---- oracle helpers (implemented in the un-instrumented runtime) ---- */
#ifdef __cplusplus
extern "C" {
#endif
/* C01: call right after an acquire returns / right before a release is called */
void vrt_acquired (const void *mu, int writer);
void vrt_releasing (const void *mu, int writer);
int vrt_holders (const void *mu, int writer);
/* scheduler introspection / control for adversarial scenarios */
long vrt_steps (void);
long vrt_sleeps_of (int tid);          /* number of times thread tid blocked in the modelled futex */
int vrt_is_blocked (int tid);
int vrt_is_finished (int tid);
void vrt_set_chooser (int (*fn) (int n, const int *runnable, int cur));  /* returns the tid to run next (or anything else: default policy) */
/* shadow variables for oracles: not instrumented, so they do not take part in race detection */
long vrt_sh_add (int i, long d);
long vrt_sh_get (int i);
void vrt_sh_set (int i, long v);
/* state snapshots for the lock-step replay: fn writes a one-line canonical description of the watched objects */
void vrt_set_snapshot (void (*fn) (char *buf, size_t n));
void vrt_region_name (const void *p, char *buf, size_t n);
/* called for every successful atomic write (store or CAS) of the code under test: (addr, old, new, file, line) */
void vrt_set_write_monitor (void (*fn) (volatile void *, uint32_t, uint32_t, const char *, int));
/* observer mode (C16): between vrt_observer_begin and vrt_observer_end every instrumented PLAIN write by the calling thread to an
   address that is neither inside [allowed, allowed+n) nor on the thread's own stack ends the run with a violation `C16`.
   (Atomic writes are seen by the write monitor.)  Off by default; nothing changes for threads that never call it. */
void vrt_observer_begin (const void *allowed, size_t n);
void vrt_observer_end (void);
#ifdef __cplusplus
}
#endif
