/* replaces platform/posix/src/yield.c: the scheduler must know that a thread is spinning */
#include "vrt.h"
void nsync_yield_ (void) { vrt_yield (); }
