(* Extraction of SemWaitModel for replay/semwait_replay.ml (same directives as Extract.v; Z, positive, N and nat stay the Coq datatypes). *)
From Coq Require Extraction.
From Coq Require Import ExtrOcamlBasic.
From NsyncModel Require SemWaitModel SemWaitReplay.
Extraction Language OCaml.
Set Extraction AccessOpaque.
Cd "_extract_semwait".
Separate Extraction SemWaitModel.step SemWaitModel.tick SemWaitModel.env_v SemWaitModel.env_p SemWaitModel.clock SemWaitModel.nrec
  SemWaitReplay.push_op SemWaitReplay.init_c SemWaitReplay.add_note SemWaitReplay.expects SemWaitReplay.pc_code SemWaitReplay.sleep_due
  SemWaitReplay.last_res SemWaitReplay.ncalls_done SemWaitReplay.idle SemWaitReplay.sem_of SemWaitReplay.dead SemWaitReplay.rec_owner
  SemWaitReplay.lock_is_free SemWaitReplay.note_flag SemWaitReplay.note_queue SemWaitReplay.last_ret SemWaitReplay.nrets.
