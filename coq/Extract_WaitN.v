(* Extraction of WaitNModel for the correspondence check (replay/waitn_replay.ml).
   Only ExtrOcamlBasic's directives are used; Z, positive, N and nat stay the Coq datatypes. *)
From Coq Require Extraction.
From Coq Require Import ExtrOcamlBasic.
From NsyncModel Require WaitNModel WaitNReplay.
Extraction Language OCaml.
Set Extraction AccessOpaque.
Cd "_extract_waitn".
Separate Extraction WaitNModel.step WaitNModel.do_act WaitNModel.init WaitNModel.clock WaitNModel.nw_set_len
  WaitNReplay.world0 WaitNReplay.init_note WaitNReplay.init_ctr WaitNReplay.push_op WaitNReplay.clock_to
  WaitNReplay.pc_of WaitNReplay.prog_len WaitNReplay.last_result WaitNReplay.sem_of WaitNReplay.any_on_list
  WaitNReplay.done_of WaitNReplay.idx_ready_of WaitNReplay.dl_seen_of
  WaitNReplay.count_of WaitNReplay.in_call_b WaitNReplay.heap_freed_b WaitNReplay.rec_dead_b
  WaitNReplay.has_mu WaitNReplay.held_of WaitNReplay.unlocked_of WaitNReplay.holder_is.
