(* MuProof3: the hand-off half of C02 over Model/MuModel.v -- "who wakes whom".

   Result (no_lost_handoff): in every reachable world in which nothing can move any more (every thread
   is finished, or asleep in the semaphore P of nsync_mu_lock_slow_ with count 0) and some thread is
   asleep, the mutex is HELD by some thread, the sleeper is on the waiter queue with its waiting flag set,
   and the word carries MU_WAITING without MU_DESIG_WAKER / MU_SPINLOCK / MU_ALL_FALSE -- so the last
   holder's release cannot take a fast path: it must take the spinlock and scan the queue
   (last_holder_must_scan), and the scan of a non-empty queue wakes somebody (MuProof2.pinned).
   The reader half at full strength ("a sleeping reader implies a WRITE holder") is false of the model
   by design of the lock (writer priority, designated waker): no_lost_handoff_refuted, h_full_false,
   reader_sleeps_beside_reader.

   Builds on MuProof (lock view, Inv) and MuProof2 (queue discipline, QInv).

   Part A  flag bits 1..7 of every value written to the word
   Part B  what the guards of the releasing / enqueueing CASes say about the flags
   Part C  the hand-off invariant HInv and its abstract preservation lemmas
   Part D  preservation by [step]
   Part E  the lemmas used by Props/Properties_C02b.v, the refutation of the full reader half, examples *)
From NsyncBase Require Import CSem.
From NsyncGen Require Import Consts Sites.
From NsyncModel Require Import MuModel MuSpec.
From NsyncProof Require Import WordView MuProof MuProof2.
From Coq Require Import List ZArith Bool Lia PeanoNat Permutation.
Import ListNotations.
Local Open Scope Z_scope.

Ltac Zify.zify_post_hook ::= Z.div_mod_to_equations.

(* ================================================================== *)
(* Part A: flag bits of the written values                             *)
(* ================================================================== *)

(* evaluate Z.testbit on closed numerals *)
Ltac tbc :=
  repeat match goal with
  | |- context [Z.testbit (Zpos ?p) (Zpos ?q)] =>
      let v := eval vm_compute in (Z.testbit (Zpos p) (Zpos q)) in
      match v with true => idtac | false => idtac end;
      change (Z.testbit (Zpos p) (Zpos q)) with v
  | |- context [Z.testbit 0 ?q] => rewrite (Z.bits_0 q)
  end.
Ltac tbc_in H :=
  repeat match type of H with
  | context [Z.testbit (Zpos ?p) (Zpos ?q)] =>
      let v := eval vm_compute in (Z.testbit (Zpos p) (Zpos q)) in
      match v with true => idtac | false => idtac end;
      change (Z.testbit (Zpos p) (Zpos q)) with v in H
  | context [Z.testbit 0 ?q] => rewrite (Z.bits_0 q) in H
  end.

Lemma g_add1 old c k : old mod 2 = 0 -> 1 <= k < 32 ->
  Z.testbit (wrap_u 32 (Z.land (wrap_u 32 (old + 1)) (4294967295 - c))) k = Z.testbit old k && negb (Z.testbit c k).
Proof. intros E H. tbs. rewrite tb_add1 by lia. reflexivity. Qed.

Lemma g_add256 old c k : 0 <= k < 8 ->
  Z.testbit (wrap_u 32 (Z.land (wrap_u 32 (old + 256)) (4294967295 - c))) k = Z.testbit old k && negb (Z.testbit c k).
Proof. intros H. tbs. rewrite tb_add256 by lia. reflexivity. Qed.

Lemma g_sub1 old c k : old mod 2 = 1 -> 1 <= k < 32 ->
  Z.testbit (wrap_u 32 (Z.land (wrap_u 32 (old - 1)) (4294967295 - c))) k = Z.testbit old k && negb (Z.testbit c k).
Proof. intros E H. tbs. rewrite tb_sub1 by lia. reflexivity. Qed.

Lemma g_sub256 old c k : 0 <= k < 8 ->
  Z.testbit (wrap_u 32 (Z.land (wrap_u 32 (old - 256)) (4294967295 - c))) k = Z.testbit old k && negb (Z.testbit c k).
Proof. intros H. tbs. rewrite tb_sub256 by lia. reflexivity. Qed.

Definition coa (m : mode) : Z := match m with W => 32 | R => 0 end.    (* clear_on_acquire *)
Definition sww (m : mode) : Z := match m with W => 36 | R => 4 end.    (* set_when_waiting *)
Definition cur (m : mode) : Z := match m with W => 128 | R => 0 end.   (* clear_on_uncontended_release *)

Lemma fb_fast_new2 m old k : fast_guard2 m old = true -> 1 <= k < 8 ->
  Z.testbit (fast_new2 m old) k = Z.testbit old k && negb (Z.testbit (coa m) k).
Proof.
  intros G H. destruct m; unfold fast_guard2 in G; unfold fast_new2, coa.
  - rewrite lock_cas2_guard_eq, negb_involutive in G. apply Z.eqb_eq in G.
    pose proof (zero_test_even old 4294967105 eq_refl G) as E. rewrite lock_cas2_new_eq.
    apply g_add1; lia.
  - rewrite rlock_cas2_new_eq. apply g_add256; lia.
Qed.

Lemma fb_try_new2 m old k : try_guard2 m old = true -> 1 <= k < 8 ->
  Z.testbit (try_new2 m old) k = Z.testbit old k && negb (Z.testbit (coa m) k).
Proof.
  intros G H. destruct m; unfold try_guard2 in G; unfold try_new2, coa.
  - rewrite trylock_cas2_guard_eq in G. apply Z.eqb_eq in G.
    pose proof (zero_test_even old 4294967105 eq_refl G) as E. rewrite trylock_cas2_new_eq.
    apply g_add1; lia.
  - rewrite rtrylock_cas2_new_eq. apply g_add256; lia.
Qed.

Lemma fb_lock_slow_cas1 m l old k : lsl_ok m l -> nsync_mu_lock_slow_cas1_guard old (zta l) = true -> 1 <= k < 8 ->
  Z.testbit (nsync_mu_lock_slow_cas1_new old (lt_of m) (clr l) (longw l)) k =
  Z.testbit old k && negb ((Z.testbit (clr l) k || Z.testbit (longw l) k) || Z.testbit (coa m) k).
Proof.
  intros Hl G H. rewrite lock_slow_cas1_guard_eq in G. apply Z.eqb_eq in G.
  destruct (zta_ok_facts m _ (proj1 Hl)) as [Zodd _].
  pose proof (zero_test_even old _ Zodd G) as E.
  rewrite lock_slow_cas1_new_eq. unfold coa.
  destruct m; [rewrite g_add1 by lia | rewrite g_add256 by lia];
    rewrite tb_wrap, Z.lor_spec, tb_wrap, Z.lor_spec by lia; reflexivity.
Qed.

Lemma fb_lock_slow_cas2 m l old k : 1 <= k < 8 ->
  Z.testbit (nsync_mu_lock_slow_cas2_new old (longw l) (lt_of m) (clr l)) k =
  (((Z.testbit old k || Z.testbit 2 k) || Z.testbit (longw l) k) || Z.testbit (sww m) k)
  && negb (Z.testbit (clr l) k || Z.testbit 128 k).
Proof. intros H. rewrite lock_slow_cas2_new_eq. unfold sww. tbs. destruct m; reflexivity. Qed.

Lemma fb_release_spinlock old k : 1 <= k < 8 ->
  Z.testbit (mu_release_spinlock_cas1_new old) k = Z.testbit old k && negb (Z.testbit 2 k).
Proof. intros H. rewrite release_spinlock_new_eq. tbs. reflexivity. Qed.

Lemma fb_unlock_new2 m old k : match m with W => old mod 2 = 1 | R => 1 <= old / 256 end -> 1 <= k < 8 ->
  Z.testbit (unlock_new2 m old) k = Z.testbit old k && negb (Z.testbit (cur m) k).
Proof.
  intros E H. destruct m; unfold unlock_new2, cur.
  - rewrite unlock_cas2_new_eq. apply g_sub1; lia.
  - rewrite runlock_cas2_new_eq, tb_wrap, tb_sub256 by lia. tbc. now rewrite andb_true_r.
Qed.

Lemma fb_unlock_slow_cas1 m old k : match m with W => old mod 2 = 1 | R => 1 <= old / 256 end -> 1 <= k < 8 ->
  Z.testbit (nsync_mu_unlock_slow_cas1_new old (lt_of m)) k = Z.testbit old k && negb (Z.testbit (cur m) k).
Proof.
  intros E H. rewrite unlock_slow_cas1_new_eq. unfold cur.
  destruct m; [apply g_sub1 | apply g_sub256]; lia.
Qed.

Lemma fb_unlock_slow_cas2 m old k : match m with W => old mod 2 = 1 | R => 1 <= old / 256 end -> 1 <= k < 8 ->
  Z.testbit (nsync_mu_unlock_slow_cas2_new old (lt_add_to_acquire (lt_of m))) k =
  (Z.testbit old k || Z.testbit 2 k) || Z.testbit 8 k.
Proof.
  intros E H. rewrite unlock_slow_cas2_new_eq. tbs.
  destruct m; [rewrite tb_sub1 by lia | rewrite tb_sub256 by lia]; reflexivity.
Qed.

Lemma fb_unlock_slow_cas3 u old k : late u = 0 -> 1 <= k < 8 ->
  Z.testbit (nsync_mu_unlock_slow_cas3_new old (late u) (set_on u) (clear_on u)) k =
  (Z.testbit old k || Z.testbit (set_on u) k) && negb (Z.testbit (clear_on u) k).
Proof. intros L H. rewrite unlock_slow_cas3_new_eq, L, Z.sub_0_r. tbs. reflexivity. Qed.

Lemma fb_fast_new m k : 1 <= k < 8 -> Z.testbit (fast_new m) k = false.
Proof.
  intros H. assert (k = 1 \/ k = 2 \/ k = 3 \/ k = 4 \/ k = 5 \/ k = 6 \/ k = 7) as D by lia.
  destruct m; repeat (destruct D as [-> | D]; [reflexivity|]); subst k; reflexivity.
Qed.
Lemma fb_try_new m k : 1 <= k < 8 -> Z.testbit (try_new m) k = false.
Proof.
  intros H. assert (k = 1 \/ k = 2 \/ k = 3 \/ k = 4 \/ k = 5 \/ k = 6 \/ k = 7) as D by lia.
  destruct m; repeat (destruct D as [-> | D]; [reflexivity|]); subst k; reflexivity.
Qed.
Lemma fb_ufast_new m k : Z.testbit (ufast_new m) k = false.
Proof. destruct m; change (ufast_new W) with 0; change (ufast_new R) with 0; apply Z.bits_0. Qed.

(* ================================================================== *)
(* Part B: what the guards say                                         *)
(* ================================================================== *)

Definition free (x : Z) : Prop := x mod 2 = 0 /\ x / 256 = 0.

Lemma land_pow2 x k : 0 <= k -> Z.land x (2 ^ k) = if Z.testbit x k then 2 ^ k else 0.
Proof.
  intros Hk. apply Z.bits_inj'. intros n Hn. rewrite Z.land_spec, Z.pow2_bits_eqb by assumption.
  destruct (Z.testbit x k) eqn:E.
  - rewrite Z.pow2_bits_eqb by assumption. destruct (Z.eqb_spec k n) as [->|]; [rewrite E; reflexivity | apply andb_false_r].
  - rewrite Z.bits_0. destruct (Z.eqb_spec k n) as [->|]; [rewrite E; reflexivity | apply andb_false_r].
Qed.

Lemma free_high_bits old n : rng old -> old / 256 = 0 -> 8 <= n -> Z.testbit old n = false.
Proof.
  intros R D Hn. unfold rng in R.
  rewrite <- (Z.mod_small old (2 ^ 8)) by (change (2 ^ 8) with 256; lia).
  apply Z.mod_pow2_bits_high. lia.
Qed.

Lemma land_free_zero old z : rng old -> old / 256 = 0 ->
  (forall n, 0 <= n < 8 -> Z.testbit old n && Z.testbit z n = false) -> wrap_u 32 (Z.land old z) = 0.
Proof.
  intros R D H. apply Z.bits_inj'. intros n Hn. rewrite Z.bits_0.
  destruct (Z_lt_ge_dec n 32) as [L|G].
  - rewrite tb_wrap, Z.land_spec by lia. destruct (Z_lt_ge_dec n 8) as [L8|G8].
    + apply H. lia.
    + rewrite (free_high_bits old n R D) by lia. reflexivity.
  - unfold wrap_u. apply Z.mod_pow2_bits_high. lia.
Qed.

Ltac bits8 n Hn :=
  assert (n = 0 \/ n = 1 \/ n = 2 \/ n = 3 \/ n = 4 \/ n = 5 \/ n = 6 \/ n = 7) as D8 by lia;
  clear Hn; repeat (destruct D8 as [-> | D8]); try subst n.

(* a thread that has already been woken enqueues only when the lock is held against it *)
Lemma enq_guard_woken m old : rng old -> free old ->
  nsync_mu_lock_slow_cas2_guard old (band (lt_zero_to_acquire (lt_of m)) clr_mask) = true -> False.
Proof.
  intros R [E D] G. rewrite lock_slow_cas2_guard_eq in G. apply andb_true_iff in G. destruct G as [G _].
  apply negb_true_iff, Z.eqb_neq in G. apply G. apply land_free_zero; auto.
  assert (Z.testbit old 0 = false) as B0 by (rewrite bit0_mod2; apply Z.eqb_neq; lia).
  intros n Hn. bits8 n Hn; rewrite ?B0; try reflexivity; destruct m; apply andb_false_r.
Qed.

(* a thread that has not waited yet enqueues on a free lock only behind MU_LONG_WAIT / MU_WRITER_WAITING *)
Lemma enq_guard_fresh m old : rng old -> free old ->
  nsync_mu_lock_slow_cas2_guard old (lt_zero_to_acquire (lt_of m)) = true ->
  Z.testbit old 6 = true \/ Z.testbit old 5 = true.
Proof.
  intros R [E D] G. rewrite lock_slow_cas2_guard_eq in G. apply andb_true_iff in G. destruct G as [G _].
  apply negb_true_iff, Z.eqb_neq in G.
  destruct (Z.testbit old 6) eqn:B6; [now left|]. destruct (Z.testbit old 5) eqn:B5; [now right|].
  exfalso. apply G. apply land_free_zero; auto.
  assert (Z.testbit old 0 = false) as B0 by (rewrite bit0_mod2; apply Z.eqb_neq; lia).
  intros n Hn. bits8 n Hn; rewrite ?B0, ?B5, ?B6; try reflexivity; destruct m; apply andb_false_r.
Qed.

Lemma land12 old : Z.testbit old 2 = true -> Z.testbit old 3 = false -> wrap_u 32 (Z.land old 12) = 4.
Proof.
  intros B2 B3. change 12 with (Z.lor (2 ^ 2) (2 ^ 3)).
  rewrite Z.land_lor_distr_r, !land_pow2, B2, B3 by lia. reflexivity.
Qed.

Lemma unlock_cas2_guard_flags old : unlock_try_cas2 W old = true ->
  Z.testbit old 2 = false \/ Z.testbit old 3 = true.
Proof.
  unfold unlock_try_cas2.
  change (nsync_mu_unlock_cas2_guard old) with
    (negb (negb (wrap_u 32 (Z.land (wrap_u 32 (Z.land (wrap_u 32 (old - 1)) (4294967295 - 128))) 4294967041) =? 0))
     && negb (wrap_u 32 (Z.land old 12) =? 4)).
  intros G. apply andb_true_iff in G. destruct G as [_ G]. apply negb_true_iff, Z.eqb_neq in G.
  destruct (Z.testbit old 2) eqn:B2; [|now left]. destruct (Z.testbit old 3) eqn:B3; [now right|].
  elim G. now apply land12.
Qed.

Lemma land_field old : rng old -> Z.testbit old 7 = false ->
  wrap_u 32 (Z.land old 4294967168) = 256 * (old / 256).
Proof.
  intros R B7. unfold rng in R. set (X := Z.land old 4294967168).
  assert (0 <= X) as N by (apply Z.land_nonneg; lia).
  assert (X / 256 = old / 256) as D.
  { unfold X. rewrite land_div256. change (4294967168 / 256) with 16777215. apply land_ones24. lia. }
  assert (X mod 256 = 0) as M.
  { change 256 with (2 ^ 8). rewrite <- Z.land_ones by lia. unfold X. rewrite <- Z.land_assoc.
    change (Z.land 4294967168 (Z.ones 8)) with (2 ^ 7). rewrite land_pow2, B7 by lia. reflexivity. }
  rewrite wrap32 by (unfold rng; lia). lia.
Qed.

Lemma runlock_cas2_guard_flags old : rng old -> Z.testbit old 7 = false -> unlock_try_cas2 R old = true ->
  Z.testbit old 2 = false \/ Z.testbit old 3 = true \/ old / 256 <> 1.
Proof.
  intros R B7. unfold unlock_try_cas2.
  change (nsync_mu_runlock_cas2_guard old) with
    (negb (wrap_u 32 (Z.land (wrap_u 32 (Z.lxor old 1)) 4294967041) =? 0)
     && negb ((wrap_u 32 (Z.land old 12) =? 4) && (wrap_u 32 (Z.land old 4294967168) =? 256))).
  intros G. apply andb_true_iff in G. destruct G as [_ G]. apply negb_true_iff, andb_false_iff in G.
  destruct (Z.testbit old 2) eqn:B2; [|now left]. destruct (Z.testbit old 3) eqn:B3; [now right; left|].
  right; right. destruct G as [G | G]; apply Z.eqb_neq in G.
  - elim G. now apply land12.
  - rewrite land_field in G by assumption. lia.
Qed.

Lemma unlock_slow_cas1_guard_flags old : rng old -> nsync_mu_unlock_slow_cas1_guard old = true ->
  Z.testbit old 2 = false \/ Z.testbit old 3 = true \/ 2 <= old / 256 \/ Z.testbit old 7 = true.
Proof.
  intros R.
  change (nsync_mu_unlock_slow_cas1_guard old) with
    ((((wrap_u 32 (Z.land old 4) =? 0) || negb (wrap_u 32 (Z.land old 8) =? 0))
       || (wrap_u 32 (Z.land old 4294967040) >? 256))
      || (wrap_u 32 (Z.land old 384) =? 384)).
  intros G. destruct (Z.testbit old 7) eqn:B7; [now right; right; right|].
  apply orb_true_iff in G. destruct G as [G | G].
  2:{ apply Z.eqb_eq in G. pose proof (tb_wrap (Z.land old 384) 7 ltac:(lia)) as T.
      rewrite G, Z.land_spec, B7 in T. discriminate T. }
  apply orb_true_iff in G. destruct G as [G | G].
  2:{ right; right; left. apply Z.gtb_lt in G.
      unfold rng in R. set (X := Z.land old 4294967040) in *.
      assert (0 <= X) as N by (apply Z.land_nonneg; lia).
      assert (X / 256 = old / 256) as D.
      { unfold X. rewrite land_div256. change (4294967040 / 256) with 16777215. apply land_ones24. lia. }
      assert (X mod 256 = 0) as M.
      { change 256 with (2 ^ 8). rewrite <- Z.land_ones by lia. unfold X. rewrite <- Z.land_assoc.
        change (Z.land 4294967040 (Z.ones 8)) with 0. apply Z.land_0_r. }
      rewrite wrap32 in G by (unfold rng; lia). lia. }
  apply orb_true_iff in G. destruct G as [G | G].
  - left. apply Z.eqb_eq in G. apply (zero_test_bit old 4 2); [lia | reflexivity | exact G].
  - right; left. apply negb_true_iff, Z.eqb_neq in G. apply (nonzero_test_bit old 3); [lia | exact G].
Qed.

(* ================================================================== *)
(* Part C: the hand-off invariant                                      *)
(* ================================================================== *)

Definition lsl_of (p : pc) : option lsl :=
  match p with
  | LsLoad _ l | LsCasAcq _ l _ | LsCasEnq _ l _ | LsStoreWaiting _ l | LsRelLoad _ l | LsRelCas _ l _
  | LsWaitLoad _ l | LsSemP _ l => Some l
  | _ => None
  end.

(* the thread carries MU_LONG_WAIT in its current nsync_mu_lock_slow_ call *)
Definition lw_pc (p : pc) : bool := match lsl_of p with Some l => longw l =? MU_LONG_WAIT | None => false end.

(* "responsible" threads: a releaser that has scanned the queue and still has somebody to wake, or a waiter
   that has been taken off the queue and told to go (waiting flag cleared) and has not yet acquired or re-queued *)
Definition agent_pc (p : pc) (wt : bool) : bool :=
  match p with
  | LsRelLoad _ _ | LsRelCas _ _ _ | LsWaitLoad _ _ | LsSemP _ _ => negb wt
  | LsLoad _ l | LsCasAcq _ l _ | LsCasEnq _ l _ => clr l =? MU_DESIG_WAKER
  | UsRelLoad _ _ | UsRelCas _ _ _ => true
  | UsWakeStore _ u | UsWakeV _ _ u => match wake u with [] => false | _ => true end
  | _ => false
  end.

Definition P (w : world) (t : nat) : pc := t_pc (get w t).
Definition agent (w : world) (t : nat) : Prop := agent_pc (P w t) (waiting w t) = true.

Definition zred (m : mode) : Z := band (lt_zero_to_acquire (lt_of m)) clr_mask.
Definition lslB (m : mode) (l : lsl) : Prop :=
  (longw l = MU_LONG_WAIT -> clr l = MU_DESIG_WAKER) /\ (clr l = MU_DESIG_WAKER -> zta l = zred m).
Definition uslB (u : usl) : Prop :=
  Z.testbit (clear_on u) 7 = true /\
  (Z.testbit (clear_on u) 2 = true -> Z.testbit (clear_on u) 5 = true) /\
  Z.testbit (set_on u) 6 = false.

Definition pcB (p : pc) : Prop :=
  match p with
  | LsLoad m l | LsCasAcq m l _ => lslB m l
  | LsCasEnq m l old => lslB m l /\ nsync_mu_lock_slow_cas2_guard old (zta l) = true
  | UlCas2 m old => unlock_try_cas2 m old = true
  | UsCasRel _ old => nsync_mu_unlock_slow_cas1_guard old = true
  | UsRelLoad _ u | UsRelCas _ u _ => uslB u
  | UsWakeStore _ u => wake u <> []
  | _ => True
  end.

Definition HInv (w : world) : Prop :=
  Z.testbit (word w) 7 = false /\
  (Z.testbit (word w) 5 = true -> Z.testbit (word w) 2 = true) /\
  (Z.testbit (word w) 6 = true -> exists T, lw_pc (P w T) = true) /\
  (Z.testbit (word w) 3 = true -> exists a, agent w a) /\
  (Z.testbit (word w) 2 = true -> free (word w) -> exists a, agent w a) /\
  (forall x, isq (kof w x) = true -> waiting w x = true ->
             In x (queue w) \/ exists t', In x (wl (kof w t'))) /\
  (forall x m l, P w x = LsSemP m l -> waiting w x = false ->
                 1 <= sem w x \/ exists t' m' u, P w t' = UsWakeV m' x u) /\
  (forall x, 0 <= sem w x) /\
  (forall x, pcB (P w x)) /\
  (Z.testbit (word w) 1 = true -> exists o, own (kof w o) = true).

Lemma kofP w x : kof w x = role_of (P w x).
Proof. reflexivity. Qed.

Lemma upd_P w w' t s' : (t < length (thr w))%nat -> thr w' = lupd (thr w) t s' ->
  P w' t = t_pc s' /\ forall x, x <> t -> P w' x = P w x.
Proof.
  intros Ht E. unfold P, get. rewrite E. split.
  - rewrite nth_lupd_same by exact Ht. reflexivity.
  - intros x N. rewrite nth_lupd_other by exact N. reflexivity.
Qed.

Lemma agent_pc_mono p : agent_pc p true = true -> agent_pc p false = true.
Proof. destruct p; cbn [agent_pc negb]; auto. Qed.

Lemma isq_agent p : isq (role_of p) = true -> agent_pc p false = true.
Proof. destruct p; cbn [role_of isq agent_pc negb]; intros H; first [discriminate H | reflexivity]. Qed.

(* the general step: queue, waiting flags and semaphores unchanged *)
Lemma HG w w' t s s' :
  HInv w -> (t < length (thr w))%nat -> get w t = s ->
  thr w' = lupd (thr w) t s' -> queue w' = queue w -> waiting w' = waiting w -> sem w' = sem w ->
  Z.testbit (word w') 7 = false ->
  (Z.testbit (word w') 5 = true -> Z.testbit (word w') 2 = true) ->
  (Z.testbit (word w') 6 = true ->
     lw_pc (t_pc s') = true \/ (lw_pc (t_pc s) = false /\ exists T, lw_pc (P w T) = true)) ->
  (Z.testbit (word w') 3 = true ->
     agent_pc (t_pc s') (waiting w t) = true \/ (agent_pc (t_pc s) (waiting w t) = false /\ exists a, agent w a)) ->
  (Z.testbit (word w') 2 = true -> free (word w') ->
     agent_pc (t_pc s') (waiting w t) = true \/ (agent_pc (t_pc s) (waiting w t) = false /\ exists a, agent w a)) ->
  wl (role_of (t_pc s')) = wl (role_of (t_pc s)) ->
  (isq (role_of (t_pc s')) = true -> isq (role_of (t_pc s)) = true) ->
  (forall m l, t_pc s' = LsSemP m l -> waiting w t = true \/ exists m0 l0, t_pc s = LsSemP m0 l0) ->
  (forall m x u, t_pc s <> UsWakeV m x u) ->
  pcB (t_pc s') ->
  (Z.testbit (word w') 1 = true ->
     own (role_of (t_pc s')) = true \/ (own (role_of (t_pc s)) = false /\ Z.testbit (word w) 1 = true)) ->
  HInv w'.
Proof.
  intros (H1 & H2 & H3 & H4 & H5 & H6 & H7 & H8 & H9 & H10) Ht Hs E Eq Ew Es C1 C2 C3 C4 C5 C6 C6' C7 C7' C9 C10.
  destruct (upd_P w w' t s' Ht E) as [Pt Po].
  assert (P w t = t_pc s) as Ps by (unfold P; now rewrite Hs).
  assert (agent_pc (t_pc s') (waiting w t) = true \/
          (agent_pc (t_pc s) (waiting w t) = false /\ exists a, agent w a) -> exists a, agent w' a) as AG.
  { intros [L | [Hf [a Ha]]].
    - exists t. unfold agent. rewrite Pt, Ew. exact L.
    - exists a. unfold agent in *. destruct (Nat.eq_dec a t) as [->|N].
      + rewrite Ps in Ha. congruence.
      + rewrite Ew, Po by exact N. exact Ha. }
  split; [exact C1|]. split; [exact C2|]. split; [|split; [|split; [|split; [|split; [|split]]]]].
  - intros B. destruct (C3 B) as [L | [Hf [T HT]]].
    + exists t. now rewrite Pt.
    + exists T. rewrite Po; [exact HT|]. intros ->. rewrite Ps in HT. congruence.
  - intros B. apply AG, C4, B.
  - intros B F. apply AG, C5; assumption.
  - intros x Ix Wx. rewrite Eq. rewrite Ew in Wx.
    assert (forall y, wl (kof w' y) = wl (kof w y)) as WL.
    { intros y. rewrite !kofP. destruct (Nat.eq_dec y t) as [->|N].
      - rewrite Pt, Ps. exact C6.
      - rewrite Po by exact N. reflexivity. }
    assert (isq (kof w x) = true) as Ix'.
    { rewrite kofP in *. destruct (Nat.eq_dec x t) as [->|N].
      - rewrite Pt in Ix. rewrite Ps. exact (C6' Ix).
      - rewrite Po in Ix by exact N. exact Ix. }
    destruct (H6 x Ix' Wx) as [Hq | [t' Ht']]; [left; exact Hq | right; exists t'; rewrite WL; exact Ht'].
  - intros x m l Px Wx. rewrite Es. rewrite Ew in Wx.
    assert (exists m0 l0, P w x = LsSemP m0 l0) as (m0 & l0 & Px0).
    { destruct (Nat.eq_dec x t) as [->|N].
      - rewrite Pt in Px. destruct (C7 m l Px) as [Wt | (m0 & l0 & E0)]; [congruence|].
        exists m0, l0. now rewrite Ps.
      - exists m, l. now rewrite <- (Po x N). }
    destruct (H7 x m0 l0 Px0 Wx) as [S | (t' & m' & u & Pt')]; [left; exact S | right].
    exists t', m', u. rewrite Po; [exact Pt'|]. intros ->. rewrite Ps in Pt'. exact (C7' _ _ _ Pt').
  - intros x. rewrite Es. apply H8.
  - split.
    + intros x. destruct (Nat.eq_dec x t) as [->|N]; [rewrite Pt; exact C9 | rewrite Po by exact N; apply H9].
    + intros B. destruct (C10 B) as [O | [O B']].
      * exists t. now rewrite kofP, Pt.
      * destruct (H10 B') as [o Ho]. exists o. rewrite kofP in *. rewrite Po; [exact Ho|].
        intros ->. rewrite Ps in Ho. congruence.
Qed.

(* a step that does not write the word *)
Lemma HG_local w w' t s s' :
  HInv w -> (t < length (thr w))%nat -> get w t = s ->
  thr w' = lupd (thr w) t s' -> word w' = word w -> queue w' = queue w -> waiting w' = waiting w -> sem w' = sem w ->
  (agent_pc (t_pc s) (waiting w t) = true -> agent_pc (t_pc s') (waiting w t) = true) ->
  (lw_pc (t_pc s) = true -> lw_pc (t_pc s') = true) ->
  wl (role_of (t_pc s')) = wl (role_of (t_pc s)) ->
  (isq (role_of (t_pc s')) = true -> isq (role_of (t_pc s)) = true) ->
  (forall m l, t_pc s' = LsSemP m l -> waiting w t = true \/ exists m0 l0, t_pc s = LsSemP m0 l0) ->
  (forall m x u, t_pc s <> UsWakeV m x u) ->
  pcB (t_pc s') -> own (role_of (t_pc s')) = own (role_of (t_pc s)) -> HInv w'.
Proof.
  intros HH Ht Hs E Ex Eq Ew Es CA CL C6 C6' C7 C7' C9 CO.
  pose proof HH as (H1 & H2 & H3 & H4 & H5 & _).
  apply (HG w w' t s s'); try assumption; rewrite ?Ex; try assumption.
  - intros B. destruct (H3 B) as [T HT]. destruct (lw_pc (t_pc s)) eqn:L; [left; auto | right; eauto].
  - intros B. destruct (H4 B) as [a Ha]. destruct (agent_pc (t_pc s) (waiting w t)) eqn:L; [left; auto | right; eauto].
  - intros B F. destruct (H5 B F) as [a Ha].
    destruct (agent_pc (t_pc s) (waiting w t)) eqn:L; [left; auto | right; eauto].
  - intros B. destruct (own (role_of (t_pc s))) eqn:O; [left; congruence | right; auto].
Qed.

(* the enqueuer puts itself on the queue and sets its waiting flag *)
Lemma H_S2 w w' t s s' m l :
  HInv w -> (t < length (thr w))%nat -> get w t = s ->
  thr w' = lupd (thr w) t s' -> word w' = word w ->
  (forall x, In x (queue w) -> In x (queue w')) -> In t (queue w') ->
  waiting w' = fupd (waiting w) t true -> sem w' = sem w ->
  t_pc s = LsStoreWaiting m l -> t_pc s' = LsRelLoad m l -> HInv w'.
Proof.
  intros (H1 & H2 & H3 & H4 & H5 & H6 & H7 & H8 & H9 & H10) Ht Hs E Ex Eq It Ew Es Ep Ep'.
  destruct (upd_P w w' t s' Ht E) as [Pt Po].
  assert (P w t = t_pc s) as Ps by (unfold P; now rewrite Hs).
  assert ((exists a, agent w a) -> exists a, agent w' a) as AG.
  { intros [a Ha]. exists a. unfold agent in *. destruct (Nat.eq_dec a t) as [->|N].
    - rewrite Ps, Ep in Ha. discriminate Ha.
    - rewrite Ew, fupd_other, Po by exact N. exact Ha. }
  unfold HInv. rewrite Ex. split; [exact H1|]. split; [exact H2|]. split; [|split; [|split; [|split; [|split; [|split]]]]].
  - intros B. destruct (H3 B) as [T HT]. destruct (Nat.eq_dec T t) as [->|N].
    + exists t. rewrite Pt, Ep'. rewrite Ps, Ep in HT. exact HT.
    + exists T. now rewrite Po.
  - intros B. auto.
  - intros B F. auto.
  - intros x Ix Wx. destruct (Nat.eq_dec x t) as [->|N]; [left; exact It|].
    rewrite Ew, fupd_other in Wx by exact N. rewrite kofP, Po in Ix by exact N.
    destruct (H6 x Ix Wx) as [Hq | [t' Ht']]; [left; auto | right].
    exists t'. rewrite kofP in *. destruct (Nat.eq_dec t' t) as [->|N'].
    + rewrite Ps, Ep in Ht'. destruct Ht'.
    + now rewrite Po.
  - intros x m0 l0 Px Wx. rewrite Es. destruct (Nat.eq_dec x t) as [->|N].
    { rewrite Pt, Ep' in Px. discriminate Px. }
    rewrite Ew, fupd_other in Wx by exact N. rewrite Po in Px by exact N.
    destruct (H7 x m0 l0 Px Wx) as [S | (t' & m' & u & Pt')]; [left; exact S | right].
    exists t', m', u. rewrite Po; [exact Pt'|]. intros ->. rewrite Ps, Ep in Pt'. discriminate Pt'.
  - intros x. rewrite Es. apply H8.
  - split.
    + intros x. destruct (Nat.eq_dec x t) as [->|N]; [rewrite Pt, Ep'; exact I | rewrite Po by exact N; apply H9].
    + intros B. destruct (H10 B) as [o Ho]. exists o. rewrite kofP in *.
      destruct (Nat.eq_dec o t) as [->|N]; [rewrite Pt, Ep'; reflexivity | now rewrite Po].
Qed.

(* a successful semaphore P *)
Lemma H_P w w' t s s' m l :
  HInv w -> (t < length (thr w))%nat -> get w t = s ->
  thr w' = lupd (thr w) t s' -> word w' = word w -> queue w' = queue w -> waiting w' = waiting w ->
  sem w' = fupd (sem w) t (sem w t - 1) -> 0 < sem w t ->
  t_pc s = LsSemP m l -> t_pc s' = LsWaitLoad m l -> HInv w'.
Proof.
  intros (H1 & H2 & H3 & H4 & H5 & H6 & H7 & H8 & H9 & H10) Ht Hs E Ex Eq Ew Es Hp Ep Ep'.
  destruct (upd_P w w' t s' Ht E) as [Pt Po].
  assert (P w t = t_pc s) as Ps by (unfold P; now rewrite Hs).
  assert ((exists a, agent w a) -> exists a, agent w' a) as AG.
  { intros [a Ha]. exists a. unfold agent in *. rewrite Ew. destruct (Nat.eq_dec a t) as [->|N].
    - rewrite Ps, Ep in Ha. rewrite Pt, Ep'. exact Ha.
    - rewrite Po by exact N. exact Ha. }
  unfold HInv. rewrite Ex. split; [exact H1|]. split; [exact H2|]. split; [|split; [|split; [|split; [|split; [|split]]]]].
  - intros B. destruct (H3 B) as [T HT]. destruct (Nat.eq_dec T t) as [->|N].
    + exists t. rewrite Pt, Ep'. rewrite Ps, Ep in HT. exact HT.
    + exists T. now rewrite Po.
  - auto.
  - auto.
  - intros x Ix Wx. rewrite Eq. rewrite Ew in Wx.
    assert (forall y, kof w' y = kof w y) as K.
    { intros y. rewrite !kofP. destruct (Nat.eq_dec y t) as [->|N]; [now rewrite Pt, Ps, Ep, Ep' | now rewrite Po]. }
    rewrite K in Ix. destruct (H6 x Ix Wx) as [Hq | [t' Ht']]; [left; auto | right; exists t'; now rewrite K].
  - intros x m0 l0 Px Wx. destruct (Nat.eq_dec x t) as [->|N].
    { rewrite Pt, Ep' in Px. discriminate Px. }
    rewrite Ew in Wx. rewrite Po in Px by exact N. rewrite Es, fupd_other by exact N.
    destruct (H7 x m0 l0 Px Wx) as [S | (t' & m' & u & Pt')]; [left; exact S | right].
    exists t', m', u. rewrite Po; [exact Pt'|]. intros ->. rewrite Ps, Ep in Pt'. discriminate Pt'.
  - intros x. rewrite Es. unfold fupd. destruct (Nat.eqb x t); [lia | apply H8].
  - split.
    + intros x. destruct (Nat.eq_dec x t) as [->|N]; [rewrite Pt, Ep'; exact I | rewrite Po by exact N; apply H9].
    + intros B. destruct (H10 B) as [o Ho]. exists o. rewrite kofP in *.
      destruct (Nat.eq_dec o t) as [->|N]; [rewrite Ps, Ep in Ho; discriminate Ho | now rewrite Po].
Qed.

(* the releaser takes the spinlock, gives up the lock and scans the queue *)
Lemma H_S5 w w' t s s' m old u :
  HInv w -> (t < length (thr w))%nat -> get w t = s ->
  thr w' = lupd (thr w) t s' -> Permutation (wake u ++ queue w') (queue w) ->
  waiting w' = waiting w -> sem w' = sem w ->
  (forall k, k = 2 \/ k = 5 \/ k = 6 \/ k = 7 -> Z.testbit (word w') k = Z.testbit (word w) k) ->
  t_pc s = UsCasSpin m old -> t_pc s' = UsRelLoad m u -> uslB u -> HInv w'.
Proof.
  intros (H1 & H2 & H3 & H4 & H5 & H6 & H7 & H8 & H9 & H10) Ht Hs E Pq Ew Es Eb Ep Ep' Hu.
  destruct (upd_P w w' t s' Ht E) as [Pt Po].
  assert (P w t = t_pc s) as Ps by (unfold P; now rewrite Hs).
  assert (exists a, agent w' a) as AG.
  { exists t. unfold agent. rewrite Pt, Ep'. reflexivity. }
  unfold HInv. rewrite (Eb 7), (Eb 5), (Eb 2), (Eb 6) by tauto.
  split; [exact H1|]. split; [exact H2|]. split; [|split; [|split; [|split; [|split; [|split]]]]].
  - intros B. destruct (H3 B) as [T HT]. exists T. rewrite Po; [exact HT|].
    intros ->. rewrite Ps, Ep in HT. discriminate HT.
  - auto.
  - auto.
  - intros x Ix Wx. rewrite Ew in Wx. destruct (Nat.eq_dec x t) as [->|N].
    { rewrite kofP, Pt, Ep' in Ix. discriminate Ix. }
    rewrite kofP, Po in Ix by exact N.
    destruct (H6 x Ix Wx) as [Hq | [t' Ht']].
    + apply (Permutation_in _ (Permutation_sym Pq)), in_app_or in Hq. destruct Hq as [Hq | Hq]; [right | left; exact Hq].
      exists t. rewrite kofP, Pt, Ep'. exact Hq.
    + right. exists t'. rewrite kofP in *. destruct (Nat.eq_dec t' t) as [->|N'].
      * rewrite Ps, Ep in Ht'. destruct Ht'.
      * now rewrite Po.
  - intros x m0 l0 Px Wx. rewrite Es. destruct (Nat.eq_dec x t) as [->|N].
    { rewrite Pt, Ep' in Px. discriminate Px. }
    rewrite Ew in Wx. rewrite Po in Px by exact N.
    destruct (H7 x m0 l0 Px Wx) as [S | (t' & m' & u' & Pt')]; [left; exact S | right].
    exists t', m', u'. rewrite Po; [exact Pt'|]. intros ->. rewrite Ps, Ep in Pt'. discriminate Pt'.
  - intros x. rewrite Es. apply H8.
  - split.
    + intros x. destruct (Nat.eq_dec x t) as [->|N]; [rewrite Pt, Ep'; exact Hu | rewrite Po by exact N; apply H9].
    + intros _. exists t. rewrite kofP, Pt, Ep'. reflexivity.
Qed.

(* the waker clears the waiting flag of the next waiter on its list *)
Lemma H_S7 w w' t s s' m u u' p :
  HInv w -> (t < length (thr w))%nat -> get w t = s ->
  thr w' = lupd (thr w) t s' -> word w' = word w -> queue w' = queue w ->
  waiting w' = fupd (waiting w) p false -> sem w' = sem w ->
  t_pc s = UsWakeStore m u -> wake u = p :: wake u' -> t_pc s' = UsWakeV m p u' ->
  isq (kof w p) = true -> HInv w'.
Proof.
  intros (H1 & H2 & H3 & H4 & H5 & H6 & H7 & H8 & H9 & H10) Ht Hs E Ex Eq Ew Es Ep Eu Ep' Ip.
  destruct (upd_P w w' t s' Ht E) as [Pt Po].
  assert (P w t = t_pc s) as Ps by (unfold P; now rewrite Hs).
  assert (p <> t) as Npt.
  { intros ->. rewrite kofP, Ps, Ep in Ip. discriminate Ip. }
  assert (exists a, agent w' a) as AG.
  { exists p. unfold agent. rewrite Ew, fupd_same, Po by exact Npt. apply isq_agent. exact Ip. }
  unfold HInv. rewrite Ex. split; [exact H1|]. split; [exact H2|]. split; [|split; [|split; [|split; [|split; [|split]]]]].
  - intros B. destruct (H3 B) as [T HT]. exists T. rewrite Po; [exact HT|].
    intros ->. rewrite Ps, Ep in HT. discriminate HT.
  - auto.
  - auto.
  - intros x Ix Wx. rewrite Eq. destruct (Nat.eq_dec x p) as [->|Nxp].
    { rewrite Ew, fupd_same in Wx. discriminate Wx. }
    rewrite Ew, fupd_other in Wx by exact Nxp. destruct (Nat.eq_dec x t) as [->|N].
    { rewrite kofP, Pt, Ep' in Ix. discriminate Ix. }
    rewrite kofP, Po in Ix by exact N.
    destruct (H6 x Ix Wx) as [Hq | [t' Ht']]; [left; exact Hq | right].
    exists t'. rewrite kofP in *. destruct (Nat.eq_dec t' t) as [->|N'].
    + rewrite Ps, Ep in Ht'. cbn [role_of wl] in Ht'. rewrite Eu in Ht'. destruct Ht' as [<- | Ht']; [now elim Nxp|].
      rewrite Pt, Ep'. exact Ht'.
    + now rewrite Po.
  - intros x m0 l0 Px Wx. rewrite Es. destruct (Nat.eq_dec x t) as [->|N].
    { rewrite Pt, Ep' in Px. discriminate Px. }
    rewrite Po in Px by exact N. destruct (Nat.eq_dec x p) as [->|Nxp].
    { right. exists t, m, u'. now rewrite Pt. }
    rewrite Ew, fupd_other in Wx by exact Nxp.
    destruct (H7 x m0 l0 Px Wx) as [S | (t' & m' & u0 & Pt')]; [left; exact S | right].
    exists t', m', u0. rewrite Po; [exact Pt'|]. intros ->. rewrite Ps, Ep in Pt'. discriminate Pt'.
  - intros x. rewrite Es. apply H8.
  - split.
    + intros x. destruct (Nat.eq_dec x t) as [->|N]; [rewrite Pt, Ep'; exact I | rewrite Po by exact N; apply H9].
    + intros B. destruct (H10 B) as [o Ho]. exists o. rewrite kofP in *.
      destruct (Nat.eq_dec o t) as [->|N]; [rewrite Ps, Ep in Ho; discriminate Ho | now rewrite Po].
Qed.

(* the waker posts the semaphore of the waiter whose flag it has cleared *)
Lemma H_S8 w w' t s s' m u p :
  HInv w -> (t < length (thr w))%nat -> get w t = s ->
  thr w' = lupd (thr w) t s' -> word w' = word w -> queue w' = queue w ->
  waiting w' = waiting w -> sem w' = fupd (sem w) p (sem w p + 1) ->
  t_pc s = UsWakeV m p u -> t_pc s' = match wake u with [] => Idle | _ => UsWakeStore m u end -> HInv w'.
Proof.
  intros (H1 & H2 & H3 & H4 & H5 & H6 & H7 & H8 & H9 & H10) Ht Hs E Ex Eq Ew Es Ep Ep'.
  destruct (upd_P w w' t s' Ht E) as [Pt Po].
  assert (P w t = t_pc s) as Ps by (unfold P; now rewrite Hs).
  assert (forall y, kof w' y = kof w y) as K.
  { intros y. rewrite !kofP. destruct (Nat.eq_dec y t) as [->|N]; [|now rewrite Po].
    rewrite Pt, Ps, Ep, Ep'. destruct (wake u) eqn:Eu; cbn [role_of]; now rewrite ?Eu. }
  assert ((exists a, agent w a) -> exists a, agent w' a) as AG.
  { intros [a Ha]. exists a. unfold agent in *. rewrite Ew. destruct (Nat.eq_dec a t) as [->|N].
    - rewrite Ps, Ep in Ha. rewrite Pt, Ep'. cbn [agent_pc] in Ha.
      destruct (wake u) eqn:Eu; [discriminate Ha|]. cbn [agent_pc]. now rewrite Eu.
    - rewrite Po by exact N. exact Ha. }
  assert (forall x, sem w x <= sem w' x) as SM.
  { intros x. rewrite Es. unfold fupd. destruct (Nat.eqb_spec x p) as [->|]; lia. }
  unfold HInv. rewrite Ex. split; [exact H1|]. split; [exact H2|]. split; [|split; [|split; [|split; [|split; [|split]]]]].
  - intros B. destruct (H3 B) as [T HT]. exists T. rewrite Po; [exact HT|].
    intros ->. rewrite Ps, Ep in HT. discriminate HT.
  - auto.
  - auto.
  - intros x Ix Wx. rewrite Eq. rewrite Ew in Wx. rewrite K in Ix.
    destruct (H6 x Ix Wx) as [Hq | [t' Ht']]; [left; auto | right; exists t'; now rewrite K].
  - intros x m0 l0 Px Wx. rewrite Ew in Wx. destruct (Nat.eq_dec x t) as [->|N].
    { rewrite Pt, Ep' in Px. destruct (wake u); discriminate Px. }
    rewrite Po in Px by exact N.
    destruct (H7 x m0 l0 Px Wx) as [S | (t' & m' & u0 & Pt')].
    + left. specialize (SM x). lia.
    + destruct (Nat.eq_dec t' t) as [->|N'].
      * rewrite Ps, Ep in Pt'. injection Pt' as _ <- _. left. rewrite Es, fupd_same. specialize (H8 p). lia.
      * right. exists t', m', u0. now rewrite Po.
  - intros x. specialize (SM x). specialize (H8 x). lia.
  - split.
    + intros x. destruct (Nat.eq_dec x t) as [->|N]; [|rewrite Po by exact N; apply H9].
      rewrite Pt, Ep'. destruct (wake u) eqn:Eu; cbn [pcB]; [exact I | rewrite Eu; discriminate].
    + intros B. destruct (H10 B) as [o Ho]. exists o. rewrite kofP in *.
      destruct (Nat.eq_dec o t) as [->|N]; [rewrite Ps, Ep in Ho; discriminate Ho | now rewrite Po].
Qed.

(* a step whose CAS only clears flag bits (mask c) besides changing the lock view *)
Lemma HG_clear w w' t s s' c :
  HInv w -> (t < length (thr w))%nat -> get w t = s ->
  thr w' = lupd (thr w) t s' -> queue w' = queue w -> waiting w' = waiting w -> sem w' = sem w ->
  (forall k, 1 <= k < 8 -> Z.testbit (word w') k = Z.testbit (word w) k && negb (Z.testbit c k)) ->
  Z.testbit c 2 = false ->
  (lw_pc (t_pc s) = true -> Z.testbit c 6 = true \/ lw_pc (t_pc s') = true) ->
  (agent_pc (t_pc s) (waiting w t) = true -> Z.testbit c 3 = true \/ agent_pc (t_pc s') (waiting w t) = true) ->
  (Z.testbit (word w) 2 = true -> free (word w') ->
     agent_pc (t_pc s') (waiting w t) = true \/ (agent_pc (t_pc s) (waiting w t) = false /\ exists a, agent w a)) ->
  wl (role_of (t_pc s')) = wl (role_of (t_pc s)) ->
  (isq (role_of (t_pc s')) = true -> isq (role_of (t_pc s)) = true) ->
  (forall m l, t_pc s' = LsSemP m l -> waiting w t = true \/ exists m0 l0, t_pc s = LsSemP m0 l0) ->
  (forall m x u, t_pc s <> UsWakeV m x u) ->
  pcB (t_pc s') ->
  (own (role_of (t_pc s)) = true -> Z.testbit c 1 = true \/ own (role_of (t_pc s')) = true) -> HInv w'.
Proof.
  intros HH Ht Hs E Eq Ew Es FB C2 CL CA C5 C6 C6' C7 C7' C9 CO.
  pose proof HH as (H1 & H2 & H3 & H4 & H5 & _).
  apply (HG w w' t s s'); try assumption.
  - rewrite FB, H1 by lia. reflexivity.
  - rewrite !FB by lia. intros B. apply andb_true_iff in B. destruct B as [B _].
    rewrite (H2 B), C2. reflexivity.
  - rewrite FB by lia. intros B. apply andb_true_iff in B. destruct B as [B B'].
    destruct (H3 B) as [T HT]. destruct (lw_pc (t_pc s)) eqn:L; [|right; eauto].
    destruct (CL eq_refl) as [X | X]; [rewrite X in B'; discriminate B' | now left].
  - rewrite FB by lia. intros B. apply andb_true_iff in B. destruct B as [B B'].
    destruct (H4 B) as [a Ha]. destruct (agent_pc (t_pc s) (waiting w t)) eqn:L; [|right; eauto].
    destruct (CA eq_refl) as [X | X]; [rewrite X in B'; discriminate B' | now left].
  - rewrite FB by lia. intros B. apply andb_true_iff in B. destruct B as [B _]. apply C5, B.
  - rewrite FB by lia. intros B. apply andb_true_iff in B. destruct B as [B B'].
    destruct (own (role_of (t_pc s))) eqn:O; [|right; auto].
    destruct (CO eq_refl) as [X | X]; [rewrite X in B'; discriminate B' | now left].
Qed.

Lemma wl_agent x p wt : In x (wl (role_of p)) -> agent_pc p wt = true.
Proof.
  destruct p; cbn [role_of wl agent_pc]; try (intros []; fail);
    (intros H; destruct (wake u); [destruct H | reflexivity]).
Qed.

(* with the lock free and the spinlock free, a long waiter is (or is in the hands of) an agent *)
Lemma lw_gives_agent w T : QInv w -> HInv w -> tb1 (word w) = false -> free (word w) ->
  lw_pc (P w T) = true -> exists a, agent w a.
Proof.
  intros (HQL & HQB & _) (H1 & H2 & H3 & H4 & H5 & H6 & H7 & H8 & H9 & H10) S F L.
  destruct HQL as (_ & Hq & _). destruct HQB as (B1 & _ & _ & _ & Q5a & _).
  assert (own (kof w T) = true -> False) as NO.
  { intros O. apply B1 in O. congruence. }
  specialize (H9 T). pose proof (H6 T) as H6T. rewrite kofP in *. unfold agent at 1.
  destruct (P w T) eqn:PT; try discriminate L; unfold lw_pc in L; cbn [lsl_of] in L; apply Z.eqb_eq in L;
    cbn [role_of own isq pcB] in *; try (elim NO; reflexivity).
  - exists T. unfold agent. rewrite PT. cbn [agent_pc]. apply Z.eqb_eq. apply H9, L.
  - exists T. unfold agent. rewrite PT. cbn [agent_pc]. apply Z.eqb_eq. apply H9, L.
  - exists T. unfold agent. rewrite PT. cbn [agent_pc]. apply Z.eqb_eq. apply (proj1 H9), L.
  - destruct (waiting w T) eqn:WT.
    + destruct (H6T eq_refl eq_refl) as [Hq' | [t' Ht']].
      * apply H5; [|exact F]. apply Q5a. intros E. rewrite E in Hq'. destruct Hq'.
      * exists t'. unfold agent. eapply wl_agent. exact Ht'.
    + exists T. unfold agent. rewrite PT, WT. reflexivity.
  - destruct (waiting w T) eqn:WT.
    + destruct (H6T eq_refl eq_refl) as [Hq' | [t' Ht']].
      * apply H5; [|exact F]. apply Q5a. intros E. rewrite E in Hq'. destruct Hq'.
      * exists t'. unfold agent. eapply wl_agent. exact Ht'.
    + exists T. unfold agent. rewrite PT, WT. reflexivity.
Qed.

(* ----- the scan never leaves MU_ALL_FALSE set in a condition-free queue ----- *)
Lemma band_clear_af x : band (band x (bnot32 MU_ALL_FALSE)) MU_ALL_FALSE = 0.
Proof.
  unfold band. rewrite <- Z.land_assoc. change (Z.land (bnot32 MU_ALL_FALSE) MU_ALL_FALSE) with 0. apply Z.land_0_r.
Qed.

Lemma scan_af ty q : forall wt wk keep s,
  (keep <> [] -> band s MU_ALL_FALSE = 0) ->
  snd (fst (scan ty q wt wk keep s)) <> [] -> band (snd (scan ty q wt wk keep s)) MU_ALL_FALSE = 0.
Proof.
  induction q as [|p rest IH]; intros wt wk keep s H; cbn [scan].
  - exact H.
  - destruct wt as [[|]|].
    + cbn [fst snd]. intros _. apply band_clear_af.
    + destruct (mode_eqb (ty p) R).
      * apply IH. exact H.
      * apply IH. intros _. apply band_clear_af.
    + apply IH. exact H.
Qed.

Lemma us_after_scan_B w u keep : us_after_scan w = (u, keep) -> uslB u.
Proof.
  unfold us_after_scan.
  pose proof (scan_af (wtype w) (queue w) None [] [] MU_ALL_FALSE ltac:(intros X; now elim X)) as AF.
  pose proof (scan_pres (fun s => Z.testbit s 6 = false) (wtype w) (queue w)) as Hs.
  specialize (Hs ltac:(intros s A; unfold band; rewrite Z.land_spec, A; reflexivity)).
  specialize (Hs ltac:(intros s A; unfold band, bor; rewrite Z.land_spec, Z.lor_spec, A; reflexivity)).
  specialize (Hs None [] [] MU_ALL_FALSE eq_refl).
  destruct (scan (wtype w) (queue w) None [] [] MU_ALL_FALSE) as [[wk kp] so].
  cbn [fst snd] in *. cbv beta iota zeta. intros E. injection E as <- <-.
  unfold uslB; cbn [set_on clear_on]. split; [|split; [|exact Hs]].
  - destruct kp as [|k0 kp].
    + destruct wk, (band so MU_ALL_FALSE =? 0); reflexivity.
    + rewrite AF by discriminate. cbn [Z.eqb]. destruct wk; reflexivity.
  - destruct kp, wk, (band so MU_ALL_FALSE =? 0); intros H; first [reflexivity | discriminate H].
Qed.

Lemma lslB_init m : lslB m (ls_init m).
Proof. split; cbn [ls_init longw clr]; intros X; discriminate X. Qed.

Lemma lslB_next m l lw wc : zta_ok m (zta l) ->
  lslB m (mk_lsl (band (zta l) (bnot32 (bor MU_WRITER_WAITING MU_LONG_WAIT))) MU_DESIG_WAKER lw wc).
Proof.
  intros Hz. split; cbn [longw clr zta]; intros _; [reflexivity|].
  destruct Hz as [-> | ->]; destruct m; reflexivity.
Qed.

Lemma fb_ufast m k : 1 <= k < 8 ->
  Z.testbit (ufast_new m) k = Z.testbit (ufast_old m) k && negb (Z.testbit 0 k).
Proof.
  intros H. rewrite fb_ufast_new.
  assert (k = 1 \/ k = 2 \/ k = 3 \/ k = 4 \/ k = 5 \/ k = 6 \/ k = 7) as D by lia.
  destruct m; repeat (destruct D as [-> | D]; [reflexivity|]); subst k; reflexivity.
Qed.

Lemma fb_fast_new' m k : 1 <= k < 8 -> Z.testbit (fast_new m) k = Z.testbit 0 k && negb (Z.testbit 0 k).
Proof. intros H. rewrite fb_fast_new by exact H. now rewrite Z.bits_0. Qed.
Lemma fb_try_new' m k : 1 <= k < 8 -> Z.testbit (try_new m) k = Z.testbit 0 k && negb (Z.testbit 0 k).
Proof. intros H. rewrite fb_try_new by exact H. now rewrite Z.bits_0. Qed.

(* an acquiring / releasing step changes the lock view *)
Lemma trans_acq_not_free x x' m : rng x -> trans x None x' (Some m) -> ~ free x'.
Proof. intros R [_ T] [F1 F2]. unfold rng in R. destruct m; lia. Qed.

Ltac h_local HH Ht Hs :=
  eapply HG_local;
  [ exact HH | exact Ht | exact Hs | reflexivity | reflexivity | reflexivity | reflexivity | reflexivity
  | cbn [t_pc agent_pc] | cbn [t_pc lw_pc lsl_of] | cbn [t_pc role_of wl] | cbn [t_pc role_of isq]
  | cbn [t_pc]; intros ? ? EE; try discriminate EE | cbn [t_pc]; intros ? ? ? EE; try discriminate EE
  | cbn [t_pc pcB] | cbn [t_pc role_of own] ];
  try solve [intros; first [assumption | reflexivity | exact I | congruence]].

Lemma begin_op_hinv w t : HInv w -> HInv (begin_op w t).
Proof.
  intros HH. unfold begin_op. cbv zeta.
  destruct (Nat.lt_ge_cases t (length (thr w))) as [Ht|Ht].
  2:{ rewrite get_oob by exact Ht. exact HH. }
  destruct (get w t) as [p ops h sl lt] eqn:Hs. cbn [t_pc t_ops held sleeps last_try].
  destruct p; try exact HH. destruct ops as [|o rest]; try exact HH.
  unfold set_t. h_local HH Ht Hs; destruct o, h; cbn; intros; first [exact I | reflexivity | congruence].
Qed.

(* ================================================================== *)
(* Part D: preservation by [step]                                      *)
(* ================================================================== *)

Ltac fin := try solve [intros; first [assumption | reflexivity | exact I | congruence]].

Ltac h_clear HH Ht Hs c :=
  eapply (HG_clear _ _ _ _ _ c);
  [ exact HH | exact Ht | exact Hs | reflexivity | reflexivity | reflexivity | reflexivity
  | cbn [word]; intros k Hk | idtac
  | cbn [t_pc lw_pc lsl_of] | cbn [t_pc agent_pc] | cbn [word t_pc agent_pc]; intros B2 F
  | cbn [t_pc role_of wl] | cbn [t_pc role_of isq]
  | cbn [t_pc]; intros ? ? EE; try discriminate EE | cbn [t_pc]; intros ? ? ? EE; try discriminate EE
  | cbn [t_pc pcB] | cbn [t_pc role_of own] ]; fin.

Ltac h_gen HH Ht Hs :=
  eapply HG;
  [ exact HH | exact Ht | exact Hs | reflexivity | reflexivity | reflexivity | reflexivity
  | cbn [word] | cbn [word] | cbn [word t_pc lw_pc lsl_of] | cbn [word t_pc agent_pc] | cbn [word t_pc agent_pc]
  | cbn [t_pc role_of wl] | cbn [t_pc role_of isq]
  | cbn [t_pc]; intros ? ? EE; try discriminate EE | cbn [t_pc]; intros ? ? ? EE; try discriminate EE
  | cbn [t_pc pcB] | cbn [word t_pc role_of own] ].

Section HandoffInvariant.
Variable n : nat.
Hypothesis Hn : Z.of_nat n < 16777215.

Lemma step_hinv w0 t : Inv n w0 -> QInv w0 -> HInv w0 -> HInv (fst (step w0 t)).
Proof.
  intros H0 HQ HH.
  apply (begin_op_hinv _ t) in HH. apply (begin_op_qinv _ t) in HQ. apply (begin_op_inv _ _ t) in H0.
  unfold step. revert H0 HQ HH. generalize (begin_op w0 t). intros w H0 HQ HH. cbv zeta.
  destruct (Nat.lt_ge_cases t (length (thr w))) as [Ht|Ht].
  2:{ rewrite get_oob by exact Ht. exact HH. }
  pose proof H0 as (Hlen & (Rw & _ & _ & HX) & Hok). specialize (Hok t).
  pose proof (Inv_readers n Hn w H0) as Dw.
  pose proof (Inv_held n w t) as Hheld. specialize (fun m => Hheld m H0).
  pose proof HQ as (HQL & HQB & HA). specialize (HA t).
  pose proof HH as (H1 & H2 & H3 & H4 & H5 & H6 & H7 & H8 & H9 & H10). specialize (H9 t). unfold P in H9.
  destruct (get w t) as [p ops h sl lt] eqn:Hs.
  pose proof Hs as Hs'. unfold get in Hs'. rewrite Hs' in Hok.
  unfold pc_ok in Hok. cbn [t_pc t_ops held sleeps last_try] in *.
  destruct p as [ | m | m | m old | m | m | m old | m l | m l old | m l old | m l | m l | m l old | m l | m l
                | m | m | m old | m | m old | m old | m u | m u old | m u | m q u | why ].
  - (* Idle *) exact HH.
  - (* LkFast *) cas_split w; normt Hs' Ht.
    + h_clear HH Ht Hs 0.
      * rewrite Hcas. apply fb_fast_new'. exact Hk.
      * rewrite Hcas, Z.bits_0 in B2. discriminate B2.
    + h_local HH Ht Hs.
  - (* LkLoad *) destruct (fast_guard2 m (word w)) eqn:G; cbn [fst]; normt Hs' Ht; h_local HH Ht Hs.
    apply lslB_init.
  - (* LkCas2 *) destruct Hok as [_ G]. cas_split w; normt Hs' Ht.
    + subst old. h_clear HH Ht Hs (coa m).
      * apply fb_fast_new2; assumption.
      * destruct m; reflexivity.
      * exfalso. exact (trans_acq_not_free _ _ m Rw (fast_new2_trans m (word w) Rw Dw G) F).
    + h_local HH Ht Hs. apply lslB_init.
  - (* TryFast *) cas_split w; normt Hs' Ht.
    + h_clear HH Ht Hs 0.
      * rewrite Hcas. apply fb_try_new'. exact Hk.
      * rewrite Hcas, Z.bits_0 in B2. discriminate B2.
    + h_local HH Ht Hs.
  - (* TryLoad *) destruct (try_guard2 m (word w)) eqn:G; cbn [fst]; normt Hs' Ht; h_local HH Ht Hs.
  - (* TryCas2 *) destruct Hok as [_ G]. cas_split w; normt Hs' Ht.
    + subst old. h_clear HH Ht Hs (coa m).
      * apply fb_try_new2; assumption.
      * destruct m; reflexivity.
      * exfalso. exact (trans_acq_not_free _ _ m Rw (try_new2_trans m (word w) Rw Dw G) F).
    + h_local HH Ht Hs.
  - (* LsLoad *)
    destruct (nsync_mu_lock_slow_cas1_guard (word w) (zta l)) eqn:G1; cbn [fst].
    + normt Hs' Ht. h_local HH Ht Hs.
    + destruct (nsync_mu_lock_slow_cas2_guard (word w) (zta l)) eqn:G2; cbn [fst].
      * normt Hs' Ht. h_local HH Ht Hs. split; assumption.
      * exact HH.
  - (* LsCasAcq *) destruct Hok as (_ & Hl & G). cas_split w; normt Hs' Ht.
    + subst old. h_clear HH Ht Hs (Z.lor (Z.lor (clr l) (longw l)) (coa m)).
      * rewrite fb_lock_slow_cas1 by assumption. rewrite !Z.lor_spec. reflexivity.
      * rewrite !Z.lor_spec. destruct Hl as (_ & [-> | ->] & [-> | ->]); destruct m; reflexivity.
      * intros L. left. apply Z.eqb_eq in L. rewrite L, !Z.lor_spec.
        destruct Hl as (_ & [-> | ->] & _); destruct m; reflexivity.
      * intros L. left. apply Z.eqb_eq in L. rewrite L, !Z.lor_spec.
        destruct Hl as (_ & _ & [-> | ->]); destruct m; reflexivity.
      * exfalso. exact (trans_acq_not_free _ _ m Rw (lock_slow_cas1_trans m l (word w) Rw Dw Hl G) F).
    + h_local HH Ht Hs.
  - (* LsCasEnq *) destruct Hok as (_ & Hl). destruct H9 as [[LB1 LB2] G2]. cas_split w; normt Hs' Ht.
    + subst old. pose proof Hl as (Hz & Hc & Hlw). unfold MU_DESIG_WAKER, MU_LONG_WAIT in Hc, Hlw.
      h_gen HH Ht Hs; fin.
      * rewrite fb_lock_slow_cas2 by lia. change (Z.testbit 128 7) with true.
        rewrite orb_true_r. apply andb_false_r.
      * intros _. rewrite fb_lock_slow_cas2 by lia.
        destruct Hc as [-> | ->], m; cbn [sww]; tbc; rewrite ?orb_true_r; reflexivity.
      * rewrite fb_lock_slow_cas2 by lia. destruct Hlw as [Elw | Elw]; rewrite Elw.
        -- intros B. right. split; [reflexivity|]. apply H3.
           destruct (Z.testbit (word w) 6); [reflexivity | exfalso].
           destruct Hc as [Ec | Ec], m; rewrite Ec in B; vm_compute in B; discriminate B.
        -- intros _. left. reflexivity.
      * rewrite fb_lock_slow_cas2 by lia. destruct Hc as [Ec | Ec]; rewrite Ec.
        -- intros B. right. split; [reflexivity|]. apply H4.
           destruct (Z.testbit (word w) 3); [reflexivity | exfalso].
           destruct Hlw as [E | E], m; rewrite E in B; vm_compute in B; discriminate B.
        -- intros B. exfalso. replace (negb (Z.testbit 8 3 || Z.testbit 128 3)) with false in B by reflexivity.
           rewrite andb_false_r in B. discriminate B.
      * intros _ F. right.
        assert (free (word w)) as F0.
        { destruct (lock_slow_cas2_SL m l (word w) Rw Hl) as (_ & M & D). destruct F as [F1 F2]. split; lia. }
        destruct Hc as [Ec | Ec].
        -- split; [rewrite Ec; reflexivity|]. destruct Hz as [Ez | Ez]; rewrite Ez in G2.
           ++ destruct (enq_guard_fresh m (word w) Rw F0 G2) as [B6 | B5].
              ** destruct (H3 B6) as [T HT]. apply (lw_gives_agent w T HQ HH); auto.
              ** apply H5; [apply H2, B5 | exact F0].
           ++ elim (enq_guard_woken m (word w) Rw F0 G2).
        -- exfalso. rewrite (LB2 Ec) in G2. exact (enq_guard_woken m (word w) Rw F0 G2).
      * intros _. left. reflexivity.
    + h_local HH Ht Hs. split; assumption.
  - (* LsStoreWaiting *) cbn [fst]. normt Hs' Ht.
    eapply H_S2 with (m := m) (l := l);
      [ exact HH | exact Ht | exact Hs | reflexivity | reflexivity | cbn [queue] | cbn [queue]
      | reflexivity | reflexivity | reflexivity | reflexivity ].
    + intros x Hx. destruct (wcount l =? 0); [apply in_or_app; now left | now right].
    + destruct (wcount l =? 0); [apply in_or_app; right; now left | now left].
  - (* LsRelLoad *) cbn [fst]. normt Hs' Ht. h_local HH Ht Hs.
  - (* LsRelCas *) destruct Hok as (_ & Hl). cas_split w; normt Hs' Ht.
    + subst old. h_clear HH Ht Hs 2.
      * apply fb_release_spinlock. exact Hk.
      * intros X. right. exact X.
      * intros X. right. exact X.
      * assert (free (word w)) as F0.
        { destruct (release_spinlock_SL (word w) Rw) as (_ & M & D). destruct F as [F1 F2]. split; lia. }
        destruct (negb (waiting w t)); [now left | right; split; [reflexivity | apply H5; assumption]].
      * intros _. left. reflexivity.
    + h_local HH Ht Hs.
  - (* LsWaitLoad *) destruct Hok as (_ & Hl). destruct (waiting w t) eqn:Ew; cbn [fst]; normt Hs' Ht.
    + h_local HH Ht Hs. left. exact Ew.
    + h_local HH Ht Hs.
      * intros L. destruct (wrap_u 32 (wcount l + 1) =? LONG_WAIT_THRESHOLD); [reflexivity | exact L].
      * apply lslB_next. apply Hl.
  - (* LsSemP *) destruct (0 <? sem w t) eqn:Es; cbn [fst]; [| exact HH]. normt Hs' Ht.
    apply Z.ltb_lt in Es.
    eapply H_P with (m := m) (l := l);
      [ exact HH | exact Ht | exact Hs | reflexivity | reflexivity | reflexivity | reflexivity | reflexivity
      | exact Es | reflexivity | reflexivity ].
  - (* UlFast *) subst h. specialize (Hheld m eq_refl). cas_split w; normt Hs' Ht.
    + h_clear HH Ht Hs 0.
      * rewrite Hcas. apply fb_ufast. exact Hk.
      * rewrite Hcas in B2. destruct m; vm_compute in B2; discriminate B2.
    + h_local HH Ht Hs.
  - (* UlLoad *)
    destruct (unlock_try_cas2 m (word w)) eqn:G; [| destruct (unlock_bad m (word w))]; cbn [fst];
      normt Hs' Ht; h_local HH Ht Hs.
  - (* UlCas2 *) subst h. specialize (Hheld m eq_refl). cas_split w; normt Hs' Ht.
    + subst old. h_clear HH Ht Hs (cur m).
      * apply fb_unlock_new2; assumption.
      * destruct m; reflexivity.
      * right. split; [reflexivity|]. destruct m.
        -- destruct (unlock_cas2_guard_flags _ H9) as [X | X]; [congruence | apply H4, X].
        -- destruct (runlock_cas2_guard_flags _ Rw H1 H9) as [X | [X | X]]; [congruence | apply H4, X | exfalso].
           destruct (unlock_new2_trans R (word w) Rw Hheld) as [_ [_ D]]. destruct F as [_ F2]. lia.
    + h_local HH Ht Hs.
  - (* UsLoad *)
    destruct (has (word w) MU_CONDITION);
      [| destruct (nsync_mu_unlock_slow_cas1_guard (word w)) eqn:G1;
         [| destruct (nsync_mu_unlock_slow_cas2_guard (word w)) eqn:G2]]; cbn [fst];
      try exact HH; normt Hs' Ht; h_local HH Ht Hs.
  - (* UsCasRel *) subst h. specialize (Hheld m eq_refl). cas_split w; normt Hs' Ht.
    + subst old. h_clear HH Ht Hs (cur m).
      * apply fb_unlock_slow_cas1; assumption.
      * destruct m; reflexivity.
      * right. split; [reflexivity|].
        destruct (unlock_slow_cas1_guard_flags _ Rw H9) as [X | [X | [X | X]]];
          [congruence | apply H4, X | exfalso | congruence].
        destruct (unlock_slow_cas1_trans m (word w) Rw Hheld) as [_ T]. destruct F as [F1 F2].
        destruct m; lia.
    + h_local HH Ht Hs.
  - (* UsCasSpin *) subst h. specialize (Hheld m eq_refl). cas_split w.
    + destruct (us_after_scan _) as [u keep] eqn:E.
      pose proof (us_after_scan_B _ _ _ E) as HB.
      apply us_after_scan_facts in E. cbn [queue set_word] in E. destruct E as (Pm & _).
      cbn [fst]. normt Hs' Ht. subst old.
      eapply H_S5 with (m := m) (old := word w) (u := u);
        [ exact HH | exact Ht | exact Hs | reflexivity | cbn [queue]; exact Pm | reflexivity | reflexivity
        | cbn [word]; intros k Hk | reflexivity | reflexivity | exact HB ].
      destruct Hk as [-> | [-> | [-> | ->]]]; rewrite fb_unlock_slow_cas2 by (first [exact Hheld | lia]);
        tbc; rewrite !orb_false_r; reflexivity.
    + normt Hs' Ht. h_local HH Ht Hs.
  - (* UsRelLoad *) cbn [fst]. normt Hs' Ht. h_local HH Ht Hs.
  - (* UsRelCas *) destruct Hok as (_ & (Hlate & _)). cas_split w; normt Hs' Ht.
    + subst old. destruct HA as (Nw & C1 & S1 & S2). destruct H9 as (U7 & U25 & U6). unfold tb2 in S2.
      assert (kof w t = Rrel (wake u) (tb2 (clear_on u))) as Kt by (unfold kof; rewrite Hs; reflexivity).
      destruct (wake u) as [|p0 r0] eqn:Ew; [now elim Nw|].
      h_gen HH Ht Hs; fin.
      * rewrite fb_unlock_slow_cas3 by (auto; lia). rewrite U7. apply andb_false_r.
      * rewrite !fb_unlock_slow_cas3 by (auto; lia). intros B. apply andb_true_iff in B. destruct B as [B B'].
        destruct (Z.testbit (clear_on u) 2) eqn:C2.
        { rewrite (U25 eq_refl) in B'. discriminate B'. }
        rewrite S2, orb_false_r, andb_true_r.
        destruct HQB as (_ & _ & C & _ & Q5a & _). apply Q5a. intros Eq.
        specialize (C t (tb2 (clear_on u))). rewrite Kt in C. apply (proj2 (C eq_refl)) in Eq.
        unfold tb2 in Eq. congruence.
      * rewrite fb_unlock_slow_cas3 by (auto; lia). rewrite U6, orb_false_r. intros B.
        apply andb_true_iff in B. right. split; [reflexivity | apply H3, (proj1 B)].
      * intros _. left. rewrite Ew. reflexivity.
      * intros _ _. left. rewrite Ew. reflexivity.
      * rewrite fb_unlock_slow_cas3 by (auto; lia). unfold tb1 in C1. rewrite C1, andb_false_r. discriminate.
    + h_local HH Ht Hs.
  - (* UsWakeStore *) destruct (wake u) as [|p rest] eqn:Ew; [now elim H9|]. cbn [fst]. normt Hs' Ht.
    eapply H_S7 with (m := m) (u := u) (p := p) (u' := mk_usl rest (set_on u) (clear_on u) (late u));
      [ exact HH | exact Ht | exact Hs | reflexivity | reflexivity | reflexivity | reflexivity | reflexivity
      | reflexivity | exact Ew | reflexivity | ].
    destruct HQL as (_ & _ & _ & Hw & _). apply (Hw t p). unfold kof. rewrite Hs. cbn [t_pc role_of wl].
    rewrite Ew. now left.
  - (* UsWakeV *) cbn [fst]. normt Hs' Ht.
    eapply H_S8 with (m := m) (u := u) (p := q);
      [ exact HH | exact Ht | exact Hs | reflexivity | reflexivity | reflexivity | reflexivity | reflexivity
      | reflexivity | reflexivity ].
  - (* Crash *) exact HH.
Qed.

Lemma run_hinv sched : forall w, Inv n w -> QInv w -> HInv w ->
  Inv n (run w sched) /\ QInv (run w sched) /\ HInv (run w sched).
Proof.
  unfold run. induction sched as [|t rest IH]; intros w H HQ HH; cbn [fold_left]; [auto|].
  apply IH; [apply step_inv; assumption | eapply step_qinv; eassumption | apply step_hinv; assumption].
Qed.

End HandoffInvariant.

(* ================================================================== *)
(* Part E: the lemmas used by Props/Properties_C02b.v                  *)
(* ================================================================== *)

Lemma init_P progs x : P (init progs) x = Idle.
Proof.
  unfold P, get, init; cbn [thr].
  change dflt_t with ((fun p => mk_t Idle p None 0 None) []). rewrite map_nth. reflexivity.
Qed.

Lemma init_hinv progs : HInv (init progs).
Proof.
  unfold HInv. change (word (init progs)) with 0. rewrite !Z.bits_0.
  split; [reflexivity|]. split; [discriminate|]. split; [discriminate|]. split; [discriminate|].
  split; [discriminate|]. split; [|split; [|split; [|split]]].
  - intros x Ix. rewrite kofP, init_P in Ix. discriminate Ix.
  - intros x m l Px. rewrite init_P in Px. discriminate Px.
  - intros x. cbn. lia.
  - intros x. rewrite init_P. exact I.
  - discriminate.
Qed.

Lemma reachable_hinv progs sched : Z.of_nat (length progs) < 2 ^ 24 - 1 ->
  let w := run (init progs) sched in Inv (length progs) w /\ QInv w /\ HInv w.
Proof.
  intros H. apply (run_hinv (length progs) H); [apply init_inv | apply init_qinv | apply init_hinv].
Qed.

(* the thread sits in the semaphore P of nsync_mu_lock_slow_ with count 0 *)
Definition h_asleep (w : world) (t : nat) : Prop := snd (step w t) = EvBlocked.
(* the thread is idle and its program is exhausted *)
Definition h_done (w : world) (t : nat) : Prop := t_pc (get w t) = Idle /\ t_ops (get w t) = [].
Definition h_quiescent (w : world) : Prop := forall t, (t < nthreads w)%nat -> h_asleep w t \/ h_done w t.
(* the mode the sleeping call asked for *)
Definition h_wants (w : world) (t : nat) (m : mode) : Prop := exists l, t_pc (get w t) = LsSemP m l.

Lemma begin_op_semp w t m l : t_pc (get (begin_op w t) t) = LsSemP m l -> begin_op w t = w.
Proof.
  unfold begin_op. cbv zeta. destruct (t_pc (get w t)) eqn:Ep; try reflexivity.
  destruct (t_ops (get w t)) as [|o rest]; [reflexivity|]. intros H. exfalso.
  destruct (Nat.lt_ge_cases t (length (thr w))) as [L|G].
  - rewrite get_set_t_same in H by exact L. cbn [t_pc] in H. destruct o, (held (get w t)); discriminate H.
  - unfold get, set_t in H; cbn [thr] in H. rewrite nth_overflow in H by (now rewrite length_lupd).
    discriminate H.
Qed.

Lemma asleep_pc w t : h_asleep w t -> exists m l, P w t = LsSemP m l /\ (0 <? sem w t) = false.
Proof.
  unfold h_asleep, step. cbv zeta. intros B.
  destruct (t_pc (get (begin_op w t) t)) eqn:E1;
    try (revert B; unfold cas; brk; cbn [snd]; intros B; discriminate B).
  pose proof (begin_op_semp _ _ _ _ E1) as Eb. rewrite Eb in E1, B. exists m, l. split; [exact E1|].
  destruct (0 <? sem w t); [discriminate B | reflexivity].
Qed.

Lemma cnt_ex m l : 1 <= cnt m l -> exists t, pm m (nth t l dflt_t) = true.
Proof.
  unfold cnt. induction l as [|a l IH]; cbn [filter length]; [lia|].
  destruct (pm m a) eqn:E.
  - intros _. exists 0%nat. exact E.
  - intros H. destruct (IH H) as [t Ht]. exists (S t). exact Ht.
Qed.

Lemma not_free_holder n w : Inv n w -> ~ free (word w) -> exists t', holds w t' W \/ holds w t' R.
Proof.
  intros (_ & (Rx & HW & HR & _) & _) NF. unfold rng in Rx.
  pose proof (cnt_range W (thr w)). pose proof (cnt_range R (thr w)).
  assert (1 <= cnt W (thr w) \/ 1 <= cnt R (thr w)) as [C | C].
  { unfold free in NF. lia. }
  - destruct (cnt_ex _ _ C) as [t' Ht']. exists t'. left. unfold holds, get. unfold pm in Ht'.
    destruct (held (nth t' (thr w) dflt_t)) as [[|]|]; first [reflexivity | discriminate Ht'].
  - destruct (cnt_ex _ _ C) as [t' Ht']. exists t'. right. unfold holds, get. unfold pm in Ht'.
    destruct (held (nth t' (thr w) dflt_t)) as [[|]|]; first [reflexivity | discriminate Ht'].
Qed.

(* the core: nothing can move, somebody sleeps => the lock is held and the word forces the holder to hand off *)
Lemma handoff_core n w : Inv n w -> QInv w -> HInv w -> h_quiescent w -> forall t, h_asleep w t ->
  ~ free (word w) /\ In t (queue w) /\ waiting w t = true /\
  Z.testbit (word w) 2 = true /\ Z.testbit (word w) 3 = false /\ Z.testbit (word w) 7 = false /\
  Z.testbit (word w) 1 = false.
Proof.
  intros H0 (HQL & HQB & _) (H1 & H2 & H3 & H4 & H5 & H6 & H7 & H8 & H9 & H10) Q t At.
  assert (forall x, P w x <> Idle -> exists m l, P w x = LsSemP m l /\ (0 <? sem w x) = false) as NQ.
  { intros x Nx. destruct (Q x (get_inb w x Nx)) as [A | [D _]]; [apply asleep_pc, A | now elim Nx]. }
  assert (forall a, agent w a -> False) as NA.
  { intros a Ha. unfold agent in Ha.
    assert (P w a <> Idle) as Na by (intros E; rewrite E in Ha; discriminate Ha).
    destruct (NQ a Na) as (m & l & Pa & Sa). rewrite Pa in Ha. cbn [agent_pc] in Ha.
    apply negb_true_iff in Ha. apply Z.ltb_ge in Sa.
    destruct (H7 a m l Pa Ha) as [S | (t' & m' & u & Pt')]; [lia|].
    assert (P w t' <> Idle) as Nt' by (rewrite Pt'; discriminate).
    destruct (NQ t' Nt') as (m2 & l2 & Pt2 & _). congruence. }
  destruct (asleep_pc w t At) as (m & l & Pt & St).
  assert (waiting w t = true) as Wt.
  { destruct (waiting w t) eqn:E; [reflexivity | exfalso]. apply (NA t). unfold agent. rewrite Pt, E. reflexivity. }
  assert (In t (queue w)) as Iq.
  { assert (isq (kof w t) = true) as It by (rewrite kofP, Pt; reflexivity).
    destruct (H6 t It Wt) as [Hq | [t' Ht']]; [exact Hq | exfalso].
    apply (NA t'). unfold agent. eapply wl_agent. exact Ht'. }
  assert (Z.testbit (word w) 2 = true) as B2.
  { destruct HQB as (_ & _ & _ & _ & Q5a & _). apply Q5a. intros E. rewrite E in Iq. destruct Iq. }
  split; [|split; [exact Iq | split; [exact Wt | split; [exact B2 | split; [|split; [exact H1|]]]]]].
  - intros F. destruct (H5 B2 F) as [a Ha]. exact (NA a Ha).
  - destruct (Z.testbit (word w) 3) eqn:B3; [exfalso | reflexivity].
    destruct (H4 eq_refl) as [a Ha]. exact (NA a Ha).
  - destruct (Z.testbit (word w) 1) eqn:B1; [exfalso | reflexivity].
    destruct (H10 eq_refl) as [o Ho].
    assert (P w o <> Idle) as No by (intros E; rewrite kofP, E in Ho; discriminate Ho).
    destruct (NQ o No) as (m2 & l2 & Po2 & _). rewrite kofP, Po2 in Ho. discriminate Ho.
Qed.

Lemma has_desig x : has x MU_DESIG_WAKER = Z.testbit x 3. Proof. exact (has_bit x 3 ltac:(lia)). Qed.
Lemma has_allfalse x : has x MU_ALL_FALSE = Z.testbit x 7. Proof. exact (has_bit x 7 ltac:(lia)). Qed.

Lemma no_lost_handoff : forall progs sched,
  Z.of_nat (length progs) < 2 ^ 24 - 1 ->
  let w := run (init progs) sched in
  h_quiescent w -> forall t, h_asleep w t ->
  (exists t', holds w t' W \/ holds w t' R) /\
  In t (queue w) /\ waiting w t = true /\
  has (word w) MU_WAITING = true /\ has (word w) MU_DESIG_WAKER = false /\ has (word w) MU_ALL_FALSE = false /\
  has (word w) MU_SPINLOCK = false.
Proof.
  intros progs sched Hn w Q t At.
  destruct (reachable_hinv progs sched Hn) as (H0 & HQ & HH). fold w in H0, HQ, HH.
  destruct (handoff_core _ w H0 HQ HH Q t At) as (NF & Iq & Wt & B2 & B3 & B7 & B1).
  rewrite has_waiting, has_desig, has_allfalse, has_spin.
  split; [exact (not_free_holder _ w H0 NF) | auto 10].
Qed.

Lemma no_lost_handoff_partial : forall progs sched,
  Z.of_nat (length progs) < 2 ^ 24 - 1 ->
  let w := run (init progs) sched in
  h_quiescent w -> forall t, h_asleep w t ->
  (h_wants w t W -> exists t', holds w t' W \/ holds w t' R) /\
  (h_wants w t R -> exists t', holds w t' W \/ holds w t' R).
Proof.
  intros progs sched Hn w Q t At.
  destruct (no_lost_handoff progs sched Hn Q t At) as (Hh & _). split; intros _; exact Hh.
Qed.


(* ----- the word of such a world forces the last holder's release through the scan ----- *)
Lemma land_rfield x : rng x -> wrap_u 32 (Z.land x 4294967040) = 256 * (x / 256).
Proof.
  intros R. unfold rng in R. set (X := Z.land x 4294967040).
  assert (0 <= X) as N by (apply Z.land_nonneg; lia).
  assert (X / 256 = x / 256) as D.
  { unfold X. rewrite land_div256. change (4294967040 / 256) with 16777215. apply land_ones24. lia. }
  assert (X mod 256 = 0) as M.
  { change 256 with (2 ^ 8). rewrite <- Z.land_ones by lia. unfold X. rewrite <- Z.land_assoc.
    change (Z.land 4294967040 (Z.ones 8)) with 0. apply Z.land_0_r. }
  rewrite wrap32 by (unfold rng; lia). lia.
Qed.

Lemma release_must_scan x m : rng x ->
  Z.testbit x 1 = false -> Z.testbit x 2 = true -> Z.testbit x 3 = false -> Z.testbit x 7 = false ->
  match m with W => x mod 2 = 1 /\ x / 256 = 0 | R => x mod 2 = 0 /\ x / 256 = 1 end ->
  x <> ufast_old m /\ unlock_try_cas2 m x = false /\
  nsync_mu_unlock_slow_cas1_guard x = false /\ nsync_mu_unlock_slow_cas2_guard x = true.
Proof.
  intros R B1 B2 B3 B7 V.
  assert (wrap_u 32 (Z.land x 4) = 4) as L4.
  { change (Z.land x 4) with (Z.land x (2 ^ 2)). rewrite land_pow2, B2 by lia. reflexivity. }
  assert (wrap_u 32 (Z.land x 8) = 0) as L8.
  { change (Z.land x 8) with (Z.land x (2 ^ 3)). rewrite land_pow2, B3 by lia. reflexivity. }
  assert (wrap_u 32 (Z.land x 2) = 0) as L2.
  { change (Z.land x 2) with (Z.land x (2 ^ 1)). rewrite land_pow2, B1 by lia. reflexivity. }
  assert ((wrap_u 32 (Z.land x 384) =? 384) = false) as L384.
  { change 384 with (Z.lor (2 ^ 8) (2 ^ 7)) at 1. rewrite Z.land_lor_distr_r, !land_pow2, B7 by lia.
    destruct (Z.testbit x 8); reflexivity. }
  assert ((wrap_u 32 (Z.land x 4294967040) >? 256) = false) as LR.
  { rewrite land_rfield by exact R. destruct m; destruct V as [_ ->]; reflexivity. }
  assert (nsync_mu_unlock_slow_cas1_guard x = false) as G1.
  { change (nsync_mu_unlock_slow_cas1_guard x) with
      ((((wrap_u 32 (Z.land x 4) =? 0) || negb (wrap_u 32 (Z.land x 8) =? 0))
         || (wrap_u 32 (Z.land x 4294967040) >? 256))
        || (wrap_u 32 (Z.land x 384) =? 384)).
    rewrite L4, L8, LR, L384. reflexivity. }
  split; [|split; [|split; [exact G1|]]].
  - intros E. rewrite E in B2. destruct m; discriminate B2.
  - unfold unlock_try_cas2. destruct m.
    + change (nsync_mu_unlock_cas2_guard x) with
        (negb (negb (wrap_u 32 (Z.land (wrap_u 32 (Z.land (wrap_u 32 (x - 1)) (4294967295 - 128))) 4294967041) =? 0))
         && negb (wrap_u 32 (Z.land x 12) =? 4)).
      rewrite (land12 x B2 B3). apply andb_false_r.
    + change (nsync_mu_runlock_cas2_guard x) with
        (negb (wrap_u 32 (Z.land (wrap_u 32 (Z.lxor x 1)) 4294967041) =? 0)
         && negb ((wrap_u 32 (Z.land x 12) =? 4) && (wrap_u 32 (Z.land x 4294967168) =? 256))).
      rewrite (land12 x B2 B3), (land_field x R B7). destruct V as [_ ->]. apply andb_false_r.
  - rewrite unlock_slow_cas2_guard_eq.
    change ((((wrap_u 32 (Z.land x 4) =? 0) || negb (wrap_u 32 (Z.land x 8) =? 0))
         || (wrap_u 32 (Z.land x 4294967040) >? 256))
        || (wrap_u 32 (Z.land x 384) =? 384)) with (nsync_mu_unlock_slow_cas1_guard x).
    rewrite G1, L2. reflexivity.
Qed.


Lemma last_holder_must_scan : forall progs sched,
  Z.of_nat (length progs) < 2 ^ 24 - 1 ->
  let w := run (init progs) sched in
  h_quiescent w -> forall t, h_asleep w t -> forall m,
  match m with W => count_held w W = 1 | R => count_held w W = 0 /\ count_held w R = 1 end ->
  word w <> ufast_old m /\ unlock_try_cas2 m (word w) = false /\
  nsync_mu_unlock_slow_cas1_guard (word w) = false /\ nsync_mu_unlock_slow_cas2_guard (word w) = true.
Proof.
  intros progs sched Hn w Q t At m Hm.
  destruct (reachable_hinv progs sched Hn) as (H0 & HQ & HH). fold w in H0, HQ, HH.
  destruct (handoff_core _ w H0 HQ HH Q t At) as (NF & Iq & Wt & B2 & B3 & B7 & B1).
  destruct H0 as (_ & (Rx & HW & HR & HX) & _). rewrite !count_held_cnt in Hm.
  apply release_must_scan; auto. destruct m; [split; [lia | apply HX; lia] | lia].
Qed.

(* ----- the full statement (reader half: "some thread holds in WRITE mode") is false of the model ----- *)
Definition h_full : Prop :=
  forall progs sched, Z.of_nat (length progs) < 2 ^ 24 - 1 ->
  let w := run (init progs) sched in
  h_quiescent w -> forall t, h_asleep w t ->
  (h_wants w t W -> exists t', holds w t' W \/ holds w t' R) /\
  (h_wants w t R -> exists t', holds w t' W).

(* reader 0 holds and never releases; writer 1 queues behind it; reader 2 queues behind the writer
   (MU_WRITER_WAITING): reader 2 sleeps although the mutex is only read-held *)
Definition cx_progs : list (list op) := [[OLock R]; [OLock W; OUnlock]; [OLock R; OUnlock]].
Definition cx_sched : list nat := [0; 1; 1; 1; 1; 1; 1; 1; 1; 2; 2; 2; 2; 2; 2; 2; 2]%nat.

(* no writer anywhere: reader 1 was woken as designated waker and then acquired; reader 3 queued in between
   and sleeps beside reader 1, who never releases *)
Definition cy_progs : list (list op) := [[OLock W; OUnlock]; [OLock R]; [OLock W; OUnlock]; [OLock R; OUnlock]].
Definition cy_sched : list nat :=
  [0; 1; 1; 1; 1; 0; 0; 1; 1; 1; 0; 0; 0; 0; 0; 0; 1; 2; 2; 2; 2; 3; 3; 3; 3; 2; 2; 1; 1; 3; 3; 3; 3]%nat.

(* a sleeper behind a finished holder *)
Definition cz_progs : list (list op) := [[OLock W]; [OLock W; OUnlock]].
Definition cz_sched : list nat := [0; 1; 1; 1; 1; 1; 1; 1; 1]%nat.

Lemma no_lost_handoff_refuted : exists progs sched,
  Z.of_nat (length progs) < 2 ^ 24 - 1 /\
  let w := run (init progs) sched in
  h_quiescent w /\ exists t, h_asleep w t /\ h_wants w t R /\ forall t', ~ holds w t' W.
Proof.
  exists cx_progs, cx_sched. split; [vm_compute; reflexivity|]. cbv zeta. split.
  - intros t Ht. vm_compute in Ht.
    destruct t as [|[|[|t]]]; [right | left | left | lia]; vm_compute; auto.
  - exists 2%nat. split; [vm_compute; reflexivity|]. split.
    + eexists. vm_compute. reflexivity.
    + intros t' H. unfold holds in H.
      destruct t' as [|[|[|t']]]; vm_compute in H; try discriminate H. destruct t'; discriminate H.
Qed.

Lemma h_full_false : ~ h_full.
Proof.
  intros F. destruct no_lost_handoff_refuted as (progs & sched & Hn & Q & t & At & Wr & NH).
  destruct (F progs sched Hn Q t At) as [_ HR]. destruct (HR Wr) as [t' Ht']. exact (NH t' Ht').
Qed.

Lemma reader_sleeps_beside_reader : exists progs sched,
  Z.of_nat (length progs) < 2 ^ 24 - 1 /\
  let w := run (init progs) sched in
  h_quiescent w /\ h_asleep w 3%nat /\ h_wants w 3%nat R /\ holds w 1%nat R /\
  (forall t', ~ holds w t' W) /\ (forall t', ~ h_wants w t' W).
Proof.
  exists cy_progs, cy_sched. split; [vm_compute; reflexivity|]. cbv zeta. split.
  - intros t Ht. vm_compute in Ht.
    destruct t as [|[|[|[|t]]]]; [right | right | right | left | lia]; vm_compute; auto.
  - split; [vm_compute; reflexivity|]. split; [eexists; vm_compute; reflexivity|].
    split; [vm_compute; reflexivity|]. split.
    + intros t' H. unfold holds in H.
      destruct t' as [|[|[|[|t']]]]; vm_compute in H; try discriminate H. destruct t'; discriminate H.
    + intros t' [l H].
      destruct t' as [|[|[|[|t']]]]; vm_compute in H; try discriminate H. destruct t'; discriminate H.
Qed.

Lemma quiescent_satisfiable : exists progs sched,
  Z.of_nat (length progs) < 2 ^ 24 - 1 /\
  let w := run (init progs) sched in
  h_quiescent w /\ h_asleep w 1%nat /\ h_wants w 1%nat W /\ h_done w 0%nat /\ holds w 0%nat W.
Proof.
  exists cz_progs, cz_sched. split; [vm_compute; reflexivity|]. cbv zeta. split.
  - intros t Ht. vm_compute in Ht.
    destruct t as [|[|t]]; [right | left | lia]; vm_compute; auto.
  - split; [vm_compute; reflexivity|]. split; [eexists; vm_compute; reflexivity|].
    split; vm_compute; auto.
Qed.
