(* MuWaitWorld11: the hand-off theorem of Model/MuWaitModel.v (mutex with conditional critical sections).
   Part 1: what a thread that cannot move looks like (stuck_classify), the spinlock owner can always move;
   Part 2: quiescent_handoff: on the invariants HA/HB/HC (MuWaitWorld7..10), a quiescent world in which nobody owns lock bits
           has no runnable waiter on mu->waiters, nobody asleep in nsync_mu_lock / nsync_mu_rlock, and every sleeper of
           nsync_mu_wait queued with a false condition;
   Part 3: the invariants hold of every reachable world (programs without nsync_mu_unlock_without_wakeup);
   Part 4: the theorems about reachable worlds used by Props/Properties_C06x.v. *)
From NsyncBase Require Import CSem.
From NsyncGen Require Import Consts Sites.
From NsyncModel Require Import MuWaitModel MuWaitSpec.
From NsyncProof Require Import WordView MuWaitProof MuWaitRings MuWaitBits MuWaitFlags MuWaitWorld1 MuWaitWorld2 MuWaitWorld3 MuWaitWorld4 MuWaitWorld5 MuWaitWorld6 MuWaitWorld7 MuWaitWorld8 MuWaitWorld9 MuWaitWorld10.
From Coq Require Import List ZArith Bool Lia PeanoNat.
Import ListNotations.
Local Open Scope Z_scope.
Ltac Zify.zify_post_hook ::= Z.div_mod_to_equations.

(* ================= Part 1 ================= *)
(* what a thread that cannot move looks like *)
Definition stuck_pc (w : world) (t : nat) : Prop :=
  match P w t with
  | Idle => t_ops (get w t) = []
  | Crash _ => True
  | LsSemP _ _ => sem w t <= 0
  | MwSemP => sem w t <= 0
  | _ => False
  end.

Section Moves.
Variable n : nat.
Hypothesis Hn : Z.of_nat n < 16777215.

Ltac cas_split w :=
  unfold cas;
  match goal with |- context [word w =? ?e] => destruct (Z.eqb_spec (word w) e) as [Hcas|Hcas] end;
  cbv beta iota; cbn [fst snd].

Lemma begin_op_noidle w t : t_pc (get w t) <> Idle -> begin_op w t = w.
Proof. intros H. unfold begin_op. destruct (t_pc (get w t)); try reflexivity. congruence. Qed.

Lemma cons_neq {A} (x : A) l : x :: l <> l.
Proof. intros E. apply (f_equal (@length A)) in E. cbn in E. lia. Qed.

(* the pc after the step differs from the pc before: the world has changed *)
Ltac mv w t Hs Hlen Ht :=
  let E := fresh "E" in
  intros E; cbn [fst] in E;
  lazymatch type of E with ?L = _ =>
    let HT := fresh "HT" in let Eg := fresh "Eg" in
    eassert (HT : TS t w L _ _) by (ts_solve; rewrite Hlen; exact Ht);
    pose proof (TS_get _ _ _ _ _ HT) as Eg; rewrite E in Eg; unfold get in Eg; rewrite Hs in Eg;
    first [ discriminate Eg | (injection Eg; intros; subst; discriminate) | (injection Eg; intros; congruence) ]
  end.
Ltac MV := match goal with Hlen : length (thr ?w) = _, Ht : (?t < _)%nat, Hs : nth ?t (thr ?w) dflt_t = _ |- _ => mv w t Hs Hlen Ht end.

(* a thread that owns neither lock bits nor the spinlock, in a world whose word is free of lock bits and of the spinlock,
   and that cannot move under any choice: it has finished, crashed on a contract violation, or sleeps on its semaphore *)
Lemma stuck_classify w t : Inv n w -> (t < n)%nat ->
  held (get w t) = None -> spin (get w t) = false -> free (word w) -> b1 (word w) = 0 ->
  (forall c, fst (step_thr w t c) = w) -> stuck_pc w t.
Proof.
  intros H0 Ht Hh Hsp Hfr Hb Hq.
  pose proof (Inv_rng n w H0) as Rw.
  unfold stuck_pc, P.
  pose proof H0 as (Hlen & _ & Hok). specialize (Hok t).
  destruct (t_pc (get w t)) eqn:Ep0.
  1:{ (* Idle *) destruct (t_ops (get w t)) as [|o rest] eqn:Eo; [reflexivity | exfalso].
      specialize (Hq CNormal). assert (K : t_ops (get (fst (step_thr w t CNormal)) t) = o :: rest) by (rewrite Hq; exact Eo).
      clear Hq. revert K. unfold step_thr. cbv zeta.
      assert (Lt : (t < length (thr w))%nat) by (rewrite Hlen; exact Ht).
      assert (Eb : exists p' x', begin_op w t = set_t w t (mk_t p' rest None (conv (get w t)) (spin (get w t)) x' (last_ret (get w t))) /\
                                 match p' with LkFast _ | TryFast _ | Crash _ => True | _ => False end).
      { unfold begin_op. rewrite Ep0, Eo, Hh. destruct o; eexists _, _; (split; [reflexivity | exact I]). }
      destruct Eb as (p' & x' & Eb & Hp'). rewrite Eb. set (w1 := set_t w t _).
      assert (Hg1 : get w1 t = mk_t p' rest None (conv (get w t)) (spin (get w t)) x' (last_ret (get w t))).
      { unfold w1, get, set_t, set_thr; cbn [thr]. apply nth_lupd_same. exact Lt. }
      assert (Hlen1 : length (thr w1) = n) by (unfold w1, set_t, set_thr; cbn [thr]; rewrite length_lupd; exact Hlen).
      rewrite Hg1. cbn [t_pc]. unfold get in Hg1.
      destruct p'; try contradiction.
      - cas_split w1; intros K; cbn [fst] in K.
        + match type of K with t_ops (get ?L t) = _ => eassert (HT : TS t w1 L _ _) end; [ts_solve; rewrite Hlen1; exact Ht|].
          rewrite (TS_get _ _ _ _ _ HT) in K. unfold get in K. rewrite ?Hg1 in K. cbn [t_ops] in K. exact (cons_neq _ _ (eq_sym K)).
        + match type of K with t_ops (get ?L t) = _ => eassert (HT : TS t w1 L _ _) end; [ts_solve; rewrite Hlen1; exact Ht|].
          rewrite (TS_get _ _ _ _ _ HT) in K. unfold get in K. rewrite ?Hg1 in K. cbn [t_ops] in K. exact (cons_neq _ _ (eq_sym K)).
      - cas_split w1; intros K; cbn [fst] in K.
        + match type of K with t_ops (get ?L t) = _ => eassert (HT : TS t w1 L _ _) end; [ts_solve; rewrite Hlen1; exact Ht|].
          rewrite (TS_get _ _ _ _ _ HT) in K. unfold get in K. rewrite ?Hg1 in K. cbn [t_ops] in K. exact (cons_neq _ _ (eq_sym K)).
        + match type of K with t_ops (get ?L t) = _ => eassert (HT : TS t w1 L _ _) end; [ts_solve; rewrite Hlen1; exact Ht|].
          rewrite (TS_get _ _ _ _ _ HT) in K. unfold get in K. rewrite ?Hg1 in K. cbn [t_ops] in K. exact (cons_neq _ _ (eq_sym K)).
      - cbn [fst]. unfold get. rewrite Hg1. cbn [t_ops]. intros K. exact (cons_neq _ _ (eq_sym K)). }
  all: try exact I.
  all: assert (Bop : begin_op w t = w) by (apply begin_op_noidle; rewrite Ep0; discriminate).
  all: destruct (get w t) as [pc0 ops h0 cv sp0 mx lr] eqn:Hs; unfold get in Hs; rewrite Hs in Hok.
  all: cbn [t_pc held spin] in Ep0, Hh, Hsp; subst pc0 h0 sp0.
  all: unfold pc_ok in Hok; cbn [t_pc t_ops held conv spin mw last_ret] in Hok.
  all: try (match goal with |- False => idtac end).
  all: pose proof (Hq CNormal) as Hq1; revert Hq1; unfold step_thr; rewrite Bop; cbv zeta; unfold get at 1; rewrite Hs; cbn [t_pc].
  - (* LkFast *) cas_split w; MV.
  - (* LkLoad *) destruct (fast_guard2 m (word w)); MV.
  - (* LkCas2 *) cas_split w; MV.
  - (* TryFast *) cas_split w; MV.
  - (* TryLoad *) destruct (try_guard2 m (word w)); MV.
  - (* TryCas2 *) cas_split w; MV.
  - (* LsLoad *) destruct Hok as (_ & _ & Hl).
    destruct (lock_slow_guards_complete m l (word w) Rw Hl Hb) as [G | G]; rewrite G.
    + MV.
    + destruct (nsync_mu_lock_slow_cas1_guard (word w) (zta l)); MV.
  - (* LsCasAcq *) cas_split w; [destruct mx|]; MV.
  - (* LsCasEnq *) cas_split w; MV.
  - (* LsStoreWaiting *) destruct Hok as ((_ & S & _) & _). discriminate S.
  - (* LsWaitLoad *) destruct (waiting w t); MV.
  - (* LsSemP *) destruct (0 <? sem w t) eqn:Es; [let E0 := fresh in intros E0; exfalso; revert E0; MV | intros _; apply Z.ltb_ge in Es; exact Es].
  - (* RelLoad *) destruct k; try contradiction.
    + destruct Hok as ((_ & S & _) & _). discriminate S.
    + destruct Hok as (_ & lt & Hown & (S & _)). discriminate S.
  - (* RelCas *) destruct k; try contradiction.
    + destruct Hok as ((_ & S & _) & _). discriminate S.
    + destruct Hok as (_ & lt & Hown & (S & _)). discriminate S.
  - (* SpinLoad *) destruct k; try contradiction.
    + destruct Hok as (_ & lt & Hown & (_ & Hte & Hu)). destruct Hu as (_ & _ & Hu & _). specialize (Hu Hte). subst lt.
      destruct Hown as [(_ & E & _) | (E & _)]; discriminate E.
    + destruct Hok as (x & _ & (E & _) & _). discriminate E.
  - (* SpinCas *) destruct k; try contradiction.
    + destruct Hok as (_ & lt & Hown & (_ & Hte & Hu & _)). destruct Hu as (_ & _ & Hu & _). specialize (Hu Hte). subst lt.
      destruct Hown as [(_ & E & _) | (E & _)]; discriminate E.
    + destruct Hok as ((x & _ & (E & _) & _) & _). discriminate E.
  - (* RmLoad *) destruct k; try contradiction.
    + destruct Hok as (_ & lt & Hown & (S & Hu)). destruct (u_test u) eqn:Hte; [| discriminate S].
      destruct Hu as (_ & _ & Hu & _). specialize (Hu Hte). subst lt. destruct Hown as [(_ & E & _) | (E & _)]; discriminate E.
    + destruct Hok as ((x & _ & (E & _) & _) & _). discriminate E.
  - (* RmCas *) destruct k; try contradiction.
    + destruct Hok as (_ & lt & Hown & (S & Hu)). destruct (u_test u) eqn:Hte; [| discriminate S].
      destruct Hu as (_ & _ & Hu & _). specialize (Hu Hte). subst lt. destruct Hown as [(_ & E & _) | (E & _)]; discriminate E.
    + destruct Hok as ((x & _ & (E & _) & _) & _). discriminate E.
  - (* UlFast *) destruct Hok as ((E & _) & _). discriminate E.
  - (* UlLoad *) destruct Hok as ((E & _) & _). discriminate E.
  - (* UlCas2 *) destruct Hok as ((E & _) & _). discriminate E.
  - (* UwFast *) destruct Hok as ((E & _) & _). discriminate E.
  - (* UwLoad *) destruct Hok as ((E & _) & _). discriminate E.
  - (* UwCas2 *) destruct Hok as ((E & _) & _). discriminate E.
  - (* UsLoad *) destruct Hok as ((E & _) & _). discriminate E.
  - (* UsCasRel *) destruct Hok as ((E & _) & _). discriminate E.
  - (* UsCasSpin *) destruct Hok as ((E & _) & _). discriminate E.
  - (* UsEval *) destruct Hok as (_ & lt & Hown & (_ & Hte & Hu)). destruct Hu as (_ & _ & Hu & _). specialize (Hu Hte). subst lt.
    destruct Hown as [(_ & E & _) | (E & _)]; discriminate E.
  - (* UsRelLoad *) destruct Hok as (_ & lt & Hown & (S & _)). discriminate S.
  - (* UsRelCas *) destruct Hok as (_ & lt & Hown & (S & _)). discriminate S.
  - (* UsWakeStore *) destruct (wake u); [destruct mx|]; MV.
  - (* UsWakeV *) destruct (wake u); [destruct mx|]; MV.
  - (* SetC *) destruct Hok as ((E & _) & _). discriminate E.
  - (* MwLoad *) destruct Hok as (_ & _ & E & _). congruence.
  - (* MwEval *) destruct Hok as (x & _ & (E & _)). discriminate E.
  - (* MwStoreWaiting *) destruct Hok as (x & _ & (E & _)). discriminate E.
  - (* MwRcLoad *) destruct Hok as (x & _ & (E & _)). discriminate E.
  - (* MwRelLoad *) destruct Hok as (x & _ & (E & _) & _). discriminate E.
  - (* MwRelCas *) destruct Hok as (x & _ & (E & _) & _). discriminate E.
  - (* MwLoadW1 *) destruct Hok as (x & Hx & Ho). cbn [mw] in Hx. subst mx. unfold get_mw, get. rewrite Hs. cbn [mw].
    destruct (waiting w t); [destruct (mw_semout x =? 0) | destruct (mw_have x)]; MV.
  - (* MwSemP *) destruct Hok as (x & Hx & Ho). cbn [mw] in Hx. subst mx.
    destruct (0 <? sem w t) eqn:Es; [let E0 := fresh in intros E0; exfalso; revert E0; MV | intros _; apply Z.ltb_ge in Es; exact Es].
  - (* MwLoadW2 *) destruct (waiting w t); MV.
  - (* MwLoadW3 *) MV.
  - (* MtLoad *) rewrite (mt_cas1_guard_complete (word w) Rw Hfr Hb). MV.
  - (* MtCas1 *) cas_split w; [| destruct (mu_try_acquire_after_timeout_or_cancel_cas2_guard old)]; MV.
  - (* MtCas2 *) cas_split w; MV.
  - (* MtLoadW *) destruct Hok as ((x & _ & (E & _) & _) & _). discriminate E.
  - (* MtLoadRc *) destruct Hok as ((x & _ & (E & _) & _) & _). discriminate E.
  - (* MtStoreW *) destruct Hok as ((x & _ & (E & _) & _) & _). discriminate E.
  - (* MtStore2 *) destruct Hok as ((x & _ & (E & _) & _) & _). discriminate E.
  - (* MtStore3 *) destruct Hok as ((x & _ & (E & _) & _) & _). discriminate E.
Qed.
End Moves.

(* ================= Part 2 ================= *)
Section Final.
Variable n : nat.
Hypothesis Hn : Z.of_nat n < 16777215.

Ltac cas_split w :=
  unfold cas;
  match goal with |- context [word w =? ?e] => destruct (Z.eqb_spec (word w) e) as [Hcas|Hcas] end;
  cbv beta iota; cbn [fst snd].
Ltac mv w t Hs Hlen Ht :=
  let E := fresh "E" in
  intros E; cbv zeta in E; cbn [fst] in E;
  lazymatch type of E with ?L = _ =>
    let HT := fresh "HT" in let Eg := fresh "Eg" in
    eassert (HT : TS t w L _ _) by (ts_solve; rewrite Hlen; exact Ht);
    pose proof (TS_get _ _ _ _ _ HT) as Eg; rewrite E in Eg; unfold get in Eg; rewrite Hs in Eg;
    first [ discriminate Eg | (injection Eg; intros; subst; discriminate) | (injection Eg; intros; congruence) ]
  end.
Ltac MV := match goal with Hlen : length (thr ?w) = _, Ht : (?t < _)%nat, Hs : nth ?t (thr ?w) dflt_t = _ |- _ => mv w t Hs Hlen Ht end.

(* the owner of the spinlock can always move (it owns no lock bits here: the converted scanner and the timed-out waiter's
   window own the write lock) *)
Lemma spin_owner_moves w t : Inv n w -> NC w -> held (get w t) = None -> spin (get w t) = true ->
  fst (step_thr w t CNormal) = w -> False.
Proof.
  intros H0 HN Hh Hsp.
  pose proof H0 as (Hlen & _ & Hok). specialize (Hok t). pose proof (Inv_rng n w H0) as Rw.
  assert (Ht : (t < n)%nat).
  { destruct (Nat.lt_ge_cases t n) as [L | L]; [exact L|]. rewrite get_oob' in Hsp by (rewrite Hlen; exact L). discriminate Hsp. }
  assert (Ep : t_pc (get w t) <> Idle).
  { intros E. unfold pc_ok in Hok. unfold get in E, Hsp. rewrite E in Hok. destruct Hok as (S & _). congruence. }
  unfold step_thr. rewrite (begin_op_noidle w t Ep). cbv zeta.
  destruct (get w t) as [pc0 ops h0 cv sp0 mx lr] eqn:Hs; unfold get in Hs; rewrite Hs in Hok.
  cbn [t_pc held spin] in Ep, Hh, Hsp; subst h0 sp0.
  unfold pc_ok in Hok; cbn [t_pc t_ops held conv spin mw last_ret] in Hok.
  destruct pc0; try (exfalso; apply Ep; reflexivity).
  all: cbn [t_pc].
  all: try (destruct Hok as ((_ & S & _) & _); discriminate S).
  all: try (destruct Hok as ((E & _) & _); discriminate E).
  all: try (destruct Hok as (x & _ & (E & _)); discriminate E).
  all: try (destruct Hok as (x & _ & (E & _) & _); discriminate E).
  all: try (destruct Hok as ((x & _ & (E & _) & _) & _); discriminate E).
  all: try (destruct Hok as ((x & _ & (_ & S & _) & _) & _); discriminate S).
  all: try (destruct Hok as (x & _ & (_ & S & _) & _); discriminate S).
  - (* LsStoreWaiting *) MV.
  - (* RelLoad *) destruct k; try contradiction.
    + MV.
    + exfalso. destruct Hok as (_ & lt & Hown & (_ & Hte & Hu)). destruct Hu as (_ & _ & Hu & _). specialize (Hu Hte). subst lt.
      destruct Hown as [(_ & E & _) | (E & _)]; discriminate E.
  - (* RelCas *) destruct k; try contradiction.
    + cas_split w; MV.
    + exfalso. destruct Hok as (_ & lt & Hown & (_ & Hte & Hu)). destruct Hu as (_ & _ & Hu & _). specialize (Hu Hte). subst lt.
      destruct Hown as [(_ & E & _) | (E & _)]; discriminate E.
  - (* SpinLoad *) exfalso. destruct k; try contradiction.
    + destruct Hok as (_ & lt & Hown & (S & _)). discriminate S.
    + destruct Hok as (x & _ & (_ & S & _) & _). discriminate S.
  - (* SpinCas *) exfalso. destruct k; try contradiction.
    + destruct Hok as (_ & lt & Hown & (S & _)). discriminate S.
    + destruct Hok as ((x & _ & (_ & S & _) & _) & _). discriminate S.
  - (* RmLoad *) destruct k; try contradiction.
    + MV.
    + exfalso. destruct Hok as ((x & _ & (E & _) & _) & _). discriminate E.
  - (* RmCas *) destruct k; try contradiction.
    + destruct (rcount w (List.hd t (u_rest u)) =? oldv) eqn:Erc; [| MV].
      destruct (remove_from _ _ _ _ (u_new u) _) as [nl rg] eqn:Erm.
      match goal with |- context [after_inner ?w2 m (inner ?w2 m ?u' ?rr)] =>
        pose proof (after_inner_wt w2 m (inner w2 m u' rr)) as [Hw1 Hw2];
        pose proof (after_inner_sres w2 m (inner w2 m u' rr) (inner_scanres _ _ _ _)) as [Hsr _];
        destruct (after_inner w2 m (inner w2 m u' rr)) as [w3 p'] eqn:Ea; cbn [fst snd] in *;
        eassert (HT : TS t w w2 _ _) by (ts_solve; rewrite Hlen; exact Ht)
      end.
      eassert (HT3 : TS t w (set_pc w3 t p') _ _) by (apply TS_set_pc; eapply TS_eq; [exact HT | exact Hw1 | exact Hw2]).
      pose proof (TS_get _ _ _ _ _ HT3) as Eg. intros E. rewrite E in Eg. unfold get in Eg. rewrite Hs in Eg.
      injection Eg as Epc. rewrite <- Epc in Hsr. exact Hsr.
    + exfalso. destruct Hok as ((x & _ & (E & _) & _) & _). discriminate E.
  - (* UsEval *) exfalso. destruct Hok as (_ & lt & Hown & (S & _)). discriminate S.
  - (* UsRelLoad *) MV.
  - (* UsRelCas *) cas_split w; [destruct (wake u); [destruct mx|]|]; MV.
  - (* MwLoad *) exfalso. destruct Hok as (S & _). discriminate S.
  - (* MwLoadW1 *) exfalso. destruct Hok as (x & _ & [((_ & S & _) & _) | ((_ & S & _) & _)]); discriminate S.
  - (* MwLoadW3 *) exfalso. destruct Hok as (x & _ & [((_ & S & _) & _) | ((_ & S & _) & _)]); discriminate S.
  - (* Crash *) exfalso. destruct (HN t why) as (_ & S & _); [unfold get; rewrite Hs; reflexivity|]. unfold get in S. rewrite Hs in S. discriminate S.
Qed.

(* ================= quiescent worlds ================= *)
Definition quiescent (w : world) : Prop := forall t c, fst (step w (Thr t c)) = w.

Lemma ipl_pc p mx x : In x (ipl (info_of p mx)) -> match p with Idle | Crash _ | LsSemP _ _ | MwSemP => False | _ => True end.
Proof. destruct p; cbn; auto; intros []. Qed.

(* the hand-off theorem on the invariants: in a quiescent world in which nobody owns lock bits, no runnable waiter is queued,
   nobody sleeps in nsync_mu_lock / nsync_mu_rlock, and every sleeper of nsync_mu_wait is queued with a false condition *)
Theorem quiescent_handoff w :
  Inv n w -> L1 w -> NC w -> HA w -> HB w -> HC w -> etp w ->
  quiescent w -> (forall t, held (get w t) = None) ->
  (forall t, (t < n)%nat -> stuck_pc w t) /\
  (forall p, In p (queue w) -> wtrue (wcond w) (pst w) p = false) /\
  (forall t m l, P w t <> LsSemP m l) /\
  (forall t, P w t = MwSemP -> In t (queue w) /\ waiting w t = true /\ wtrue (wcond w) (pst w) t = false).
Proof.
  intros H0 HL HN HAw HBw HCw Et Hq Hh.
  pose proof (Inv_rng n w H0) as Rw. pose proof H0 as (Hlen & _ & _).
  assert (Hfr : free (word w)) by (apply (no_holder_free n w H0 Hh)).
  assert (Hq' : forall t c, fst (step_thr w t c) = w) by (intros t c; exact (Hq t c)).
  (* the spinlock is free *)
  assert (Hb : b1 (word w) = 0).
  { pose proof (b1_range (word w)) as Br. destruct (Z.eq_dec (b1 (word w)) 0) as [E | E]; [exact E | exfalso].
    destruct (spin_owner n w H0 ltac:(lia)) as [o Ho]. exact (spin_owner_moves w o H0 HN (Hh o) Ho (Hq' o CNormal)). }
  assert (Hsp : forall t, spin (get w t) = false) by (apply (no_spin_owner n w H0 Hb)).
  assert (Hst : forall t, (t < n)%nat -> stuck_pc w t).
  { intros t Ht. apply (stuck_classify n w t H0 Ht (Hh t) (Hsp t) Hfr Hb (Hq' t)). }
  assert (Hst' : forall t, match P w t with Idle | Crash _ | LsSemP _ _ | MwSemP => True | _ => False end).
  { intros t. destruct (Nat.lt_ge_cases t n) as [L | L].
    - specialize (Hst t L). unfold stuck_pc in Hst. destruct (P w t); auto.
    - unfold P. rewrite get_oob' by (rewrite Hlen; exact L). exact I. }
  (* nobody is an agent, nobody has a waiter on a private list, no waker is pending *)
  assert (Hnl : forall t' x, In x (ipl (winfo w t')) -> False).
  { intros t' x Hx. pose proof (ipl_pc _ _ _ Hx) as K. specialize (Hst' t'). unfold P in Hst'. destruct (t_pc (get w t')); contradiction. }
  assert (Hsleep : forall t, psite (P w t) = true -> waiting w t = true /\ In t (queue w)).
  { intros t Hp.
    assert (Hmq : mq_of (P w t) (MX w t) = true) by (destruct (P w t); try discriminate Hp; cbn [mq_of]; [apply orb_true_r | apply orb_true_r]).
    destruct (waiting w t) eqn:Ew.
    - split; [reflexivity|]. destruct (a_mem w HAw t Hmq Ew) as [Hq0 | [t' Ht']]; [exact Hq0 | destruct (Hnl t' t Ht')].
    - exfalso. destruct (a_sem w HAw t Hp Ew) as [S | (t' & m & u & Pt')].
      + destruct (Nat.lt_ge_cases t n) as [L | L].
        * specialize (Hst t L). unfold stuck_pc in Hst. destruct (P w t); try discriminate Hp; lia.
        * unfold P in Hp. rewrite get_oob' in Hp by (rewrite Hlen; exact L). discriminate Hp.
      + specialize (Hst' t'). rewrite Pt' in Hst'. exact Hst'. }
  assert (Hna : forall a, agent w a -> False).
  { intros a [A | A].
    - unfold dag, dagb in A. specialize (Hst' a). pose proof (Hsleep a) as Hs.
      destruct (P w a) eqn:Ep; try contradiction; cbn [scl sk_of wkne lsd mq_of us_pc psite] in A, Hs; try discriminate A.
      + destruct (Hs eq_refl) as [W0 _]. rewrite W0 in A. destruct (MX w a) as [y|]; [destruct (mw_have y) eqn:Ey|]; cbn in A; rewrite ?Ey in A; cbn in A; discriminate A.
      + destruct (Hs eq_refl) as [W0 _]. rewrite W0 in A. destruct (MX w a) as [y|]; [destruct (mw_have y) eqn:Ey|]; cbn in A; rewrite ?Ey in A; cbn in A; discriminate A.
    - specialize (Hst' a). destruct (P w a); try contradiction; discriminate A. }
  assert (Hnn : ~ (runq w \/ anyls w)).
  { intros R. destruct (c_resp w HCw Et Hfr R) as [a Ha]. exact (Hna a Ha). }
  split; [exact Hst|]. split; [|split].
  - intros p Hp. destruct (wtrue (wcond w) (pst w) p) eqn:E; [| reflexivity]. exfalso. apply Hnn. left. exists p. split; assumption.
  - intros t m l Ep. destruct (Hsleep t) as [_ Hq0]; [rewrite Ep; reflexivity|].
    apply Hnn. left. exists t. split; [exact Hq0|]. destruct (a_t1 w HAw t m l) as [_ Ec]; [rewrite Ep; reflexivity|]. unfold wtrue. rewrite Ec. reflexivity.
  - intros t Ep. destruct (Hsleep t) as [Wt Hq0]; [rewrite Ep; reflexivity|]. split; [exact Hq0|]. split; [exact Wt|].
    destruct (wtrue (wcond w) (pst w) t) eqn:E; [| reflexivity]. exfalso. apply Hnn. left. exists t. split; assumption.
Qed.
End Final.

(* somebody owns lock bits, or nobody does (decidable: the word tells) *)
Lemma classic_holder w : (exists t', held (get w t') <> None) \/ (forall t, held (get w t) = None).
Proof.
  assert (G : forall l : list tstate, (exists k, held (nth k l dflt_t) <> None) \/ (forall k, held (nth k l dflt_t) = None)).
  { induction l as [|s l IH].
    - right. intros k. destruct k; reflexivity.
    - destruct (held s) as [m|] eqn:E; [left; exists 0%nat; cbn; rewrite E; discriminate|].
      destruct IH as [[k Hk] | IH]; [left; exists (S k); exact Hk | right; intros [|k]; [exact E | apply IH]]. }
  destruct (G (thr w)) as [[k Hk] | H]; [left; exists k; exact Hk | right; exact H].
Qed.

(* ================= Part 3: the invariants in reachable worlds ================= *)
(* steps of the environment (clock, cancel note, spurious semaphore posts) touch nothing HC mentions *)
Lemma HC_same w W : thr W = thr w -> word W = word w -> queue W = queue w -> waiting W = waiting w -> pst W = pst w ->
  cls W = cls w -> wcond W = wcond w -> HC w -> HC W.
Proof.
  intros Et Ew Eq Ewt Ep Ecl Ewc [H1 H2 H3 H4].
  assert (Eg : forall t, get W t = get w t) by (intros t; unfold get; rewrite Et; reflexivity).
  assert (EP : forall t, P W t = P w t) by (intros t; unfold P; rewrite Eg; reflexivity).
  assert (EM : forall t, MX W t = MX w t) by (intros t; unfold MX; rewrite Eg; reflexivity).
  assert (ED : forall t, dag W t = dag w t) by (intros t; unfold dag; rewrite EP, EM, Ewt; reflexivity).
  constructor.
  - rewrite Ew. intros B. destruct (H1 B) as [a Ha]. exists a. rewrite ED. exact Ha.
  - unfold etp, runq, anyls. rewrite Ew, Ep, Ecl, Eq, Ewc. intros E F R.
    destruct (H2 E F) as [a Ha].
    + destruct R as [R | [y Hy]]; [left; exact R | right; exists y; rewrite <- EP; exact Hy].
    + exists a. rewrite ED, EP. exact Ha.
  - intros t x. rewrite EM, EP, Eq. apply H3.
  - intros t. specialize (H4 t). unfold pcC in *. rewrite EP, EM. exact H4.
Qed.

Lemma HC_init progs cl c0 : HC (init progs cl c0).
Proof.
  assert (EP : forall t, P (init progs cl c0) t = Idle) by (intros t; unfold P; apply (init_get progs cl c0 t)).
  assert (EM : forall t, MX (init progs cl c0) t = None) by (intros t; unfold MX; apply (init_get progs cl c0 t)).
  constructor.
  - intros B. discriminate B.
  - intros _ _ [(p & [] & _) | [y Hy]]. rewrite EP in Hy. discriminate Hy.
  - intros t x E. rewrite EM in E. discriminate E.
  - intros t. unfold pcC. rewrite EP. exact I.
Qed.

(* the whole invariant *)
(* (HBX of MuWaitWorld9.v is HB strengthened to an inductive invariant) *)
Definition HW (n : nat) (w : world) : Prop := LInv3 n w /\ NC w /\ HA w /\ HBX w /\ HC w.

Lemma HW_step n (Hn : Z.of_nat n < 16777215) w a : HW n w -> HW n (fst (step w a)).
Proof.
  intros (H3 & HN & HAw & HBw & HCw).
  pose proof (LInv3_step n Hn w a H3) as H3'.
  pose proof (NC_step_LInv n Hn w a (proj1 H3) HN) as HN'.
  pose proof (HA_step n Hn w a (proj1 H3) HN HAw) as HA'.
  pose proof (HBX_step n Hn w a H3 HN HAw HA' HBw) as HB'.
  split; [exact H3'|]. split; [exact HN'|]. split; [exact HA'|]. split; [exact HB'|].
  destruct H3 as (((HI & HFr) & HL & HU & H2) & HL3).
  destruct a as [t c|dt| |p]; cbn [step].
  - apply (HC_step_thr n Hn w t c HI HFr HL HU H2 HL3 HN); [apply (begin_op_HA n w t HI HAw) | apply HBX_HB, (begin_op_HBX n w t HI HBw) | exact HCw].
  - destruct (0 <=? dt); [| exact HCw]. apply (HC_same w); try reflexivity; exact HCw.
  - apply (HC_same w); try reflexivity; exact HCw.
  - destruct (note w); [| exact HCw]. apply (HC_same w); try reflexivity; exact HCw.
Qed.

Lemma HW_run n (Hn : Z.of_nat n < 16777215) sched : forall w, HW n w -> HW n (run w sched).
Proof. unfold run. induction sched as [|a rest IH]; intros w H; cbn [fold_left]; [exact H | apply IH, HW_step; assumption]. Qed.

Theorem HW_reachable progs cl c0 sched : Z.of_nat (length progs) < 2 ^ 24 - 1 -> no_nw progs ->
  HW (length progs) (run (init progs cl c0) sched).
Proof.
  intros H Hnw. apply HW_run; [exact H|]. split; [|split; [|split; [|split]]].
  - split; [apply init_LInv | apply init_L3; exact Hnw].
  - apply NC_init.
  - apply HA_init.
  - apply HBX_init.
  - apply HC_init.
Qed.

(* ================= Part 4: reachable worlds ================= *)
Section Reach.
Variables (progs : list (list op)) (cl : nat -> nat) (c0 : Z) (sched : list actor).
Hypothesis Hlen : Z.of_nat (length progs) < 2 ^ 24 - 1.
Hypothesis Hnw : no_nw progs.
Let w := run (init progs cl c0) sched.

(* MU_DESIG_WAKER is never orphaned ... *)
Theorem desig_waker_has_agent : tb 3 (word w) = true -> exists a, dag w a = true.
Proof. destruct (HW_reachable progs cl c0 sched Hlen Hnw) as (_ & _ & _ & _ & HCw). apply (c_dw _ HCw). Qed.
(* ... a free mutex with a runnable queued waiter always has somebody responsible ... *)
Theorem free_runnable_has_agent : etp w -> free (word w) -> runq w \/ anyls w -> exists a, dag w a = true \/ mts (P w a) = true.
Proof. destruct (HW_reachable progs cl c0 sched Hlen Hnw) as (_ & _ & _ & _ & HCw). apply (c_resp _ HCw). Qed.
(* ... MU_WAITING is set whenever mu->waiters is non-empty (the converse is false: a timed-out waiter leaves the bit behind) *)
Theorem waiting_bit_set : queue w <> [] -> tb 2 (word w) = true.
Proof. destruct (HW_reachable progs cl c0 sched Hlen Hnw) as (_ & _ & _ & HBw & _). intros Hq. apply (b_wt _ (HBX_HB _ HBw)). left; exact Hq. Qed.
(* ... MU_WRITER_WAITING and MU_LONG_WAIT have owners *)
Theorem writer_waiting_has_claimant : tb 5 (word w) = true -> exists c, claim w c.
Proof. destruct (HW_reachable progs cl c0 sched Hlen Hnw) as (_ & _ & _ & HBw & _). apply (b_ww _ (HBX_HB _ HBw)). Qed.
Theorem long_wait_has_carrier : tb 6 (word w) = true -> exists T, lwo (P w T) = true.
Proof. destruct (HW_reachable progs cl c0 sched Hlen Hnw) as (_ & _ & _ & HBw & _). apply (b_lw _ (HBX_HB _ HBw)). Qed.
(* ... a woken sleeper has its semaphore post, or its waker is about to post *)
Theorem woken_has_post : forall x, psite (P w x) = true -> waiting w x = false -> 1 <= sem w x \/ exists t' m u, P w t' = UsWakeV m x u.
Proof. destruct (HW_reachable progs cl c0 sched Hlen Hnw) as (_ & _ & HAw & _ & _). apply (a_sem _ HAw). Qed.

(* the hand-off theorem *)
Theorem handoff_reachable : etp w -> quiescent w -> (forall t, held (get w t) = None) ->
  (forall t, (t < length progs)%nat -> stuck_pc w t) /\
  (forall p, In p (queue w) -> wtrue (wcond w) (pst w) p = false) /\
  (forall t m l, P w t <> LsSemP m l) /\
  (forall t, P w t = MwSemP -> In t (queue w) /\ waiting w t = true /\ wtrue (wcond w) (pst w) t = false).
Proof.
  destruct (HW_reachable progs cl c0 sched Hlen Hnw) as (H3 & HN & HAw & HBw & HCw).
  destruct H3 as (((HI & HFr) & HL & HU & H2) & HL3).
  apply (quiescent_handoff (length progs) w HI HL HN HAw (HBX_HB _ HBw) HCw).
Qed.

(* every sleeper of a quiescent world faces a mutex that somebody still HOLDS, or (nsync_mu_wait) a false condition *)
Theorem sleeper_faces_holder : etp w -> quiescent w -> forall t, psite (P w t) = true ->
  (exists t', held (get w t') <> None) \/ (P w t = MwSemP /\ In t (queue w) /\ wtrue (wcond w) (pst w) t = false).
Proof.
  intros Et Hq t Hp.
  destruct (classic_holder w) as [Hh | Hh]; [left; exact Hh | right].
  destruct (handoff_reachable Et Hq Hh) as (_ & _ & H3 & H4).
  destruct (P w t) eqn:Ep; try discriminate Hp.
  - exfalso. exact (H3 t m l Ep).
  - destruct (H4 t Ep) as (A & _ & B). auto.
Qed.

(* the statement of Props/Properties_C06.v *)
Theorem no_lost_wakeup : etp w -> (forall t c, fst (step w (Thr t c)) = w) -> (forall t, held (get w t) = None) ->
  forall t x, mw (get w t) = Some x -> In t (queue w) -> cond_true w (mw_cond x) = true -> False.
Proof.
  intros Et Hq Hh t x Ex Hqt Hc.
  destruct (handoff_reachable Et Hq Hh) as (_ & H2 & _ & _).
  specialize (H2 t Hqt).
  destruct (LInv_reachable progs cl c0 sched Hlen) as (_ & HL & _). fold w in HL.
  pose proof (L4_reachable progs cl c0 sched Hlen) as H4. fold w in H4.
  destruct (a_m _ _ _ _ _ _ _ HL t (or_introl Hqt)) as [_ Hm]. unfold winfo, info_of in Hm; cbn [i_mq] in Hm.
  assert (Hw : wcq (t_pc (get w t)) = true).
  { destruct (mq_cases _ _ Hm) as [A | [A _]]; unfold wcq; rewrite A; [apply orb_true_r | reflexivity]. }
  unfold wtrue in H2. destruct (H4 t x Ex Hw) as [E | E]; rewrite E in H2; [| discriminate H2].
  unfold cond_true in Hc. destruct (mw_cond x) as [[f a]|]; congruence.
Qed.
End Reach.

Print Assumptions stuck_classify.
Print Assumptions spin_owner_moves.
Print Assumptions quiescent_handoff.
Print Assumptions HW_reachable.
Print Assumptions handoff_reachable.
Print Assumptions no_lost_wakeup.
