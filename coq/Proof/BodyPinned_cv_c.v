(* The code of every function of cv.c, regenerated from /repo on this run (digest of its AST), is the code the models were validated against. *)
From Coq Require Import String List.
From NsyncGen Require Import Body.
From NsyncModel Require Import BodyExpected.

Lemma body_current_cv_c : body_cv_c = expected_body_cv_c.
Proof. vm_compute. reflexivity. Qed.
