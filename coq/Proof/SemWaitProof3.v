(* SemWaitProof3: the life of the on-stack records (C13), the queue of a note and the semaphore posts (C05 "no lost cancellation"). *)
From NsyncBase Require Import CSem.
From NsyncGen Require Import Consts Sites.
From NsyncModel Require Import SemWaitModel.
From NsyncProof Require Import SemWaitProof SemWaitProof2.
From Coq Require Import List ZArith Bool Lia Arith.
Import ListNotations.
Local Open Scope Z_scope.
#[local] Hint Constructors Forall : core.

Definition has_rec (s : wst) : bool := match s with WPlain | WChk _ | WSt _ => false | _ => true end.
Definition cls (s : wst) : nat :=
  match s with WLk1 _ | WLd1 _ => 0 | WUn1 _ | WP _ | WNtf _ | WLk2 _ | WLd2 _ => 1 | WUnl _ => 2 | _ => 3 end.
Definition stage (k : nat) (x : rst) : Prop :=
  match k with
  | O => x = RNew
  | S O => x = RQueued \/ x = RTaken \/ x = RPosted
  | S (S O) => x = RNew \/ x = RGone \/ x = RPosted
  | _ => True
  end.
Definition at_c34 (st : list frame) (n o : nat) : Prop := exists par rest, st = FC n par (C3 o) :: rest \/ st = FC n par (C4 o) :: rest.
Definition at_p (st : list frame) (l : wl) : Prop := exists n rest, st = AWait l (WUn1 n) :: rest \/ st = AWait l (WP n) :: rest.

Record W4g (P : nat -> Prop) (w : world) : Prop := {
  q1 : forall m r, In r (waiters (notes w m)) -> (r < nrec w)%nat /\ rnote (recs w r) = m /\ live (recs w r) = true /\ rs (recs w r) = RQueued;
  q2 : forall m, NoDup (waiters (notes w m));
  q3 : forall r, rs (recs w r) = RQueued -> In r (waiters (notes w (rnote (recs w r))));
  r2 : forall t l s, In (AWait l s) (stack (get w t)) -> has_rec s = true ->
         (w_rec l < nrec w)%nat /\ owner (recs w (w_rec l)) = t /\ live (recs w (w_rec l)) = true /\
         Some (rnote (recs w (w_rec l))) = wst_note s /\ stage (cls s) (rs (recs w (w_rec l)));
  t1 : forall u n o, at_c34 (stack (get w u)) n o -> (o < nrec w)%nat /\ live (recs w o) = true /\ rnote (recs w o) = n /\ rs (recs w o) = RTaken;
  t3 : forall r, rs (recs w r) = RTaken -> exists u, at_c34 (stack (get w u)) (rnote (recs w r)) r;
  dr : forall n, P n -> flag (notes w n) <> 0 -> waiters (notes w n) = [] \/ exists u o, at_c34 (stack (get w u)) n o;
  sm : forall t l, at_p (stack (get w t)) l -> rs (recs w (w_rec l)) = RPosted -> (1 <= sem (get w t))%nat;
  dt : dead_touch w = 0;
  rt : forall e r, In e (rets w) -> e_rec e = Some r -> (r < nrec w)%nat /\ live (recs w r) = false
}.

Notation W4 := (W4g (fun _ => True)).
(* what the frame lemma asks of the stack of the thread that moved *)
Definition trans_ok (st st' : list frame) : Prop :=
  (forall l s, In (AWait l s) st' -> has_rec s = true ->
     exists l0 s0, In (AWait l0 s0) st /\ w_rec l0 = w_rec l /\ has_rec s0 = true /\ wst_note s0 = wst_note s /\ (forall x, stage (cls s0) x -> stage (cls s) x)) /\
  (forall n o, at_c34 st' n o <-> at_c34 st n o) /\
  (forall l, at_p st' l -> exists l0, at_p st l0 /\ w_rec l0 = w_rec l).
Definition same_rec (a b : rec) : Prop := owner a = owner b /\ live a = live b /\ rnote a = rnote b /\ rs a = rs b.

(* a step that changes neither the records (but for their `waiting` word), nor the queues, nor sets a flag while records are queued *)
Lemma W4_frame0 (P P' : nat -> Prop) t w w' :
  (forall r, same_rec (recs w' r) (recs w r)) -> nrec w' = nrec w -> dead_touch w' = dead_touch w ->
  (forall m, waiters (notes w' m) = waiters (notes w m)) ->
  (forall m, P' m -> flag (notes w' m) <> 0 -> (P m /\ flag (notes w m) <> 0) \/ waiters (notes w m) = []) ->
  (forall u l, at_p (stack (get w' u)) l -> (sem (get w u) <= sem (get w' u))%nat) ->
  others_same t w w' ->
  (forall e, In e (rets w') -> In e (rets w) \/ e_rec e = None) ->
  (forall l s, In (AWait l s) (stack (get w' t)) -> has_rec s = true ->
     (w_rec l < nrec w)%nat /\ owner (recs w (w_rec l)) = t /\ live (recs w (w_rec l)) = true /\
     Some (rnote (recs w (w_rec l))) = wst_note s /\ stage (cls s) (rs (recs w (w_rec l)))) ->
  (forall n o, at_c34 (stack (get w' t)) n o <-> at_c34 (stack (get w t)) n o) ->
  (forall l, at_p (stack (get w' t)) l -> exists l0, at_p (stack (get w t)) l0 /\ w_rec l0 = w_rec l) ->
  W4g P w -> W4g P' w'.
Proof.
  intros E1 E1b E1c E2 E3 E4 E5 E6 Ta Tb Tc H.
  assert (C34 : forall u n o, at_c34 (stack (get w' u)) n o <-> at_c34 (stack (get w u)) n o).
  { intros u n o. destruct (Nat.eq_dec u t) as [->|Hu]; [apply Tb|rewrite E5 by auto; tauto]. }
  assert (RS : forall r, rs (recs w' r) = rs (recs w r)) by (intro r; apply E1).
  assert (RN : forall r, rnote (recs w' r) = rnote (recs w r)) by (intro r; apply E1).
  assert (LV : forall r, live (recs w' r) = live (recs w r)) by (intro r; apply E1).
  assert (OW : forall r, owner (recs w' r) = owner (recs w r)) by (intro r; apply E1).
  constructor.
  - intros m r. rewrite E2, E1b, RN, LV, RS. apply (q1 _ w H).
  - intro m. rewrite E2. apply (q2 _ w H).
  - intros r. rewrite RS, RN, E2. apply (q3 _ w H).
  - intros u l s Hin Hs. rewrite E1b, OW, LV, RN, RS.
    destruct (Nat.eq_dec u t) as [->|Hu]; [|rewrite E5 in Hin by auto; apply (r2 _ w H u l s); auto].
    apply Ta; auto.
  - intros u n o Hc. rewrite E1b, LV, RN, RS. apply (t1 _ w H u n o). apply C34; auto.
  - intros r. rewrite RS, RN. intro K. destruct (t3 _ w H r K) as [u Hu]. exists u. apply C34; auto.
  - intros n Pn Hf. rewrite E2. destruct (E3 n Pn Hf) as [[Pm K]|K]; [|left; exact K].
    destruct (dr _ w H n Pm K) as [A|(u & o & A)]; [left; auto|right; exists u, o; apply C34; auto].
  - intros u l Hp Hr. rewrite RS in Hr. specialize (E4 u l Hp).
    assert (exists l0, at_p (stack (get w u)) l0 /\ w_rec l0 = w_rec l) as (l0 & A & B).
    { destruct (Nat.eq_dec u t) as [->|Hu]; [apply Tc; auto|rewrite E5 in Hp by auto; exists l; auto]. }
    rewrite <- B in Hr. pose proof (sm _ w H u l0 A Hr). lia.
  - rewrite E1c. apply (dt _ w H).
  - intros e r Hin Hr. rewrite E1b, LV. destruct (E6 e Hin) as [K|K]; [apply (rt _ w H e r); auto|congruence].
Qed.
Lemma W4_frame (P P' : nat -> Prop) t w w' :
  (forall r, same_rec (recs w' r) (recs w r)) -> nrec w' = nrec w -> dead_touch w' = dead_touch w ->
  (forall m, waiters (notes w' m) = waiters (notes w m)) ->
  (forall m, P' m -> flag (notes w' m) <> 0 -> (P m /\ flag (notes w m) <> 0) \/ waiters (notes w m) = []) ->
  (forall u l, at_p (stack (get w' u)) l -> (sem (get w u) <= sem (get w' u))%nat) ->
  others_same t w w' ->
  (forall e, In e (rets w') -> In e (rets w) \/ e_rec e = None) ->
  trans_ok (stack (get w t)) (stack (get w' t)) ->
  W4g P w -> W4g P' w'.
Proof.
  intros E1 E1b E1c E2 E3 E4 E5 E6 (Ta & Tb & Tc) H. eapply (W4_frame0 P P' t w w'); eauto.
  intros l s Hin Hs. destruct (Ta l s Hin Hs) as (l0 & s0 & A & B & C & D & F). rewrite <- B, <- D.
  destruct (r2 _ w H t l0 s0 A C) as (X1 & X2 & X3 & X4 & X5). repeat split; auto.
Qed.

(* ------------------------------------------------------------------------------------------------ *)
(* trans_ok for the changes of a stack that leave the records alone *)
Definition nonAW (f : frame) : Prop := match f with AWait _ _ => False | _ => True end.
Definition quiet (f : frame) : Prop :=
  match f with FC _ _ (C3 _) | FC _ _ (C4 _) | AWait _ (WUn1 _) | AWait _ (WP _) => False | _ => True end.
Definition qtop (st : list frame) : Prop := match st with f :: _ => quiet f | [] => True end.
Lemma qtop_c34 st n o : qtop st -> ~ at_c34 st n o.
Proof. intros Q (par & rest & [E|E]); subst st; exact Q. Qed.
Lemma qtop_p st l : qtop st -> ~ at_p st l.
Proof. intros Q (n & rest & [E|E]); subst st; exact Q. Qed.
Lemma in_nonAW pre l s : Forall nonAW pre -> ~ In (AWait l s) pre.
Proof. intros F I. rewrite Forall_forall in F. apply (F _ I). Qed.
Lemma trans_ok_gen pre pre' rest : Forall nonAW pre -> Forall nonAW pre' -> qtop (pre ++ rest) -> qtop (pre' ++ rest) ->
  trans_ok (pre ++ rest) (pre' ++ rest).
Proof.
  intros F F' Q Q'. split; [|split].
  - intros l s I Hs. apply in_app_or in I as [I|I]; [exfalso; eapply in_nonAW; eauto|].
    exists l, s. repeat split; auto. apply in_or_app; auto.
  - intros n o. split; intro K; exfalso; [apply (qtop_c34 _ _ _ Q' K)|apply (qtop_c34 _ _ _ Q K)].
  - intros l K. exfalso; apply (qtop_p _ _ Q' K).
Qed.
Lemma trans_ok_nil st : qtop st -> trans_ok st [].
Proof.
  intro Q. split; [|split].
  - intros l s [].
  - intros n o. split; intro K; exfalso; [destruct K as (p & r & [E|E]); discriminate|apply (qtop_c34 _ _ _ Q K)].
  - intros l (n & r & [E|E]); discriminate.
Qed.
Lemma trans_ok_aw pre pre' l0 s0 l s : Forall nonAW pre -> Forall nonAW pre' -> qtop (pre ++ [AWait l0 s0]) -> qtop (pre' ++ [AWait l s]) ->
  w_rec l0 = w_rec l -> (has_rec s = true -> has_rec s0 = true /\ wst_note s0 = wst_note s /\ (forall x, stage (cls s0) x -> stage (cls s) x)) ->
  trans_ok (pre ++ [AWait l0 s0]) (pre' ++ [AWait l s]).
Proof.
  intros F F' Q Q' E C. split; [|split].
  - intros l1 s1 I Hs. apply in_app_or in I as [I|I]; [exfalso; eapply in_nonAW; eauto|].
    destruct I as [[= <- <-]|[]]. destruct (C Hs) as (A & B & D). exists l0, s0. repeat split; auto. apply in_or_app; right; left; auto.
  - intros n o. split; intro K; exfalso; [apply (qtop_c34 _ _ _ Q' K)|apply (qtop_c34 _ _ _ Q K)].
  - intros l1 K. exfalso; apply (qtop_p _ _ Q' K).
Qed.
Lemma stack_t_setst w t st : stack (get (setst w t st) t) = st. Proof. stk. rewrite Nat.eqb_refl. reflexivity. Qed.
Lemma stack_t_finish w t o r : stack (get (finish w t o r) t) = []. Proof. stk. rewrite Nat.eqb_refl. reflexivity. Qed.
Lemma stack_t_finish_wait w t l b : stack (get (finish_wait w t l b) t) = []. Proof. stk. rewrite Nat.eqb_refl. reflexivity. Qed.

Lemma tr_ret_Notify w t n pre rest : Forall nonAW pre -> qtop (pre ++ FNotify n :: rest) -> pre_ok (FNotify n :: rest) ->
  trans_ok (pre ++ FNotify n :: rest) (stack (get (ret_Notify w t n rest) t)).
Proof.
  intros F Q [Hwf Hfr]. unfold ret_Notify.
  destruct rest as [|[| | | | | |l []] r]; try (rewrite stack_t_finish; apply trans_ok_nil; exact Q).
  apply wf_cons in Hwf as [Ha Hwf]. apply wf_AWait in Hwf. subst r. rewrite stack_t_setst.
  change (pre ++ FNotify n :: [AWait l (WNtf n0)]) with (pre ++ [FNotify n] ++ [AWait l (WNtf n0)]). rewrite app_assoc.
  apply (trans_ok_aw (pre ++ [FNotify n]) [] l (WNtf n0) l (WLk2 n0)); simpl; auto.
  - apply Forall_app; split; auto. constructor; simpl; auto.
  - rewrite <- app_assoc. exact Q.
Qed.
Lemma tr_ret_D w t n s pre rest v k : Forall nonAW pre -> qtop (pre ++ FD n s :: rest) -> pre_ok (FD n s :: rest) ->
  trans_ok (pre ++ FD n s :: rest) (stack (get (ret_D w t rest v k) t)).
Proof.
  intros F Q [Hwf Hfr]. unfold ret_D. destruct rest as [|g r]; [contradiction Hwf|]. apply wf_cons in Hwf as [Ha Hwf]. fr_split Hfr.
  assert (Fp : Forall nonAW (pre ++ [FD n s])) by (apply Forall_app; split; auto; constructor; simpl; auto).
  destruct g as [| | | |m|m|l []]; simpl in Ha; try contradiction; subst.
  - destruct (tpos v).
    + rewrite stack_t_setst. change (FN m N1 false false :: FNotify m :: r) with ([FN m N1 false false] ++ FNotify m :: r).
      replace (pre ++ FD m s :: FNotify m :: r) with ((pre ++ [FD m s]) ++ FNotify m :: r) by (rewrite <- app_assoc; reflexivity).
      apply trans_ok_gen; simpl; auto; try (rewrite <- app_assoc; exact Q); repeat constructor.
    + change (pre ++ FD m s :: FNotify m :: r) with (pre ++ [FD m s] ++ FNotify m :: r). rewrite app_assoc. apply tr_ret_Notify; auto.
      * rewrite <- app_assoc. exact Q.
      * split; auto.
  - rewrite stack_t_finish. apply trans_ok_nil. exact Q.
  - apply wf_AWait in Hwf. subst r. destruct (tpos v).
    + rewrite stack_t_setst. change (pre ++ FD n0 s :: [AWait l (WChk n0)]) with (pre ++ [FD n0 s] ++ [AWait l (WChk n0)]). rewrite app_assoc.
      apply (trans_ok_aw (pre ++ [FD n0 s]) [] l (WChk n0) (wl_chk l k) (WSt n0)); simpl; auto; try discriminate.
      rewrite <- app_assoc. exact Q.
    + rewrite stack_t_finish_wait. apply trans_ok_nil. exact Q.
Qed.
Lemma tr_ret_N w t n s par inc rest : quiet (FN n s par inc) -> pre_ok (FN n s par inc :: rest) ->
  trans_ok (FN n s par inc :: rest) (stack (get (ret_N w t rest) t)).
Proof.
  intros Q [Hwf Hfr]. unfold ret_N. destruct rest as [|g r]; [contradiction Hwf|]. apply wf_cons in Hwf as [Ha Hwf]. fr_split Hfr.
  destruct g as [m []| | | |m|m|]; simpl in Ha; try contradiction; subst.
  - apply (tr_ret_D w t m (D6 now) [FN m s par inc]); simpl; auto. split; auto.
  - apply (tr_ret_Notify w t m [FN m s par inc]); simpl; auto. split; auto.
Qed.
Lemma tr_ret_C w t n par s rest : quiet (FC n par s) -> pre_ok (FC n par s :: rest) ->
  trans_ok (FC n par s :: rest) (stack (get (ret_C w t rest) t)).
Proof.
  intros Q [Hwf Hfr]. unfold ret_C. destruct rest as [|g r]; [contradiction Hwf|]. apply wf_cons in Hwf as [Ha Hwf].
  destruct g as [|m [] par' inc| |m []| | |]; simpl in Ha; try contradiction.
  - destruct Ha as [-> ->]. rewrite stack_t_setst.
    apply (trans_ok_gen [FC m par' s; FN m N9 par' inc] [FN m (if par' then N10 else N11) par' inc] r); simpl; auto; repeat constructor;
      try (destruct par'; exact I).
  - subst. rewrite stack_t_setst. apply (trans_ok_gen [FC m par s; FP m P2] [FP m (P3 true)] r); simpl; auto; repeat constructor.
Qed.
Definition is_p (s : wst) : bool := match s with WUn1 _ | WP _ => true | _ => false end.
Lemma trans_ok_aw1 pre' l0 s0 l s : Forall nonAW pre' -> qtop (pre' ++ [AWait l s]) \/ (pre' = [] /\ is_p s0 = true) ->
  w_rec l0 = w_rec l -> (has_rec s = true -> has_rec s0 = true /\ wst_note s0 = wst_note s /\ (forall x, stage (cls s0) x -> stage (cls s) x)) ->
  trans_ok [AWait l0 s0] (pre' ++ [AWait l s]).
Proof.
  intros F' Q' E C. split; [|split].
  - intros l1 s1 I Hs. apply in_app_or in I as [I|I]; [exfalso; eapply in_nonAW; eauto|].
    destruct I as [[= <- <-]|[]]. destruct (C Hs) as (A & B & D). exists l0, s0. repeat split; auto. left; auto.
  - intros n o. split; intro K; exfalso.
    + destruct Q' as [Q'|[-> _]]; [apply (qtop_c34 _ _ _ Q' K)|]. destruct K as (p & r & [K|K]); discriminate.
    + destruct K as (p & r & [K|K]); discriminate.
  - intros l1 K. destruct Q' as [Q'|[-> Q']]; [exfalso; apply (qtop_p _ _ Q' K)|]. exists l0. split; auto.
    + destruct s0; try discriminate; [exists n, []; left; reflexivity|exists n, []; right; reflexivity].
    + destruct K as (n & r & [K|K]); simpl in K; injection K; intros; subst; auto.
Qed.

(* more projections *)
Lemma sem_setst w t st u : sem (get (setst w t st) u) = sem (get w u).
Proof. upd; simpl; unfold fupd. destruct (Nat.eqb_spec u t); subst; reflexivity. Qed.
Lemma sem_finish w t o r u : sem (get (finish w t o r) u) = sem (get w u).
Proof. upd; simpl; unfold fupd. destruct (Nat.eqb_spec u t); subst; reflexivity. Qed.
Lemma sem_finish_wait w t l b u : sem (get (finish_wait w t l b) u) = sem (get w u).
Proof. unfold finish_wait. rewrite sem_finish. destruct b; reflexivity. Qed.
Lemma sem_ret_Notify w t n r u : sem (get (ret_Notify w t n r) u) = sem (get w u).
Proof. unfold ret_Notify; dmatch; rewrite ?sem_setst, ?sem_finish; reflexivity. Qed.
Lemma sem_ret_D w t r v k u : sem (get (ret_D w t r v k) u) = sem (get w u).
Proof. unfold ret_D; dmatch; rewrite ?sem_ret_Notify, ?sem_setst, ?sem_finish_wait, ?sem_finish; reflexivity. Qed.
Lemma sem_ret_N w t r u : sem (get (ret_N w t r) u) = sem (get w u).
Proof. unfold ret_N; dmatch; rewrite ?sem_ret_D, ?sem_ret_Notify; reflexivity. Qed.
Lemma sem_ret_C w t r u : sem (get (ret_C w t r) u) = sem (get w u).
Proof. unfold ret_C; dmatch; rewrite ?sem_setst; reflexivity. Qed.
Lemma rets_ret_D w t r v k e : In e (rets (ret_D w t r v k)) -> In e (rets w) \/ e_rec e = None.
Proof.
  unfold ret_D; dmatch; rewrite ?rets_ret_Notify; simpl; auto. intros [<-|K]; auto.
Qed.
Lemma rets_ret_N w t r e : In e (rets (ret_N w t r)) -> In e (rets w) \/ e_rec e = None.
Proof. unfold ret_N; dmatch; rewrite ?rets_ret_Notify; simpl; auto. apply rets_ret_D. Qed.

Lemma W4_frame' (P : nat -> Prop) t w w' :
  (forall r, same_rec (recs w' r) (recs w r)) -> nrec w' = nrec w -> dead_touch w' = dead_touch w ->
  (forall m, waiters (notes w' m) = waiters (notes w m) /\ flag (notes w' m) = flag (notes w m)) ->
  (forall u, sem (get w' u) = sem (get w u)) ->
  others_same t w w' ->
  (forall e, In e (rets w') -> In e (rets w) \/ e_rec e = None) ->
  trans_ok (stack (get w t)) (stack (get w' t)) ->
  W4g P w -> W4g P w'.
Proof.
  intros. eapply (W4_frame P P); eauto.
  - intro m. apply H2.
  - intros m Pm. destruct (H2 m) as [_ ->]. auto.
  - intros u l _. rewrite H3. lia.
Qed.
Ltac recprj := let r := fresh "r" in intro r; rewrite ?recs_ret_D, ?recs_ret_N, ?recs_ret_C, ?recs_ret_Notify; simpl; unfold same_rec; auto.
Ltac nrecprj := rewrite ?nrec_ret_D, ?nrec_ret_N, ?nrec_ret_C, ?nrec_ret_Notify; reflexivity.
Ltac deadprj := rewrite ?dead_ret_D, ?dead_ret_N, ?dead_ret_C, ?dead_ret_Notify; reflexivity.
Ltac noteprj := let m := fresh "m" in intro m; prj; simpl; unfold fupd, nt; simpl;
  repeat match goal with |- context [Nat.eqb ?a ?b] => destruct (Nat.eqb_spec a b); subst; simpl end; auto.
Ltac semprj := let u := fresh "u" in intro u; rewrite ?sem_ret_D, ?sem_ret_N, ?sem_ret_C, ?sem_ret_Notify, ?sem_setst, ?sem_finish_wait, ?sem_finish; reflexivity.
Ltac retsprj := let e := fresh "e" in let He := fresh "He" in intros e He;
  first [apply rets_ret_D in He; exact He | apply rets_ret_N in He; exact He | left; revert He; rewrite ?rets_ret_C, ?rets_ret_Notify; simpl; auto; fail
        | simpl in He; destruct He as [<-|He]; [right; reflexivity|left; exact He]].
Ltac fr4 t w H4 := apply (W4_frame' _ t w); [recprj | nrecprj | deadprj | noteprj | semprj | othprj | retsprj | | exact H4].
Ltac tgen Est pre pre' rest := rewrite Est; rewrite ?stack_t_setst, ?stack_t_finish, ?stack_t_finish_wait;
  first [apply trans_ok_nil; simpl; exact I | apply (trans_ok_gen pre pre' rest); simpl; auto; repeat constructor].


(* ------------------------------------------------------------------------------------------------ *)
(* the steps that create, queue, take, post, dequeue and retire a record *)
Lemma at_c34_top st n o : at_c34 st n o -> exists par s rest, st = FC n par s :: rest /\ (s = C3 o \/ s = C4 o).
Proof. intros (p & r & [E|E]); exists p; eexists; exists r; split; eauto. Qed.
Lemma not_c34_aw l s r n o : ~ at_c34 (AWait l s :: r) n o.
Proof. intros (p & r0 & [E|E]); discriminate. Qed.
Ltac eqr a b := destruct (Nat.eqb_spec a b); [try (subst a)|].
Lemma at_p_in st l : at_p st l -> exists s, In (AWait l s) st /\ has_rec s = true /\ cls s = 1%nat.
Proof. intros (n & r & [E|E]); subst st; eexists; (split; [left; reflexivity|split; reflexivity]). Qed.

Lemma W4_WSt w t l n : W4 w -> stack (get w t) = [AWait l (WSt n)] ->
  W4 (setst (new_rec w (mk_rec t nsync_sem_wait_with_cancel_store1_new true n RNew)) t [AWait (wl_rec l (nrec w)) (WLk1 n)]).
Proof.
  intros H Est.
  assert (NC : forall u m o, at_c34 (stack (get w u)) m o -> u <> t).
  { intros u m o K ->. rewrite Est in K. eapply not_c34_aw; eauto. }
  constructor.
  - intros m r I. simpl in *. destruct (q1 _ w H m r I) as (A & B & C & D). unfold fupd. eqr r (nrec w); [lia|]. repeat split; auto.
  - apply (q2 _ w H).
  - intros r. simpl. unfold fupd. eqr r (nrec w); simpl; [discriminate|]. eqr (rnote (recs w r)) (nrec w); apply (q3 _ w H).
  - intros u l0 s. stk; simpl. eqt u t.
    + intros [[= <- <-]|[]] _. simpl. unfold fupd. rewrite Nat.eqb_refl. simpl. repeat split; auto.
    + intros I Hs. destruct (r2 _ w H u l0 s I Hs) as (A & B & C & D & E). unfold fupd. eqr (w_rec l0) (nrec w); [lia|]. repeat split; auto.
  - intros u m o. stk; simpl. eqt u t; [intro K; exfalso; eapply not_c34_aw; eauto|]. intro K. destruct (t1 _ w H u m o K) as (A & B & C & D).
    unfold fupd. eqr o (nrec w); [lia|]. repeat split; auto.
  - intros r. simpl. unfold fupd. eqr r (nrec w); simpl; [discriminate|]. intro K. destruct (t3 _ w H r K) as [u Hu]. exists u. stk; simpl.
    pose proof (NC _ _ _ Hu). neqb. exact Hu.
  - intros m _ Hf. simpl in Hf. destruct (dr _ w H m I Hf) as [A|(u & o & A)]; [left; auto|right]. exists u, o. stk; simpl. pose proof (NC _ _ _ A). neqb. exact A.
  - intros u l0. stk. rewrite sem_setst. simpl. eqt u t; [intros (? & ? & [?|?]); discriminate|]. intros Hq.
    destruct (at_p_in _ _ Hq) as (s & I & Hs & _). destruct (r2 _ w H u l0 s I Hs) as (A & _).
    unfold fupd. eqr (w_rec l0) (nrec w); [lia|]. apply (sm _ w H u l0 Hq).
  - apply (dt _ w H).
  - intros e r I E. simpl in *. destruct (rt _ w H e r I E) as (A & B). unfold fupd. eqr r (nrec w); [lia|]. split; auto.
Qed.

Lemma dead_sum w l : (forall x, In x l -> live (recs w x) = true) -> fold_right (fun r a => dead1 w r + a) 0 l = 0.
Proof.
  induction l as [|x l IH]; intro H; simpl; [reflexivity|]. unfold dead1 at 1. rewrite (H x) by (left; auto). rewrite IH; [reflexivity|]. intros; apply H; right; auto.
Qed.
Lemma remove_nat_in x l y : In y (remove_nat x l) -> In y l.
Proof. induction l as [|z l IH]; simpl; auto. destruct (Nat.eqb z x); simpl; intuition. Qed.
Lemma remove_nat_other x l y : In y l -> y <> x -> In y (remove_nat x l).
Proof.
  induction l as [|z l IH]; simpl; auto. intros [E|I] Hn.
  - subst z. destruct (Nat.eqb_spec y x); [congruence|left; reflexivity].
  - destruct (Nat.eqb_spec z x); [exact I|right; auto].
Qed.
Lemma NoDup_snoc (x : nat) l : NoDup l -> ~ In x l -> NoDup (l ++ [x]).
Proof.
  induction l as [|z l IH]; simpl; intros N I; [constructor; auto; constructor|]. inversion N; subst. constructor.
  - intro K. apply in_app_or in K as [K|[K|[]]]; auto.
  - apply IH; auto.
Qed.
Lemma remove_nat_nodup x l : NoDup l -> NoDup (remove_nat x l) /\ ~ In x (remove_nat x l).
Proof.
  induction l as [|z l IH]; simpl; intro N; [split; [constructor|auto]|]. inversion N; subst. destruct (IH H2) as [A B].
  destruct (Nat.eqb_spec z x); [subst; auto|]. split; [constructor; auto; intro K; apply H1; eapply remove_nat_in; eauto|].
  simpl. intros [K|K]; auto.
Qed.
Lemma rs_neq (a b : rst) : a = b -> forall x y, x = a -> y = b -> x = y. Proof. congruence. Qed.

Lemma W4_WLd1 w t l n : W4 w -> stack (get w t) = [AWait l (WLd1 n)] -> flag (notes w n) = 0 -> forall l',  w_rec l' = w_rec l ->
  W4 (setst (set_note (set_rec (touch (touch_all w (waiters (nt w n))) (w_rec l)) (w_rec l) (set_rs (recs w (w_rec l)) RQueued)) n
               (set_waiters (nt w n) (waiters (nt w n) ++ [w_rec l]))) t [AWait l' (WUn1 n)]).
Proof.
  intros H Est Hfl l' El. set (r := w_rec l) in *.
  destruct (r2 _ w H t l (WLd1 n)) as (A1 & A2 & A3 & A4 & A5); [rewrite Est; left; auto|reflexivity|]. fold r in A1, A2, A3, A4, A5. simpl in A4, A5.
  injection A4 as A4.
  assert (NC : forall u m o, at_c34 (stack (get w u)) m o -> u <> t).
  { intros u m o K ->. rewrite Est in K. eapply not_c34_aw; eauto. }
  assert (NQ : forall m, ~ In r (waiters (notes w m))).
  { intros m I. destruct (q1 _ w H m r I) as (_ & _ & _ & D). congruence. }
  constructor.
  - intros m r0. simpl. unfold fupd, nt. eqr m n; simpl.
    + intro I. apply in_app_or in I as [I|[<-|[]]].
      * destruct (q1 _ w H n r0 I) as (B1 & B2 & B3 & B4). eqr r0 r; [congruence|]. auto.
      * rewrite Nat.eqb_refl. simpl. auto.
    + intro I. destruct (q1 _ w H m r0 I) as (B1 & B2 & B3 & B4). eqr r0 r; [congruence|]. auto.
  - intro m. simpl. unfold fupd, nt. eqr m n; simpl; [|apply (q2 _ w H)].
    apply NoDup_snoc; [apply (q2 _ w H)|apply NQ].
  - intros r0. simpl. unfold fupd, nt. eqr r0 r; simpl.
    + intros _. rewrite A4. rewrite Nat.eqb_refl. simpl. apply in_or_app; right; left; auto.
    + intro K. pose proof (q3 _ w H r0 K) as I. eqr (rnote (recs w r0)) n; simpl; [apply in_or_app; left; rewrite <- e; exact I|exact I].
  - intros u l0 s. stk; simpl. eqt u t.
    + intros [[= <- <-]|[]] _. simpl. rewrite El. fold r. unfold fupd. rewrite Nat.eqb_refl. simpl. rewrite A4. repeat split; auto.
    + intros I Hs. destruct (r2 _ w H u l0 s I Hs) as (B1 & B2 & B3 & B4 & B5). unfold fupd. eqr (w_rec l0) r; [congruence|]. repeat split; auto.
  - intros u m o. stk; simpl. eqt u t; [intro K; exfalso; eapply not_c34_aw; eauto|]. intro K. destruct (t1 _ w H u m o K) as (B1 & B2 & B3 & B4).
    unfold fupd. eqr o r; [congruence|]. repeat split; auto.
  - intros r0. simpl. unfold fupd. eqr r0 r; simpl; [discriminate|]. intro K. destruct (t3 _ w H r0 K) as [u Hu]. exists u. stk; simpl.
    pose proof (NC _ _ _ Hu). neqb. exact Hu.
  - intros m _. simpl. unfold fupd, nt. eqr m n; simpl; [intro K; congruence|]. intro Hf.
    destruct (dr _ w H m I Hf) as [B|(u & o & B)]; [left; auto|right]. exists u, o. stk; simpl. pose proof (NC _ _ _ B). neqb. exact B.
  - intros u l0. stk. rewrite sem_setst. simpl. eqt u t.
    + intros (n0 & rest0 & [K|K]) Hr; injection K; intros; subst l0; exfalso; revert Hr; rewrite El; fold r; unfold fupd; rewrite Nat.eqb_refl; simpl; discriminate.
    + intros Hq. destruct (at_p_in _ _ Hq) as (s & I0 & Hs & _). destruct (r2 _ w H u l0 s I0 Hs) as (B1 & B2 & _).
      unfold fupd. eqr (w_rec l0) r; [congruence|]. apply (sm _ w H u l0 Hq).
  - simpl. rewrite (dt _ w H). rewrite dead_sum; [|intros x I; apply (q1 _ w H n x I)]. unfold dead1. simpl. fold r. rewrite A3. reflexivity.
  - intros e r0 I E. simpl in *. destruct (rt _ w H e r0 I E) as (B1 & B2). unfold fupd. eqr r0 r; [congruence|]. split; auto.
Qed.

(* the owner of a record holds its note's note_mu: nobody else is inside note_notify_child of that note *)
Lemma no_c34_while_held w t n u m o : W3 w -> held_by (stack (get w t)) = Some n -> at_c34 (stack (get w u)) m o -> m = n -> u = t.
Proof.
  intros H3 Ht K ->. apply (W3_excl w n u t H3); auto. destruct K as (p & r & [E|E]); rewrite E; reflexivity.
Qed.

Lemma W4_WLd2a w t l n : W3 w -> W4 w -> stack (get w t) = [AWait l (WLd2 n)] -> flag (notes w n) = 0 ->
  W4 (setst (set_note (set_rec (touch (touch_all w (waiters (nt w n))) (w_rec l)) (w_rec l) (set_rs (recs w (w_rec l)) RGone)) n
               (set_waiters (nt w n) (remove_nat (w_rec l) (waiters (nt w n))))) t [AWait l (WUnl n)]).
Proof.
  intros H3 H Est Hfl. set (r := w_rec l) in *.
  destruct (r2 _ w H t l (WLd2 n)) as (A1 & A2 & A3 & A4 & A5); [rewrite Est; left; auto|reflexivity|]. fold r in A1, A2, A3, A4, A5. simpl in A4, A5.
  injection A4 as A4.
  assert (Hh : held_by (stack (get w t)) = Some n) by (rewrite Est; reflexivity).
  assert (NC : forall u m o, at_c34 (stack (get w u)) m o -> u <> t).
  { intros u m o K ->. rewrite Est in K. eapply not_c34_aw; eauto. }
  destruct (remove_nat_nodup r _ (q2 _ w H n)) as [ND NI].
  constructor.
  - intros m r0. simpl. unfold fupd, nt. eqr m n; simpl.
    + intro I. assert (r0 <> r) by (intro; subst r0; auto). apply remove_nat_in in I.
      destruct (q1 _ w H n r0 I) as (B1 & B2 & B3 & B4). eqr r0 r; [congruence|]. auto.
    + intro I. destruct (q1 _ w H m r0 I) as (B1 & B2 & B3 & B4). eqr r0 r; [congruence|]. auto.
  - intro m. simpl. unfold fupd, nt. eqr m n; simpl; [exact ND|apply (q2 _ w H)].
  - intros r0. simpl. unfold fupd, nt. eqr r0 r; simpl; [discriminate|].
    intro K. pose proof (q3 _ w H r0 K) as I. eqr (rnote (recs w r0)) n; simpl; [apply remove_nat_other; auto; rewrite <- e; exact I|exact I].
  - intros u l0 s. stk; simpl. eqt u t.
    + intros [[= <- <-]|[]] _. simpl. fold r. unfold fupd. rewrite Nat.eqb_refl. simpl. rewrite A4. repeat split; auto.
    + intros I Hs. destruct (r2 _ w H u l0 s I Hs) as (B1 & B2 & B3 & B4 & B5). unfold fupd. eqr (w_rec l0) r; [congruence|]. repeat split; auto.
  - intros u m o. stk; simpl. eqt u t; [intro K; exfalso; eapply not_c34_aw; eauto|]. intro K. destruct (t1 _ w H u m o K) as (B1 & B2 & B3 & B4).
    unfold fupd. eqr o r; [|repeat split; auto]. exfalso. apply n0. eapply no_c34_while_held; eauto. congruence.
  - intros r0. simpl. unfold fupd. eqr r0 r; simpl; [discriminate|]. intro K. destruct (t3 _ w H r0 K) as [u Hu]. exists u. stk; simpl.
    pose proof (NC _ _ _ Hu). neqb. exact Hu.
  - intros m _. simpl. unfold fupd, nt. eqr m n; simpl; [intro K; congruence|]. intro Hf.
    destruct (dr _ w H m I Hf) as [B|(u & o & B)]; [left; auto|right]. exists u, o. stk; simpl. pose proof (NC _ _ _ B). neqb. exact B.
  - intros u l0. stk. rewrite sem_setst. simpl. eqt u t.
    + intros (n0 & rest0 & [K|K]); discriminate.
    + intros Hq. destruct (at_p_in _ _ Hq) as (s & I0 & Hs & _). destruct (r2 _ w H u l0 s I0 Hs) as (B1 & B2 & _).
      unfold fupd. eqr (w_rec l0) r; [congruence|]. apply (sm _ w H u l0 Hq).
  - simpl. rewrite (dt _ w H). rewrite dead_sum; [|intros x I; apply (q1 _ w H n x I)]. unfold dead1. simpl. fold r. rewrite A3. reflexivity.
  - intros e r0 I E. simpl in *. destruct (rt _ w H e r0 I E) as (B1 & B2). unfold fupd. eqr r0 r; [congruence|]. split; auto.
Qed.

Lemma W4_WLd2b w t l n : W3 w -> W4 w -> stack (get w t) = [AWait l (WLd2 n)] -> flag (notes w n) <> 0 ->
  W4 (setst w t [AWait l (WUnl n)]).
Proof.
  intros H3 H Est Hfl. set (r := w_rec l) in *.
  destruct (r2 _ w H t l (WLd2 n)) as (A1 & A2 & A3 & A4 & A5); [rewrite Est; left; auto|reflexivity|]. fold r in A1, A2, A3, A4, A5. simpl in A4, A5.
  injection A4 as A4.
  assert (Hh : held_by (stack (get w t)) = Some n) by (rewrite Est; reflexivity).
  assert (NC : forall u m o, at_c34 (stack (get w u)) m o -> u <> t).
  { intros u m o K ->. rewrite Est in K. eapply not_c34_aw; eauto. }
  assert (P : rs (recs w r) = RPosted).
  { destruct A5 as [Q|[Q|Q]]; auto; exfalso.
    - pose proof (q3 _ w H r Q) as I0. rewrite A4 in I0. destruct (dr _ w H n I Hfl) as [B|(u & o & B)]; [rewrite B in I0; destruct I0|].
      apply (NC _ _ _ B). eapply no_c34_while_held; eauto.
    - destruct (t3 _ w H r Q) as [u B]. apply (NC _ _ _ B). eapply no_c34_while_held; eauto. }
  apply (W4_frame0 (fun _ => True) (fun _ => True) t w); [| reflexivity | reflexivity | reflexivity | | | | | | | | exact H].
  - intro; repeat split.
  - intros; left; auto.
  - intros u l0 _. rewrite sem_setst. lia.
  - intros u Hu. stk. neqb. reflexivity.
  - intros e He. left. exact He.
  - rewrite stack_t_setst. intros l0 s [[= <- <-]|[]] _. fold r. simpl. rewrite A4, P. repeat split; auto.
  - intros m o. rewrite stack_t_setst, Est. split; intro K; exfalso; eapply not_c34_aw; eauto.
  - intros l0. rewrite stack_t_setst. intros (? & ? & [K|K]); discriminate.
Qed.

Lemma W4_WUnl w t l n : W4 w -> stack (get w t) = [AWait l (WUnl n)] -> W4 (finish_wait (release w n) t l true).
Proof.
  intros H Est. set (r := w_rec l) in *.
  destruct (r2 _ w H t l (WUnl n)) as (A1 & A2 & A3 & A4 & A5); [rewrite Est; left; auto|reflexivity|]. fold r in A1, A2, A3, A4, A5. simpl in A4, A5.
  assert (NC : forall u m o, at_c34 (stack (get w u)) m o -> u <> t).
  { intros u m o K ->. rewrite Est in K. eapply not_c34_aw; eauto. }
  assert (NQ : rs (recs w r) <> RQueued /\ rs (recs w r) <> RTaken) by (destruct A5 as [Q|[Q|Q]]; rewrite Q; split; discriminate).
  destruct NQ as [NQ NT].
  assert (WT : forall m, waiters (fupd (notes w) n (set_lock (nt w n) None) m) = waiters (notes w m)).
  { intro m. unfold fupd, nt. eqr m n; reflexivity. }
  assert (FL : forall m, flag (fupd (notes w) n (set_lock (nt w n) None) m) = flag (notes w m)).
  { intro m. unfold fupd, nt. eqr m n; reflexivity. }
  assert (RS : forall x, rs (fupd (recs w) r (set_live (recs w r) false) x) = rs (recs w x)) by (intro x; unfold fupd; eqr x r; auto).
  assert (RN : forall x, rnote (fupd (recs w) r (set_live (recs w r) false) x) = rnote (recs w x)) by (intro x; unfold fupd; eqr x r; auto).
  assert (OW : forall x, owner (fupd (recs w) r (set_live (recs w r) false) x) = owner (recs w x)) by (intro x; unfold fupd; eqr x r; auto).
  assert (LV : forall x, x <> r -> live (fupd (recs w) r (set_live (recs w r) false) x) = live (recs w x)) by (intros x Hx; unfold fupd; eqr x r; auto; congruence).
  unfold finish_wait. fold r. constructor.
  - intros m r0. simpl notes. simpl recs. simpl nrec. rewrite WT, RS, RN.
    intro I0. destruct (q1 _ w H m r0 I0) as (B1 & B2 & B3 & B4). rewrite LV by congruence. auto.
  - intro m. simpl notes. rewrite WT. apply (q2 _ w H).
  - intros r0. simpl notes; simpl recs. rewrite RS, RN, WT. apply (q3 _ w H).
  - intros u l0 s. rewrite stack_finish. simpl nrec; simpl recs. eqt u t; [intros []|]. intros I0 Hs.
    change (In (AWait l0 s) (stack (get w u))) in I0. rewrite RS, RN, OW.
    destruct (r2 _ w H u l0 s I0 Hs) as (B1 & B2 & B3 & B4 & B5). rewrite LV by congruence. repeat split; auto.
  - intros u m o. rewrite stack_finish. simpl nrec; simpl recs. eqt u t; [intros (? & ? & [K|K]); discriminate|]. intro K.
    change (at_c34 (stack (get w u)) m o) in K. destruct (t1 _ w H u m o K) as (B1 & B2 & B3 & B4). rewrite RS, RN, LV by congruence. repeat split; auto.
  - intros r0. simpl recs. rewrite RS, RN. intro K. destruct (t3 _ w H r0 K) as [u Hu]. exists u.
    rewrite stack_finish. pose proof (NC _ _ _ Hu). neqb. exact Hu.
  - intros m _. simpl notes. rewrite WT, FL. intro Hf.
    destruct (dr _ w H m I Hf) as [B|(u & o & B)]; [left; auto|right]. exists u, o. rewrite stack_finish. pose proof (NC _ _ _ B). neqb. exact B.
  - intros u l0. rewrite stack_finish, sem_finish. simpl recs. rewrite RS. eqt u t; [intros (? & ? & [K|K]); discriminate|]. intros Hq.
    change (at_p (stack (get w u)) l0) in Hq. apply (sm _ w H u l0 Hq).
  - simpl. apply (dt _ w H).
  - intros e r0. simpl rets; simpl nrec; simpl recs. intros [<-|I0] E.
    + simpl in E. injection E as <-. unfold fupd. rewrite Nat.eqb_refl. simpl. auto.
    + destruct (rt _ w H e r0 I0 E) as (B1 & B2). unfold fupd. eqr r0 r; simpl; auto.
Qed.

Lemma trans_ok_c34 n par o rest : trans_ok (FC n par (C3 o) :: rest) (FC n par (C4 o) :: rest).
Proof.
  split; [|split].
  - intros l s [K|K] Hs; [discriminate|]. exists l, s. repeat split; auto. right; auto.
  - intros m o'. split; intros (p & r & [K|K]); try discriminate; injection K; intros; subst; exists p, r; auto.
  - intros l (m & r & [K|K]); discriminate.
Qed.
Lemma W4_C3 w t n par o rest : W4 w -> stack (get w t) = FC n par (C3 o) :: rest ->
  W4 (setst (set_rec (touch w o) o (set_rwaiting (recs w o) note_notify_child_store2_new)) t (FC n par (C4 o) :: rest)).
Proof.
  intros H Est. destruct (t1 _ w H t n o) as (A1 & A2 & A3 & A4); [rewrite Est; exists par, rest; auto|].
  apply (W4_frame (fun _ => True) (fun _ => True) t w); [ | reflexivity | | reflexivity | intros m Pm Hf; left; split; auto | | | intros e He; left; exact He | | exact H].
  - intro r. simpl. unfold fupd. eqr r o; repeat split; auto.
  - simpl. unfold dead1. rewrite A2. lia.
  - intros u l _. rewrite sem_setst. simpl. unfold get. lia.
  - intros u Hu. stk. neqb. reflexivity.
  - rewrite stack_t_setst, Est. apply trans_ok_c34.
Qed.

(* worlds that differ only in how the thread table is written *)
Lemma W4_thr_ext P w w' : notes w' = notes w -> recs w' = recs w -> nrec w' = nrec w -> dead_touch w' = dead_touch w -> rets w' = rets w ->
  (forall u, thr w' u = thr w u) -> W4g P w -> W4g P w'.
Proof.
  intros E1 E2 E3 E4 E5 E6 H. constructor; unfold get.
  - rewrite E1, E2, E3. apply (q1 _ w H).
  - rewrite E1. apply (q2 _ w H).
  - rewrite E1, E2. apply (q3 _ w H).
  - intros u l s. rewrite E2, E3, E6. apply (r2 _ w H).
  - intros u n o. rewrite E2, E3, E6. apply (t1 _ w H).
  - intros r. rewrite E2. intro K. destruct (t3 _ w H r K) as [u Hu]. exists u. rewrite E6. exact Hu.
  - intros n Pn. rewrite E1. intro Hf. destruct (dr _ w H n Pn Hf) as [A|(u & o & A)]; [left; auto|right; exists u, o; rewrite E6; exact A].
  - intros u l. rewrite E2, E6. apply (sm _ w H).
  - rewrite E4. apply (dt _ w H).
  - rewrite E2, E3, E5. apply (rt _ w H).
Qed.

Lemma notes_c_tail_w w t n p r m : waiters (notes (c_tail w t n p r) m) = waiters (notes w m) /\ flag (notes (c_tail w t n p r) m) = flag (notes w m).
Proof. unfold c_tail. rewrite notes_ret_C. destruct p; simpl; auto. unfold fupd, nt. eqr m n; auto. Qed.

(* the waiter loop of note_notify_child, entered with the note's flag set: unlink the first record or leave *)
Lemma W4_pop w t n par s rest : pre_ok (FC n par s :: rest) -> quiet (FC n par s) -> W4g (fun m => m <> n) w ->
  stack (get w t) = FC n par s :: rest -> flag (notes w n) <> 0 -> W4 (c_wloop w t n par rest).
Proof.
  intros Hp Qs H Est Hfl. unfold c_wloop. destruct (waiters (nt w n)) as [|o ws] eqn:Hw.
  - (* no record left *)
    apply (W4_frame (fun m => m <> n) (fun _ => True) t w); [ | | | | | | | | |exact H].
    + intro r. unfold c_tail. rewrite recs_ret_C. destruct par; repeat split.
    + unfold c_tail. rewrite nrec_ret_C. destruct par; reflexivity.
    + unfold c_tail. rewrite dead_ret_C. destruct par; reflexivity.
    + intro m. apply notes_c_tail_w.
    + intros m _. destruct (notes_c_tail_w w t n par rest m) as [_ ->]. intro Hf. eqr m n; [right; exact Hw|left; auto].
    + intros u l _. unfold c_tail. rewrite sem_ret_C. destruct par; simpl; unfold get; lia.
    + intros u Hu. rewrite so_c_tail; auto.
    + intros e He. left. rewrite rets_c_tail in He. exact He.
    + rewrite Est. unfold c_tail. destruct par; apply tr_ret_C; auto.
  - (* unlink o *)
    unfold nt in Hw.
    assert (Io : In o (waiters (notes w n))) by (rewrite Hw; left; auto).
    destruct (q1 _ w H n o Io) as (A1 & A2 & A3 & A4).
    pose proof (q2 _ w H n) as ND. rewrite Hw in ND. apply NoDup_cons_iff in ND as [NI ND'].
    assert (NC : forall u m o', at_c34 (stack (get w u)) m o' -> u <> t).
    { intros u m o' K ->. rewrite Est in K. destruct K as (p & r & [K|K]); injection K; intros; subst; exact Qs. }
    constructor.
    + intros m r0. simpl. unfold fupd, nt. eqr m n; simpl.
      * intro I0. assert (r0 <> o) by (intro; subst r0; auto).
        destruct (q1 _ w H n r0) as (B1 & B2 & B3 & B4); [rewrite Hw; right; auto|]. eqr r0 o; [congruence|]. auto.
      * intro I0. destruct (q1 _ w H m r0 I0) as (B1 & B2 & B3 & B4). eqr r0 o; [congruence|]. auto.
    + intro m. simpl. unfold fupd, nt. eqr m n; simpl; [exact ND'|apply (q2 _ w H)].
    + intros r0. simpl. unfold fupd, nt. eqr r0 o; simpl; [discriminate|].
      intro K. pose proof (q3 _ w H r0 K) as I0. eqr (rnote (recs w r0)) n; simpl; [|exact I0].
      rewrite e, Hw in I0. destruct I0 as [I0|I0]; [congruence|exact I0].
    + intros u l0 s0. stk; simpl. intros I0 Hs.
      assert (I1 : In (AWait l0 s0) (stack (get w u))).
      { eqt u t; [|exact I0]. rewrite Est. destruct I0 as [I0|I0]; [discriminate|right; exact I0]. }
      destruct (r2 _ w H u l0 s0 I1 Hs) as (B1 & B2 & B3 & B4 & B5). unfold fupd. eqr (w_rec l0) o; [|repeat split; auto].
      rewrite e in *. simpl. rewrite A4 in B5. repeat split; auto. destruct (cls s0) as [|[|[|k]]]; simpl in *; auto; try discriminate.
      destruct B5 as [B5|[B5|B5]]; discriminate.
    + intros u m o'. stk; simpl. eqt u t.
      * intros (p & r & [K|K]); try discriminate. injection K; intros; subst. unfold fupd. rewrite Nat.eqb_refl. simpl. auto.
      * intro K. destruct (t1 _ w H u m o' K) as (B1 & B2 & B3 & B4). unfold fupd. eqr o' o; [congruence|]. auto.
    + intros r0. simpl. unfold fupd. eqr r0 o; simpl.
      * intros _. exists t. stk; simpl. rewrite Nat.eqb_refl. rewrite A2. exists par, rest. auto.
      * intro K. destruct (t3 _ w H r0 K) as [u Hu]. exists u. stk; simpl. pose proof (NC _ _ _ Hu). neqb. exact Hu.
    + intros m _. simpl. unfold fupd, nt. eqr m n; simpl.
      * intros _. right. exists t, o. stk; simpl. rewrite Nat.eqb_refl. exists par, rest. auto.
      * intro Hf. destruct (dr _ w H m n0 Hf) as [B|(u & o' & B)]; [left; auto|right]. exists u, o'. stk; simpl. pose proof (NC _ _ _ B). neqb. exact B.
    + intros u l0. stk. rewrite sem_setst. simpl. eqt u t; [intros (? & ? & [K|K]); discriminate|]. intros Hq.
      unfold fupd. eqr (w_rec l0) o; simpl; [discriminate|]. apply (sm _ w H u l0 Hq).
    + simpl. rewrite (dt _ w H). unfold dead1 at 1. rewrite A3. rewrite dead_sum; [reflexivity|].
      intros x I0. apply (q1 _ w H n x). rewrite Hw. right; auto.
    + intros e r0 I0 E. simpl in *. destruct (rt _ w H e r0 I0 E) as (B1 & B2). unfold fupd. eqr r0 o; [congruence|]. split; auto.
Qed.

Lemma trans_ok_refl st : trans_ok st st.
Proof.
  split; [|split]; [|tauto|intros l K; exists l; auto].
  intros l s I Hs. exists l, s. repeat split; auto.
Qed.
Lemma W4_C2 w t n par rest : pre_ok (FC n par C2 :: rest) -> W4 w -> stack (get w t) = FC n par C2 :: rest ->
  W4 (c_wloop (set_note w n (set_flag (nt w n) note_notify_child_store1_new)) t n par rest).
Proof.
  intros Hp H Est. apply (W4_pop _ t n par C2 rest); simpl; auto.
  - apply (W4_frame (fun _ => True) (fun m => m <> n) t w); [ | reflexivity | reflexivity | | | | | | |exact H].
    + intro r; repeat split.
    + intro m. simpl. unfold fupd, nt. eqr m n; reflexivity.
    + intros m Hm. simpl. unfold fupd, nt. eqr m n; [congruence|]. auto.
    + intros u l _. simpl. unfold get. lia.
    + intros u Hu. reflexivity.
    + intros e He. left. exact He.
    + apply trans_ok_refl.
  - unfold fupd, nt. rewrite Nat.eqb_refl. simpl. rewrite c_store1. lia.
Qed.

Lemma c_wloop_thr_ext w t st0 n par rest :
  let a := c_wloop (setst w t st0) t n par rest in let b := c_wloop w t n par rest in
  notes a = notes b /\ recs a = recs b /\ nrec a = nrec b /\ dead_touch a = dead_touch b /\ rets a = rets b /\ forall u, thr a u = thr b u.
Proof.
  simpl. unfold c_wloop, c_tail, ret_C. simpl. unfold nt; simpl.
  destruct (waiters (notes w n)); [destruct par|]; dmatch; simpl; repeat split; auto; intro u; unfold fupd, get; simpl; unfold fupd; rewrite ?Nat.eqb_refl; destruct (Nat.eqb u t); reflexivity.
Qed.

Lemma W4_C4 w t n par o rest : W3 w -> pre_ok (FC n par (C4 o) :: rest) -> W4 w -> stack (get w t) = FC n par (C4 o) :: rest -> flag (notes w n) <> 0 ->
  W4 (c_wloop (set_rec (set_sem (touch w o) (owner (recs w o)) (S (sem (get w (owner (recs w o)))))) o (set_rs (recs w o) RPosted)) t n par rest).
Proof.
  intros H3 Hp H Est Hfl. set (ow := owner (recs w o)). set (w3 := set_rec (set_sem (touch w o) ow (S (sem (get w ow)))) o (set_rs (recs w o) RPosted)).
  destruct (t1 _ w H t n o) as (A1 & A2 & A3 & A4); [rewrite Est; exists par, rest; auto|].
  assert (Hh : held_by (stack (get w t)) = Some n) by (rewrite Est; reflexivity).
  assert (Hp2 : pre_ok (FC n par C2 :: rest)) by (destruct Hp as [A B]; split; [exact A|inversion B; constructor; auto]).
  assert (SK : forall u, stack (get w3 u) = stack (get w u)) by (intro; unfold w3; stk; reflexivity).
  assert (SM : forall u, (sem (get w u) <= sem (get w3 u))%nat) by (intro u; unfold w3; simpl; unfold fupd, get; eqr u ow; simpl; lia).
  assert (SO : (1 <= sem (get w3 ow))%nat) by (unfold w3; simpl; unfold fupd, get; rewrite Nat.eqb_refl; simpl; lia).
  assert (RC : recs w3 = fupd (recs w) o (set_rs (recs w o) RPosted)) by reflexivity.
  assert (NT : notes w3 = notes w) by reflexivity.
  assert (NR : nrec w3 = nrec w) by reflexivity.
  assert (RT : rets w3 = rets w) by reflexivity.
  assert (DT : dead_touch w3 = dead_touch w + dead1 w o) by reflexivity.
  clearbody w3.
  assert (HX : W4g (fun m => m <> n) (setst w3 t (FC n par C2 :: rest))).
  { assert (NC : forall u m o', u <> t -> at_c34 (stack (get w u)) m o' -> o' <> o).
    { intros u m o' Hu K ->. destruct (t1 _ w H u m o K) as (_ & _ & B3 & _). apply Hu. eapply no_c34_while_held; eauto. congruence. }
    assert (NW : forall u m o', at_c34 (stack (get w u)) m o' -> o' <> o -> u <> t).
    { intros u m o' K Ho ->. rewrite Est in K. destruct K as (p & r & [K|K]); try discriminate. injection K; intros; subst; congruence. }
    constructor.
    - intros m r0. simpl. rewrite NT, RC, NR. intro I0. destruct (q1 _ w H m r0 I0) as (B1 & B2 & B3 & B4). unfold fupd. eqr r0 o; [congruence|]. auto.
    - intro m. simpl. rewrite NT. apply (q2 _ w H).
    - intros r0. simpl. rewrite NT, RC. unfold fupd. eqr r0 o; simpl; [discriminate|]. apply (q3 _ w H).
    - intros u l0 s0. stk. rewrite SK. simpl. rewrite RC, NR. intros I0 Hs.
      assert (I1 : In (AWait l0 s0) (stack (get w u))).
      { eqt u t; [|exact I0]. rewrite Est. destruct I0 as [I0|I0]; [discriminate|right; exact I0]. }
      destruct (r2 _ w H u l0 s0 I1 Hs) as (B1 & B2 & B3 & B4 & B5). unfold fupd. eqr (w_rec l0) o; [|repeat split; auto].
      rewrite e in *. simpl. rewrite A4 in B5. repeat split; auto. destruct (cls s0) as [|[|[|k]]]; simpl in *; auto; try discriminate.
    - intros u m o'. stk. rewrite SK. simpl. rewrite RC, NR. eqt u t; [intros (p & r & [K|K]); discriminate|].
      intro K. destruct (t1 _ w H u m o' K) as (B1 & B2 & B3 & B4). pose proof (NC _ _ _ n0 K). unfold fupd. eqr o' o; [congruence|]. auto.
    - intros r0. simpl. rewrite RC. unfold fupd. eqr r0 o; simpl; [discriminate|]. intro K. destruct (t3 _ w H r0 K) as [u Hu]. exists u.
      pose proof (NW _ _ _ Hu n0). change (at_c34 (stack (get (setst w3 t (FC n par C2 :: rest)) u)) (rnote (recs w r0)) r0). stk. neqb. rewrite SK. exact Hu.
    - intros m Hm. simpl. rewrite NT. intro Hf. destruct (dr _ w H m I Hf) as [B|(u & o' & B)]; [left; auto|right]. exists u, o'.
      assert (u <> t). { intros ->. rewrite Est in B. destruct B as (p & r & [B|B]); try discriminate. injection B; intros; subst; congruence. }
      change (at_c34 (stack (get (setst w3 t (FC n par C2 :: rest)) u)) m o'). stk. neqb. rewrite SK. exact B.
    - intros u l0. stk. rewrite sem_setst, SK. simpl. rewrite RC. eqt u t; [intros (? & ? & [K|K]); discriminate|].
      intros Hq. unfold fupd. eqr (w_rec l0) o; simpl.
      + intros _. destruct (at_p_in _ _ Hq) as (s0 & I0 & Hs & _). destruct (r2 _ w H u l0 s0 I0 Hs) as (_ & B2 & _). rewrite e in B2. fold ow in B2.
        rewrite <- B2. exact SO.
      + intro K. pose proof (sm _ w H u l0 Hq K). pose proof (SM u). lia.
    - simpl. rewrite DT, (dt _ w H). unfold dead1. rewrite A2. reflexivity.
    - intros e r0. simpl. rewrite RT, RC, NR. intros I0 E. destruct (rt _ w H e r0 I0 E) as (B1 & B2). unfold fupd. eqr r0 o; [congruence|]. split; auto. }
  assert (HY : W4 (c_wloop (setst w3 t (FC n par C2 :: rest)) t n par rest)).
  { apply (W4_pop _ t n par C2 rest); [exact Hp2 | exact I | exact HX | apply stack_t_setst | simpl; rewrite NT; exact Hfl]. }
  destruct (c_wloop_thr_ext w3 t (FC n par C2 :: rest) n par rest) as (E1 & E2 & E3 & E4 & E5 & E6).
  eapply W4_thr_ext; [| | | | | |exact HY]; auto.
Qed.
Ltac taw Est pre' l0 s0 l s := rewrite Est; rewrite ?stack_t_setst;
  apply (trans_ok_aw1 pre' l0 s0 l s); simpl; auto; repeat constructor; simpl; auto.
Ltac fr4s t w H4 := apply (W4_frame (fun _ => True) (fun _ => True) t w); [recprj | nrecprj | deadprj | noteprj | noteprj | | othprj | retsprj | | exact H4].
Lemma step_core_W4 w t c : W1 w -> W2 w -> W3 w -> W4 w -> W4 (fst (step_core w t c)).
Proof.
  intros H1 H2 H3 H4. assert (F2 := proj1 H2 t). pose proof (H1 t) as (Hwf & Htop & Hfr).
  unfold step_core. destruct (stack (get w t)) as [|f rest] eqn:Est; [exact H4|].
  assert (Hp : pre_ok (f :: rest)) by (split; auto).
  destruct f as [n s|n s par inc|n par s|n s|n|n|l s]; try exact H4.
  - (* FD *) destruct s; simpl; try exact H4.
    + dif; simpl; fr4 t w H4; [tgen Est [FD n D1] [FD n D2] rest|rewrite Est; apply (tr_ret_D w t n D1 []); simpl; auto].
    + dif; simpl; [|exact H4]. fr4 t w H4. tgen Est [FD n D2] [FD n D3] rest.
    + fr4 t w H4. tgen Est [FD n D3] [FD n (D4 (notified_time w n (flag (nt w n))))] rest.
    + dif; simpl; fr4 t w H4; [tgen Est [FD n (D4 x)] [FD n (D5 x)] rest|rewrite Est; apply (tr_ret_D (release w n) t n (D4 x) []); simpl; auto].
    + dif; simpl; fr4 t w H4; [tgen Est [FD n (D5 x)] [FN n N1 false false; FD n (D6 (clock w))] rest|rewrite Est; apply (tr_ret_D w t n (D5 x) []); simpl; auto].
  - (* FN *) destruct s; simpl; try exact H4.
    + dif; simpl; [|exact H4]. dif; simpl; fr4 t w H4; [tgen Est [FN n N1 par inc] [FN n N4 par inc] rest|tgen Est [FN n N1 par inc] [FN n N2 par inc] rest].
    + fr4 t w H4. tgen Est [FN n N2 par inc] [FN n N3 par inc] rest.
    + dif; simpl; [|exact H4]. fr4 t w H4. tgen Est [FN n N3 par inc] [FN n N4 par inc] rest.
    + dif; simpl; [dif; simpl|]; fr4 t w H4.
      * tgen Est [FN n N4 par inc] [FN n N5 true true] rest.
      * tgen Est [FN n N4 par inc] [FC n false C1; FN n N9 false true] rest.
      * tgen Est [FN n N4 par inc] [FN n N11 par false] rest.
    + destruct c; simpl; fr4 t w H4; [tgen Est [FN n N5 par inc] [FN n N6 par inc] rest|tgen Est [FN n N5 par inc] [FC n par C1; FN n N9 par inc] rest].
    + fr4 t w H4. tgen Est [FN n N6 par inc] [FN n N7 par inc] rest.
    + fr4 t w H4. tgen Est [FN n N7 par inc] [FN n N8 par inc] rest.
    + dif; simpl; [|exact H4]. fr4 t w H4. tgen Est [FN n N8 par inc] [FC n par C1; FN n N9 par inc] rest.
    + fr4 t w H4. tgen Est [FN n N10 par inc] [FN n N11 par inc] rest.
    + destruct inc; fr4 t w H4; rewrite Est; apply tr_ret_N; simpl; auto.
  - (* FC *) destruct s; simpl.
    + dif; simpl; fr4 t w H4; [tgen Est [FC n par C1] [FC n par C2] rest|rewrite Est; apply tr_ret_C; simpl; auto].
    + eapply W4_C2; eauto.
    + exact (W4_C3 w t n par o rest H4 Est).
    + apply Forall_inv2 in F2 as [F2 _]. simpl in F2. exact (W4_C4 w t n par o rest H3 Hp H4 Est F2).
  - (* FP *) destruct s; simpl; try exact H4.
    + dif; simpl; [|exact H4]. dif; simpl; fr4 t w H4; [tgen Est [FP n P1] [FC n true C1; FP n P2] rest|tgen Est [FP n P1] [FP n (P3 false)] rest].
    + destruct dec; fr4 t w H4; tgen Est [FP n (P3 true)] (@nil frame) rest.
  - (* AWait *) apply wf_AWait in Hwf as Hr. subst rest. destruct s; simpl; try exact H4.
    + (* WPlain *) destruct c; simpl.
      * dif; simpl; [|exact H4]. fr4 t w H4. tgen Est [AWait l WPlain] (@nil frame) (@nil frame).
      * destruct (sem (get w t)) eqn:Es; simpl; [exact H4|]. fr4s t w H4.
        -- intros u l0 Hq. eqt u t; [rewrite stack_t_finish_wait in Hq; destruct Hq as (? & ? & [?|?]); discriminate|].
           rewrite sem_finish_wait. unfold set_sem, set_thr, get; simpl; unfold fupd. neqb. lia.
        -- tgen Est [AWait l WPlain] (@nil frame) (@nil frame).
    + exact (W4_WSt w t l n H4 Est).
    + dif; simpl; [|exact H4]. fr4 t w H4. taw Est (@nil frame) l (WLk1 n) l (WLd1 n).
    + destruct (tpos (notified_time w n (flag (nt w n)))) eqn:Ex; simpl.
      * apply tpos_nt_true in Ex as [_ Ex]. eapply (W4_WLd1 w t l n H4 Est Ex). reflexivity.
      * fr4 t w H4. taw Est (@nil frame) l (WLd1 n) (wl_out (wl_enq l (notified_time w n (flag (nt w n))) false None) ECANCELED YLocked) (WUnl n).
    + fr4 t w H4. taw Est (@nil frame) l (WUn1 n) l (WP n).
    + destruct c; simpl.
      * dif; simpl; [|exact H4]. dif; simpl; fr4 t w H4.
        -- taw Est (@nil frame) l (WP n) (wl_toclk (wl_out l ETIMEDOUT YTimeout) (clock w)) (WLk2 n).
        -- taw Est [FD n D1; FNotify n] l (WP n) (wl_toclk (wl_out l ECANCELED YExpiry) (clock w)) (WNtf n).
      * destruct (sem (get w t)) eqn:Es; simpl; [exact H4|]. fr4s t w H4.
        -- intros u l0 Hq. rewrite sem_setst. eqt u t; [rewrite stack_t_setst in Hq; destruct Hq as (? & ? & [?|?]); discriminate|].
           unfold set_sem, set_thr, get; simpl; unfold fupd. neqb. lia.
        -- taw Est (@nil frame) l (WP n) (wl_took (wl_out l 0 YOk) (S n0)) (WLk2 n).
    + dif; simpl; [|exact H4]. fr4 t w H4. taw Est (@nil frame) l (WLk2 n) l (WLd2 n).
    + apply Forall_inv2 in F2 as [F2 _]. simpl in F2. destruct F2 as [(Fa & Fb & _) _].
      destruct (tpos (notified_time w n (flag (nt w n)))) eqn:Ex; simpl.
      * apply tpos_nt_true in Ex as [_ Ex]. exact (W4_WLd2a w t l n H3 H4 Est Ex).
      * apply W4_WLd2b; auto. apply tpos_nt in Ex. destruct Ex as [Ex|Ex]; [exact Ex|]. rewrite <- Fa in Ex. congruence.
    + exact (W4_WUnl w t l n H4 Est).
Qed.

(* ------------------------------------------------------------------------------------------------ *)
(* the layer holds in every reachable world *)
Lemma trans_ok_new st' : qtop st' -> (forall l s, In (AWait l s) st' -> has_rec s = false) -> trans_ok [] st'.
Proof.
  intros Q A. split; [|split].
  - intros l s I0 Hs. rewrite (A l s I0) in Hs. discriminate.
  - intros n o. split; intro K; exfalso; [apply (qtop_c34 _ _ _ Q K)|destruct K as (? & ? & [K|K]); discriminate].
  - intros l K. exfalso. apply (qtop_p _ _ Q K).
Qed.
Lemma begin_call_W4 w t : W4 w -> W4 (begin_call w t).
Proof.
  intros H. unfold begin_call. destruct (stack (get w t)) eqn:Es; [|exact H]. destruct (prog (get w t)) as [|o rest]; [exact H|].
  apply (W4_frame (fun _ => True) (fun _ => True) t w); [intro; repeat split|reflexivity|reflexivity|reflexivity|intros m _ Hf; left; split; auto| | |intros e He; left; exact He| |exact H].
  - intros u l _. unfold set_thr, get; simpl; unfold fupd. destruct (Nat.eqb_spec u t); subst; simpl; lia.
  - intros u Hu. unfold set_thr, get; simpl; unfold fupd. neqb. reflexivity.
  - rewrite Es. unfold set_thr, get; simpl; unfold fupd. rewrite Nat.eqb_refl. simpl.
    destruct o as [[m|] dl|m|m|m]; simpl; repeat dif; apply trans_ok_new; simpl; auto;
      intros l s I0; repeat (destruct I0 as [I0|I0]; [try discriminate; injection I0; intros; subst; reflexivity|]); destruct I0.
Qed.
Lemma exec_W4 w a : W1 w -> W2 w -> W3 w -> W4 w -> W4 (exec w a).
Proof.
  intros H1 H2 H3 H. destruct a as [t c|d|o|t]; simpl.
  - rewrite step_eq. apply step_core_W4; [apply begin_call_W1, H1|apply begin_call_W2, H2|apply begin_call_W3, H3|apply begin_call_W4, H].
  - apply (W4_frame (fun _ => True) (fun _ => True) O w); [intro; repeat split|reflexivity|reflexivity|reflexivity|intros m _ Hf; left; split; auto| | |intros e He; left; exact He| |exact H].
    + intros u l _. simpl. unfold get. lia.
    + intros u Hu. reflexivity.
    + apply trans_ok_refl.
  - apply (W4_frame (fun _ => True) (fun _ => True) o w); [intro; repeat split|reflexivity|reflexivity|reflexivity|intros m _ Hf; left; split; auto| | |intros e He; left; exact He| |exact H].
    + intros u l _. unfold env_v, set_sem, set_thr, get; simpl; unfold fupd. destruct (Nat.eqb_spec u o); subst; simpl; lia.
    + intros u Hu. unfold env_v. stk. reflexivity.
    + unfold env_v. stk. apply trans_ok_refl.
  - unfold env_p. destruct (stack (get w t)) eqn:Es; [|exact H]. destruct (sem (get w t)) eqn:Em; [exact H|].
    apply (W4_frame (fun _ => True) (fun _ => True) t w); [intro; repeat split|reflexivity|reflexivity|reflexivity|intros m _ Hf; left; split; auto| | |intros e He; left; exact He| |exact H].
    + intros u l Hq. rewrite stack_set_sem in Hq. unfold set_sem, set_thr, get; simpl; unfold fupd. destruct (Nat.eqb_spec u t); subst; simpl; [|lia].
      rewrite Es in Hq. destruct Hq as (? & ? & [K|K]); discriminate.
    + intros u Hu. stk. reflexivity.
    + stk. apply trans_ok_refl.
Qed.
Lemma init_W4 c0 ns progs : W4 (init c0 ns progs).
Proof.
  assert (WT : forall m, waiters (notes (init c0 ns progs) m) = []).
  { intro m. simpl. destruct (nth_error ns m) as [[e p]|]; reflexivity. }
  assert (FL : forall m, flag (notes (init c0 ns progs) m) = 0).
  { intro m. simpl. destruct (nth_error ns m) as [[e p]|]; reflexivity. }
  constructor.
  - intros m r. rewrite WT. intros [].
  - intro m. rewrite WT. constructor.
  - intros r. simpl. discriminate.
  - intros t l s. rewrite init_stack. intros [].
  - intros u n o. rewrite init_stack. intros (? & ? & [K|K]); discriminate.
  - intros r. simpl. discriminate.
  - intros n _. rewrite FL. congruence.
  - intros t l. rewrite init_stack. intros (? & ? & [K|K]); discriminate.
  - reflexivity.
  - intros e r [].
Qed.
Lemma run_W1234 sched : forall w, W1 w -> W2 w -> W3 w -> W4 w -> W4 (run w sched).
Proof.
  unfold run. induction sched as [|a s IH]; intros w H1 H2 H3 H4; simpl; [auto|].
  apply IH; [apply exec_W1|apply exec_W2|apply exec_W3|apply exec_W4]; auto.
Qed.
Lemma reachable_W4 w : reachable w -> W4 w.
Proof. intros (c0 & ns & progs & sched & _ & ->). apply run_W1234; [apply init_W1|apply init_W2|apply init_W3|apply init_W4]. Qed.

(* ------------------------------------------------------------------------------------------------ *)
(* the statements of Properties_C05sw.v that rest on this layer *)
Lemma sw_no_dead_touch w : reachable w -> dead_touch w = 0.
Proof. intro R. apply (dt _ w (reachable_W4 w R)). Qed.
Lemma sw_queue w m r : reachable w -> In r (waiters (nt w m)) ->
  (r < nrec w)%nat /\ rnote (recs w r) = m /\ live (recs w r) = true /\ NoDup (waiters (nt w m)).
Proof. intros R I0. pose proof (reachable_W4 w R) as H. destruct (q1 _ w H m r I0) as (A & B & C & _). repeat split; auto. apply (q2 _ w H). Qed.
Lemma taking_c34 w u n r : taking w u n r <-> at_c34 (stack (get w u)) n r.
Proof. unfold taking, at_c34. tauto. Qed.
Lemma sw_taken_live w u n r : reachable w -> taking w u n r ->
  live (recs w r) = true /\ rnote (recs w r) = n /\ lock (nt w n) = Some u /\ (forall m, ~ In r (waiters (nt w m))).
Proof.
  intros R K. apply taking_c34 in K. pose proof (reachable_W4 w R) as H. destruct (t1 _ w H u n r K) as (A & B & C & D). repeat split; auto.
  - apply (reachable_W3 w R). destruct K as (p & rest & [E|E]); rewrite E; reflexivity.
  - intros m I0. destruct (q1 _ w H m r I0) as (_ & _ & _ & Q). congruence.
Qed.
Lemma sw_clean w e r : reachable w -> In e (rets w) -> e_rec e = Some r -> live (recs w r) = false /\ forall m, ~ In r (waiters (nt w m)).
Proof.
  intros R I0 E. pose proof (reachable_W4 w R) as H. destruct (rt _ w H e r I0 E) as (A & B). split; auto.
  intros m I1. destruct (q1 _ w H m r I1) as (_ & _ & L & _). congruence.
Qed.
Lemma sw_no_lost_cancel w t n l : reachable w -> in_P w t n l -> flag (nt w n) <> 0 ->
  (1 <= sem (get w t))%nat \/ exists u, draining w u n.
Proof.
  intros R (rest & Est) Hf. pose proof (reachable_W4 w R) as H.
  destruct (r2 _ w H t l (WP n)) as (A1 & A2 & A3 & A4 & A5); [rewrite Est; left; auto|reflexivity|]. simpl in A4, A5. injection A4 as A4.
  destruct A5 as [Q|[Q|Q]].
  - pose proof (q3 _ w H _ Q) as I0. rewrite A4 in I0. destruct (dr _ w H n I Hf) as [B|(u & o & B)]; [rewrite B in I0; destruct I0|].
    right. exists u. destruct B as (p & r & B). exists p, o, r. exact B.
  - destruct (t3 _ w H _ Q) as [u B]. rewrite A4 in B. right. exists u. destruct B as (p & r & B). exists p, (w_rec l), r. exact B.
  - left. apply (sm _ w H t l); auto. exists n, rest. right. exact Est.
Qed.
