(* MuDbgProof: the debug-state functions as participants of the mutex model (C16, first sentence).
   Proofs about Model/MuDbgModel.v = Model/MuModel.v + debugger threads (emit_mu_state of internal/debug.c,
   nsync_spin_test_and_set_ of internal/common.c).

   Part 1  the base model's own spinlock discipline, per step (step_spin): a locker step that neither takes nor
           drops the queue spinlock leaves MU_SPINLOCK, MU_WAITING and the queue alone; it takes the spinlock only
           from a word in which the bit is clear; dropping it clears the bit.  (MuProof2's QInv / MuProof3's HInv
           know this only as part of invariants that assume every spinlock owner is a locker thread.)
   Part 2  what one debugger step does (dbg_step_facts): a local step, the acquiring CAS, or the releasing CAS
   Part 3  the two values a debugger writes to the word: lock view (WordView.SL) and every bit except bit 1 kept
   Part 4  the invariant DInv1 of the combined system = MuProof.Inv + MuProof2.QInv of the base world (UNCHANGED
           definitions, re-established across debugger steps) + DOwn (ghost owner <-> pc, owner => bit set and no
           locker inside a spinlock section, at most one owner, bit set => some owner, and the fact QInv's Q6 needs
           when a debugger drops the spinlock); preservation by locker steps and by debugger steps
   Part 5  reachable worlds: the lemmas used by Props/Properties_C16a.v (a)-(d)
   The hand-off invariant (no lost wake-up) for the combined system is in MuDbgProof2.v; examples and the
   stale-store regression (finding F2) in MuDbgProof3.v. *)
From NsyncBase Require Import CSem.
From NsyncGen Require Import Consts Sites.
From NsyncModel Require Import MuModel MuSpec MuDbgModel.
From NsyncProof Require Import WordView MuProof MuProof2 MuProof3.
From Coq Require Import List ZArith Bool Lia PeanoNat Permutation.
Import ListNotations.
Local Open Scope Z_scope.

Ltac Zify.zify_post_hook ::= Z.div_mod_to_equations.

(* ================================================================== *)
(* Part 1: the base model's spinlock ownership, per step                *)
(* ================================================================== *)

Definition spin_rel (o o' : bool) (x x' : Z) (q q' : list nat) : Prop :=
  match o, o' with
  | false, false => FP x x' /\ q' = q
  | false, true => tb1 x = false
  | true, false => tb1 x' = false
  | true, true => True
  end.

Lemma begin_op_own w t t' : own (kof (begin_op w t) t') = own (kof w t').
Proof.
  destruct (Nat.eq_dec t' t) as [->|N].
  2:{ unfold kof. rewrite begin_op_frame by exact N. reflexivity. }
  unfold begin_op. cbv zeta.
  destruct (t_pc (get w t)) eqn:E; try reflexivity. destruct (t_ops (get w t)); try reflexivity.
  unfold kof at 2. rewrite E. cbn [role_of own].
  destruct (Nat.lt_ge_cases t (length (thr w))) as [L|G].
  - unfold kof. rewrite get_set_t_same by exact L. cbn [t_pc]. destruct o, (held (get w t)); reflexivity.
  - unfold kof, get, set_t; cbn [thr]. rewrite nth_overflow by (now rewrite length_lupd). reflexivity.
Qed.

Lemma spin_case w w' t s s' :
  (t < length (thr w))%nat -> get w t = s -> thr w' = lupd (thr w) t s' ->
  spin_rel (own (role_of (t_pc s))) (own (role_of (t_pc s'))) (word w) (word w') (queue w) (queue w') ->
  spin_rel (own (kof w t)) (own (kof w' t)) (word w) (word w') (queue w) (queue w').
Proof.
  intros Ht Hs E H. unfold kof. rewrite Hs. unfold get. rewrite E, nth_lupd_same by exact Ht. exact H.
Qed.

Lemma spin_rel_refl o x q : spin_rel o o x x q q.
Proof. destruct o; cbn; [exact I | split; [apply FP_refl | reflexivity]]. Qed.

Section SpinStep.
Variable n : nat.
Hypothesis Hn : Z.of_nat n < 16777215.

Ltac sp Ht Hs Hs' :=
  eapply spin_case;
  [ exact Ht | exact Hs | normt Hs' Ht; reflexivity
  | normt Hs' Ht; cbn [t_pc role_of own spin_rel]; try (split; [try apply FP_refl | reflexivity]) ].

Lemma step_spin w0 t : Inv n w0 -> QInv w0 ->
  spin_rel (own (kof w0 t)) (own (kof (fst (step w0 t)) t))
           (word w0) (word (fst (step w0 t))) (queue w0) (queue (fst (step w0 t))).
Proof.
  intros H0 HQ. apply (begin_op_qinv _ t) in HQ. apply (begin_op_inv _ _ t) in H0.
  rewrite <- (begin_op_own w0 t t), <- (begin_op_word w0 t), <- (begin_op_queue w0 t).
  unfold step. revert H0 HQ. generalize (begin_op w0 t). intros w H0 HQ. cbv zeta.
  destruct (Nat.lt_ge_cases t (length (thr w))) as [Ht|Ht].
  2:{ unfold kof. rewrite !get_oob by exact Ht. unfold dflt_t; cbn [t_pc fst].
      cbn [t_pc fst role_of own spin_rel]. split; [apply FP_refl | reflexivity]. }
  pose proof H0 as (Hlen & _ & Hok). specialize (Hok t).
  pose proof (Inv_held n w t) as Hheld. specialize (fun m => Hheld m H0).
  pose proof HQ as (_ & _ & HA). specialize (HA t).
  destruct (get w t) as [p ops h sl lt] eqn:Hs.
  pose proof Hs as Hs'. unfold get in Hs'. rewrite Hs' in Hok.
  unfold pc_ok in Hok. cbn [t_pc t_ops held sleeps last_try] in *.
  destruct p.
  - (* Idle *) apply spin_rel_refl.
  - (* LkFast *) cas_split w; sp Ht Hs Hs'. rewrite Hcas. apply FP_fast_new.
  - (* LkLoad *) destruct (fast_guard2 m (word w)); cbn [fst]; sp Ht Hs Hs'.
  - (* LkCas2 *) destruct Hok as [_ G]. cas_split w; sp Ht Hs Hs'. subst old. apply FP_fast_new2, G.
  - (* TryFast *) cas_split w; sp Ht Hs Hs'. rewrite Hcas. apply FP_try_new.
  - (* TryLoad *) destruct (try_guard2 m (word w)); cbn [fst]; sp Ht Hs Hs'.
  - (* TryCas2 *) destruct Hok as [_ G]. cas_split w; sp Ht Hs Hs'. subst old. apply FP_try_new2, G.
  - (* LsLoad *)
    destruct (nsync_mu_lock_slow_cas1_guard (word w) (zta l)) eqn:G1; cbn [fst].
    + sp Ht Hs Hs'.
    + destruct (nsync_mu_lock_slow_cas2_guard (word w) (zta l)) eqn:G2; cbn [fst].
      * sp Ht Hs Hs'.
      * apply spin_rel_refl.
  - (* LsCasAcq *) destruct Hok as (_ & Hl & G). cas_split w; sp Ht Hs Hs'.
    subst old. apply FP_lock_slow_cas1; assumption.
  - (* LsCasEnq *) cas_split w; sp Ht Hs Hs'. rewrite Hcas. exact HA.
  - (* LsStoreWaiting *) cbn [fst]. sp Ht Hs Hs'. exact I.
  - (* LsRelLoad *) cbn [fst]. sp Ht Hs Hs'. exact I.
  - (* LsRelCas *) cas_split w; sp Ht Hs Hs'.
    + subst old. apply release_spinlock_bits.
    + exact I.
  - (* LsWaitLoad *) destruct (waiting w t) eqn:Ew; cbn [fst]; sp Ht Hs Hs'.
  - (* LsSemP *) destruct (0 <? sem w t); cbn [fst]; [sp Ht Hs Hs' | apply spin_rel_refl].
  - (* UlFast *) subst h. specialize (Hheld m eq_refl). cas_split w; sp Ht Hs Hs'.
    rewrite Hcas. apply FP_ufast.
  - (* UlLoad *)
    destruct (unlock_try_cas2 m (word w)); [| destruct (unlock_bad m (word w))]; cbn [fst]; sp Ht Hs Hs'.
  - (* UlCas2 *) subst h. specialize (Hheld m eq_refl). cas_split w; sp Ht Hs Hs'.
    subst old. apply FP_unlock_new2, Hheld.
  - (* UsLoad *)
    destruct (has (word w) MU_CONDITION);
      [| destruct (nsync_mu_unlock_slow_cas1_guard (word w));
         [| destruct (nsync_mu_unlock_slow_cas2_guard (word w)) eqn:G2]]; cbn [fst];
      try apply spin_rel_refl; sp Ht Hs Hs'.
  - (* UsCasRel *) subst h. specialize (Hheld m eq_refl). cas_split w; sp Ht Hs Hs'.
    subst old. apply FP_unlock_slow_cas1, Hheld.
  - (* UsCasSpin *) subst h. specialize (Hheld m eq_refl). cas_split w.
    + destruct (us_after_scan _) as [u keep] eqn:E. cbn [fst]. sp Ht Hs Hs'. rewrite Hcas. apply HA.
    + sp Ht Hs Hs'.
  - (* UsRelLoad *) cbn [fst]. sp Ht Hs Hs'. exact I.
  - (* UsRelCas *) destruct Hok as (_ & (Hlate & _)). cas_split w.
    + destruct HA as (Nw & C1 & S1 & S2). sp Ht Hs Hs'.
      destruct (wake u) eqn:Ew; [now elim Nw|]. cbn [role_of own].
      subst old. destruct (unlock_slow_cas3_bits u (word w) Hlate) as [B1 B2].
      rewrite B1, C1. apply andb_false_r.
    + sp Ht Hs Hs'. exact I.
  - (* UsWakeStore *) destruct (wake u) as [|p rest] eqn:Ew; cbn [fst]; sp Ht Hs Hs'.
  - (* UsWakeV *) cbn [fst]. sp Ht Hs Hs'.
    destruct (wake u); cbn [role_of own]; (split; [apply FP_refl | reflexivity]).
  - (* Crash *) apply spin_rel_refl.
Qed.
End SpinStep.

(* ================================================================== *)
(* Part 2: what one debugger step does                                 *)
(* ================================================================== *)

Definition downer (w : dworld) (d : nat) : bool := d_owner (dget w d).
Definition dpcof (w : dworld) (d : nat) : dpc := d_pc (dget w d).
(* the pcs between the acquiring CAS of nsync_spin_test_and_set_ and the releasing CAS of emit_mu_state *)
Definition owner_pc (p : dpc) : bool :=
  match p with DWalkW _ _ | DWalkR _ _ | DRelLoad _ | DRelCas _ => true | _ => false end.
(* the CAS of nsync_spin_test_and_set_ is attempted only on a value in which the test bit was clear *)
Definition dpc_ok (p : dpc) : Prop := match p with DSpinCas _ old => tb1 old = false | _ => True end.

Lemma dget_oob w d : (length (dbg w) <= d)%nat -> dget w d = dflt_d.
Proof. intros. unfold dget. now apply nth_overflow. Qed.

Lemma dget_dset_same w d s : (d < length (dbg w))%nat -> dget (dset w d s) d = s.
Proof. intros H. unfold dget, dset; cbn [dbg]. now apply nth_lupd_same. Qed.

Lemma dget_dset_other w d d' s : d' <> d -> dget (dset w d s) d' = dget w d'.
Proof. intros H. unfold dget, dset; cbn [dbg]. now apply nth_lupd_other. Qed.

Lemma spin_guard_tb1 v : nsync_spin_test_and_set_cas1_guard v MU_SPINLOCK = true -> tb1 v = false.
Proof.
  unfold nsync_spin_test_and_set_cas1_guard. rewrite negb_involutive. intros G. apply Z.eqb_eq in G.
  change (wrap_u 32 0) with 0 in G. apply (zero_test_bit v MU_SPINLOCK 1); [lia | reflexivity | exact G].
Qed.

Lemma after_walk_1 : after_walk 1 = DRelLoad true.  Proof. reflexivity. Qed.
Lemma after_walk_0 : after_walk 0 = DIdle.          Proof. reflexivity. Qed.

Lemma walk_pc_owner rest : owner_pc (walk_pc rest) = true.
Proof. destruct rest; reflexivity. Qed.
Lemma walku_pc_owner k : owner_pc (walku_pc k) = false.
Proof. destruct k; reflexivity. Qed.
Lemma walk_pc_ok rest : dpc_ok (walk_pc rest).
Proof. destruct rest; exact I. Qed.
Lemma walku_pc_ok k : dpc_ok (walku_pc k).
Proof. destruct k; exact I. Qed.

(* the three kinds of debugger step: b, o = base world and ownership before; b', o' = after *)
Inductive dkind (b : world) (o : bool) (b' : world) (o' : bool) : Prop :=
| K_local : b' = b -> o' = o -> dkind b o b' o'
| K_acquire : o = false -> o' = true -> tb1 (word b) = false ->
              b' = set_word b (nsync_spin_test_and_set_cas1_new (word b) MU_SPINLOCK 0) -> dkind b o b' o'
| K_release : o = true -> o' = false ->
              b' = set_word b (emit_mu_state_cas1_new (word b)) -> dkind b o b' o'.

Ltac dnorm Hs Hd :=
  unfold downer, dpcof, dset_pc, dset_owner, dnote_read, dnote_unsafe, dset_base, dset, dget;
  cbn [base dbg];
  repeat first [ rewrite Hs | rewrite nth_lupd_same by exact Hd | rewrite lupd_lupd ];
  cbn [d_pc d_ops d_owner d_read d_unsafe].

Definition DFacts (w w' : dworld) (d : nat) : Prop :=
  length (dbg w') = length (dbg w) /\
  (forall d', d' <> d -> dget w' d' = dget w d') /\
  downer w' d = owner_pc (dpcof w' d) /\ dpc_ok (dpcof w' d) /\
  dkind (base w) (downer w d) (base w') (downer w' d).

Lemma dbegin_facts w d :
  dpc_ok (dpcof w d) -> downer w d = owner_pc (dpcof w d) -> DFacts w (dbegin w d) d.
Proof.
  intros Hok Hag. unfold DFacts, dbegin. cbv zeta.
  assert (dkind (base w) (downer w d) (base w) (downer w d)) as KL by (apply K_local; reflexivity).
  destruct (Nat.lt_ge_cases d (length (dbg w))) as [Hd|Hd].
  2:{ unfold dpcof, downer in *. rewrite dget_oob in * by exact Hd. cbn [d_pc d_ops dflt_d].
      rewrite !dget_oob by exact Hd. auto 10. }
  destruct (dget w d) as [p ops o rd us] eqn:Hs. pose proof Hs as Hs'. unfold dget in Hs'.
  unfold dpcof, downer in *. rewrite Hs in *. cbn [d_pc d_ops d_owner d_read d_unsafe] in *.
  destruct p; try (rewrite Hs; auto 10; fail).
  destruct ops as [|op rest]; [rewrite Hs; auto 10|].
  split; [unfold dset; cbn [dbg]; apply length_lupd|].
  split; [intros d' N; now apply dget_dset_other|].
  rewrite dget_dset_same by exact Hd. cbn [d_pc d_owner owner_pc dpc_ok].
  split; [exact Hag|]. split; [exact I|]. apply K_local; reflexivity.
Qed.

(* dbg_step after its [dbegin] *)
Definition dcore (w : dworld) (d : nat) : dworld * dev :=
  let b := base w in
  match d_pc (dget w d) with
  | DIdle => (w, DEvNone)
  | DLoad c =>
      let v := word b in
      let p := if wants_spinlock c v then DSpinLoad c true
               else if c_print c then walku_pc (c_loads c) else DIdle in
      (dset_pc w d p, DEvLoad 1201 v)
  | DSpinLoad c first =>
      let v := word b in
      let site := if first then 1001 else 1003 in
      if nsync_spin_test_and_set_cas1_guard v MU_SPINLOCK
      then (dset_pc w d (DSpinCas c v), DEvLoad site v)
      else (dset_pc w d (DSpinLoad c false), DEvLoad site v)
  | DSpinCas c old =>
      let new := nsync_spin_test_and_set_cas1_new old MU_SPINLOCK 0 in
      let '(b1, ok) := cas b old new in
      if ok then (dset_pc (dset_owner (dset_base w b1) d true) d (walk_pc (firstn (c_recs c) (queue b1))),
                  DEvCas 1002 old new true)
      else (dset_pc w d (DSpinLoad c false), DEvCas 1002 old new false)
  | DWalkW p rest =>
      (dset_pc (dnote_read w d p) d (DWalkR p rest), DEvReadWaiting p (if waiting b p then 1 else 0))
  | DWalkR p rest => (dset_pc w d (walk_pc rest), DEvReadRemove p)
  | DRelLoad first => (dset_pc w d (DRelCas (word b)), DEvLoad (if first then 1202 else 1204) (word b))
  | DRelCas old =>
      let new := emit_mu_state_cas1_new old in
      let '(b1, ok) := cas b old new in
      if ok then (dset_pc (dset_owner (dset_base w b1) d false) d DIdle, DEvCas 1203 old new true)
      else (dset_pc w d (DRelLoad false), DEvCas 1203 old new false)
  | DWalkU n => (dset_pc (dnote_unsafe w d) d (walku_pc (pred n)), DEvReadUnsafe)
  end.

Lemma dbg_step_eq w d : dbg_step w d = dcore (dbegin w d) d.
Proof. reflexivity. Qed.

Lemma dcore_facts w d :
  dpc_ok (dpcof w d) -> downer w d = owner_pc (dpcof w d) -> DFacts w (fst (dcore w d)) d.
Proof.
  intros Hok Hag. unfold DFacts, dcore. cbv zeta.
  assert (dkind (base w) (downer w d) (base w) (downer w d)) as KL by (apply K_local; reflexivity).
  destruct (Nat.lt_ge_cases d (length (dbg w))) as [Hd|Hd].
  2:{ unfold dpcof, downer in *. rewrite dget_oob in * by exact Hd. cbn [d_pc d_ops dflt_d fst].
      rewrite !dget_oob by exact Hd. auto 10. }
  destruct (dget w d) as [p ops o rd us] eqn:Hs. pose proof Hs as Hs'. unfold dget in Hs'.
  unfold dpcof, downer in *. rewrite Hs in *. cbn [d_pc d_ops d_owner d_read d_unsafe] in *.
  assert (forall s' d', d' <> d -> nth d' (lupd (dbg w) d s') dflt_d = nth d' (dbg w) dflt_d) as OT
    by (intros; now apply nth_lupd_other).
  assert (length (lupd (dbg w) d dflt_d) = length (dbg w)) as LL by apply length_lupd.
  Local Ltac d5 Hs' Hd OT :=
    cbn [fst]; dnorm Hs' Hd;
    (split; [apply length_lupd|]); (split; [intros; apply OT; assumption|]).
  destruct p.
  - (* DIdle *) cbn [fst]. rewrite Hs. auto 10.
  - (* DLoad *) d5 Hs' Hd OT.
    destruct (wants_spinlock c (word (base w))); [|destruct (c_print c)];
      cbn [owner_pc dpc_ok]; rewrite ?walku_pc_owner; auto using walku_pc_ok.
  - (* DSpinLoad *) destruct (nsync_spin_test_and_set_cas1_guard (word (base w)) MU_SPINLOCK) eqn:G; d5 Hs' Hd OT.
    + cbn [owner_pc dpc_ok]. auto using spin_guard_tb1.
    + cbn [owner_pc dpc_ok]. auto.
  - (* DSpinCas *) unfold cas. destruct (Z.eqb_spec (word (base w)) old) as [E|E]; cbv beta iota; d5 Hs' Hd OT.
    + rewrite walk_pc_owner. split; [reflexivity|]. split; [apply walk_pc_ok|].
      cbn [owner_pc] in Hag. cbn [dpc_ok] in Hok. apply K_acquire; [exact Hag | reflexivity | now rewrite E | now rewrite E].
    + cbn [owner_pc dpc_ok]. auto.
  - (* DWalkW *) d5 Hs' Hd OT. cbn [owner_pc dpc_ok]. auto.
  - (* DWalkR *) d5 Hs' Hd OT. rewrite walk_pc_owner. auto using walk_pc_ok.
  - (* DRelLoad *) d5 Hs' Hd OT. cbn [owner_pc dpc_ok]. auto.
  - (* DRelCas *) unfold cas. destruct (Z.eqb_spec (word (base w)) old) as [E|E]; cbv beta iota; d5 Hs' Hd OT.
    + cbn [owner_pc dpc_ok]. split; [reflexivity|]. split; [exact I|].
      cbn [owner_pc] in Hag. apply K_release; [exact Hag | reflexivity | now rewrite E].
    + cbn [owner_pc dpc_ok]. auto.
  - (* DWalkU *) d5 Hs' Hd OT. rewrite walku_pc_owner. auto using walku_pc_ok.
Qed.

Lemma dbegin_local w d : base (dbegin w d) = base w /\ downer (dbegin w d) d = downer w d.
Proof.
  unfold dbegin. cbv zeta. destruct (d_pc (dget w d)) eqn:Ep; try (split; reflexivity).
  destruct (d_ops (dget w d)) eqn:Eo; [split; reflexivity|]. split; [reflexivity|].
  unfold downer. destruct (Nat.lt_ge_cases d (length (dbg w))) as [Hd|Hd].
  - rewrite dget_dset_same by exact Hd. reflexivity.
  - rewrite dget_oob in Eo by exact Hd. discriminate Eo.
Qed.

Lemma dbg_step_facts w d :
  dpc_ok (dpcof w d) -> downer w d = owner_pc (dpcof w d) -> DFacts w (fst (dbg_step w d)) d.
Proof.
  intros Hok Hag. rewrite dbg_step_eq.
  destruct (dbegin_facts w d Hok Hag) as (L1 & O1 & A1 & P1 & _).
  destruct (dcore_facts (dbegin w d) d P1 A1) as (L2 & O2 & A2 & P2 & K2).
  destruct (dbegin_local w d) as [E1 E2]. rewrite E1, E2 in K2.
  split; [congruence|]. split; [intros d' N; rewrite O2, O1 by exact N; reflexivity|]. auto.
Qed.

(* ================================================================== *)
(* Part 3: the two values a debugger writes to the word                *)
(* ================================================================== *)

Lemma rng_high_bits x k : rng x -> 32 <= k -> Z.testbit x k = false.
Proof.
  intros R Hk. unfold rng in R. rewrite <- (Z.mod_small x (2 ^ 32)) by (change (2 ^ 32) with 4294967296; lia).
  apply Z.mod_pow2_bits_high. lia.
Qed.

Lemma tb_two k : k <> 1 -> Z.testbit 2 k = false.
Proof.
  intros N. destruct (Z_lt_ge_dec k 0) as [L|G]; [now apply Z.testbit_neg_r|].
  change 2 with (2 ^ 1). rewrite Z.pow2_bits_eqb by lia. apply Z.eqb_neq. lia.
Qed.

(* two 32-bit words that agree on bits 0..31 except bit 1 agree on every bit except bit 1 *)
Lemma bits_except1 x y : rng x -> rng y ->
  (forall k, 0 <= k < 32 -> k <> 1 -> Z.testbit y k = Z.testbit x k) ->
  forall k, k <> 1 -> Z.testbit y k = Z.testbit x k.
Proof.
  intros Rx Ry H k N. destruct (Z_lt_ge_dec k 0) as [L|G]; [now rewrite !Z.testbit_neg_r|].
  destruct (Z_lt_ge_dec k 32) as [L|G']; [apply H; lia|].
  rewrite (rng_high_bits x k Rx), (rng_high_bits y k Ry) by lia. reflexivity.
Qed.

Lemma only_bit1 x y : (forall k, k <> 1 -> Z.testbit y k = Z.testbit x k) -> y = x \/ y = Z.lxor x MU_SPINLOCK.
Proof.
  intros H. destruct (Bool.bool_dec (Z.testbit y 1) (Z.testbit x 1)) as [E|E].
  - left. apply Z.bits_inj. intros k. destruct (Z.eq_dec k 1) as [->|N]; auto.
  - right. apply Z.bits_inj. intros k. rewrite Z.lxor_spec. destruct (Z.eq_dec k 1) as [->|N].
    + change (Z.testbit MU_SPINLOCK 1) with true. destruct (Z.testbit y 1), (Z.testbit x 1); try reflexivity; now elim E.
    + rewrite H by exact N. unfold MU_SPINLOCK. rewrite tb_two by exact N. now rewrite xorb_false_r.
Qed.

Lemma spin_tas_new_eq old :
  nsync_spin_test_and_set_cas1_new old MU_SPINLOCK 0 = wrap_u 32 (Z.land (wrap_u 32 (Z.lor old 2)) (4294967295 - 0)).
Proof. reflexivity. Qed.

Lemma spin_tas_new_SL old : rng old -> SL old (nsync_spin_test_and_set_cas1_new old MU_SPINLOCK 0).
Proof.
  intros R. rewrite spin_tas_new_eq. apply SL_wland; [|apply small_0]. apply SL_wlor; [|apply small_2].
  now apply SL_refl.
Qed.

Lemma spin_tas_new_bits old : rng old ->
  let y := nsync_spin_test_and_set_cas1_new old MU_SPINLOCK 0 in
  tb1 y = true /\ forall k, k <> 1 -> Z.testbit y k = Z.testbit old k.
Proof.
  intros R. cbv zeta. split.
  - rewrite spin_tas_new_eq. tbs. change (Z.testbit 2 1) with true. change (Z.testbit 0 1) with false.
    now rewrite orb_true_r.
  - apply bits_except1; [exact R | apply (spin_tas_new_SL old R)|].
    intros k Hk N. rewrite spin_tas_new_eq. tbs. rewrite tb_two by exact N. rewrite Z.bits_0.
    now rewrite orb_false_r, andb_true_r.
Qed.

(* the release of emit_mu_state writes what mu_release_spinlock of mu.c writes *)
Lemma dbg_rel_new_eq old : emit_mu_state_cas1_new old = mu_release_spinlock_cas1_new old.
Proof. reflexivity. Qed.

Lemma dbg_rel_new_bits old : rng old ->
  let y := emit_mu_state_cas1_new old in
  tb1 y = false /\ forall k, k <> 1 -> Z.testbit y k = Z.testbit old k.
Proof.
  intros R. cbv zeta. rewrite dbg_rel_new_eq. split; [apply release_spinlock_bits|].
  apply bits_except1; [exact R | apply (release_spinlock_SL old R)|].
  intros k Hk N. rewrite release_spinlock_new_eq. tbs. rewrite tb_two by exact N. apply andb_true_r.
Qed.

(* ================================================================== *)
(* Part 4: the invariant of the combined system                        *)
(* ================================================================== *)

Definition DOwn (w : dworld) : Prop :=
  (forall d, downer w d = owner_pc (dpcof w d)) /\
  (forall d, dpc_ok (dpcof w d)) /\
  (forall d, downer w d = true -> tb1 (word (base w)) = true /\ forall t, own (kof (base w) t) = false) /\
  (forall d1 d2, downer w d1 = true -> downer w d2 = true -> d1 = d2) /\
  (tb1 (word (base w)) = true -> (exists o, own (kof (base w) o) = true) \/ (exists d, downer w d = true)) /\
  ((forall t, own (kof (base w) t) = false) -> tb2 (word (base w)) = true -> queue (base w) <> []).

Definition DInv1 (n : nat) (w : dworld) : Prop := Inv n (base w) /\ QInv (base w) /\ DOwn w.

Lemma Inv_set_word n b y : Inv n b -> SL (word b) y -> Inv n (set_word b y).
Proof.
  intros (L & (Rx & HW & HR & HX) & Hpc) (Ry & My & Dy). unfold Inv, InvL; cbn [word thr set_word].
  split; [exact L|]. split; [|exact Hpc]. unfold agrees. rewrite My, Dy. auto.
Qed.

Lemma QB_set1 b1 b2 q k : QB b1 b2 q k -> QB true b2 q k.
Proof.
  intros (B1 & B2 & C & El & Q5a & Q5b & Q6). qb_split; auto. intros; discriminate.
Qed.

Lemma QB_clear1 b1 b2 q k : QB b1 b2 q k -> (forall t, own (k t) = false) -> (b2 = true -> q <> []) ->
  QB false b2 q k.
Proof.
  intros (B1 & B2 & C & El & Q5a & Q5b & Q6) NO HQ. qb_split; auto.
  intros t H. rewrite NO in H. discriminate H.
Qed.

Lemma QInv_set_word b y b1 :
  QInv b -> tb2 y = tb2 (word b) -> tb1 y = b1 ->
  QB b1 (tb2 (word b)) (queue b) (kof b) -> QInv (set_word b y).
Proof.
  intros (HL & _ & HA) E2 E1 HB. split; [exact HL|]. split; [|exact HA].
  cbn [word queue set_word]. rewrite E2, E1. exact HB.
Qed.

Section DInv.
Variable n : nat.
Hypothesis Hn : Z.of_nat n < 16777215.

Lemma dbg_step_dinv w d : DInv1 n w -> DInv1 n (fst (dbg_step w d)).
Proof.
  intros (H0 & HQ & (Ag & Ok & D1 & D2 & H10 & Q6)).
  destruct (dbg_step_facts w d (Ok d) (Ag d)) as (LL & OT & Ag' & Ok' & K).
  set (w' := fst (dbg_step w d)) in *.
  assert (forall d', d' <> d -> downer w' d' = downer w d') as OTo by (intros d' N; unfold downer; now rewrite OT).
  assert (forall d', downer w' d' = owner_pc (dpcof w' d')) as AG.
  { intros d'. destruct (Nat.eq_dec d' d) as [->|N]; [exact Ag'|]. unfold downer, dpcof. rewrite OT by exact N. apply Ag. }
  assert (forall d', dpc_ok (dpcof w' d')) as OK.
  { intros d'. destruct (Nat.eq_dec d' d) as [->|N]; [exact Ok'|]. unfold dpcof. rewrite OT by exact N. apply Ok. }
  pose proof (Inv_rng n _ H0) as Rx.
  destruct K as [Eb Eo | Fo To T1 Eb | To Fo Eb].
  - (* local *)
    assert (forall d', downer w' d' = downer w d') as SAME.
    { intros d'. destruct (Nat.eq_dec d' d) as [->|N]; [exact Eo | now apply OTo]. }
    unfold DInv1, DOwn. rewrite Eb. split; [exact H0|]. split; [exact HQ|].
    split; [exact AG|]. split; [exact OK|]. split; [intros d'; rewrite SAME; apply D1|].
    split; [intros d1 d2; rewrite !SAME; apply D2|]. split; [|exact Q6].
    intros B. destruct (H10 B) as [L | [d' R]]; [left; exact L | right; exists d'; now rewrite SAME].
  - (* acquire *)
    destruct (spin_tas_new_bits _ Rx) as [Y1 Yk]. pose proof (spin_tas_new_SL _ Rx) as YSL.
    set (y := nsync_spin_test_and_set_cas1_new (word (base w)) MU_SPINLOCK 0) in *.
    assert (tb2 y = tb2 (word (base w))) as Y2 by (apply Yk; lia).
    pose proof HQ as (_ & HB & _). rewrite T1 in HB.
    pose proof (QB_noowner _ _ _ HB) as NO.
    assert (forall d', d' <> d -> downer w d' = false) as NOD.
    { intros d' N. destruct (downer w d') eqn:E; [|reflexivity]. destruct (D1 d' E) as [X _]. congruence. }
    unfold DInv1, DOwn. rewrite Eb. split; [now apply Inv_set_word|].
    split; [apply (QInv_set_word _ _ true HQ Y2 Y1); now apply QB_set1 in HB|].
    split; [exact AG|]. split; [exact OK|]. cbn [word queue set_word]. change (kof (set_word (base w) y)) with (kof (base w)).
    split; [intros d' _; split; [exact Y1 | exact NO]|].
    split.
    { intros d1 d2 O1 O2. destruct (Nat.eq_dec d1 d) as [->|N1], (Nat.eq_dec d2 d) as [->|N2]; auto.
      - rewrite OTo, NOD in O2 by exact N2. discriminate O2.
      - rewrite OTo, NOD in O1 by exact N1. discriminate O1.
      - rewrite OTo, NOD in O1 by exact N1. discriminate O1. }
    split; [intros _; right; exists d; exact To|].
    intros _. rewrite Y2. apply Q6, NO.
  - (* release *)
    destruct (dbg_rel_new_bits _ Rx) as [Y1 Yk].
    pose proof (release_spinlock_SL _ Rx) as YSL. rewrite <- dbg_rel_new_eq in YSL.
    set (y := emit_mu_state_cas1_new (word (base w))) in *.
    assert (tb2 y = tb2 (word (base w))) as Y2 by (apply Yk; lia).
    destruct (D1 d To) as [X1 NO].
    pose proof HQ as (_ & HB & _).
    assert (forall d', downer w' d' = false) as NOD.
    { intros d'. destruct (Nat.eq_dec d' d) as [->|N]; [exact Fo|]. rewrite OTo by exact N.
      destruct (downer w d') eqn:E; [|reflexivity]. elim N. now apply D2. }
    unfold DInv1, DOwn. rewrite Eb. split; [now apply Inv_set_word|].
    split; [apply (QInv_set_word _ _ false HQ Y2 Y1); apply (QB_clear1 _ _ _ _ HB NO (Q6 NO))|].
    split; [exact AG|]. split; [exact OK|]. cbn [word queue set_word]. change (kof (set_word (base w) y)) with (kof (base w)).
    split; [intros d' O; rewrite NOD in O; discriminate O|].
    split; [intros d1 d2 O; rewrite NOD in O; discriminate O|].
    split; [intros B; congruence|]. rewrite Y2. exact Q6.
Qed.

Lemma dstep_base_eq w t : fst (dstep w (TBase t)) = dset_base w (fst (step (base w) t)).
Proof. cbn [dstep]. destruct (step (base w) t). reflexivity. Qed.

Lemma base_step_dinv w t : DInv1 n w -> DInv1 n (fst (dstep w (TBase t))).
Proof.
  intros (H0 & HQ & (Ag & Ok & D1 & D2 & H10 & Q6)). rewrite dstep_base_eq.
  pose proof (step_spin n (base w) t H0 HQ) as SP.
  pose proof (fun t' (N : t' <> t) => f_equal (fun s => own (role_of (t_pc s))) (step_frame (base w) t' t N)) as FR.
  cbv beta in FR. fold (kof (fst (step (base w) t)) ) in FR.
  set (b := base w) in *. set (b' := fst (step b t)) in *.
  assert (forall t', kof b' t' = role_of (t_pc (get b' t'))) as KF by reflexivity.
  assert (forall t', t' <> t -> own (kof b' t') = own (kof b t')) as FR'.
  { intros t' N. unfold kof. apply FR, N. }
  clear FR.
  assert (QInv b') as HQ' by (apply (step_qinv n); assumption).
  unfold DInv1, DOwn, dset_base, downer, dpcof, dget; cbn [base dbg].
  fold (dget w). fold (downer w). fold (dpcof w).
  split; [apply step_inv; assumption|]. split; [exact HQ'|].
  split; [exact Ag|]. split; [exact Ok|].
  (* H10 first: it is used for Q6 *)
  assert (tb1 (word b') = true -> (exists o, own (kof b' o) = true) \/ (exists d, downer w d = true)) as H10'.
  { intros B. destruct (own (kof b' t)) eqn:O'; [left; now exists t|].
    destruct (own (kof b t)) eqn:O; cbn [spin_rel] in SP; [congruence|].
    destruct SP as [[F1 _] _]. rewrite F1 in B. destruct (H10 B) as [[o Ho] | R]; [left | right; exact R].
    exists o. rewrite FR'; [exact Ho|]. intros ->. congruence. }
  split.
  { intros d O. destruct (D1 d O) as [X1 NO]. rewrite (NO t) in SP.
    destruct (own (kof b' t)) eqn:O'; cbn [spin_rel] in SP; [congruence|].
    destruct SP as [[F1 _] _]. split; [congruence|].
    intros t'. destruct (Nat.eq_dec t' t) as [->|N]; [exact O' | rewrite FR' by exact N; apply NO]. }
  split; [exact D2|]. split; [exact H10'|].
  intros NO' B2. destruct (tb1 (word b')) eqn:B1.
  - destruct (H10' eq_refl) as [[o Ho] | [d O]]; [rewrite NO' in Ho; discriminate Ho|].
    destruct (D1 d O) as [X1 NO]. rewrite (NO t), (NO' t) in SP. cbn [spin_rel] in SP.
    destruct SP as [[_ F2] Eq]. rewrite Eq. apply Q6; [exact NO | congruence].
  - destruct HQ' as (_ & (_ & _ & _ & _ & _ & _ & Q6') & _). apply Q6'; assumption.
Qed.

Lemma dstep_dinv w a : DInv1 n w -> DInv1 n (fst (dstep w a)).
Proof. destruct a as [t|d]; [apply base_step_dinv | apply dbg_step_dinv]. Qed.

Lemma drun_dinv sched : forall w, DInv1 n w -> DInv1 n (drun w sched).
Proof.
  unfold drun. induction sched as [|a rest IH]; intros w H; cbn [fold_left]; [exact H|].
  apply IH, dstep_dinv, H.
Qed.
End DInv.

(* ================================================================== *)
(* Part 5: reachable combined worlds                                   *)
(* ================================================================== *)

Lemma dinit_dget progs dprogs d : exists p, dget (dinit progs dprogs) d = mk_d DIdle p false [] 0.
Proof.
  unfold dget, dinit; cbn [dbg]. change dflt_d with ((fun p => mk_d DIdle p false [] 0) []).
  rewrite map_nth. eexists. reflexivity.
Qed.

Lemma dinit_dinv progs dprogs : DInv1 (length progs) (dinit progs dprogs).
Proof.
  split; [apply init_inv|]. split; [apply init_qinv|].
  assert (forall d, downer (dinit progs dprogs) d = false /\ dpcof (dinit progs dprogs) d = DIdle) as Z0.
  { intros d. unfold downer, dpcof. destruct (dinit_dget progs dprogs d) as [p ->]. split; reflexivity. }
  unfold DOwn. split; [intros d; destruct (Z0 d) as [-> ->]; reflexivity|].
  split; [intros d; destruct (Z0 d) as [_ ->]; exact I|].
  split; [intros d O; destruct (Z0 d); congruence|].
  split; [intros d1 d2 O; destruct (Z0 d1); congruence|].
  split; intros; discriminate.
Qed.

Lemma dreachable_dinv progs dprogs sched : Z.of_nat (length progs) < 2 ^ 24 - 1 ->
  DInv1 (length progs) (drun (dinit progs dprogs) sched).
Proof. intros H. apply (drun_dinv (length progs) H). apply dinit_dinv. Qed.

(* ----- (a) a debugger step changes nothing but bit 1 of the word ----- *)
Lemma dbg_only_spin_bit progs dprogs sched d : Z.of_nat (length progs) < 2 ^ 24 - 1 ->
  let w := drun (dinit progs dprogs) sched in
  let w' := fst (dstep w (TDbg d)) in
  thr (base w') = thr (base w) /\ queue (base w') = queue (base w) /\ waiting (base w') = waiting (base w) /\
  sem (base w') = sem (base w) /\ wtype (base w') = wtype (base w) /\
  (forall k, k <> 1 -> Z.testbit (word (base w')) k = Z.testbit (word (base w)) k) /\
  (word (base w') = word (base w) \/ word (base w') = Z.lxor (word (base w)) MU_SPINLOCK).
Proof.
  intros Hn w w'. destruct (dreachable_dinv progs dprogs sched Hn) as (H0 & _ & (Ag & Ok & _)). fold w in H0, Ag, Ok.
  destruct (dbg_step_facts w d (Ok d) (Ag d)) as (_ & _ & _ & _ & K).
  assert (w' = fst (dbg_step w d)) as Ew' by reflexivity. clearbody w'. rewrite <- Ew' in K. clear Ew'.
  pose proof (Inv_rng _ _ H0) as Rx.
  assert (thr (base w') = thr (base w) /\ queue (base w') = queue (base w) /\ waiting (base w') = waiting (base w) /\
          sem (base w') = sem (base w) /\ wtype (base w') = wtype (base w) /\
          (forall k, k <> 1 -> Z.testbit (word (base w')) k = Z.testbit (word (base w)) k)) as H.
  { destruct K as [-> _ | _ _ _ -> | _ _ ->]; cbn [thr queue waiting sem wtype word set_word]; auto 10.
    - repeat (split; [reflexivity|]). apply (spin_tas_new_bits _ Rx).
    - repeat (split; [reflexivity|]). apply (dbg_rel_new_bits _ Rx). }
  destruct H as (A & B & C & D & E & F). repeat (split; [assumption|]). apply only_bit1, F.
Qed.

Lemma dbg_holders_unchanged progs dprogs sched d t : Z.of_nat (length progs) < 2 ^ 24 - 1 ->
  let w := drun (dinit progs dprogs) sched in
  held (get (base (fst (dstep w (TDbg d)))) t) = held (get (base w) t).
Proof.
  intros Hn w. destruct (dbg_only_spin_bit progs dprogs sched d Hn) as (E & _). fold w in E.
  unfold get. now rewrite E.
Qed.

(* ----- (b) mutual exclusion and word/ghost agreement in every reachable combined world ----- *)
Lemma dexcl_reachable progs dprogs sched : Z.of_nat (length progs) < 2 ^ 24 - 1 ->
  excl (base (drun (dinit progs dprogs) sched)).
Proof. intros H. apply (excl_of_inv (length progs)). apply (dreachable_dinv progs dprogs sched H). Qed.

Lemma dword_agrees_reachable progs dprogs sched : Z.of_nat (length progs) < 2 ^ 24 - 1 ->
  word_agrees (base (drun (dinit progs dprogs) sched)).
Proof. intros H. apply agrees_word_agrees. apply (dreachable_dinv progs dprogs sched H). Qed.

(* ----- (c) the spinlock discipline ----- *)
(* a locker thread is inside one of mu.c's spinlock sections *)
Definition in_spin_section (p : pc) : bool :=
  match p with LsStoreWaiting _ _ | LsRelLoad _ _ | LsRelCas _ _ _ | UsRelLoad _ _ | UsRelCas _ _ _ => true | _ => false end.

Lemma own_in_spin_section p : own (role_of p) = in_spin_section p.
Proof. destruct p; reflexivity. Qed.

Lemma dbg_spin_discipline progs dprogs sched d : Z.of_nat (length progs) < 2 ^ 24 - 1 ->
  let w := drun (dinit progs dprogs) sched in
  let w' := fst (dstep w (TDbg d)) in
  (* it sets the bit only by its CAS, from a word in which the bit is clear, and becomes the owner *)
  (Z.testbit (word (base w')) 1 = true -> Z.testbit (word (base w)) 1 = false ->
     downer w d = false /\ downer w' d = true /\
     word (base w') = nsync_spin_test_and_set_cas1_new (word (base w)) MU_SPINLOCK 0) /\
  (* it clears the bit only as the owner *)
  (Z.testbit (word (base w)) 1 = true -> Z.testbit (word (base w')) 1 = false ->
     downer w d = true /\ downer w' d = false /\ word (base w') = emit_mu_state_cas1_new (word (base w))) /\
  (* its ownership changes only with the bit *)
  (downer w' d <> downer w d -> Z.testbit (word (base w')) 1 <> Z.testbit (word (base w)) 1).
Proof.
  intros Hn w w'. destruct (dreachable_dinv progs dprogs sched Hn) as (H0 & _ & (Ag & Ok & D1 & _)).
  fold w in H0, Ag, Ok, D1.
  destruct (dbg_step_facts w d (Ok d) (Ag d)) as (_ & _ & _ & _ & K).
  assert (w' = fst (dbg_step w d)) as Ew' by reflexivity. clearbody w'. rewrite <- Ew' in K. clear Ew'.
  pose proof (Inv_rng _ _ H0) as Rx. fold (tb1 (word (base w'))). fold (tb1 (word (base w))).
  destruct K as [E1 E2 | Fo To T1 E | To Fo E].
  - rewrite E1, E2. split; [congruence|]. split; [congruence|]. intros X; now elim X.
  - rewrite E. cbn [word set_word]. destruct (spin_tas_new_bits _ Rx) as [Y1 _].
    split; [auto|]. split; [congruence|]. congruence.
  - rewrite E. cbn [word set_word]. destruct (dbg_rel_new_bits _ Rx) as [Y1 _]. destruct (D1 d To) as [X1 _].
    split; [congruence|]. split; [auto|]. congruence.
Qed.

Lemma dbg_owner_excludes progs dprogs sched d : Z.of_nat (length progs) < 2 ^ 24 - 1 ->
  let w := drun (dinit progs dprogs) sched in
  downer w d = true ->
  Z.testbit (word (base w)) 1 = true /\
  (forall t, in_spin_section (t_pc (get (base w) t)) = false) /\
  (forall d', downer w d' = true -> d' = d).
Proof.
  intros Hn w O. destruct (dreachable_dinv progs dprogs sched Hn) as (_ & _ & (_ & _ & D1 & D2 & _)). fold w in D1, D2.
  destruct (D1 d O) as [X NO]. split; [exact X|]. split.
  - intros t. rewrite <- own_in_spin_section. apply NO.
  - intros d' O'. now apply D2.
Qed.

(* whoever waits for the queue spinlock waits for somebody: a locker inside a spinlock section or a debugger
   between its acquiring and its releasing CAS *)
Lemma spin_has_owner progs dprogs sched : Z.of_nat (length progs) < 2 ^ 24 - 1 ->
  let w := drun (dinit progs dprogs) sched in
  Z.testbit (word (base w)) 1 = true ->
  (exists t, in_spin_section (t_pc (get (base w) t)) = true) \/ (exists d, downer w d = true /\ owner_pc (dpcof w d) = true).
Proof.
  intros Hn w B. destruct (dreachable_dinv progs dprogs sched Hn) as (_ & _ & (Ag & _ & _ & _ & H10 & _)). fold w in Ag, H10.
  destruct (H10 B) as [[o Ho] | [d O]].
  - left. exists o. rewrite <- own_in_spin_section. exact Ho.
  - right. exists d. split; [exact O | now rewrite <- Ag].
Qed.

(* ----- (d) debuggers never block ----- *)
Lemma dbg_no_base_event w d e : snd (dstep w (TDbg d)) <> DEvBase e.
Proof.
  cbn [dstep]. rewrite dbg_step_eq. unfold dcore. cbv zeta. generalize (dbegin w d). intros w1.
  destruct (d_pc (dget w1 d)); unfold cas;
    repeat (match goal with |- context [if ?c then _ else _] => destruct c end; cbv beta iota); cbn [snd]; discriminate.
Qed.

Lemma dbg_nonowner_inert progs dprogs sched d : Z.of_nat (length progs) < 2 ^ 24 - 1 ->
  let w := drun (dinit progs dprogs) sched in
  let w' := fst (dstep w (TDbg d)) in
  downer w d = false -> downer w' d = false -> base w' = base w.
Proof.
  intros Hn w w' F F'. destruct (dreachable_dinv progs dprogs sched Hn) as (_ & _ & (Ag & Ok & _)). fold w in Ag, Ok.
  destruct (dbg_step_facts w d (Ok d) (Ag d)) as (_ & _ & _ & _ & K).
  assert (w' = fst (dbg_step w d)) as Ew' by reflexivity. clearbody w'. rewrite <- Ew' in K. clear Ew'.
  destruct K as [E _ | _ T _ _ | T _ _]; [exact E | congruence | congruence].
Qed.

(* ----- (d) continued: bounded release, bounded acquisition ----- *)
Lemma dbegin_nonidle w d : dpcof w d <> DIdle -> dbegin w d = w.
Proof. unfold dpcof, dbegin. cbv zeta. intros H. destruct (d_pc (dget w d)); try reflexivity. now elim H. Qed.

Lemma dget_inb w d : dpcof w d <> DIdle -> (d < length (dbg w))%nat.
Proof.
  intros H. destruct (Nat.lt_ge_cases d (length (dbg w))) as [|G]; [assumption|].
  exfalso. apply H. unfold dpcof. now rewrite dget_oob.
Qed.

(* how many of its own steps an owner needs at most to release, run alone; x = the current word *)
Definition drank (x : Z) (p : dpc) : nat :=
  match p with
  | DWalkW _ rest => 2 * length rest + 4
  | DWalkR _ rest => 2 * length rest + 3
  | DRelLoad _ => 2
  | DRelCas old => if x =? old then 1 else 3
  | _ => 0
  end.
(* how many of its own steps a spinning debugger needs at most to acquire a free spinlock, run alone *)
Definition srank (x : Z) (p : dpc) : nat :=
  match p with
  | DSpinLoad _ _ => 2
  | DSpinCas _ old => if x =? old then 1 else 3
  | _ => 0
  end.
Definition spin_pc (p : dpc) : bool := match p with DSpinLoad _ _ | DSpinCas _ _ => true | _ => false end.

Lemma drank_pos x p : owner_pc p = true -> (1 <= drank x p)%nat.
Proof. destruct p; intros H; try discriminate H; cbn [drank]; try lia. destruct (x =? old); lia. Qed.

Lemma owner_progress w d : downer w d = true -> owner_pc (dpcof w d) = true ->
  let w' := fst (dbg_step w d) in
  (downer w' d = false /\ tb1 (word (base w')) = false) \/
  (downer w' d = true /\ owner_pc (dpcof w' d) = true /\ base w' = base w /\
   (drank (word (base w')) (dpcof w' d) < drank (word (base w)) (dpcof w d))%nat).
Proof.
  intros O Hp. cbv zeta.
  assert (dpcof w d <> DIdle) as NI by (intros E; rewrite E in Hp; discriminate Hp).
  pose proof (dget_inb w d NI) as Hd. rewrite dbg_step_eq, (dbegin_nonidle w d NI).
  unfold dcore. cbv zeta. unfold downer, dpcof in *.
  destruct (dget w d) as [p ops o rd us] eqn:Hs. pose proof Hs as Hs'. unfold dget in Hs'.
  cbn [d_pc d_owner] in *. subst o.
  destruct p; try discriminate Hp.
  - (* DWalkW *) right. cbn [fst]. dnorm Hs' Hd. cbn [owner_pc drank]. repeat split; lia.
  - (* DWalkR *) right. cbn [fst]. dnorm Hs' Hd. rewrite walk_pc_owner.
    split; [reflexivity|]. split; [reflexivity|]. split; [reflexivity|].
    destruct rest as [|p' r]; cbn [walk_pc drank length]; rewrite ?after_walk_1; cbn [drank]; lia.
  - (* DRelLoad *) right. cbn [fst]. dnorm Hs' Hd. cbn [owner_pc drank]. rewrite Z.eqb_refl. repeat split; lia.
  - (* DRelCas *) unfold cas. destruct (Z.eqb_spec (word (base w)) old) as [E|E]; cbv beta iota; cbn [fst]; dnorm Hs' Hd.
    + left. split; [reflexivity|]. cbn [word set_word]. rewrite dbg_rel_new_eq. apply release_spinlock_bits.
    + right. cbn [owner_pc drank]. destruct (Z.eqb_spec (word (base w)) old); [contradiction|]. repeat split; lia.
Qed.

Lemma dbg_alone_S w d k : drun w (repeat (TDbg d) (S k)) = drun (fst (dbg_step w d)) (repeat (TDbg d) k).
Proof. reflexivity. Qed.

Lemma owner_releases_alone : forall r w d, (drank (word (base w)) (dpcof w d) <= r)%nat ->
  downer w d = true -> owner_pc (dpcof w d) = true ->
  exists k, (k <= r)%nat /\ downer (drun w (repeat (TDbg d) k)) d = false /\
            tb1 (word (base (drun w (repeat (TDbg d) k)))) = false /\
            forall j, (j < k)%nat -> base (drun w (repeat (TDbg d) j)) = base w.
Proof.
  induction r as [|r IH]; intros w d Hr O Hp.
  - exfalso. destruct (dpcof w d); try discriminate Hp; cbn [drank] in Hr; try lia.
    destruct (word (base w) =? old); lia.
  - destruct (owner_progress w d O Hp) as [[F T] | (O' & Hp' & Eb & Lt)].
    + exists 1%nat. split; [lia|]. split; [exact F|]. split; [exact T|].
      intros j Hj. replace j with 0%nat by lia. reflexivity.
    + destruct (IH (fst (dbg_step w d)) d ltac:(lia) O' Hp') as (k & Hk & Fk & Tk & Bk).
      exists (S k). split; [lia|]. rewrite dbg_alone_S. split; [exact Fk|]. split; [exact Tk|].
      intros [|j] Hj; [reflexivity|]. rewrite dbg_alone_S, Bk by lia. exact Eb.
Qed.

Lemma spinner_progress w d : spin_pc (dpcof w d) = true -> tb1 (word (base w)) = false ->
  let w' := fst (dbg_step w d) in
  downer w' d = true \/
  (spin_pc (dpcof w' d) = true /\ base w' = base w /\
   (srank (word (base w')) (dpcof w' d) < srank (word (base w)) (dpcof w d))%nat).
Proof.
  intros Hp B. cbv zeta.
  assert (dpcof w d <> DIdle) as NI by (intros E; rewrite E in Hp; discriminate Hp).
  pose proof (dget_inb w d NI) as Hd. rewrite dbg_step_eq, (dbegin_nonidle w d NI).
  unfold dcore. cbv zeta. unfold downer, dpcof in *.
  destruct (dget w d) as [p ops o rd us] eqn:Hs. pose proof Hs as Hs'. unfold dget in Hs'.
  cbn [d_pc d_owner] in *.
  destruct p; try discriminate Hp.
  - (* DSpinLoad *) right.
    assert (nsync_spin_test_and_set_cas1_guard (word (base w)) MU_SPINLOCK = true) as G.
    { unfold nsync_spin_test_and_set_cas1_guard. rewrite negb_involutive. apply Z.eqb_eq.
      change (wrap_u 32 0) with 0. change MU_SPINLOCK with (2 ^ 1). rewrite land_pow2 by lia.
      unfold tb1 in B. rewrite B. reflexivity. }
    rewrite G. cbn [fst]. dnorm Hs' Hd. cbn [spin_pc srank]. rewrite Z.eqb_refl. repeat split; lia.
  - (* DSpinCas *) unfold cas. destruct (Z.eqb_spec (word (base w)) old) as [E|E]; cbv beta iota; cbn [fst]; dnorm Hs' Hd.
    + left. reflexivity.
    + right. cbn [spin_pc srank]. destruct (Z.eqb_spec (word (base w)) old); [contradiction|]. repeat split; lia.
Qed.

Lemma spinner_acquires_alone : forall r w d, (srank (word (base w)) (dpcof w d) <= r)%nat ->
  spin_pc (dpcof w d) = true -> tb1 (word (base w)) = false ->
  exists k, (k <= r)%nat /\ downer (drun w (repeat (TDbg d) k)) d = true.
Proof.
  induction r as [|r IH]; intros w d Hr Hp B.
  - exfalso. destruct (dpcof w d); try discriminate Hp; cbn [srank] in Hr; try lia.
    destruct (word (base w) =? old); lia.
  - destruct (spinner_progress w d Hp B) as [T | (Hp' & Eb & Lt)].
    + exists 1%nat. split; [lia | exact T].
    + destruct (IH (fst (dbg_step w d)) d ltac:(lia) Hp' ltac:(now rewrite Eb)) as (k & Hk & Tk).
      exists (S k). split; [lia|]. rewrite dbg_alone_S. exact Tk.
Qed.

Lemma drank_bound x p : (drank x p <= 2 * length (match p with DWalkW _ r | DWalkR _ r => r | _ => [] end) + 4)%nat.
Proof. destruct p; cbn [drank length]; try lia. destruct (x =? old); lia. Qed.

Lemma srank_bound x p : (srank x p <= 3)%nat.
Proof. destruct p; cbn [srank]; try lia. destruct (x =? old); lia. Qed.

(* the records still to be printed by a debugger that is walking the queue under the lock *)
Definition dwalk_left (p : dpc) : nat :=
  match p with DWalkW _ r => S (length r) | DWalkR _ r => S (length r) | _ => O end.

Lemma dbg_owner_releases progs dprogs sched d : Z.of_nat (length progs) < 2 ^ 24 - 1 ->
  let w := drun (dinit progs dprogs) sched in
  downer w d = true ->
  exists k, (k <= 2 * dwalk_left (dpcof w d) + 3)%nat /\ downer (drun w (repeat (TDbg d) k)) d = false /\
            tb1 (word (base (drun w (repeat (TDbg d) k)))) = false /\
            forall j, (j < k)%nat -> base (drun w (repeat (TDbg d) j)) = base w.
Proof.
  intros Hn w O. destruct (dreachable_dinv progs dprogs sched Hn) as (_ & _ & (Ag & _)). fold w in Ag.
  assert (owner_pc (dpcof w d) = true) as Hp by (now rewrite <- Ag).
  destruct (owner_releases_alone (drank (word (base w)) (dpcof w d)) w d (le_n _) O Hp) as (k & Hk & R).
  exists k. split; [|exact R].
  destruct (dpcof w d); cbn [drank dwalk_left] in *; try lia. destruct (word (base w) =? old); lia.
Qed.

(* once it has finished printing (pc at the release loop) it needs at most 3 own steps, 2 from the loop's first load *)
Lemma dbg_release_loop_bound progs dprogs sched d f : Z.of_nat (length progs) < 2 ^ 24 - 1 ->
  let w := drun (dinit progs dprogs) sched in
  dpcof w d = DRelLoad f ->
  downer (drun w [TDbg d; TDbg d]) d = false.
Proof.
  intros Hn w Ep. destruct (dreachable_dinv progs dprogs sched Hn) as (_ & _ & (Ag & _)). fold w in Ag.
  assert (downer w d = true) as O by (rewrite Ag, Ep; reflexivity).
  assert (owner_pc (dpcof w d) = true) as Hp by (rewrite Ep; reflexivity).
  destruct (owner_progress w d O Hp) as [[F _] | (O' & Hp' & Eb & Lt)].
  - exfalso. revert F. pose proof (dget_inb w d ltac:(rewrite Ep; discriminate)) as Hd.
    rewrite dbg_step_eq, dbegin_nonidle by (rewrite Ep; discriminate). unfold dcore, dpcof, downer in *. cbv zeta.
    destruct (dget w d) as [p ops o rd us] eqn:Hs. pose proof Hs as Hs'. unfold dget in Hs'. cbn [d_pc d_owner] in *.
    subst p o. cbn [fst]. dnorm Hs' Hd. discriminate.
  - rewrite Ep in Lt. cbn [drank] in Lt.
    destruct (owner_progress _ d O' Hp') as [[F _] | (O'' & Hp'' & Eb' & Lt')].
    + exact F.
    + exfalso. destruct (dpcof (fst (dbg_step w d)) d) eqn:E1; try discriminate Hp'; cbn [drank] in Lt; try lia.
      * destruct (word (base (fst (dbg_step w d))) =? old) eqn:E2; [|lia].
        cbn [drank] in Lt'. rewrite E2 in Lt'.
        pose proof (drank_pos (word (base (fst (dbg_step (fst (dbg_step w d)) d)))) _ Hp''). lia.
Qed.
