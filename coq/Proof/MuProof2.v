(* MuProof2: proofs of the lemmas used by Props/Properties_C02.v, _C13.v and _C14.v
   about Model/MuModel.v.  Builds on Proof/MuProof.v (per-site lemmas, lupd lemmas,
   the lock-view invariant Inv).

   Part A  frame lemmas for the world update functions, the try-lock lemmas (C02)
   Part B  flag bits (Z.testbit) of every value written to the word
   Part C  C14: escalation, front re-queueing, bit lemmas, the LONG_WAIT barrier
   Part D  C13: last_cas, fast_release_is_last
   Part E  the queue invariant (abstract part: roles, lists, spinlock ownership)
   Part F  the queue invariant (preservation by step), queue_invariant, pinned *)
From NsyncBase Require Import CSem.
From NsyncGen Require Import Consts Sites.
From NsyncModel Require Import MuModel MuSpec.
From NsyncProof Require Import WordView MuProof.
From Coq Require Import List ZArith Bool Lia PeanoNat Permutation.
Import ListNotations.
Local Open Scope Z_scope.

Ltac Zify.zify_post_hook ::= Z.div_mod_to_equations.

(* ================================================================== *)
(* Part A: frames, try-locks                                           *)
(* ================================================================== *)

Lemma get_set_t_same w t s : (t < length (thr w))%nat -> get (set_t w t s) t = s.
Proof. intros H. unfold get, set_t; cbn [thr]. now apply nth_lupd_same. Qed.

Lemma get_set_t_other w t t' s : t <> t' -> get (set_t w t' s) t = get w t.
Proof. intros H. unfold get, set_t; cbn [thr]. now apply nth_lupd_other. Qed.

Lemma get_inb w t : t_pc (get w t) <> Idle -> (t < length (thr w))%nat.
Proof.
  intros H. destruct (Nat.lt_ge_cases t (length (thr w))) as [|G]; [assumption|].
  exfalso. apply H. unfold get. now rewrite nth_overflow.
Qed.

Lemma begin_op_nonidle w t : t_pc (get w t) <> Idle -> begin_op w t = w.
Proof. intros H. unfold begin_op. cbv zeta. destruct (t_pc (get w t)); try reflexivity. now elim H. Qed.

Lemma begin_op_word w t : word (begin_op w t) = word w.
Proof. unfold begin_op. cbv zeta. destruct (t_pc (get w t)), (t_ops (get w t)); reflexivity. Qed.

Lemma begin_op_queue w t : queue (begin_op w t) = queue w.
Proof. unfold begin_op. cbv zeta. destruct (t_pc (get w t)), (t_ops (get w t)); reflexivity. Qed.

Lemma begin_op_waiting w t : waiting (begin_op w t) = waiting w.
Proof. unfold begin_op. cbv zeta. destruct (t_pc (get w t)), (t_ops (get w t)); reflexivity. Qed.

Lemma begin_op_frame w t t' : t <> t' -> get (begin_op w t') t = get w t.
Proof.
  intros N. unfold begin_op. cbv zeta.
  destruct (t_pc (get w t')); try reflexivity. destruct (t_ops (get w t')); try reflexivity.
  apply get_set_t_other; exact N.
Qed.

Lemma begin_op_held w t : held (get (begin_op w t) t) = held (get w t).
Proof.
  unfold begin_op. cbv zeta.
  destruct (t_pc (get w t)) eqn:E; try reflexivity. destruct (t_ops (get w t)); try reflexivity.
  destruct (Nat.lt_ge_cases t (length (thr w))) as [L|G].
  - rewrite get_set_t_same by exact L. reflexivity.
  - unfold get, set_t; cbn [thr]. rewrite !nth_overflow; [reflexivity | exact G | now rewrite length_lupd].
Qed.

(* break the conditionals of one unfolded [step] *)
Ltac brk := repeat (match goal with
  | |- context [match us_after_scan ?x with _ => _ end] => destruct (us_after_scan x) as [? ?]
  | |- context [if ?c then _ else _] => destruct c
  | |- context [match wake ?u with _ => _ end] => destruct (wake u)
  end; cbv beta iota).

Ltac unfold_setters :=
  unfold set_try, acquire, released, set_pc, set_t, set_word, set_queue, set_waiting, set_sem, set_wtype, get;
  cbn [word thr queue waiting sem wtype].

Lemma step_frame : forall w t t', t <> t' -> get (fst (step w t')) t = get w t.
Proof.
  intros w0 t t' N. rewrite <- (begin_op_frame w0 t t' N). unfold step. cbv zeta.
  generalize (begin_op w0 t'). intros w.
  destruct (t_pc (get w t')); unfold cas; brk; cbn [fst];
    unfold_setters; rewrite ?nth_lupd_other by exact N; reflexivity.
Qed.

(* normalise [get (..updates on t..) t] given the current record of t *)
Ltac normt Hs Ht :=
  unfold_setters;
  repeat first [ rewrite Hs | rewrite nth_lupd_same by exact Ht | rewrite lupd_lupd ];
  cbn [t_pc t_ops held sleeps last_try].

Lemma try_nonblocking : forall w t,
  is_try_pc (t_pc (get (begin_op w t) t)) = true ->
  snd (step w t) <> EvBlocked /\
  (try_rank (t_pc (get (fst (step w t)) t)) < try_rank (t_pc (get (begin_op w t) t)))%nat /\
  (is_try_pc (t_pc (get (fst (step w t)) t)) = true \/ t_pc (get (fst (step w t)) t) = Idle).
Proof.
  intros w0 t. unfold step. cbv zeta. generalize (begin_op w0 t). intros w H.
  assert (t < length (thr w))%nat as Ht by (apply get_inb; intros E; rewrite E in H; discriminate H).
  destruct (get w t) as [p ops h sl lt] eqn:Hs. unfold get in Hs. cbn [t_pc] in *.
  destruct p; try discriminate H; unfold cas; brk; cbn [fst snd]; normt Hs Ht;
    (split; [discriminate|]); cbn [try_rank is_try_pc]; auto.
Qed.

Lemma try_result : forall w t,
  is_try_pc (t_pc (get (begin_op w t) t)) = true ->
  t_pc (get (fst (step w t)) t) = Idle ->
  (last_try (get (fst (step w t)) t) = Some true /\ held (get (fst (step w t)) t) <> None) \/
  (last_try (get (fst (step w t)) t) = Some false /\ held (get (fst (step w t)) t) = held (get (begin_op w t) t)).
Proof.
  intros w0 t. unfold step. cbv zeta. generalize (begin_op w0 t). intros w H.
  assert (t < length (thr w))%nat as Ht by (apply get_inb; intros E; rewrite E in H; discriminate H).
  destruct (get w t) as [p ops h sl lt] eqn:Hs. unfold get in Hs. cbn [t_pc held] in *.
  destruct p; try discriminate H; unfold cas; brk; cbn [fst snd]; normt Hs Ht; intros E;
    try discriminate E; first [ left; split; [reflexivity | discriminate] | right; split; reflexivity ].
Qed.

(* ================================================================== *)
(* Part B: flag bits                                                   *)
(* ================================================================== *)

Lemma has_bit x k : 0 <= k -> has x (2 ^ k) = Z.testbit x k.
Proof.
  intros Hk. unfold has, band.
  assert (forall n, 0 <= n -> Z.testbit (Z.land x (2 ^ k)) n = Z.testbit x n && (k =? n)) as B.
  { intros n Hn. rewrite Z.land_spec, Z.pow2_bits_eqb by assumption. reflexivity. }
  destruct (Z.testbit x k) eqn:E.
  - destruct (Z.eqb_spec (Z.land x (2 ^ k)) 0) as [Z0|]; [|reflexivity].
    specialize (B k Hk). rewrite Z0, Z.bits_0, E, Z.eqb_refl in B. discriminate B.
  - replace (Z.land x (2 ^ k)) with 0; [reflexivity|].
    symmetry. apply Z.bits_inj'. intros n Hn. rewrite B, Z.bits_0 by assumption.
    destruct (Z.eqb_spec k n) as [->|]; [rewrite E; reflexivity | apply andb_false_r].
Qed.

Lemma has_spin x : has x MU_SPINLOCK = Z.testbit x 1.   Proof. exact (has_bit x 1 ltac:(lia)). Qed.
Lemma has_waiting x : has x MU_WAITING = Z.testbit x 2. Proof. exact (has_bit x 2 ltac:(lia)). Qed.
Lemma has_longwait x : has x MU_LONG_WAIT = Z.testbit x 6. Proof. exact (has_bit x 6 ltac:(lia)). Qed.

Lemma tb_wrap x k : 0 <= k < 32 -> Z.testbit (wrap_u 32 x) k = Z.testbit x k.
Proof. intros H. unfold wrap_u. apply Z.mod_pow2_bits_low. lia. Qed.

Lemma tb_not32 c k : 0 <= k < 32 -> Z.testbit (4294967295 - c) k = negb (Z.testbit c k).
Proof.
  intros H. rewrite <- Z.lnot_spec by lia.
  rewrite <- (Z.mod_pow2_bits_low (4294967295 - c) 32 k) by lia.
  rewrite <- (Z.mod_pow2_bits_low (Z.lnot c) 32 k) by lia.
  f_equal. unfold Z.lnot. change (2 ^ 32) with 4294967296.
  replace (4294967295 - c) with (Z.pred (- c) + 1 * 4294967296) by lia.
  apply Z.mod_add. lia.
Qed.

Lemma tb_mod256 x y k : 0 <= k < 8 -> x mod 256 = y mod 256 -> Z.testbit x k = Z.testbit y k.
Proof.
  intros H E. rewrite <- (Z.mod_pow2_bits_low x 8 k), <- (Z.mod_pow2_bits_low y 8 k) by lia.
  change (2 ^ 8) with 256. now rewrite E.
Qed.

Lemma tb_add256 x k : 0 <= k < 8 -> Z.testbit (x + 256) k = Z.testbit x k.
Proof. intros H. apply tb_mod256; [assumption | lia]. Qed.

Lemma tb_sub256 x k : 0 <= k < 8 -> Z.testbit (x - 256) k = Z.testbit x k.
Proof. intros H. apply tb_mod256; [assumption | lia]. Qed.

Lemma tb_add1 x k : x mod 2 = 0 -> 1 <= k -> Z.testbit (x + 1) k = Z.testbit x k.
Proof.
  intros E H. replace k with (Z.succ (k - 1)) by lia.
  replace (x + 1) with (2 * (x / 2) + 1) by lia. replace x with (2 * (x / 2)) at 2 by lia.
  rewrite Z.testbit_odd_succ, Z.testbit_even_succ by lia. reflexivity.
Qed.

Lemma tb_sub1 x k : x mod 2 = 1 -> 1 <= k -> Z.testbit (x - 1) k = Z.testbit x k.
Proof.
  intros E H. replace k with (Z.succ (k - 1)) by lia.
  replace (x - 1) with (2 * (x / 2)) by lia. replace x with (2 * (x / 2) + 1) at 2 by lia.
  rewrite Z.testbit_odd_succ, Z.testbit_even_succ by lia. reflexivity.
Qed.

(* a zero test (old & M) == 0 clears every bit of old that M has *)
Lemma zero_test_bit old M k : 0 <= k < 32 -> Z.testbit M k = true ->
  wrap_u 32 (Z.land old M) = 0 -> Z.testbit old k = false.
Proof.
  intros Hk HM H. pose proof (tb_wrap (Z.land old M) k Hk) as T.
  rewrite H, Z.bits_0, Z.land_spec, HM, andb_true_r in T. now symmetry.
Qed.

Definition tb1 (x : Z) : bool := Z.testbit x 1.
Definition tb2 (x : Z) : bool := Z.testbit x 2.
(* y has the same SPINLOCK and WAITING bits as x *)
Definition FP (x y : Z) : Prop := tb1 y = tb1 x /\ tb2 y = tb2 x.

Ltac tbs := unfold tb1, tb2;
  repeat first [ rewrite tb_wrap by lia | rewrite Z.land_spec | rewrite Z.lor_spec | rewrite tb_not32 by lia ].

(* generic shapes *)
Lemma bits_add1_clear old c k : old mod 2 = 0 -> 1 <= k < 32 -> Z.testbit c k = false ->
  Z.testbit (wrap_u 32 (Z.land (wrap_u 32 (old + 1)) (4294967295 - c))) k = Z.testbit old k.
Proof. intros E H C. tbs. rewrite C, tb_add1 by lia. apply andb_true_r. Qed.

Lemma bits_add256_clear old c k : 0 <= k < 8 -> Z.testbit c k = false ->
  Z.testbit (wrap_u 32 (Z.land (wrap_u 32 (old + 256)) (4294967295 - c))) k = Z.testbit old k.
Proof. intros H C. tbs. rewrite C, tb_add256 by lia. apply andb_true_r. Qed.

Lemma bits_sub1_clear old c k : old mod 2 = 1 -> 1 <= k < 32 -> Z.testbit c k = false ->
  Z.testbit (wrap_u 32 (Z.land (wrap_u 32 (old - 1)) (4294967295 - c))) k = Z.testbit old k.
Proof. intros E H C. tbs. rewrite C, tb_sub1 by lia. apply andb_true_r. Qed.

Lemma bits_sub256_clear old c k : 0 <= k < 8 -> Z.testbit c k = false ->
  Z.testbit (wrap_u 32 (Z.land (wrap_u 32 (old - 256)) (4294967295 - c))) k = Z.testbit old k.
Proof. intros H C. tbs. rewrite C, tb_sub256 by lia. apply andb_true_r. Qed.

Lemma FP_refl x : FP x x.
Proof. split; reflexivity. Qed.

Lemma FP_fast_new m : FP 0 (fast_new m).
Proof. destruct m; split; reflexivity. Qed.
Lemma FP_try_new m : FP 0 (try_new m).
Proof. destruct m; split; reflexivity. Qed.

Lemma FP_fast_new2 m old : fast_guard2 m old = true -> FP old (fast_new2 m old).
Proof.
  intros G. destruct m; unfold fast_guard2 in G; unfold fast_new2.
  - rewrite lock_cas2_guard_eq, negb_involutive in G. apply Z.eqb_eq in G.
    pose proof (zero_test_even old 4294967105 eq_refl G) as E. rewrite lock_cas2_new_eq.
    split; apply bits_add1_clear; auto; lia.
  - rewrite rlock_cas2_new_eq. split; apply bits_add256_clear; auto; lia.
Qed.

Lemma FP_try_new2 m old : try_guard2 m old = true -> FP old (try_new2 m old).
Proof.
  intros G. destruct m; unfold try_guard2 in G; unfold try_new2.
  - rewrite trylock_cas2_guard_eq in G. apply Z.eqb_eq in G.
    pose proof (zero_test_even old 4294967105 eq_refl G) as E. rewrite trylock_cas2_new_eq.
    split; apply bits_add1_clear; auto; lia.
  - rewrite rtrylock_cas2_new_eq. split; apply bits_add256_clear; auto; lia.
Qed.

Lemma lsl_clear_bits m l k : lsl_ok m l -> (k = 1 \/ k = 2) ->
  Z.testbit (wrap_u 32 (Z.lor (wrap_u 32 (Z.lor (clr l) (longw l))) (match m with W => 32 | R => 0 end))) k = false.
Proof.
  intros (_ & Hc & Hl) Hk. rewrite tb_wrap, Z.lor_spec, tb_wrap, Z.lor_spec by lia.
  destruct Hc as [-> | ->], Hl as [-> | ->], m, Hk as [-> | ->]; reflexivity.
Qed.

Lemma FP_lock_slow_cas1 m l old : lsl_ok m l -> nsync_mu_lock_slow_cas1_guard old (zta l) = true ->
  FP old (nsync_mu_lock_slow_cas1_new old (lt_of m) (clr l) (longw l)).
Proof.
  intros Hl G. rewrite lock_slow_cas1_guard_eq in G. apply Z.eqb_eq in G.
  destruct (zta_ok_facts m _ (proj1 Hl)) as [Zodd _].
  pose proof (zero_test_even old _ Zodd G) as E.
  rewrite lock_slow_cas1_new_eq.
  destruct m; split;
    first [ apply bits_add1_clear; [exact E | lia | apply (lsl_clear_bits W l); auto]
          | apply bits_add256_clear; [lia | apply (lsl_clear_bits R l); auto] ].
Qed.

Lemma lock_slow_cas2_bits m l old : lsl_ok m l ->
  let new := nsync_mu_lock_slow_cas2_new old (longw l) (lt_of m) (clr l) in
  tb1 new = true /\ tb2 new = true.
Proof.
  intros (_ & Hc & _). cbv zeta. rewrite lock_slow_cas2_new_eq. tbs.
  destruct Hc as [-> | ->], m; split;
    rewrite ?orb_true_r; cbn [orb andb negb]; first [reflexivity | (rewrite orb_true_r; reflexivity)].
Qed.

Lemma release_spinlock_bits old :
  tb1 (mu_release_spinlock_cas1_new old) = false /\ tb2 (mu_release_spinlock_cas1_new old) = tb2 old.
Proof.
  rewrite release_spinlock_new_eq. tbs. split.
  - change (Z.testbit 2 1) with true. apply andb_false_r.
  - change (Z.testbit 2 2) with false. apply andb_true_r.
Qed.

Lemma FP_ufast m : FP (ufast_old m) (ufast_new m).
Proof. destruct m; split; reflexivity. Qed.

Lemma FP_unlock_new2 m old : match m with W => old mod 2 = 1 | R => 1 <= old / 256 end ->
  FP old (unlock_new2 m old).
Proof.
  intros H. destruct m; unfold unlock_new2.
  - rewrite unlock_cas2_new_eq. split; apply bits_sub1_clear; auto; lia.
  - rewrite runlock_cas2_new_eq. split; unfold tb1, tb2; rewrite tb_wrap, tb_sub256 by lia; reflexivity.
Qed.

Lemma FP_unlock_slow_cas1 m old : match m with W => old mod 2 = 1 | R => 1 <= old / 256 end ->
  FP old (nsync_mu_unlock_slow_cas1_new old (lt_of m)).
Proof.
  intros H. rewrite unlock_slow_cas1_new_eq. destruct m.
  - split; apply bits_sub1_clear; auto; lia.
  - split; apply bits_sub256_clear; auto; lia.
Qed.

Lemma unlock_slow_cas2_bits m old : match m with W => old mod 2 = 1 | R => 1 <= old / 256 end ->
  let new := nsync_mu_unlock_slow_cas2_new old (lt_add_to_acquire (lt_of m)) in
  tb1 new = true /\ tb2 new = tb2 old.
Proof.
  intros H. cbv zeta. rewrite unlock_slow_cas2_new_eq. tbs.
  change (Z.testbit 2 1) with true. change (Z.testbit 2 2) with false.
  change (Z.testbit 8 1) with false. change (Z.testbit 8 2) with false.
  rewrite !orb_false_r, orb_true_r. split; [reflexivity|].
  destruct m; [apply tb_sub1 | apply tb_sub256]; lia.
Qed.

Lemma unlock_slow_cas3_bits u old : late u = 0 ->
  let new := nsync_mu_unlock_slow_cas3_new old (late u) (set_on u) (clear_on u) in
  tb1 new = (tb1 old || tb1 (set_on u)) && negb (tb1 (clear_on u)) /\
  tb2 new = (tb2 old || tb2 (set_on u)) && negb (tb2 (clear_on u)).
Proof.
  intros L. cbv zeta. rewrite unlock_slow_cas3_new_eq, L, Z.sub_0_r. tbs. split; reflexivity.
Qed.

(* ================================================================== *)
(* Part C: C14                                                         *)
(* ================================================================== *)

Lemma escalation : forall w t m l,
  t_pc (get w t) = LsWaitLoad m l -> waiting w t = false ->
  wrap_u 32 (wcount l + 1) = LONG_WAIT_THRESHOLD ->
  exists l', t_pc (get (fst (step w t)) t) = LsLoad m l' /\ longw l' = MU_LONG_WAIT /\ clr l' = MU_DESIG_WAKER /\
             zta l' = Z.land (zta l) (bnot32 (Z.lor MU_WRITER_WAITING MU_LONG_WAIT)).
Proof.
  intros w t m l Hpc Hw Hc.
  assert (t < length (thr w))%nat as Ht by (apply get_inb; rewrite Hpc; discriminate).
  unfold step. rewrite begin_op_nonidle by (rewrite Hpc; discriminate). cbv zeta.
  rewrite Hpc, Hw, Hc, Z.eqb_refl. cbn [fst].
  eexists. split; [| split; [| split]].
  - unfold set_pc. rewrite get_set_t_same by exact Ht. cbn [t_pc]. reflexivity.
  - reflexivity.
  - reflexivity.
  - reflexivity.
Qed.

Lemma requeue_front : forall w t m l,
  t_pc (get w t) = LsStoreWaiting m l -> wcount l <> 0 ->
  queue (fst (step w t)) = t :: queue w.
Proof.
  intros w t m l Hpc Hc.
  unfold step. rewrite begin_op_nonidle by (rewrite Hpc; discriminate). cbv zeta.
  rewrite Hpc. destruct (Z.eqb_spec (wcount l) 0) as [E|_]; [contradiction|]. reflexivity.
Qed.

Lemma enqueue_sets_bit : forall old m c,
  0 <= old < 2 ^ 32 -> (c = 0 \/ c = MU_DESIG_WAKER) ->
  has (nsync_mu_lock_slow_cas2_new old MU_LONG_WAIT (lt_of m) c) MU_LONG_WAIT = true.
Proof.
  intros old m c _ Hc. rewrite has_longwait, lock_slow_cas2_new_eq. tbs.
  change (Z.testbit MU_LONG_WAIT 6) with true. rewrite orb_true_r, orb_true_l.
  destruct Hc as [-> | ->]; reflexivity.
Qed.

Lemma woken_ignores_barrier : forall old m,
  0 <= old < 2 ^ 32 -> Z.testbit old 0 = false -> (m = W -> old / 256 = 0) ->
  nsync_mu_lock_slow_cas1_guard old
    (Z.land (lt_zero_to_acquire (lt_of m)) (bnot32 (Z.lor MU_WRITER_WAITING MU_LONG_WAIT))) = true.
Proof.
  intros old m Rg B0 HW. rewrite lock_slow_cas1_guard_eq. apply Z.eqb_eq.
  rewrite bit0_mod2 in B0. apply Z.eqb_neq in B0.
  assert (old mod 2 = 0) as E by lia.
  assert (Z.land old 1 = 0) as L1.
  { change 1 with (Z.ones 1). rewrite Z.land_ones by lia. exact E. }
  destruct m.
  - change (Z.land (lt_zero_to_acquire (lt_of W)) (bnot32 (Z.lor MU_WRITER_WAITING MU_LONG_WAIT))) with 4294967041.
    specialize (HW eq_refl).
    assert (Z.land old 255 = old) as L255.
    { change 255 with (Z.ones 8). rewrite Z.land_ones by lia. change (2 ^ 8) with 256. lia. }
    rewrite <- L255, <- Z.land_assoc. change (Z.land 255 4294967041) with 1. rewrite L1. reflexivity.
  - change (Z.land (lt_zero_to_acquire (lt_of R)) (bnot32 (Z.lor MU_WRITER_WAITING MU_LONG_WAIT))) with 1.
    rewrite L1. reflexivity.
Qed.

(* the acquiring guards of fresh threads all test MU_LONG_WAIT *)
Lemma fast_guard2_longwait m old : fast_guard2 m old = true -> Z.testbit old 6 = false.
Proof.
  intros G. destruct m; unfold fast_guard2 in G.
  - rewrite lock_cas2_guard_eq, negb_involutive in G. apply Z.eqb_eq in G.
    apply (zero_test_bit old 4294967105 6); [lia | reflexivity | exact G].
  - rewrite rlock_cas2_guard_eq, negb_involutive in G. apply Z.eqb_eq in G.
    apply (zero_test_bit old 97 6); [lia | reflexivity | exact G].
Qed.

Lemma try_guard2_longwait m old : try_guard2 m old = true -> Z.testbit old 6 = false.
Proof.
  intros G. destruct m; unfold try_guard2 in G.
  - rewrite trylock_cas2_guard_eq in G. apply Z.eqb_eq in G.
    apply (zero_test_bit old 4294967105 6); [lia | reflexivity | exact G].
  - rewrite rtrylock_cas2_guard_eq in G. apply Z.eqb_eq in G.
    apply (zero_test_bit old 97 6); [lia | reflexivity | exact G].
Qed.

Lemma slow_guard_longwait m old : nsync_mu_lock_slow_cas1_guard old (lt_zero_to_acquire (lt_of m)) = true ->
  Z.testbit old 6 = false.
Proof.
  intros G. rewrite lock_slow_cas1_guard_eq in G. apply Z.eqb_eq in G.
  apply (zero_test_bit old (lt_zero_to_acquire (lt_of m)) 6); [lia | destruct m; reflexivity | exact G].
Qed.

Lemma barrier : forall progs sched t,
  Z.of_nat (length progs) < 2 ^ 24 - 1 ->
  let w := run (init progs) sched in
  has (word w) MU_LONG_WAIT = true -> fresh w t -> held (get w t) = None ->
  held (get (fst (step w t)) t) = None.
Proof.
  intros progs sched t Hn w0 HL HF HH.
  pose proof (begin_op_inv _ _ t (reachable_inv progs sched Hn)) as HI. fold w0 in HI.
  rewrite has_longwait, <- (begin_op_word w0 t) in HL. rewrite <- (begin_op_held w0 t) in HH.
  unfold fresh in HF. unfold step. cbv zeta.
  revert HI HL HF HH. generalize (begin_op w0 t). intros w HI HL HF HH.
  destruct HI as (_ & _ & Hok). specialize (Hok t). unfold pc_ok in Hok. fold (get w t) in Hok.
  destruct (Nat.lt_ge_cases t (length (thr w))) as [Ht|Ht].
  2:{ rewrite get_oob in HF by exact Ht. elim HF. }
  destruct (get w t) as [p ops h sl lt] eqn:Hs. unfold get in Hs. cbn [t_pc held] in *. subst h.
  destruct p; try (elim HF; fail); unfold cas.
  - (* LkFast *) destruct (Z.eqb_spec (word w) 0) as [E|_]; [rewrite E in HL; discriminate HL|].
    cbn [fst]. normt Hs Ht. reflexivity.
  - (* LkLoad *) brk; cbn [fst]; normt Hs Ht; reflexivity.
  - (* LkCas2 *) destruct Hok as [_ G]. apply fast_guard2_longwait in G.
    destruct (Z.eqb_spec (word w) old) as [E|_]; [rewrite E in HL; congruence|].
    cbn [fst]. normt Hs Ht. reflexivity.
  - (* TryFast *) destruct (Z.eqb_spec (word w) 0) as [E|_]; [rewrite E in HL; discriminate HL|].
    cbn [fst]. normt Hs Ht. reflexivity.
  - (* TryLoad *) brk; cbn [fst]; normt Hs Ht; reflexivity.
  - (* TryCas2 *) destruct Hok as [_ G]. apply try_guard2_longwait in G.
    destruct (Z.eqb_spec (word w) old) as [E|_]; [rewrite E in HL; congruence|].
    cbn [fst]. normt Hs Ht. reflexivity.
  - (* LsLoad *) brk; cbn [fst]; normt Hs Ht; reflexivity.
  - (* LsCasAcq *) destruct Hok as (_ & _ & G). destruct HF as [_ Hz]. rewrite Hz in G.
    apply slow_guard_longwait in G.
    destruct (Z.eqb_spec (word w) old) as [E|_]; [rewrite E in HL; congruence|].
    cbn [fst]. normt Hs Ht. reflexivity.
  - (* LsCasEnq *) brk; cbn [fst]; normt Hs Ht; reflexivity.
Qed.

(* ================================================================== *)
(* Part D: C13, the local lemmas                                       *)
(* ================================================================== *)

Lemma last_cas : forall w t,
  is_wake_pc (t_pc (get w t)) = true ->
  word (fst (step w t)) = word w /\ queue (fst (step w t)) = queue w /\
  (is_wake_pc (t_pc (get (fst (step w t)) t)) = true \/ t_pc (get (fst (step w t)) t) = Idle).
Proof.
  intros w t H.
  assert (t_pc (get w t) <> Idle) as NI by (intros E; rewrite E in H; discriminate H).
  pose proof (get_inb w t NI) as Ht.
  unfold step. rewrite begin_op_nonidle by exact NI. cbv zeta.
  destruct (get w t) as [p ops h sl lt] eqn:Hs. unfold get in Hs. cbn [t_pc] in *.
  destruct p; try discriminate H.
  - destruct (wake u) eqn:Ew; cbn [fst]; (split; [reflexivity|]); (split; [reflexivity|]); normt Hs Ht; auto.
  - cbn [fst]. (split; [reflexivity|]); (split; [reflexivity|]). normt Hs Ht.
    destruct (wake u); auto.
Qed.

Lemma fast_release_is_last : forall w t m,
  (t_pc (get (begin_op w t) t) = UlFast m \/ exists old, t_pc (get (begin_op w t) t) = UlCas2 m old \/
   t_pc (get (begin_op w t) t) = UsCasRel m old) ->
  held (get (fst (step w t)) t) = None -> held (get (begin_op w t) t) <> None ->
  t_pc (get (fst (step w t)) t) = Idle.
Proof.
  intros w0 t m. unfold step. cbv zeta. generalize (begin_op w0 t). intros w H.
  assert (t_pc (get w t) <> Idle) as NI.
  { destruct H as [E | (old & [E | E])]; rewrite E; discriminate. }
  pose proof (get_inb w t NI) as Ht.
  destruct (get w t) as [p ops h sl lt] eqn:Hs. unfold get in Hs. cbn [t_pc held] in *.
  destruct H as [E | (old & [E | E])]; subst p; unfold cas; brk; cbn [fst]; normt Hs Ht;
    intros H1 H2; first [reflexivity | contradiction].
Qed.

(* ================================================================== *)
(* Part E: the queue invariant, abstract part                          *)
(* ================================================================== *)

(* What the queue discipline needs to know about a thread's pc:
   Rwake l    not involved with the queue; l = the waiters it still has to wake (l = [] for every pc outside
              the wake-up loop of nsync_mu_unlock_slow_)
   Renq0      owns the spinlock, about to put itself on the queue (LsStoreWaiting)
   Renqq      owns the spinlock, is on the queue (mu_release_spinlock inside lock_slow)
   Rwait      queued or on a wake list, spinlock released (LsWaitLoad / LsSemP)
   Rrel wk cw owns the spinlock after the scan of unlock_slow: wk = wake list, cw = "clears MU_WAITING" *)
Inductive role := Rwake (l : list nat) | Renq0 | Renqq | Rwait | Rrel (wk : list nat) (cw : bool).

Definition wl (r : role) : list nat := match r with Rwake l => l | Rrel wk _ => wk | _ => [] end.
Definition own (r : role) : bool := match r with Renq0 | Renqq | Rrel _ _ => true | _ => false end.
Definition enq (r : role) : bool := match r with Renq0 | Renqq => true | _ => false end.
Definition isq (r : role) : bool := match r with Renqq | Rwait => true | _ => false end.
Definition lsr (r : role) : bool := match r with Renqq => true | _ => false end.
Definition rel (r : role) : option bool := match r with Rrel _ cw => Some cw | _ => None end.

Lemma enq_own r : enq r = true -> own r = true.   Proof. destruct r; auto. Qed.
Lemma lsr_own r : lsr r = true -> own r = true.   Proof. destruct r; auto. Qed.
Lemma rel_own r cw : rel r = Some cw -> own r = true. Proof. destruct r; auto; discriminate. Qed.

(* list part: queue q, waiting flags wt, role k t of each thread *)
Definition QL (q : list nat) (wt : nat -> bool) (k : nat -> role) : Prop :=
  NoDup q /\
  (forall p, In p q -> wt p = true /\ isq (k p) = true) /\
  (forall t, NoDup (wl (k t))) /\
  (forall t p, In p (wl (k t)) -> wt p = true /\ isq (k p) = true /\ ~ In p q) /\
  (forall t1 t2 p, In p (wl (k t1)) -> In p (wl (k t2)) -> t1 = t2).

(* bit part: b1 = MU_SPINLOCK, b2 = MU_WAITING of the word *)
Definition QB (b1 b2 : bool) (q : list nat) (k : nat -> role) : Prop :=
  (forall t, own (k t) = true -> b1 = true) /\
  (forall t1 t2, own (k t1) = true -> own (k t2) = true -> t1 = t2) /\
  (forall t cw, rel (k t) = Some cw -> (cw = true <-> q = [])) /\
  (forall t, lsr (k t) = true -> In t q) /\
  (q <> [] -> b2 = true) /\
  (forall t, enq (k t) = true -> b2 = true) /\
  (b1 = false -> b2 = true -> q <> []).

Lemma fupd_same {A} (f : nat -> A) k v : fupd f k v k = v.
Proof. unfold fupd. now rewrite Nat.eqb_refl. Qed.
Lemma fupd_other {A} (f : nat -> A) k v x : x <> k -> fupd f k v x = f x.
Proof. unfold fupd. intros H. destruct (Nat.eqb_spec x k); congruence. Qed.

Lemma NoDup_app_parts {A} (a b : list A) : NoDup (a ++ b) ->
  NoDup a /\ NoDup b /\ forall x, In x a -> ~ In x b.
Proof.
  induction a as [|y a IH]; cbn [app]; intros H.
  - split; [constructor | split; [assumption | intros x []]].
  - apply NoDup_cons_iff in H. destruct H as [Hy H]. destruct (IH H) as (Na & Nb & D).
    split; [|split; [assumption|]].
    + constructor; [|assumption]. intros Hin. apply Hy, in_or_app. now left.
    + intros x [<- | Hx] Hb; [apply Hy, in_or_app; now right | exact (D x Hx Hb)].
Qed.

Lemma QL_ext q wt k k' : (forall t, k' t = k t) -> QL q wt k -> QL q wt k'.
Proof.
  intros E (N & Hq & Hn & Hw & Hd). repeat split.
  - exact N.
  - apply (Hq p H).
  - rewrite E. apply (Hq p H).
  - intros t. rewrite E. apply Hn.
  - rewrite E in H. apply (Hw t p H).
  - rewrite E in *. apply (Hw t p H).
  - rewrite E in H. apply (Hw t p H).
  - intros t1 t2 p. rewrite !E. apply Hd.
Qed.

Lemma QB_ext b1 b2 q k k' : (forall t, k' t = k t) -> QB b1 b2 q k -> QB b1 b2 q k'.
Proof.
  intros E (B1 & B2 & C & El & Q5a & Q5b & Q6). repeat split.
  - intros t. rewrite E. apply B1.
  - intros t1 t2. rewrite !E. apply B2.
  - rewrite E in H. apply (C t cw H).
  - rewrite E in H. apply (C t cw H).
  - intros t. rewrite E. apply El.
  - exact Q5a.
  - intros t. rewrite E. apply Q5b.
  - exact Q6.
Qed.

(* t changes role, queue and flags unchanged *)
Lemma QL_role q wt k t r' : QL q wt k ->
  NoDup (wl r') -> incl (wl r') (wl (k t)) -> (isq (k t) = true -> isq r' = true \/ wt t = false) ->
  QL q wt (fupd k t r').
Proof.
  intros (N & Hq & Hn & Hw & Hd) Nr Hi Hs.
  assert (forall p, wt p = true -> isq (k p) = true -> isq (fupd k t r' p) = true) as A.
  { intros p Wp Ip. unfold fupd. destruct (Nat.eqb_spec p t) as [->|]; [|assumption].
    destruct (Hs Ip); congruence. }
  assert (forall t' p, In p (wl (fupd k t r' t')) -> In p (wl (k t'))) as B.
  { intros t' p. unfold fupd. destruct (Nat.eqb_spec t' t) as [->|]; auto. }
  split; [exact N|]. split; [|split; [|split]].
  - intros p Hp. destruct (Hq p Hp). auto.
  - intros t'. unfold fupd. destruct (Nat.eqb_spec t' t); auto.
  - intros t' p Hp. apply B in Hp. destruct (Hw _ _ Hp) as (a & b & c). auto.
  - intros t1 t2 p H1 H2. apply B in H1. apply B in H2. eauto.
Qed.

(* t, not queued so far, puts itself on the queue and sets its waiting flag *)
Lemma QL_enqueue q q' wt k t r' : QL q wt k ->
  isq (k t) = false -> isq r' = true -> wl r' = [] -> Permutation q' (t :: q) ->
  QL q' (fupd wt t true) (fupd k t r').
Proof.
  intros (N & Hq & Hn & Hw & Hd) I0 I1 W1 P.
  assert (~ In t q) as Ntq by (intros H; destruct (Hq t H); congruence).
  assert (forall x, In x q' <-> x = t \/ In x q) as Iq.
  { intros x. split; intros H.
    - apply (Permutation_in _ P) in H. destruct H; auto.
    - apply (Permutation_in _ (Permutation_sym P)). destruct H; [left; auto | right; auto]. }
  split; [|split; [|split; [|split]]].
  - apply (Permutation_NoDup (Permutation_sym P)). constructor; assumption.
  - intros p Hp. apply Iq in Hp. destruct Hp as [-> | Hp].
    + rewrite !fupd_same. auto.
    + assert (p <> t) by congruence. rewrite !fupd_other by assumption. auto.
  - intros t'. unfold fupd. destruct (Nat.eqb_spec t' t); [rewrite W1; constructor | auto].
  - intros t' p. unfold fupd at 1. destruct (Nat.eqb_spec t' t); [rewrite W1; intros []|].
    intros Hp. destruct (Hw _ _ Hp) as (a & b & c).
    assert (p <> t) by congruence. rewrite !fupd_other by assumption.
    split; [assumption | split; [assumption|]]. rewrite Iq. tauto.
  - intros t1 t2 p. unfold fupd.
    destruct (Nat.eqb_spec t1 t); [rewrite W1; intros []|].
    destruct (Nat.eqb_spec t2 t); [rewrite W1; intros _ []|]. apply Hd.
Qed.

(* t, holding nothing, splits the queue into its wake list and the remaining queue *)
Lemma QL_scan q wt k t r' wk keep : QL q wt k ->
  isq (k t) = false -> wl (k t) = [] -> Permutation (wk ++ keep) q -> isq r' = false -> wl r' = wk ->
  QL keep wt (fupd k t r').
Proof.
  intros (N & Hq & Hn & Hw & Hd) I0 W0 P I1 W1.
  pose proof (Permutation_NoDup (Permutation_sym P) N) as N2.
  destruct (NoDup_app_parts _ _ N2) as (Nwk & Nkeep & Dj).
  assert (forall x, In x wk -> In x q) as Iwk by (intros x H; apply (Permutation_in _ P), in_or_app; now left).
  assert (forall x, In x keep -> In x q) as Ikp by (intros x H; apply (Permutation_in _ P), in_or_app; now right).
  assert (forall p, isq (k p) = true -> fupd k t r' p = k p) as Fq.
  { intros p Hp. apply fupd_other. congruence. }
  split; [exact Nkeep|]. split; [|split; [|split]].
  - intros p Hp. destruct (Hq p (Ikp p Hp)) as [a b]. rewrite Fq by assumption. auto.
  - intros t'. unfold fupd. destruct (Nat.eqb_spec t' t); [rewrite W1; assumption | auto].
  - intros t' p. unfold fupd at 1. destruct (Nat.eqb_spec t' t).
    + rewrite W1. intros Hp. destruct (Hq p (Iwk p Hp)) as [a b]. rewrite Fq by assumption.
      split; [assumption | split; [assumption | exact (Dj p Hp)]].
    + intros Hp. destruct (Hw _ _ Hp) as (a & b & c). rewrite Fq by assumption.
      split; [assumption | split; [assumption | intros Hk; apply c, Ikp, Hk]].
  - intros t1 t2 p. unfold fupd.
    destruct (Nat.eqb_spec t1 t) as [->|N1], (Nat.eqb_spec t2 t) as [->|N2']; auto.
    + rewrite W1. intros H1 H2. destruct (Hw _ _ H2) as (_ & _ & c). elim c. auto.
    + rewrite W1. intros H1 H2. destruct (Hw _ _ H1) as (_ & _ & c). elim c. auto.
    + apply Hd.
Qed.

(* t clears the waiting flag of the head of its wake list *)
Lemma QL_wake q wt k t r' p rest : QL q wt k ->
  wl (k t) = p :: rest -> isq (k t) = false -> isq r' = false -> wl r' = rest ->
  QL q (fupd wt p false) (fupd k t r').
Proof.
  intros (N & Hq & Hn & Hw & Hd) W0 I0 I1 W1.
  assert (In p (wl (k t))) as Hp by (rewrite W0; now left).
  pose proof (Hn t) as Nt. rewrite W0 in Nt. apply NoDup_cons_iff in Nt. destruct Nt as [Npr Nrest].
  assert (forall x, isq (k x) = true -> fupd k t r' x = k x) as Fq.
  { intros x Hx. apply fupd_other. congruence. }
  split; [exact N|]. split; [|split; [|split]].
  - intros x Hx. destruct (Hq x Hx) as [a b]. rewrite Fq by assumption.
    rewrite fupd_other; [auto|]. intros ->. destruct (Hw _ _ Hp) as (_ & _ & c). contradiction.
  - intros t'. unfold fupd. destruct (Nat.eqb_spec t' t); [rewrite W1; assumption | auto].
  - intros t' x. unfold fupd at 1. destruct (Nat.eqb_spec t' t) as [->|Nt'].
    + rewrite W1. intros Hx. assert (In x (wl (k t))) as Hx' by (rewrite W0; now right).
      destruct (Hw _ _ Hx') as (a & b & c). rewrite Fq by assumption.
      rewrite fupd_other; [auto|]. intros ->. contradiction.
    + intros Hx. destruct (Hw _ _ Hx) as (a & b & c). rewrite Fq by assumption.
      rewrite fupd_other; [auto|]. intros ->. elim Nt'. apply (Hd _ _ p Hx Hp).
  - intros t1 t2 x. unfold fupd.
    assert (forall y, In y rest -> In y (wl (k t))) as Ir by (intros y Hy; rewrite W0; now right).
    destruct (Nat.eqb_spec t1 t) as [->|N1], (Nat.eqb_spec t2 t) as [->|N2']; auto; rewrite ?W1; intros H1 H2.
    + symmetry. apply (Hd _ _ x H2). auto.
    + apply (Hd _ _ x H1). auto.
    + apply (Hd _ _ x H1 H2).
Qed.

(* --- bit part --- *)
Lemma QB_same b1 b2 q k t r' : QB b1 b2 q k ->
  own r' = own (k t) -> enq r' = enq (k t) -> lsr r' = lsr (k t) -> rel r' = rel (k t) ->
  QB b1 b2 q (fupd k t r').
Proof.
  intros (B1 & B2 & C & El & Q5a & Q5b & Q6) E1 E2 E3 E4.
  assert (forall t', own (fupd k t r' t') = own (k t')) as F1
    by (intros t'; unfold fupd; destruct (Nat.eqb_spec t' t); congruence).
  assert (forall t', enq (fupd k t r' t') = enq (k t')) as F2
    by (intros t'; unfold fupd; destruct (Nat.eqb_spec t' t); congruence).
  assert (forall t', lsr (fupd k t r' t') = lsr (k t')) as F3
    by (intros t'; unfold fupd; destruct (Nat.eqb_spec t' t); congruence).
  assert (forall t', rel (fupd k t r' t') = rel (k t')) as F4
    by (intros t'; unfold fupd; destruct (Nat.eqb_spec t' t); congruence).
  repeat split.
  - intros t'. rewrite F1. apply B1.
  - intros t1 t2. rewrite !F1. apply B2.
  - rewrite F4 in H. apply (C t0 cw H).
  - rewrite F4 in H. apply (C t0 cw H).
  - intros t'. rewrite F3. apply El.
  - exact Q5a.
  - intros t'. rewrite F2. apply Q5b.
  - exact Q6.
Qed.

(* nobody owns the spinlock *)
Lemma QB_noowner b2 q k : QB false b2 q k -> forall t, own (k t) = false.
Proof. intros (B1 & _) t. destruct (own (k t)) eqn:E; [|reflexivity]. now apply B1 in E. Qed.

(* t owns it: nobody else does *)
Lemma QB_unique b1 b2 q k t : QB b1 b2 q k -> own (k t) = true -> forall t', t' <> t -> own (k t') = false.
Proof.
  intros (_ & B2 & _) Ht t' N. destruct (own (k t')) eqn:E; [|reflexivity]. elim N. now apply B2.
Qed.

Ltac qb_split := split; [|split; [|split; [|split; [|split; [|split]]]]].

(* S1: the enqueue CAS of lock_slow takes the spinlock and sets MU_WAITING *)
Lemma QB_S1 b2 q k t : QB false b2 q k -> QB true true q (fupd k t Renq0).
Proof.
  intros H. pose proof (QB_noowner _ _ _ H) as NO. destruct H as (B1 & B2 & C & El & Q5a & Q5b & Q6).
  assert (forall t', own (fupd k t Renq0 t') = true -> t' = t) as U.
  { intros t'. unfold fupd. destruct (Nat.eqb_spec t' t); [auto|]. rewrite NO. discriminate. }
  qb_split.
  - reflexivity.
  - intros t1 t2 H1 H2. rewrite (U _ H1), (U _ H2). reflexivity.
  - intros t' cw H. pose proof (U _ (rel_own _ _ H)) as ->. rewrite fupd_same in H. discriminate H.
  - intros t' H. pose proof (U _ (lsr_own _ H)) as ->. rewrite fupd_same in H. discriminate H.
  - reflexivity.
  - reflexivity.
  - intros; discriminate.
Qed.

(* S2: the spinlock owner puts itself on the queue *)
Lemma QB_S2 b1 b2 q q' k t : QB b1 b2 q k -> k t = Renq0 -> Permutation q' (t :: q) ->
  QB b1 b2 q' (fupd k t Renqq).
Proof.
  intros H Kt P. assert (own (k t) = true) as Ot by (rewrite Kt; reflexivity).
  pose proof (QB_unique _ _ _ _ _ H Ot) as U. destruct H as (B1 & B2 & C & El & Q5a & Q5b & Q6).
  assert (In t q') as Itq by (apply (Permutation_in _ (Permutation_sym P)); now left).
  assert (q' <> []) as Nq by (intros E; rewrite E in Itq; destruct Itq).
  assert (b2 = true) as Hb2 by (apply (Q5b t); rewrite Kt; reflexivity).
  assert (forall t', own (fupd k t Renqq t') = true -> t' = t) as U'.
  { intros t'. unfold fupd. destruct (Nat.eqb_spec t' t); [auto|]. rewrite U by assumption. discriminate. }
  qb_split.
  - intros t' _. exact (B1 t Ot).
  - intros t1 t2 H1 H2. rewrite (U' _ H1), (U' _ H2). reflexivity.
  - intros t' cw H. pose proof (U' _ (rel_own _ _ H)) as ->. rewrite fupd_same in H. discriminate H.
  - intros t' H. pose proof (U' _ (lsr_own _ H)) as ->. exact Itq.
  - intros _. exact Hb2.
  - intros t' _. exact Hb2.
  - intros _ _. exact Nq.
Qed.

(* S3: the enqueuer releases the spinlock *)
Lemma QB_S3 b1 b2 q k t : QB b1 b2 q k -> k t = Renqq -> QB false b2 q (fupd k t Rwait).
Proof.
  intros H Kt. assert (own (k t) = true) as Ot by (rewrite Kt; reflexivity).
  pose proof (QB_unique _ _ _ _ _ H Ot) as U. destruct H as (B1 & B2 & C & El & Q5a & Q5b & Q6).
  assert (forall t', own (fupd k t Rwait t') = false) as U'.
  { intros t'. unfold fupd. destruct (Nat.eqb_spec t' t); [reflexivity | auto]. }
  assert (In t q) as Itq by (apply El; rewrite Kt; reflexivity).
  qb_split.
  - intros t' H. rewrite U' in H. discriminate H.
  - intros t1 t2 H. rewrite U' in H. discriminate H.
  - intros t' cw H. apply rel_own in H. rewrite U' in H. discriminate H.
  - intros t' H. apply lsr_own in H. rewrite U' in H. discriminate H.
  - exact Q5a.
  - intros t' H. apply enq_own in H. rewrite U' in H. discriminate H.
  - intros _ _ E. rewrite E in Itq. destruct Itq.
Qed.

(* S5: the releaser takes the spinlock and scans *)
Lemma QB_S5 q k t wk cw keep : QB false true q k -> (cw = true <-> keep = []) ->
  QB true true keep (fupd k t (Rrel wk cw)).
Proof.
  intros H Hcw. pose proof (QB_noowner _ _ _ H) as NO. destruct H as (B1 & B2 & C & El & Q5a & Q5b & Q6).
  assert (forall t', own (fupd k t (Rrel wk cw) t') = true -> t' = t) as U.
  { intros t'. unfold fupd. destruct (Nat.eqb_spec t' t); [auto|]. rewrite NO. discriminate. }
  qb_split.
  - reflexivity.
  - intros t1 t2 H1 H2. rewrite (U _ H1), (U _ H2). reflexivity.
  - intros t' cw' H. pose proof (U _ (rel_own _ _ H)) as ->. rewrite fupd_same in H.
    injection H as <-. exact Hcw.
  - intros t' H. pose proof (U _ (lsr_own _ H)) as ->. rewrite fupd_same in H. discriminate H.
  - reflexivity.
  - reflexivity.
  - intros; discriminate.
Qed.

(* S6: the releaser drops the spinlock; MU_WAITING is cleared exactly when the queue is empty *)
Lemma QB_S6 b1 b2 q k t wk cw : QB b1 b2 q k -> k t = Rrel wk cw ->
  QB false (b2 && negb cw) q (fupd k t (Rwake wk)).
Proof.
  intros H Kt. assert (own (k t) = true) as Ot by (rewrite Kt; reflexivity).
  pose proof (QB_unique _ _ _ _ _ H Ot) as U. destruct H as (B1 & B2 & C & El & Q5a & Q5b & Q6).
  assert (forall t', own (fupd k t (Rwake wk) t') = false) as U'.
  { intros t'. unfold fupd. destruct (Nat.eqb_spec t' t); [reflexivity | auto]. }
  assert (cw = true <-> q = []) as Hcw by (apply (C t); rewrite Kt; reflexivity).
  qb_split.
  - intros t' H. rewrite U' in H. discriminate H.
  - intros t1 t2 H. rewrite U' in H. discriminate H.
  - intros t' cw' H. apply rel_own in H. rewrite U' in H. discriminate H.
  - intros t' H. apply lsr_own in H. rewrite U' in H. discriminate H.
  - intros Nq. rewrite (Q5a Nq). destruct cw; [|reflexivity]. elim Nq. now apply Hcw.
  - intros t' H. apply enq_own in H. rewrite U' in H. discriminate H.
  - intros _ Hb E. apply Hcw in E. subst cw. rewrite andb_false_r in Hb. discriminate Hb.
Qed.

(* ================================================================== *)
(* Part F: the queue invariant, preservation by [step]                 *)
(* ================================================================== *)

Definition role_of (p : pc) : role :=
  match p with
  | LsStoreWaiting _ _ => Renq0
  | LsRelLoad _ _ | LsRelCas _ _ _ => Renqq
  | LsWaitLoad _ _ | LsSemP _ _ => Rwait
  | UsRelLoad _ u | UsRelCas _ u _ => Rrel (wake u) (tb2 (clear_on u))
  | UsWakeStore _ u | UsWakeV _ _ u => Rwake (wake u)
  | _ => Rwake []
  end.

Definition kof (w : world) : nat -> role := fun t => role_of (t_pc (get w t)).

(* thread-local facts remembered in the pc *)
Definition pcA (p : pc) : Prop :=
  match p with
  | LsCasEnq _ _ old => tb1 old = false
  | UsCasSpin _ old => tb1 old = false /\ tb2 old = true
  | UsRelLoad _ u | UsRelCas _ u _ =>
      wake u <> [] /\ tb1 (clear_on u) = true /\ tb1 (set_on u) = false /\ tb2 (set_on u) = false
  | _ => True
  end.

Definition QInv (w : world) : Prop :=
  QL (queue w) (waiting w) (kof w) /\
  QB (tb1 (word w)) (tb2 (word w)) (queue w) (kof w) /\
  forall t, pcA (t_pc (get w t)).

Lemma isq_role_of p : isq (role_of p) = in_lock_slow_queued p.
Proof. destruct p; reflexivity. Qed.

Lemma kof_upd w w' t s' : (t < length (thr w))%nat -> thr w' = lupd (thr w) t s' ->
  forall t', kof w' t' = fupd (kof w) t (role_of (t_pc s')) t'.
Proof.
  intros Ht E t'. unfold kof, get, fupd. rewrite E.
  destruct (Nat.eqb_spec t' t) as [->|N]; [rewrite nth_lupd_same | rewrite nth_lupd_other]; auto.
Qed.

Lemma QInv_intro w w' t s' :
  (t < length (thr w))%nat -> thr w' = lupd (thr w) t s' ->
  (forall t', pcA (t_pc (get w t'))) -> pcA (t_pc s') ->
  QL (queue w') (waiting w') (fupd (kof w) t (role_of (t_pc s'))) ->
  QB (tb1 (word w')) (tb2 (word w')) (queue w') (fupd (kof w) t (role_of (t_pc s'))) ->
  QInv w'.
Proof.
  intros Ht E HA HA' HL HB. pose proof (kof_upd w w' t s' Ht E) as K.
  split; [apply (QL_ext _ _ _ _ K HL)|]. split; [apply (QB_ext _ _ _ _ _ K HB)|].
  intros t'. unfold get. rewrite E.
  destruct (Nat.eq_dec t' t) as [->|N]; [rewrite nth_lupd_same | rewrite nth_lupd_other]; auto. apply HA.
Qed.

(* role and flag bits unchanged *)
Lemma C_same w w' t s s' : QInv w -> (t < length (thr w))%nat -> get w t = s ->
  thr w' = lupd (thr w) t s' -> queue w' = queue w -> waiting w' = waiting w ->
  FP (word w) (word w') -> pcA (t_pc s') -> role_of (t_pc s') = role_of (t_pc s) -> QInv w'.
Proof.
  intros (HL & HB & HA) Ht Hs E Hq Hw [F1 F2] HA' Hr.
  assert (forall t', fupd (kof w) t (role_of (t_pc s')) t' = kof w t') as K.
  { intros t'. unfold fupd. destruct (Nat.eqb_spec t' t) as [->|]; [|reflexivity].
    rewrite Hr, <- Hs. reflexivity. }
  apply (QInv_intro w w' t s' Ht E HA HA').
  - rewrite Hq, Hw. apply (QL_ext _ _ _ _ K HL).
  - rewrite F1, F2, Hq. apply (QB_ext _ _ _ _ _ K HB).
Qed.

Lemma C_S1 w w' t s s' : QInv w -> (t < length (thr w))%nat -> get w t = s ->
  thr w' = lupd (thr w) t s' -> queue w' = queue w -> waiting w' = waiting w ->
  role_of (t_pc s) = Rwake [] -> role_of (t_pc s') = Renq0 ->
  tb1 (word w) = false -> tb1 (word w') = true /\ tb2 (word w') = true -> pcA (t_pc s') -> QInv w'.
Proof.
  intros (HL & HB & HA) Ht Hs E Hq Hw R0 R1 T1 [T1' T2'] HA'.
  assert (kof w t = Rwake []) as Kt by (unfold kof; rewrite Hs; exact R0).
  apply (QInv_intro w w' t s' Ht E HA HA'); rewrite R1.
  - rewrite Hq, Hw. apply QL_role; [exact HL | constructor | intros x [] |].
    rewrite Kt. discriminate.
  - rewrite T1', T2', Hq. apply QB_S1 with (b2 := tb2 (word w)). rewrite <- T1. exact HB.
Qed.

Lemma C_S2 w w' t s s' : QInv w -> (t < length (thr w))%nat -> get w t = s ->
  thr w' = lupd (thr w) t s' -> Permutation (queue w') (t :: queue w) ->
  waiting w' = fupd (waiting w) t true -> word w' = word w ->
  role_of (t_pc s) = Renq0 -> role_of (t_pc s') = Renqq -> pcA (t_pc s') -> QInv w'.
Proof.
  intros (HL & HB & HA) Ht Hs E Hq Hw Hx R0 R1 HA'.
  assert (kof w t = Renq0) as Kt by (unfold kof; rewrite Hs; exact R0).
  apply (QInv_intro w w' t s' Ht E HA HA'); rewrite R1.
  - rewrite Hw. apply (QL_enqueue (queue w)); auto. rewrite Kt. reflexivity.
  - rewrite Hx. apply (QB_S2 _ _ (queue w)); auto.
Qed.

Lemma C_S3 w w' t s s' : QInv w -> (t < length (thr w))%nat -> get w t = s ->
  thr w' = lupd (thr w) t s' -> queue w' = queue w -> waiting w' = waiting w ->
  role_of (t_pc s) = Renqq -> role_of (t_pc s') = Rwait ->
  tb1 (word w') = false /\ tb2 (word w') = tb2 (word w) -> pcA (t_pc s') -> QInv w'.
Proof.
  intros (HL & HB & HA) Ht Hs E Hq Hw R0 R1 [T1' T2'] HA'.
  assert (kof w t = Renqq) as Kt by (unfold kof; rewrite Hs; exact R0).
  apply (QInv_intro w w' t s' Ht E HA HA'); rewrite R1.
  - rewrite Hq, Hw. apply QL_role; [exact HL | constructor | intros x [] | auto].
  - rewrite T1', T2', Hq. apply (QB_S3 (tb1 (word w))); assumption.
Qed.

Lemma C_S4 w w' t s s' : QInv w -> (t < length (thr w))%nat -> get w t = s ->
  thr w' = lupd (thr w) t s' -> queue w' = queue w -> waiting w' = waiting w -> word w' = word w ->
  role_of (t_pc s) = Rwait -> role_of (t_pc s') = Rwake [] -> waiting w t = false ->
  pcA (t_pc s') -> QInv w'.
Proof.
  intros (HL & HB & HA) Ht Hs E Hq Hw Hx R0 R1 Wf HA'.
  assert (kof w t = Rwait) as Kt by (unfold kof; rewrite Hs; exact R0).
  apply (QInv_intro w w' t s' Ht E HA HA'); rewrite R1.
  - rewrite Hq, Hw. apply QL_role; [exact HL | constructor | intros x [] | auto].
  - rewrite Hx, Hq. apply QB_same; [exact HB | | | |]; rewrite Kt; reflexivity.
Qed.

Lemma C_S5 w w' t s s' wk cw : QInv w -> (t < length (thr w))%nat -> get w t = s ->
  thr w' = lupd (thr w) t s' -> waiting w' = waiting w ->
  role_of (t_pc s) = Rwake [] -> role_of (t_pc s') = Rrel wk cw ->
  tb1 (word w) = false /\ tb2 (word w) = true -> tb1 (word w') = true /\ tb2 (word w') = true ->
  Permutation (wk ++ queue w') (queue w) -> (cw = true <-> queue w' = []) ->
  pcA (t_pc s') -> QInv w'.
Proof.
  intros (HL & HB & HA) Ht Hs E Hw R0 R1 [T1 T2] [T1' T2'] P Hcw HA'.
  assert (kof w t = Rwake []) as Kt by (unfold kof; rewrite Hs; exact R0).
  apply (QInv_intro w w' t s' Ht E HA HA'); rewrite R1.
  - rewrite Hw. apply (QL_scan (queue w) _ _ _ _ wk); auto; rewrite Kt; reflexivity.
  - rewrite T1', T2'. apply (QB_S5 (queue w)); [|exact Hcw]. rewrite <- T1, <- T2. exact HB.
Qed.

Lemma C_S6 w w' t s s' wk cw : QInv w -> (t < length (thr w))%nat -> get w t = s ->
  thr w' = lupd (thr w) t s' -> queue w' = queue w -> waiting w' = waiting w ->
  role_of (t_pc s) = Rrel wk cw -> role_of (t_pc s') = Rwake wk ->
  tb1 (word w') = false /\ tb2 (word w') = tb2 (word w) && negb cw -> pcA (t_pc s') -> QInv w'.
Proof.
  intros (HL & HB & HA) Ht Hs E Hq Hw R0 R1 [T1' T2'] HA'.
  assert (kof w t = Rrel wk cw) as Kt by (unfold kof; rewrite Hs; exact R0).
  apply (QInv_intro w w' t s' Ht E HA HA'); rewrite R1.
  - rewrite Hq, Hw. apply QL_role; [exact HL | | |].
    + destruct HL as (_ & _ & Hn & _). specialize (Hn t). rewrite Kt in Hn. exact Hn.
    + rewrite Kt. apply incl_refl.
    + rewrite Kt. discriminate.
  - rewrite T1', T2', Hq. apply (QB_S6 (tb1 (word w))); assumption.
Qed.

Lemma C_S7 w w' t s s' p rest : QInv w -> (t < length (thr w))%nat -> get w t = s ->
  thr w' = lupd (thr w) t s' -> queue w' = queue w -> waiting w' = fupd (waiting w) p false -> word w' = word w ->
  role_of (t_pc s) = Rwake (p :: rest) -> role_of (t_pc s') = Rwake rest -> pcA (t_pc s') -> QInv w'.
Proof.
  intros (HL & HB & HA) Ht Hs E Hq Hw Hx R0 R1 HA'.
  assert (kof w t = Rwake (p :: rest)) as Kt by (unfold kof; rewrite Hs; exact R0).
  apply (QInv_intro w w' t s' Ht E HA HA'); rewrite R1.
  - rewrite Hq, Hw. apply (QL_wake _ _ _ _ _ p rest); auto; rewrite Kt; reflexivity.
  - rewrite Hx, Hq. apply QB_same; [exact HB | | | |]; rewrite Kt; reflexivity.
Qed.

(* ----- facts about the guards that lead to the two spinlock-taking CASes ----- *)
Lemma lock_slow_cas2_guard_eq old z :
  nsync_mu_lock_slow_cas2_guard old z = negb (wrap_u 32 (Z.land old z) =? 0) && (wrap_u 32 (Z.land old 2) =? 0).
Proof. reflexivity. Qed.

Lemma lock_slow_cas2_guard_spin old z : nsync_mu_lock_slow_cas2_guard old z = true -> tb1 old = false.
Proof.
  rewrite lock_slow_cas2_guard_eq. intros G. apply andb_true_iff in G. destruct G as [_ G].
  apply Z.eqb_eq in G. apply (zero_test_bit old 2 1); [lia | reflexivity | exact G].
Qed.

Lemma nonzero_test_bit old k : 0 <= k < 32 -> wrap_u 32 (Z.land old (2 ^ k)) <> 0 -> Z.testbit old k = true.
Proof.
  intros Hk H. destruct (Z.testbit old k) eqn:E; [reflexivity|]. exfalso. apply H.
  pose proof (has_bit old k ltac:(lia)) as B. rewrite E in B. unfold has, band in B.
  apply negb_false_iff, Z.eqb_eq in B. rewrite B. reflexivity.
Qed.

Lemma unlock_slow_cas2_guard_eq old :
  nsync_mu_unlock_slow_cas2_guard old =
  negb ((((wrap_u 32 (Z.land old 4) =? 0) || negb (wrap_u 32 (Z.land old 8) =? 0))
         || (wrap_u 32 (Z.land old 4294967040) >? 256))
        || (wrap_u 32 (Z.land old 384) =? 384))
  && (wrap_u 32 (Z.land old 2) =? 0).
Proof. reflexivity. Qed.

Lemma unlock_slow_cas2_guard_bits old : nsync_mu_unlock_slow_cas2_guard old = true ->
  tb1 old = false /\ tb2 old = true.
Proof.
  rewrite unlock_slow_cas2_guard_eq. intros G. apply andb_true_iff in G. destruct G as [G1 G2].
  apply negb_true_iff in G1. repeat (apply orb_false_iff in G1; destruct G1 as [G1 _]).
  apply Z.eqb_eq in G2. apply Z.eqb_neq in G1. split.
  - apply (zero_test_bit old 2 1); [lia | reflexivity | exact G2].
  - apply (nonzero_test_bit old 2); [lia | exact G1].
Qed.

(* ----- the scan ----- *)
Lemma scan_split ty q : forall wt wk keep s,
  exists a b, fst (fst (scan ty q wt wk keep s)) = wk ++ a /\ snd (fst (scan ty q wt wk keep s)) = keep ++ b /\
    Permutation (a ++ b) q /\ (wt = None -> q <> [] -> a <> []).
Proof.
  induction q as [|p rest IH]; intros wt wk keep s.
  - exists [], []. cbn [scan fst snd]. rewrite !app_nil_r.
    split; [reflexivity | split; [reflexivity | split; [constructor | intros _ H; now elim H]]].
  - assert (forall wt' s', exists a b,
      fst (fst (scan ty rest wt' (wk ++ [p]) keep s')) = wk ++ a /\
      snd (fst (scan ty rest wt' (wk ++ [p]) keep s')) = keep ++ b /\
      Permutation (a ++ b) (p :: rest) /\ a <> []) as Take.
    { intros wt' s'. destruct (IH wt' (wk ++ [p]) keep s') as (a & b & E1 & E2 & P & _).
      exists (p :: a), b. rewrite E1, E2, <- app_assoc.
      split; [reflexivity | split; [reflexivity | split; [constructor; exact P | discriminate]]]. }
    assert (forall wt' s', exists a b,
      fst (fst (scan ty rest wt' wk (keep ++ [p]) s')) = wk ++ a /\
      snd (fst (scan ty rest wt' wk (keep ++ [p]) s')) = keep ++ b /\
      Permutation (a ++ b) (p :: rest)) as Skip.
    { intros wt' s'. destruct (IH wt' wk (keep ++ [p]) s') as (a & b & E1 & E2 & P & _).
      exists a, (p :: b). rewrite E1, E2, <- app_assoc.
      split; [reflexivity | split; [reflexivity|]].
      apply Permutation_sym, Permutation_cons_app, Permutation_sym, P. }
    destruct wt as [[|]|]; cbn [scan].
    + exists [], (p :: rest). cbn [fst snd]. rewrite app_nil_r.
      split; [reflexivity | split; [reflexivity | split; [apply Permutation_refl | discriminate]]].
    + destruct (mode_eqb (ty p) R).
      * destruct (Take (Some (ty p)) s) as (a & b & E1 & E2 & P & _). exists a, b.
        split; [assumption | split; [assumption | split; [assumption | discriminate]]].
      * destruct (Skip (Some R) (band (bor s MU_WRITER_WAITING) (bnot32 MU_ALL_FALSE))) as (a & b & E1 & E2 & P).
        exists a, b. split; [assumption | split; [assumption | split; [assumption | discriminate]]].
    + destruct (Take (Some (ty p)) s) as (a & b & E1 & E2 & P & Na). exists a, b.
      split; [assumption | split; [assumption | split; [assumption | intros _ _; exact Na]]].
Qed.

Lemma scan_pres (P : Z -> Prop) ty q :
  (forall s, P s -> P (band s (bnot32 MU_ALL_FALSE))) ->
  (forall s, P s -> P (band (bor s MU_WRITER_WAITING) (bnot32 MU_ALL_FALSE))) ->
  forall wt wk keep s, P s -> P (snd (scan ty q wt wk keep s)).
Proof.
  intros H1 H2. induction q as [|p rest IH]; intros wt wk keep s Hs; cbn [scan].
  - exact Hs.
  - destruct wt as [[|]|].
    + apply H1, Hs.
    + destruct (mode_eqb (ty p) R); apply IH; auto.
    + apply IH; auto.
Qed.

Lemma us_after_scan_facts w u keep : us_after_scan w = (u, keep) ->
  Permutation (wake u ++ keep) (queue w) /\ (queue w <> [] -> wake u <> []) /\
  tb1 (clear_on u) = true /\ tb1 (set_on u) = false /\ tb2 (set_on u) = false /\
  (tb2 (clear_on u) = true <-> keep = []).
Proof.
  unfold us_after_scan.
  destruct (scan_split (wtype w) (queue w) None [] [] MU_ALL_FALSE) as (a & b & E1 & E2 & P & Na).
  pose proof (scan_pres (fun s => tb1 s = false /\ tb2 s = false) (wtype w) (queue w)) as Hs.
  specialize (Hs ltac:(intros s [A B]; unfold tb1, tb2, band in *; rewrite !Z.land_spec, A, B; auto)).
  specialize (Hs ltac:(intros s [A B]; unfold tb1, tb2, band, bor in *;
                       rewrite !Z.land_spec, !Z.lor_spec, A, B; auto)).
  specialize (Hs None [] [] MU_ALL_FALSE ltac:(split; reflexivity)).
  destruct (scan (wtype w) (queue w) None [] [] MU_ALL_FALSE) as [[wk kp] so].
  cbn [fst snd app] in *. subst wk kp. cbv beta iota zeta. intros E. injection E as <- <-.
  cbn [wake set_on clear_on]. destruct Hs as [S1 S2].
  split; [exact P|]. split; [auto|].
  split; [|split; [exact S1 | split; [exact S2|]]].
  - destruct b, a, (band so MU_ALL_FALSE =? 0); reflexivity.
  - destruct b, a, (band so MU_ALL_FALSE =? 0); (split; [intros H; first [reflexivity | discriminate H] | intros H; first [reflexivity | discriminate H]]).
Qed.

Ltac cas_split w :=
  unfold cas;
  match goal with |- context [word w =? ?e] => destruct (Z.eqb_spec (word w) e) as [Hcas|Hcas] end;
  cbv beta iota; cbn [fst].

Ltac c_same HQ Ht Hs :=
  eapply C_same;
  [ exact HQ | exact Ht | exact Hs | reflexivity | reflexivity | reflexivity
  | cbn [word]; try apply FP_refl | cbn [t_pc pcA]; try exact I | cbn [t_pc role_of]; try reflexivity ].

Lemma begin_op_qinv w t : QInv w -> QInv (begin_op w t).
Proof.
  intros HQ. unfold begin_op. cbv zeta.
  destruct (Nat.lt_ge_cases t (length (thr w))) as [Ht|Ht].
  2:{ rewrite get_oob by exact Ht. exact HQ. }
  destruct (get w t) as [p ops h sl lt] eqn:Hs. cbn [t_pc t_ops held sleeps last_try].
  destruct p; try exact HQ. destruct ops as [|o rest]; try exact HQ.
  unfold set_t. c_same HQ Ht Hs; destruct o, h; first [exact I | reflexivity].
Qed.

Section QueueInvariant.
Variable n : nat.
Hypothesis Hn : Z.of_nat n < 16777215.

Lemma step_qinv w0 t : Inv n w0 -> QInv w0 -> QInv (fst (step w0 t)).
Proof.
  intros H0 HQ. apply (begin_op_qinv _ t) in HQ. apply (begin_op_inv _ _ t) in H0.
  unfold step. revert H0 HQ. generalize (begin_op w0 t). intros w H0 HQ. cbv zeta.
  destruct (Nat.lt_ge_cases t (length (thr w))) as [Ht|Ht].
  2:{ rewrite get_oob by exact Ht. exact HQ. }
  pose proof H0 as (Hlen & _ & Hok). specialize (Hok t).
  pose proof (Inv_held n w t) as Hheld. specialize (fun m => Hheld m H0).
  pose proof HQ as (_ & _ & HA). specialize (HA t).
  destruct (get w t) as [p ops h sl lt] eqn:Hs.
  pose proof Hs as Hs'. unfold get in Hs'. rewrite Hs' in Hok.
  unfold pc_ok in Hok. cbn [t_pc t_ops held sleeps last_try] in *.
  destruct p.
  - (* Idle *) exact HQ.
  - (* LkFast *) cas_split w; normt Hs' Ht; c_same HQ Ht Hs. rewrite Hcas. apply FP_fast_new.
  - (* LkLoad *) destruct (fast_guard2 m (word w)); cbn [fst]; normt Hs' Ht; c_same HQ Ht Hs.
  - (* LkCas2 *) destruct Hok as [_ G]. cas_split w; normt Hs' Ht; c_same HQ Ht Hs.
    subst old. apply FP_fast_new2, G.
  - (* TryFast *) cas_split w; normt Hs' Ht; c_same HQ Ht Hs. rewrite Hcas. apply FP_try_new.
  - (* TryLoad *) destruct (try_guard2 m (word w)); cbn [fst]; normt Hs' Ht; c_same HQ Ht Hs.
  - (* TryCas2 *) destruct Hok as [_ G]. cas_split w; normt Hs' Ht; c_same HQ Ht Hs.
    subst old. apply FP_try_new2, G.
  - (* LsLoad *)
    destruct (nsync_mu_lock_slow_cas1_guard (word w) (zta l)) eqn:G1; cbn [fst].
    + normt Hs' Ht. c_same HQ Ht Hs.
    + destruct (nsync_mu_lock_slow_cas2_guard (word w) (zta l)) eqn:G2; cbn [fst].
      * normt Hs' Ht. c_same HQ Ht Hs. apply (lock_slow_cas2_guard_spin _ _ G2).
      * exact HQ.
  - (* LsCasAcq *) destruct Hok as (_ & Hl & G). cas_split w; normt Hs' Ht; c_same HQ Ht Hs.
    subst old. apply FP_lock_slow_cas1; assumption.
  - (* LsCasEnq *) destruct Hok as (_ & Hl). cas_split w; normt Hs' Ht.
    + eapply C_S1; [exact HQ | exact Ht | exact Hs | reflexivity | reflexivity | reflexivity
                   | reflexivity | reflexivity | rewrite Hcas; exact HA | cbn [word] | exact I].
      apply lock_slow_cas2_bits, Hl.
    + c_same HQ Ht Hs.
  - (* LsStoreWaiting *) cbn [fst]. normt Hs' Ht.
    eapply C_S2; [exact HQ | exact Ht | exact Hs | reflexivity | cbn [queue] | reflexivity | reflexivity
                 | reflexivity | reflexivity | exact I].
    destruct (wcount l =? 0); [apply Permutation_sym, Permutation_cons_append | apply Permutation_refl].
  - (* LsRelLoad *) cbn [fst]. normt Hs' Ht. c_same HQ Ht Hs.
  - (* LsRelCas *) cas_split w; normt Hs' Ht.
    + eapply C_S3; [exact HQ | exact Ht | exact Hs | reflexivity | reflexivity | reflexivity
                   | reflexivity | reflexivity | cbn [word] | exact I].
      subst old. apply release_spinlock_bits.
    + c_same HQ Ht Hs.
  - (* LsWaitLoad *) destruct (waiting w t) eqn:Ew; cbn [fst]; normt Hs' Ht.
    + c_same HQ Ht Hs.
    + eapply C_S4; [exact HQ | exact Ht | exact Hs | reflexivity | reflexivity | reflexivity | reflexivity
                   | reflexivity | reflexivity | exact Ew | exact I].
  - (* LsSemP *) destruct (0 <? sem w t); cbn [fst]; [| exact HQ]. normt Hs' Ht. c_same HQ Ht Hs.
  - (* UlFast *) subst h. specialize (Hheld m eq_refl). cas_split w; normt Hs' Ht; c_same HQ Ht Hs.
    rewrite Hcas. apply FP_ufast.
  - (* UlLoad *)
    destruct (unlock_try_cas2 m (word w)); [| destruct (unlock_bad m (word w))]; cbn [fst];
      normt Hs' Ht; c_same HQ Ht Hs.
  - (* UlCas2 *) subst h. specialize (Hheld m eq_refl). cas_split w; normt Hs' Ht; c_same HQ Ht Hs.
    subst old. apply FP_unlock_new2, Hheld.
  - (* UsLoad *)
    destruct (has (word w) MU_CONDITION);
      [| destruct (nsync_mu_unlock_slow_cas1_guard (word w));
         [| destruct (nsync_mu_unlock_slow_cas2_guard (word w)) eqn:G2]]; cbn [fst];
      try exact HQ; normt Hs' Ht; c_same HQ Ht Hs.
    apply (unlock_slow_cas2_guard_bits _ G2).
  - (* UsCasRel *) subst h. specialize (Hheld m eq_refl). cas_split w; normt Hs' Ht; c_same HQ Ht Hs.
    subst old. apply FP_unlock_slow_cas1, Hheld.
  - (* UsCasSpin *) subst h. specialize (Hheld m eq_refl). cas_split w.
    + destruct (us_after_scan _) as [u keep] eqn:E. pose proof (us_after_scan_ok _ _ _ E) as Hu.
      apply us_after_scan_facts in E. cbn [queue set_word] in E.
      destruct E as (P & Nw & C1 & S1 & S2 & Cw). cbn [fst]. normt Hs' Ht.
      eapply C_S5; [exact HQ | exact Ht | exact Hs | reflexivity | reflexivity | reflexivity | reflexivity
                   | rewrite Hcas; exact HA | cbn [word] | cbn [queue]; exact P | cbn [queue]; exact Cw
                   | cbn [t_pc pcA] ].
      * subst old. destruct (unlock_slow_cas2_bits m (word w) Hheld) as [B1 B2].
        split; [exact B1 | rewrite B2; apply HA].
      * split; [|auto]. apply Nw.
        destruct HQ as (_ & (_ & _ & _ & _ & _ & _ & Q6) & _). apply Q6; rewrite Hcas; apply HA.
    + normt Hs' Ht. c_same HQ Ht Hs.
  - (* UsRelLoad *) cbn [fst]. normt Hs' Ht. c_same HQ Ht Hs. exact HA.
  - (* UsRelCas *) destruct Hok as (_ & (Hlate & _)). cas_split w; normt Hs' Ht.
    + destruct HA as (Nw & C1 & S1 & S2).
      eapply C_S6 with (wk := wake u) (cw := tb2 (clear_on u));
        [exact HQ | exact Ht | exact Hs | reflexivity | reflexivity | reflexivity | reflexivity
        | cbn [t_pc]; destruct (wake u) eqn:Ew; [now elim Nw|]; cbn [role_of]; rewrite Ew; reflexivity | cbn [word]
        | cbn [t_pc]; destruct (wake u); exact I ].
      subst old. destruct (unlock_slow_cas3_bits u (word w) Hlate) as [B1 B2].
      rewrite B1, B2, C1, S2, andb_false_r, orb_false_r. split; reflexivity.
    + c_same HQ Ht Hs. exact HA.
  - (* UsWakeStore *) destruct (wake u) as [|p rest] eqn:Ew; cbn [fst]; normt Hs' Ht.
    + c_same HQ Ht Hs. rewrite Ew. reflexivity.
    + eapply C_S7 with (p := p) (rest := rest);
        [exact HQ | exact Ht | exact Hs | reflexivity | reflexivity | reflexivity | reflexivity
        | cbn [t_pc role_of]; rewrite Ew; reflexivity | reflexivity | exact I].
  - (* UsWakeV *) cbn [fst]. normt Hs' Ht. c_same HQ Ht Hs.
    + destruct (wake u); exact I.
    + destruct (wake u) eqn:Ew; cbn [role_of]; rewrite ?Ew; reflexivity.
  - (* Crash *) exact HQ.
Qed.

Lemma run_qinv sched : forall w, Inv n w -> QInv w -> Inv n (run w sched) /\ QInv (run w sched).
Proof.
  unfold run. induction sched as [|t rest IH]; intros w H HQ; cbn [fold_left]; [split; assumption|].
  apply IH; [apply step_inv; assumption | apply step_qinv; assumption].
Qed.

End QueueInvariant.

Lemma init_qinv progs : QInv (init progs).
Proof.
  assert (forall t, kof (init progs) t = Rwake []) as K.
  { intros t. unfold kof, get, init; cbn [thr].
    change dflt_t with ((fun p => mk_t Idle p None 0 None) []). rewrite map_nth. reflexivity. }
  split; [|split].
  - apply (QL_ext _ _ (fun _ => Rwake [])); [exact K|]. unfold init; cbn [queue waiting].
    split; [constructor|]. split; [intros p []|]. split; [intros _; constructor|].
    split; [intros _ p [] | intros _ _ p []].
  - apply (QB_ext _ _ _ (fun _ => Rwake [])); [exact K|]. unfold init; cbn [queue word].
    qb_split; try (intros; discriminate).
    intros H; now elim H.
  - intros t. unfold get, init; cbn [thr].
    change dflt_t with ((fun p => mk_t Idle p None 0 None) []). rewrite map_nth. exact I.
Qed.

Lemma reachable_qinv progs sched :
  Z.of_nat (length progs) < 2 ^ 24 - 1 -> QInv (run (init progs) sched).
Proof. intros H. apply (run_qinv (length progs) H); [apply init_inv | apply init_qinv]. Qed.

Lemma queue_invariant : forall progs sched,
  Z.of_nat (length progs) < 2 ^ 24 - 1 ->
  let w := run (init progs) sched in
  NoDup (queue w) /\
  (forall p, In p (queue w) -> waiting w p = true /\ in_lock_slow_queued (t_pc (get w p)) = true) /\
  (has (word w) MU_SPINLOCK = false -> queue w <> [] -> has (word w) MU_WAITING = true).
Proof.
  intros progs sched H w. destruct (reachable_qinv progs sched H) as ((N & Hq & _) & HB & _). fold w in N, Hq, HB.
  split; [exact N|]. split.
  - intros p Hp. destruct (Hq p Hp) as [a b]. split; [exact a|]. rewrite <- isq_role_of. exact b.
  - intros _ Nq. rewrite has_waiting. destruct HB as (_ & _ & _ & _ & Q5a & _). exact (Q5a Nq).
Qed.

Lemma pinned : forall progs sched t m u,
  Z.of_nat (length progs) < 2 ^ 24 - 1 ->
  let w := run (init progs) sched in
  (t_pc (get w t) = UsRelLoad m u \/ exists old, t_pc (get w t) = UsRelCas m u old) ->
  wake u ++ queue w <> [] /\
  (forall p, In p (wake u ++ queue w) -> in_lock_slow_queued (t_pc (get w p)) = true).
Proof.
  intros progs sched t m u H w Hpc.
  destruct (reachable_qinv progs sched H) as ((_ & Hq & _ & Hw & _) & _ & HA). fold w in Hq, Hw, HA.
  assert (kof w t = Rrel (wake u) (tb2 (clear_on u)) /\ wake u <> []) as [Kt Nw].
  { specialize (HA t). unfold kof. destruct Hpc as [E | [old E]]; rewrite E in *; cbn [role_of pcA] in *; tauto. }
  split.
  - intros E. apply app_eq_nil in E. destruct E. contradiction.
  - intros p Hp. rewrite <- isq_role_of. apply in_app_or in Hp. destruct Hp as [Hp | Hp].
    + specialize (Hw t p). rewrite Kt in Hw. apply (Hw Hp).
    + apply (Hq p Hp).
Qed.
