(* SemWaitProof6: three more layers of invariants of SemWaitModel:
     W5  `disconnecting` of a note is 1 exactly while one (unique) thread is between the increment and the decrement inside notify /
         the parent's loop, else 0;
     W6  a live record's owner is still inside the call that created it;
     W7  the `notified` word of a note is non-zero only if nsync_note_notify was called on it, or the parent's notifier came to it,
         or the clock had reached its expiry (C05sw_flag_sound),
   and the strengthened ECANCELED clause built on W7. *)
From NsyncBase Require Import CSem.
From NsyncGen Require Import Consts Sites.
From NsyncModel Require Import SemWaitModel.
From NsyncProof Require Import SemWaitProof SemWaitProof2 SemWaitProof3 SemWaitProof4 SemWaitProof5.
From Coq Require Import List ZArith Bool Lia Arith.
Import ListNotations.
Local Open Scope Z_scope.
#[local] Hint Constructors Forall : core.

(* ------------------------------------------------------------------------------------------------ *)
(* reachability is closed under actions; the clock never runs backwards and starts at or after the epoch *)
Lemma reachable_exec w a : reachable w -> reachable (exec w a).
Proof.
  intros (c0 & ns & progs & sched & H0 & ->). exists c0, ns, progs, (sched ++ [a]). split; [exact H0|].
  unfold run. rewrite fold_left_app. reflexivity.
Qed.
Lemma reachable_run sched : forall w, reachable w -> reachable (run w sched).
Proof. induction sched as [|a s IH]; intros w R; simpl; [exact R|]. apply IH, reachable_exec, R. Qed.
Lemma clock_begin_call w t : clock (begin_call w t) = clock w.
Proof. unfold begin_call. dmatch; reflexivity. Qed.
Lemma notes_begin_call w t : notes (begin_call w t) = notes w.
Proof. unfold begin_call. dmatch; reflexivity. Qed.
Lemma exec_ext w a : ext w (exec w a).
Proof.
  destruct a as [t c|d|o|t]; simpl.
  - rewrite step_eq. eapply ext_trans; [|apply step_core_ext]. apply ext_by; [apply clock_begin_call|apply notes_begin_call].
  - apply ext_tick.
  - apply ext_by; reflexivity.
  - unfold env_p. dmatch; try apply ext_refl. apply ext_by; reflexivity.
Qed.
Lemma run_ext sched : forall w, ext w (run w sched).
Proof. induction sched as [|a s IH]; intro w; simpl; [apply ext_refl|]. eapply ext_trans; [apply exec_ext|apply IH]. Qed.
Lemma clock_nonneg w : reachable w -> 0 <= clock w.
Proof. intros (c0 & ns & progs & sched & H0 & ->). destruct (run_ext sched (init c0 ns progs)) as [E _]. simpl in E. lia. Qed.

(* the stacks of the threads that do not move *)
Lemma step_core_others w t c : W1 w -> others_same t w (fst (step_core w t c)).
Proof.
  intros H1. pose proof (H1 t) as (Hwf & Htop & Hfr).
  unfold step_core. destruct (stack (get w t)) as [|f rest] eqn:Est; [intros u _; reflexivity|].
  destruct f as [n s|n s par inc|n par s|n s|n|n|l s]; try (intros u _; reflexivity).
  - destruct s; simpl; repeat (dif; simpl); try (intros u _; reflexivity); othprj.
  - destruct s; simpl; repeat (dif; simpl); try (intros u _; reflexivity); othprj.
  - destruct s; simpl; repeat (dif; simpl); try (intros u _; reflexivity); othprj.
  - destruct s; simpl; repeat (dif; simpl); try (intros u _; reflexivity); othprj.
  - destruct s; simpl; repeat (dif; simpl); try (intros u _; reflexivity); try othprj.
    all: destruct (sem (get w t)); simpl; try (intros u _; reflexivity); othprj.
Qed.
Lemma begin_call_others w t : others_same t w (begin_call w t).
Proof. intros u Hu. unfold begin_call. dmatch; try reflexivity; unfold set_thr, get; simpl; unfold fupd; neqb; reflexivity. Qed.

(* ------------------------------------------------------------------------------------------------ *)
(* Layer 5: disconnecting *)
Definition incfb (n : nat) (f : frame) : bool :=
  match f with
  | FN m _ _ true => Nat.eqb m n
  | FP m P2 => Nat.eqb m n
  | FP m (P3 true) => Nat.eqb m n
  | _ => false
  end.
(* the thread has incremented n->disconnecting and not yet decremented it *)
Definition incd (st : list frame) (n : nat) : bool := existsb (incfb n) st.
(* the thread holds note_mu of n and has seen disconnecting == 0 (nsync_mu_wait (not_disconnecting) returned) *)
Definition knows0 (st : list frame) (n : nat) : bool := match st with FN m N4 _ _ :: _ => Nat.eqb m n | _ => false end.
Record W5 (w : world) : Prop := {
  d_one : forall n u, incd (stack (get w u)) n = true -> disc (notes w n) = 1%nat;
  d_uniq : forall n u v, incd (stack (get w u)) n = true -> incd (stack (get w v)) n = true -> u = v;
  d_some : forall n, disc (notes w n) <> 0%nat -> exists u, incd (stack (get w u)) n = true;
  d_zero : forall n u, knows0 (stack (get w u)) n = true -> disc (notes w n) = 0%nat
}.

Lemma W5_frame t w w' :
  (forall m, disc (notes w' m) = disc (notes w m)) -> others_same t w w' ->
  (forall n, incd (stack (get w' t)) n = incd (stack (get w t)) n) ->
  (forall n, knows0 (stack (get w' t)) n = true -> knows0 (stack (get w t)) n = true \/ disc (notes w n) = 0%nat) ->
  W5 w -> W5 w'.
Proof.
  intros D O I K H.
  assert (IA : forall u n, incd (stack (get w' u)) n = incd (stack (get w u)) n).
  { intros u n. destruct (Nat.eq_dec u t) as [->|Hu]; [apply I|rewrite O by auto; reflexivity]. }
  constructor.
  - intros n u. rewrite IA, D. apply (d_one w H).
  - intros n u v. rewrite !IA. apply (d_uniq w H).
  - intros n. rewrite D. intro X. destruct (d_some w H n X) as [u Hu]. exists u. rewrite IA. exact Hu.
  - intros n u. rewrite D. destruct (Nat.eq_dec u t) as [->|Hu].
    + intro X. destruct (K n X) as [Y|Y]; [apply (d_zero w H n t Y)|exact Y].
    + rewrite O by auto. apply (d_zero w H).
Qed.
Lemma W5_inc t n w w' :
  disc (notes w n) = 0%nat -> (forall m, disc (notes w' m) = if Nat.eqb m n then 1%nat else disc (notes w m)) -> others_same t w w' ->
  (forall m, incd (stack (get w t)) m = false) -> (forall m, incd (stack (get w' t)) m = Nat.eqb m n) ->
  (forall m, knows0 (stack (get w' t)) m = false) -> (forall u, u <> t -> knows0 (stack (get w u)) n = false) ->
  W5 w -> W5 w'.
Proof.
  intros D0 D O I0 I1 K1 KO H.
  assert (NI : forall u, incd (stack (get w u)) n = false).
  { intro u. destruct (incd (stack (get w u)) n) eqn:E; auto. pose proof (d_one w H n u E). congruence. }
  constructor.
  - intros m u. rewrite D. destruct (Nat.eq_dec u t) as [->|Hu].
    + rewrite I1. intro X. rewrite X. reflexivity.
    + rewrite O by auto. intro X. destruct (Nat.eqb_spec m n) as [->|Hm]; [reflexivity|]. apply (d_one w H m u X).
  - intros m u v. destruct (Nat.eq_dec u t) as [->|Hu]; destruct (Nat.eq_dec v t) as [->|Hv]; auto; rewrite ?I1, ?O by auto.
    + intros X Y. apply Nat.eqb_eq in X. subst m. rewrite NI in Y. discriminate.
    + intros X Y. apply Nat.eqb_eq in Y. subst m. rewrite NI in X. discriminate.
    + apply (d_uniq w H).
  - intros m. rewrite D. destruct (Nat.eqb_spec m n) as [->|Hm].
    + intros _. exists t. rewrite I1. apply Nat.eqb_refl.
    + intro X. destruct (d_some w H m X) as [u Hu]. exists u. destruct (Nat.eq_dec u t) as [->|Hne]; [rewrite I0 in Hu; discriminate|].
      rewrite O by auto. exact Hu.
  - intros m u. rewrite D. destruct (Nat.eq_dec u t) as [->|Hu]; [rewrite K1; discriminate|]. rewrite O by auto. intro X.
    destruct (Nat.eqb_spec m n) as [->|Hm]; [rewrite KO in X by auto; discriminate|]. apply (d_zero w H m u X).
Qed.
Lemma W5_dec t n w w' :
  incd (stack (get w t)) n = true -> (forall m, disc (notes w' m) = if Nat.eqb m n then 0%nat else disc (notes w m)) -> others_same t w w' ->
  (forall m, incd (stack (get w' t)) m = false) -> (forall m, m <> n -> incd (stack (get w t)) m = false) ->
  (forall m, knows0 (stack (get w' t)) m = false) ->
  W5 w -> W5 w'.
Proof.
  intros I0 D O I1 I2 K1 H. constructor.
  - intros m u. rewrite D. destruct (Nat.eq_dec u t) as [->|Hu]; [rewrite I1; discriminate|]. rewrite O by auto. intro X.
    destruct (Nat.eqb_spec m n) as [->|Hm]; [exfalso; apply Hu; apply (d_uniq w H n); auto|]. apply (d_one w H m u X).
  - intros m u v. destruct (Nat.eq_dec u t) as [->|Hu]; [rewrite I1; discriminate|]. destruct (Nat.eq_dec v t) as [->|Hv]; [rewrite I1; discriminate|].
    rewrite !O by auto. apply (d_uniq w H).
  - intros m. rewrite D. destruct (Nat.eqb_spec m n) as [->|Hm]; [congruence|]. intro X. destruct (d_some w H m X) as [u Hu]. exists u.
    destruct (Nat.eq_dec u t) as [->|Hne]; [rewrite I2 in Hu by auto; discriminate|]. rewrite O by auto. exact Hu.
  - intros m u. rewrite D. destruct (Nat.eq_dec u t) as [->|Hu]; [rewrite K1; discriminate|]. rewrite O by auto. intro X.
    destruct (Nat.eqb_spec m n) as [->|Hm]; [reflexivity|]. apply (d_zero w H m u X).
Qed.

(* stacks that hold no incremented frame *)
Lemma noinc_FNotify n r m : wf (FNotify n :: r) -> incd (FNotify n :: r) m = false.
Proof.
  destruct r as [|g r]; [reflexivity|]. intro H. apply wf_cons in H as [Ha Hw]. destruct g as [| | | | | |l []]; simpl in Ha; try contradiction.
  apply wf_AWait in Hw. subst r. reflexivity.
Qed.
Lemma noinc_FD n s r m : wf (FD n s :: r) -> incd (FD n s :: r) m = false.
Proof.
  destruct r as [|g r]; [intros []|]. intro H. apply wf_cons in H as [Ha Hw].
  destruct g as [| | | |k|k|l []]; simpl in Ha; try contradiction.
  - change (incd (FD n s :: FNotify k :: r) m) with (incd (FNotify k :: r) m). apply noinc_FNotify; auto.
  - apply wf_AIs in Hw. subst r. reflexivity.
  - apply wf_AWait in Hw. subst r. reflexivity.
Qed.
Lemma noinc_below_FN n s par inc r m : wf (FN n s par inc :: r) -> incd r m = false.
Proof.
  destruct r as [|g r]; [reflexivity|]. intro H. apply wf_cons in H as [Ha Hw]. destruct g as [k []| | | |k|k|]; simpl in Ha; try contradiction.
  - apply noinc_FD; auto.
  - apply noinc_FNotify; auto.
Qed.
Lemma noinc_AWait l s r m : wf (AWait l s :: r) -> incd (AWait l s :: r) m = false.
Proof. intro H. apply wf_AWait in H. subst r. reflexivity. Qed.

Lemma incd_ret_Notify w t n r m : wf (FNotify n :: r) -> incd (stack (get (ret_Notify w t n r) t)) m = false.
Proof.
  intro H. unfold ret_Notify. destruct r as [|[| | | | | |l []] r]; try (rewrite stack_t_finish; reflexivity).
  apply wf_cons in H as [_ H]. apply wf_AWait in H. subst r. rewrite stack_t_setst. reflexivity.
Qed.
Lemma incd_ret_D w t n s r v k m : pre_ok (FD n s :: r) -> incd (stack (get (ret_D w t r v k) t)) m = false.
Proof.
  intros [Hwf _]. unfold ret_D. destruct r as [|g r]; [contradiction Hwf|]. apply wf_cons in Hwf as [Ha Hw].
  destruct g as [| | | |j|j|l []]; simpl in Ha; try contradiction; subst.
  - destruct (tpos v); [rewrite stack_t_setst|apply incd_ret_Notify; auto].
    change (incd (FN j N1 false false :: FNotify j :: r) m) with (incd (FNotify j :: r) m). apply noinc_FNotify; auto.
  - rewrite stack_t_finish. reflexivity.
  - apply wf_AWait in Hw. subst r. destruct (tpos v); [rewrite stack_t_setst|rewrite stack_t_finish_wait]; reflexivity.
Qed.
Lemma incd_ret_N w t n s par inc r m : pre_ok (FN n s par inc :: r) -> incd (stack (get (ret_N w t r) t)) m = false.
Proof.
  intros [Hwf Hfr]. unfold ret_N. destruct r as [|g r]; [contradiction Hwf|]. apply wf_cons in Hwf as [Ha Hw]. fr_split Hfr.
  destruct g as [j []| | | |j|j|]; simpl in Ha; try contradiction; subst.
  - eapply incd_ret_D. split; eauto.
  - apply incd_ret_Notify; auto.
Qed.
Lemma incd_ret_C w t n par s r m : pre_ok (FC n par s :: r) -> incd (stack (get (ret_C w t r) t)) m = incd r m.
Proof.
  intros [Hwf _]. unfold ret_C. destruct r as [|g r]; [contradiction Hwf|]. apply wf_cons in Hwf as [Ha _].
  destruct g as [|j [] par' inc| |j []| | |]; simpl in Ha; try contradiction.
  - destruct Ha as [-> ->]. rewrite stack_t_setst. destruct par'; reflexivity.
  - subst. rewrite stack_t_setst. reflexivity.
Qed.
Lemma incd_c_tail w t n par s r m : pre_ok (FC n par s :: r) -> incd (stack (get (c_tail w t n par r) t)) m = incd r m.
Proof. intro. unfold c_tail. eapply incd_ret_C; eauto. Qed.
Lemma incd_c_wloop w t n par s r m : pre_ok (FC n par s :: r) -> incd (stack (get (c_wloop w t n par r) t)) m = incd r m.
Proof. intro. unfold c_wloop. dmatch; [eapply incd_c_tail; eauto|]. rewrite stack_t_setst. reflexivity. Qed.

Lemma kn_ret_Notify w t n r m : wf (FNotify n :: r) -> knows0 (stack (get (ret_Notify w t n r) t)) m = false.
Proof.
  intro H. unfold ret_Notify. destruct r as [|[| | | | | |l []] r]; try (rewrite stack_t_finish; reflexivity).
  rewrite stack_t_setst. reflexivity.
Qed.
Lemma kn_ret_D w t n s r v k m : pre_ok (FD n s :: r) -> knows0 (stack (get (ret_D w t r v k) t)) m = false.
Proof.
  intros [Hwf _]. unfold ret_D. destruct r as [|g r]; [contradiction Hwf|]. apply wf_cons in Hwf as [Ha Hw].
  destruct g as [| | | |j|j|l []]; simpl in Ha; try contradiction; subst.
  - destruct (tpos v); [rewrite stack_t_setst; reflexivity|apply kn_ret_Notify; auto].
  - rewrite stack_t_finish. reflexivity.
  - destruct (tpos v); [rewrite stack_t_setst|rewrite stack_t_finish_wait]; reflexivity.
Qed.
Lemma kn_ret_N w t n s par inc r m : pre_ok (FN n s par inc :: r) -> knows0 (stack (get (ret_N w t r) t)) m = false.
Proof.
  intros [Hwf Hfr]. unfold ret_N. destruct r as [|g r]; [contradiction Hwf|]. apply wf_cons in Hwf as [Ha Hw]. fr_split Hfr.
  destruct g as [j []| | | |j|j|]; simpl in Ha; try contradiction; subst.
  - eapply kn_ret_D. split; eauto.
  - apply kn_ret_Notify; auto.
Qed.
Lemma kn_ret_C w t n par s r m : pre_ok (FC n par s :: r) -> knows0 (stack (get (ret_C w t r) t)) m = false.
Proof.
  intros [Hwf _]. unfold ret_C. destruct r as [|g r]; [contradiction Hwf|]. apply wf_cons in Hwf as [Ha _].
  destruct g as [|j [] par' inc| |j []| | |]; simpl in Ha; try contradiction.
  - destruct Ha as [-> ->]. rewrite stack_t_setst. destruct par'; reflexivity.
  - subst. rewrite stack_t_setst. reflexivity.
Qed.
Lemma kn_c_wloop w t n par s r m : pre_ok (FC n par s :: r) -> knows0 (stack (get (c_wloop w t n par r) t)) m = false.
Proof. intro. unfold c_wloop, c_tail. dmatch; try (eapply kn_ret_C; eauto). rewrite stack_t_setst. reflexivity. Qed.
Lemma disc_c_tail w t n p r m : disc (notes (c_tail w t n p r) m) = disc (notes w m).
Proof. unfold c_tail. rewrite notes_ret_C. destruct p; simpl; auto. unfold fupd, nt. destruct (Nat.eqb_spec m n); subst; reflexivity. Qed.
Lemma disc_c_wloop w t n p r m : disc (notes (c_wloop w t n p r) m) = disc (notes w m).
Proof. unfold c_wloop. dmatch; [apply disc_c_tail|]. simpl. unfold fupd, nt. destruct (Nat.eqb_spec m n); subst; reflexivity. Qed.
Lemma knows0_held st n : knows0 st n = true -> held_by st = Some n.
Proof. destruct st as [|[|k [] | | | | |] r]; simpl; try discriminate. intro E. apply Nat.eqb_eq in E. subst. reflexivity. Qed.

Ltac discprj := let m := fresh "m" in intro m; rewrite ?disc_c_wloop, ?disc_c_tail; prj; simpl; unfold fupd, nt; simpl;
  repeat match goal with |- context [Nat.eqb ?a ?b] => destruct (Nat.eqb_spec a b); subst; simpl end; try reflexivity; try congruence.
Ltac incprj Hp Est := let m := fresh "m" in intro m; rewrite Est;
  first [ rewrite (incd_ret_D _ _ _ _ _ _ _ m Hp); symmetry; apply noinc_FD; apply Hp
        | rewrite (incd_ret_C _ _ _ _ _ _ m Hp); reflexivity
        | rewrite (incd_c_wloop _ _ _ _ _ _ m Hp); reflexivity
        | stk; rewrite ?Nat.eqb_refl; reflexivity ].
Ltac knprj Hp Est := let m := fresh "m" in let K := fresh "K" in intros m K; exfalso; revert K;
  first [ rewrite (kn_ret_D _ _ _ _ _ _ _ m Hp) | rewrite (kn_ret_N _ _ _ _ _ _ _ m Hp) | rewrite (kn_ret_C _ _ _ _ _ _ m Hp)
        | rewrite (kn_c_wloop _ _ _ _ _ _ m Hp) | (stk; rewrite ?Nat.eqb_refl; simpl) ]; discriminate.
Ltac same5 t w H5 Hp Est := apply (W5_frame t w); [discprj | othprj | incprj Hp Est | knprj Hp Est | exact H5].

Lemma step_core_W5 w t c : W1 w -> W3 w -> W5 w -> W5 (fst (step_core w t c)).
Proof.
  intros H1 H3 H5. pose proof (H1 t) as (Hwf & Htop & Hfr).
  unfold step_core. destruct (stack (get w t)) as [|f rest] eqn:Est; [exact H5|].
  assert (Hp : pre_ok (f :: rest)) by (split; auto).
  destruct f as [n s|n s par inc|n par s|n s|n|n|l s]; try exact H5.
  - (* FD *) destruct s; simpl; try exact H5.
    + dif; simpl; same5 t w H5 Hp Est.
    + dif; simpl; [|exact H5]. same5 t w H5 Hp Est.
    + same5 t w H5 Hp Est.
    + dif; simpl; same5 t w H5 Hp Est.
    + dif; simpl; same5 t w H5 Hp Est.
  - (* FN *) apply Forall_inv2 in Hfr as [Hf Hfr']. simpl in Hf.
    assert (NB : forall m, incd rest m = false) by (intro m; eapply noinc_below_FN; eauto).
    destruct s; simpl; try exact H5; subst.
    + (* N1 *) destruct (lock_free w n) eqn:Hl; simpl; [|exact H5]. destruct (not_disconnecting (acquire w t n) n) eqn:Hd; simpl.
      * apply (W5_frame t w); [discprj | othprj | incprj Hp Est | | exact H5].
        intros m K. right. revert K. stk. rewrite Nat.eqb_refl. simpl. intro K. apply Nat.eqb_eq in K. subst m.
        revert Hd. unfold not_disconnecting, acquire, nt. simpl. unfold fupd. rewrite Nat.eqb_refl. simpl. intro Hd. apply Nat.eqb_eq in Hd. exact Hd.
      * same5 t w H5 Hp Est.
    + same5 t w H5 Hp Est.
    + (* N3 *) destruct (lock_free w n && not_disconnecting w n) eqn:Hl; simpl; [|exact H5]. apply andb_prop in Hl as [Hl Hd].
      apply (W5_frame t w); [discprj | othprj | incprj Hp Est | | exact H5].
      intros m K. right. revert K. stk. rewrite Nat.eqb_refl. simpl. intro K. apply Nat.eqb_eq in K. subst m.
      unfold not_disconnecting, nt in Hd. apply Nat.eqb_eq in Hd. exact Hd.
    + (* N4 *) assert (D0 : disc (notes w n) = 0%nat) by (apply (d_zero w H5 n t); rewrite Est; simpl; apply Nat.eqb_refl).
      assert (KO : forall u, u <> t -> knows0 (stack (get w u)) n = false).
      { intros u Hu. destruct (knows0 (stack (get w u)) n) eqn:E; auto. exfalso. apply Hu. apply (W3_excl w n u t H3); [apply knows0_held; auto|rewrite Est; reflexivity]. }
      destruct (tpos (notified_time w n (flag (nt w n)))); simpl; [destruct (has_par (nt w n)); simpl|].
      * apply (W5_inc t n w); auto; [discprj; unfold nt in *; lia | othprj | intro m; rewrite Est; simpl; apply NB | | intro m; stk; rewrite Nat.eqb_refl; reflexivity].
        intro m. stk. rewrite Nat.eqb_refl. simpl. rewrite NB. rewrite Nat.eqb_sym. apply orb_false_r.
      * apply (W5_inc t n w); auto; [discprj; unfold nt in *; lia | othprj | intro m; rewrite Est; simpl; apply NB | | intro m; stk; rewrite Nat.eqb_refl; reflexivity].
        intro m. stk. rewrite Nat.eqb_refl. simpl. rewrite NB. rewrite Nat.eqb_sym. apply orb_false_r.
      * same5 t w H5 Hp Est.
    + destruct c; simpl; same5 t w H5 Hp Est.
    + same5 t w H5 Hp Est.
    + same5 t w H5 Hp Est.
    + dif; simpl; [|exact H5]. same5 t w H5 Hp Est.
    + same5 t w H5 Hp Est.
    + (* N11 *) destruct inc.
      * assert (I0 : incd (stack (get w t)) n = true) by (rewrite Est; simpl; rewrite Nat.eqb_refl; reflexivity).
        pose proof (d_one w H5 n t I0) as D1.
        apply (W5_dec t n w); auto; [ discprj; unfold nt in *; rewrite ?D1; reflexivity | othprj | intro m; apply (incd_ret_N _ _ _ _ _ _ _ m Hp) | | intro m; apply (kn_ret_N _ _ _ _ _ _ _ m Hp)].
        intros m Hm. rewrite Est. simpl. rewrite NB. destruct (Nat.eqb_spec n m); [congruence|reflexivity].
      * apply (W5_frame t w); [discprj | othprj | | knprj Hp Est | exact H5].
        intro m. rewrite (incd_ret_N _ _ _ _ _ _ _ m Hp), Est. simpl. rewrite NB. reflexivity.
  - (* FC *) destruct s; simpl.
    + dif; simpl; same5 t w H5 Hp Est.
    + same5 t w H5 Hp Est.
    + same5 t w H5 Hp Est.
    + same5 t w H5 Hp Est.
  - (* FP *) apply wf_FP in Hwf as Hr. subst rest. destruct s; simpl; try exact H5.
    + destruct (lock_free w n) eqn:Hl; simpl; [|exact H5]. apply lock_free_None in Hl.
      match goal with |- context [if ?b then _ else _] => destruct b eqn:D0 end; simpl.
      * assert (D0' : disc (notes w n) = 0%nat) by (revert D0; unfold acquire, nt; simpl; unfold fupd; rewrite Nat.eqb_refl; simpl; intro D0; apply Nat.eqb_eq in D0; exact D0).
        apply (W5_inc t n w); auto; [discprj; unfold nt in *; lia | othprj | intro m; rewrite Est; reflexivity | | intro m; stk; rewrite Nat.eqb_refl; reflexivity | ].
        -- intro m. stk. rewrite Nat.eqb_refl. simpl. rewrite Nat.eqb_sym. apply orb_false_r.
        -- intros u Hu. destruct (knows0 (stack (get w u)) n) eqn:E; auto. apply knows0_held in E. apply H3 in E. congruence.
      * same5 t w H5 Hp Est.
    + destruct dec.
      * assert (I0 : incd (stack (get w t)) n = true) by (rewrite Est; simpl; rewrite Nat.eqb_refl; reflexivity).
        pose proof (d_one w H5 n t I0) as D1.
        apply (W5_dec t n w); auto; [ discprj; unfold nt in *; rewrite ?D1; reflexivity | othprj | intro m; rewrite stack_t_finish; reflexivity | | intro m; rewrite stack_t_finish; reflexivity].
        intros m Hm. rewrite Est. simpl. destruct (Nat.eqb_spec n m); [congruence|reflexivity].
      * same5 t w H5 Hp Est.
  - (* AWait *) apply wf_AWait in Hwf as Hr. subst rest. destruct s; simpl; try exact H5.
    + destruct c; simpl; [dif; simpl; [|exact H5]|destruct (sem (get w t)); simpl; [exact H5|]]; same5 t w H5 Hp Est.
    + same5 t w H5 Hp Est.
    + dif; simpl; [|exact H5]. same5 t w H5 Hp Est.
    + dif; simpl; same5 t w H5 Hp Est.
    + same5 t w H5 Hp Est.
    + destruct c; simpl; [dif; simpl; [dif; simpl|exact H5]|destruct (sem (get w t)); simpl; [exact H5|]]; same5 t w H5 Hp Est.
    + dif; simpl; [|exact H5]. same5 t w H5 Hp Est.
    + dif; simpl; same5 t w H5 Hp Est.
    + same5 t w H5 Hp Est.
Qed.

Lemma begin_call_W5 w t : W5 w -> W5 (begin_call w t).
Proof.
  intros H. unfold begin_call. destruct (stack (get w t)) eqn:Es; [|exact H]. destruct (prog (get w t)) as [|o rest]; [exact H|].
  apply (W5_frame t w); [reflexivity| | | |exact H].
  - intros u Hu. unfold set_thr, get; simpl; unfold fupd. neqb. reflexivity.
  - intro m. rewrite Es. unfold set_thr, get; simpl; unfold fupd. rewrite Nat.eqb_refl. simpl.
    destruct o as [[k|] dl|k|k|k]; simpl; repeat dif; reflexivity.
  - intros m K. exfalso. revert K. unfold set_thr, get; simpl; unfold fupd. rewrite Nat.eqb_refl. simpl.
    destruct o as [[k|] dl|k|k|k]; simpl; repeat dif; discriminate.
Qed.
Lemma W5_stacks w w' : (forall m, disc (notes w' m) = disc (notes w m)) -> (forall u, stack (get w' u) = stack (get w u)) -> W5 w -> W5 w'.
Proof. intros D S H. apply (W5_frame O w); auto; [intros u _; apply S|intro n; rewrite S; reflexivity|intros n; rewrite S; auto]. Qed.
Lemma exec_W5 w a : W1 w -> W3 w -> W5 w -> W5 (exec w a).
Proof.
  intros H1 H3 H. destruct a as [t c|d|o|t]; simpl.
  - rewrite step_eq. apply step_core_W5; [apply begin_call_W1, H1|apply begin_call_W3, H3|apply begin_call_W5, H].
  - apply (W5_stacks w); auto.
  - apply (W5_stacks w); auto. intro u. unfold env_v. stk. reflexivity.
  - unfold env_p. destruct (stack (get w t)); [|exact H]. destruct (sem (get w t)); [exact H|]. apply (W5_stacks w); auto. intro u. stk. reflexivity.
Qed.
Lemma init_W5 c0 ns progs : W5 (init c0 ns progs).
Proof.
  assert (DZ : forall m, disc (notes (init c0 ns progs) m) = 0%nat).
  { intro m. simpl. destruct (nth_error ns m) as [[e p]|]; reflexivity. }
  constructor.
  - intros n u. rewrite init_stack. discriminate.
  - intros n u v. rewrite init_stack. discriminate.
  - intros n. rewrite DZ. congruence.
  - intros n u. rewrite init_stack. discriminate.
Qed.
Lemma run_W135 sched : forall w, W1 w -> W3 w -> W5 w -> W5 (run w sched).
Proof.
  unfold run. induction sched as [|a s IH]; intros w H1 H3 H5; simpl; [auto|]. apply IH; [apply exec_W1|apply exec_W3|apply exec_W5]; auto.
Qed.
Lemma reachable_W5 w : reachable w -> W5 w.
Proof. intros (c0 & ns & progs & sched & _ & ->). apply run_W135; [apply init_W1|apply init_W3|apply init_W5]. Qed.

(* disconnecting is 0 or 1; it is 1 exactly while some (then unique) thread is between the increment and the decrement *)
Lemma sw_disc w n : reachable w -> (disc (nt w n) = 0%nat \/ disc (nt w n) = 1%nat) /\
  (disc (nt w n) <> 0%nat <-> exists u, incd (stack (get w u)) n = true).
Proof.
  intro R. pose proof (reachable_W5 w R) as H. unfold nt. split.
  - destruct (Nat.eq_dec (disc (notes w n)) 0) as [E|E]; [left; exact E|right]. destruct (d_some w H n E) as [u Hu]. apply (d_one w H n u Hu).
  - split; [apply (d_some w H)|]. intros [u Hu]. rewrite (d_one w H n u Hu). discriminate.
Qed.
Lemma sw_disc_quiet w n : reachable w -> (forall u, stack (get w u) = []) -> disc (nt w n) = 0%nat.
Proof.
  intros R Q. destruct (Nat.eq_dec (disc (nt w n)) 0) as [E|E]; [exact E|]. apply (sw_disc w n R) in E as [u Hu]. rewrite Q in Hu. discriminate.
Qed.

(* ------------------------------------------------------------------------------------------------ *)
(* Layer 6: a live record's owner is inside the call that created it *)
Definition W6 (w : world) : Prop :=
  forall r, live (recs w r) = true -> exists l s, In (AWait l s) (stack (get w (owner (recs w r)))) /\ has_rec s = true /\ w_rec l = r.
Definition keeps_aw (st st' : list frame) : Prop :=
  forall l s, In (AWait l s) st -> has_rec s = true -> exists l' s', In (AWait l' s') st' /\ has_rec s' = true /\ w_rec l' = w_rec l.
Lemma W6_frame t w w' :
  (forall r, live (recs w' r) = live (recs w r) /\ owner (recs w' r) = owner (recs w r)) -> others_same t w w' ->
  keeps_aw (stack (get w t)) (stack (get w' t)) -> W6 w -> W6 w'.
Proof.
  intros E O K H r. destruct (E r) as [-> ->]. intro L. destruct (H r L) as (l & s & A & B & C).
  destruct (Nat.eq_dec (owner (recs w r)) t) as [Ht|Ht].
  - rewrite Ht in *. destruct (K l s A B) as (l' & s' & A' & B' & C'). exists l', s'. repeat split; auto. congruence.
  - rewrite O by auto. exists l, s. auto.
Qed.
Lemma keeps_gen pre pre' rest : Forall nonAW pre -> keeps_aw (pre ++ rest) (pre' ++ rest).
Proof.
  intros F l s I0 Hs. apply in_app_or in I0 as [I0|I0]; [exfalso; eapply in_nonAW; eauto|]. exists l, s. repeat split; auto. apply in_or_app; auto.
Qed.
Lemma keeps_none st st' : (forall l s, In (AWait l s) st -> has_rec s = false) -> keeps_aw st st'.
Proof. intros A l s I0 Hs. rewrite (A l s I0) in Hs. discriminate. Qed.
Lemma keeps_aw1 pre pre' l s l' s' : Forall nonAW pre -> w_rec l' = w_rec l -> (has_rec s = true -> has_rec s' = true) ->
  keeps_aw (pre ++ [AWait l s]) (pre' ++ [AWait l' s']).
Proof.
  intros F E C l0 s0 I0 Hs. apply in_app_or in I0 as [I0|I0]; [exfalso; eapply in_nonAW; eauto|]. destruct I0 as [[= <- <-]|[]].
  exists l', s'. repeat split; auto. apply in_or_app; right; left; auto.
Qed.
Lemma k_ret_Notify w t n pre rest : Forall nonAW pre -> wf (FNotify n :: rest) ->
  keeps_aw (pre ++ FNotify n :: rest) (stack (get (ret_Notify w t n rest) t)).
Proof.
  intros F Hwf. unfold ret_Notify.
  destruct rest as [|g r].
  - apply keeps_none. intros l s I0. apply in_app_or in I0 as [I0|[I0|[]]]; [exfalso; exact (in_nonAW _ _ _ F I0)|discriminate].
  - apply wf_cons in Hwf as [Ha Hwf]. destruct g as [| | | | | |l []]; simpl in Ha; try contradiction. apply wf_AWait in Hwf. subst r.
    rewrite stack_t_setst. change (pre ++ FNotify n :: [AWait l (WNtf n0)]) with (pre ++ [FNotify n] ++ [AWait l (WNtf n0)]). rewrite app_assoc.
    apply (keeps_aw1 (pre ++ [FNotify n]) [] l (WNtf n0) l (WLk2 n0)); auto. apply Forall_app; split; auto. constructor; simpl; auto.
Qed.
Lemma k_ret_D w t n s pre rest v k : Forall nonAW pre -> wf (FD n s :: rest) ->
  keeps_aw (pre ++ FD n s :: rest) (stack (get (ret_D w t rest v k) t)).
Proof.
  intros F Hwf. unfold ret_D. destruct rest as [|g r]; [contradiction Hwf|]. apply wf_cons in Hwf as [Ha Hwf].
  assert (Fp : Forall nonAW (pre ++ [FD n s])) by (apply Forall_app; split; auto; constructor; simpl; auto).
  destruct g as [| | | |m|m|l []]; simpl in Ha; try contradiction; subst.
  - destruct (tpos v).
    + rewrite stack_t_setst. change (FN m N1 false false :: FNotify m :: r) with ([FN m N1 false false] ++ FNotify m :: r).
      replace (pre ++ FD m s :: FNotify m :: r) with ((pre ++ [FD m s]) ++ FNotify m :: r) by (rewrite <- app_assoc; reflexivity).
      apply keeps_gen; auto.
    + change (pre ++ FD m s :: FNotify m :: r) with (pre ++ [FD m s] ++ FNotify m :: r). rewrite app_assoc. apply k_ret_Notify; auto.
  - apply wf_AIs in Hwf. subst r. apply keeps_none. intros l s0 I0. apply in_app_or in I0 as [I0|[I0|[I0|[]]]]; [exfalso; exact (in_nonAW _ _ _ F I0)|discriminate|discriminate].
  - apply wf_AWait in Hwf. subst r. apply keeps_none. intros l0 s0 I0. apply in_app_or in I0 as [I0|[I0|[I0|[]]]]; [exfalso; exact (in_nonAW _ _ _ F I0)|discriminate|].
    injection I0 as <- <-. reflexivity.
Qed.
Lemma k_ret_N w t n s par inc rest : wf (FN n s par inc :: rest) ->
  keeps_aw (FN n s par inc :: rest) (stack (get (ret_N w t rest) t)).
Proof.
  intros Hwf. unfold ret_N. destruct rest as [|g r]; [contradiction Hwf|]. apply wf_cons in Hwf as [Ha Hwf].
  destruct g as [m []| | | |m|m|]; simpl in Ha; try contradiction; subst.
  - apply (k_ret_D w t m (D6 now) [FN m s par inc]); simpl; auto. repeat constructor.
  - apply (k_ret_Notify w t m [FN m s par inc]); simpl; auto. repeat constructor.
Qed.
Lemma k_ret_C w t n par s rest : wf (FC n par s :: rest) -> keeps_aw (FC n par s :: rest) (stack (get (ret_C w t rest) t)).
Proof.
  intros Hwf. unfold ret_C. destruct rest as [|g r]; [contradiction Hwf|]. apply wf_cons in Hwf as [Ha Hwf].
  destruct g as [|m [] par' inc| |m []| | |]; simpl in Ha; try contradiction.
  - destruct Ha as [-> ->]. rewrite stack_t_setst.
    apply (keeps_gen [FC m par' s; FN m N9 par' inc] [FN m (if par' then N10 else N11) par' inc] r); simpl; auto; repeat constructor.
  - subst. rewrite stack_t_setst. apply (keeps_gen [FC m par s; FP m P2] [FP m (P3 true)] r); simpl; auto; repeat constructor.
Qed.
Lemma k_c_wloop w t n par s rest : wf (FC n par s :: rest) -> keeps_aw (FC n par s :: rest) (stack (get (c_wloop w t n par rest) t)).
Proof.
  intro Hwf. unfold c_wloop, c_tail. dmatch; try (apply k_ret_C; auto). rewrite stack_t_setst.
  apply (keeps_gen [FC n par s] [FC n par (C3 n0)] rest). repeat constructor.
Qed.
Lemma recs_c_tail w t n p r : recs (c_tail w t n p r) = recs w. Proof. unfold c_tail. rewrite recs_ret_C. destruct p; reflexivity. Qed.
Lemma lo_c_wloop w t n p r x : live (recs (c_wloop w t n p r) x) = live (recs w x) /\ owner (recs (c_wloop w t n p r) x) = owner (recs w x).
Proof. unfold c_wloop. dmatch; [rewrite recs_c_tail; auto|]. simpl. unfold fupd. destruct (Nat.eqb_spec x n0); subst; auto. Qed.
Ltac loprj := let r := fresh "r" in intro r; rewrite ?recs_ret_D, ?recs_ret_N, ?recs_ret_C, ?recs_ret_Notify;
  try match goal with |- context [recs (c_wloop ?a ?b ?c ?d ?e) r] => destruct (lo_c_wloop a b c d e r) as [-> ->] end; simpl; unfold fupd;
  repeat match goal with |- context [Nat.eqb ?a ?b] => destruct (Nat.eqb_spec a b); subst; simpl end; auto.
Ltac kgen Est pre pre' rest := rewrite Est; rewrite ?stack_t_setst, ?stack_t_finish, ?stack_t_finish_wait;
  apply (keeps_gen pre pre' rest); repeat constructor.
Ltac fr6 t w H6 := apply (W6_frame t w); [loprj | othprj | | exact H6].

Lemma step_core_W6 w t c : W1 w -> W6 w -> W6 (fst (step_core w t c)).
Proof.
  intros H1 H6. pose proof (H1 t) as (Hwf & Htop & Hfr).
  unfold step_core. destruct (stack (get w t)) as [|f rest] eqn:Est; [exact H6|].
  destruct f as [n s|n s par inc|n par s|n s|n|n|l s]; try exact H6.
  - (* FD *) destruct s; simpl; try exact H6.
    + dif; simpl; fr6 t w H6; [kgen Est [FD n D1] [FD n D2] rest|rewrite Est; apply (k_ret_D w t n D1 []); simpl; auto].
    + dif; simpl; [|exact H6]. fr6 t w H6. kgen Est [FD n D2] [FD n D3] rest.
    + fr6 t w H6. kgen Est [FD n D3] [FD n (D4 (notified_time w n (flag (nt w n))))] rest.
    + dif; simpl; fr6 t w H6; [kgen Est [FD n (D4 x)] [FD n (D5 x)] rest|rewrite Est; apply (k_ret_D (release w n) t n (D4 x) []); simpl; auto].
    + dif; simpl; fr6 t w H6; [kgen Est [FD n (D5 x)] [FN n N1 false false; FD n (D6 (clock w))] rest|rewrite Est; apply (k_ret_D w t n (D5 x) []); simpl; auto].
  - (* FN *) destruct s; simpl; try exact H6.
    + dif; simpl; [|exact H6]. dif; simpl; fr6 t w H6; [kgen Est [FN n N1 par inc] [FN n N4 par inc] rest|kgen Est [FN n N1 par inc] [FN n N2 par inc] rest].
    + fr6 t w H6. kgen Est [FN n N2 par inc] [FN n N3 par inc] rest.
    + dif; simpl; [|exact H6]. fr6 t w H6. kgen Est [FN n N3 par inc] [FN n N4 par inc] rest.
    + dif; simpl; [dif; simpl|]; fr6 t w H6.
      * kgen Est [FN n N4 par inc] [FN n N5 true true] rest.
      * kgen Est [FN n N4 par inc] [FC n false C1; FN n N9 false true] rest.
      * kgen Est [FN n N4 par inc] [FN n N11 par false] rest.
    + destruct c; simpl; fr6 t w H6; [kgen Est [FN n N5 par inc] [FN n N6 par inc] rest|kgen Est [FN n N5 par inc] [FC n par C1; FN n N9 par inc] rest].
    + fr6 t w H6. kgen Est [FN n N6 par inc] [FN n N7 par inc] rest.
    + fr6 t w H6. kgen Est [FN n N7 par inc] [FN n N8 par inc] rest.
    + dif; simpl; [|exact H6]. fr6 t w H6. kgen Est [FN n N8 par inc] [FC n par C1; FN n N9 par inc] rest.
    + fr6 t w H6. kgen Est [FN n N10 par inc] [FN n N11 par inc] rest.
    + destruct inc; fr6 t w H6; rewrite Est; apply k_ret_N; auto.
  - (* FC *) destruct s; simpl.
    + dif; simpl; fr6 t w H6; [kgen Est [FC n par C1] [FC n par C2] rest|rewrite Est; apply k_ret_C; auto].
    + fr6 t w H6. rewrite Est. apply k_c_wloop; auto.
    + fr6 t w H6. kgen Est [FC n par (C3 o)] [FC n par (C4 o)] rest.
    + fr6 t w H6. rewrite Est. apply k_c_wloop; auto.
  - (* FP *) destruct s; simpl; try exact H6.
    + dif; simpl; [|exact H6]. dif; simpl; fr6 t w H6; [kgen Est [FP n P1] [FC n true C1; FP n P2] rest|kgen Est [FP n P1] [FP n (P3 false)] rest].
    + destruct dec; fr6 t w H6; rewrite Est; apply wf_FP in Hwf; subst rest; apply keeps_none; intros l s [I0|[]]; discriminate.
  - (* AWait *) apply wf_AWait in Hwf as Hr. subst rest.
    assert (KN : forall s', has_rec s = false -> keeps_aw [AWait l s] s').
    { intros s' Hs. apply keeps_none. intros l0 s0 [[= <- <-]|[]]. exact Hs. }
    destruct s; simpl; try exact H6.
    + (* WPlain *) destruct c; simpl; [dif; simpl; [|exact H6]|destruct (sem (get w t)); simpl; [exact H6|]]; fr6 t w H6; rewrite Est; apply KN; reflexivity.
    + (* WSt *) intros r. simpl. unfold fupd. destruct (Nat.eqb_spec r (nrec w)) as [->|Hr]; simpl.
      * intros _. stk. simpl. rewrite Nat.eqb_refl. exists (wl_rec l (nrec w)), (WLk1 n). repeat split. left; reflexivity.
      * intro L. destruct (H6 r L) as (l0 & s0 & A & B & C). stk. simpl. destruct (Nat.eqb_spec (owner (recs w r)) t) as [E|E].
        -- rewrite E, Est in A. destruct A as [[= <- <-]|[]]. discriminate.
        -- exists l0, s0. auto.
    + dif; simpl; [|exact H6]. fr6 t w H6. rewrite Est, stack_t_setst. apply (keeps_aw1 [] [] l (WLk1 n) l (WLd1 n)); auto.
    + dif; simpl; fr6 t w H6; rewrite Est, stack_t_setst.
      * apply (keeps_aw1 [] []); auto.
      * apply (keeps_aw1 [] []); auto.
    + fr6 t w H6. rewrite Est, stack_t_setst. apply (keeps_aw1 [] [] l (WUn1 n) l (WP n)); auto.
    + destruct c; simpl; [dif; simpl; [dif; simpl|exact H6]|destruct (sem (get w t)); simpl; [exact H6|]]; fr6 t w H6; rewrite Est, stack_t_setst.
      * apply (keeps_aw1 [] []); auto.
      * apply (keeps_aw1 [] [FD n D1; FNotify n]); auto.
      * apply (keeps_aw1 [] []); auto.
    + dif; simpl; [|exact H6]. fr6 t w H6. rewrite Est, stack_t_setst. apply (keeps_aw1 [] [] l (WLk2 n) l (WLd2 n)); auto.
    + dif; simpl; fr6 t w H6; rewrite Est, stack_t_setst; apply (keeps_aw1 [] []); auto.
    + (* WUnl *) intros r. rewrite stack_finish_wait. unfold finish_wait. simpl recs. unfold fupd. destruct (Nat.eqb_spec r (w_rec l)) as [->|Hr]; simpl; [discriminate|].
      intro L. destruct (H6 r L) as (l0 & s0 & A & B & C). destruct (Nat.eqb_spec (owner (recs w r)) t) as [E|E].
      * rewrite E, Est in A. destruct A as [[= <- <-]|[]]. congruence.
      * exists l0, s0. auto.
Qed.
Lemma begin_call_W6 w t : W6 w -> W6 (begin_call w t).
Proof.
  intros H. unfold begin_call. destruct (stack (get w t)) eqn:Es; [|exact H]. destruct (prog (get w t)) as [|o rest]; [exact H|].
  apply (W6_frame t w); [auto| |rewrite Es; intros l s []|exact H].
  intros u Hu. unfold set_thr, get; simpl; unfold fupd. neqb. reflexivity.
Qed.
Lemma W6_stacks w w' : recs w' = recs w -> (forall u, stack (get w' u) = stack (get w u)) -> W6 w -> W6 w'.
Proof. intros E S H r. rewrite E, S. apply H. Qed.
Lemma exec_W6 w a : W1 w -> W6 w -> W6 (exec w a).
Proof.
  intros H1 H. destruct a as [t c|d|o|t]; simpl.
  - rewrite step_eq. apply step_core_W6; [apply begin_call_W1, H1|apply begin_call_W6, H].
  - apply (W6_stacks w); auto.
  - apply (W6_stacks w); auto. intro u. unfold env_v. stk. reflexivity.
  - unfold env_p. destruct (stack (get w t)); [|exact H]. destruct (sem (get w t)); [exact H|]. apply (W6_stacks w); auto. intro u. stk. reflexivity.
Qed.
Lemma init_W6 c0 ns progs : W6 (init c0 ns progs).
Proof. intros r. simpl. discriminate. Qed.
Lemma run_W16 sched : forall w, W1 w -> W6 w -> W6 (run w sched).
Proof. unfold run. induction sched as [|a s IH]; intros w H1 H6; simpl; [auto|]. apply IH; [apply exec_W1|apply exec_W6]; auto. Qed.
Lemma reachable_W6 w : reachable w -> W6 w.
Proof. intros (c0 & ns & progs & sched & _ & ->). apply run_W16; [apply init_W1|apply init_W6]. Qed.

(* when nobody is inside a call, no record is live and every queue is empty *)
Lemma sw_live_owner w r : reachable w -> live (recs w r) = true ->
  exists l s, In (AWait l s) (stack (get w (owner (recs w r)))) /\ has_rec s = true /\ w_rec l = r.
Proof. intros R. apply (reachable_W6 w R). Qed.
Lemma sw_queue_quiet w n : reachable w -> (forall u, stack (get w u) = []) -> waiters (nt w n) = [].
Proof.
  intros R Q. destruct (waiters (nt w n)) as [|r ws] eqn:E; [reflexivity|]. exfalso.
  destruct (sw_queue w n r R) as (_ & _ & L & _); [rewrite E; left; reflexivity|].
  destruct (sw_live_owner w r R L) as (l & s & A & _). rewrite Q in A. destruct A.
Qed.

(* ------------------------------------------------------------------------------------------------ *)
(* Layer 7: who may have set the `notified` word *)
(* the call a stack belongs to: its bottom frame *)
Fixpoint running (st : list frame) : option op :=
  match st with
  | [] => None
  | f :: r => match r with
              | [] => match f with
                      | FNotify n => Some (ONotify n) | FP n _ => Some (OParentNotify n) | AIs n => Some (OIsNotified n)
                      | AWait l _ => Some (OWait (w_note l) (w_dl l)) | _ => None
                      end
              | _ :: _ => running r
              end
  end.
Definition ops_of (st : list frame) (h : list (op * res)) : list op :=
  match running st with Some o => o :: map fst h | None => map fst h end.
(* the calls thread u has begun so far (the running one first, then the completed ones, latest first) *)
Definition ops (w : world) (u : nat) : list op := ops_of (stack (get w u)) (hist (get w u)).
Definition called (w : world) (o : op) : Prop := exists u, In o (ops w u).
(* nsync_note_notify (n) has been called, or the notifier of n's parent has come to n, or the clock has reached n's expiry *)
Definition justified (w : world) (n : nat) : Prop :=
  called w (ONotify n) \/ called w (OParentNotify n) \/ tle_z (expiry (notes w n)) (clock w) = true.
Definition W7 (w : world) : Prop := forall n, flag (notes w n) <> 0 -> justified w n.

Lemma hist_setst w t st u : hist (get (setst w t st) u) = hist (get w u).
Proof. upd; simpl; unfold fupd. destruct (Nat.eqb_spec u t); subst; reflexivity. Qed.
Lemma hist_set_sem w o v u : hist (get (set_sem w o v) u) = hist (get w u).
Proof. upd; simpl; unfold fupd. destruct (Nat.eqb_spec u o); subst; reflexivity. Qed.
Lemma hist_finish w t o r u : hist (get (finish w t o r) u) = if Nat.eqb u t then (o, r) :: hist (get w t) else hist (get w u).
Proof. upd; simpl; unfold fupd. destruct (Nat.eqb u t); reflexivity. Qed.
Lemma hist_finish_wait w t l b u : hist (get (finish_wait w t l b) u) =
  if Nat.eqb u t then (OWait (w_note l) (w_dl l), RInt (w_so l)) :: hist (get w t) else hist (get w u).
Proof. unfold finish_wait. rewrite hist_finish. destruct b; reflexivity. Qed.
Lemma hist_set_note w n x u : hist (get (set_note w n x) u) = hist (get w u). Proof. reflexivity. Qed.
Lemma hist_set_rec w n x u : hist (get (set_rec w n x) u) = hist (get w u). Proof. reflexivity. Qed.
Lemma hist_new_rec w x u : hist (get (new_rec w x) u) = hist (get w u). Proof. reflexivity. Qed.
Lemma hist_set_dead w x u : hist (get (set_dead w x) u) = hist (get w u). Proof. reflexivity. Qed.
Lemma hist_acquire w t n u : hist (get (acquire w t n) u) = hist (get w u). Proof. reflexivity. Qed.
Lemma hist_release w n u : hist (get (release w n) u) = hist (get w u). Proof. reflexivity. Qed.
Lemma hist_touch w n u : hist (get (touch w n) u) = hist (get w u). Proof. reflexivity. Qed.
Lemma hist_touch_all w n u : hist (get (touch_all w n) u) = hist (get w u). Proof. reflexivity. Qed.
Ltac hst := repeat rewrite ?hist_setst, ?hist_set_sem, ?hist_finish_wait, ?hist_finish, ?hist_set_note, ?hist_set_rec, ?hist_new_rec, ?hist_set_dead,
  ?hist_acquire, ?hist_release, ?hist_touch, ?hist_touch_all.
Lemma ho_ret_Notify w t n r u : u <> t -> hist (get (ret_Notify w t n r) u) = hist (get w u).
Proof. intro. unfold ret_Notify; dmatch; hst; neqb; reflexivity. Qed.
Lemma ho_ret_D w t r v k u : u <> t -> hist (get (ret_D w t r v k) u) = hist (get w u).
Proof. intro. unfold ret_D; dmatch; rewrite ?ho_ret_Notify by auto; hst; neqb; reflexivity. Qed.
Lemma ho_ret_N w t r u : u <> t -> hist (get (ret_N w t r) u) = hist (get w u).
Proof. intro. unfold ret_N; dmatch; rewrite ?ho_ret_D, ?ho_ret_Notify by auto; hst; neqb; reflexivity. Qed.
Lemma ho_ret_C w t r u : u <> t -> hist (get (ret_C w t r) u) = hist (get w u).
Proof. intro. unfold ret_C; dmatch; hst; neqb; reflexivity. Qed.
Lemma ho_c_tail w t n p r u : u <> t -> hist (get (c_tail w t n p r) u) = hist (get w u).
Proof. intro. unfold c_tail. rewrite ho_ret_C by auto. destruct p; reflexivity. Qed.
Lemma ho_c_wloop w t n p r u : u <> t -> hist (get (c_wloop w t n p r) u) = hist (get w u).
Proof. intro. unfold c_wloop. dmatch; [apply ho_c_tail; auto|]. hst; neqb; reflexivity. Qed.
Ltac hothprj := let u := fresh "u" in let Hu := fresh "Hu" in intros u Hu; rewrite ?ho_ret_D, ?ho_ret_N, ?ho_ret_C, ?ho_ret_Notify, ?ho_c_wloop, ?ho_c_tail by auto;
  hst; neqb; try reflexivity; upd; simpl; unfold fupd; neqb; try reflexivity;
  repeat match goal with |- context [Nat.eqb ?a ?b] => destruct (Nat.eqb_spec a b); subst; simpl end; reflexivity.
Lemma step_core_hist_others w t c : forall u, u <> t -> hist (get (fst (step_core w t c)) u) = hist (get w u).
Proof.
  unfold step_core. destruct (stack (get w t)) as [|f rest] eqn:Est; [intros u _; reflexivity|].
  destruct f as [n s|n s par inc|n par s|n s|n|n|l s]; try (intros u _; reflexivity).
  - destruct s; simpl; repeat (dif; simpl); try (intros u _; reflexivity); hothprj.
  - destruct s; simpl; repeat (dif; simpl); try (intros u _; reflexivity); hothprj.
  - destruct s; simpl; repeat (dif; simpl); try (intros u _; reflexivity); hothprj.
  - destruct s; simpl; repeat (dif; simpl); try (intros u _; reflexivity); hothprj.
  - destruct s; simpl; repeat (dif; simpl); try (intros u _; reflexivity); try hothprj.
    all: destruct (sem (get w t)); simpl; try (intros u _; reflexivity); hothprj.
Qed.

(* the calls of the thread that moves *)
Lemma ops_setst w t st : ops (setst w t st) t = ops_of st (hist (get w t)).
Proof. unfold ops. rewrite stack_t_setst, hist_setst. reflexivity. Qed.
Lemma ops_finish w t o r : ops (finish w t o r) t = o :: map fst (hist (get w t)).
Proof. unfold ops. rewrite stack_t_finish, hist_finish, Nat.eqb_refl. reflexivity. Qed.
Lemma ops_finish_wait w t l b : ops (finish_wait w t l b) t = OWait (w_note l) (w_dl l) :: map fst (hist (get w t)).
Proof. unfold ops. rewrite stack_t_finish_wait, hist_finish_wait, Nat.eqb_refl. reflexivity. Qed.
Lemma running_cons f g r : running (f :: g :: r) = running (g :: r). Proof. reflexivity. Qed.
Lemma ops_ret_Notify w t n r : wf (FNotify n :: r) -> ops (ret_Notify w t n r) t = ops_of (FNotify n :: r) (hist (get w t)).
Proof.
  intro H. unfold ret_Notify. destruct r as [|g r]; [rewrite ops_finish; reflexivity|].
  apply wf_cons in H as [Ha H]. destruct g as [| | | | | |l []]; simpl in Ha; try contradiction. apply wf_AWait in H. subst r.
  rewrite ops_setst. reflexivity.
Qed.
Lemma ops_ret_D w t n s r v k : wf (FD n s :: r) -> ops (ret_D w t r v k) t = ops_of (FD n s :: r) (hist (get w t)).
Proof.
  intro H. unfold ret_D. destruct r as [|g r]; [contradiction H|]. apply wf_cons in H as [Ha H].
  destruct g as [| | | |j|j|l []]; simpl in Ha; try contradiction; subst.
  - destruct (tpos v); [rewrite ops_setst; reflexivity|]. rewrite ops_ret_Notify by auto. reflexivity.
  - apply wf_AIs in H. subst r. rewrite ops_finish. reflexivity.
  - apply wf_AWait in H. subst r. destruct (tpos v); [rewrite ops_setst|rewrite ops_finish_wait]; reflexivity.
Qed.
Lemma ops_ret_N w t n s par inc r : wf (FN n s par inc :: r) -> ops (ret_N w t r) t = ops_of (FN n s par inc :: r) (hist (get w t)).
Proof.
  intro H. unfold ret_N. destruct r as [|g r]; [contradiction H|]. apply wf_cons in H as [Ha H].
  destruct g as [j []| | | |j|j|]; simpl in Ha; try contradiction; subst.
  - rewrite (ops_ret_D w t j (D6 now)) by auto. reflexivity.
  - rewrite ops_ret_Notify by auto. reflexivity.
Qed.
Lemma ops_ret_C w t n par s r : wf (FC n par s :: r) -> ops (ret_C w t r) t = ops_of (FC n par s :: r) (hist (get w t)).
Proof.
  intro H. unfold ret_C. destruct r as [|g r]; [contradiction H|]. apply wf_cons in H as [Ha H].
  destruct g as [|j [] par' inc| |j []| | |]; simpl in Ha; try contradiction.
  - destruct Ha as [-> ->]. rewrite ops_setst. unfold ops_of. destruct r; [contradiction H|]. reflexivity.
  - subst. apply wf_FP in H. subst r. rewrite ops_setst. reflexivity.
Qed.
Lemma hist_t_c_tail_pre w t n (par : bool) : hist (get (if par then set_note w n (set_has_par (nt w n) false) else w) t) = hist (get w t).
Proof. destruct par; reflexivity. Qed.
Lemma ops_c_wloop w t n par s r : wf (FC n par s :: r) -> ops (c_wloop w t n par r) t = ops_of (FC n par s :: r) (hist (get w t)).
Proof.
  intro H. unfold c_wloop, c_tail. destruct (waiters (nt w n)).
  - rewrite (ops_ret_C _ t n par s) by auto. rewrite hist_t_c_tail_pre. reflexivity.
  - rewrite ops_setst. unfold ops_of. destruct r; [contradiction H|]. reflexivity.
Qed.
Lemma ops_of_push f g r h : ops_of (f :: g :: r) h = ops_of (g :: r) h. Proof. reflexivity. Qed.
Ltac opsT Hwf Est := unfold ops at 2; rewrite Est;
  first [ rewrite (ops_ret_D _ _ _ _ _ _ _ Hwf) | rewrite (ops_ret_N _ _ _ _ _ _ _ Hwf) | rewrite (ops_ret_C _ _ _ _ _ _ Hwf)
        | rewrite (ops_c_wloop _ _ _ _ _ _ Hwf) | rewrite ops_setst | rewrite ops_finish_wait | rewrite ops_finish ];
  hst; try reflexivity;
  match goal with Hw : wf (_ :: ?rest) |- _ => destruct rest; [try contradiction Hw; try reflexivity|reflexivity] end.
Lemma step_core_ops_t w t c : W1 w -> ops (fst (step_core w t c)) t = ops w t.
Proof.
  intros H1. pose proof (H1 t) as (Hwf & Htop & Hfr).
  unfold step_core. destruct (stack (get w t)) as [|f rest] eqn:Est; [reflexivity|].
  destruct f as [n s|n s par inc|n par s|n s|n|n|l s]; try reflexivity.
  - destruct s; simpl; repeat (dif; simpl); try reflexivity; opsT Hwf Est.
  - destruct s; simpl; repeat (dif; simpl); try reflexivity; opsT Hwf Est.
  - destruct s; simpl; repeat (dif; simpl); try reflexivity; opsT Hwf Est.
  - apply wf_FP in Hwf as Hr. subst rest. destruct s; simpl; repeat (dif; simpl); try reflexivity; opsT Hwf Est.
  - apply wf_AWait in Hwf as Hr. subst rest.
    destruct s; simpl; repeat (dif; simpl); try reflexivity; try (opsT Hwf Est).
    all: destruct (sem (get w t)); simpl; try reflexivity; opsT Hwf Est.
Qed.
Lemma step_core_ops w t c u : W1 w -> ops (fst (step_core w t c)) u = ops w u.
Proof.
  intro H1. destruct (Nat.eq_dec u t) as [->|Hu]; [apply step_core_ops_t; auto|].
  unfold ops. rewrite (step_core_others w t c H1 u Hu), (step_core_hist_others w t c u Hu). reflexivity.
Qed.

Lemma begin_call_ops w t u o : In o (ops w u) -> In o (ops (begin_call w t) u).
Proof.
  unfold begin_call. destruct (stack (get w t)) eqn:Es; [|auto]. destruct (prog (get w t)) as [|o' rest]; [auto|].
  unfold ops, set_thr, get; simpl; unfold fupd. destruct (Nat.eqb_spec u t) as [->|Hu]; [|auto]. simpl. unfold get in Es. rewrite Es.
  unfold ops_of at 1. simpl. intro I0. unfold ops_of. destruct (running _); [right|]; exact I0.
Qed.
Lemma tle_z_mono e c c' : tle_z e c = true -> c <= c' -> tle_z e c' = true.
Proof. destruct e as [z|]; simpl; [|discriminate]. intros A B. apply Z.leb_le in A. apply Z.leb_le. lia. Qed.
Lemma justified_mono w w' n : ext w w' -> (forall u o, In o (ops w u) -> In o (ops w' u)) -> justified w n -> justified w' n.
Proof.
  intros [Ec En] O [(u & A)|[(u & A)|A]]; [left; exists u; auto|right; left; exists u; auto|right; right].
  destruct (En n) as [-> _]. eapply tle_z_mono; eauto.
Qed.
Lemma W7_frame w w' : ext w w' -> (forall u o, In o (ops w u) -> In o (ops w' u)) ->
  (forall n, flag (notes w' n) <> 0 -> flag (notes w n) <> 0 \/ justified w n) -> W7 w -> W7 w'.
Proof. intros E O F H n Hf. apply (justified_mono w w' n E O). destruct (F n Hf) as [A|A]; [apply H; exact A|exact A]. Qed.

Lemma flag_c_tail w t n p r m : flag (notes (c_tail w t n p r) m) = flag (notes w m).
Proof. apply notes_c_tail_w. Qed.
Lemma flag_c_wloop w t n p r m : flag (notes (c_wloop w t n p r) m) = flag (notes w m).
Proof. unfold c_wloop. dmatch; [apply flag_c_tail|]. simpl. unfold fupd, nt. destruct (Nat.eqb_spec m n); subst; reflexivity. Qed.
Ltac flagprj := left; rewrite ?flag_c_wloop, ?flag_c_tail; prj; simpl; unfold fupd, nt; simpl;
  repeat match goal with |- context [Nat.eqb ?a ?b] => destruct (Nat.eqb_spec a b); subst; simpl end; reflexivity.
(* the `notified` word is written by one step only: the store of note_notify_child (site C2) *)
Lemma step_core_flag w t c m : flag (notes (fst (step_core w t c)) m) = flag (notes w m) \/
  exists par rest, stack (get w t) = FC m par C2 :: rest.
Proof.
  unfold step_core. destruct (stack (get w t)) as [|f rest] eqn:Est; [left; reflexivity|].
  destruct f as [n s|n s par inc|n par s|n s|n|n|l s]; try (left; reflexivity).
  - destruct s; simpl; repeat (dif; simpl); try (left; reflexivity); flagprj.
  - destruct s; simpl; repeat (dif; simpl); try (left; reflexivity); flagprj.
  - destruct s; simpl; repeat (dif; simpl); try (left; reflexivity); try flagprj.
    destruct (Nat.eq_dec m n) as [->|Hm]; [right; exists par, rest; reflexivity|left].
    rewrite flag_c_wloop. simpl. unfold fupd. destruct (Nat.eqb_spec m n); [congruence|reflexivity].
  - destruct s; simpl; repeat (dif; simpl); try (left; reflexivity); flagprj.
  - destruct s; simpl; repeat (dif; simpl); try (left; reflexivity); try flagprj.
    all: destruct (sem (get w t)); simpl; try (left; reflexivity); flagprj.
Qed.

(* whoever is about to store the `notified` word of n got there from a call of nsync_note_notify (n), from the parent's notifier,
   or because the clock had reached n's expiry (nsync_note_notified_deadline_'s own notify, or the wait's time-out at the expiry) *)
Lemma just_C2 w u n par rest : stack_ok (stack (get w u)) -> Forall (fr2 w) (stack (get w u)) -> stack (get w u) = FC n par C2 :: rest -> justified w n.
Proof.
  intros (Hwf & _ & _) F E. rewrite E in Hwf, F. destruct rest as [|g r]; [contradiction Hwf|]. apply wf_cons in Hwf as [Ha Hwf].
  apply Forall_inv2 in F as [_ F].
  destruct g as [|m [] par' inc| |m []| | |]; simpl in Ha; try contradiction.
  - destruct Ha as [-> ->]. destruct r as [|g r]; [contradiction Hwf|]. apply wf_cons in Hwf as [Ha Hwf]. apply Forall_inv2 in F as [_ F].
    destruct g as [j []| | | |j|j|]; simpl in Ha; try contradiction; subst.
    + (* notify called by nsync_note_notified_deadline_ *) apply Forall_inv2 in F as [[A B] _]. right; right. eapply tle_z_mono; eauto.
    + destruct r as [|g r].
      * (* nsync_note_notify (n) called by the program *) left. exists u. unfold ops. rewrite E. left. reflexivity.
      * (* nsync_note_notify (n) called by a wait whose P timed out at the note's expiry *)
        apply wf_cons in Hwf as [Ha Hwf]. destruct g as [| | | | | |l []]; simpl in Ha; try contradiction. subst.
        apply Forall_inv2 in F as [_ F]. apply Forall_inv2 in F as [(_ & _ & Nr & (Ec & _ & _ & El) & (c0 & _ & Tc & Cc)) _].
        right; right. rewrite Nr in El. rewrite El, Ec in Tc. eapply tle_z_mono; eauto.
  - subst. apply wf_FP in Hwf. subst r. right; left. exists u. unfold ops. rewrite E. left. reflexivity.
Qed.

Lemma step_core_W7 w t c : W1 w -> W2 w -> W7 w -> W7 (fst (step_core w t c)).
Proof.
  intros H1 H2 H7. apply (W7_frame w); [apply step_core_ext| |  |exact H7].
  - intros u o. rewrite step_core_ops by auto. auto.
  - intros n Hf. destruct (step_core_flag w t c n) as [E|(par & rest & E)]; [left; rewrite <- E; exact Hf|right].
    eapply just_C2; [apply H1|apply (proj1 H2)|exact E].
Qed.
Lemma begin_call_W7 w t : W7 w -> W7 (begin_call w t).
Proof.
  intro H. apply (W7_frame w); [apply ext_by; [apply clock_begin_call|apply notes_begin_call]| | |exact H].
  - intros u o. apply begin_call_ops.
  - intros n. rewrite notes_begin_call. auto.
Qed.
Lemma W7_same w w' : ext w w' -> (forall n, flag (notes w' n) = flag (notes w n)) -> (forall u, ops w' u = ops w u) -> W7 w -> W7 w'.
Proof. intros E F O H. apply (W7_frame w); auto; [intros u o; rewrite O; auto|intros n; rewrite F; auto]. Qed.
Lemma exec_W7 w a : W1 w -> W2 w -> W7 w -> W7 (exec w a).
Proof.
  intros H1 H2 H. destruct a as [t c|d|o|t]; simpl.
  - rewrite step_eq. apply step_core_W7; [apply begin_call_W1, H1|apply begin_call_W2, H2|apply begin_call_W7, H].
  - apply (W7_same w); auto. apply ext_tick.
  - apply (W7_same w); auto; [apply ext_by; reflexivity|]. intro u. unfold ops, env_v. stk. rewrite hist_set_sem. reflexivity.
  - unfold env_p. destruct (stack (get w t)); [|exact H]. destruct (sem (get w t)); [exact H|].
    apply (W7_same w); auto; [apply ext_by; reflexivity|]. intro u. unfold ops. stk. rewrite hist_set_sem. reflexivity.
Qed.
Lemma init_W7 c0 ns progs : W7 (init c0 ns progs).
Proof. intros n. simpl. destruct (nth_error ns n) as [[e p]|]; simpl; congruence. Qed.
Lemma run_W127 sched : forall w, W1 w -> W2 w -> W7 w -> W7 (run w sched).
Proof.
  unfold run. induction sched as [|a s IH]; intros w H1 H2 H7; simpl; [auto|]. apply IH; [apply exec_W1|apply exec_W2|apply exec_W7]; auto.
Qed.
Lemma reachable_W7 w : reachable w -> W7 w.
Proof. intros (c0 & ns & progs & sched & _ & ->). apply run_W127; [apply init_W1|apply init_W2|apply init_W7]. Qed.

(* C05sw_flag_sound *)
Lemma sw_flag_sound w n : reachable w -> flag (nt w n) <> 0 -> justified w n.
Proof. intros R. apply (reachable_W7 w R). Qed.

(* ------------------------------------------------------------------------------------------------ *)
(* what a step adds to the log of returns: nothing, or one entry that records the clock, the `notified` word and the expiry
   of the state the step started from *)
Definition eflag_of (w : world) (no : option nat) : Z := match no with Some n => flag (notes w n) | None => 0 end.
Definition eexp_of (w : world) (no : option nat) : time := match no with Some n => expiry (notes w n) | None => None end.
Definition retrel (w w' : world) : Prop :=
  rets w' = rets w \/
  exists e, rets w' = e :: rets w /\ e_clock e = clock w /\ e_flag e = eflag_of w (e_note e) /\ e_exp e = eexp_of w (e_note e).
Lemma retrel_finish_wait w t l b : retrel w (finish_wait w t l b).
Proof. right. destruct b; (eexists; split; [unfold finish_wait; reflexivity|]; simpl; repeat split; destruct (w_note l); reflexivity). Qed.
Lemma retrel_ret_D w t r v k : retrel w (ret_D w t r v k).
Proof. unfold ret_D. dmatch; try (left; rewrite ?rets_ret_Notify; reflexivity); apply retrel_finish_wait. Qed.
Lemma retrel_ret_N w t r : retrel w (ret_N w t r).
Proof. unfold ret_N. dmatch; try (left; rewrite ?rets_ret_Notify; reflexivity); apply retrel_ret_D. Qed.
Lemma retrel_eq w w1 w' : clock w1 = clock w -> (forall n, flag (notes w1 n) = flag (notes w n) /\ expiry (notes w1 n) = expiry (notes w n)) ->
  rets w1 = rets w -> retrel w1 w' -> retrel w w'.
Proof.
  intros C N R [A|(e & A & B & D & E)]; [left; congruence|right]. exists e. rewrite <- R, <- C. repeat split; auto.
  - rewrite D. unfold eflag_of. destruct (e_note e); auto. apply N.
  - rewrite E. unfold eexp_of. destruct (e_note e); auto. apply N.
Qed.
Ltac retsL := left; rewrite ?rets_c_wloop, ?rets_c_tail, ?rets_ret_C, ?rets_ret_Notify; reflexivity.
Ltac feq := let m := fresh "m" in intro m; simpl; unfold fupd, nt; simpl;
  repeat match goal with |- context [Nat.eqb ?a ?b] => destruct (Nat.eqb_spec a b); subst; simpl end; auto.
Ltac retsR := first [ apply retrel_ret_D | apply retrel_ret_N | apply retrel_finish_wait
                    | (eapply retrel_eq; [ | | | first [apply retrel_ret_D | apply retrel_ret_N | apply retrel_finish_wait]]; [reflexivity | feq | reflexivity]) ].
Lemma step_core_retrel w t c : retrel w (fst (step_core w t c)).
Proof.
  unfold step_core. destruct (stack (get w t)) as [|f rest] eqn:Est; [left; reflexivity|].
  destruct f as [n s|n s par inc|n par s|n s|n|n|l s]; try (left; reflexivity).
  - destruct s; simpl; repeat (dif; simpl); try (left; reflexivity); first [retsL | retsR].
  - destruct s; simpl; repeat (dif; simpl); try (left; reflexivity); first [retsL | retsR].
  - destruct s; simpl; repeat (dif; simpl); try (left; reflexivity); retsL.
  - destruct s; simpl; repeat (dif; simpl); try (left; reflexivity); retsL.
  - destruct s; simpl; repeat (dif; simpl); try (left; reflexivity); try first [retsL | retsR].
    all: destruct (sem (get w t)); simpl; try (left; reflexivity); first [retsL | retsR].
Qed.
Lemma exec_retrel w a : retrel w (exec w a).
Proof.
  destruct a as [t c|d|o|t]; simpl; try (left; reflexivity).
  - rewrite step_eq. eapply retrel_eq; [| | |apply step_core_retrel].
    + apply clock_begin_call.
    + intro n. rewrite notes_begin_call. auto.
    + unfold begin_call. dmatch; reflexivity.
  - left. unfold env_p. dmatch; reflexivity.
Qed.
Lemma cons_neq {A} (x : A) l : l <> x :: l.
Proof. induction l as [|y l IH]; [discriminate|]. intro E. injection E as E1 E2. subst. auto. Qed.

(* the strengthened ECANCELED clause: when a wait returns ECANCELED, then IN THE STATE THE RETURNING STEP STARTED FROM the call has a
   cancel note n and nsync_note_notify (n) had been called, or the notifier of n's parent had come to n, or the clock had reached
   n's expiry.  A cancellation is never reported for a note that nobody has notified and that has not expired. *)
Lemma sw_cancel_sound w a e : reachable w -> rets (exec w a) = e :: rets w -> e_res e = ECANCELED ->
  exists n, e_note e = Some n /\ e_clock e = clock w /\ e_exp e = expiry (nt w n) /\ e_flag e = flag (nt w n) /\ justified w n.
Proof.
  intros R E C. destruct (exec_retrel w a) as [A|(e' & A & B & D & F)]; [rewrite A in E; exfalso; eapply cons_neq; eauto|].
  rewrite E in A. injection A as <-.
  assert (I0 : In e (rets (exec w a))) by (rewrite E; left; reflexivity).
  destruct (sw_reason _ e (reachable_exec w a R) I0) as (_ & _ & K). destruct (K C) as (Nn & Fl & _).
  destruct (e_note e) as [n|] eqn:En; [|congruence]. exists n. simpl in D, F. unfold nt. repeat split; auto.
  destruct Fl as [Fl|Fl].
  - apply (sw_flag_sound w n R). unfold nt. congruence.
  - right; right. rewrite <- F. pose proof (clock_nonneg w R). destruct (e_exp e) as [z|]; simpl in *; [|discriminate].
    apply Z.ltb_ge in Fl. apply Z.leb_le. lia.
Qed.
(* the same read off the log alone *)
Lemma sw_cancel_log w e : reachable w -> In e (rets w) -> e_res e = ECANCELED ->
  e_note e <> None /\ (e_flag e <> 0 \/ tle_z (e_exp e) (e_clock e) = true).
Proof.
  intros (c0 & ns & progs & sched & H0 & ->). revert e. unfold run.
  assert (G : forall sched w, reachable w -> (forall e, In e (rets w) -> e_res e = ECANCELED -> e_note e <> None /\ (e_flag e <> 0 \/ tle_z (e_exp e) (e_clock e) = true)) ->
              forall e, In e (rets (fold_left exec sched w)) -> e_res e = ECANCELED -> e_note e <> None /\ (e_flag e <> 0 \/ tle_z (e_exp e) (e_clock e) = true)).
  { induction sched0 as [|a s IH]; intros w R H; simpl; [exact H|]. apply IH; [apply reachable_exec; auto|].
    intros e I0 C. destruct (exec_retrel w a) as [A|(e' & A & B & D & F)]; [rewrite A in I0; auto|].
    rewrite A in I0. destruct I0 as [<-|I0]; [|auto].
    destruct (sw_cancel_sound w a e' R A C) as (n & En & Ec & Ee & Ef & J). split; [congruence|].
    destruct (Z.eq_dec (e_flag e') 0) as [Z0|Z0]; [right|left; exact Z0].
    assert (I1 : In e' (rets (exec w a))) by (rewrite A; left; reflexivity).
    destruct (sw_reason _ e' (reachable_exec w a R) I1) as (_ & _ & K). destruct (K C) as (_ & [Fl|Fl] & _); [congruence|].
    rewrite Ec. pose proof (clock_nonneg w R). destruct (e_exp e') as [z|]; simpl in *; [|discriminate]. apply Z.ltb_ge in Fl. apply Z.leb_le. lia. }
  apply G.
  - exists c0, ns, progs, []. split; auto.
  - intros e [].
Qed.
