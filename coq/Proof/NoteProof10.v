(* NoteProof10: C09, the loops over a note's children (note_notify_child, nsync_note_free).
   InvK (NoteProof8.v: every frame satisfies kfact) is inductive, given InvS1 in the pre-state:
   InvK_step1, InvK_begin, InvK_tick, InvK_init.
   Organisation: the frames of the other threads (InvK_other: their loop frames own the lock of the note whose children they
   visit, guard_other; the sleepers in "no children" / children_changed: step1_child_added, step1_adoptions, the contract
   p_k1), the frames of the stepping thread (step1_triv for the calls that run no loop, InvK_self_C / InvK_self_F for
   note_notify_child / nsync_note_free), and the fact that a disconnecting count is lowered only for a note that is out of
   the tree (child_disc_mono: step1_release, relstage_orphan, s_rel). *)
From Coq Require Import String.
From NsyncBase Require Import CSem.
From NsyncGen Require Import Consts Sites.
From NsyncModel Require Import NoteModel.
From NsyncProof Require Import NoteProof NoteProof2 NoteProof3 NoteProof4 NoteProof7 NoteProof8.
From Coq Require Import List ZArith Bool Lia Arith.
Import ListNotations.
Local Open Scope Z_scope.


(* ---------- lists ---------- *)
Lemma enter_hd l c x : NoDup l -> hd_error l = Some c -> In x l -> In x (c :: ofrom l (next_in l c)).
Proof.
  intros Hd Hh Hx. rewrite <- (from_hd l c Hh) in Hx. destruct (from_next l c Hd x Hx) as [->|H]; [left; reflexivity|right; exact H].
Qed.
Lemma advance l c x : NoDup l -> In x (from l c) -> In x (c :: ofrom l (next_in l c)).
Proof. intros Hd Hx. destruct (from_next l c Hd x Hx) as [->|H]; [left; reflexivity|right; exact H]. Qed.
Lemma finish_cov (P : Prop) l c nx x :
  NoDup l -> nx <> Some c -> In x (remove_nat c l) -> (P \/ In x (c :: ofrom l nx)) -> P \/ In x (ofrom (remove_nat c l) nx).
Proof.
  intros Hd Hnx Hx [H|H]; [left; exact H|right].
  assert (x <> c) as Hne by (intros ->; eapply remove_nat_notin; eauto).
  destruct H as [H|H]; [congruence|]. apply ofrom_remove; auto.
Qed.
Lemma hd_none_nil {A} (l : list A) : hd_error l = None -> l = [].
Proof. destruct l; [reflexivity|discriminate]. Qed.

(* ---------- kfact depends on the children list, the adoptions counter and the counts of the children ---------- *)
Lemma acc_keep w w' n a :
  children (nt w' n) = children (nt w n) ->
  (forall x, In x (children (nt w n)) -> (disc (nt w x) <= disc (nt w' x))%nat) -> acc w n a -> acc w' n a.
Proof.
  intros Ec Hm A x Hx. rewrite Ec in Hx. destruct (A x Hx) as [Hp|Hp]; [left|right; exact Hp].
  specialize (Hm x Hx). lia.
Qed.
Lemma kfact_keep w w' f :
  (forall n, ftarget f = Some n -> children (nt w' n) = children (nt w n) /\ (adoptions (nt w n) <= adoptions (nt w' n))%nat /\
             forall x, In x (children (nt w n)) -> (disc (nt w x) <= disc (nt w' x))%nat) ->
  kfact w f -> kfact w' f.
Proof.
  intros Hk. destruct f as [| | n par s | n s par | | | | |]; cbn [kfact]; auto.
  - destruct (Hk n eq_refl) as (Ec & _ & Hm). destruct s; auto; rewrite ?Ec; apply acc_keep; auto.
  - destruct (Hk n eq_refl) as (Ec & Ea & Hm). destruct s; auto; rewrite ?Ec; try (apply acc_keep; auto).
    intros [H1 H2]. split; [lia|]. destruct H2 as [H2|H2]; [left; eapply acc_keep; eauto|right; lia].
Qed.
Definition krel (f : frame) : bool :=
  match f with
  | FC _ _ s => match s with C5 _ _ | CR _ _ | C6 _ _ _ | C7 | C8 => true | _ => false end
  | FF _ s _ => match s with F6 _ _ | F7 _ _ | FR _ _ | F8 _ _ _ | F9 | F10 _ => true | _ => false end
  | _ => false
  end.
Lemma kfact_triv w f : krel f = false -> kfact w f.
Proof. destruct f; cbn; auto; destruct s; cbn; auto; discriminate. Qed.

Lemma kfact_dep w w' f :
  incall f -> (forall x, In x (owns f) -> prot_same (nt w' x) (nt w x)) ->
  (forall n x, ftarget f = Some n -> In x (children (nt w n)) -> (disc (nt w x) <= disc (nt w' x))%nat) ->
  kfact w f -> kfact w' f.
Proof.
  intros Hi Hp Hm. destruct (krel f) eqn:Hk; [|intros _; apply kfact_triv; exact Hk].
  apply kfact_keep. intros n Hn.
  assert (In n (owns f)) as Ho.
  { destruct f; cbn in Hi, Hn, Hk; try discriminate; inversion Hn; subst; destruct s; try contradiction; try discriminate; cbn; auto. }
  destruct (Hp n Ho) as (_ & Ec & _ & _ & Ea). split; [exact Ec|]. split; [lia|]. intros x Hx. eapply Hm; eauto.
Qed.
Lemma kfact_notes w w' f : notes w' = notes w -> kfact w f -> kfact w' f.
Proof. intros E. apply kfact_keep. intros n _. unfold nt. rewrite E. auto. Qed.

(* ---------- the counts of linked notes are not lowered ---------- *)
Section Step.
Variables (w : world) (t : nat) (c : bool).
Hypothesis C : InvC w.
Hypothesis B : broken (gh w) = false.
Hypothesis S : InvS1 w.
Let w' := fst (step1 w t c).

Lemma child_disc_mono n x : (n < nnext w)%nat -> In x (children (nt w n)) -> (disc (nt w x) <= disc (nt w' x))%nat.
Proof.
  intros Hn Hx. destruct C as (I & H & N & U). specialize (U B).
  destruct (ia_chl _ I n x Hn Hx) as [Hxl _].
  destruct (le_lt_dec (disc (nt w x)) (disc (nt w' x))) as [Hle|Hlt]; [exact Hle|exfalso].
  destruct (step1_release w t c x Hxl Hlt) as (f & Hf & Hr). apply top_In in Hf.
  pose proof (relstage_orphan w f x (iu_fr _ U _ _ Hf) (s_rel _ S _ _ Hf) Hr) as Hp.
  destruct (iu_tree _ U) as (_ & T2 & _). rewrite (T2 n x Hn Hx) in Hp. discriminate.
Qed.
Lemma adoptions_mono n : (n < nnext w)%nat -> (adoptions (nt w n) <= adoptions (nt w' n))%nat.
Proof. intros Hn. destruct (step1_adoptions w t c n) as [H|H]; [exact H|lia]. Qed.

Lemma ftarget_lt t0 g n : In g (stk w t0) -> ftarget g = Some n -> (n < nnext w)%nat.
Proof.
  intros Hg Hn. destruct C as (I & _). pose proof (ia_fok _ I _ _ Hg) as F.
  destruct g; cbn in Hn; inversion Hn; subst; cbn in F; tauto.
Qed.

(* ---------- the frames of the other threads ---------- *)
Lemma InvK_other t0 g : InvK w -> t0 <> t -> In g (stk w t0) -> kfact w' g.
Proof.
  intros K Ht Hg. pose proof (K _ _ Hg) as Kg.
  destruct C as (I & H & N & U). specialize (U B). pose proof (iu_priv _ U) as P.
  assert (forall n, ftarget g = Some n -> In n (owns g) -> prot_same (nt w' n) (nt w n)) as Keep.
  { intros n Hn Ho. apply guard_other with (t' := t0); auto.
    - apply (ih_own _ H). eapply owns_owned; eauto.
    - intros par dl p e Hf. apply top_In in Hf. eapply (p_uc _ P t _ n Hf eq_refl t0 g); eauto using ftarget_lrefs. }
  assert (forall n, ftarget g = Some n -> In n (owns g) -> kfact w' g) as Own.
  { intros n Hn Ho. apply (kfact_keep w); [|exact Kg]. intros m Hm. rewrite Hn in Hm. inversion Hm; subst m.
    destruct (Keep n Hn Ho) as (_ & Ec & _ & _ & Ea). split; [exact Ec|]. split; [lia|].
    intros x Hx. eapply child_disc_mono; eauto using ftarget_lt. }
  destruct g as [| | n par s | n s par | | | | |]; try exact Logic.I.
  - (* FC *)
    assert (s = C8 \/ In n (owns (FC n par s))) as [->|Ho] by (destruct s; cbn; auto); [|eapply Own; eauto; reflexivity].
    cbn [kfact] in *. pose proof (ftarget_lt _ _ n Hg eq_refl) as Hn.
    pose proof (ia_fok _ I _ _ Hg) as F. cbn in F. destruct F as (_ & _ & Ff & _). specialize (Ff eq_refl).
    intros x Hx. destruct (in_dec Nat.eq_dec x (children (nt w n))) as [Hold|Hnew].
    + destruct (Kg x Hold) as [Hp|[]]. left. pose proof (child_disc_mono n x Hn Hold). fold w' in H0. lia.
    + exfalso. destruct (step1_child_added w t c n x Hx Hnew) as [Hz _]. congruence.
  - (* FF *)
    assert ((exists seen, s = F10 seen) \/ krel (FF n s par) = false \/ In n (owns (FF n s par))) as [(seen & ->)|[Hk|Ho]]
      by (destruct s; cbn; eauto).
    2: apply kfact_triv; exact Hk.
    2: eapply Own; eauto; reflexivity.
    cbn [kfact] in *. pose proof (ftarget_lt _ _ n Hg eq_refl) as Hn. destruct Kg as [K1 K2].
    pose proof (adoptions_mono n Hn) as Ha. split; [lia|].
    destruct K2 as [K2|K2]; [|right; lia].
    destruct (Nat.eq_dec (adoptions (nt w' n)) (adoptions (nt w n))) as [Ea|Ea]; [left|right; lia].
    intros x Hx. destruct (in_dec Nat.eq_dec x (children (nt w n))) as [Hold|Hnew].
    + destruct (K2 x Hold) as [Hp|[]]. left. pose proof (child_disc_mono n x Hn Hold). fold w' in H0. lia.
    + exfalso. destruct (step1_child_added w t c n x Hx Hnew) as [_ [(par0 & dl & e & Hf)|[_ Hs]]].
      * (* nsync_note_new (n, ..) by t while t0 frees n: excluded by the contract *)
        apply top_In in Hf. pose proof (ia_fok _ I _ _ Hf) as F. cbn in F. destruct F as (_ & _ & _ & _ & _ & _ & ->).
        apply (p_k1 _ P t0 t n (F10 seen) par Ht Hg).
        eapply call_note_bottom; [apply (ia_shape _ I)|exact Hf|exact Logic.I|reflexivity].
      * fold w' in Hs. lia.
Qed.
End Step.

(* ---------- begin_call, tick, init ---------- *)
Lemma InvK_begin w t : InvK w -> InvK (begin_call w t).
Proof.
  intros K t0 f Hf. apply (kfact_notes w); [apply notes_begin|].
  destruct (Nat.eq_dec t0 t) as [->|Ht0].
  - destruct (begin_stack w t) as [E|[[_ E]|(_ & o & rest & _ & E & _)]]; rewrite E in Hf.
    + apply K in Hf. exact Hf.
    + destruct Hf.
    + apply kfact_triv. destruct o; cbn in Hf; repeat match goal with Hq : _ \/ _ |- _ => destruct Hq as [Hq|Hq] end; try contradiction; subst f; reflexivity.
  - destruct (to_thr _ _ _ (tonly_begin t w) t0 Ht0) as (E & _). unfold stk in Hf. rewrite E in Hf. eapply K; eauto.
Qed.
Lemma InvK_tick w d : InvK w -> InvK (tick w d).
Proof. intros K t f Hf. apply (kfact_notes w); [reflexivity|]. eapply K; eauto. Qed.
Lemma InvK_init c0 progs : InvK (init c0 progs).
Proof.
  intros t f. unfold stk, init. cbn. destruct (nth_in_or_default t (map (fun p => mk_t [] p [] 0 O false) progs) dflt) as [H|H].
  - apply in_map_iff in H. destruct H as (p & <- & _). intros [].
  - rewrite H. intros [].
Qed.


(* ---------- the stepping thread: calls that run no loop over children (every frame's kfact is True) ---------- *)
Definition plain_top (st : list frame) : Prop := match st with FC _ _ _ :: _ | FF _ _ _ :: _ => False | _ => True end.
Lemma shape_triv st : shape st -> plain_top st -> forall f, In f st -> krel f = false.
Proof.
  destruct st as [|f0 rest]; [intros _ _ f []|]. intros Sh Hp f Hf.
  destruct f0; cbn in Hp; try contradiction.
  - pose proof (shape_FD _ _ _ Sh) as Bd. unfold below_D in Bd. repeat (destruct Bd as [Bd|Bd]); destr_ex; subst rest;
      cbn [In] in Hf; repeat match goal with Hq : _ \/ _ |- _ => destruct Hq as [Hq|Hq] end; try contradiction; subst f; reflexivity.
  - pose proof (shape_FN _ _ _ _ _ Sh) as Bn. unfold below_N in Bn. destruct Bn as [Bn|Bn]; destr_ex; subst rest.
    + match goal with B' : below_D _ _ |- _ => unfold below_D in B'; repeat (destruct B' as [B'|B']); destr_ex; subst end;
        cbn [In] in Hf; repeat match goal with Hq : _ \/ _ |- _ => destruct Hq as [Hq|Hq] end; try contradiction; subst f; reflexivity.
    + cbn [In] in Hf; repeat match goal with Hq : _ \/ _ |- _ => destruct Hq as [Hq|Hq] end; try contradiction; subst f; reflexivity.
  - rewrite (shape_bottom _ _ Sh Logic.I) in Hf. destruct Hf as [<-|[]]. reflexivity.
  - rewrite (shape_bottom _ _ Sh Logic.I) in Hf. destruct Hf as [<-|[]]. reflexivity.
  - rewrite (shape_bottom _ _ Sh Logic.I) in Hf. destruct Hf as [<-|[]]. reflexivity.
  - rewrite (shape_bottom _ _ Sh Logic.I) in Hf. destruct Hf as [<-|[]]. reflexivity.
  - rewrite (shape_bottom _ _ Sh Logic.I) in Hf. destruct Hf as [<-|[]]. reflexivity.
Qed.

Lemma step1_triv w t c : shape (stk w t) -> plain_top (stk w t) -> forall f, In f (stk (fst (step1 w t c)) t) -> krel f = false.
Proof.
  intros Sh Hp. pose proof (shape_triv _ Sh Hp) as Tr.
  remember (fst (step1 w t c)) as w' eqn:Hw'. revert Hw'. unfold stk in Sh, Hp, Tr.
  leaves.
  all: intros ->; cbn [fst] in *.
  all: try (unfold stk; rewrite Hst; exact Tr).
  all: try (exfalso; exact Hp).
  all: bottom_nil Sh.
  all: rets Sh.
  all: rewrite ?stk_setst, ?stk_finish.
  all: intros f Hin; cbn [In] in Hin.
  all: try contradiction.
  all: repeat match goal with H : _ \/ _ |- _ => destruct H as [H|H] end; try contradiction.
  all: try (subst f; reflexivity).
  all: try (apply Tr; cbn [In]; tauto).
Qed.


(* ---------- the stepping thread inside note_notify_child / nsync_note_free ----------
   deep_tac: a frame deeper in the stack (a caller at CR / FR) keeps the children list of its note (it owns that note's lock and the
   step touches it only when the direct callee returns, which makes it a new frame), and its children's counts are not lowered. *)
Ltac deep_tac w t Sh Ho Kt Mono :=
    match goal with Hi : In ?f ?l |- kfact _ ?f =>
      apply (kfact_dep w); [ eapply shape_incall; [|exact Hi]; first [exact Sh | eapply shape_tail; exact Sh | eapply shape_tail; eapply shape_tail; exact Sh]
                          | | | apply Kt; cbn [In]; tauto ];
      [ let y := fresh "y" in let Hy := fresh "Hy" in intros y Hy;
        assert (In y (flat_map owns l)) as Hyl by (apply in_flat_map; exists f; split; assumption);
        unfold prot_same, nt in *; nodup_norm; nsimpl; repeat split; try reflexivity;
        exfalso; cbn [In] in *; try tauto;
        match goal with Hn : lock (notes _ ?c) = None |- _ =>
          assert (lock (notes w c) = Some t) by (apply Ho; cbn [In]; tauto); congruence end
      | let m := fresh "m" in let x := fresh "x" in let Hm := fresh "Hm" in let Hx := fresh "Hx" in
        intros m x Hm Hx; eapply Mono; [ | exact Hm | exact Hx]; cbn [In]; tauto ]
    end.

Section Self.
Variables (w : world) (t : nat) (c : bool).
Hypothesis C : InvC w.
Hypothesis B : broken (gh w) = false.
Hypothesis S : InvS1 w.
Hypothesis K : InvK w.

Lemma InvK_self_C n par s rest : stk w t = FC n par s :: rest -> forall f, In f (stk (fst (step1 w t c)) t) -> kfact (fst (step1 w t c)) f.
Proof.
  intros Hst0. destruct C as (I & H & N & U). specialize (U B). destruct U as [(T1 & T2 & T3 & T0) Fk0 D P].
  pose proof (ia_shape w I t) as Sh. pose proof (ia_fok w I t) as FkA. pose proof (Fk0 t) as Fk. pose proof (K t) as Kt.
  pose proof (s_rel _ S t) as Rt. pose proof (ih_own _ H t) as Ho. pose proof (ih_nodup _ H t) as Hd.
  assert (forall g x, In g (stk w t) -> (ncontrib g x >= 1)%nat -> (0 < disc (nt w x))%nat) as Dpos.
  { intros g x Hg Hc. pose proof (tcount_ge w t g x Hg Hc) as Hc'. destruct (D t x ltac:(lia)) as [E _]. lia. }
  assert (forall g m, In g (stk w t) -> ftarget g = Some m -> forall x, In x (children (nt w m)) -> (disc (nt w x) <= disc (nt (fst (step1 w t c)) x))%nat) as Mono.
  { intros g m Hg Hm x Hx. eapply child_disc_mono; eauto. repeat split; auto. eapply (ftarget_lt w (conj I (conj H (conj N (fun _ => mk_InvU _ (conj T1 (conj T2 (conj T3 T0))) Fk0 D P))))); eauto. }
  clear Fk0 D P K.
  remember (fst (step1 w t c)) as w' eqn:Hw'. revert Hw'. unfold owned in *. unfold stk in Sh, Fk, FkA, Kt, Rt, Ho, Hd, Dpos, Mono, Hst0.
  unfold step1, get. rewrite Hst0 in *. unfold step_C. destruct s; unfold_helpers; split_match; cbn [fst].
  all: intros ->; cbn [fst] in *.
  all: try (unfold stk; rewrite Hst0; exact Kt).
  all: rets Sh.
  all: repeat match goal with H : Some _ = Some _ |- _ => injection H as H; try subst end.
  all: rewrite ?stk_setst, ?stk_finish.
  all: intros f Hin; cbn [In] in Hin.
  all: try contradiction.
  all: repeat match goal with H : _ \/ _ |- _ => destruct H as [H|H] end; try contradiction.
  all: try (subst f).
  all: cbn [flat_map owns opt_list app] in *.
  all: repeat match goal with H : _ && _ = true |- _ => apply andb_prop in H; destruct H end.
  all: repeat match goal with H : lock_free ?w ?n = true |- _ => apply lock_free_none in H end.
  all: try solve [cbn [kfact]; exact Logic.I].
  all: try solve [deep_tac w t Sh Ho Kt Mono].
  all: try match goal with Hi : In _ ?l |- _ => is_var l; assert (l = []) by (apply (shape_bottom _ _ (shape_tail _ _ Sh) Logic.I)); subst l; destruct Hi end.
  all: try (pose proof (Kt _ (or_introl eq_refl)) as K0; cbn [kfact] in K0).
  all: try (pose proof (Kt _ (or_intror (or_introl eq_refl))) as K1; cbn [kfact] in K1).
  all: try (pose proof (Fk _ (or_introl eq_refl)) as F0; cbn [fokU] in F0).
  all: try (pose proof (Fk _ (or_intror (or_introl eq_refl))) as F1; cbn [fokU] in F1).
  all: try (pose proof (FkA _ (or_introl eq_refl)) as A0; cbn [fok] in A0).
  all: try (pose proof (FkA _ (or_intror (or_introl eq_refl))) as A1; cbn [fok] in A1).
  all: try (pose proof (Rt _ (or_introl eq_refl)) as R0; cbn [relfact] in R0).
  all: try (pose proof (Dpos _ n (or_intror (or_introl eq_refl))) as D1; cbn [ncontrib] in D1; rewrite Nat.eqb_refl in D1; cbn in D1).
  all: clear Kt Fk FkA Rt Mono Dpos Sh Ho Hd.
  all: destr_ex.
  all: repeat match goal with F : child_ok _ _ _ _ |- _ => destruct F as (? & ? & ?) end.
  all: repeat match goal with H : hd_error _ = _ |- _ => progress hyp_ns H end.
  all: repeat match goal with H : no_children _ _ = _ |- _ => unfold no_children in H; hyp_ns H end.
  all: repeat match goal with H : (disc _ =? 0)%nat = _ |- _ => progress hyp_ns H end.
  all: cbn [kfact]; unfold acc in *; intros y Hy; unfold nt in *; revert Hy; nsimpl; intros Hy.
  all: match goal with
       | Hy : In ?y (remove_nat _ (children (notes w ?m))) |- _ => pose proof (remove_nat_incl _ _ _ Hy) as Hy'
       | Hy : In ?y (children (notes w ?m)) |- _ => pose proof Hy as Hy' end.
  all: match type of Hy' with In ?y (children (notes w ?m)) =>
         assert (m < nnext w)%nat as Hm by assumption;
         pose proof (T2 m y Hm Hy') as Py; destruct (ia_chl _ I m y Hm Hy') as [Hyl _]; pose proof (T0 y m Hyl Py) as Ly;
         pose proof (T3 m Hm) as Nd;
         try match goal with Kx : forall c, In c (children (notes w m)) -> _ |- _ => pose proof (Kx y Hy') as Ky end end.
  all: try solve [exfalso; lia].
  all: try solve [exfalso; destr_ex; congruence].
  all: try solve [destruct Ky as [Ky|Ky]; [left; lia | right; exact Ky]].
  all: try solve [destruct Ky as [Ky|[]]; left; lia].
  all: try solve [destruct Ky as [Ky|[Ky|Ky]]; [left; lia | subst; left; first [apply D1; lia | lia | (match goal with Hq : (?a =? 0)%nat = false |- _ => apply Nat.eqb_neq in Hq; lia end)] | right; exact Ky]].
  all: try solve [right; eapply enter_hd; eauto].
  all: try solve [destruct Ky as [Ky|Ky]; [left; lia | right; apply advance; [exact Nd | exact Ky]]].
  all: try solve [apply finish_cov; [exact Nd | tauto | exact Hy | exact Ky]].
  all: try solve [exfalso; match goal with Hq : hd_error ?l = None |- _ => rewrite (hd_none_nil _ Hq) in Hy'; exact Hy' end].
  all: try solve [left; match goal with Hq : disc _ <> 0%nat |- _ => rewrite Nat.eqb_refl in Hq; cbn in Hq; lia end].
Qed.

Lemma InvK_self_F n s par rest : stk w t = FF n s par :: rest -> forall f, In f (stk (fst (step1 w t c)) t) -> kfact (fst (step1 w t c)) f.
Proof.
  intros Hst0. destruct C as (I & H & N & U). specialize (U B). destruct U as [(T1 & T2 & T3 & T0) Fk0 D P].
  pose proof (ia_shape w I t) as Sh. pose proof (ia_fok w I t) as FkA. pose proof (Fk0 t) as Fk. pose proof (K t) as Kt.
  pose proof (s_rel _ S t) as Rt.
  clear Fk0 D P K.
  remember (fst (step1 w t c)) as w' eqn:Hw'. revert Hw'. unfold stk in Sh, Fk, FkA, Kt, Rt, Hst0.
  unfold step1, get. rewrite Hst0 in *. unfold step_F. destruct s; unfold_helpers; split_match; cbn [fst].
  all: intros ->; cbn [fst] in *.
  all: try (unfold stk; rewrite Hst0; exact Kt).
  all: bottom_nil Sh.
  all: rewrite ?stk_setst, ?stk_finish.
  all: intros f Hin; cbn [In] in Hin.
  all: try contradiction.
  all: repeat match goal with H : _ \/ _ |- _ => destruct H as [H|H] end; try contradiction.
  all: try (subst f).
  all: repeat match goal with H : _ && _ = true |- _ => apply andb_prop in H; destruct H end.
  all: repeat match goal with H : lock_free ?w ?n = true |- _ => apply lock_free_none in H end.
  all: try solve [cbn [kfact]; exact Logic.I].
  all: try match goal with Hi : In _ ?l |- _ => is_var l; assert (l = []) by (apply (shape_bottom _ _ (shape_tail _ _ Sh) Logic.I)); subst l; destruct Hi end.
  all: try (pose proof (Kt _ (or_introl eq_refl)) as K0; cbn [kfact] in K0).
  all: try (pose proof (Kt _ (or_intror (or_introl eq_refl))) as K1; cbn [kfact] in K1).
  all: try (pose proof (Fk _ (or_introl eq_refl)) as F0; cbn [fokU] in F0).
  all: try (pose proof (Fk _ (or_intror (or_introl eq_refl))) as F1; cbn [fokU] in F1).
  all: try (pose proof (FkA _ (or_introl eq_refl)) as A0; cbn [fok] in A0).
  all: try (pose proof (FkA _ (or_intror (or_introl eq_refl))) as A1; cbn [fok] in A1).
  all: try (pose proof (Rt _ (or_introl eq_refl)) as R0; cbn [relfact] in R0).
  all: clear Kt Fk FkA Rt Sh.
  all: destr_ex.
  all: try match goal with F : forall p, Some ?q = Some p -> parent (nt w ?n) = Some p |- _ => assert (q < n)%nat by (apply (T0 n q); [assumption | apply F; reflexivity]) end.
  all: try match goal with |- kfact _ (FF _ (F10 _) _) => cbn [kfact]; split; [unfold nt; nsimpl; lia | left] end.
  all: repeat match goal with F : child_ok _ _ _ _ |- _ => destruct F as (? & ? & ?) end.
  all: repeat match goal with H : hd_error _ = _ |- _ => progress hyp_ns H end.
  all: repeat match goal with H : no_children _ _ = _ |- _ => unfold no_children in H; hyp_ns H end.
  all: repeat match goal with H : (disc _ =? 0)%nat = _ |- _ => progress hyp_ns H end.
  all: cbn [kfact]; unfold acc in *; intros y Hy; unfold nt in *; revert Hy; nsimpl; intros Hy.
  all: try match goal with
       | Hy : In ?y (remove_nat _ (children (notes w ?m))) |- _ => pose proof (remove_nat_incl _ _ _ Hy) as Hy'
       | Hy : In ?y (children (notes w ?m)) |- _ => pose proof Hy as Hy' end.
  all: try match type of Hy' with In ?y (children (notes w ?m)) =>
         assert (m < nnext w)%nat as Hm by assumption;
         pose proof (T2 m y Hm Hy') as Py; destruct (ia_chl _ I m y Hm Hy') as [Hyl _]; pose proof (T0 y m Hyl Py) as Ly;
         pose proof (T3 m Hm) as Nd;
         try match goal with Kx : forall c, In c (children (notes w m)) -> _ |- _ => pose proof (Kx y Hy') as Ky end end.
  all: try solve [exfalso; lia].
  all: try solve [exfalso; destr_ex; congruence].
  all: try solve [destruct Ky as [Ky|Ky]; [left; lia | right; exact Ky]].
  all: try solve [destruct Ky as [Ky|[]]; left; lia].
  all: try solve [destruct Ky as [Ky|[Ky|Ky]]; [left; lia | subst; left; first [apply D1; lia | lia | (match goal with Hq : (?a =? 0)%nat = false |- _ => apply Nat.eqb_neq in Hq; lia end)] | right; exact Ky]].
  all: try solve [right; eapply enter_hd; eauto].
  all: try solve [destruct Ky as [Ky|Ky]; [left; lia | right; apply advance; [exact Nd | exact Ky]]].
  all: try solve [apply finish_cov; [exact Nd | tauto | exact Hy | exact Ky]].
  all: try solve [exfalso; match goal with Hq : hd_error ?l = None |- _ => rewrite (hd_none_nil _ Hq) in Hy'; exact Hy' end].
  all: try solve [left; match goal with Hq : disc _ <> 0%nat |- _ => rewrite Nat.eqb_refl in Hq; cbn in Hq; lia end].
Qed.
End Self.

Lemma InvK_step1 w t c : InvC w -> broken (gh w) = false -> InvS1 w -> InvK w -> InvK (fst (step1 w t c)).
Proof.
  intros C B S K t0 f Hf. pose proof C as (I & _).
  destruct (Nat.eq_dec t0 t) as [->|Ht0].
  - destruct (stk w t) as [|f0 rest] eqn:Hst.
    + rewrite (step1_idle w t c Hst), Hst in Hf. destruct Hf.
    + assert (plain_top (stk w t) \/ (exists n par s, f0 = FC n par s) \/ (exists n s par, f0 = FF n s par)) as [Hp|[(n & par & s & ->)|(n & s & par & ->)]]
        by (rewrite Hst; destruct f0; cbn; eauto 6).
      * apply kfact_triv. eapply step1_triv; eauto using ia_shape.
      * eapply InvK_self_C; eauto.
      * eapply InvK_self_F; eauto.
  - rewrite (stk_other _ _ _ _ (step1_ext w t c) Ht0) in Hf. eapply InvK_other; eauto.
Qed.

Print Assumptions InvK_step1.
Print Assumptions InvK_begin.
Print Assumptions InvK_tick.
Print Assumptions InvK_init.
