(* C17 — definitions used to state that internal/dll.c implements sequences.
   No proofs in this file.  The heap is the one gen/c2coq.py threads through
   the translated functions of Gen/Dll.v: a total map from addresses to cells. *)
From NsyncBase Require Import CSem.
From NsyncGen Require Import Dll.
Local Open Scope Z_scope.

Notation heap := (Z -> nsync_dll_element_s_).
Definition nx (h : heap) (a : Z) : Z := nsync_dll_element_s__next (h a).
Definition pv (h : heap) (a : Z) : Z := nsync_dll_element_s__prev (h a).

(* seg h a xs b : a -> xs... -> b is a doubly linked path *)
Fixpoint seg (h : heap) (a : Z) (xs : list Z) (b : Z) : Prop :=
  match xs with
  | [] => nx h a = b /\ pv h b = a
  | x :: t => nx h a = x /\ pv h x = a /\ seg h x t b
  end.

(* xs, read cyclically, is a circular doubly linked list of distinct non-NULL cells *)
Definition ring (h : heap) (xs : list Z) : Prop :=
  match xs with [] => False | x :: t => seg h x t x end /\ NoDup xs /\ ~ In 0 xs.

(* the list pointer l (= last element, NULL when empty) represents the sequence s *)
Definition lrep (h : heap) (l : Z) (s : list Z) : Prop :=
  match s with [] => l = 0 | _ :: _ => l = last s 0 /\ ring h s end.

Definition disjoint (xs ys : list Z) : Prop := forall a, In a xs -> ~ In a ys.
(* h' differs from h at most on the cells in xs *)
Definition frame (h h' : heap) (xs : list Z) : Prop := forall a, ~ In a xs -> h' a = h a.

(* traversal by the real iteration functions, with fuel (the theorems fix fuel = length) *)
Fixpoint walk_next (h : heap) (l : Z) (e : Z) (fuel : nat) : list Z :=
  match fuel with
  | O => []
  | S f => if e =? 0 then [] else e :: walk_next h l (nsync_dll_next_ h l e) f
  end.
Fixpoint walk_prev (h : heap) (l : Z) (e : Z) (fuel : nat) : list Z :=
  match fuel with
  | O => []
  | S f => if e =? 0 then [] else e :: walk_prev h l (nsync_dll_prev_ h l e) f
  end.
Definition traverse_fwd (h : heap) (l : Z) (fuel : nat) := walk_next h l (nsync_dll_first_ h l) fuel.
Definition traverse_bwd (h : heap) (l : Z) (fuel : nat) := walk_prev h l (nsync_dll_last_ l) fuel.

(* ---------- a whole-program view: several lists, arbitrary operation sequences ---------- *)
(* state: for each list index its pointer (concrete) and its sequence (abstract).
   A free element e is the list (e, [e]). *)
Definition lists := list (Z * list Z).

Inductive op :=
| OpFirst (i j : nat)        (* list i := list j ++ list i (make_first_in_list (l_i, first of j)); j becomes empty *)
| OpLast (i j : nat)         (* list i := list i ++ list j (make_last_in_list (l_i, last of j));  j becomes empty *)
| OpRemove (i : nat) (k : nat)   (* remove the k-th element of list i; it becomes a new singleton list at the end *)
| OpSplice (i : nat) (k : nat) (j : nat). (* splice_after (k-th element of list i, first of list j), k not the last of i *)

Definition nth_list (st : lists) (i : nat) : Z * list Z := nth i st (0, []).
Definition set_list (st : lists) (i : nat) (v : Z * list Z) : lists :=
  firstn i st ++ v :: skipn (S i) st.

(* executable precondition *)
Definition op_ok (st : lists) (o : op) : bool :=
  match o with
  | OpFirst i j | OpLast i j =>
      Nat.ltb i (length st) && Nat.ltb j (length st) && negb (Nat.eqb i j) &&
      negb (Nat.eqb (length (snd (nth_list st j))) 0)
  | OpRemove i k => Nat.ltb i (length st) && Nat.ltb k (length (snd (nth_list st i)))
  | OpSplice i k j =>
      Nat.ltb i (length st) && Nat.ltb j (length st) && negb (Nat.eqb i j) &&
      Nat.ltb (S k) (length (snd (nth_list st i))) && negb (Nat.eqb (length (snd (nth_list st j))) 0)
  end.

(* abstract effect on the sequences *)
Definition op_spec (st : list (list Z)) (o : op) : list (list Z) :=
  let g i := nth i st [] in
  let set st i v := firstn i st ++ v :: skipn (S i) st in
  match o with
  | OpFirst i j => set (set st i (g j ++ g i)) j []
  | OpLast i j => set (set st i (g i ++ g j)) j []
  | OpRemove i k => set st i (firstn k (g i) ++ skipn (S k) (g i)) ++ [[nth k (g i) 0]]
  | OpSplice i k j => set (set st i (firstn (S k) (g i) ++ g j ++ skipn (S k) (g i))) j []
  end.

(* concrete effect: run the translated C functions; pointers come from the code *)
Definition op_impl (h : heap) (st : lists) (o : op) : heap * lists :=
  match o with
  | OpFirst i j =>
      let '(li, si) := nth_list st i in let '(lj, sj) := nth_list st j in
      let '(l', h') := nsync_dll_make_first_in_list_ h li (nsync_dll_first_ h lj) in
      (h', set_list (set_list st i (l', sj ++ si)) j (0, []))
  | OpLast i j =>
      let '(li, si) := nth_list st i in let '(lj, sj) := nth_list st j in
      let '(l', h') := nsync_dll_make_last_in_list_ h li (nsync_dll_last_ lj) in
      (h', set_list (set_list st i (l', si ++ sj)) j (0, []))
  | OpRemove i k =>
      let '(li, si) := nth_list st i in
      let e := nth k si 0 in
      let '(l', h') := nsync_dll_remove_ h li e in
      (h', set_list st i (l', firstn k si ++ skipn (S k) si) ++ [(e, [e])])
  | OpSplice i k j =>
      let '(li, si) := nth_list st i in let '(lj, sj) := nth_list st j in
      let h' := nsync_dll_splice_after_ h (nth k si 0) (nsync_dll_first_ h lj) in
      (h', set_list (set_list st i (li, firstn (S k) si ++ sj ++ skipn (S k) si)) j (0, []))
  end.

Fixpoint run (h : heap) (st : lists) (ops : list op) : option (heap * lists) :=
  match ops with
  | [] => Some (h, st)
  | o :: rest => if op_ok st o then let '(h', st') := op_impl h st o in run h' st' rest else None
  end.

(* the representation invariant for the whole state *)
Definition srep (h : heap) (st : lists) : Prop :=
  Forall (fun p => lrep h (fst p) (snd p)) st /\ NoDup (concat (map snd st)).
