(* MuWaitBits: the effect of every value that Model/MuWaitModel.v writes to the mutex word on the two bits
   MU_CONDITION (bit 4) and MU_ALL_FALSE (bit 7).

   Part A  a toolkit for one bit k (2 <= k <= 7) of a 32-bit word: how the C operators used in mu.c / mu_wait.c
           (|, & ~c, +1, -1, +256, -256, -255, +3, all wrapped to 32 bits) act on it
           (generalises Part 7 of MuWaitProof.v, which does bit 7 only).
   Part B  site by site: every _new expression of Gen/Sites.v that the model writes, through the readable normal
           forms (the _eq lemmas) of MuWaitProof.v, under the preconditions step_thr_ok has at that site.
   Part C  finalize (clear_on_release) and the set_on_release values produced by the scan. *)
From NsyncBase Require Import CSem.
From NsyncGen Require Import Consts Sites.
From NsyncModel Require Import MuWaitModel MuWaitSpec.
From NsyncProof Require Import WordView MuWaitProof.
From Coq Require Import List ZArith Bool Lia PeanoNat.
Import ListNotations.
Local Open Scope Z_scope.
Ltac Zify.zify_post_hook ::= Z.div_mod_to_equations.

(* ================================================================== *)
(* Part A: one bit of the word                                         *)
(* ================================================================== *)
Definition tb (k x : Z) : bool := Z.testbit x k.

Lemma has_tb k x : 0 <= k -> has x (2 ^ k) = tb k x.
Proof.
  intros Hk. unfold has, band, tb.
  assert (Z.land x (2 ^ k) = if Z.testbit x k then 2 ^ k else 0) as E.
  { apply Z.bits_inj'. intros i Hi. rewrite Z.land_spec, Z.pow2_bits_eqb by lia.
    destruct (Z.eqb_spec k i) as [<-|N].
    - rewrite andb_true_r. destruct (Z.testbit x k) eqn:T; [symmetry; apply Z.pow2_bits_true; lia | symmetry; apply Z.bits_0].
    - rewrite andb_false_r. destruct (Z.testbit x k); [symmetry; apply Z.pow2_bits_false; lia | symmetry; apply Z.bits_0]. }
  rewrite E. destruct (Z.testbit x k); [| reflexivity].
  assert (0 < 2 ^ k) by (apply Z.pow_pos_nonneg; lia).
  destruct (Z.eqb_spec (2 ^ k) 0); [lia | reflexivity].
Qed.
Lemma hasC x : has x MU_CONDITION = tb 4 x.
Proof. apply (has_tb 4). lia. Qed.
Lemma hasA x : has x MU_ALL_FALSE = tb 7 x.
Proof. apply (has_tb 7). lia. Qed.
Lemma tb7_af x : tb 7 x = af x.
Proof. reflexivity. Qed.

Lemma tb_wrap k y : 0 <= k < 32 -> tb k (wrap_u 32 y) = tb k y.
Proof. intros Hk. unfold tb, wrap_u. apply Z.mod_pow2_bits_low. lia. Qed.
Lemma tb_land k x m : tb k (Z.land x m) = tb k x && tb k m.   Proof. apply Z.land_spec. Qed.
Lemma tb_lor k x m : tb k (Z.lor x m) = tb k x || tb k m.     Proof. apply Z.lor_spec. Qed.
Lemma tb_compl k c : 0 <= k < 32 -> 0 <= c < 4294967296 -> tb k (4294967295 - c) = negb (tb k c).
Proof.
  intros Hk R. unfold tb. change 4294967295 with (Z.ones 32).
  rewrite Z.sub_nocarry_ldiff.
  - rewrite Z.ldiff_spec, Z.ones_spec_low by lia. reflexivity.
  - apply Z.bits_inj'. intros i Hi. rewrite Z.ldiff_spec, Z.bits_0.
    destruct (Z.ltb_spec i 32).
    + rewrite Z.ones_spec_low by lia. apply andb_false_r.
    + rewrite (Z.bits_above_log2 c i); [reflexivity | lia |].
      destruct (Z.eq_dec c 0) as [->|]; [cbn; lia|].
      assert (Z.log2 c < 32) by (apply Z.log2_lt_pow2; lia). lia.
Qed.
Lemma tb_wrap_compl k c : 0 <= k < 32 -> tb k (4294967295 - wrap_u 32 c) = negb (tb k c).
Proof. intros Hk. rewrite tb_compl by (try apply wrap32_rng; lia). now rewrite tb_wrap. Qed.
(* an inner wrap under an addition is invisible below bit 32 *)
Lemma tb_wrap_add k y d : 0 <= k < 32 -> tb k (wrap_u 32 y + d) = tb k (y + d).
Proof.
  intros Hk. rewrite <- (tb_wrap k (wrap_u 32 y + d)), <- (tb_wrap k (y + d)) by assumption.
  unfold wrap_u. now rewrite Z.add_mod_idemp_l by (apply Z.pow_nonzero; lia).
Qed.

(* arithmetic on the lock fields (bit 0, bits 8..31) and on the spinlock bit keeps bit k, 2 <= k <= 7 *)
Ltac kcases k :=
  let KK := fresh "KK" in
  assert (k = 2 \/ k = 3 \/ k = 4 \/ k = 5 \/ k = 6 \/ k = 7) as KK by lia;
  destruct KK as [-> | [-> | [-> | [-> | [-> | ->]]]]].
Ltac pow2 :=
  repeat match goal with |- context [2 ^ ?n] => let v := eval vm_compute in (2 ^ n) in change (2 ^ n) with v end.
Ltac tb_arith k := unfold tb, b1 in *; kcases k; rewrite !Z.testbit_eqb by lia; pow2; f_equal; lia.

Lemma tb_add1 k x : 2 <= k <= 7 -> x mod 2 = 0 -> tb k (x + 1) = tb k x.
Proof. intros Hk H. tb_arith k. Qed.
Lemma tb_sub1 k x : 2 <= k <= 7 -> x mod 2 = 1 -> tb k (x - 1) = tb k x.
Proof. intros Hk H. tb_arith k. Qed.
Lemma tb_add256 k x : 2 <= k <= 7 -> tb k (x + 256) = tb k x.
Proof. intros Hk. tb_arith k. Qed.
Lemma tb_sub256 k x : 2 <= k <= 7 -> tb k (x - 256) = tb k x.
Proof. intros Hk. tb_arith k. Qed.
Lemma tb_sub255 k x : 2 <= k <= 7 -> x mod 2 = 0 -> tb k (x - 255) = tb k x.
Proof. intros Hk H. tb_arith k. Qed.
Lemma tb_add3 k x : 2 <= k <= 7 -> x mod 2 = 0 -> b1 x = 0 -> tb k (x + 1 + 2) = tb k x.
Proof. intros Hk H B. tb_arith k. Qed.

(* normalisation of a site expression down to bits of [old] and of constants *)
Ltac tb_norm :=
  repeat first
   [ rewrite tb_wrap by lia
   | rewrite tb_land
   | rewrite tb_lor
   | rewrite tb_wrap_compl by lia
   | rewrite tb_compl by lia ].
Ltac tb_const :=
  repeat match goal with |- context [tb ?k ?c] =>
    let v := eval vm_compute in (tb k c) in
    match v with
    | true => change (tb k c) with true
    | false => change (tb k c) with false
    end
  end.
Ltac tb_fin :=
  tb_norm; tb_const; cbn [negb andb orb];
  rewrite ?andb_true_r, ?andb_false_r, ?orb_false_r, ?orb_true_r; cbn [negb andb orb]; try reflexivity.

(* ================================================================== *)
(* Part B: the sites                                                   *)
(* ================================================================== *)
Definition keeps (old new : Z) : Prop :=
  has new MU_CONDITION = has old MU_CONDITION /\ has new MU_ALL_FALSE = has old MU_ALL_FALSE.
Definition keepsC_clearsA (old new : Z) : Prop :=
  has new MU_CONDITION = has old MU_CONDITION /\ has new MU_ALL_FALSE = false.

Ltac start := unfold keeps, keepsC_clearsA; rewrite ?hasC, ?hasA.

(* ----- lock / rlock / trylock / rtrylock ----- *)
Lemma bits_fast_new m : keeps 0 (fast_new m).
Proof. destruct m; split; reflexivity. Qed.
Lemma bits_try_new m : keeps 0 (try_new m).
Proof. destruct m; split; reflexivity. Qed.

Lemma bits_acq_shape m old : old mod 2 = 0 ->
  let y := wrap_u 32 (Z.land (wrap_u 32 (old + match m with W => 1 | R => 256 end)) (4294967295 - match m with W => 32 | R => 0 end)) in
  tb 4 y = tb 4 old /\ tb 7 y = tb 7 old.
Proof.
  intros E. cbv zeta. destruct m; cbv beta iota; split; tb_fin;
    first [apply tb_add1; [lia | assumption] | apply tb_add256; lia].
Qed.
Lemma bits_fast_new2 m old : rng old -> fast_guard2 m old = true -> keeps old (fast_new2 m old).
Proof.
  intros R G. pose proof (fast_guard2_even m old R G) as E. start. rewrite fast_new2_eq. now apply bits_acq_shape.
Qed.
Lemma bits_try_new2 m old : rng old -> try_guard2 m old = true -> keeps old (try_new2 m old).
Proof.
  intros R G. pose proof (try_guard2_even m old R G) as E. start. rewrite try_new2_eq. now apply bits_acq_shape.
Qed.

(* ----- nsync_mu_lock_slow_ ----- *)
Lemma bits_lock_slow_cas1 m l old : rng old -> lsl_ok m l -> nsync_mu_lock_slow_cas1_guard old (zta l) = true ->
  keeps old (nsync_mu_lock_slow_cas1_new old (lt_of m) (clr l) (longw l)).
Proof.
  intros R Hl G. pose proof (ls_cas1_even m l old Hl G) as E. destruct Hl as (_ & Hc & Hw).
  start. rewrite lock_slow_cas1_new_eq.
  destruct Hc as [-> | ->], Hw as [-> | ->], m; cbv beta iota; split; tb_fin;
    first [apply tb_add1; [lia | assumption] | apply tb_add256; lia].
Qed.
Lemma bits_lock_slow_cas2 m l old : rng old -> lsl_ok m l ->
  keepsC_clearsA old (nsync_mu_lock_slow_cas2_new old (longw l) (lt_of m) (clr l)).
Proof.
  intros R (_ & Hc & Hw). start. rewrite lock_slow_cas2_new_eq.
  destruct Hc as [-> | ->], Hw as [-> | ->], m; cbv beta iota; split; tb_fin.
Qed.

(* ----- mu_release_spinlock, nsync_spin_test_and_set_ ----- *)
Lemma bits_release_spinlock old : rng old -> keeps old (mu_release_spinlock_cas1_new old).
Proof. intros R. start. rewrite release_spinlock_new_eq. split; tb_fin. Qed.
Lemma bits_spin_scan old : rng old -> keeps old (nsync_spin_test_and_set_cas1_new old MU_SPINLOCK 0).
Proof. intros R. start. rewrite spin_tas_new_eq. split; tb_fin. Qed.
Lemma bits_spin_wait old (c : cond) : rng old ->
  let st := bor (bor MU_SPINLOCK MU_WAITING) (match c with Some _ => MU_CONDITION | None => 0 end) in
  has (nsync_spin_test_and_set_cas1_new old st MU_ALL_FALSE) MU_CONDITION =
    (has old MU_CONDITION || match c with Some _ => true | None => false end)
  /\ has (nsync_spin_test_and_set_cas1_new old st MU_ALL_FALSE) MU_ALL_FALSE = false.
Proof.
  intros R. cbv zeta. start. rewrite spin_tas_new_eq. unfold bor.
  destruct c; cbv beta iota; split; tb_fin.
Qed.

(* ----- nsync_mu_unlock / nsync_mu_runlock / nsync_mu_unlock_without_wakeup ----- *)
Lemma bits_ufast m : keeps (ufast_old m) (ufast_new m).
Proof. destruct m; split; reflexivity. Qed.
Lemma bits_uwfast : keeps nsync_mu_unlock_without_wakeup_cas1_old nsync_mu_unlock_without_wakeup_cas1_new.
Proof. split; reflexivity. Qed.
Lemma bits_unlock_new2_W old : rng old -> old mod 2 = 1 -> keepsC_clearsA old (unlock_new2 W old).
Proof. intros R H. start. rewrite unlock_new2_eq. split; tb_fin. apply tb_sub1; [lia | assumption]. Qed.
Lemma bits_unlock_new2_R old : rng old -> 1 <= old / 256 -> keeps old (unlock_new2 R old).
Proof. intros R H. start. rewrite unlock_new2_eq. split; tb_fin; apply tb_sub256; lia. Qed.
Lemma bits_uw_new2 old : rng old -> old mod 2 = 1 -> keeps old (nsync_mu_unlock_without_wakeup_cas2_new old).
Proof. intros R H. start. rewrite uw_new2_eq. split; tb_fin; apply tb_sub1; (lia || assumption). Qed.

(* ----- nsync_mu_unlock_slow_ ----- *)
Lemma bits_unlock_slow_cas1_W old : rng old -> old mod 2 = 1 ->
  keepsC_clearsA old (nsync_mu_unlock_slow_cas1_new old (lt_of W)).
Proof. intros R H. start. rewrite unlock_slow_cas1_new_eq. split; tb_fin. apply tb_sub1; [lia | assumption]. Qed.
Lemma bits_unlock_slow_cas1_R old : rng old -> 1 <= old / 256 ->
  keeps old (nsync_mu_unlock_slow_cas1_new old (lt_of R)).
Proof. intros R H. start. rewrite unlock_slow_cas1_new_eq. split; tb_fin; apply tb_sub256; lia. Qed.

Lemma early_of_Wt : early_of W true = 0.    Proof. reflexivity. Qed.
Lemma early_of_Wf : early_of W false = 1.   Proof. reflexivity. Qed.
Lemma early_of_Rt : early_of R true = 255.  Proof. reflexivity. Qed.
Lemma early_of_Rf : early_of R false = 256. Proof. reflexivity. Qed.
Lemma bits_unlock_slow_cas2 m testing old : rng old ->
  match m with W => old mod 2 = 1 | R => 1 <= old / 256 /\ old mod 2 = 0 end ->
  keeps old (nsync_mu_unlock_slow_cas2_new old (early_of m testing)).
Proof.
  intros R H. start. rewrite unlock_slow_cas2_new_eq.
  destruct m, testing; rewrite ?early_of_Wt, ?early_of_Wf, ?early_of_Rt, ?early_of_Rf; split; tb_fin.
  - now rewrite Z.sub_0_r.
  - now rewrite Z.sub_0_r.
  - apply tb_sub1; [lia | assumption].
  - apply tb_sub1; [lia | assumption].
  - apply tb_sub255; [lia | apply H].
  - apply tb_sub255; [lia | apply H].
  - apply tb_sub256; lia.
  - apply tb_sub256; lia.
Qed.
(* the same with the expression the model uses for early_release_mu, literally *)
Lemma bits_unlock_slow_cas2' m (testing : bool) old : rng old ->
  match m with W => old mod 2 = 1 | R => 1 <= old / 256 /\ old mod 2 = 0 end ->
  keeps old (nsync_mu_unlock_slow_cas2_new old
               (if testing then wrap_u 32 (lt_add_to_acquire (lt_of m) - MU_WLOCK) else lt_add_to_acquire (lt_of m))).
Proof. exact (bits_unlock_slow_cas2 m testing old). Qed.

(* the last CAS of the slow path: (old - late | set_on) & ~clear_on *)
Lemma bits_cas3_gen u old : rng old -> usl_ok u -> (late u = MU_WLOCK -> old mod 2 = 1) ->
  has (nsync_mu_unlock_slow_cas3_new old (late u) (set_on u) (clear_on u)) MU_CONDITION =
    ((has old MU_CONDITION || has (set_on u) MU_CONDITION) && negb (has (clear_on u) MU_CONDITION))
  /\ has (nsync_mu_unlock_slow_cas3_new old (late u) (set_on u) (clear_on u)) MU_ALL_FALSE =
    ((has old MU_ALL_FALSE || has (set_on u) MU_ALL_FALSE) && negb (has (clear_on u) MU_ALL_FALSE)).
Proof.
  intros R (L & _ & [[Sc _] _]) HW. start. rewrite unlock_slow_cas3_new_eq.
  assert (0 <= clear_on u < 4294967296) as Rc by lia.
  assert (forall k, 2 <= k <= 7 -> tb k (old - late u) = tb k old) as E.
  { intros k Hk. destruct L as [L | L]; rewrite L.
    - now rewrite Z.sub_0_r.
    - change MU_WLOCK with 1. apply tb_sub1; [assumption | now apply HW]. }
  split; tb_norm; rewrite E by lia; reflexivity.
Qed.
Lemma bits_cas3 u old : rng old -> usl_ok u -> (late u = MU_WLOCK -> old mod 2 = 1) -> has (set_on u) MU_CONDITION = false ->
  has (nsync_mu_unlock_slow_cas3_new old (late u) (set_on u) (clear_on u)) MU_CONDITION =
    (has old MU_CONDITION && negb (has (clear_on u) MU_CONDITION))
  /\ has (nsync_mu_unlock_slow_cas3_new old (late u) (set_on u) (clear_on u)) MU_ALL_FALSE =
    ((has old MU_ALL_FALSE || has (set_on u) MU_ALL_FALSE) && negb (has (clear_on u) MU_ALL_FALSE)).
Proof.
  intros R Hu HW HS. destruct (bits_cas3_gen u old R Hu HW) as [A B]. split; [| exact B].
  rewrite A, HS, orb_false_r. reflexivity.
Qed.

(* ----- nsync_mu_wait_with_deadline ----- *)
Lemma bits_mw_cas1 m old add : rng old -> match m with W => old mod 2 = 1 | R => 1 <= old / 256 end ->
  (add = 0 \/ add = lt_add_to_acquire (lt_of m)) -> keeps old (nsync_mu_wait_with_deadline_cas1_new old add).
Proof.
  intros R H A. start. rewrite mw_cas1_new_eq. destruct A as [-> | ->].
  - rewrite Z.sub_0_r. split; tb_fin.
  - destruct m.
    + change (lt_add_to_acquire (lt_of W)) with 1. split; tb_fin; apply tb_sub1; (lia || assumption).
    + change (lt_add_to_acquire (lt_of MuWaitModel.R)) with 256. split; tb_fin; apply tb_sub256; lia.
Qed.

(* ----- mu_try_acquire_after_timeout_or_cancel ----- *)
Lemma bits_mt_cas1 old : try_ok old -> keeps old (mu_try_acquire_after_timeout_or_cancel_cas1_new old).
Proof.
  intros (R & E & B & D). start. rewrite mt_cas1_new_eq.
  split; tb_norm; rewrite tb_wrap_add by lia; tb_fin; apply tb_add3; (lia || assumption).
Qed.
Lemma bits_mt_cas2 old : rng old -> keeps old (mu_try_acquire_after_timeout_or_cancel_cas2_new old).
Proof. intros R. start. rewrite mt_cas2_new_eq. split; tb_fin. Qed.
Lemma bits_mt_store2 old m : try_ok old -> keeps old (mu_try_acquire_after_timeout_or_cancel_store2_new old (lt_of m)).
Proof.
  intros (R & E & B & D). start. rewrite mt_store2_new_eq.
  assert (Z.land old (4294967295 - 32) mod 2 = 0) as E' by (rewrite land_mod2, E; reflexivity).
  destruct m; split; rewrite tb_wrap, tb_wrap_add by lia.
  - rewrite tb_add1 by (lia || assumption). tb_fin.
  - rewrite tb_add1 by (lia || assumption). tb_fin.
  - rewrite tb_add256 by lia. tb_fin.
  - rewrite tb_add256 by lia. tb_fin.
Qed.
Lemma bits_mt_store3 old : try_ok old -> keeps old (mu_try_acquire_after_timeout_or_cancel_store3_new old).
Proof. intros (R & _). start. rewrite mt_store3_new_eq. split; tb_fin. Qed.

(* ================================================================== *)
(* Part C: finalize and the scan's set_on_release                      *)
(* ================================================================== *)
Lemma bits_finalize_clear w m u :
  match snd (finalize w m u) with
  | UsRelLoad _ f _ =>
      (has (clear_on f) MU_CONDITION = true <-> u_done u = []) /\
      (has (clear_on f) MU_ALL_FALSE = false <-> (has (u_set u) MU_ALL_FALSE = true /\ u_done u <> [])) /\
      set_on f = u_set u /\ late f = u_late u
  | _ => False
  end.
Proof.
  unfold finalize. cbn [snd late set_on clear_on].
  split; [| split; [| split; reflexivity]].
  - destruct (u_wake u), (u_done u), (band (u_set u) MU_ALL_FALSE =? 0); vm_compute; split; intros; congruence.
  - unfold has at 2.
    destruct (u_wake u), (u_done u), (band (u_set u) MU_ALL_FALSE =? 0); vm_compute; intuition congruence.
Qed.

Lemma setC_init : has MU_ALL_FALSE MU_CONDITION = false.
Proof. reflexivity. Qed.
Lemma setC_set_ww s : has s MU_CONDITION = false -> has (set_ww s) MU_CONDITION = false.
Proof.
  rewrite !hasC. intros H. unfold set_ww, band, bor, bnot32. rewrite tb_land, tb_lor, H. reflexivity.
Qed.
Lemma setC_clear_af s : has s MU_CONDITION = false -> has (band s (bnot32 MU_ALL_FALSE)) MU_CONDITION = false.
Proof. rewrite !hasC. intros H. unfold band. rewrite tb_land, H. reflexivity. Qed.

Print Assumptions has_tb.
Print Assumptions hasC.
Print Assumptions hasA.
Print Assumptions bits_fast_new.
Print Assumptions bits_try_new.
Print Assumptions bits_fast_new2.
Print Assumptions bits_try_new2.
Print Assumptions bits_lock_slow_cas1.
Print Assumptions bits_lock_slow_cas2.
Print Assumptions bits_release_spinlock.
Print Assumptions bits_spin_scan.
Print Assumptions bits_spin_wait.
Print Assumptions bits_ufast.
Print Assumptions bits_uwfast.
Print Assumptions bits_unlock_new2_W.
Print Assumptions bits_unlock_new2_R.
Print Assumptions bits_uw_new2.
Print Assumptions bits_unlock_slow_cas1_W.
Print Assumptions bits_unlock_slow_cas1_R.
Print Assumptions bits_unlock_slow_cas2.
Print Assumptions bits_unlock_slow_cas2'.
Print Assumptions bits_cas3_gen.
Print Assumptions bits_cas3.
Print Assumptions bits_mw_cas1.
Print Assumptions bits_mt_cas1.
Print Assumptions bits_mt_cas2.
Print Assumptions bits_mt_store2.
Print Assumptions bits_mt_store3.
Print Assumptions bits_finalize_clear.
Print Assumptions setC_init.
Print Assumptions setC_set_ww.
Print Assumptions setC_clear_af.
