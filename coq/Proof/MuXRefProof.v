(* MuXRefProof: the reference-count theorem of property C13 over the COMBINED model (Model/MuXRefModel.v on top of
   Model/MuXferModel.v: mutex + condition-variable waits with the transfer + nsync_wait_n records + signal / broadcast by
   users and by threads that own no reference).

   Part 1  what one step does to a thread that is between calls (wrapper pc XIdle): the two shapes of a user that has
           given its reference back ([rel_ok]), the tail ([usafe])
   Part 2  threads that own no reference ([nu_ok]): they stay inside nsync_wait_n (NULL, ..) / nsync_cv_signal / broadcast /
           wake_waiters, never hold the mutex, never sit on its queue; after the free they never enter wake_waiters' pmu != NULL part
   Part 3  counting references
   Part 4  the invariant RXInv and its preservation
   Part 5  the theorem; the lemmas of Props/Properties_C13x.v.
   The regression (the code before commit 0f631a1 refuted on the F15 schedule) is in Proof/MuXRefProof2.v. *)
From NsyncBase Require Import CSem.
From NsyncGen Require Import Consts Sites.
From NsyncModel Require Import MuModel MuSpec MuXferModel MuXRefModel.
From NsyncProof Require Import WordView MuProof MuProof2 MuProof3.
From NsyncProof Require Import MuXferProof MuXferProof2 MuXferProof3 MuXferProof4 MuXferProof5 MuXferProof6 MuXferProof9.
From NsyncProof Require MuRefProof.
From Coq Require Import List ZArith Bool Lia PeanoNat Permutation.
Import ListNotations.
Local Open Scope Z_scope.

Ltac xnorm :=
  unfold set_xpc, add_xret, set_xt, set_mw, set_cvq, set_xferred, xget; cbn [mw cvq xferred xthr];
  rewrite ?lupd_lupd.

(* ================================================================== *)
(* Part 1: a thread between calls                                      *)
(* ================================================================== *)
Notation inU := MuRefProof.inU.

(* a user that has given its reference back: its release has not begun (it holds the lock in write mode and all that is
   left of its program is the unlock), or it is inside that unlock / back from it *)
Definition rel_ok (x : xworld) (t : nat) : Prop :=
  x_pc (xget x t) = XIdle /\
  ((t_pc (get (mw x) t) = Idle /\ t_ops (get (mw x) t) = [] /\ x_ops (xget x t) = [XOp OUnlock] /\ held (get (mw x) t) = Some W) \/
   (x_ops (xget x t) = [] /\ t_ops (get (mw x) t) = [] /\ inU (t_pc (get (mw x) t)) = true)).
(* the tail: no call left, a MuModel pc whose step does not touch the mutex *)
Definition usafe (x : xworld) (t : nat) : Prop :=
  x_pc (xget x t) = XIdle /\ x_ops (xget x t) = [] /\ t_ops (get (mw x) t) = [] /\ mu_touches (t_pc (get (mw x) t)) = false.

Lemma xbegin_noxops x t : x_ops (xget x t) = [] -> xbegin x t = x.
Proof. intros H. unfold xbegin. cbv zeta. rewrite H. destruct (x_pc (xget x t)); reflexivity. Qed.

Lemma xstep_idle_noxops x t c : x_pc (xget x t) = XIdle -> x_ops (xget x t) = [] ->
  fst (xstep_thr x t c) = set_mw x (fst (step (mw x) t)).
Proof.
  intros Hp Ho. unfold xstep_thr. rewrite (xbegin_noxops x t Ho). cbv zeta. rewrite Hp.
  unfold mu_step. destruct (step (mw x) t). reflexivity.
Qed.

Lemma mu_idle_true w t : mu_idle w t = true -> t_pc (get w t) = Idle /\ t_ops (get w t) = [].
Proof. unfold mu_idle. destruct (t_pc (get w t)); try discriminate. destruct (t_ops (get w t)); [auto | discriminate]. Qed.
Lemma mu_idle_intro w t : t_pc (get w t) = Idle -> t_ops (get w t) = [] -> mu_idle w t = true.
Proof. intros A B. unfold mu_idle. now rewrite A, B. Qed.

Lemma xstep_idle_unlock x t c rest : x_pc (xget x t) = XIdle -> x_ops (xget x t) = XOp OUnlock :: rest ->
  mu_idle (mw x) t = true ->
  fst (xstep_thr x t c) =
  set_mw (set_xt x t (mk_xt XIdle rest (x_rets (xget x t)))) (fst (step (push_op (mw x) t OUnlock) t)).
Proof.
  intros Hp Ho MI.
  assert (t < length (xthr x))%nat as Ht by (apply xget_inb; intros E; rewrite E in Ho; discriminate Ho).
  unfold xstep_thr, xbegin. cbv zeta. rewrite Hp, Ho, MI.
  unfold set_mw, set_xt, xget. cbn [mw cvq xferred xthr]. rewrite nth_lupd_same by exact Ht. cbn [x_pc].
  unfold mu_step. cbn [mw]. destruct (step (push_op (mw x) t OUnlock) t). reflexivity.
Qed.

Lemma get_push_op_same w t o : (t < length (thr w))%nat ->
  get (push_op w t o) t = mk_t (t_pc (get w t)) [o] (held (get w t)) (sleeps (get w t)) (last_try (get w t)).
Proof. intros H. unfold push_op. now rewrite get_set_t_same. Qed.

Lemma xget_set_mw x m t : xget (set_mw x m) t = xget x t.
Proof. reflexivity. Qed.

Lemma inU_touches p : inU p = true -> mu_touches p = false \/
  match p with Idle | Crash _ | UsWakeStore _ _ | UsWakeV _ _ _ => False | _ => True end.
Proof. destruct p; try discriminate; intros _; first [left; reflexivity | right; exact I]. Qed.

(* the step of a user that has given its reference back *)
Lemma rel_step n x t c : XInv n x -> rel_ok x t ->
  rel_ok (fst (xstep_thr x t c)) t /\
  (held (get (mw x) t) = None -> held (get (mw (fst (xstep_thr x t c))) t) = None).
Proof.
  intros (HI & HL & _) [Hp [(Pi & To & Xo & Hh) | (Xo & To & Hu)]].
  - assert (t < length (xthr x))%nat as Ht by (apply xget_inb; intros E; rewrite E in Xo; discriminate Xo).
    assert (t < length (thr (mw x)))%nat as Ht' by (destruct HI as (-> & _); now rewrite <- HL).
    rewrite (xstep_idle_unlock x t c [] Hp Xo (mu_idle_intro _ _ Pi To)).
    assert (MuRefProof.releasing (get (push_op (mw x) t OUnlock) t)) as R.
    { left. rewrite get_push_op_same by exact Ht'. cbn [t_pc t_ops held]. rewrite Pi, Hh. repeat split; try reflexivity. discriminate. }
    destruct (MuRefProof.step_releasing _ _ R) as (a & b & _).
    split; [|rewrite Hh; discriminate].
    split; [unfold set_mw, set_xt, xget; cbn [mw cvq xferred xthr]; rewrite nth_lupd_same by exact Ht; reflexivity|].
    right. unfold set_mw, set_xt, xget; cbn [mw cvq xferred xthr]. rewrite nth_lupd_same by exact Ht. cbn [x_ops]. auto.
  - rewrite (xstep_idle_noxops x t c Hp Xo).
    assert (MuRefProof.releasing (get (mw x) t)) as R by (right; auto).
    destruct (MuRefProof.step_releasing _ _ R) as (a & b & h).
    split; [|exact h]. split; [exact Hp|]. right. cbn [mw set_mw]. rewrite xget_set_mw. auto.
Qed.

Lemma usafe_step x t c : usafe x t -> usafe (fst (xstep_thr x t c)) t /\ step_touches x t = false.
Proof.
  intros (Hp & Xo & To & Hm).
  assert (MuRefProof.safe (get (mw x) t)) as S by (split; [exact To | exact Hm]).
  destruct (MuRefProof.step_safe _ _ S) as [[a b] d].
  split.
  - rewrite (xstep_idle_noxops x t c Hp Xo). split; [exact Hp | split; [exact Xo|]]. cbn [mw set_mw]. auto.
  - unfold step_touches. rewrite (xbegin_noxops x t Xo). cbv zeta. rewrite Hp. cbn [xtouches_mu]. exact d.
Qed.

Lemma rel_not_parked x t : rel_ok x t -> wph2 (x_pc (xget x t)) = false /\ xn_rec (x_pc (xget x t)) = false /\ isq (kof (mw x) t) = false.
Proof.
  intros [Hp H]. rewrite Hp. split; [reflexivity | split; [reflexivity|]]. unfold kof.
  destruct H as [(Pi & _) | (_ & _ & Hu)]; [rewrite Pi; reflexivity|].
  destruct (t_pc (get (mw x) t)); try discriminate Hu; reflexivity.
Qed.

(* ================================================================== *)
(* Part 2: threads that own no reference                               *)
(* ================================================================== *)
Definition nu_pc (xp : xpc) : bool :=
  match xp with
  | XIdle | XkLoad _ | XkSelect _ | XvLoad1 _ | XvCas1 _ _ | XvLoad3 _ | XvCas2 _ _ | XvLoad5 _ | XvStore _ | XvV _ _
  | XnStore0 None | XnEnq None | XnReady None | XnSem None | XnDeq None | XnSpin None => true
  | _ => false
  end.
Definition nu_ok (x : xworld) (t : nat) : Prop :=
  nu_pc (x_pc (xget x t)) = true /\ forallb nonuser_op (x_ops (xget x t)) = true /\
  t_pc (get (mw x) t) = Idle /\ t_ops (get (mw x) t) = [] /\ held (get (mw x) t) = None.

Lemma nu_not_parked x t : nu_ok x t -> wph2 (x_pc (xget x t)) = false /\ isq (kof (mw x) t) = false.
Proof.
  intros (Hp & _ & Pi & _). unfold kof. rewrite Pi. split; [|reflexivity].
  destruct (x_pc (xget x t)) as [ | | | | | | | | | | | | | | | | | | | | |om|om| |om|om|om|om| | ]; try reflexivity; discriminate Hp.
Qed.

Lemma get_mw_conv (w : world) t f b : get (set_waiting w f b) t = get w t. Proof. reflexivity. Qed.

(* the thread record of MuModel is not touched by the steps a non-user takes *)
Ltac nu_fin Pi To Hh := cbn [x_pc x_ops nu_pc]; repeat split; first [reflexivity | assumption | exact Pi | exact To | exact Hh | idtac].

Lemma nu_step x t c : nu_ok x t -> nu_ok (fst (xstep_thr x t c)) t.
Proof.
  intros H0.
  (* xbegin: start the next call *)
  assert (nu_ok (xbegin x t) t) as H1.
  { destruct H0 as (Hp & Ho & Pi & To & Hh). unfold xbegin. cbv zeta.
    destruct (xget x t) as [xp xo xr] eqn:Hx. cbn [x_pc x_ops x_rets] in *.
    destruct xp; try (unfold nu_ok; rewrite Hx; cbn [x_pc x_ops]; auto; fail).
    destruct xo as [|o rest]; [unfold nu_ok; rewrite Hx; cbn [x_pc x_ops]; auto|].
    rewrite (mu_idle_intro _ _ Pi To).
    assert (t < length (xthr x))%nat as Ht by (apply xget_inb; rewrite Hx; discriminate).
    cbn [forallb] in Ho. apply andb_prop in Ho. destruct Ho as [Oo Ho].
    destruct o as [o'|m| | |[m|]|m]; try discriminate Oo; unfold nu_ok; xnorm; rewrite !nth_lupd_same by exact Ht;
      cbn [x_pc x_ops nu_pc]; auto. }
  clear H0. unfold xstep_thr. set (xw := xbegin x t) in *. clearbody xw. clear x. cbv zeta.
  destruct H1 as (Hp & Ho & Pi & To & Hh).
  destruct (xget xw t) as [xp xo xr] eqn:Hx. cbn [x_pc x_ops x_rets] in *.
  assert (xp <> XIdle -> (t < length (xthr xw))%nat) as HtN.
  { intros NE. apply xget_inb. rewrite Hx. intros E. inversion E. contradiction. }
  pose proof Hx as Hx'. unfold xget in Hx.
  Local Ltac nu_res Hx Ht Ho Pi To Hh :=
    unfold nu_ok; xnorm; rewrite ?Hx; rewrite ?nth_lupd_same by exact Ht; rewrite ?Hx; cbn [x_pc x_ops x_rets nu_pc];
    (split; [reflexivity | split; [exact Ho | split; [exact Pi | split; [exact To | exact Hh]]]]).
  destruct xp; try discriminate Hp.
  - (* XIdle: nothing to do (no call left, or the thread is out of range) *)
    unfold mu_step.
    assert (fst (step (mw xw) t) = mw xw) as E by (apply MuRefProof.step_idle_noops; assumption).
    destruct (step (mw xw) t) as [m' e]. cbn [fst] in *. subst m'.
    unfold nu_ok, set_mw, xget. cbn [mw xthr]. fold (xget xw t). rewrite Hx'. cbn [x_pc x_ops]. auto.
  - assert (t < length (xthr xw))%nat as Ht by (apply HtN; discriminate).
    destruct c; [|destruct (cvq xw)]; cbn [fst]; try (unfold nu_ok; rewrite Hx'; cbn [x_pc x_ops]; auto; fail); nu_res Hx Ht Ho Pi To Hh.
  - assert (t < length (xthr xw))%nat as Ht by (apply HtN; discriminate).
    destruct (if bc then sel_broadcast (xrd xw) (cvq xw) else sel_signal (xrd xw) (cvq xw)) as [[wk kp] allr].
    destruct wk as [|f wk']; [|destruct (nrec xw f)]; cbn [fst]; nu_res Hx Ht Ho Pi To Hh.
  - assert (t < length (xthr xw))%nat as Ht by (apply HtN; discriminate).
    destruct (xfer_wanted (wtype (mw xw)) (word (mw xw)) k); cbn [fst]; [|unfold wake_loop; destruct (k_wake k)]; nu_res Hx Ht Ho Pi To Hh.
  - assert (t < length (xthr xw))%nat as Ht by (apply HtN; discriminate).
    unfold cas. destruct (word (mw xw) =? wake_waiters_cas1_old old); cbv beta iota.
    + destruct (xfer (nrec xw) (wtype (mw xw)) (first_cant_acquire (wtype (mw xw)) old (k_wake k)) (k_wake k)) as [[moved stay] set_on].
      cbn [fst]. nu_res Hx Ht Ho Pi To Hh.
    + cbn [fst]. unfold wake_loop; destruct (k_wake k); nu_res Hx Ht Ho Pi To Hh.
  - assert (t < length (xthr xw))%nat as Ht by (apply HtN; discriminate). cbn [fst]. nu_res Hx Ht Ho Pi To Hh.
  - assert (t < length (xthr xw))%nat as Ht by (apply HtN; discriminate).
    unfold cas. destruct (word (mw xw) =? wake_waiters_cas2_old old); cbv beta iota; cbn [fst];
      [unfold wake_loop; destruct (k_wake k)|]; nu_res Hx Ht Ho Pi To Hh.
  - assert (t < length (xthr xw))%nat as Ht by (apply HtN; discriminate). cbn [fst]. nu_res Hx Ht Ho Pi To Hh.
  - assert (t < length (xthr xw))%nat as Ht by (apply HtN; discriminate).
    destruct (k_wake k) as [|p rest]; cbn [fst]; nu_res Hx Ht Ho Pi To Hh.
  - assert (t < length (xthr xw))%nat as Ht by (apply HtN; discriminate).
    cbn [fst]. unfold wake_loop; destruct (k_wake k); nu_res Hx Ht Ho Pi To Hh.
  - destruct om; [discriminate Hp|]. assert (t < length (xthr xw))%nat as Ht by (apply HtN; discriminate). cbn [fst]. nu_res Hx Ht Ho Pi To Hh.
  - destruct om; [discriminate Hp|]. assert (t < length (xthr xw))%nat as Ht by (apply HtN; discriminate). cbn [fst]. nu_res Hx Ht Ho Pi To Hh.
  - destruct om; [discriminate Hp|]. assert (t < length (xthr xw))%nat as Ht by (apply HtN; discriminate).
    destruct (cv_ready_time_load1_guard (b2z (waiting (mw xw) t))); cbn [fst]; nu_res Hx Ht Ho Pi To Hh.
  - destruct om; [discriminate Hp|]. assert (t < length (xthr xw))%nat as Ht by (apply HtN; discriminate).
    destruct c; [destruct (0 <? sem (mw xw) t)|]; cbn [fst]; try (unfold nu_ok; rewrite Hx'; cbn [x_pc x_ops]; auto; fail); nu_res Hx Ht Ho Pi To Hh.
  - destruct om; [discriminate Hp|]. assert (t < length (xthr xw))%nat as Ht by (apply HtN; discriminate).
    destruct (waiting (mw xw) t && cv_dequeue_store1_guard (b2z (mem_id t (cvq xw)))); cbn [fst]; nu_res Hx Ht Ho Pi To Hh.
  - destruct om; [discriminate Hp|]. assert (t < length (xthr xw))%nat as Ht by (apply HtN; discriminate).
    destruct (waiting (mw xw) t); cbn [fst]; try (unfold nu_ok; rewrite Hx'; cbn [x_pc x_ops]; auto; fail); nu_res Hx Ht Ho Pi To Hh.
Qed.

Lemma nu_xbegin x t : nu_ok x t -> nu_ok (xbegin x t) t /\ mw (xbegin x t) = mw x /\ cvq (xbegin x t) = cvq x /\
  (xtouches_mu (x_pc (xget x t)) Idle = false -> xtouches_mu (x_pc (xget (xbegin x t) t)) Idle = false) /\
  (forall f, nrec x f = true -> nrec (xbegin x t) f = true).
Proof.
  intros (Hp & Ho & Pi & To & Hh). unfold xbegin. cbv zeta.
  destruct (xget x t) as [xp xo xr] eqn:Hx. cbn [x_pc x_ops x_rets] in *.
  assert (nu_ok x t) as H0 by (unfold nu_ok; rewrite Hx; cbn [x_pc x_ops]; auto).
  destruct xp; try (split; [exact H0|]; rewrite ?Hx; cbn [x_pc]; auto; fail).
  destruct xo as [|o rest]; [split; [exact H0|]; rewrite ?Hx; cbn [x_pc]; auto|].
  rewrite (mu_idle_intro _ _ Pi To).
  assert (t < length (xthr x))%nat as Ht by (apply xget_inb; rewrite Hx; discriminate).
  cbn [forallb] in Ho. apply andb_prop in Ho. destruct Ho as [Oo Ho].
  assert (forall p, xn_rec p = false -> forall f, nrec x f = true ->
            nrec (mk_xw (mw x) (cvq x) (xferred x) (lupd (xthr x) t (mk_xt p rest xr))) f = true) as NR.
  { intros p Np f Hf. unfold nrec in *. destruct (Nat.eq_dec f t) as [->|N]; [rewrite Hx in Hf; discriminate Hf|].
    now rewrite xget_lupd_other. }
  destruct o as [o'|m| | |[m|]|m]; try discriminate Oo; unfold nu_ok; xnorm; rewrite ?nth_lupd_same by exact Ht;
    cbn [x_pc x_ops nu_pc xtouches_mu]; (split; [auto|]); (split; [reflexivity|]); (split; [reflexivity|]); (split; [reflexivity|]);
    apply NR; reflexivity.
Qed.

(* after the free (no native waiter is left on the cv) a thread that owns no reference never enters the part of
   wake_waiters that works on the mutex *)
Lemma nsafe_step x t c : nu_ok x t -> xtouches_mu (x_pc (xget x t)) Idle = false ->
  (forall f, In f (cvq x) -> nrec x f = true) ->
  xtouches_mu (x_pc (xget (fst (xstep_thr x t c)) t)) Idle = false /\ step_touches x t = false.
Proof.
  intros H0 T0 C0. destruct (nu_xbegin x t H0) as (H1 & Em & Eq & T1 & N1). specialize (T1 T0).
  assert (forall f, In f (cvq (xbegin x t)) -> nrec (xbegin x t) f = true) as C1 by (intros f Hf; rewrite Eq in Hf; auto).
  assert (step_touches x t = false) as ST.
  { unfold step_touches. cbv zeta. destruct H1 as (_ & _ & Pi & To & _).
    rewrite (MuRefProof.begin_op_noops _ _ To), Pi. exact T1. }
  split; [|exact ST]. clear H0 T0 C0 N1 ST Em Eq.
  unfold xstep_thr. set (xw := xbegin x t) in *. clearbody xw. clear x. cbv zeta.
  destruct H1 as (Hp & Ho & Pi & To & Hh).
  destruct (xget xw t) as [xp xo xr] eqn:Hx. cbn [x_pc x_ops x_rets] in *.
  assert (xp <> XIdle -> (t < length (xthr xw))%nat) as HtN.
  { intros NE. apply xget_inb. rewrite Hx. intros E. inversion E. contradiction. }
  pose proof Hx as Hx'. unfold xget in Hx.
  Local Ltac ns_res Hx Ht :=
    xnorm; rewrite ?Hx; rewrite ?nth_lupd_same by exact Ht; cbn [x_pc xtouches_mu mu_touches MuRefModel.touches_mu]; reflexivity.
  destruct xp; try discriminate Hp; try discriminate T1.
  - unfold mu_step. destruct (step (mw xw) t) as [m' e]. cbn [fst]. rewrite xget_set_mw, Hx'. reflexivity.
  - assert (t < length (xthr xw))%nat as Ht by (apply HtN; discriminate).
    destruct c; [|destruct (cvq xw)]; cbn [fst]; try (rewrite Hx'; reflexivity); ns_res Hx Ht.
  - assert (t < length (xthr xw))%nat as Ht by (apply HtN; discriminate).
    assert (Permutation (fst (fst (if bc then sel_broadcast (xrd xw) (cvq xw) else sel_signal (xrd xw) (cvq xw))) ++
                         snd (fst (if bc then sel_broadcast (xrd xw) (cvq xw) else sel_signal (xrd xw) (cvq xw))))
                        (cvq xw)) as Pm by (destruct bc; [apply sel_broadcast_perm | apply sel_signal_perm]).
    destruct (if bc then sel_broadcast (xrd xw) (cvq xw) else sel_signal (xrd xw) (cvq xw)) as [[wk kp] allr].
    cbn [fst snd] in Pm.
    destruct wk as [|f wk']; [cbn [fst]; ns_res Hx Ht|].
    rewrite (C1 f ltac:(apply (Permutation_in _ Pm); now left)). cbn [fst]. ns_res Hx Ht.
  - assert (t < length (xthr xw))%nat as Ht by (apply HtN; discriminate).
    destruct (k_wake k) as [|p rest]; cbn [fst]; ns_res Hx Ht.
  - assert (t < length (xthr xw))%nat as Ht by (apply HtN; discriminate).
    cbn [fst]. unfold wake_loop; destruct (k_wake k); ns_res Hx Ht.
  - destruct om; [discriminate Hp|]. assert (t < length (xthr xw))%nat as Ht by (apply HtN; discriminate). cbn [fst]. ns_res Hx Ht.
  - destruct om; [discriminate Hp|]. assert (t < length (xthr xw))%nat as Ht by (apply HtN; discriminate). cbn [fst]. ns_res Hx Ht.
  - destruct om; [discriminate Hp|]. assert (t < length (xthr xw))%nat as Ht by (apply HtN; discriminate).
    destruct (cv_ready_time_load1_guard (b2z (waiting (mw xw) t))); cbn [fst]; ns_res Hx Ht.
  - destruct om; [discriminate Hp|]. assert (t < length (xthr xw))%nat as Ht by (apply HtN; discriminate).
    destruct c; [destruct (0 <? sem (mw xw) t)|]; cbn [fst]; try (rewrite Hx'; reflexivity); ns_res Hx Ht.
  - destruct om; [discriminate Hp|]. assert (t < length (xthr xw))%nat as Ht by (apply HtN; discriminate).
    destruct (waiting (mw xw) t && cv_dequeue_store1_guard (b2z (mem_id t (cvq xw)))); cbn [fst]; ns_res Hx Ht.
  - destruct om; [discriminate Hp|]. assert (t < length (xthr xw))%nat as Ht by (apply HtN; discriminate).
    destruct (waiting (mw xw) t); cbn [fst]; try (rewrite Hx'; reflexivity); ns_res Hx Ht.
Qed.

(* ================================================================== *)
(* Part 3: counting references                                         *)
(* ================================================================== *)
Definition isPre (p : phase) : bool := match p with Pre => true | _ => false end.
Definition cntPre (l : list phase) : Z := Z.of_nat (length (filter isPre l)).

Lemma cntPre_lupd l t v : (t < length l)%nat ->
  cntPre (lupd l t v) = cntPre l - b2z (isPre (nth t l Done)) + b2z (isPre v).
Proof.
  intros H. unfold cntPre. pose proof (filter_lupd isPre l t v Done H) as E.
  destruct (isPre (nth t l Done)), (isPre v); cbn [Nat.b2n b2z] in *; lia.
Qed.
Lemma cntPre_nonneg l : 0 <= cntPre l.
Proof. unfold cntPre. lia. Qed.
Lemma nth_Pre_inb l t : nth t l Done = Pre -> (t < length l)%nat.
Proof.
  intros H. destruct (Nat.lt_ge_cases t (length l)) as [|G]; [assumption|].
  rewrite nth_overflow in H by exact G. discriminate H.
Qed.
Lemma cntPre_pos l t : nth t l Done = Pre -> 1 <= cntPre l.
Proof.
  intros P. pose proof (nth_Pre_inb l t P) as H. pose proof (cntPre_lupd l t Done H) as E. rewrite P in E.
  cbn [isPre b2z] in E. pose proof (cntPre_nonneg (lupd l t Done)). lia.
Qed.

(* ================================================================== *)
(* Part 4: the invariant                                               *)
(* ================================================================== *)
Definition user_gone (p : phase) : Prop := p = Done \/ exists l, p = Dec l.

Definition RXInv (n : nat) (w : rxworld) : Prop :=
  AllK n (xw w) /\ length (ph w) = n /\
  refs w = cntPre (ph w) /\
  bad w = false /\
  (forall t, phase_of w t = Dec true -> refs w = 0) /\
  (freed w = true -> refs w = 0) /\
  (forall t1 t2, phase_of w t1 = Dec true -> phase_of w t2 = Dec true -> t1 = t2) /\
  (freed w = true -> forall t, phase_of w t <> Dec true) /\
  (forall t, user_gone (phase_of w t) -> rel_ok (xw w) t) /\
  (forall t, phase_of w t = NonUser -> nu_ok (xw w) t) /\
  (forall F T, phase_of w F = Dec true -> T <> F -> held (get (mw (xw w)) T) = None) /\
  (freed w = true -> forall t, (phase_of w t <> NonUser -> usafe (xw w) t) /\
                               (phase_of w t = NonUser -> xtouches_mu (x_pc (xget (xw w) t)) Idle = false)).

Lemma no_pre w : refs w = cntPre (ph w) -> refs w = 0 -> forall t, phase_of w t <> Pre.
Proof. intros E Z t P. pose proof (cntPre_pos (ph w) t P). lia. Qed.
Lemma pre_refs w t : refs w = cntPre (ph w) -> phase_of w t = Pre -> 1 <= refs w.
Proof. intros E P. pose proof (cntPre_pos (ph w) t P). lia. Qed.
Lemma phase_inb w t : phase_of w t <> Done -> (t < length (ph w))%nat.
Proof.
  intros H. destruct (Nat.lt_ge_cases t (length (ph w))) as [|G]; [assumption|].
  elim H. unfold phase_of. now apply nth_overflow.
Qed.
Lemma phase_cases p : p = Pre \/ user_gone p \/ p = NonUser.
Proof. destruct p; unfold user_gone; eauto. Qed.

(* a thread that does not own a reference any more (or never did) is parked nowhere on the mutex side, and is not a native
   cv waiter *)
Lemma gone_not_parked n w t : RXInv n w -> phase_of w t <> Pre ->
  wph2 (x_pc (xget (xw w) t)) = false /\ isq (kof (mw (xw w)) t) = false.
Proof.
  intros (_ & _ & _ & _ & _ & _ & _ & _ & I10 & I10n & _) NP.
  destruct (phase_cases (phase_of w t)) as [E | [E | E]]; [contradiction | |].
  - destruct (rel_not_parked _ _ (I10 t E)) as (a & _ & b). auto.
  - apply nu_not_parked, I10n, E.
Qed.

(* when nobody owns a reference: nobody sits on the mutex queue or on a wake list, no native waiter is on the cv *)
Lemma no_pre_facts n w : RXInv n w -> refs w = 0 ->
  queue (mw (xw w)) = [] /\ (forall u, wlt (mw (xw w)) u = []) /\
  (forall f, (In f (cvq (xw w)) \/ exists u, In f (kws (xw w) u)) -> xn_rec (x_pc (xget (xw w) f)) = true).
Proof.
  intros H Z. pose proof H as (((HI & _ & HP & _) & _) & _ & I4 & _).
  pose proof (no_pre w I4 Z) as NP. destruct HP as (HM & HC & _).
  assert (forall p, slp (xw w) p = false) as NS.
  { intros p. destruct (gone_not_parked n w p H (NP p)) as [a b]. unfold slp, slpf, xaf. now rewrite a, b. }
  split; [|split].
  - destruct (queue (mw (xw w))) as [|p q] eqn:E; [reflexivity | exfalso].
    destruct HM as (_ & Hq & _). destruct (Hq p ltac:(first [now left | rewrite E; now left])) as [_ X]. rewrite NS in X. discriminate X.
  - intros u. destruct (wlt (mw (xw w)) u) as [|p q] eqn:E; [reflexivity | exfalso].
    destruct HM as (_ & _ & _ & Hw & _). destruct (Hw u p ltac:(first [now left | rewrite E; now left])) as (_ & X & _). rewrite NS in X. discriminate X.
  - intros f Hin. destruct HC as (_ & Hq & _ & Hw & _).
    assert (cvs (xw w) f = true) as Cf by (destruct Hin as [Hin | [u Hin]]; [apply (Hq f Hin) | apply (Hw u f Hin)]).
    destruct (xn_rec (x_pc (xget (xw w) f))) eqn:NR; [reflexivity | exfalso].
    destruct (cvs_native _ _ Cf NR) as [W2 _]. destruct (gone_not_parked n w f H (NP f)) as [a _]. congruence.
Qed.

Lemma is_xidle_true p : is_xidle p = true -> p = XIdle.
Proof. destruct p; try discriminate; reflexivity. Qed.
Lemma only_unlock_true l : only_unlock l = true -> l = [XOp OUnlock].
Proof. destruct l as [|[[| |]| | | | |] [|]]; try discriminate; reflexivity. Qed.
Lemma no_xops_true l : no_xops l = true -> l = [].
Proof. destruct l; try discriminate; reflexivity. Qed.
Lemma holds_w_true h : holds_w h = true -> h = Some W.
Proof. destruct h as [[|]|]; try discriminate; reflexivity. Qed.
Lemma between_true x t : MuXRefModel.between x t = true -> x_pc (xget x t) = XIdle /\ t_pc (get (mw x) t) = Idle /\ t_ops (get (mw x) t) = [].
Proof.
  unfold MuXRefModel.between. intros H. apply andb_prop in H. destruct H as [A B]. apply is_xidle_true in A.
  destruct (mu_idle_true _ _ B). auto.
Qed.

Section RefInvariant.
Variable n : nat.
Hypothesis Hn : Z.of_nat n < 16777215.

(* a step inside an nsync call *)
Lemma rxinv_x w t c : RXInv n w -> RXInv n (do_x w t c).
Proof.
  intros H. pose proof H as (I1 & I3 & I4 & I5 & I6 & I7 & I8 & I9 & I10 & I10n & I11 & I12).
  pose proof I1 as ((HI & _) & _).
  assert (refs w = 0 -> forall f, In f (cvq (xw w)) -> nrec (xw w) f = true) as CVN
    by (intros Z f Hf; unfold nrec; rewrite (proj2 (proj2 (no_pre_facts n w H Z)) f (or_introl Hf)); reflexivity).
  clear H.
  assert (forall u, u <> t -> xget (fst (xstep_thr (xw w) t c)) u = xget (xw w) u /\
                               get (mw (fst (xstep_thr (xw w) t c))) u = get (mw (xw w)) u) as FR
    by (intros u N; now apply xstep_thr_frame).
  unfold RXInv, do_x, phase_of in *. cbn [xw refs freed bad ph].
  split; [apply (xstep_allk n Hn (xw w) (Thr t c)), I1|].
  split; [exact I3|]. split; [exact I4|]. split.
  { rewrite I5. cbn [orb]. destruct (freed w) eqn:Ef; [|reflexivity]. cbn [andb].
    destruct (I12 eq_refl t) as [U NU].
    destruct (phase_cases (nth t (ph w) Done)) as [E | [E | E]].
    - apply (usafe_step (xw w) t c). apply U. rewrite E. discriminate.
    - apply (usafe_step (xw w) t c). apply U. destruct E as [E | [l E]]; rewrite E; discriminate.
    - apply (nsafe_step (xw w) t c); [apply I10n, E | apply NU, E|].
      apply CVN, I7, eq_refl. }
  split; [exact I6|]. split; [exact I7|]. split; [exact I8|]. split; [exact I9|]. split; [|split; [|split]].
  - intros t' G. destruct (Nat.eq_dec t' t) as [->|N].
    + apply (rel_step n (xw w) t c HI), I10, G.
    + destruct (FR t' N) as [A B]. destruct (I10 t' G) as [P R]. unfold rel_ok. rewrite A, B. split; assumption.
  - intros t' G. destruct (Nat.eq_dec t' t) as [->|N].
    + apply nu_step, I10n, G.
    + destruct (FR t' N) as [A B]. unfold nu_ok. rewrite A, B. apply I10n, G.
  - intros F T PF N. destruct (Nat.eq_dec T t) as [->|N'].
    + pose proof (I6 F PF) as Z0. pose proof (no_pre w I4 Z0 t) as NP. unfold phase_of in NP.
      destruct (phase_cases (nth t (ph w) Done)) as [E | [E | E]]; [contradiction | |].
      * apply (rel_step n (xw w) t c HI (I10 t E)). apply (I11 F t PF N).
      * apply (nu_step (xw w) t c (I10n t E)).
    + destruct (FR T N') as [_ B]. rewrite B. apply (I11 F T PF N).
  - intros Ef t'. destruct (I12 Ef t') as [U NU]. destruct (Nat.eq_dec t' t) as [->|N].
    + split.
      * intros G. apply (usafe_step (xw w) t c), U, G.
      * intros G. apply (nsafe_step (xw w) t c); [apply I10n, G | apply NU, G|].
        apply CVN, I7, Ef.
    + destruct (FR t' N) as [A B]. unfold usafe. rewrite A, B. split; assumption.
Qed.

(* a post on a semaphore by code outside the model *)
Lemma rxinv_env w p : RXInv n w -> RXInv n (rxstep w (EnvV p)).
Proof.
  intros (I1 & I3 & I4 & I5 & I6 & I7 & I8 & I9 & I10 & I10n & I11 & I12).
  unfold RXInv, rxstep, phase_of in *. cbn [xw refs freed bad ph].
  split; [apply (xstep_allk n Hn (xw w) (EnvV p)), I1|]. cbn [xstep fst].
  repeat (split; [assumption|]). exact I12.
Qed.

(* the client's change of its own program (the guard of `if (trylock ...)`) *)
Lemma rxinv_ops w t o rest : RXInv n w -> phase_of w t = Pre -> skip_ready (xw w) t = Some rest -> RXInv n (do_ops w t o).
Proof.
  intros (I1 & I3 & I4 & I5 & I6 & I7 & I8 & I9 & I10 & I10n & I11 & I12) P S.
  assert (t < length (xthr (xw w)))%nat as Ht.
  { apply xget_inb. intros E. unfold skip_ready in S. rewrite E in S. cbn [x_ops dflt_xt] in S.
    destruct (MuXRefModel.between (xw w) t); [destruct (held (get (mw (xw w)) t))|]; discriminate S. }
  assert (forall u, u <> t -> xget (set_xops (xw w) t o) u = xget (xw w) u) as FR.
  { intros u N. unfold set_xops, set_xt, xget. cbn [xthr]. now rewrite nth_lupd_other. }
  assert (xsame (xw w) (set_xops (xw w) t o)) as XS.
  { unfold xsame, set_xops, set_xt. cbn [mw cvq xferred xthr]. repeat split; try reflexivity.
    - apply length_lupd.
    - unfold xget. cbn [xthr]. destruct (Nat.eq_dec t0 t) as [->|N]; [now rewrite nth_lupd_same | now rewrite nth_lupd_other].
    - unfold xget. cbn [xthr]. destruct (Nat.eq_dec t0 t) as [->|N]; [now rewrite nth_lupd_same | now rewrite nth_lupd_other]. }
  unfold RXInv, do_ops, phase_of in *. cbn [xw refs freed bad ph].
  split; [apply (AllK_xsame n _ _ XS), I1|].
  split; [exact I3|]. split; [exact I4|]. split; [exact I5|].
  split; [exact I6|]. split; [exact I7|]. split; [exact I8|]. split; [exact I9|]. split; [|split; [|split]].
  - intros t' G. assert (t' <> t) as N by (intros ->; destruct G as [G | [l G]]; congruence).
    unfold rel_ok. rewrite (FR t' N). apply I10, G.
  - intros t' G. assert (t' <> t) as N by (intros ->; congruence).
    unfold nu_ok. rewrite (FR t' N). apply I10n, G.
  - exact I11.
  - intros Ef. exfalso. pose proof (pre_refs w t I4 P). specialize (I7 Ef). lia.
Qed.

(* last = (--refs == 0) *)
Lemma rxinv_dec w t : RXInv n w -> phase_of w t = Pre -> dec_ready (xw w) t = true -> RXInv n (do_dec w t).
Proof.
  intros (I1 & I3 & I4 & I5 & I6 & I7 & I8 & I9 & I10 & I10n & I11 & I12) P D.
  pose proof (pre_refs w t I4 P) as R1.
  assert (t < length (ph w))%nat as Ht by (apply phase_inb; rewrite P; discriminate).
  assert (freed w = false) as Ef by (destruct (freed w); [specialize (I7 eq_refl); lia | reflexivity]).
  assert (forall t', phase_of w t' <> Dec true) as ND by (intros t' E; specialize (I6 t' E); lia).
  assert (forall t' x, phase_of (do_dec w t) t' = x -> (t' = t /\ x = Dec (refs w - 1 =? 0)) \/ (t' <> t /\ phase_of w t' = x)) as PH.
  { intros t' x. unfold phase_of, do_dec. cbn [ph]. destruct (Nat.eq_dec t' t) as [->|N].
    - rewrite nth_lupd_same by exact Ht. intros <-. left. split; reflexivity.
    - rewrite nth_lupd_other by exact N. intros E. right. split; assumption. }
  unfold dec_ready in D. apply andb_prop in D. destruct D as [D D3]. apply andb_prop in D. destruct D as [D1 D2].
  destruct (between_true _ _ D1) as (Xp & Pi & To). apply only_unlock_true in D2. apply holds_w_true in D3.
  unfold RXInv. change (xw (do_dec w t)) with (xw w). change (refs (do_dec w t)) with (refs w - 1).
  change (freed (do_dec w t)) with (freed w). change (bad (do_dec w t)) with (bad w || freed w)%bool.
  split; [exact I1|].
  split; [unfold do_dec; cbn [ph]; rewrite length_lupd; exact I3|].
  split. { unfold do_dec; cbn [ph]. rewrite cntPre_lupd by exact Ht. unfold phase_of in P. rewrite P. cbn [isPre b2z]. lia. }
  split; [rewrite I5, Ef; reflexivity|].
  split. { intros t' E. apply PH in E. destruct E as [[_ E] | [_ E]]; [|now elim (ND t')].
           injection E as E. symmetry in E. apply Z.eqb_eq in E. exact E. }
  split; [rewrite Ef; discriminate|].
  split. { intros t1 t2 E1 E2. apply PH in E1. apply PH in E2.
           destruct E1 as [[-> _] | [_ E1]]; [|now elim (ND t1)].
           destruct E2 as [[-> _] | [_ E2]]; [reflexivity | now elim (ND t2)]. }
  split; [rewrite Ef; discriminate|].
  split; [|split; [|split]].
  - intros t' G. destruct (Nat.eq_dec t' t) as [->|N].
    + split; [exact Xp|]. left. auto.
    + apply I10. destruct G as [G | [l G]]; apply PH in G; destruct G as [[X _] | [_ G]]; try contradiction;
        [left; exact G | right; eauto].
  - intros t' G. apply PH in G. destruct G as [[_ G] | [_ G]]; [discriminate G | apply I10n, G].
  - intros F T PF N. apply PH in PF. destruct PF as [[-> _] | [_ PF]]; [|now elim (ND F)].
    pose proof I1 as ((HI & _) & _). destruct HI as (HI0 & _).
    pose proof (excl_of_inv n _ HI0) as X. unfold excl, nthreads, holds in X.
    assert (t < length (thr (mw (xw w))))%nat as Lt.
    { destruct (Nat.lt_ge_cases t (length (thr (mw (xw w))))) as [|G]; [assumption|].
      rewrite (get_oob _ _ G) in D3. discriminate D3. }
    destruct (Nat.lt_ge_cases T (length (thr (mw (xw w))))) as [LT|G]; [|rewrite (get_oob _ _ G); reflexivity].
    destruct (held (get (mw (xw w)) T)) as [[|]|] eqn:HT; [| |reflexivity]; exfalso; apply N; symmetry;
      apply (X t T Lt LT D3); auto.
  - rewrite Ef. discriminate.
Qed.

(* if (last) free (obj) *)
Lemma rxinv_free w t l : RXInv n w -> phase_of w t = Dec l -> free_ready (xw w) t = true -> RXInv n (do_free w t l).
Proof.
  intros H P D. pose proof H as (I1 & I3 & I4 & I5 & I6 & I7 & I8 & I9 & I10 & I10n & I11 & I12).
  assert (t < length (ph w))%nat as Ht by (apply phase_inb; rewrite P; discriminate).
  assert (forall t' x, phase_of (do_free w t l) t' = x -> (t' = t /\ x = Done) \/ (t' <> t /\ phase_of w t' = x)) as PH.
  { intros t' x. unfold phase_of, do_free. cbn [ph]. destruct (Nat.eq_dec t' t) as [->|N].
    - rewrite nth_lupd_same by exact Ht. intros <-. left. split; reflexivity.
    - rewrite nth_lupd_other by exact N. intros E. right. split; assumption. }
  unfold free_ready in D. apply andb_prop in D. destruct D as [D1 D2].
  destruct (between_true _ _ D1) as (Xp & Pi & To). apply no_xops_true in D2.
  unfold RXInv. change (xw (do_free w t l)) with (xw w). change (refs (do_free w t l)) with (refs w).
  change (freed (do_free w t l)) with (freed w || l)%bool.
  change (bad (do_free w t l)) with (bad w || (l && freed w))%bool.
  assert ((freed w || l)%bool = true -> refs w = 0) as FZ.
  { intros E. apply orb_prop in E. destruct E as [E | ->]; [apply I7, E | apply (I6 t P)]. }
  split; [exact I1|].
  split; [unfold do_free; cbn [ph]; rewrite length_lupd; exact I3|].
  split. { unfold do_free; cbn [ph]. rewrite cntPre_lupd by exact Ht. unfold phase_of in P. rewrite P. cbn [isPre b2z]. lia. }
  split. { rewrite I5. cbn [orb]. destruct l; [|reflexivity]. destruct (freed w) eqn:Ef; [|reflexivity].
           now elim (I9 eq_refl t). }
  split. { intros t' E. apply PH in E. destruct E as [[_ E] | [_ E]]; [discriminate E | apply (I6 t' E)]. }
  split; [exact FZ|].
  split. { intros t1 t2 E1 E2. apply PH in E1. apply PH in E2.
           destruct E1 as [[_ E1] | [_ E1]]; [discriminate E1|].
           destruct E2 as [[_ E2] | [_ E2]]; [discriminate E2|]. apply (I8 t1 t2 E1 E2). }
  split. { intros E t' E'. apply PH in E'. destruct E' as [[_ E'] | [N E']]; [discriminate E'|].
           apply orb_prop in E. destruct E as [E | ->]; [now elim (I9 E t')|]. apply N, (I8 t' t E' P). }
  assert (forall t', user_gone (phase_of (do_free w t l) t') -> user_gone (phase_of w t')) as UG.
  { intros t' G. destruct (Nat.eq_dec t' t) as [->|N]; [right; eauto|].
    destruct G as [G | [l' G]]; apply PH in G; destruct G as [[X _] | [_ G]]; try contradiction; [left; exact G | right; eauto]. }
  split; [|split; [|split]].
  - intros t' G. apply I10, UG, G.
  - intros t' G. apply PH in G. destruct G as [[_ G] | [_ G]]; [discriminate G | apply I10n, G].
  - intros F T PF N. apply PH in PF. destruct PF as [[_ PF] | [_ PF]]; [discriminate PF|]. apply (I11 F T PF N).
  - intros E T. destruct (freed w) eqn:Ef.
    { destruct (I12 eq_refl T) as [U NU]. split; intros G.
      - apply U. intros G'. apply G. unfold phase_of, do_free in *. cbn [ph].
        destruct (Nat.eq_dec T t) as [->|N]; [rewrite P in G'; discriminate G' | now rewrite nth_lupd_other].
      - apply NU. apply PH in G. destruct G as [[_ G] | [_ G]]; [discriminate G | exact G]. }
    cbn [orb] in E. subst l.
    (* THE ARGUMENT: t computed last = true, its unlock has returned, it frees the object now *)
    pose proof (I6 t P) as Z0. pose proof (no_pre w I4 Z0) as NP.
    destruct (no_pre_facts n w H Z0) as (Q0 & WL0 & CV0).
    pose proof I1 as ((HI & HS & HP & _) & HK). pose proof HI as (HI0 & _).
    split.
    + (* users *)
      intros G. destruct (Nat.eq_dec T t) as [->|N]; [split; [exact Xp | split; [exact D2 | split; [exact To | rewrite Pi; reflexivity]]]|].
      assert (user_gone (phase_of w T)) as GT.
      { destruct (phase_cases (phase_of w T)) as [E | [E | E]]; [now elim (NP T) | exact E|].
        exfalso. apply G. unfold phase_of, do_free in *. cbn [ph]. now rewrite nth_lupd_other. }
      pose proof (I11 t T P N) as HT.
      destruct (I10 T GT) as [XpT [(_ & _ & _ & c) | (Xo & ToT & Hu)]]; [rewrite c in HT; discriminate HT|].
      split; [exact XpT | split; [exact Xo | split; [exact ToT|]]].
      pose proof HI0 as (_ & _ & Hok). specialize (Hok T). fold (get (mw (xw w)) T) in Hok. unfold pc_ok in Hok.
      destruct HS as (_ & HA & _). specialize (HA T).
      destruct (t_pc (get (mw (xw w)) T)) eqn:EP; try discriminate Hu; try reflexivity; exfalso;
        try (rewrite HT in Hok; discriminate Hok).
      * (* UsRelLoad: the early-release window -- somebody on the wake list would still own a reference *)
        cbn [pcA'] in HA. destruct HA as (Nw & _). specialize (WL0 T). unfold wlt in WL0. rewrite EP in WL0.
        cbn [role_of wl] in WL0. now apply Nw.
      * (* UsRelCas *)
        cbn [pcA'] in HA. destruct HA as (Nw & _). specialize (WL0 T). unfold wlt in WL0. rewrite EP in WL0.
        cbn [role_of wl] in WL0. now apply Nw.
    + (* threads that own no reference: not inside the part of wake_waiters that works on the mutex *)
      intros G. apply PH in G. destruct G as [[_ G] | [_ G]]; [discriminate G|].
      destruct (I10n T G) as (NPc & _).
      destruct (x_pc (xget (xw w) T)) eqn:EX; try reflexivity; try discriminate NPc; exfalso.
      all: destruct HP as (_ & HC & _ & HN); destruct HS as (HQ & _ & _).
      * (* XvLoad1: the first element of the list is a native waiter: it would still own a reference *)
        destruct I1 as ((_ & _ & _ & _ & (_ & HX)) & _). specialize (HX T). rewrite EX in HX. cbn [xpcH] in HX.
        destruct (k_wake k) as [|f rest] eqn:Ek; [now elim HX|].
        pose proof (HN T f ltac:(rewrite EX; cbn [vhd]; rewrite Ek; reflexivity)) as NR.
        pose proof (CV0 f ltac:(right; exists T; unfold kws; rewrite EX; cbn [kwl]; rewrite Ek; now left)) as X.
        congruence.
      * (* XvCas1 *)
        destruct I1 as ((_ & _ & _ & _ & (_ & HX)) & _). specialize (HX T). rewrite EX in HX. cbn [xpcH] in HX. destruct HX as [_ HX].
        destruct (k_wake k) as [|f rest] eqn:Ek; [now elim HX|].
        pose proof (HN T f ltac:(rewrite EX; cbn [vhd]; rewrite Ek; reflexivity)) as NR.
        pose proof (CV0 f ltac:(right; exists T; unfold kws; rewrite EX; cbn [kwl]; rewrite Ek; now left)) as X.
        congruence.
      * (* XvLoad3: owns the spinlock; the queue is empty, so its release clears MU_WAITING, so a native waiter is on its list *)
        destruct HQ as (_ & _ & C & _). specialize (C T (tb2 (k_clr k)) ltac:(unfold xk; rewrite EX; reflexivity)).
        destruct (HK T k ltac:(rewrite EX; reflexivity) (proj2 C Q0)) as (f & Hin & NR).
        pose proof (CV0 f ltac:(right; exists T; unfold kws; rewrite EX; exact Hin)) as X. congruence.
      * (* XvCas2 *)
        destruct HQ as (_ & _ & C & _). specialize (C T (tb2 (k_clr k)) ltac:(unfold xk; rewrite EX; reflexivity)).
        destruct (HK T k ltac:(rewrite EX; reflexivity) (proj2 C Q0)) as (f & Hin & NR).
        pose proof (CV0 f ltac:(right; exists T; unfold kws; rewrite EX; exact Hin)) as X. congruence.
      * (* XvLoad5 *)
        destruct HQ as (_ & _ & C & _). specialize (C T (tb2 (k_clr k)) ltac:(unfold xk; rewrite EX; reflexivity)).
        destruct (HK T k ltac:(rewrite EX; reflexivity) (proj2 C Q0)) as (f & Hin & NR).
        pose proof (CV0 f ltac:(right; exists T; unfold kws; rewrite EX; exact Hin)) as X. congruence.
Qed.

Lemma rxstep_rxinv w a : RXInv n w -> RXInv n (rxstep w a).
Proof.
  intros H. destruct a as [t c|p]; [|apply rxinv_env, H].
  cbn [rxstep]. unfold rxstep_thr.
  destruct (phase_of w t) as [|l| |] eqn:P.
  - destruct (dec_ready (xw w) t) eqn:D; [apply rxinv_dec; assumption|].
    destruct (skip_ready (xw w) t) as [rest|] eqn:S; [eapply rxinv_ops; eassumption | apply rxinv_x, H].
  - destruct (free_ready (xw w) t) eqn:D; [apply rxinv_free; assumption | apply rxinv_x, H].
  - apply rxinv_x, H.
  - apply rxinv_x, H.
Qed.

Lemma rxrun_rxinv sched : forall w, RXInv n w -> RXInv n (rxrun w sched).
Proof.
  unfold rxrun. induction sched as [|a rest IH]; intros w H; cbn [fold_left]; [exact H|].
  apply IH, rxstep_rxinv, H.
Qed.
End RefInvariant.

(* ================================================================== *)
(* Part 5: reachable worlds                                            *)
(* ================================================================== *)
Lemma xinit_xget progs t : xget (xinit progs) t = mk_xt XIdle (nth t progs []) [].
Proof.
  unfold xget, xinit; cbn [xthr]. change dflt_xt with ((fun p => mk_xt XIdle p []) []). now rewrite map_nth.
Qed.
Lemma xinit_get progs t : get (mw (xinit progs)) t = dflt_t.
Proof.
  unfold get, xinit, init; cbn [mw thr]. rewrite map_map.
  change dflt_t with ((fun _ : list xop => mk_t Idle [] None 0 None) []). now rewrite map_nth.
Qed.
Lemma forallb_filter {A} (f : A -> bool) l : forallb f (filter f l) = true.
Proof. induction l as [|a l IH]; [reflexivity|]. cbn [filter]. destruct (f a) eqn:E; [cbn [forallb]; now rewrite E | exact IH]. Qed.

Definition ph0 (up : bool * list xop) : phase := if fst up then Pre else NonUser.
Lemma rxinit_phase progs t :
  (exists up, nth_error progs t = Some up /\ phase_of (rxinit progs) t = ph0 up) \/
  ((length progs <= t)%nat /\ phase_of (rxinit progs) t = Done).
Proof.
  unfold phase_of, rxinit. cbn [ph]. fold ph0.
  destruct (nth_error progs t) as [up|] eqn:E.
  - left. exists up. split; [reflexivity|]. apply (map_nth_error ph0) in E. now apply nth_error_nth.
  - right. apply nth_error_None in E. split; [exact E|]. apply nth_overflow. now rewrite map_length.
Qed.
Lemma cntPre_init progs : cntPre (map ph0 progs) = Z.of_nat (length (filter fst progs)).
Proof.
  unfold cntPre. f_equal. induction progs as [|[b p] l IH]; [reflexivity|]. cbn [map filter fst].
  unfold ph0 at 1. cbn [fst]. destruct b; cbn [isPre length]; now rewrite IH.
Qed.

Lemma rxinit_rxinv progs : RXInv (length progs) (rxinit progs).
Proof.
  assert (forall t l, phase_of (rxinit progs) t <> Dec l) as ND.
  { intros t l E. destruct (rxinit_phase progs t) as [(up & _ & E') | [_ E']]; rewrite E' in E; [|discriminate E].
    unfold ph0 in E. destruct (fst up); discriminate E. }
  unfold RXInv. change (xw (rxinit progs)) with (xinit (map prog_of progs)). change (freed (rxinit progs)) with false.
  change (bad (rxinit progs)) with false. change (refs (rxinit progs)) with (Z.of_nat (length (filter fst progs))).
  split; [rewrite <- (map_length prog_of progs); apply xinit_allk|].
  split; [unfold rxinit; cbn [ph]; apply map_length|].
  split; [unfold rxinit; cbn [ph]; symmetry; apply cntPre_init|].
  split; [reflexivity|].
  split; [intros t E; now elim (ND t true)|]. split; [discriminate|].
  split; [intros t1 t2 E; now elim (ND t1 true)|]. split; [discriminate|].
  split; [|split; [|split; [|discriminate]]].
  - intros t G. destruct (rxinit_phase progs t) as [(up & _ & E) | [L _]].
    + exfalso. rewrite E in G. unfold ph0 in G. destruct G as [G | [l G]]; destruct (fst up); discriminate G.
    + unfold rel_ok. rewrite xinit_xget, xinit_get. rewrite (nth_overflow _ _ ltac:(rewrite map_length; exact L)).
      split; [reflexivity|]. right. repeat split; reflexivity.
  - intros t G. destruct (rxinit_phase progs t) as [(up & Eu & E) | [_ E]]; [|rewrite E in G; discriminate G].
    rewrite E in G. unfold ph0 in G. destruct (fst up) eqn:Fu; [discriminate G|].
    unfold nu_ok. rewrite xinit_xget, xinit_get. cbn [x_pc x_ops nu_pc t_pc t_ops held dflt_t].
    split; [reflexivity|]. split; [|auto].
    apply (map_nth_error prog_of) in Eu. rewrite (nth_error_nth _ _ _ Eu). unfold prog_of. rewrite Fu. apply forallb_filter.
  - intros F T E. now elim (ND F true).
Qed.

Lemma reachable_rxinv progs sched : Z.of_nat (length progs) < 2 ^ 24 - 1 ->
  RXInv (length progs) (rxrun (rxinit progs) sched).
Proof. intros H. apply (rxrun_rxinv (length progs) H). apply rxinit_rxinv. Qed.

(* THE THEOREM *)
Lemma no_touch_after_free_x : forall progs sched, Z.of_nat (length progs) < 2 ^ 24 - 1 ->
  bad (rxrun (rxinit progs) sched) = false.
Proof. intros progs sched H. apply (reachable_rxinv progs sched H). Qed.

(* what lies behind it: once the object is freed nobody owns a reference; every user is between calls for good, crashed, or in
   the wake-up tail of nsync_mu_unlock_slow_; the mutex queue and every wake list are empty; the threads that own no reference
   are outside the part of wake_waiters that works on the mutex, and no native waiter is left on the cv for them to find *)
Lemma tail_after_free_x : forall progs sched, Z.of_nat (length progs) < 2 ^ 24 - 1 ->
  let w := rxrun (rxinit progs) sched in
  freed w = true ->
  refs w = 0 /\ queue (mw (xw w)) = [] /\
  (forall f, In f (cvq (xw w)) \/ (exists u, In f (kws (xw w) u)) -> xn_rec (x_pc (xget (xw w) f)) = true) /\
  forall t, phase_of w t <> Pre /\
            (phase_of w t <> NonUser ->
               x_pc (xget (xw w) t) = XIdle /\ x_ops (xget (xw w) t) = [] /\ t_ops (get (mw (xw w)) t) = [] /\
               match t_pc (get (mw (xw w)) t) with Idle | Crash _ | UsWakeStore _ _ | UsWakeV _ _ _ => True | _ => False end) /\
            (phase_of w t = NonUser -> nu_ok (xw w) t /\ xtouches_mu (x_pc (xget (xw w) t)) Idle = false).
Proof.
  intros progs sched H w Ef. pose proof (reachable_rxinv progs sched H) as HR. fold w in HR.
  pose proof HR as (_ & _ & I4 & _ & _ & I7 & _ & _ & _ & I10n & _ & I12).
  specialize (I7 Ef). destruct (no_pre_facts _ w HR I7) as (Q0 & _ & CV0).
  split; [exact I7|]. split; [exact Q0|]. split; [exact CV0|]. intros t.
  split; [apply (no_pre w I4 I7)|]. destruct (I12 Ef t) as [U NU]. split.
  - intros G. destruct (U G) as (a & b & c & d). repeat split; auto.
    destruct (t_pc (get (mw (xw w)) t)); try discriminate d; exact I.
  - intros G. split; [apply I10n, G | apply NU, G].
Qed.

(* the free: by a thread that computed last = true, when its unlock has returned; it changes nothing of the models *)
Lemma free_step_x : forall w t c, freed w = false -> freed (rxstep_thr w t c) = true ->
  phase_of w t = Dec true /\ x_pc (xget (xw w) t) = XIdle /\ x_ops (xget (xw w) t) = [] /\
  t_pc (get (mw (xw w)) t) = Idle /\ t_ops (get (mw (xw w)) t) = [] /\ xw (rxstep_thr w t c) = xw w.
Proof.
  intros w t c Ef. unfold rxstep_thr.
  destruct (phase_of w t) as [|l| |] eqn:P.
  - destruct (dec_ready (xw w) t); [cbn [do_dec freed]; congruence|].
    destruct (skip_ready (xw w) t); cbn [do_ops do_x freed]; congruence.
  - destruct (free_ready (xw w) t) eqn:D; [|cbn [do_x freed]; congruence].
    cbn [do_free freed xw]. rewrite Ef. cbn [orb]. intros ->.
    unfold free_ready in D. apply andb_prop in D. destruct D as [D1 D2].
    destruct (between_true _ _ D1) as (a & b & c0). apply no_xops_true in D2. auto 10.
  - cbn [do_x freed]. congruence.
  - cbn [do_x freed]. congruence.
Qed.

(* ================================================================== *)
(* Part 6: [xtouches_mu] does not miss a write                         *)
(* ================================================================== *)
Lemma xbegin_wq x t : word (mw (xbegin x t)) = word (mw x) /\ queue (mw (xbegin x t)) = queue (mw x).
Proof.
  unfold xbegin. cbv zeta. destruct (x_pc (xget x t)); try (split; reflexivity).
  destruct (x_ops (xget x t)) as [|o rest]; try (split; reflexivity).
  destruct (mu_idle (mw x) t); try (split; reflexivity).
  destruct o as [o'|m| | |[m|]|m]; split; reflexivity.
Qed.

(* a step with step_touches = false leaves mu->word and mu->waiters as they were (that it does not READ them either is
   visible in MuXferModel.xstep_thr: see the table at the definition of xtouches_mu) *)
Lemma xtouches_mu_sound x t c : step_touches x t = false ->
  word (mw (fst (xstep_thr x t c))) = word (mw x) /\ queue (mw (fst (xstep_thr x t c))) = queue (mw x).
Proof.
  unfold step_touches. cbv zeta. destruct (xbegin_wq x t) as [<- <-].
  unfold xstep_thr. set (xw := xbegin x t). clearbody xw. clear x. cbv zeta. intros T.
  assert (mu_touches (t_pc (get (begin_op (mw xw) t) t)) = false ->
          word (fst (step (mw xw) t)) = word (mw xw) /\ queue (fst (step (mw xw) t)) = queue (mw xw)) as MS
    by (apply MuRefProof.touches_mu_sound).
  destruct (x_pc (xget xw t)) eqn:EX; cbn [xtouches_mu] in T; try discriminate T.
  - specialize (MS T). unfold mu_step. destruct (step (mw xw) t) as [m' e]. exact MS.
  - split; reflexivity.
  - split; reflexivity.
  - split; reflexivity.
  - specialize (MS T). unfold mu_step. destruct (step (mw xw) t) as [m' e]. cbn [fst] in MS.
    destruct (mu_pc_idle (mw (set_mw xw m')) t); exact MS.
  - destruct (waiting (mw xw) t); [destruct (w_so l)|]; split; reflexivity.
  - destruct c; [destruct (0 <? sem (mw xw) t)|]; split; reflexivity.
  - destruct (waiting (mw xw) t); split; reflexivity.
  - destruct (mem_id t (cvq xw)); split; reflexivity.
  - split; reflexivity.
  - specialize (MS T). unfold mu_step. destruct (step (mw xw) t) as [m' e]. cbn [fst] in MS.
    destruct (mu_pc_idle (mw (set_mw xw m')) t); exact MS.
  - destruct c; [|destruct (cvq xw)]; split; reflexivity.
  - destruct (if bc then sel_broadcast (xrd xw) (cvq xw) else sel_signal (xrd xw) (cvq xw)) as [[wk kp] allr].
    destruct wk as [|f wk']; [|destruct (nrec xw f)]; split; reflexivity.
  - destruct (k_wake k); split; reflexivity.
  - unfold wake_loop. destruct (k_wake k); split; reflexivity.
  - split; reflexivity.
  - destruct om; split; reflexivity.
  - specialize (MS T). unfold mu_step. destruct (step (mw xw) t) as [m' e]. cbn [fst] in MS.
    destruct (mu_pc_idle (mw (set_mw xw m')) t); exact MS.
  - destruct (cv_ready_time_load1_guard (b2z (waiting (mw xw) t))); split; reflexivity.
  - destruct c; [destruct (0 <? sem (mw xw) t)|]; split; reflexivity.
  - destruct (waiting (mw xw) t && cv_dequeue_store1_guard (b2z (mem_id t (cvq xw)))); [destruct om|]; split; reflexivity.
  - destruct (waiting (mw xw) t); [|destruct om]; split; reflexivity.
  - specialize (MS T). unfold mu_step. destruct (step (mw xw) t) as [m' e]. cbn [fst] in MS.
    destruct (mu_pc_idle (mw (set_mw xw m')) t); exact MS.
  - split; reflexivity.
Qed.

(* ----- non-vacuity: the tail and the window occur with condition-variable traffic ----- *)
(* users 0, 1, 2; thread 3 owns no reference.  1 waits on the cv (write mode); 3 waits on the cv through nsync_wait_n; 0 locks,
   broadcasts inside its critical section (1 is transferred to the mutex queue, 3's record stays on the list and is woken
   directly) and unlocks through nsync_mu_unlock_slow_: in the early-release window (lock bit given away, spinlock owned) the
   transferred cv waiter 1 -- on 0's wake list, parked in nsync_cv_wait -- still owns its reference *)
Definition cvt_progs : list (bool * list xop) :=
  [ user [XOp (OLock W); XBroadcast; XOp OUnlock]; user [XOp (OLock W); XWait W; XOp OUnlock]; user []; nonuser [XWaitN None; XSignal] ].
Definition cvt_s1 : list actor := map go (repeat 1 7 ++ repeat 3 3 ++ repeat 0 13)%nat.
Lemma window_example_x :
  let w := rxrun (rxinit cvt_progs) cvt_s1 in
  (exists m u, t_pc (get (mw (xw w)) 0%nat) = UsRelLoad m u /\ wake u = [1%nat]) /\ held (get (mw (xw w)) 0%nat) = None /\
  xferred (xw w) 1%nat = true /\ (exists l, x_pc (xget (xw w) 1%nat) = XwSem l) /\
  ph w = [Pre; Pre; Pre; NonUser] /\ refs w = 3 /\ freed w = false.
Proof.
  cbv zeta. split; [eexists; eexists; split; vm_compute; reflexivity|]. split; [vm_compute; reflexivity|].
  split; [vm_compute; reflexivity|]. split; [eexists; vm_compute; reflexivity|].
  split; [vm_compute; reflexivity|]. split; vm_compute; reflexivity.
Qed.

(* ... the run goes on: everybody decrements, thread 2 frees; thread 3 -- which owns no reference -- is still inside nsync_wait_n
   (woken, not yet running) and has its nsync_cv_signal to do: it finishes both AFTER the free without touching the mutex *)
Definition cvt_s2 : list actor := map go (repeat 0 30 ++ repeat 1 40 ++ repeat 2 9)%nat.
Definition cvt_s3 : list actor := map go (repeat 3 20)%nat.
Lemma after_free_example_x :
  let w1 := rxrun (rxrun (rxinit cvt_progs) cvt_s1) cvt_s2 in
  let w2 := rxrun w1 cvt_s3 in
  (freed w1 = true /\ bad w1 = false /\ refs w1 = 0 /\ ph w1 = [Done; Done; Done; NonUser] /\ word (mw (xw w1)) = 0 /\
   (exists om, x_pc (xget (xw w1) 3%nat) = XnSem om) /\ x_ops (xget (xw w1) 3%nat) = [XSignal]) /\
  (bad w2 = false /\ x_pc (xget (xw w2) 3%nat) = XIdle /\ x_ops (xget (xw w2) 3%nat) = [] /\ cvq (xw w2) = []).
Proof.
  cbv zeta. split.
  - split; [vm_compute; reflexivity|]. split; [vm_compute; reflexivity|]. split; [vm_compute; reflexivity|].
    split; [vm_compute; reflexivity|]. split; [vm_compute; reflexivity|]. split; [eexists; vm_compute; reflexivity | vm_compute; reflexivity].
  - split; [vm_compute; reflexivity|]. split; [vm_compute; reflexivity|]. split; vm_compute; reflexivity.
Qed.
