(* The code of every function of mu_wait.c, regenerated from /repo on this run (digest of its AST), is the code the models were validated against. *)
From Coq Require Import String List.
From NsyncGen Require Import Body.
From NsyncModel Require Import BodyExpected.

Lemma body_current_mu_wait_c : body_mu_wait_c = expected_body_mu_wait_c.
Proof. vm_compute. reflexivity. Qed.
