(* C16(b) — proofs that the translated emit_init / emit_c (Gen/Emit.v) keep every
   store inside the caller's buffer and leave exactly `expected n cs` there.
   Hand-written; no axioms.  The only place that depends on the shape of the
   generated code is emit_c_model / emit_c_eq below (proved by reflexivity, so a
   change of the generated structure fails loudly there and nowhere else);
   generated temporary names are never mentioned. *)
From NsyncBase Require Import CSem.
From NsyncGen Require Import Emit.
From NsyncProof Require Import EmitSpec.
Local Open Scope Z_scope.
Local Open Scope bool_scope.

(* ------------------------------------------------------------------ *)
(* destruct every integer comparison in the goal, then finish by arithmetic *)
Ltac bdestr :=
  repeat match goal with
  | |- context [?a <=? ?b] => destruct (Z.leb_spec a b)
  | |- context [?a <? ?b]  => destruct (Z.ltb_spec a b)
  | |- context [?a >? ?b]  => destruct (Z.gtb_spec a b)
  | |- context [?a =? ?b]  => destruct (Z.eqb_spec a b)
  end; cbn [andb orb negb].

(* ------------------------------------------------------------------ *)
(* 1. The while loop of emit_c as a named fixpoint, and emit_c re-expressed
      with it.  emit_c_eq is by conversion only. *)

Fixpoint dots_loop (st : Z) (fuel : nat) (p s : Z) (mem : Z -> Z) {struct fuel}
  : Z * Z * (Z -> Z) :=
  match fuel with
  | O => (p, s, mem)
  | S f =>
    if (s >? 4096) && (p >? st)
    then dots_loop st f (p - 1) (s - 1) (upd mem (p - 1) (rom (s - 1)))
    else (p, s, mem)
  end.

Definition emit_c_model (h : Z -> emit_buf) (mem : Z -> Z) (b c : Z) :=
  let '(h, mem) :=
    if emit_buf_pos (h b) <? emit_buf_len (h b) then
      let h' := upd h b (set_emit_buf_pos (h b) (wrap_s 32 (emit_buf_pos (h b) + 1))) in
      (h', upd mem (emit_buf_start (h' b) + emit_buf_pos (h b)) (wrap_s 8 c))
    else
      let '(mem, h) :=
        if negb (znz (emit_buf_overflow (h b))) then
          let '(p, s, mem) :=
            dots_loop (emit_buf_start (h b)) 8
                      (emit_buf_start (h b) + emit_buf_len (h b)) (4096 + 4) mem in
          (mem, upd h b (set_emit_buf_overflow (h b) 1))
        else (mem, h) in
      (h, mem) in
  (h, mem).

Lemma emit_c_eq hb mem b c : emit_c hb mem b c = emit_c_model hb mem b c.
Proof. reflexivity. Qed.

(* what the loop leaves in memory: rom[s-k] at p-k, for k = 1 .. while s-k >= 4096
   and p-k >= st *)
Lemma dots_loop_spec st : forall fuel p s mem,
  4096 <= s -> s - 4096 <= Z.of_nat fuel ->
  forall a, snd (dots_loop st fuel p s mem) a =
    if (st <=? a) && (p - (s - 4096) <=? a) && (a <? p)
    then rom (s - (p - a)) else mem a.
Proof.
  induction fuel as [|f IH]; intros p s mem Hs Hf a.
  - cbn [dots_loop snd]. bdestr; try reflexivity; lia.
  - cbn [dots_loop].
    destruct (Z.gtb_spec s 4096); destruct (Z.gtb_spec p st); cbn [andb snd].
    + rewrite IH by lia. unfold upd.
      bdestr; try reflexivity; try lia; f_equal; lia.
    + bdestr; try reflexivity; lia.
    + bdestr; try reflexivity; lia.
    + bdestr; try reflexivity; lia.
Qed.

(* ------------------------------------------------------------------ *)
(* 2. One call of emit_c, by cases on the buffer record *)

Lemma step_write hb mem b c st ln pos ov :
  hb b = mk_emit_buf st ln pos ov -> pos < ln -> in_s 32 (pos + 1) ->
  exists hb', emit_c hb mem b c = (hb', upd mem (st + pos) (byte c)) /\
              hb' b = mk_emit_buf st ln (pos + 1) ov.
Proof.
  intros H Hlt Hr. rewrite emit_c_eq. unfold emit_c_model. cbv zeta.
  rewrite !upd_same. rewrite H. unfold set_emit_buf_pos.
  cbn [emit_buf_pos emit_buf_len emit_buf_start emit_buf_overflow].
  destruct (Z.ltb_spec pos ln); [|lia].
  eexists; split; [reflexivity|].
  rewrite upd_same. rewrite wrap_s_id; [reflexivity|lia|assumption].
Qed.

Lemma step_ovf hb mem b c st ln pos :
  hb b = mk_emit_buf st ln pos 0 -> ln <= pos ->
  exists hb' mem', emit_c hb mem b c = (hb', mem') /\
    hb' b = mk_emit_buf st ln pos 1 /\
    forall a, mem' a =
      if (st <=? a) && (st + ln - 4 <=? a) && (a <? st + ln)
      then rom (4100 - (st + ln - a)) else mem a.
Proof.
  intros H Hge. rewrite emit_c_eq. unfold emit_c_model. cbv zeta.
  rewrite H. unfold set_emit_buf_overflow.
  cbn [emit_buf_pos emit_buf_len emit_buf_start emit_buf_overflow].
  destruct (Z.ltb_spec pos ln); [lia|].
  change (negb (znz 0)) with true. cbv iota.
  change (4096 + 4) with 4100.
  pose proof (dots_loop_spec st 8 (st + ln) 4100 mem ltac:(lia) ltac:(cbn; lia)) as HS.
  destruct (dots_loop st 8 (st + ln) 4100 mem) as [[p s] m'].
  cbn [snd] in HS.
  eexists; eexists; split; [reflexivity|]. split.
  - rewrite upd_same. reflexivity.
  - intros a. rewrite HS. change (4100 - 4096) with 4. reflexivity.
Qed.

Lemma step_noop hb mem b c st ln pos ov :
  hb b = mk_emit_buf st ln pos ov -> ln <= pos -> ov <> 0 ->
  emit_c hb mem b c = (hb, mem).
Proof.
  intros H Hge Hov. rewrite emit_c_eq. unfold emit_c_model. cbv zeta.
  rewrite H. cbn [emit_buf_pos emit_buf_len emit_buf_start emit_buf_overflow].
  destruct (Z.ltb_spec pos ln); [lia|].
  unfold znz. destruct (Z.eqb_spec ov 0); [contradiction|].
  reflexivity.
Qed.

Lemma emit_init_b hb b start n :
  snd (emit_init hb b start n) b = mk_emit_buf start n 0 0.
Proof. unfold emit_init. cbv zeta. cbn [snd]. rewrite !upd_same. reflexivity. Qed.

(* ------------------------------------------------------------------ *)
(* 3. The fold over the characters *)

Definition run (hb : Z -> emit_buf) (mem : Z -> Z) (b : Z) (cs : list Z) :=
  fold_left (fun st c => let '(hb, mem) := st in emit_c hb mem b c) cs (hb, mem).

Lemma emit_all_run hb mem b start n cs :
  emit_all hb mem b start n cs = run (snd (emit_init hb b start n)) mem b cs.
Proof. reflexivity. Qed.

Lemma run_snoc hb mem b l c :
  run hb mem b (l ++ [c]) = let '(hb', mem') := run hb mem b l in emit_c hb' mem' b c.
Proof. unfold run. rewrite fold_left_app. reflexivity. Qed.

(* State after the characters l, L = |l|, m = max n 0:
   - L <= m (no overflow yet): pos = L, overflow = 0, buffer holds byte l[i] for i < L
   - L >  m (overflowed):      pos = m, overflow = 1, buffer holds byte l[i] for
     i < n-4 and the last min(n,4) bytes of "...\0" after that
   and in both cases nothing outside [start, start+m) has changed. *)
Lemma run_inv hb0 mem0 b start n :
  int_range n -> hb0 b = mk_emit_buf start n 0 0 ->
  forall l, exists hb' mem', run hb0 mem0 b l = (hb', mem') /\
    (forall a, a < start \/ start + Z.max n 0 <= a -> mem' a = mem0 a) /\
    if Z.of_nat (length l) <=? Z.max n 0 then
      hb' b = mk_emit_buf start n (Z.of_nat (length l)) 0 /\
      forall i, (i < length l)%nat -> mem' (start + Z.of_nat i) = byte (nth i l 0)
    else
      hb' b = mk_emit_buf start n (Z.max n 0) 1 /\
      forall i, Z.of_nat i < n ->
        mem' (start + Z.of_nat i) =
          if Z.of_nat i <? n - 4 then byte (nth i l 0)
          else rom (4096 + (Z.of_nat i - (n - 4))).
Proof.
  intros Hn H0.
  assert (Hn' : n < 2147483648).
  { unfold int_range, in_s in Hn. change (2 ^ (32 - 1)) with 2147483648 in Hn. lia. }
  induction l as [|c l IH] using rev_ind.
  - exists hb0, mem0. split; [reflexivity|]. split; [auto|].
    cbn [length Z.of_nat]. destruct (Z.leb_spec 0 (Z.max n 0)); [|lia].
    split; [exact H0|]. intros i Hi; inversion Hi.
  - destruct IH as (hb1 & mem1 & E & Hout & Hin).
    rewrite run_snoc, E. rewrite app_length. cbn [length].
    rewrite Nat2Z.inj_add. change (Z.of_nat 1) with 1.
    destruct (Z.leb_spec (Z.of_nat (length l)) (Z.max n 0)) as [HL|HL].
    + destruct Hin as [Hb Hmem].
      destruct (Z.ltb_spec (Z.of_nat (length l)) n) as [HLn|HLn].
      * (* room left: store the character *)
        destruct (step_write hb1 mem1 b c _ _ _ _ Hb HLn) as (hb2 & E2 & Hb2).
        { unfold in_s. change (2 ^ (32 - 1)) with 2147483648. lia. }
        exists hb2, (upd mem1 (start + Z.of_nat (length l)) (byte c)).
        split; [exact E2|]. split.
        { intros a Ha. rewrite upd_other by lia. apply Hout; lia. }
        destruct (Z.leb_spec (Z.of_nat (length l) + 1) (Z.max n 0)); [|lia].
        split; [exact Hb2|].
        intros i Hi. destruct (Nat.eq_dec i (length l)) as [->|Hne].
        -- rewrite upd_same. rewrite app_nth2 by lia. rewrite Nat.sub_diag. reflexivity.
        -- rewrite upd_other by lia. rewrite app_nth1 by lia. apply Hmem; lia.
      * (* buffer exactly full (or n <= 0): first overflowing character *)
        destruct (step_ovf hb1 mem1 b c _ _ _ Hb HLn) as (hb2 & mem2 & E2 & Hb2 & Hm2).
        exists hb2, mem2. split; [exact E2|]. split.
        { intros a Ha. rewrite Hm2. bdestr; try lia; apply Hout; lia. }
        destruct (Z.leb_spec (Z.of_nat (length l) + 1) (Z.max n 0)); [lia|].
        split.
        { rewrite Hb2. f_equal. lia. }
        intros i Hi. rewrite Hm2.
        destruct (Z.ltb_spec (Z.of_nat i) (n - 4)).
        -- bdestr; try lia. rewrite app_nth1 by lia. apply Hmem; lia.
        -- bdestr; try lia. f_equal. lia.
    + (* already overflowed: nothing changes *)
      destruct Hin as [Hb Hmem].
      rewrite (step_noop hb1 mem1 b c _ _ _ _ Hb) by lia.
      exists hb1, mem1. split; [reflexivity|]. split; [exact Hout|].
      destruct (Z.leb_spec (Z.of_nat (length l) + 1) (Z.max n 0)); [lia|].
      split; [exact Hb|].
      intros i Hi. rewrite Hmem by assumption.
      destruct (Z.ltb_spec (Z.of_nat i) (n - 4)); [|reflexivity].
      rewrite app_nth1 by lia. reflexivity.
Qed.

(* ------------------------------------------------------------------ *)
(* 4. The two statements used by Props/Properties_C16.v *)

Lemma emit_all_inside : forall hb mem b start n cs,
  int_range n ->
  let '(hb', mem') := emit_all hb mem b start n cs in
  forall a, (a < start \/ start + Z.max n 0 <= a) -> mem' a = mem a.
Proof.
  intros hb mem b start n cs Hn.
  destruct (run_inv _ mem b start n Hn (emit_init_b hb b start n) cs)
    as (hb' & mem' & E & Hout & _).
  rewrite emit_all_run, E. exact Hout.
Qed.

Lemma nth_map_byte i l : nth i (map byte l) 0 = byte (nth i l 0).
Proof. exact (map_nth byte l 0 i). Qed.

Lemma nth_firstn_lt {A} (d : A) : forall k i l,
  (i < k)%nat -> nth i (firstn k l) d = nth i l d.
Proof.
  induction k as [|k IH]; intros i l Hi; [lia|].
  destruct l as [|x l]; [reflexivity|].
  destruct i as [|i]; [reflexivity|]. cbn [firstn nth]. apply IH. lia.
Qed.

Lemma rom_dots j : (j < 4)%nat -> rom (4096 + Z.of_nat j) = nth j dots 0.
Proof. intros H. do 4 (destruct j as [|j]; [reflexivity|]). lia. Qed.

Lemma emit_all_spec : forall hb mem b start n cs,
  int_range n ->
  let '(hb', mem') := emit_all hb mem b start n (cs ++ [0]) in
  (forall a, (a < start \/ start + Z.max n 0 <= a) -> mem' a = mem a) /\
  (forall i, (i < length (expected n cs))%nat ->
             mem' (start + Z.of_nat i) = nth i (expected n cs) 0) /\
  (Z.of_nat (length (expected n cs)) <= Z.max n 0) /\
  (1 <= n -> last (expected n cs) 1 = 0).
Proof.
  intros hb mem b start n cs Hn.
  destruct (run_inv _ mem b start n Hn (emit_init_b hb b start n) (cs ++ [0]))
    as (hb' & mem' & E & Hout & Hin).
  rewrite emit_all_run, E.
  rewrite app_length in Hin. cbn [length] in Hin.
  rewrite Nat2Z.inj_add in Hin. change (Z.of_nat 1) with 1 in Hin.
  split; [exact Hout|].
  unfold expected.
  destruct (Z.leb_spec n 0) as [Hn0|Hn0].
  - (* n <= 0: nothing expected *)
    cbn [length]. split; [intros i Hi; inversion Hi|]. split; lia.
  - destruct (Z.leb_spec (Z.of_nat (length cs) + 1) n) as [Hfit|Hfit].
    + (* text and NUL fit *)
      destruct (Z.leb_spec (Z.of_nat (length cs) + 1) (Z.max n 0)); [|lia].
      destruct Hin as [_ Hmem].
      replace (map byte cs ++ [0]) with (map byte (cs ++ [0]))
        by (rewrite map_app; reflexivity).
      rewrite map_length, app_length. cbn [length].
      split; [|split].
      * intros i Hi. rewrite nth_map_byte. apply Hmem. lia.
      * lia.
      * intros _. rewrite map_app. cbn [map]. rewrite last_last. reflexivity.
    + (* truncated *)
      destruct (Z.leb_spec (Z.of_nat (length cs) + 1) (Z.max n 0)); [lia|].
      destruct Hin as [_ Hmem].
      destruct (Z.leb_spec 4 n) as [H4|H4].
      * assert (Hlen : length (firstn (Z.to_nat (n - 4)) (map byte cs)) = Z.to_nat (n - 4)).
        { rewrite firstn_length, map_length. lia. }
        rewrite app_length, Hlen. change (length dots) with 4%nat.
        split; [|split].
        -- intros i Hi. rewrite Hmem by lia.
           destruct (Z.ltb_spec (Z.of_nat i) (n - 4)).
           ++ rewrite !app_nth1 by lia. rewrite nth_firstn_lt by lia.
              rewrite nth_map_byte. reflexivity.
           ++ rewrite app_nth2 by lia. rewrite Hlen.
              rewrite <- rom_dots by lia. f_equal. lia.
        -- lia.
        -- intros _. change dots with ([46; 46; 46] ++ [0]).
           rewrite app_assoc. apply last_last.
      * (* 1 <= n <= 3: the tail of "...\0" that fits *)
        assert (n = 1 \/ n = 2 \/ n = 3) as [-> | [-> | ->]] by lia.
        -- change (skipn (Z.to_nat (4 - 1)) dots) with [0].
           split; [|split; [cbn; lia|reflexivity]].
           intros i Hi. cbn [length] in Hi.
           destruct i as [|i]; [|lia].
           rewrite Hmem by (cbn; lia). reflexivity.
        -- change (skipn (Z.to_nat (4 - 2)) dots) with [46; 0].
           split; [|split; [cbn; lia|reflexivity]].
           intros i Hi. cbn [length] in Hi.
           destruct i as [|[|i]]; [| |lia];
             (rewrite Hmem by (cbn; lia)); reflexivity.
        -- change (skipn (Z.to_nat (4 - 3)) dots) with [46; 46; 0].
           split; [|split; [cbn; lia|reflexivity]].
           intros i Hi. cbn [length] in Hi.
           destruct i as [|[|[|i]]]; [| | |lia];
             (rewrite Hmem by (cbn; lia)); reflexivity.
Qed.
