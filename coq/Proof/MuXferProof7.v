(* MuXferProof7: the result of a cv wait over Model/MuXferModel.v (ghost w_out = "outcome != 0", set as in cv.c only in
   the branch of the confirmation section that finds the waiter still on the cv queue).
   Part A  a summary of what one step does to the wrapper pcs, the transferred flags, the waiting flags and the cv queue
   Part B  OInv: a wait whose outcome is non-zero was never transferred; a waiter that has been taken off the cv queue
           by nsync_cv_signal / broadcast (or transferred) returns 0, whatever its deadline does afterwards. *)
From NsyncBase Require Import CSem.
From NsyncGen Require Import Consts Sites.
From NsyncModel Require Import MuModel MuSpec.
From NsyncProof Require Import WordView MuProof MuProof2.
From NsyncModel Require Import MuXferModel.
From NsyncProof Require Import MuXferProof MuXferProof2 MuXferProof3 MuXferProof4.
From Coq Require Import List ZArith Bool Lia PeanoNat Permutation.
Import ListNotations.
Local Open Scope Z_scope.

(* locals of a wait that has enqueued itself on the cv and has not returned *)
Definition wl3 (xp : xpc) : option xwl :=
  match xp with
  | XwUnlock l | XwLoop l | XwSem l | XwLoad6 l | XwConfirm l | XwLoad13 l | XwReacq l => Some l
  | _ => None
  end.

(* ================================================================== *)
(* Part A: one step, summarised                                        *)
(* ================================================================== *)
Lemma step_sets_waiting w t p : waiting w p = false -> waiting (fst (step w t)) p = true ->
  p = t /\ exists m l, t_pc (get w t) = LsStoreWaiting m l.
Proof.
  intros Wp Wp'. pose proof (step_shape w t) as S. unfold shape in S. cbv zeta in S.
  destruct S as [(_ & Ew & _) | [(_ & _ & _ & _ & Pc & _ & Ew) | [(_ & _ & _ & _ & Ew) | (x & rest & _ & _ & _ & _ & _ & Ew)]]];
    rewrite Ew in Wp'; try congruence.
  - unfold fupd in Wp'. destruct (Nat.eqb_spec p t) as [->|]; [auto | congruence].
  - unfold fupd in Wp'. destruct (Nat.eqb p x); congruence.
Qed.

(* ================================================================== *)
(* Part B: the outcome invariant                                       *)
(* ================================================================== *)
Definition OInv (xw : xworld) : Prop := forall t,
  (forall l, x_pc (xget xw t) = XwEnq l -> w_out l = false) /\
  (forall l, wl3 (x_pc (xget xw t)) = Some l -> w_out l = true ->
     xferred xw t = false /\ (wph2 (x_pc (xget xw t)) = true -> waiting (mw xw) t = false)).

Section Outcome.
Variable n : nat.
Hypothesis Hn : Z.of_nat n < 16777215.

Lemma OInv_upd xw m' q' f' t xs' : OInv xw -> PInv xw -> XInv n xw -> (t < length (xthr xw))%nat ->
  (forall p, f' p = true -> xferred xw p = true \/ exists u, In p (kws xw u)) ->
  (forall p, p <> t -> waiting m' p = true -> waiting (mw xw) p = true) ->
  (forall l', x_pc xs' = XwEnq l' -> w_out l' = false) ->
  (forall l', wl3 (x_pc xs') = Some l' -> w_out l' = true -> f' t = false /\ (wph2 (x_pc xs') = true -> waiting m' t = false)) ->
  OInv (mk_xw m' q' f' (lupd (xthr xw) t xs')).
Proof.
  intros HO (_ & HC & _) HI Ht F2 F3 T1 T2 p. cbn [mw xferred].
  destruct (Nat.eq_dec p t) as [->|N].
  - rewrite xget_lupd_same by exact Ht. split; [exact T1 | exact T2].
  - rewrite xget_lupd_other by exact N. destruct (HO p) as [O1 O2]. split; [exact O1|].
    intros l E Wo. destruct (O2 l E Wo) as [Xp Wp]. split.
    + destruct (f' p) eqn:Fp; [exfalso | reflexivity]. destruct (F2 p Fp) as [X | [u Hu]]; [congruence|].
      destruct HC as (_ & _ & _ & Hw & _). destruct (Hw u p Hu) as (a & b & _).
      destruct (cvs_native xw p b ltac:(destruct (x_pc (xget xw p)); try discriminate E; reflexivity)) as [b1 _].
      rewrite (Wp b1) in a. discriminate a.
    + intros W2. destruct (waiting m' p) eqn:Wm; [|reflexivity]. specialize (F3 p N Wm). rewrite (Wp W2) in F3. discriminate F3.
Qed.

Ltac xnorm :=
  unfold set_xpc, add_xret, set_xt, set_mw, set_cvq, set_xferred, xget; cbn [mw cvq xferred xthr];
  rewrite ?lupd_lupd.
Ltac xn Hx := xnorm; rewrite ?Hx; cbn [x_pc x_ops x_rets].

Lemma xbegin_oinv xw t : OInv xw -> PInv xw -> XInv n xw -> OInv (xbegin xw t).
Proof.
  intros HO HP HI. unfold xbegin. cbv zeta.
  destruct (xget xw t) as [xp xo xr] eqn:Hx. cbn [x_pc x_ops x_rets].
  destruct xp; try exact HO. destruct xo as [|o rest]; try exact HO.
  destruct (mu_idle (mw xw) t) eqn:MI; try exact HO.
  assert (t < length (xthr xw))%nat as Ht by (apply xget_inb; rewrite Hx; discriminate).
  unfold xget in Hx.
  destruct o as [o'|m| | |[m|]|m]; xn Hx; rewrite ?nth_lupd_same by exact Ht; cbn [x_pc x_ops x_rets];
    (apply OInv_upd; [exact HO | exact HP | exact HI | exact Ht | auto | auto | | ]); cbn [x_pc wl3]; try discriminate.
  all: destruct (held (get (mw xw) t)) as [m'|]; [destruct (mode_eqb m m')|]; cbn [wl3]; discriminate.
Qed.

Lemma OInv_mu xw t xs' : OInv xw -> PInv xw -> XInv n xw -> (t < length (xthr xw))%nat ->
  (forall l', x_pc xs' <> XwEnq l') ->
  (forall l', wl3 (x_pc xs') = Some l' -> wl3 (x_pc (xget xw t)) = Some l' /\ (wph2 (x_pc xs') = true -> wph2 (x_pc (xget xw t)) = true)) ->
  OInv (mk_xw (fst (step (mw xw) t)) (cvq xw) (xferred xw) (lupd (xthr xw) t xs')).
Proof.
  intros HO HP HI Ht T1 T2. apply OInv_upd; auto.
  - intros p N Wp. destruct (waiting (mw xw) p) eqn:E; [reflexivity | exfalso].
    destruct (step_sets_waiting _ _ _ E Wp) as [X _]. contradiction.
  - intros l' E. elim (T1 l' E).
  - intros l' E Wo. destruct (T2 l' E) as [E0 W0]. destruct (HO t) as [_ O2]. destruct (O2 l' E0 Wo) as [Xt Wt].
    split; [exact Xt|]. intros W1. specialize (Wt (W0 W1)).
    destruct (waiting (fst (step (mw xw) t)) t) eqn:Wp; [exfalso | reflexivity].
    destruct (step_sets_waiting _ _ _ Wt Wp) as [_ (m & l & Pc)].
    destruct (wph2_pc n xw t HI (W0 W1)) as [X | X]; rewrite Pc in X; discriminate X.
Qed.

Lemma OInv_mu0 xw t : OInv xw -> PInv xw -> XInv n xw -> (t < length (xthr xw))%nat ->
  (forall l', x_pc (xget xw t) <> XwEnq l') ->
  OInv (mk_xw (fst (step (mw xw) t)) (cvq xw) (xferred xw) (xthr xw)).
Proof.
  intros HO HP HI Ht NE.
  replace (mk_xw (fst (step (mw xw) t)) (cvq xw) (xferred xw) (xthr xw))
    with (mk_xw (fst (step (mw xw) t)) (cvq xw) (xferred xw) (lupd (xthr xw) t (xget xw t)))
    by (unfold xget; now rewrite lupd_nth_same).
  apply OInv_mu; auto.
Qed.

Ltac oupd HO HP HI Ht := apply OInv_upd; [exact HO | exact HP | exact HI | exact Ht | | | | ].

Lemma fupd_false_true (f : nat -> bool) k x : fupd f k false x = true -> f x = true.
Proof. unfold fupd. destruct (Nat.eqb x k); [discriminate | auto]. Qed.

Lemma xstep_thr_oinv xw0 t c : XInv n xw0 -> PInv xw0 -> OInv xw0 -> OInv (fst (xstep_thr xw0 t c)).
Proof.
  intros HI0 HP0 HO0. pose proof (xbegin_oinv _ t HO0 HP0 HI0) as HO. apply (xbegin_pinv _ t) in HP0.
  apply (xbegin_inv n Hn _ t) in HI0. clear HO0.
  unfold xstep_thr. set (xw := xbegin xw0 t) in *. clearbody xw. clear xw0. cbv zeta.
  pose proof HI0 as (HI & HL & HT). destruct (HT t) as [Hp _]. pose proof HP0 as (HM & HC & HF).
  destruct (HO t) as [O1 O2].
  destruct (xget xw t) as [xp xo xr] eqn:Hx. cbn [x_pc x_ops x_rets] in *.
  assert (xp <> XIdle -> (t < length (xthr xw))%nat) as HtN.
  { intros NE. apply xget_inb. rewrite Hx. intros E. inversion E. contradiction. }
  pose proof Hx as Hx'. unfold xget in Hx.
  Local Ltac same_l O2 := let l' := fresh "l'" in let E := fresh "E" in let Wo := fresh "Wo" in
    intros l' E Wo; cbn [wl3] in E; injection E as <-; cbn [w_out wl_set_so] in Wo;
    destruct (O2 _ eq_refl Wo) as [? ?]; split; [assumption |
      intros _; first [ match goal with H : _ = true -> ?G |- ?G => exact (H eq_refl) end
                      | match goal with H : _ = true -> _, Wt : waiting _ _ = _ |- _ => rewrite Wt; exact (H eq_refl) end
                      | exfalso; match goal with H : _ = true -> true = false |- _ => discriminate (H eq_refl) end ] ].
  destruct xp.
  - (* XIdle *) unfold mu_step. destruct (step (mw xw) t) as [m' e] eqn:E. cbn [fst]. xnorm.
    assert (m' = fst (step (mw xw) t)) as -> by now rewrite E.
    destruct (Nat.lt_ge_cases t (length (xthr xw))) as [Ht|Ht].
    + apply OInv_mu0; auto. rewrite Hx'. discriminate.
    + assert (step (mw xw) t = (mw xw, EvNone)) as ->.
      { assert (length (thr (mw xw)) <= t)%nat as G by (destruct HI as (-> & _); lia).
        unfold step, begin_op. cbv zeta. rewrite (get_oob _ _ G). cbn [t_pc t_ops dflt_t]. rewrite (get_oob _ _ G). reflexivity. }
      cbn [fst]. destruct xw; exact HO.
  - exact HO.
  - (* XwStore *) assert (t < length (xthr xw))%nat as Ht by (apply HtN; discriminate). cbn [fst]. xn Hx.
    oupd HO HP0 HI0 Ht; cbn [x_pc wl3]; try discriminate.
    + intros p Fp. left. now apply fupd_false_true in Fp.
    + intros p N Wp. cbn [waiting set_waiting] in Wp. now rewrite fupd_other in Wp.
  - (* XwLoadMu *) assert (t < length (xthr xw))%nat as Ht by (apply HtN; discriminate).
    destruct (has (word (mw xw)) MU_WHELD_IF_NON_ZERO), (has (word (mw xw)) MU_RHELD_IF_NON_ZERO); cbn [fst]; xn Hx;
      (oupd HO HP0 HI0 Ht; cbn [x_pc wl3]; try discriminate; auto);
      intros l' E; injection E as <-; reflexivity.
  - (* XwEnq *) assert (t < length (xthr xw))%nat as Ht by (apply HtN; discriminate). cbn [fst]. xn Hx.
    oupd HO HP0 HI0 Ht; cbn [x_pc wl3]; try discriminate; auto.
    intros l' E Wo. injection E as <-. rewrite (O1 _ eq_refl) in Wo. discriminate Wo.
  - (* XwUnlock *) assert (t < length (xthr xw))%nat as Ht by (apply HtN; discriminate).
    unfold mu_step. destruct (step (mw xw) t) as [m' e] eqn:E. xnorm.
    assert (m' = fst (step (mw xw) t)) as Em by now rewrite E.
    cbn [mw]. destruct (mu_pc_idle m' t); cbn [fst]; xn Hx; rewrite Em.
    + apply OInv_mu; auto; cbn [x_pc]; [discriminate|]. rewrite Hx'. cbn [x_pc wl3 wph2]. auto.
    + apply OInv_mu0; auto. rewrite Hx'. discriminate.
  - (* XwLoop *) assert (t < length (xthr xw))%nat as Ht by (apply HtN; discriminate).
    destruct (waiting (mw xw) t) eqn:Wt; cbn [fst]; xn Hx.
    + destruct (w_so l); (oupd HO HP0 HI0 Ht; cbn [x_pc]; try discriminate; auto); try same_l O2.
    + oupd HO HP0 HI0 Ht; cbn [x_pc]; try discriminate; auto.
      intros l' E Wo. cbn [wl3] in E. injection E as <-. destruct (O2 _ eq_refl Wo) as [X _]. split; [exact X | discriminate].
  - (* XwSem *) assert (t < length (xthr xw))%nat as Ht by (apply HtN; discriminate).
    destruct c; [destruct (0 <? sem (mw xw) t)|]; cbn [fst]; try exact HO; xn Hx;
      (oupd HO HP0 HI0 Ht; cbn [x_pc]; try discriminate; auto); try same_l O2.
  - (* XwLoad6 *) assert (t < length (xthr xw))%nat as Ht by (apply HtN; discriminate).
    destruct (waiting (mw xw) t) eqn:Wt; cbn [fst]; xn Hx; (oupd HO HP0 HI0 Ht; cbn [x_pc]; try discriminate; auto); try same_l O2.
  - (* XwConfirm *) assert (t < length (xthr xw))%nat as Ht by (apply HtN; discriminate).
    destruct (mem_id t (cvq xw)) eqn:Mi; cbn [fst]; xn Hx.
    + oupd HO HP0 HI0 Ht; cbn [x_pc]; try discriminate; auto.
      * intros p N Wp. cbn [waiting set_waiting] in Wp. now rewrite fupd_other in Wp.
      * intros l' E Wo. cbn [wl3] in E. injection E as <-. apply mem_id_in in Mi.
        destruct HC as (_ & Hq & _). destruct (Hq t Mi) as [_ Ct].
        destruct (cvs_native xw t Ct ltac:(rewrite Hx'; reflexivity)) as [_ Ct']. split; [exact Ct'|]. intros _. cbn [waiting set_waiting].
        rewrite fupd_same. reflexivity.
    + oupd HO HP0 HI0 Ht; cbn [x_pc]; try discriminate; auto; try same_l O2.
  - (* XwLoad13 *) assert (t < length (xthr xw))%nat as Ht by (apply HtN; discriminate).
    cbn [fst]; xn Hx; (oupd HO HP0 HI0 Ht; cbn [x_pc]; try discriminate; auto); try same_l O2.
  - (* XwReacq *) assert (t < length (xthr xw))%nat as Ht by (apply HtN; discriminate).
    unfold mu_step. destruct (step (mw xw) t) as [m' e] eqn:E. xnorm.
    assert (m' = fst (step (mw xw) t)) as Em by now rewrite E.
    cbn [mw]. destruct (mu_pc_idle m' t); cbn [fst]; xn Hx.
    + rewrite nth_lupd_same by exact Ht. cbn [x_ops x_rets]. rewrite Em.
      apply OInv_mu; auto; cbn [x_pc wl3]; discriminate.
    + rewrite Em. apply OInv_mu0; auto. rewrite Hx'. discriminate.
  - (* XkLoad *) assert (t < length (xthr xw))%nat as Ht by (apply HtN; discriminate).
    destruct c; [|destruct (cvq xw)]; cbn [fst]; try exact HO; xn Hx;
      (oupd HO HP0 HI0 Ht; cbn [x_pc wl3]; try discriminate; auto).
  - (* XkSelect *) assert (t < length (xthr xw))%nat as Ht by (apply HtN; discriminate).
    destruct (if bc then sel_broadcast (xrd xw) (cvq xw) else sel_signal (xrd xw) (cvq xw)) as [[wk kp] allr].
    destruct wk as [|f wk']; [|destruct (nrec xw f)]; cbn [fst]; xn Hx; (oupd HO HP0 HI0 Ht; cbn [x_pc wl3]; try discriminate; auto).
  - (* XvLoad1 *) assert (t < length (xthr xw))%nat as Ht by (apply HtN; discriminate).
    destruct (xfer_wanted (wtype (mw xw)) (word (mw xw)) k); cbn [fst]; xn Hx;
      [|unfold wake_loop; destruct (k_wake k)]; (oupd HO HP0 HI0 Ht; cbn [x_pc wl3]; try discriminate; auto).
  - (* XvCas1 *) assert (t < length (xthr xw))%nat as Ht by (apply HtN; discriminate).
    unfold cas. destruct (word (mw xw) =? wake_waiters_cas1_old old); cbv beta iota.
    + pose proof (xfer_perm (nrec xw) (wtype (mw xw)) (first_cant_acquire (wtype (mw xw)) old (k_wake k)) (k_wake k)) as Pm.
      destruct (xfer (nrec xw) (wtype (mw xw)) (first_cant_acquire (wtype (mw xw)) old (k_wake k)) (k_wake k)) as [[moved stay] set_on].
      cbn [fst snd] in Pm. cbn [fst]. xn Hx. oupd HO HP0 HI0 Ht; cbn [x_pc wl3]; try discriminate; auto.
      intros p Fp. apply set_all_true in Fp. destruct Fp as [Fp | [Fp _]]; [left; exact Fp | right].
      exists t. unfold kws. rewrite Hx'. cbn [x_pc kwl]. apply (Permutation_in _ Pm), in_or_app. now left.
    + cbn [fst]. xn Hx. unfold wake_loop; destruct (k_wake k); (oupd HO HP0 HI0 Ht; cbn [x_pc wl3]; try discriminate; auto).
  - (* XvLoad3 *) assert (t < length (xthr xw))%nat as Ht by (apply HtN; discriminate).
    cbn [fst]; xn Hx; (oupd HO HP0 HI0 Ht; cbn [x_pc wl3]; try discriminate; auto).
  - (* XvCas2 *) assert (t < length (xthr xw))%nat as Ht by (apply HtN; discriminate).
    unfold cas. destruct (word (mw xw) =? wake_waiters_cas2_old old); cbv beta iota; cbn [fst]; xn Hx;
      [unfold wake_loop; destruct (k_wake k)|]; (oupd HO HP0 HI0 Ht; cbn [x_pc wl3]; try discriminate; auto).
  - (* XvLoad5 *) assert (t < length (xthr xw))%nat as Ht by (apply HtN; discriminate).
    cbn [fst]; xn Hx; (oupd HO HP0 HI0 Ht; cbn [x_pc wl3]; try discriminate; auto).
  - (* XvStore *) assert (t < length (xthr xw))%nat as Ht by (apply HtN; discriminate).
    destruct (k_wake k) as [|p rest]; cbn [fst]; xn Hx; (oupd HO HP0 HI0 Ht; cbn [x_pc wl3]; try discriminate; auto).
    intros q N Wq. cbn [waiting set_waiting] in Wq. now apply fupd_false_true in Wq.
  - (* XvV *) assert (t < length (xthr xw))%nat as Ht by (apply HtN; discriminate).
    cbn [fst]; xn Hx; unfold wake_loop; destruct (k_wake k); (oupd HO HP0 HI0 Ht; cbn [x_pc wl3]; try discriminate; auto).
  - (* XnStore0 *) assert (t < length (xthr xw))%nat as Ht by (apply HtN; discriminate). cbn [fst]. xn Hx.
    oupd HO HP0 HI0 Ht; cbn [x_pc wl3]; try discriminate; auto.
    intros p N Wp. cbn [waiting set_waiting] in Wp. now rewrite fupd_other in Wp.
  - (* XnEnq *) assert (t < length (xthr xw))%nat as Ht by (apply HtN; discriminate).
    destruct om as [m|]; cbn [fst]; xn Hx; (oupd HO HP0 HI0 Ht; cbn [x_pc wl3]; try discriminate; auto);
      intros p N Wp; cbn [waiting set_waiting set_pc set_t] in Wp; now rewrite fupd_other in Wp.
  - (* XnUnlock *) assert (t < length (xthr xw))%nat as Ht by (apply HtN; discriminate).
    unfold mu_step. destruct (step (mw xw) t) as [m' e] eqn:E. xnorm.
    assert (m' = fst (step (mw xw) t)) as Em by now rewrite E.
    cbn [mw]. destruct (mu_pc_idle m' t); cbn [fst]; xn Hx; rewrite Em.
    + apply OInv_mu; auto; cbn [x_pc wl3]; discriminate.
    + apply OInv_mu0; auto. rewrite Hx'. discriminate.
  - (* XnReady *) assert (t < length (xthr xw))%nat as Ht by (apply HtN; discriminate).
    destruct (cv_ready_time_load1_guard (b2z (waiting (mw xw) t))); cbn [fst]; xn Hx;
      (oupd HO HP0 HI0 Ht; cbn [x_pc wl3]; try discriminate; auto).
  - (* XnSem *) assert (t < length (xthr xw))%nat as Ht by (apply HtN; discriminate).
    destruct c; [destruct (0 <? sem (mw xw) t)|]; cbn [fst]; try exact HO; xn Hx;
      (oupd HO HP0 HI0 Ht; cbn [x_pc wl3]; try discriminate; auto).
  - (* XnDeq *) assert (t < length (xthr xw))%nat as Ht by (apply HtN; discriminate).
    destruct (waiting (mw xw) t && cv_dequeue_store1_guard (b2z (mem_id t (cvq xw)))); [destruct om as [m|]|]; cbn [fst]; xn Hx;
      (oupd HO HP0 HI0 Ht; cbn [x_pc wl3]; try discriminate; auto);
      intros p N Wp; cbn [waiting set_waiting set_pc set_t] in Wp; now rewrite fupd_other in Wp.
  - (* XnSpin *) assert (t < length (xthr xw))%nat as Ht by (apply HtN; discriminate).
    destruct (waiting (mw xw) t); [|destruct om as [m|]]; cbn [fst]; try exact HO; xn Hx;
      (oupd HO HP0 HI0 Ht; cbn [x_pc wl3]; try discriminate; auto).
  - (* XnReacq *) assert (t < length (xthr xw))%nat as Ht by (apply HtN; discriminate).
    unfold mu_step. destruct (step (mw xw) t) as [m' e] eqn:E. xnorm.
    assert (m' = fst (step (mw xw) t)) as Em by now rewrite E.
    cbn [mw]. destruct (mu_pc_idle m' t); cbn [fst]; xn Hx.
    + rewrite nth_lupd_same by exact Ht. cbn [x_ops x_rets]. rewrite Em.
      apply OInv_mu; auto; cbn [x_pc wl3]; discriminate.
    + rewrite Em. apply OInv_mu0; auto. rewrite Hx'. discriminate.
  - (* XgStore *) assert (t < length (xthr xw))%nat as Ht by (apply HtN; discriminate). cbn [fst]. xn Hx.
    oupd HO HP0 HI0 Ht; cbn [x_pc wl3]; try discriminate.
    + intros p Fp. left. now apply fupd_false_true in Fp.
    + intros p N Wp. cbn [waiting set_waiting] in Wp. now rewrite fupd_other in Wp.
    + intros l' E. injection E as <-. reflexivity.
Qed.
End Outcome.

Section OutcomeRun.
Variable n : nat.
Hypothesis Hn : Z.of_nat n < 16777215.

Lemma xstep_oinv xw a : XInv n xw -> PInv xw -> OInv xw -> OInv (fst (xstep xw a)).
Proof. destruct a as [t c|p]; [apply xstep_thr_oinv; exact Hn|]. intros _ _ H0. exact H0. Qed.

Lemma xrun_oinv sched : forall xw, XInv n xw -> PInv xw -> OInv xw ->
  XInv n (xrun xw sched) /\ PInv (xrun xw sched) /\ OInv (xrun xw sched).
Proof.
  unfold xrun. induction sched as [|a rest IH]; intros xw H HP HO; cbn [fold_left]; [auto|].
  apply IH; [apply xstep_inv; assumption | apply (xstep_pinv n Hn); assumption | apply xstep_oinv; assumption].
Qed.
End OutcomeRun.

Lemma xinit_oinv progs : OInv (xinit progs).
Proof.
  destruct (xinit_pcs progs) as [PX _]. intros t. rewrite PX. split; intros l E; discriminate E.
Qed.

Lemma xreachable_oinv progs sched : Z.of_nat (length progs) < 2 ^ 24 - 1 ->
  let xw := xrun (xinit progs) sched in XInv (length progs) xw /\ PInv xw /\ OInv xw.
Proof. intros H. apply (xrun_oinv (length progs) H); [apply xinit_inv | apply xinit_pinv | apply xinit_oinv]. Qed.

(* a wait that was transferred to the mutex queue returns 0 *)
Lemma x_transferred_returns_zero : forall progs sched t l,
  Z.of_nat (length progs) < 2 ^ 24 - 1 ->
  let xw := xrun (xinit progs) sched in
  wl3 (x_pc (xget xw t)) = Some l -> xferred xw t = true -> w_out l = false.
Proof.
  intros progs sched t l H xw E X. destruct (xreachable_oinv progs sched H) as (_ & _ & HO). fold xw in HO.
  destruct (w_out l) eqn:Wo; [|reflexivity]. destruct (HO t) as [_ O2]. destruct (O2 l E Wo) as [X' _]. congruence.
Qed.

(* a waiter that nsync_cv_signal / broadcast has taken off the cv queue (it is on the to_wake_list of a thread inside
   wake_waiters) has outcome 0 so far *)
Lemma x_picked_zero : forall progs sched t u,
  Z.of_nat (length progs) < 2 ^ 24 - 1 ->
  let xw := xrun (xinit progs) sched in
  In t (kws xw u) ->
  (xn_rec (x_pc (xget xw t)) = true /\ ~ In t (cvq xw)) \/
  exists l, wl3 (x_pc (xget xw t)) = Some l /\ w_out l = false /\ ~ In t (cvq xw).
Proof.
  intros progs sched t u H xw Hin. destruct (xreachable_oinv progs sched H) as (_ & (_ & HC & _) & HO). fold xw in HC, HO.
  destruct HC as (_ & _ & _ & Hw & _). destruct (Hw u t Hin) as (Wt & Ct & Nq).
  destruct (xn_rec (x_pc (xget xw t))) eqn:NR; [left; auto | right].
  destruct (cvs_native xw t Ct NR) as [W2 _].
  assert (exists l, wl3 (x_pc (xget xw t)) = Some l) as [l E] by (destruct (x_pc (xget xw t)); try discriminate W2; cbn [wl3]; eauto).
  exists l. split; [exact E|]. split; [|exact Nq].
  destruct (w_out l) eqn:Wo; [|reflexivity]. destruct (HO t) as [_ O2]. destruct (O2 l E Wo) as [_ X]. rewrite (X W2) in Wt. discriminate Wt.
Qed.

(* "outcome 0 and off the cv queue" is stable until the wait returns *)
Definition x_zero (xw : xworld) (t : nat) : Prop :=
  exists l, wl3 (x_pc (xget xw t)) = Some l /\ w_out l = false /\ ~ In t (cvq xw).
Definition x_returns_zero (xw xw' : xworld) (t : nat) : Prop :=
  exists l, x_pc (xget xw t) = XwReacq l /\ w_out l = false /\ x_pc (xget xw' t) = XIdle.

Lemma zero_upd xw m' q' f' u xs' t : (u < length (xthr xw))%nat -> x_zero xw t ->
  (forall p, In p q' -> In p (cvq xw) \/ p = u) ->
  (forall l, wl3 (x_pc (xget xw u)) = Some l -> w_out l = false -> ~ In u (cvq xw) ->
     (exists l', wl3 (x_pc xs') = Some l' /\ w_out l' = false /\ ~ In u q') \/
     (x_pc (xget xw u) = XwReacq l /\ x_pc xs' = XIdle)) ->
  x_zero (mk_xw m' q' f' (lupd (xthr xw) u xs')) t \/ x_returns_zero xw (mk_xw m' q' f' (lupd (xthr xw) u xs')) t.
Proof.
  intros Hu (l & E & Wo & Nq) F OT. destruct (Nat.eq_dec t u) as [->|N].
  - destruct (OT l E Wo Nq) as [(l' & E' & Wo' & Nq') | [E1 E2]].
    + left. exists l'. rewrite xget_lupd_same by exact Hu. auto.
    + right. exists l. rewrite xget_lupd_same by exact Hu. auto.
  - left. exists l. rewrite xget_lupd_other by exact N. split; [exact E | split; [exact Wo|]].
    cbn [cvq]. intros Hin. destruct (F t Hin) as [X | X]; [exact (Nq X) | exact (N X)].
Qed.

Lemma remove_id_incl r l : incl (remove_id r l) l.
Proof. intros x Hx. apply remove_id_in in Hx. apply Hx. Qed.

Section ZeroStable.
Variable n : nat.
Hypothesis Hn : Z.of_nat n < 16777215.

Ltac xnorm :=
  unfold set_xpc, add_xret, set_xt, set_mw, set_cvq, set_xferred, xget; cbn [mw cvq xferred xthr];
  rewrite ?lupd_lupd.
Ltac xn Hx := xnorm; rewrite ?Hx; cbn [x_pc x_ops x_rets].

Lemma xbegin_zero xw u t : x_zero xw t -> x_zero (xbegin xw u) t.
Proof.
  intros HZ. unfold xbegin. cbv zeta.
  destruct (xget xw u) as [xp xo xr] eqn:Hx. cbn [x_pc x_ops x_rets].
  destruct xp; try exact HZ. destruct xo as [|o rest]; try exact HZ.
  destruct (mu_idle (mw xw) u) eqn:MI; try exact HZ.
  assert (u < length (xthr xw))%nat as Hu by (apply xget_inb; rewrite Hx; discriminate).
  pose proof Hx as Hx'. unfold xget in Hx.
  destruct HZ as (l & E & Wo & Nq).
  assert (t <> u) as N by (intros ->; rewrite Hx' in E; discriminate E).
  exists l. unfold xget in E.
  destruct o as [o'|m| | |[m|]|m]; xn Hx; rewrite ?nth_lupd_other by exact N; auto.
Qed.

Ltac zupd Hu HZ Hx' := apply zero_upd; [exact Hu | exact HZ | cbn [cvq]; auto | rewrite Hx'; cbn [x_pc wl3]; intros l0 E0 W0 N0; try discriminate E0 ].
Ltac stay l0 E0 W0 N0 := left; injection E0 as <-; eexists; cbn [x_pc wl3]; split; [reflexivity | split; [cbn [w_out wl_set_so]; exact W0 | exact N0]].

Lemma xstep_thr_zero xw0 u c t : x_zero xw0 t ->
  x_zero (fst (xstep_thr xw0 u c)) t \/ x_returns_zero xw0 (fst (xstep_thr xw0 u c)) t.
Proof.
  intros HZ0. pose proof (xbegin_zero _ u t HZ0) as HZ.
  assert (forall l, x_pc (xget (xbegin xw0 u) t) = XwReacq l -> x_pc (xget xw0 t) = XwReacq l) as RB.
  { intros l E. destruct (Nat.eq_dec t u) as [->|N].
    - destruct (x_pc (xget xw0 u)) eqn:E0; try (rewrite xbegin_nonidle in E by (rewrite E0; discriminate); congruence).
      destruct HZ0 as (l0 & E1 & _). rewrite E0 in E1. discriminate E1.
    - revert E. unfold xbegin. cbv zeta. destruct (xget xw0 u) as [xp xo xr] eqn:Hx. cbn [x_pc x_ops x_rets].
      destruct xp; auto. destruct xo as [|o rest]; auto. destruct (mu_idle (mw xw0) u); auto.
      destruct o as [o'|m| | |[m|]|m]; xnorm; rewrite ?nth_lupd_other by exact N; auto. }
  assert (x_zero (fst (xstep_thr xw0 u c)) t \/ x_returns_zero (xbegin xw0 u) (fst (xstep_thr xw0 u c)) t) as [Z | (l & E1 & E2 & E3)];
    [|left; exact Z | right; exists l; auto].
  clear HZ0 RB.
  unfold xstep_thr. set (xw := xbegin xw0 u) in *. clearbody xw. clear xw0. cbv zeta.
  destruct (xget xw u) as [xp xo xr] eqn:Hx. cbn [x_pc x_ops x_rets] in *.
  assert (xp <> XIdle -> (u < length (xthr xw))%nat) as HtN.
  { intros NE. apply xget_inb. rewrite Hx. intros E. inversion E. contradiction. }
  pose proof Hx as Hx'. unfold xget in Hx.
  destruct xp.
  - (* XIdle *) unfold mu_step. destruct (step (mw xw) u) as [m' e]. cbn [fst]. xnorm.
    left. destruct HZ as (l & E & Wo & Nq). exists l. auto.
  - left. exact HZ.
  - assert (u < length (xthr xw))%nat as Hu by (apply HtN; discriminate). cbn [fst]. xn Hx. zupd Hu HZ Hx'.
  - assert (u < length (xthr xw))%nat as Hu by (apply HtN; discriminate).
    destruct (has (word (mw xw)) MU_WHELD_IF_NON_ZERO), (has (word (mw xw)) MU_RHELD_IF_NON_ZERO); cbn [fst]; xn Hx; zupd Hu HZ Hx'.
  - (* XwEnq *) assert (u < length (xthr xw))%nat as Hu by (apply HtN; discriminate). cbn [fst]. xn Hx. zupd Hu HZ Hx'.
    intros p Hp. apply in_app_or in Hp. destruct Hp as [Hp | [<- | []]]; auto.
  - (* XwUnlock *) assert (u < length (xthr xw))%nat as Hu by (apply HtN; discriminate).
    unfold mu_step. destruct (step (mw xw) u) as [m' e]. xnorm. cbn [mw].
    destruct (mu_pc_idle m' u); cbn [fst]; xn Hx.
    + zupd Hu HZ Hx'. stay l0 E0 W0 N0.
    + left. destruct HZ as (l0 & E & Wo & Nq). exists l0. auto.
  - (* XwLoop *) assert (u < length (xthr xw))%nat as Hu by (apply HtN; discriminate).
    destruct (waiting (mw xw) u); cbn [fst]; xn Hx; [destruct (w_so l)|]; zupd Hu HZ Hx'; stay l0 E0 W0 N0.
  - (* XwSem *) assert (u < length (xthr xw))%nat as Hu by (apply HtN; discriminate).
    destruct c; [destruct (0 <? sem (mw xw) u)|]; cbn [fst]; try (left; exact HZ); xn Hx; zupd Hu HZ Hx'; stay l0 E0 W0 N0.
  - (* XwLoad6 *) assert (u < length (xthr xw))%nat as Hu by (apply HtN; discriminate).
    destruct (waiting (mw xw) u); cbn [fst]; xn Hx; zupd Hu HZ Hx'; stay l0 E0 W0 N0.
  - (* XwConfirm *) assert (u < length (xthr xw))%nat as Hu by (apply HtN; discriminate).
    destruct (mem_id u (cvq xw)) eqn:Mi; cbn [fst]; xn Hx; zupd Hu HZ Hx'.
    + intros p Hp. left. apply (remove_id_incl _ _ _ Hp).
    + exfalso. apply N0. apply mem_id_in. exact Mi.
    + stay l0 E0 W0 N0.
  - (* XwLoad13 *) assert (u < length (xthr xw))%nat as Hu by (apply HtN; discriminate).
    cbn [fst]; xn Hx; zupd Hu HZ Hx'; stay l0 E0 W0 N0.
  - (* XwReacq *) assert (u < length (xthr xw))%nat as Hu by (apply HtN; discriminate).
    unfold mu_step. destruct (step (mw xw) u) as [m' e]. xnorm. cbn [mw].
    destruct (mu_pc_idle m' u); cbn [fst]; xn Hx.
    + rewrite nth_lupd_same by exact Hu. cbn [x_ops x_rets]. zupd Hu HZ Hx'.
      right. injection E0 as <-. split; reflexivity.
    + left. destruct HZ as (l0 & E & Wo & Nq). exists l0. auto.
  - assert (u < length (xthr xw))%nat as Hu by (apply HtN; discriminate).
    destruct c; [|destruct (cvq xw) eqn:Eq]; cbn [fst]; try (left; exact HZ); xn Hx; rewrite <- ?Eq; zupd Hu HZ Hx'.
  - (* XkSelect *) assert (u < length (xthr xw))%nat as Hu by (apply HtN; discriminate).
    assert (Permutation (fst (fst (if bc then sel_broadcast (xrd xw) (cvq xw) else sel_signal (xrd xw) (cvq xw))) ++
                         snd (fst (if bc then sel_broadcast (xrd xw) (cvq xw) else sel_signal (xrd xw) (cvq xw))))
                        (cvq xw)) as Pm by (destruct bc; [apply sel_broadcast_perm | apply sel_signal_perm]).
    destruct (if bc then sel_broadcast (xrd xw) (cvq xw) else sel_signal (xrd xw) (cvq xw)) as [[wk kp] allr].
    cbn [fst snd] in Pm.
    destruct wk as [|f wk']; [|destruct (nrec xw f)]; cbn [fst]; xn Hx; zupd Hu HZ Hx'; intros p Hp; left; apply (Permutation_in _ Pm), in_or_app; now right.
  - assert (u < length (xthr xw))%nat as Hu by (apply HtN; discriminate).
    destruct (xfer_wanted (wtype (mw xw)) (word (mw xw)) k); cbn [fst]; xn Hx;
      [|unfold wake_loop; destruct (k_wake k)]; zupd Hu HZ Hx'.
  - assert (u < length (xthr xw))%nat as Hu by (apply HtN; discriminate).
    unfold cas. destruct (word (mw xw) =? wake_waiters_cas1_old old); cbv beta iota.
    + destruct (xfer (nrec xw) (wtype (mw xw)) (first_cant_acquire (wtype (mw xw)) old (k_wake k)) (k_wake k)) as [[moved stay] set_on].
      cbn [fst]. xn Hx. zupd Hu HZ Hx'.
    + cbn [fst]. xn Hx. unfold wake_loop; destruct (k_wake k); zupd Hu HZ Hx'.
  - assert (u < length (xthr xw))%nat as Hu by (apply HtN; discriminate). cbn [fst]. xn Hx. zupd Hu HZ Hx'.
  - assert (u < length (xthr xw))%nat as Hu by (apply HtN; discriminate).
    unfold cas. destruct (word (mw xw) =? wake_waiters_cas2_old old); cbv beta iota; cbn [fst]; xn Hx;
      [unfold wake_loop; destruct (k_wake k)|]; zupd Hu HZ Hx'.
  - assert (u < length (xthr xw))%nat as Hu by (apply HtN; discriminate). cbn [fst]. xn Hx. zupd Hu HZ Hx'.
  - assert (u < length (xthr xw))%nat as Hu by (apply HtN; discriminate).
    destruct (k_wake k) as [|p rest]; cbn [fst]; xn Hx; zupd Hu HZ Hx'.
  - assert (u < length (xthr xw))%nat as Hu by (apply HtN; discriminate).
    cbn [fst]; xn Hx; unfold wake_loop; destruct (k_wake k); zupd Hu HZ Hx'.
  - (* XnStore0 *) assert (u < length (xthr xw))%nat as Hu by (apply HtN; discriminate). cbn [fst]. xn Hx. zupd Hu HZ Hx'.
  - (* XnEnq *) assert (u < length (xthr xw))%nat as Hu by (apply HtN; discriminate).
    destruct om as [m|]; cbn [fst]; xn Hx; zupd Hu HZ Hx';
      intros p Hp; apply in_app_or in Hp; destruct Hp as [Hp | [<- | []]]; auto.
  - (* XnUnlock *) assert (u < length (xthr xw))%nat as Hu by (apply HtN; discriminate).
    unfold mu_step. destruct (step (mw xw) u) as [m' e]. xnorm. cbn [mw].
    destruct (mu_pc_idle m' u); cbn [fst]; xn Hx.
    + zupd Hu HZ Hx'.
    + left. destruct HZ as (l0 & E & Wo & Nq). exists l0. auto.
  - (* XnReady *) assert (u < length (xthr xw))%nat as Hu by (apply HtN; discriminate).
    destruct (cv_ready_time_load1_guard (b2z (waiting (mw xw) u))); cbn [fst]; xn Hx; zupd Hu HZ Hx'.
  - (* XnSem *) assert (u < length (xthr xw))%nat as Hu by (apply HtN; discriminate).
    destruct c; [destruct (0 <? sem (mw xw) u)|]; cbn [fst]; try (left; exact HZ); xn Hx; zupd Hu HZ Hx'.
  - (* XnDeq *) assert (u < length (xthr xw))%nat as Hu by (apply HtN; discriminate).
    destruct (waiting (mw xw) u && cv_dequeue_store1_guard (b2z (mem_id u (cvq xw)))); [destruct om as [m|]|]; cbn [fst]; xn Hx;
      zupd Hu HZ Hx'; intros p Hp; left; apply (remove_id_incl _ _ _ Hp).
  - (* XnSpin *) assert (u < length (xthr xw))%nat as Hu by (apply HtN; discriminate).
    destruct (waiting (mw xw) u); [|destruct om as [m|]]; cbn [fst]; try (left; exact HZ); xn Hx; zupd Hu HZ Hx'.
  - (* XnReacq *) assert (u < length (xthr xw))%nat as Hu by (apply HtN; discriminate).
    unfold mu_step. destruct (step (mw xw) u) as [m' e]. xnorm. cbn [mw].
    destruct (mu_pc_idle m' u); cbn [fst]; xn Hx.
    + rewrite nth_lupd_same by exact Hu. cbn [x_ops x_rets]. zupd Hu HZ Hx'.
    + left. destruct HZ as (l0 & E & Wo & Nq). exists l0. auto.
  - (* XgStore *) assert (u < length (xthr xw))%nat as Hu by (apply HtN; discriminate). cbn [fst]. xn Hx. zupd Hu HZ Hx'.
Qed.
End ZeroStable.

Lemma xstep_zero xw a t : x_zero xw t ->
  x_zero (fst (xstep xw a)) t \/ x_returns_zero xw (fst (xstep xw a)) t.
Proof. destruct a as [u c|p]; [apply xstep_thr_zero|]. intros HZ. left. exact HZ. Qed.

(* along any schedule: outcome 0 and off the cv queue stays so until the step in which the wait returns (with 0) *)
Lemma xrun_zero : forall sched xw t, x_zero xw t ->
  x_zero (xrun xw sched) t \/
  exists s1 a s2, sched = s1 ++ a :: s2 /\ x_zero (xrun xw s1) t /\
                  x_returns_zero (xrun xw s1) (fst (xstep (xrun xw s1) a)) t.
Proof.
  induction sched as [|a rest IH]; intros xw t HZ; [left; exact HZ|].
  destruct (xstep_zero xw a t HZ) as [Z | R].
  - destruct (IH _ t Z) as [Z' | (s1 & a' & s2 & E & Z1 & R1)]; [left; exact Z' | right].
    exists (a :: s1), a', s2. split; [rewrite E; reflexivity | split; assumption].
  - right. exists [], a, rest. split; [reflexivity | split; assumption].
Qed.

(* members of a to_wake_list and transferred waiters are in that state *)
Lemma x_transferred_zero : forall progs sched t l,
  Z.of_nat (length progs) < 2 ^ 24 - 1 ->
  let xw := xrun (xinit progs) sched in
  wl3 (x_pc (xget xw t)) = Some l -> wph2 (x_pc (xget xw t)) = true -> xferred xw t = true -> x_zero xw t.
Proof.
  intros progs sched t l H xw E W2 X. exists l. split; [exact E|]. split; [apply (x_transferred_returns_zero progs sched t l H E X)|].
  destruct (xreachable_oinv progs sched H) as (_ & (_ & HC & _) & _). fold xw in HC.
  destruct HC as (_ & Hq & _). intros Hin. destruct (Hq t Hin) as [_ Ct].
  destruct (cvs_native xw t Ct ltac:(destruct (x_pc (xget xw t)); try discriminate W2; reflexivity)) as [_ X']. congruence.
Qed.
