(* CvProof5: layer K of the proofs about Model/CvModel.v -- the run-level account of every nsync_cv_signal /
   nsync_cv_broadcast call, over the ghost history k_q / k_rdrs / k_taken / k_xfer / k_woken / k_posts of the waker's
   locals and the log [wlog] of the completed calls:
     * a broadcast took every record that was queued when it acquired the cv spinlock; a signal took the first one
       and, if that was a native reader, every native reader that was queued;
     * every record taken was handed to the mutex queue or had its waiting flag cleared, exactly one of the two and
       exactly once, and for each cleared flag the owner's semaphore was posted, in the same order.
   Continues Proof/CvProof4.v.
   At the end, layer G (the repair of F16): wake_waiters works on the mutex only when the first waiter is associated with
   it, and moves to the mutex queue only native waiters associated with it, never a waiter of
   nsync_cv_wait_with_deadline_generic with the caller's own lock routines; plus the transfer of the code BEFORE that
   repair ([xfer_rest_old], [run_old]) and the regression run in which it queues a generic waiter on the mutex. *)
From NsyncBase Require Import CSem.
From NsyncGen Require Import Consts Sites.
From NsyncModel Require Import CvModel.
From NsyncProof Require Import CvProof CvProof2 CvProof3 CvProof4.
From Coq Require Import List ZArith Bool Lia PeanoNat.
Import ListNotations.
Local Open Scope Z_scope.

Definition ownr (w : world) (r : nat) : nat := owner (recs w r).

(* what was taken, against what was queued (n: the number of allocated records) *)
Definition cover (n : nat) (k : kl) : Prop :=
  (forall r, In r (k_q k) -> (r < n)%nat) /\ incl (k_taken k) (k_q k) /\
  (k_bc k = true -> k_taken k = k_q k) /\
  (k_bc k = false ->
     match k_q k with
     | [] => k_taken k = []
     | f :: _ => In f (k_taken k) /\ (In f (k_rdrs k) -> incl (k_rdrs k) (k_taken k))
     end).
(* what became of it; fl = Some o: the V on o's semaphore for the last cleared flag is the next step *)
Definition acct (o : nat -> nat) (k : kl) (fl : option nat) : Prop :=
  NoDup (k_xfer k ++ k_woken k ++ k_wake k) /\
  (forall r, In r (k_taken k) <-> In r (k_xfer k ++ k_woken k ++ k_wake k)) /\
  match fl with
  | None => k_posts k = map o (k_woken k)
  | Some x => exists pre p, k_woken k = pre ++ [p] /\ k_posts k = map o pre /\ x = o p
  end.
Definition stageA (k : kl) : Prop :=
  k_wake k = k_taken k /\ k_xfer k = [] /\ k_woken k = [] /\ k_posts k = [] /\ NoDup (k_taken k).

Definition kinv_pc (n : nat) (o : nat -> nat) (p : pc) : Prop :=
  match p with
  | KRcLoad k | KRcCas k _ | KStoreW k | VLoad1 k | VCas1 k _ => cover n k /\ stageA k
  | VLoad3 k | VCas2 k _ | VLoad5 k | VStore k => cover n k /\ acct o k None
  | VV k x => cover n k /\ acct o k (Some x)
  | _ => True
  end.
Definition done_ok (n : nat) (o : nat -> nat) (k : kl) : Prop := cover n k /\ acct o k None /\ k_wake k = [].
Definition KInv (w : world) : Prop :=
  (forall t, kinv_pc (nrec w) (ownr w) (pcof w t)) /\
  (forall t k, In (t, k) (wlog w) -> done_ok (nrec w) (ownr w) k).

Lemma stageA_acct o k : stageA k -> acct o k None.
Proof.
  intros (A & B & C & D & E). unfold acct. rewrite A, B, C, D. simpl. repeat split; auto.
Qed.
Lemma cover_mono n n' k : (n <= n')%nat -> cover n k -> cover n' k.
Proof. intros Hn (A & B). split; [intros r Hr; specialize (A r Hr); lia | exact B]. Qed.
Lemma acct_ext n o o' k fl : cover n k -> (forall r, (r < n)%nat -> o' r = o r) -> acct o k fl -> acct o' k fl.
Proof.
  intros (A & B & _) He (N & I & P). split; [exact N|]. split; [exact I|].
  assert (Hw : forall r, In r (k_woken k) -> o' r = o r).
  { intros r Hr. apply He, A, B, I. rewrite !in_app_iff. auto. }
  destruct fl as [x|].
  - destruct P as (pre & p & E1 & E2 & E3). exists pre, p. split; [exact E1|]. rewrite E1 in Hw. split.
    + rewrite E2. apply map_ext_in. intros r Hr. symmetry. apply Hw. rewrite in_app_iff. auto.
    + rewrite E3. symmetry. apply Hw. rewrite in_app_iff. simpl. auto.
  - rewrite P. apply map_ext_in. intros r Hr. symmetry. now apply Hw.
Qed.
Lemma kinv_pc_ext n n' o o' p : (n <= n')%nat -> (forall r, (r < n)%nat -> o' r = o r) -> kinv_pc n o p -> kinv_pc n' o' p.
Proof.
  intros Hn He. destruct p; simpl; auto; intros (A & B); (split; [now apply (cover_mono n)|]); auto; now apply (acct_ext n o).
Qed.
Lemma done_ok_ext n n' o o' k : (n <= n')%nat -> (forall r, (r < n)%nat -> o' r = o r) -> done_ok n o k -> done_ok n' o' k.
Proof. intros Hn He (A & B & C). split; [now apply (cover_mono n)|]. split; [now apply (acct_ext n o) | exact C]. Qed.

Lemma kinv_after_todo n o k : kinv_pc n o (after_todo k) = (cover n k /\ stageA k).
Proof. unfold after_todo. destruct (k_todo k); reflexivity. Qed.
Lemma kinv_enter_wake_loop n o k : cover n k -> acct o k None -> kinv_pc n o (enter_wake_loop k).
Proof. intros A B. unfold enter_wake_loop. destruct (k_wake k); simpl; auto. Qed.

(* what nsync_cv_signal selects: all the native readers if the first is one *)
Lemma sel_signal_readers rs f q r : is_rdr (rs f) = true -> In r (f :: q) -> is_rdr (rs r) = true ->
  In r (fst (fst (sel_signal rs (f :: q)))).
Proof.
  intros Hf Hr Hrd. simpl. rewrite Hf. pose proof (sig_scan_readers rs q false r) as H.
  destruct (sig_scan rs q false) as [[wk kp] ww]. simpl in *. destruct Hr as [->|Hr]; auto.
Qed.

Lemma sel_cover rs q n (bc : bool) old0 wk kp allr todo first (set0 clr0 : Z) (envq0 : bool) :
  NoDup q -> (forall r, In r q -> (r < n)%nat) ->
  (if bc then sel_broadcast rs q else sel_signal rs q) = (wk, kp, allr) ->
  let k := mk_kl bc old0 wk allr todo first set0 clr0 q (filter (fun p => is_rdr (rs p)) q) wk [] [] [] envq0 in
  cover n k /\ stageA k.
Proof.
  intros Hnd Hb Hsel. cbv zeta.
  assert (Hp : part q wk kp).
  { destruct bc; [pose proof (sel_broadcast_part rs q) as H | pose proof (sel_signal_part rs q) as H]; rewrite Hsel in H; exact H. }
  destruct Hp as (Hp1 & Hp2). destruct (Hp2 Hnd) as (Hwk & _).
  split; [|repeat split; auto].
  unfold cover; simpl. split; [exact Hb|]. split; [intros r Hr; apply Hp1; auto|]. split.
  - intros ->. unfold sel_broadcast in Hsel. now injection Hsel as <- _ _.
  - intros ->. destruct q as [|f q']; [simpl in Hsel; now injection Hsel as <- _ _|].
    split; [pose proof (sel_signal_first rs f q') as H; now rewrite Hsel in H|].
    intros Hf r Hr. apply filter_In in Hf. apply filter_In in Hr.
    pose proof (sel_signal_readers rs f q' r (proj2 Hf) (proj1 Hr) (proj2 Hr)) as H. now rewrite Hsel in H.
Qed.

Lemma acct_xfer o k stay moved z clr envq : stageA k -> part (k_wake k) moved stay -> acct o (kl_set_xfer k stay moved z clr envq) None.
Proof.
  intros (A & B & C & D & E) (P1 & P2). unfold acct; simpl. rewrite B, C, D. simpl. rewrite A in *.
  destruct (P2 E) as (N1 & N2 & N3). split; [now apply NoDup_app2|]. split; [|reflexivity].
  intros r. rewrite in_app_iff. apply P1.
Qed.
Lemma acct_wake_one o k p rest : k_wake k = p :: rest -> acct o k None -> acct o (kl_wake_one k rest p) (Some (o p)).
Proof.
  intros E (N & I & P). unfold acct; simpl. rewrite E in *.
  assert (Eq : k_xfer k ++ (k_woken k ++ [p]) ++ rest = k_xfer k ++ k_woken k ++ p :: rest) by (now rewrite <- app_assoc).
  rewrite Eq. split; [exact N|]. split; [exact I|]. exists (k_woken k), p. auto.
Qed.
Lemma acct_add_post o k x : acct o k (Some x) -> acct o (kl_add_post k x) None.
Proof.
  intros (N & I & pre & p & E1 & E2 & E3). unfold acct; simpl. split; [exact N|]. split; [exact I|].
  rewrite E1, E2, E3, map_app. reflexivity.
Qed.

Lemma K_self w t c : Inv w -> kinv_pc (nrec w) (ownr w) (pcof w t) -> (t < length (thr w))%nat ->
  let w' := fst (step_core w t c) in
  kinv_pc (nrec w) (ownr w) (pcof w' t) /\
  (wlog w' = wlog w \/ exists k, wlog w' = (t, k) :: wlog w /\ done_ok (nrec w) (ownr w) k).
Proof.
  intros (_ & _ & HS & HP) HK Hlt. pose proof HP as ((Q0 & (Q1n & Q1) & Q2 & _) & _). cbv zeta.
  destruct (Q2 t) as (Q2n & _).
  assert (Hqb : forall r, In r (cvq w) -> (r < nrec w)%nat).
  { intros r Hr. destruct (le_lt_dec (nrec w) r) as [Hge|]; [|assumption]. apply Q1 in Hr. rewrite (Q0 r Hge) in Hr. discriminate. }
  unfold pcof in *.
  step_cases w t; try rewrite Hpc in *; simpl fst; pc_nf; try rewrite Hpc; simpl wlog;
    rewrite ?kinv_after_todo; simpl kinv_pc; try (split; [exact I | left; reflexivity]); try (split; [exact HK | left; reflexivity]).
  all: autorewrite with getdb; try rewrite Hpc; simpl kinv_pc; try (split; [exact I | left; reflexivity]); try (split; [exact HK | left; reflexivity]).
  all: simpl in HK, Q2n.
  all: try (split; [|left; reflexivity]; simpl in *;
            match goal with H : sel_signal _ _ = _ |- _ => eapply (sel_cover _ _ _ false); [exact Q1n | exact Hqb | exact H]
                          | H : sel_broadcast _ _ = _ |- _ => eapply (sel_cover _ _ _ true); [exact Q1n | exact Hqb | exact H] end).
  all: try (assert (Hacct : acct (ownr w) k None) by (first [exact (proj2 HK) | apply stageA_acct; exact (proj2 HK)])).
  (* the call returns: log entry *)
  all: try (split; [first [exact I | apply kinv_enter_wake_loop; [exact (proj1 HK) | exact Hacct]]|]; right; eexists; split; [reflexivity|];
            split; [exact (proj1 HK)|]; split; [exact Hacct | assumption]).
  all: try (split; [|left; reflexivity]).
  all: try (apply kinv_enter_wake_loop; [exact (proj1 HK) | exact Hacct]).
  all: try (split; [exact (proj1 HK) | exact Hacct]).
  - (* the transfer *)
    split; [exact (proj1 HK)|]. apply acct_xfer; [exact (proj2 HK)|].
    match goal with H : xfer ?rs ?fca ?wk = _ |- _ => pose proof (xfer_part rs fca wk) as Hp; rewrite H in Hp; exact Hp end.
  - (* the store of wake_waiters *)
    split; [exact (proj1 HK)|]. apply (acct_wake_one (ownr w)); assumption.
  - (* the V, last one *)
    assert (Hacct' : acct (ownr w) (kl_add_post k o) None) by (apply acct_add_post; exact (proj2 HK)).
    split; [apply kinv_enter_wake_loop; [exact (proj1 HK) | exact Hacct']|]. right. eexists. split; [reflexivity|].
    split; [exact (proj1 HK)|]. split; [exact Hacct' | assumption].
  - apply kinv_enter_wake_loop; [exact (proj1 HK)|]. apply acct_add_post. exact (proj2 HK).
Qed.

Lemma KInv_ext w w' :
  (nrec w <= nrec w')%nat -> (forall r, (r < nrec w)%nat -> ownr w' r = ownr w r) ->
  (forall t, kinv_pc (nrec w) (ownr w) (pcof w' t)) ->
  (forall t k, In (t, k) (wlog w') -> done_ok (nrec w) (ownr w) k) -> KInv w'.
Proof.
  intros Hn Ho H1 H2. split.
  - intros t. eapply kinv_pc_ext; [exact Hn | exact Ho | apply H1].
  - intros t k Hin. eapply done_ok_ext; [exact Hn | exact Ho | now apply (H2 t)].
Qed.

Lemma KInv_step_core w t c : Inv w -> KInv w -> (t < length (thr w))%nat -> KInv (fst (step_core w t c)).
Proof.
  intros HI (K1 & K2) Hlt. pose proof (step_core_misc w t c) as (_ & Hnr & _).
  pose proof (K_self w t c HI (K1 t) Hlt) as (Ks & Kl). cbv zeta in *.
  apply (KInv_ext w).
  - rewrite Hnr. apply le_n.
  - intros r _. unfold ownr. apply step_core_static.
  - intros t'. destruct (Nat.eq_dec t' t) as [->|Hne]; [exact Ks|]. unfold pcof. rewrite step_core_other by congruence. apply K1.
  - intros t' k Hin. destruct Kl as [E|(k0 & E & Hd)]; rewrite E in Hin; [now apply (K2 t')|].
    destruct Hin as [[= <- <-]|Hin]; [exact Hd | now apply (K2 t')].
Qed.

Lemma KInv_begin_op w t : Inv w -> KInv w -> KInv (begin_op w t).
Proof.
  intros (_ & _ & HS & _) (K1 & K2). pose proof (begin_op_misc w t) as (_ & Hnr & _ & _ & _ & Hrec & _).
  pose proof (begin_op_ghost w t) as (_ & Hlog).
  apply (KInv_ext w).
  - exact Hnr.
  - intros r Hr. unfold ownr. rewrite Hrec by lia. reflexivity.
  - intros s. destruct (Nat.eq_dec s t) as [->|Hne]; [|unfold pcof; rewrite begin_op_other by congruence; apply K1].
    destruct (begin_op_pc w t) as [E|(_ & _ & o & rest & _ & E)]; [unfold pcof; rewrite E; apply K1|].
    unfold pcof. rewrite E. destruct o; simpl; try destruct (held (get w t)); exact I.
  - intros s k. rewrite Hlog. apply K2.
Qed.

Lemma env_wlog w a c : (forall t, a <> Thr t) -> wlog (fst (step w a c)) = wlog w.
Proof. intros Ha. destruct a; try (exfalso; eapply Ha; reflexivity); simpl; destr_all; reflexivity. Qed.

Lemma KInv_step w a c : Inv w -> KInv w -> KInv (fst (step w a c)).
Proof.
  intros HI HK. destruct a as [t| | | | | | | |].
  { simpl. destruct (le_lt_dec (length (thr w)) t) as [Hoob|Hlt]; [now rewrite step_thr_oob|].
    unfold step_thr. pose proof HI as (HT & HA & HS & HP). apply KInv_step_core.
    - split; [now apply TInv_begin_op|]. split; [now apply AInv_begin_op|]. split; [now apply SInv_begin_op | now apply PInv_begin_op].
    - now apply KInv_begin_op.
    - now rewrite (proj1 (proj2 (proj2 (begin_op_misc w t)))). }
  all: match goal with |- KInv (fst (step ?w0 ?a ?c0)) =>
         pose proof (env_frame w0 a c0 ltac:(intros; discriminate)) as (Hg & _ & _ & Hr & Hnr & _);
         pose proof (env_wlog w0 a c0 ltac:(intros; discriminate)) as Hlog end.
  all: destruct HK as (K1 & K2); apply (KInv_ext w);
    [ rewrite Hnr; apply le_n | intros r0 _; unfold ownr; apply Hr | intros t0; unfold pcof; rewrite Hg; apply K1
    | intros t0 k0; rewrite Hlog; apply K2 ].
Qed.

Lemma KInv_run progs clock0 exp sched : KInv (run (init progs clock0 exp) sched).
Proof.
  induction sched as [|[a c] s IH] using rev_ind.
  - split; [intros t; unfold pcof, run; simpl fold_left; rewrite (proj1 (get_init progs clock0 exp t)); exact I | intros t k H; elim H].
  - rewrite run_snoc. apply KInv_step; [apply Inv_run | exact IH].
Qed.

(* every completed nsync_cv_signal / nsync_cv_broadcast call *)
Lemma wake_complete_reachable progs clock0 exp sched :
  let w := run (init progs clock0 exp) sched in
  forall t k, In (t, k) (wlog w) ->
  (* what it took *)
  incl (k_taken k) (k_q k) /\
  (k_bc k = true -> k_taken k = k_q k) /\
  (k_bc k = false -> forall f q, k_q k = f :: q -> In f (k_taken k) /\ (In f (k_rdrs k) -> incl (k_rdrs k) (k_taken k))) /\
  (* what became of it *)
  k_wake k = [] /\
  NoDup (k_xfer k ++ k_woken k) /\
  (forall r, In r (k_taken k) <-> In r (k_xfer k) \/ In r (k_woken k)) /\
  k_posts k = map (fun r => owner (recs w r)) (k_woken k).
Proof.
  cbv zeta. intros t k Hin. destruct (KInv_run progs clock0 exp sched) as (_ & K2).
  destruct (K2 t k Hin) as ((_ & C1 & C2 & C3) & (N & I & P) & E). rewrite E, app_nil_r in *.
  split; [exact C1|]. split; [exact C2|]. split.
  - intros Hb f q Eq. specialize (C3 Hb). rewrite Eq in C3. exact C3.
  - split; [reflexivity|]. split; [exact N|]. split; [|exact P]. intros r. rewrite I, in_app_iff. tauto.
Qed.

(* every return of a signal / broadcast call that got past the early exit is logged (any world) *)
Definition waker_pc (p : pc) : bool :=
  match p with
  | KRcLoad _ | KRcCas _ _ | KStoreW _ | VLoad1 _ | VCas1 _ _ | VLoad3 _ | VCas2 _ _ | VLoad5 _ | VStore _ | VV _ _ => true
  | _ => false
  end.
Lemma wake_return_logged w t c : (t < length (thr w))%nat -> waker_pc (pcof w t) = true ->
  pcof (fst (step_core w t c)) t = Idle -> exists k, wlog (fst (step_core w t c)) = (t, k) :: wlog w.
Proof.
  intros Hlt. unfold pcof.
  step_cases w t; try rewrite Hpc in *; simpl waker_pc; try discriminate; intros _; simpl fst; pc_nf; try rewrite Hpc; try discriminate.
  all: unfold after_todo, enter_wake_loop; rewrite ?Heql; simpl k_wake; destr_all; try discriminate; intros _; simpl; eauto.
Qed.

(* ---------- the ghost history is written by the steps that do the real thing (any world; one-step unfoldings) ---------- *)
Lemma taken_ghost_step w t (bc : bool) old : (t < length (thr w))%nat ->
  pcof w t = SpCas (if bc then KBc else KSig) old -> cvw w = old ->
  let w' := fst (step_core w t CNormal) in
  exists kk, pcof w' t = after_todo kk /\ k_bc kk = bc /\ k_q kk = cvq w /\
             k_rdrs kk = filter (fun p => is_rdr (recs w p)) (cvq w) /\
             k_taken kk = k_wake kk /\ priv (pcof w' t) = k_taken kk /\ k_xfer kk = [] /\ k_woken kk = [] /\ k_posts kk = [].
Proof.
  intros Hlt Hpc Hcv. unfold pcof in *. cbv zeta. unfold step_core. rewrite Hpc.
  destruct bc; unfold st_SpCas, spin_done, nsync_spin_test_and_set_cas1_old; rewrite Hcv, Z.eqb_refl.
  - simpl sel_broadcast. simpl fst. pc_nf. eexists. split; [reflexivity|]. rewrite priv_after_todo. simpl. repeat split; reflexivity.
  - destruct (sel_signal (recs (set_cvw w _)) (cvq (set_cvw w _))) as [[wk kp] allr] eqn:Es.
    simpl fst. pc_nf. eexists. split; [reflexivity|]. rewrite priv_after_todo. simpl. repeat split; reflexivity.
Qed.

Lemma wake_ghost_store w t c k p rest : (t < length (thr w))%nat -> pcof w t = VStore k -> k_wake k = p :: rest ->
  let w' := fst (step_core w t c) in
  pcof w' t = VV (kl_wake_one k rest p) (owner (recs w p)) /\ waiting (recs w' p) = 0 /\
  k_woken (kl_wake_one k rest p) = k_woken k ++ [p] /\ k_wake (kl_wake_one k rest p) = rest.
Proof.
  intros Hlt Hpc Hk. unfold pcof in *. cbv zeta. unfold step_core. rewrite Hpc. unfold st_VStore. rewrite Hk.
  simpl fst. pc_nf. split; [reflexivity|]. simpl recs. rewrite fupd_same. simpl. auto.
Qed.
Lemma wake_ghost_post w t c k o : (t < length (thr w))%nat -> pcof w t = VV k o ->
  let w' := fst (step_core w t c) in
  pcof w' t = enter_wake_loop (kl_add_post k o) /\ sem w' o = sem w o + 1 /\ k_posts (kl_add_post k o) = k_posts k ++ [o].
Proof.
  intros Hlt Hpc. split; [|split; [now apply (VV_posts w t k o c) | reflexivity]].
  unfold pcof in *. unfold step_core. rewrite Hpc. unfold st_VV. simpl fst. now rewrite pc_set_pc by (unfold wake_done; destruct (k_wake _); simpl; assumption).
Qed.
Lemma wake_ghost_xfer w t c k old : (t < length (thr w))%nat -> pcof w t = VCas1 k old -> muw w = old ->
  let w' := fst (step_core w t c) in
  exists k' moved, pcof w' t = VLoad3 k' /\ k_xfer k' = k_xfer k ++ moved /\ muq w' = muq w ++ moved /\
                   (forall r, In r moved -> cv_mu (recs w' r) = false /\ lc w' r = PMuq) /\
                   (forall r, In r (k_wake k) <-> In r moved \/ In r (k_wake k')).
Proof.
  intros Hlt Hpc Hmu. unfold pcof in *. cbv zeta. unfold step_core. rewrite Hpc. unfold st_VCas1, wake_waiters_cas1_old.
  rewrite Hmu, Z.eqb_refl.
  match goal with |- context [xfer ?rs ?fca ?wk] => pose proof (xfer_part rs fca wk) as Hp; destruct (xfer rs fca wk) as [[moved stay] set_on] end.
  simpl in Hp. simpl fst. pc_nf. eexists (kl_set_xfer k stay moved set_on _ _), moved. split; [reflexivity|]. split; [reflexivity|].
  split; [reflexivity|]. split; [|exact (proj1 Hp)].
  intros r Hr. unfold lc. simpl recs. unfold clear_cv_mu. rewrite map_recs_in by (try reflexivity; assumption). simpl. auto.
Qed.

(* ================================================================== *)
(* Layer G: wake_waiters transfers only waiters associated with the    *)
(* mutex (the repair of F16)                                           *)
(* ================================================================== *)
(* wake_waiters works on the mutex only if the first waiter is associated with it (pmu = first_w->cv_mu != NULL) *)
Definition first_assoc (w : world) (p : pc) : Prop :=
  match p with
  | VLoad1 k | VCas1 k _ => exists f rest, k_wake k = f :: rest /\ cv_mu (recs w f) = true
  | _ => True
  end.
Definition GInv (w : world) : Prop := forall t, first_assoc w (pcof w t).

(* which steps write the cv_mu field of a record *)
Lemma step_core_cvmu w t c r : (t < length (thr w))%nat ->
  let w' := fst (step_core w t c) in
  cv_mu (recs w' r) = cv_mu (recs w r) \/
  (r = t /\ exists l, pcof w t = WStore1 l \/ pcof w t = WLoadMu l) \/
  (exists k old, pcof w t = VCas1 k old /\ In r (k_wake k)).
Proof.
  intros Hlt. cbv zeta. unfold pcof.
  step_cases w t; try rewrite Hpc in *; simpl fst; simpl recs; unfold clear_cv_mu.
  all: try solve [left; frame_field cv_mu].
  all: try solve [destruct (Nat.eq_dec r t) as [->|Hne]; [right; left; split; [reflexivity|]; eexists; eauto | left; now rewrite fupd_other by assumption]].
  all: sel_part.
  all: try solve [destruct (in_dec Nat.eq_dec r l) as [Hin|Hnin];
                  [right; right; eexists _, _; split; [reflexivity|]; apply (proj1 Hp); auto | left; now rewrite map_recs_notin by assumption]].
Qed.

Lemma first_assoc_after_todo w k : first_assoc w (after_todo k) = True.
Proof. unfold after_todo. destruct (k_todo k); reflexivity. Qed.
Lemma first_assoc_enter_wake_loop w k : first_assoc w (enter_wake_loop k) = True.
Proof. unfold enter_wake_loop. destruct (k_wake k); reflexivity. Qed.

(* the stepping thread: pmu != NULL is tested when wake_waiters starts, and nothing writes the field until the CAS *)
Lemma G_self w t c : (t < length (thr w))%nat -> first_assoc w (pcof w t) ->
  first_assoc (fst (step_core w t c)) (pcof (fst (step_core w t c)) t).
Proof.
  intros Hlt HG. unfold pcof in *.
  step_cases w t; try rewrite Hpc in *; simpl fst; pc_nf; try rewrite Hpc;
    rewrite ?first_assoc_after_todo, ?first_assoc_enter_wake_loop; simpl first_assoc; try exact I.
  all: autorewrite with getdb; try rewrite Hpc; simpl first_assoc; try exact I.
  all: try exact HG.
  all: exists n, l; split; [exact Heql|]; destruct (is_mucv (recs w n) && cv_mu (recs w n)) eqn:E; [now apply andb_prop in E | discriminate Heqb].
Qed.

Lemma GInv_step_core w t c : PInv w -> (t < length (thr w))%nat -> GInv w -> GInv (fst (step_core w t c)).
Proof.
  intros HP Hlt HG s. destruct (Nat.eq_dec s t) as [->|Hne]; [apply G_self; [exact Hlt | apply HG]|].
  unfold pcof. rewrite step_core_other by congruence. specialize (HG s). unfold pcof in HG.
  destruct HP as ((Q0 & Q1 & Q2 & _) & HT). destruct (Q2 s) as (_ & Q2s). unfold pcof in Q2s.
  destruct (HT t) as (Hnat & _). specialize (Hnat Hlt). destruct (Q2 t) as (_ & Q2t).
  assert (Hkeep : forall f, In f (priv (t_pc (get w s))) -> cv_mu (recs (fst (step_core w t c)) f) = cv_mu (recs w f)).
  { intros f Hf. specialize (Q2s f Hf). destruct (step_core_cvmu w t c f Hlt) as [E|[(-> & l & [E|E])|(k & old & E & Hin)]]; [exact E|..].
    - rewrite E in Hnat. simpl in Hnat. destruct Hnat as (Hn & _). congruence.
    - rewrite E in Hnat. simpl in Hnat. destruct Hnat as (Hn & _). congruence.
    - rewrite E in Q2t. simpl in Q2t. specialize (Q2t f Hin). rewrite Q2s in Q2t. congruence. }
  destruct (t_pc (get w s)); simpl in *; auto; destruct HG as (f & rest & A & B); exists f, rest; (split; [exact A|]);
    (rewrite Hkeep; [exact B | rewrite A; left; reflexivity]).
Qed.
Lemma GInv_begin_op w t : PInv w -> GInv w -> GInv (begin_op w t).
Proof.
  intros HP HG s. destruct HP as ((Q0 & _ & Q2 & _) & _).
  pose proof (begin_op_misc w t) as (_ & _ & _ & _ & _ & Hrec & _).
  destruct (Nat.eq_dec s t) as [->|Hne].
  - unfold pcof. destruct (begin_op_pc w t) as [E|(Hpc & _ & o & rest & _ & E)].
    + rewrite E. specialize (HG t). unfold pcof in HG. destruct (Q2 t) as (_ & Q2t). unfold pcof in Q2t.
      destruct (t_pc (get w t)); simpl in *; auto; destruct HG as (f & rest & A & B); exists f, rest; (split; [exact A|]);
        (rewrite Hrec; [exact B|]); intros ->; specialize (Q2t (nrec w)); rewrite A in Q2t; specialize (Q2t (or_introl eq_refl));
        rewrite (Q0 (nrec w) (le_n _)) in Q2t; discriminate.
    + rewrite E. destruct o; simpl; try destruct (held (get w t)); exact I.
  - unfold pcof. rewrite begin_op_other by congruence. specialize (HG s). unfold pcof in HG. destruct (Q2 s) as (_ & Q2s). unfold pcof in Q2s.
    destruct (t_pc (get w s)); simpl in *; auto; destruct HG as (f & rest & A & B); exists f, rest; (split; [exact A|]);
      (rewrite Hrec; [exact B|]); intros ->; specialize (Q2s (nrec w)); rewrite A in Q2s; specialize (Q2s (or_introl eq_refl));
      rewrite (Q0 (nrec w) (le_n _)) in Q2s; discriminate.
Qed.
Lemma GInv_step w a c : Inv w -> GInv w -> GInv (fst (step w a c)).
Proof.
  intros (HT & HA & HS & HP) HG. destruct a as [t| | | | | | | |].
  { simpl. destruct (le_lt_dec (length (thr w)) t) as [Hoob|Hlt]; [now rewrite step_thr_oob|].
    unfold step_thr. apply GInv_step_core; [now apply PInv_begin_op | now rewrite (proj1 (proj2 (proj2 (begin_op_misc w t)))) | now apply GInv_begin_op]. }
  all: match goal with |- GInv (fst (step ?w0 ?a ?c0)) =>
         pose proof (env_frame w0 a c0 ltac:(intros; discriminate)) as (Hg & _ & _ & Hr & _) end.
  all: intros s; specialize (HG s); unfold pcof in *; rewrite Hg; destruct (t_pc (get w s)); simpl in *; auto;
       destruct HG as (f & rest & A & B); exists f, rest; (split; [exact A|]); now rewrite (proj2 (proj2 (proj2 (proj2 (proj2 (Hr f)))))).
Qed.
Lemma GInv_run progs clock0 exp sched : GInv (run (init progs clock0 exp) sched).
Proof.
  induction sched as [|[a c] s IH] using rev_ind.
  - intros t. unfold pcof, run. simpl fold_left. rewrite (proj1 (get_init progs clock0 exp t)). exact I.
  - rewrite run_snoc. apply GInv_step; [apply Inv_run | exact IH].
Qed.

(* every record the transfer moves to the mutex queue is a native waiter associated with the mutex *)
Lemma transferred_is_native_reachable progs clock0 exp sched :
  let w := run (init progs clock0 exp) sched in
  forall t c k old, pcof w t = VCas1 k old -> muw w = old ->
  let w' := fst (step w (Thr t) c) in
  exists moved, muq w' = muq w ++ moved /\
    forall r, In r moved -> is_mucv (recs w r) = true /\ cv_mu (recs w r) = true /\ cv_mu (recs w' r) = false /\ lc w' r = PMuq.
Proof.
  cbv zeta. intros t c k old Hpc Hmu. set (w := run (init progs clock0 exp) sched) in *.
  pose proof (GInv_run progs clock0 exp sched t) as HG. fold w in HG. rewrite Hpc in HG. simpl in HG. destruct HG as (f & rest & Ek & Hcm).
  destruct (Inv_run progs clock0 exp sched) as (_ & _ & _ & ((_ & _ & _ & _ & _ & _ & _ & _ & Q9 & _) & _)). fold w in Q9.
  specialize (Q9 t). rewrite Hpc in Q9. simpl in Q9. destruct Q9 as (f' & rest' & Ek' & Hmc). rewrite Ek in Ek'. injection Ek' as <- <-.
  unfold pcof in Hpc.
  assert (Hlt : (t < length (thr w))%nat).
  { destruct (le_lt_dec (length (thr w)) t) as [Hoob|]; [|assumption]. rewrite (get_oob w t Hoob) in Hpc. discriminate. }
  assert (Hb : begin_op w t = w) by (unfold begin_op; now rewrite Hpc).
  simpl step. unfold step_thr. rewrite Hb. unfold step_core. rewrite Hpc. unfold st_VCas1, wake_waiters_cas1_old. rewrite Hmu, Z.eqb_refl.
  match goal with |- context [xfer ?rs ?fca ?wk] => pose proof (xfer_assoc rs fca f rest) as Ha; rewrite <- Ek in Ha; destruct (xfer rs fca wk) as [[moved stay] set_on] end.
  simpl fst. exists moved. split; [reflexivity|]. intros r Hr. simpl in Ha. destruct (Ha r Hmc Hcm Hr) as (A & B).
  split; [exact A|]. split; [exact B|]. unfold lc. simpl recs. unfold clear_cv_mu. rewrite map_recs_in by (try reflexivity; assumption). simpl. auto.
Qed.

(* ---------- the code BEFORE the repair of F16, for the regression example ---------- *)
(* the transfer loop moved every later waiter with NSYNC_WAITER_FLAG_MUCV, whatever its cv_mu *)
Fixpoint xfer_rest_old (rs : nat -> rec) (fca fw : bool) (q : list nat) (taw war : bool) : list nat * list nat * bool * bool :=
  match q with
  | [] => ([], [], taw, war)
  | p :: rest =>
      let piw := is_mucv (rs p) && is_W (l_type (rs p)) in
      if negb (is_mucv (rs p)) then let '(m, s, a, b) := xfer_rest_old rs fca fw rest taw war in (m, p :: s, a, b)
      else if fca || fw || piw then let '(m, s, a, b) := xfer_rest_old rs fca fw rest (taw || piw) war in (p :: m, s, a, b)
      else let '(m, s, a, b) := xfer_rest_old rs fca fw rest taw (war || negb piw) in (m, p :: s, a, b)
  end.
Definition xfer_old (rs : nat -> rec) (fca : bool) (wake : list nat) : list nat * list nat * Z :=
  match wake with
  | [] => ([], [], 0)
  | first :: rest =>
      let fw := is_W (l_type (rs first)) in
      let '(m, s, a, b) := xfer_rest_old rs fca fw rest (if fca then fw else false) (if fca then false else negb fw) in
      (if fca then first :: m else m, if fca then s else first :: s,
       if a && negb b then MU_WRITER_WAITING else 0)
  end.
(* [st_VCas1] with the old transfer; every other step is the model's *)
Definition st_VCas1_old (w : world) (t : nat) (k : kl) (old : Z) (c : choice) : world * ev :=
  let new := wake_waiters_cas1_new old in
  if muw w =? wake_waiters_cas1_old old then
    let fca := match k_wake k with
               | first :: _ => has old (match l_type (recs w first) with Some m => zta_of m | None => 0 end)
               | [] => false end in
    let '(moved, stay, set_on) := xfer_old (recs w) fca (k_wake k) in
    let w1 := touch_all (set_muw w new) (k_wake k) in
    let w2 := set_muq (set_recs w1 (clear_cv_mu (recs w1) moved)) (muq w1 ++ moved) in
    let envq := env_reports_queued c in
    let clr := clear_on_release (muq w2) envq in
    (set_pc (set_mspin w2 (Some t)) t (VLoad3 (kl_set_xfer k stay moved set_on clr envq)), EvCas 102 OBJ_MU old new true)
  else (set_pc (wake_done w t k) t (enter_wake_loop k), EvCas 102 OBJ_MU old new false).
Definition step_old (w : world) (a : actor) (c : choice) : world * ev :=
  match a with
  | Thr t => let w0 := begin_op w t in
             match t_pc (get w0 t) with VCas1 k old => st_VCas1_old w0 t k old c | _ => step_core w0 t c end
  | _ => step w a c
  end.
Definition run_old (w : world) (sched : list (actor * choice)) : world :=
  fold_left (fun w ac => fst (step_old w (fst ac) (snd ac))) sched w.

Definition TT (t n : nat) : list (actor * choice) := repeat (Thr t, CNormal) n.
(* the regression: thread 0 waits with the nsync_mu (native, writer), thread 1 waits on the same cv through
   nsync_cv_wait_with_deadline_generic with its own lock routines (record 1: MUCV flag, cv_mu = NULL, l_type = NULL), thread 2
   broadcasts under the write lock.  Up to the CAS of wake_waiters that takes the mutex spinlock both models agree; at that CAS
   the OLD transfer puts the generic record on the mutex queue behind the native one, the repaired one leaves it on
   to_wake_list and wakes it directly (waiting = 0, its semaphore posted) *)
Lemma old_xfer_moves_generic_run :
  let progs := [[OLock W; OWait None false false; OUnlock]; [OLock W; OWait None false true; OUnlock]; [OLock W; OBroadcast; OUnlock]] in
  let pre := TT 0 12 ++ TT 1 11 ++ TT 2 10 in
  let w0 := run (init progs 0 None) pre in
  let wo := run_old w0 (TT 2 1) in
  let wn := run w0 (TT 2 1) in
  let wn' := run w0 (TT 2 5) in
  run_old (init progs 0 None) pre = w0 /\
  (exists k, pcof w0 2%nat = VCas1 k 1 /\ k_wake k = [0; 1]%nat) /\ muw w0 = 1 /\ muq w0 = [] /\
  is_mucv (recs w0 1%nat) = true /\ cv_mu (recs w0 1%nat) = false /\ l_type (recs w0 1%nat) = None /\
  (* old code *)
  muq wo = [0; 1]%nat /\ lc wo 1%nat = PMuq /\ (exists k, pcof wo 2%nat = VLoad3 k /\ k_wake k = [] /\ k_xfer k = [0; 1]%nat) /\
  (* repaired code *)
  muq wn = [0%nat] /\ lc wn 1%nat = PPriv 2 /\ (exists k, pcof wn 2%nat = VLoad3 k /\ k_wake k = [1%nat] /\ k_xfer k = [0%nat]) /\
  muq wn' = [0%nat] /\ lc wn' 1%nat = PNone /\ waiting (recs wn' 1%nat) = 0 /\ sem wn' 1%nat = 1 /\ pcof wn' 2%nat = Idle.
Proof.
  cbv zeta. split; [vm_compute; reflexivity|]. split; [eexists; split; vm_compute; reflexivity|].
  do 5 (split; [vm_compute; reflexivity|]).
  do 2 (split; [vm_compute; reflexivity|]). split; [eexists; split; [vm_compute; reflexivity|]; split; vm_compute; reflexivity|].
  do 2 (split; [vm_compute; reflexivity|]). split; [eexists; split; [vm_compute; reflexivity|]; split; vm_compute; reflexivity|].
  vm_compute. repeat split; reflexivity.
Qed.
