(* CvProof5: layer K of the proofs about Model/CvModel.v -- the run-level account of every nsync_cv_signal /
   nsync_cv_broadcast call, over the ghost history k_q / k_rdrs / k_taken / k_xfer / k_woken / k_posts of the waker's
   locals and the log [wlog] of the completed calls:
     * a broadcast took every record that was queued when it acquired the cv spinlock; a signal took the first one
       and, if that was a native reader, every native reader that was queued;
     * every record taken was handed to the mutex queue or had its waiting flag cleared, exactly one of the two and
       exactly once, and for each cleared flag the owner's semaphore was posted, in the same order.
   Continues Proof/CvProof4.v. *)
From NsyncBase Require Import CSem.
From NsyncGen Require Import Consts Sites.
From NsyncModel Require Import CvModel.
From NsyncProof Require Import CvProof CvProof2 CvProof3 CvProof4.
From Coq Require Import List ZArith Bool Lia PeanoNat.
Import ListNotations.
Local Open Scope Z_scope.

Definition ownr (w : world) (r : nat) : nat := owner (recs w r).

(* what was taken, against what was queued (n: the number of allocated records) *)
Definition cover (n : nat) (k : kl) : Prop :=
  (forall r, In r (k_q k) -> (r < n)%nat) /\ incl (k_taken k) (k_q k) /\
  (k_bc k = true -> k_taken k = k_q k) /\
  (k_bc k = false ->
     match k_q k with
     | [] => k_taken k = []
     | f :: _ => In f (k_taken k) /\ (In f (k_rdrs k) -> incl (k_rdrs k) (k_taken k))
     end).
(* what became of it; fl = Some o: the V on o's semaphore for the last cleared flag is the next step *)
Definition acct (o : nat -> nat) (k : kl) (fl : option nat) : Prop :=
  NoDup (k_xfer k ++ k_woken k ++ k_wake k) /\
  (forall r, In r (k_taken k) <-> In r (k_xfer k ++ k_woken k ++ k_wake k)) /\
  match fl with
  | None => k_posts k = map o (k_woken k)
  | Some x => exists pre p, k_woken k = pre ++ [p] /\ k_posts k = map o pre /\ x = o p
  end.
Definition stageA (k : kl) : Prop :=
  k_wake k = k_taken k /\ k_xfer k = [] /\ k_woken k = [] /\ k_posts k = [] /\ NoDup (k_taken k).

Definition kinv_pc (n : nat) (o : nat -> nat) (p : pc) : Prop :=
  match p with
  | KRcLoad k | KRcCas k _ | KStoreW k | VLoad1 k | VCas1 k _ => cover n k /\ stageA k
  | VLoad3 k | VCas2 k _ | VLoad5 k | VStore k => cover n k /\ acct o k None
  | VV k x => cover n k /\ acct o k (Some x)
  | _ => True
  end.
Definition done_ok (n : nat) (o : nat -> nat) (k : kl) : Prop := cover n k /\ acct o k None /\ k_wake k = [].
Definition KInv (w : world) : Prop :=
  (forall t, kinv_pc (nrec w) (ownr w) (pcof w t)) /\
  (forall t k, In (t, k) (wlog w) -> done_ok (nrec w) (ownr w) k).

Lemma stageA_acct o k : stageA k -> acct o k None.
Proof.
  intros (A & B & C & D & E). unfold acct. rewrite A, B, C, D. simpl. repeat split; auto.
Qed.
Lemma cover_mono n n' k : (n <= n')%nat -> cover n k -> cover n' k.
Proof. intros Hn (A & B). split; [intros r Hr; specialize (A r Hr); lia | exact B]. Qed.
Lemma acct_ext n o o' k fl : cover n k -> (forall r, (r < n)%nat -> o' r = o r) -> acct o k fl -> acct o' k fl.
Proof.
  intros (A & B & _) He (N & I & P). split; [exact N|]. split; [exact I|].
  assert (Hw : forall r, In r (k_woken k) -> o' r = o r).
  { intros r Hr. apply He, A, B, I. rewrite !in_app_iff. auto. }
  destruct fl as [x|].
  - destruct P as (pre & p & E1 & E2 & E3). exists pre, p. split; [exact E1|]. rewrite E1 in Hw. split.
    + rewrite E2. apply map_ext_in. intros r Hr. symmetry. apply Hw. rewrite in_app_iff. auto.
    + rewrite E3. symmetry. apply Hw. rewrite in_app_iff. simpl. auto.
  - rewrite P. apply map_ext_in. intros r Hr. symmetry. now apply Hw.
Qed.
Lemma kinv_pc_ext n n' o o' p : (n <= n')%nat -> (forall r, (r < n)%nat -> o' r = o r) -> kinv_pc n o p -> kinv_pc n' o' p.
Proof.
  intros Hn He. destruct p; simpl; auto; intros (A & B); (split; [now apply (cover_mono n)|]); auto; now apply (acct_ext n o).
Qed.
Lemma done_ok_ext n n' o o' k : (n <= n')%nat -> (forall r, (r < n)%nat -> o' r = o r) -> done_ok n o k -> done_ok n' o' k.
Proof. intros Hn He (A & B & C). split; [now apply (cover_mono n)|]. split; [now apply (acct_ext n o) | exact C]. Qed.

Lemma kinv_after_todo n o k : kinv_pc n o (after_todo k) = (cover n k /\ stageA k).
Proof. unfold after_todo. destruct (k_todo k); reflexivity. Qed.
Lemma kinv_enter_wake_loop n o k : cover n k -> acct o k None -> kinv_pc n o (enter_wake_loop k).
Proof. intros A B. unfold enter_wake_loop. destruct (k_wake k); simpl; auto. Qed.

(* what nsync_cv_signal selects: all the native readers if the first is one *)
Lemma sel_signal_readers rs f q r : is_rdr (rs f) = true -> In r (f :: q) -> is_rdr (rs r) = true ->
  In r (fst (fst (sel_signal rs (f :: q)))).
Proof.
  intros Hf Hr Hrd. simpl. rewrite Hf. pose proof (sig_scan_readers rs q false r) as H.
  destruct (sig_scan rs q false) as [[wk kp] ww]. simpl in *. destruct Hr as [->|Hr]; auto.
Qed.

Lemma sel_cover rs q n (bc : bool) old0 wk kp allr todo first (set0 clr0 : Z) (envq0 : bool) :
  NoDup q -> (forall r, In r q -> (r < n)%nat) ->
  (if bc then sel_broadcast rs q else sel_signal rs q) = (wk, kp, allr) ->
  let k := mk_kl bc old0 wk allr todo first set0 clr0 q (filter (fun p => is_rdr (rs p)) q) wk [] [] [] envq0 in
  cover n k /\ stageA k.
Proof.
  intros Hnd Hb Hsel. cbv zeta.
  assert (Hp : part q wk kp).
  { destruct bc; [pose proof (sel_broadcast_part rs q) as H | pose proof (sel_signal_part rs q) as H]; rewrite Hsel in H; exact H. }
  destruct Hp as (Hp1 & Hp2). destruct (Hp2 Hnd) as (Hwk & _).
  split; [|repeat split; auto].
  unfold cover; simpl. split; [exact Hb|]. split; [intros r Hr; apply Hp1; auto|]. split.
  - intros ->. unfold sel_broadcast in Hsel. now injection Hsel as <- _ _.
  - intros ->. destruct q as [|f q']; [simpl in Hsel; now injection Hsel as <- _ _|].
    split; [pose proof (sel_signal_first rs f q') as H; now rewrite Hsel in H|].
    intros Hf r Hr. apply filter_In in Hf. apply filter_In in Hr.
    pose proof (sel_signal_readers rs f q' r (proj2 Hf) (proj1 Hr) (proj2 Hr)) as H. now rewrite Hsel in H.
Qed.

Lemma acct_xfer o k stay moved z clr envq : stageA k -> part (k_wake k) moved stay -> acct o (kl_set_xfer k stay moved z clr envq) None.
Proof.
  intros (A & B & C & D & E) (P1 & P2). unfold acct; simpl. rewrite B, C, D. simpl. rewrite A in *.
  destruct (P2 E) as (N1 & N2 & N3). split; [now apply NoDup_app2|]. split; [|reflexivity].
  intros r. rewrite in_app_iff. apply P1.
Qed.
Lemma acct_wake_one o k p rest : k_wake k = p :: rest -> acct o k None -> acct o (kl_wake_one k rest p) (Some (o p)).
Proof.
  intros E (N & I & P). unfold acct; simpl. rewrite E in *.
  assert (Eq : k_xfer k ++ (k_woken k ++ [p]) ++ rest = k_xfer k ++ k_woken k ++ p :: rest) by (now rewrite <- app_assoc).
  rewrite Eq. split; [exact N|]. split; [exact I|]. exists (k_woken k), p. auto.
Qed.
Lemma acct_add_post o k x : acct o k (Some x) -> acct o (kl_add_post k x) None.
Proof.
  intros (N & I & pre & p & E1 & E2 & E3). unfold acct; simpl. split; [exact N|]. split; [exact I|].
  rewrite E1, E2, E3, map_app. reflexivity.
Qed.

Lemma K_self w t c : Inv w -> kinv_pc (nrec w) (ownr w) (pcof w t) -> (t < length (thr w))%nat ->
  let w' := fst (step_core w t c) in
  kinv_pc (nrec w) (ownr w) (pcof w' t) /\
  (wlog w' = wlog w \/ exists k, wlog w' = (t, k) :: wlog w /\ done_ok (nrec w) (ownr w) k).
Proof.
  intros (_ & _ & HS & HP) HK Hlt. pose proof HP as ((Q0 & (Q1n & Q1) & Q2 & _) & _). cbv zeta.
  destruct (Q2 t) as (Q2n & _).
  assert (Hqb : forall r, In r (cvq w) -> (r < nrec w)%nat).
  { intros r Hr. destruct (le_lt_dec (nrec w) r) as [Hge|]; [|assumption]. apply Q1 in Hr. rewrite (Q0 r Hge) in Hr. discriminate. }
  unfold pcof in *.
  step_cases w t; try rewrite Hpc in *; simpl fst; pc_nf; try rewrite Hpc; simpl wlog;
    rewrite ?kinv_after_todo; simpl kinv_pc; try (split; [exact I | left; reflexivity]); try (split; [exact HK | left; reflexivity]).
  all: autorewrite with getdb; try rewrite Hpc; simpl kinv_pc; try (split; [exact I | left; reflexivity]); try (split; [exact HK | left; reflexivity]).
  all: simpl in HK, Q2n.
  all: try (split; [|left; reflexivity]; simpl in *;
            match goal with H : sel_signal _ _ = _ |- _ => eapply (sel_cover _ _ _ false); [exact Q1n | exact Hqb | exact H]
                          | H : sel_broadcast _ _ = _ |- _ => eapply (sel_cover _ _ _ true); [exact Q1n | exact Hqb | exact H] end).
  all: try (assert (Hacct : acct (ownr w) k None) by (first [exact (proj2 HK) | apply stageA_acct; exact (proj2 HK)])).
  (* the call returns: log entry *)
  all: try (split; [first [exact I | apply kinv_enter_wake_loop; [exact (proj1 HK) | exact Hacct]]|]; right; eexists; split; [reflexivity|];
            split; [exact (proj1 HK)|]; split; [exact Hacct | assumption]).
  all: try (split; [|left; reflexivity]).
  all: try (apply kinv_enter_wake_loop; [exact (proj1 HK) | exact Hacct]).
  all: try (split; [exact (proj1 HK) | exact Hacct]).
  - (* the transfer *)
    split; [exact (proj1 HK)|]. apply acct_xfer; [exact (proj2 HK)|].
    match goal with H : xfer ?rs ?fca ?wk = _ |- _ => pose proof (xfer_part rs fca wk) as Hp; rewrite H in Hp; exact Hp end.
  - (* the store of wake_waiters *)
    split; [exact (proj1 HK)|]. apply (acct_wake_one (ownr w)); assumption.
  - (* the V, last one *)
    assert (Hacct' : acct (ownr w) (kl_add_post k o) None) by (apply acct_add_post; exact (proj2 HK)).
    split; [apply kinv_enter_wake_loop; [exact (proj1 HK) | exact Hacct']|]. right. eexists. split; [reflexivity|].
    split; [exact (proj1 HK)|]. split; [exact Hacct' | assumption].
  - apply kinv_enter_wake_loop; [exact (proj1 HK)|]. apply acct_add_post. exact (proj2 HK).
Qed.

Lemma KInv_ext w w' :
  (nrec w <= nrec w')%nat -> (forall r, (r < nrec w)%nat -> ownr w' r = ownr w r) ->
  (forall t, kinv_pc (nrec w) (ownr w) (pcof w' t)) ->
  (forall t k, In (t, k) (wlog w') -> done_ok (nrec w) (ownr w) k) -> KInv w'.
Proof.
  intros Hn Ho H1 H2. split.
  - intros t. eapply kinv_pc_ext; [exact Hn | exact Ho | apply H1].
  - intros t k Hin. eapply done_ok_ext; [exact Hn | exact Ho | now apply (H2 t)].
Qed.

Lemma KInv_step_core w t c : Inv w -> KInv w -> (t < length (thr w))%nat -> KInv (fst (step_core w t c)).
Proof.
  intros HI (K1 & K2) Hlt. pose proof (step_core_misc w t c) as (_ & Hnr & _).
  pose proof (K_self w t c HI (K1 t) Hlt) as (Ks & Kl). cbv zeta in *.
  apply (KInv_ext w).
  - rewrite Hnr. apply le_n.
  - intros r _. unfold ownr. apply step_core_static.
  - intros t'. destruct (Nat.eq_dec t' t) as [->|Hne]; [exact Ks|]. unfold pcof. rewrite step_core_other by congruence. apply K1.
  - intros t' k Hin. destruct Kl as [E|(k0 & E & Hd)]; rewrite E in Hin; [now apply (K2 t')|].
    destruct Hin as [[= <- <-]|Hin]; [exact Hd | now apply (K2 t')].
Qed.

Lemma KInv_begin_op w t : Inv w -> KInv w -> KInv (begin_op w t).
Proof.
  intros (_ & _ & HS & _) (K1 & K2). pose proof (begin_op_misc w t) as (_ & Hnr & _ & _ & _ & Hrec & _).
  pose proof (begin_op_ghost w t) as (_ & Hlog).
  apply (KInv_ext w).
  - exact Hnr.
  - intros r Hr. unfold ownr. rewrite Hrec by lia. reflexivity.
  - intros s. destruct (Nat.eq_dec s t) as [->|Hne]; [|unfold pcof; rewrite begin_op_other by congruence; apply K1].
    destruct (begin_op_pc w t) as [E|(_ & _ & o & rest & _ & E)]; [unfold pcof; rewrite E; apply K1|].
    unfold pcof. rewrite E. destruct o; simpl; try destruct (held (get w t)); exact I.
  - intros s k. rewrite Hlog. apply K2.
Qed.

Lemma env_wlog w a c : (forall t, a <> Thr t) -> wlog (fst (step w a c)) = wlog w.
Proof. intros Ha. destruct a; try (exfalso; eapply Ha; reflexivity); simpl; destr_all; reflexivity. Qed.

Lemma KInv_step w a c : Inv w -> KInv w -> KInv (fst (step w a c)).
Proof.
  intros HI HK. destruct a as [t| | | | | | | |].
  { simpl. destruct (le_lt_dec (length (thr w)) t) as [Hoob|Hlt]; [now rewrite step_thr_oob|].
    unfold step_thr. pose proof HI as (HT & HA & HS & HP). apply KInv_step_core.
    - split; [now apply TInv_begin_op|]. split; [now apply AInv_begin_op|]. split; [now apply SInv_begin_op | now apply PInv_begin_op].
    - now apply KInv_begin_op.
    - now rewrite (proj1 (proj2 (proj2 (begin_op_misc w t)))). }
  all: match goal with |- KInv (fst (step ?w0 ?a ?c0)) =>
         pose proof (env_frame w0 a c0 ltac:(intros; discriminate)) as (Hg & _ & _ & Hr & Hnr & _);
         pose proof (env_wlog w0 a c0 ltac:(intros; discriminate)) as Hlog end.
  all: destruct HK as (K1 & K2); apply (KInv_ext w);
    [ rewrite Hnr; apply le_n | intros r0 _; unfold ownr; apply Hr | intros t0; unfold pcof; rewrite Hg; apply K1
    | intros t0 k0; rewrite Hlog; apply K2 ].
Qed.

Lemma KInv_run progs clock0 exp sched : KInv (run (init progs clock0 exp) sched).
Proof.
  induction sched as [|[a c] s IH] using rev_ind.
  - split; [intros t; unfold pcof, run; simpl fold_left; rewrite (proj1 (get_init progs clock0 exp t)); exact I | intros t k H; elim H].
  - rewrite run_snoc. apply KInv_step; [apply Inv_run | exact IH].
Qed.

(* every completed nsync_cv_signal / nsync_cv_broadcast call *)
Lemma wake_complete_reachable progs clock0 exp sched :
  let w := run (init progs clock0 exp) sched in
  forall t k, In (t, k) (wlog w) ->
  (* what it took *)
  incl (k_taken k) (k_q k) /\
  (k_bc k = true -> k_taken k = k_q k) /\
  (k_bc k = false -> forall f q, k_q k = f :: q -> In f (k_taken k) /\ (In f (k_rdrs k) -> incl (k_rdrs k) (k_taken k))) /\
  (* what became of it *)
  k_wake k = [] /\
  NoDup (k_xfer k ++ k_woken k) /\
  (forall r, In r (k_taken k) <-> In r (k_xfer k) \/ In r (k_woken k)) /\
  k_posts k = map (fun r => owner (recs w r)) (k_woken k).
Proof.
  cbv zeta. intros t k Hin. destruct (KInv_run progs clock0 exp sched) as (_ & K2).
  destruct (K2 t k Hin) as ((_ & C1 & C2 & C3) & (N & I & P) & E). rewrite E, app_nil_r in *.
  split; [exact C1|]. split; [exact C2|]. split.
  - intros Hb f q Eq. specialize (C3 Hb). rewrite Eq in C3. exact C3.
  - split; [reflexivity|]. split; [exact N|]. split; [|exact P]. intros r. rewrite I, in_app_iff. tauto.
Qed.

(* every return of a signal / broadcast call that got past the early exit is logged (any world) *)
Definition waker_pc (p : pc) : bool :=
  match p with
  | KRcLoad _ | KRcCas _ _ | KStoreW _ | VLoad1 _ | VCas1 _ _ | VLoad3 _ | VCas2 _ _ | VLoad5 _ | VStore _ | VV _ _ => true
  | _ => false
  end.
Lemma wake_return_logged w t c : (t < length (thr w))%nat -> waker_pc (pcof w t) = true ->
  pcof (fst (step_core w t c)) t = Idle -> exists k, wlog (fst (step_core w t c)) = (t, k) :: wlog w.
Proof.
  intros Hlt. unfold pcof.
  step_cases w t; try rewrite Hpc in *; simpl waker_pc; try discriminate; intros _; simpl fst; pc_nf; try rewrite Hpc; try discriminate.
  all: unfold after_todo, enter_wake_loop; rewrite ?Heql; simpl k_wake; destr_all; try discriminate; intros _; simpl; eauto.
Qed.

(* ---------- the ghost history is written by the steps that do the real thing (any world; one-step unfoldings) ---------- *)
Lemma taken_ghost_step w t (bc : bool) old : (t < length (thr w))%nat ->
  pcof w t = SpCas (if bc then KBc else KSig) old -> cvw w = old ->
  let w' := fst (step_core w t CNormal) in
  exists kk, pcof w' t = after_todo kk /\ k_bc kk = bc /\ k_q kk = cvq w /\
             k_rdrs kk = filter (fun p => is_rdr (recs w p)) (cvq w) /\
             k_taken kk = k_wake kk /\ priv (pcof w' t) = k_taken kk /\ k_xfer kk = [] /\ k_woken kk = [] /\ k_posts kk = [].
Proof.
  intros Hlt Hpc Hcv. unfold pcof in *. cbv zeta. unfold step_core. rewrite Hpc.
  destruct bc; unfold st_SpCas, spin_done, nsync_spin_test_and_set_cas1_old; rewrite Hcv, Z.eqb_refl.
  - simpl sel_broadcast. simpl fst. pc_nf. eexists. split; [reflexivity|]. rewrite priv_after_todo. simpl. repeat split; reflexivity.
  - destruct (sel_signal (recs (set_cvw w _)) (cvq (set_cvw w _))) as [[wk kp] allr] eqn:Es.
    simpl fst. pc_nf. eexists. split; [reflexivity|]. rewrite priv_after_todo. simpl. repeat split; reflexivity.
Qed.

Lemma wake_ghost_store w t c k p rest : (t < length (thr w))%nat -> pcof w t = VStore k -> k_wake k = p :: rest ->
  let w' := fst (step_core w t c) in
  pcof w' t = VV (kl_wake_one k rest p) (owner (recs w p)) /\ waiting (recs w' p) = 0 /\
  k_woken (kl_wake_one k rest p) = k_woken k ++ [p] /\ k_wake (kl_wake_one k rest p) = rest.
Proof.
  intros Hlt Hpc Hk. unfold pcof in *. cbv zeta. unfold step_core. rewrite Hpc. unfold st_VStore. rewrite Hk.
  simpl fst. pc_nf. split; [reflexivity|]. simpl recs. rewrite fupd_same. simpl. auto.
Qed.
Lemma wake_ghost_post w t c k o : (t < length (thr w))%nat -> pcof w t = VV k o ->
  let w' := fst (step_core w t c) in
  pcof w' t = enter_wake_loop (kl_add_post k o) /\ sem w' o = sem w o + 1 /\ k_posts (kl_add_post k o) = k_posts k ++ [o].
Proof.
  intros Hlt Hpc. split; [|split; [now apply (VV_posts w t k o c) | reflexivity]].
  unfold pcof in *. unfold step_core. rewrite Hpc. unfold st_VV. simpl fst. now rewrite pc_set_pc by (unfold wake_done; destruct (k_wake _); simpl; assumption).
Qed.
Lemma wake_ghost_xfer w t c k old : (t < length (thr w))%nat -> pcof w t = VCas1 k old -> muw w = old ->
  let w' := fst (step_core w t c) in
  exists k' moved, pcof w' t = VLoad3 k' /\ k_xfer k' = k_xfer k ++ moved /\ muq w' = muq w ++ moved /\
                   (forall r, In r moved -> cv_mu (recs w' r) = false /\ lc w' r = PMuq) /\
                   (forall r, In r (k_wake k) <-> In r moved \/ In r (k_wake k')).
Proof.
  intros Hlt Hpc Hmu. unfold pcof in *. cbv zeta. unfold step_core. rewrite Hpc. unfold st_VCas1, wake_waiters_cas1_old.
  rewrite Hmu, Z.eqb_refl.
  match goal with |- context [xfer ?rs ?fca ?wk] => pose proof (xfer_part rs fca wk) as Hp; destruct (xfer rs fca wk) as [[moved stay] set_on] end.
  simpl in Hp. simpl fst. pc_nf. eexists (kl_set_xfer k stay moved set_on _ _), moved. split; [reflexivity|]. split; [reflexivity|].
  split; [reflexivity|]. split; [|exact (proj1 Hp)].
  intros r Hr. unfold lc. simpl recs. unfold clear_cv_mu. rewrite map_recs_in by (try reflexivity; assumption). simpl. auto.
Qed.
