(* NoteProof6: C08 descendants (local form).  A note whose `notified` word is set has children or waiters only while a
   note_notify_child on it is still running (InvD); needs only the shape invariant, so it holds for every client. *)
From Coq Require Import String.
From NsyncBase Require Import CSem.
From NsyncGen Require Import Consts Sites.
From NsyncModel Require Import NoteModel.
From NsyncProof Require Import NoteProof NoteProof2 NoteProof3 NoteProof4 NoteProof5.
From Coq Require Import List ZArith Bool Lia Arith.
Import ListNotations.
Local Open Scope Z_scope.

Lemma step1_fc_persist w t c p par s :
  shape (stk w t) -> In (FC p par s) (stk w t) -> (past_c2 s = true \/ (s = C2 /\ top w t = Some (FC p par C2))) ->
  (exists par' s', In (FC p par' s') (stk (fst (step1 w t c)) t) /\ past_c2 s' = true) \/ children (nt (fst (step1 w t c)) p) = [].
Proof.
  intros Sh. remember (fst (step1 w t c)) as w' eqn:Hw'. revert Hw'. unfold top. unfold stk in Sh.
  leaves.
  all: intros ->; cbn [fst] in *.
  all: change (stk w t) with (stack (thr w t)); rewrite ?Hst.
  all: try (intros Hin; exfalso; exact Hin).
  all: try (unfold stk; rewrite Hst; intros Hin [Hp|[-> Ht]]; [left; exists par, s; solve [auto] | cbn [hd_error] in Ht; discriminate Ht]).
  all: bottom_nil Sh.
  all: rets Sh.
  all: rewrite ?stk_setst, ?stk_finish.
  all: intros Hin Hs; cbn [In hd_error] in Hin, Hs.
  all: try contradiction.
  all: repeat match goal with H : _ \/ _ |- _ => destruct H as [H|H] end; try contradiction; try discriminate.
  all: destr_ex; try discriminate.
  all: try (inversion Hin; subst; cbn [past_c2] in *; try discriminate).
  all: try solve [left; do 2 eexists; split; [cbn [In]; eauto 8 | first [assumption|reflexivity]]].
  all: repeat match goal with H : Some _ = Some _ |- _ => inversion H; clear H; subst end.
  all: try solve [left; do 2 eexists; split; [left; reflexivity | reflexivity]].
  all: try solve [left; do 2 eexists; split; [right; left; reflexivity | reflexivity]].
  all: try solve [left; do 2 eexists; split; [cbn [In]; eauto 8 | first [assumption|reflexivity]]].
  all: right.
  all: try match goal with H : no_children _ _ = true |- _ => unfold no_children in H; hyp_ns H end.
  all: try match goal with H : hd_error _ = None |- _ => hyp_ns H end.
  all: unfold nt; nsimpl.
  all: try match goal with H : match children ?x with [] => true | _ :: _ => false end = true |- _ => destruct (children x); [reflexivity|discriminate H] end.
  all: match goal with H : _ && no_children _ _ = true |- _ => apply andb_prop in H; destruct H as [_ H]; unfold no_children, nt in H end.
  all: match goal with H : match children ?x with [] => true | _ :: _ => false end = true |- _ => destruct (children x); [reflexivity|discriminate H] end.
Qed.

Lemma step1_link_unnotified w t c m x :
  In x (children (nt (fst (step1 w t c)) m)) -> In x (children (nt w m)) \/ flag (nt w m) = 0.
Proof.
  unfold top, stk. leaves.
  all: nsimpl.
  all: try (intros H; first [left; exact H | destruct H | left; eapply remove_nat_incl; exact H]).
  all: try (intros H; apply in_app_or in H; destruct H as [H|[H|[]]]; [left; auto; try (eapply remove_nat_incl; exact H)| subst]).
  all: try solve [right; unfold nt in *; match goal with H : negb (?v =? 0) = false |- _ => destruct (Z.eqb_spec v 0); [assumption|discriminate H] end].
  all: repeat match goal with H : _ && _ = true |- _ => apply andb_prop in H; destruct H end.
  all: right; unfold notified_time, nt in *; match goal with H : tpos (if ?v =? 0 then _ else _) = true |- _ => destruct (Z.eqb_spec v 0); [assumption|discriminate H] end.
Qed.

Definition wstage (s : cst) : bool := match s with C3 _ | C4 _ => true | _ => false end.
Lemma step1_enq_unnotified w t c m x :
  In x (waiters (nt (fst (step1 w t c)) m)) -> In x (waiters (nt w m)) \/ flag (nt w m) = 0.
Proof.
  unfold top, stk. leaves.
  all: nsimpl.
  all: try (intros H; first [left; exact H | destruct H | left; eapply remove_nat_incl; exact H]).
  all: try match goal with H : waiters _ = _ :: _ |- _ => hyp_ns H; unfold nt in H; rewrite H; intros Hx; left; right; exact Hx end.
  intros _. right. unfold notified_time, nt in *. destruct (Z.eqb_spec (flag (notes w n)) 0); [assumption|discriminate Heqb].
Qed.

Lemma step1_wake_persist w t c p par s :
  shape (stk w t) -> In (FC p par s) (stk w t) -> (wstage s = true \/ (s = C2 /\ top w t = Some (FC p par C2))) ->
  (exists par' s', In (FC p par' s') (stk (fst (step1 w t c)) t) /\ wstage s' = true) \/ waiters (nt (fst (step1 w t c)) p) = [].
Proof.
  intros Sh. remember (fst (step1 w t c)) as w' eqn:Hw'. revert Hw'. unfold top. unfold stk in Sh.
  leaves.
  all: intros ->; cbn [fst] in *.
  all: change (stk w t) with (stack (thr w t)); rewrite ?Hst.
  all: try (intros Hin; exfalso; exact Hin).
  all: try (unfold stk; rewrite Hst; intros Hin [Hp|[-> Ht]]; [left; exists par, s; solve [auto] | cbn [hd_error] in Ht; discriminate Ht]).
  all: bottom_nil Sh.
  all: rets Sh.
  all: rewrite ?stk_setst, ?stk_finish.
  all: intros Hin Hs; cbn [In hd_error] in Hin, Hs.
  all: try contradiction.
  all: repeat match goal with H : _ \/ _ |- _ => destruct H as [H|H] end; try contradiction; try discriminate.
  all: destr_ex; try discriminate.
  all: try (inversion Hin; subst; cbn [wstage] in *; try discriminate).
  all: repeat match goal with H : Some _ = Some _ |- _ => inversion H; clear H; subst end.
  all: try solve [left; do 2 eexists; split; [left; reflexivity | reflexivity]].
  all: try solve [left; do 2 eexists; split; [right; left; reflexivity | reflexivity]].
  all: try solve [left; do 2 eexists; split; [cbn [In]; eauto 8 | first [assumption|reflexivity]]].
  all: right.
  all: match goal with H : waiters _ = [] |- _ => hyp_ns H end.
  all: unfold nt in *; nsimpl.
  all: try assumption.
Qed.

(* a notified note has children / waiters only while a note_notify_child on it is still running *)
Record InvD (w : world) : Prop := mk_InvD {
  d_ch : forall p, (p < nnext w)%nat -> flag (nt w p) <> 0 -> children (nt w p) <> [] ->
         exists t par s, In (FC p par s) (stk w t) /\ past_c2 s = true;
  d_wt : forall p, (p < nnext w)%nat -> flag (nt w p) <> 0 -> waiters (nt w p) <> [] ->
         exists t par s, In (FC p par s) (stk w t) /\ wstage s = true }.

Lemma InvD_step1 w t c : InvA w -> InvD w -> InvD (fst (step1 w t c)).
Proof.
  intros I [D1 D2]. pose proof (step1_ext w t c) as E. pose proof (ia_shape _ I t) as Sh.
  assert (forall t0, t0 <> t -> stk (fst (step1 w t c)) t0 = stk w t0) as So by (intros; eapply stk_other; eauto).
  assert (forall p, (p < nnext (fst (step1 w t c)))%nat -> flag (nt (fst (step1 w t c)) p) <> 0 -> (p < nnext w)%nat) as Old.
  { intros p Hp Hf. destruct (step1_nnext w t c) as [Eq|(par & dl & rest & Hst & Eq & Hnt & _)]; [lia|].
    destruct (Nat.eq_dec p (nnext w)) as [->|Hne]; [|lia]. rewrite Hnt in Hf. cbn in Hf. congruence. }
  split.
  - intros p Hp' Hf Hc. pose proof (Old p Hp' Hf) as Hp.
    destruct (step1_flag w t c p Hf) as [Hf0|[(par & Ht)|Hge]]; [| |lia].
    + destruct (children (nt (fst (step1 w t c)) p)) as [|x r] eqn:Ec; [congruence|].
      destruct (step1_link_unnotified w t c p x) as [Hx|Hx]; [rewrite Ec; left; reflexivity| |congruence].
      destruct (D1 p Hp Hf0) as (t0 & par & s & Hin & Hs); [intros Hn; rewrite Hn in Hx; destruct Hx|].
      destruct (Nat.eq_dec t0 t) as [->|Ht0].
      * destruct (step1_fc_persist w t c p par s Sh Hin (or_introl Hs)) as [(par' & s' & Hin' & Hs')|Hn]; [eauto 6|congruence].
      * exists t0, par, s. rewrite (So t0 Ht0). auto.
    + assert (In (FC p par C2) (stk w t)) as Hin by (unfold top in Ht; destruct (stk w t); inversion Ht; left; reflexivity).
      destruct (step1_fc_persist w t c p par C2 Sh Hin (or_intror (conj eq_refl Ht))) as [(par' & s' & Hin' & Hs')|Hn]; [eauto 6|congruence].
  - intros p Hp' Hf Hc. pose proof (Old p Hp' Hf) as Hp.
    destruct (step1_flag w t c p Hf) as [Hf0|[(par & Ht)|Hge]]; [| |lia].
    + destruct (waiters (nt (fst (step1 w t c)) p)) as [|x r] eqn:Ec; [congruence|].
      destruct (step1_enq_unnotified w t c p x) as [Hx|Hx]; [rewrite Ec; left; reflexivity| |congruence].
      destruct (D2 p Hp Hf0) as (t0 & par & s & Hin & Hs); [intros Hn; rewrite Hn in Hx; destruct Hx|].
      destruct (Nat.eq_dec t0 t) as [->|Ht0].
      * destruct (step1_wake_persist w t c p par s Sh Hin (or_introl Hs)) as [(par' & s' & Hin' & Hs')|Hn]; [eauto 6|congruence].
      * exists t0, par, s. rewrite (So t0 Ht0). auto.
    + assert (In (FC p par C2) (stk w t)) as Hin by (unfold top in Ht; destruct (stk w t); inversion Ht; left; reflexivity).
      destruct (step1_wake_persist w t c p par C2 Sh Hin (or_intror (conj eq_refl Ht))) as [(par' & s' & Hin' & Hs')|Hn]; [eauto 6|congruence].
Qed.
Lemma begin_keeps w t t0 f : In f (stk w t0) -> In f (stk (begin_call w t) t0).
Proof.
  intros Hin. destruct (Nat.eq_dec t0 t) as [->|Ht0].
  - destruct (begin_stack w t) as [->|[[E _]|(E & _)]]; auto; rewrite E in Hin; destruct Hin.
  - pose proof (tonly_begin t w) as T. pose proof (psame_ext _ _ _ (tonly_psame _ _ _ T)) as E.
    rewrite (stk_other _ _ _ _ E Ht0). auto.
Qed.
Lemma InvD_begin w t : InvD w -> InvD (begin_call w t).
Proof.
  intros [D1 D2]. split; intros p Hp; rewrite nnext_begin in Hp; unfold nt; rewrite notes_begin; intros Hf Hc.
  - destruct (D1 p Hp Hf Hc) as (t0 & par & s & Hin & Hs). exists t0, par, s. split; [apply begin_keeps|]; auto.
  - destruct (D2 p Hp Hf Hc) as (t0 & par & s & Hin & Hs). exists t0, par, s. split; [apply begin_keeps|]; auto.
Qed.
Lemma InvD_tick w d : InvD w -> InvD (tick w d).
Proof. intros [D1 D2]. split; auto. Qed.
Lemma InvD_init c0 progs : InvD (init c0 progs).
Proof. split; intros p Hp; cbn in Hp; lia. Qed.
Lemma InvD_run sched : forall w, InvA w -> InvD w -> InvD (run w sched).
Proof.
  induction sched as [|a r IH]; intros w I D; cbn; auto. apply IH.
  - destruct a as [t c|d]; cbn [exec]; [rewrite step_step1; apply InvA_step1, InvA_begin, I|apply InvA_tick, I].
  - destruct a as [t c|d]; cbn [exec]; [rewrite step_step1; apply InvD_step1; [apply InvA_begin, I|apply InvD_begin, D]|apply InvD_tick, D].
Qed.
Theorem InvD_reachable w : reachable w -> InvD w.
Proof. intros (c0 & progs & sched & H0 & ->). apply InvD_run; [apply InvA_init, H0|apply InvD_init]. Qed.

(* no note_notify_child (p) in progress *)
Definition notifying (w : world) (p : nat) : Prop := exists t par s, In (FC p par s) (stk w t).
Theorem descendants_local w p : reachable w -> (p < nnext w)%nat -> flag (nt w p) <> 0 -> ~ notifying w p ->
  children (nt w p) = [] /\ waiters (nt w p) = [].
Proof.
  intros R Hp Hf Hn. destruct (InvD_reachable w R) as [D1 D2]. split.
  - destruct (children (nt w p)) eqn:E; [reflexivity|]. exfalso. apply Hn. destruct (D1 p Hp Hf) as (t & par & s & Hin & _); [congruence|]. exists t, par, s. exact Hin.
  - destruct (waiters (nt w p)) eqn:E; [reflexivity|]. exfalso. apply Hn. destruct (D2 p Hp Hf) as (t & par & s & Hin & _); [congruence|]. exists t, par, s. exact Hin.
Qed.

(* nothing that notifies or frees is in progress anywhere *)
Definition quiet (w : world) : Prop := forall t f, In f (stk w t) -> match f with FN _ _ _ _ | FC _ _ _ | FF _ _ _ => False | _ => True end.
Lemma quiet_not_notifying w p : quiet w -> ~ notifying w p.
Proof. intros Q (t & par & s & Hin). exact (Q t _ Hin). Qed.
