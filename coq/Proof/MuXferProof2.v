(* MuXferProof2: C04 clause "a signalled waiter handed to the mutex queue is not lost" over Model/MuXferModel.v:
   Part 1 what one step of mu.c does to the queue and the wake lists; Part 2 the transfer invariant TInv and its
   preservation; Part 3 quiescent worlds; Part 4 examples (vm_compute). *)
From NsyncBase Require Import CSem.
From NsyncGen Require Import Consts Sites.
From NsyncModel Require Import MuModel MuSpec.
From NsyncProof Require Import WordView MuProof MuProof2.
From NsyncModel Require Import MuXferModel.
From NsyncProof Require Import MuXferProof.
From Coq Require Import List ZArith Bool Lia PeanoNat Permutation.
Import ListNotations.
Local Open Scope Z_scope.

(* ================================================================== *)
(* Part 1: what one step of mu.c does to the queue and the wake lists  *)
(* ================================================================== *)
Definition wlt (w : world) (t : nat) : list nat := wl (role_of (t_pc (get w t))).
(* p is on the mutex queue or on the wake list of a releaser *)
Definition listed (w : world) (p : nat) : Prop := In p (queue w) \/ exists u, In p (wlt w u).

Lemma begin_op_done w t : t_pc (get (begin_op w t) t) = Idle -> t_ops (get (begin_op w t) t) = [].
Proof.
  unfold begin_op. cbv zeta.
  destruct (t_pc (get w t)) eqn:E; try (rewrite E; discriminate).
  destruct (t_ops (get w t)) eqn:O; [intros _; exact O|].
  destruct (Nat.lt_ge_cases t (length (thr w))) as [L|G].
  - rewrite get_set_t_same by exact L. cbn [t_pc t_ops]. destruct o as [m|m|]; destruct (held (get w t)); discriminate.
  - rewrite get_oob in O by exact G. discriminate O.
Qed.

Lemma begin_op_idem w t : begin_op (begin_op w t) t = begin_op w t.
Proof.
  unfold begin_op at 1. cbv zeta.
  destruct (t_pc (get (begin_op w t) t)) eqn:E; try reflexivity.
  rewrite (begin_op_done _ _ E). reflexivity.
Qed.

Lemma step_begin w t : step w t = step (begin_op w t) t.
Proof. unfold step. rewrite begin_op_idem. reflexivity. Qed.

Definition lists_ok (w w' : world) (t : nat) : Prop :=
  (forall x, In x (queue w) -> In x (queue w') \/ In x (wlt w' t)) /\
  (forall x, In x (wlt w t) -> In x (wlt w' t) \/ waiting w' x = false) /\
  (forall x, waiting w' x = true -> waiting w x = true \/ In x (queue w')).

Lemma fupd_true_inv (f : nat -> bool) k x : fupd f k false x = true -> f x = true.
Proof. unfold fupd. destruct (Nat.eqb x k); [discriminate | auto]. Qed.

Lemma step_lists_core w t : begin_op w t = w -> (t < length (thr w))%nat -> lists_ok w (fst (step w t)) t.
Proof.
  intros HB Ht. unfold lists_ok, wlt, step. rewrite HB. cbv zeta.
  destruct (get w t) as [p ops h sl lt] eqn:Hs. unfold get in Hs. cbn [t_pc].
  Local Ltac leaf :=
    let x := fresh "x" in let Hx := fresh "Hx" in
    split; [|split]; intros x Hx;
    [ first [ now auto | left; apply in_or_app; now auto | left; right; exact Hx | idtac ]
    | first [ now destruct Hx | now auto | idtac ]
    | first [ now auto | apply fupd_true_inv in Hx; now auto | idtac ] ].
  Local Ltac brk2 := repeat (match goal with
    | |- context [if ?c then _ else _] => destruct c
    | |- context [match wake ?u with _ => _ end] => let Wk := fresh "Wk" in destruct (wake u) eqn:Wk
    end; cbv beta iota).
  destruct p; try (cbn [role_of wl]; unfold cas; brk2; cbn [fst]; normt Hs Ht; cbn [role_of wl];
                   try match goal with H : wake _ = _ |- _ => rewrite ?H end; leaf; fail).
  - (* LsStoreWaiting *) cbn [fst]. normt Hs Ht. cbn [role_of wl].
    split; [|split]; intros x Hx.
    + left. destruct (wcount l =? 0); [apply in_or_app; auto | right; exact Hx].
    + destruct Hx.
    + unfold fupd in Hx. destruct (Nat.eqb_spec x t) as [E|E]; [subst x; right | left; exact Hx].
      destruct (wcount l =? 0); [apply in_or_app; right; now left | now left].
  - (* UsCasSpin *) unfold cas. destruct (word w =? old); cbv beta iota.
    + destruct (us_after_scan (set_word w _)) as [u keep] eqn:E. apply us_after_scan_facts in E.
      destruct E as (P & _). cbn [queue set_word] in P.
      cbn [fst]. normt Hs Ht. cbn [role_of wl].
      split; [|split]; intros x Hx.
      * apply (Permutation_in _ (Permutation_sym P)) in Hx. apply in_app_or in Hx. tauto.
      * destruct Hx.
      * auto.
    + cbn [fst]. normt Hs Ht. cbn [role_of wl]. leaf.
  - cbn [role_of wl]. unfold cas. destruct (word w =? old); cbv beta iota; [destruct (wake u) eqn:Wk|]; cbn [fst]; normt Hs Ht; cbn [role_of wl]; rewrite ?Wk.
    all: leaf.
  - (* UsWakeStore *) cbn [role_of wl]. destruct (wake u) as [|p rest] eqn:Wk; cbn [fst]; normt Hs Ht; cbn [role_of wl wake]; rewrite ?Wk.
    + leaf.
    + split; [|split]; intros x Hx.
      * auto.
      * destruct Hx as [<-|Hx]; [right; apply fupd_same | left; exact Hx].
      * apply fupd_true_inv in Hx. auto.
  - (* UsWakeV *) cbn [role_of wl]. destruct (wake u) as [|p' rest] eqn:Wk; cbn [fst]; normt Hs Ht; cbn [role_of wl wake]; rewrite ?Wk; leaf.
Qed.

Lemma begin_op_length w t : length (thr (begin_op w t)) = length (thr w).
Proof.
  unfold begin_op. cbv zeta. destruct (t_pc (get w t)); try reflexivity. destruct (t_ops (get w t)); try reflexivity.
  unfold set_t; cbn [thr]. apply length_lupd.
Qed.

Lemma lists_ok_refl w t : lists_ok w w t.
Proof. split; [|split]; auto. Qed.

Lemma step_lists w t : lists_ok w (fst (step w t)) t.
Proof.
  destruct (Nat.lt_ge_cases t (length (thr w))) as [L|G].
  - rewrite step_begin.
    pose proof (step_lists_core (begin_op w t) t (begin_op_idem w t) ltac:(rewrite begin_op_length; exact L)) as (A & B & C).
    rewrite begin_op_queue, begin_op_waiting in *.
    split; [exact A | split; [|exact C]].
    intros x Hx. apply B. unfold wlt in *.
    destruct (t_pc (get w t)) eqn:E; try (rewrite begin_op_nonidle by (rewrite E; discriminate); rewrite E; exact Hx).
    destruct Hx.
  - assert (step w t = (w, EvNone)) as ->.
    { unfold step, begin_op. cbv zeta. rewrite (get_oob _ _ G). cbn [t_pc t_ops dflt_t]. rewrite (get_oob _ _ G). reflexivity. }
    apply lists_ok_refl.
Qed.

Lemma step_listed w t p : listed w p -> waiting (fst (step w t)) p = true -> listed (fst (step w t)) p.
Proof.
  intros [Hq | [u Hu]] Hw; destruct (step_lists w t) as (A & B & _).
  - destruct (A _ Hq) as [H | H]; [left; exact H | right; exists t; exact H].
  - destruct (Nat.eq_dec u t) as [->|N].
    + destruct (B _ Hu) as [H | H]; [right; exists t; exact H | congruence].
    + right. exists u. unfold wlt in *. rewrite step_frame by exact N. exact Hu.
Qed.

Lemma step_waiting w t p : waiting (fst (step w t)) p = true -> waiting w p = true \/ listed (fst (step w t)) p.
Proof. intros H. destruct (step_lists w t) as (_ & _ & C). destruct (C _ H); [left | right; left]; assumption. Qed.

(* ================================================================== *)
(* Part 2: a transferred waiter is on the mutex queue (or on a wake list) until it is woken *)
(* ================================================================== *)
(* from the moment the thread has announced its wait (waiting = 1, cv_mu set) to the moment it sees waiting = 0 *)
Definition wphase (xp : xpc) : bool :=
  match xp with
  | XwLoadMu _ | XwEnq _ | XwUnlock _ | XwLoop _ | XwSem _ | XwLoad6 _ | XwConfirm _ | XwLoad13 _ => true
  | _ => false
  end.

Definition TInv (xw : xworld) : Prop :=
  forall p, wphase (x_pc (xget xw p)) = true -> xferred xw p = true -> waiting (mw xw) p = true -> listed (mw xw) p.

Lemma TInv_upd xw xw' t : TInv xw ->
  (forall p, p <> t -> x_pc (xget xw' p) = x_pc (xget xw p)) ->
  (forall p, listed (mw xw) p -> waiting (mw xw') p = true -> listed (mw xw') p) ->
  (forall p, waiting (mw xw') p = true -> xferred xw' p = true -> waiting (mw xw) p = true \/ listed (mw xw') p) ->
  (forall p, xferred xw' p = true -> xferred xw p = true \/ listed (mw xw') p) ->
  (wphase (x_pc (xget xw' t)) = true -> wphase (x_pc (xget xw t)) = true \/ xferred xw' t = false) ->
  TInv xw'.
Proof.
  intros H0 HP HL HW HX HT p Wp Xp Wt.
  destruct (HX _ Xp) as [Xp0 | ?]; [|assumption].
  destruct (HW _ Wt Xp) as [Wt0 | ?]; [|assumption].
  apply HL; [|exact Wt]. apply H0; [|exact Xp0 | exact Wt0].
  destruct (Nat.eq_dec p t) as [->|N]; [|rewrite <- HP by exact N; exact Wp].
  destruct (HT Wp) as [? | E]; [assumption | congruence].
Qed.

Lemma xget_lupd_same xw m' q' f' t xs' : (t < length (xthr xw))%nat ->
  xget (mk_xw m' q' f' (lupd (xthr xw) t xs')) t = xs'.
Proof. intros H. unfold xget; cbn [xthr]. now apply nth_lupd_same. Qed.
Lemma xget_lupd_other xw m' q' f' t xs' p : p <> t ->
  xget (mk_xw m' q' f' (lupd (xthr xw) t xs')) p = xget xw p.
Proof. intros H. unfold xget; cbn [xthr]. now apply nth_lupd_other. Qed.

Lemma listed_same w w' p : queue w' = queue w -> (forall u, wlt w' u = wlt w u) -> listed w p -> listed w' p.
Proof. intros Q L [H | [u H]]; [left; now rewrite Q | right; exists u; now rewrite L]. Qed.

(* a step that leaves the mutex queue and the wake lists alone and sets no waiting / transferred flag of a
   transferred waiter *)
Lemma TInv_same xw m' q' f' t xs' : TInv xw -> (t < length (xthr xw))%nat ->
  queue m' = queue (mw xw) -> (forall u, wlt m' u = wlt (mw xw) u) ->
  (forall p, waiting m' p = true -> f' p = true -> waiting (mw xw) p = true) ->
  (forall p, f' p = true -> xferred xw p = true) ->
  (wphase (x_pc xs') = true -> wphase (x_pc (xget xw t)) = true \/ f' t = false) ->
  TInv (mk_xw m' q' f' (lupd (xthr xw) t xs')).
Proof.
  intros H0 Ht Q L W X P. apply (TInv_upd xw _ t H0); cbn [mw xferred].
  - intros p N. now rewrite xget_lupd_other.
  - intros p Hl _. now apply (listed_same (mw xw)).
  - intros p Hw Hx. left. now apply W.
  - intros p Hx. left. now apply X.
  - rewrite xget_lupd_same by exact Ht. exact P.
Qed.

(* thread t, outside the announced phase of a native cv wait after the step, changes its own waiting flag (the flag of
   its nsync_wait_n record) and its own next MuModel pc *)
Lemma TInv_own xw m' q' t xs' : TInv xw -> (t < length (xthr xw))%nat ->
  queue m' = queue (mw xw) -> (forall u, wlt m' u = wlt (mw xw) u) ->
  (forall p, p <> t -> waiting m' p = waiting (mw xw) p) ->
  wphase (x_pc xs') = false ->
  TInv (mk_xw m' q' (xferred xw) (lupd (xthr xw) t xs')).
Proof.
  intros H0 Ht Q L W P p Wp Xp Wt. cbn [mw xferred] in *.
  destruct (Nat.eq_dec p t) as [->|N]; [rewrite xget_lupd_same in Wp by exact Ht; congruence|].
  rewrite xget_lupd_other in Wp by exact N. rewrite W in Wt by exact N.
  apply (listed_same (mw xw)); [exact Q | exact L | apply H0; assumption].
Qed.

(* a step of mu.c by thread t *)
Lemma TInv_mu xw t xs' : TInv xw -> (t < length (xthr xw))%nat ->
  (wphase (x_pc xs') = true -> wphase (x_pc (xget xw t)) = true) ->
  TInv (mk_xw (fst (step (mw xw) t)) (cvq xw) (xferred xw) (lupd (xthr xw) t xs')).
Proof.
  intros H0 Ht P. apply (TInv_upd xw _ t H0); cbn [mw xferred].
  - intros p N. now rewrite xget_lupd_other.
  - intros p. apply step_listed.
  - intros p Hw _. now apply step_waiting.
  - auto.
  - rewrite xget_lupd_same by exact Ht. auto.
Qed.
Lemma TInv_mu0 xw t : TInv xw ->
  TInv (mk_xw (fst (step (mw xw) t)) (cvq xw) (xferred xw) (xthr xw)).
Proof.
  intros H0. apply (TInv_upd xw _ t H0); cbn [mw xferred]; auto.
  - intros p. apply step_listed.
  - intros p Hw _. now apply step_waiting.
Qed.

Lemma wlt_set_pc w t pc' u : (t < length (thr w))%nat -> t_pc (get w t) = Idle -> wl (role_of pc') = [] ->
  wlt (set_pc w t pc') u = wlt w u.
Proof.
  intros Ht PI E. unfold wlt. destruct (Nat.eq_dec u t) as [->|N].
  - rewrite get_set_pc_same by exact Ht. cbn [t_pc]. rewrite E, PI. reflexivity.
  - now rewrite get_set_pc_other.
Qed.

Lemma set_all_true f l v p : set_all f l v p = true -> f p = true \/ (In p l /\ v = true).
Proof.
  revert f. induction l as [|a l IH]; intros f H; cbn [set_all] in H; [left; exact H|].
  destruct (IH _ H) as [H1 | [H1 H2]]; [|right; split; [now right | exact H2]].
  unfold fupd in H1. destruct (Nat.eqb_spec p a) as [->|]; [right; split; [now left | exact H1] | left; exact H1].
Qed.

Lemma wlt_push_op w t o u : wlt (push_op w t o) u = wlt w u.
Proof.
  unfold wlt, push_op. destruct (Nat.eq_dec u t) as [->|N]; [|now rewrite get_set_t_other].
  destruct (Nat.lt_ge_cases t (length (thr w))) as [L|G].
  - now rewrite get_set_t_same.
  - unfold get, set_t; cbn [thr]. rewrite !nth_overflow; [reflexivity | exact G | now rewrite length_lupd].
Qed.

Ltac xnorm :=
  unfold set_xpc, add_xret, set_xt, set_mw, set_cvq, set_xferred, xget; cbn [mw cvq xferred xthr];
  rewrite ?lupd_lupd.
Ltac xn Hx := xnorm; rewrite ?Hx; cbn [x_pc x_ops x_rets].

Section TransferInvariant.
Variable n : nat.
Hypothesis Hn : Z.of_nat n < 16777215.

Lemma xbegin_tinv xw t : XInv n xw -> TInv xw -> TInv (xbegin xw t).
Proof.
  intros HI0 H0. unfold xbegin. cbv zeta.
  destruct (xget xw t) as [xp xo xr] eqn:Hx. cbn [x_pc x_ops x_rets].
  destruct xp; try exact H0. destruct xo as [|o rest]; try exact H0.
  destruct (mu_idle (mw xw) t) eqn:MI; try exact H0.
  assert (t < length (xthr xw))%nat as Ht by (apply xget_inb; rewrite Hx; discriminate).
  unfold xget in Hx.
  destruct o as [o'|m| | |[m|]|m]; xn Hx; rewrite ?nth_lupd_same by exact Ht; cbn [x_pc x_ops x_rets];
    (apply TInv_same; [exact H0 | exact Ht | reflexivity | | auto | auto |]);
    try (intros u; first [apply wlt_push_op | reflexivity]).
  all: cbn [x_pc wphase]; try discriminate.
  all: destruct (held (get (mw xw) t)) as [m'|]; [destruct (mode_eqb m m')|]; cbn [wphase]; discriminate.
Qed.

Ltac tW := let p := fresh "p" in let Hw := fresh "Hw" in
  intros p Hw _; unfold set_waiting, set_sem, set_wtype, set_word, set_queue, set_pc, set_t in Hw; cbn [waiting] in Hw;
  first [ exact Hw | apply fupd_true_inv in Hw; exact Hw ].
Ltac tP Hx' := cbn [x_pc wphase];
  first [ let D := fresh in intros D; discriminate D | intros _; left; rewrite Hx'; reflexivity ].
Ltac tsame H1 Ht Hx' :=
  apply TInv_same; [exact H1 | exact Ht | reflexivity | intros; reflexivity | tW | auto | tP Hx'].

Lemma xstep_thr_tinv xw0 t c : XInv n xw0 -> TInv xw0 -> TInv (fst (xstep_thr xw0 t c)).
Proof.
  intros HI0 H0. pose proof (xbegin_tinv _ t HI0 H0) as H1. apply (xbegin_inv n Hn _ t) in HI0. clear H0.
  unfold xstep_thr. set (xw := xbegin xw0 t) in *. clearbody xw. clear xw0. cbv zeta.
  pose proof HI0 as (HI & HL & HT). destruct (HT t) as [Hp _].
  destruct (xget xw t) as [xp xo xr] eqn:Hx. cbn [x_pc x_ops x_rets] in *.
  assert (xp <> XIdle -> (t < length (xthr xw))%nat) as HtN.
  { intros NE. apply xget_inb. rewrite Hx. intros E. inversion E. contradiction. }
  assert (Hlen : length (thr (mw xw)) = length (xthr xw)) by (rewrite HL; apply HI).
  pose proof Hx as Hx'. unfold xget in Hx.
  destruct xp.
  - (* XIdle *) unfold mu_step. destruct (step (mw xw) t) as [m' e] eqn:E. cbn [fst]. xnorm.
    assert (m' = fst (step (mw xw) t)) as -> by now rewrite E. apply TInv_mu0; exact H1.
  - exact H1.
  - (* XwStore *) assert (t < length (xthr xw))%nat as Ht by (apply HtN; discriminate). cbn [fst]. xn Hx.
    apply TInv_same; [exact H1 | exact Ht | reflexivity | intros; reflexivity | | | ].
    + intros p Hw Hf. unfold set_waiting in Hw; cbn [waiting] in Hw. unfold fupd in *.
      destruct (Nat.eqb p t); [discriminate Hf | exact Hw].
    + intros p Hf. apply fupd_true_inv in Hf. exact Hf.
    + intros _. right. apply fupd_same.
  - (* XwLoadMu *) assert (t < length (xthr xw))%nat as Ht by (apply HtN; discriminate).
    destruct (has (word (mw xw)) MU_WHELD_IF_NON_ZERO), (has (word (mw xw)) MU_RHELD_IF_NON_ZERO); cbn [fst]; xn Hx;
      tsame H1 Ht Hx'.
  - (* XwEnq *) assert (t < length (xthr xw))%nat as Ht by (apply HtN; discriminate). destruct Hp as (PI & _).
    cbn [fst]. xn Hx.
    apply TInv_same; [exact H1 | exact Ht | reflexivity | | tW | auto | tP Hx'].
    intros u. apply wlt_set_pc; [rewrite Hlen; exact Ht | exact PI | reflexivity].
  - (* XwUnlock *) assert (t < length (xthr xw))%nat as Ht by (apply HtN; discriminate).
    unfold mu_step. destruct (step (mw xw) t) as [m' e] eqn:E. xnorm.
    assert (m' = fst (step (mw xw) t)) as Em by now rewrite E.
    cbn [mw]. destruct (mu_pc_idle m' t); cbn [fst]; xn Hx; rewrite Em.
    + apply TInv_mu; [exact H1 | exact Ht | intros _; rewrite Hx'; reflexivity].
    + apply TInv_mu0; exact H1.
  - (* XwLoop *) assert (t < length (xthr xw))%nat as Ht by (apply HtN; discriminate). destruct Hp as (PI & _).
    destruct (waiting (mw xw) t); cbn [fst]; xn Hx.
    + destruct (w_so l); tsame H1 Ht Hx'.
    + apply TInv_same; [exact H1 | exact Ht | reflexivity | | tW | auto | tP Hx'].
      intros u. change (wlt (mw xw) u) with (wlt (set_wtype (mw xw) t (w_lm l)) u).
      apply wlt_set_pc; [cbn [thr set_wtype]; rewrite Hlen; exact Ht | exact PI | destruct (xferred xw t); reflexivity].
  - (* XwSem *) assert (t < length (xthr xw))%nat as Ht by (apply HtN; discriminate).
    destruct c; [destruct (0 <? sem (mw xw) t)|]; cbn [fst]; try exact H1; xn Hx; tsame H1 Ht Hx'.
  - (* XwLoad6 *) assert (t < length (xthr xw))%nat as Ht by (apply HtN; discriminate).
    destruct (waiting (mw xw) t); cbn [fst]; xn Hx; tsame H1 Ht Hx'.
  - (* XwConfirm *) assert (t < length (xthr xw))%nat as Ht by (apply HtN; discriminate).
    destruct (mem_id t (cvq xw)); cbn [fst]; xn Hx; tsame H1 Ht Hx'.
  - (* XwLoad13 *) assert (t < length (xthr xw))%nat as Ht by (apply HtN; discriminate).
    cbn [fst]; xn Hx; tsame H1 Ht Hx'.
  - (* XwReacq *) assert (t < length (xthr xw))%nat as Ht by (apply HtN; discriminate).
    unfold mu_step. destruct (step (mw xw) t) as [m' e] eqn:E. xnorm.
    assert (m' = fst (step (mw xw) t)) as Em by now rewrite E.
    cbn [mw]. destruct (mu_pc_idle m' t); cbn [fst]; xn Hx.
    + rewrite nth_lupd_same by exact Ht. cbn [x_ops x_rets]. rewrite Em.
      apply TInv_mu; [exact H1 | exact Ht | cbn [x_pc wphase]; discriminate].
    + rewrite Em. apply TInv_mu0; exact H1.
  - (* XkLoad *) assert (t < length (xthr xw))%nat as Ht by (apply HtN; discriminate).
    destruct c; [|destruct (cvq xw)]; cbn [fst]; try exact H1; xn Hx; tsame H1 Ht Hx'.
  - (* XkSelect *) assert (t < length (xthr xw))%nat as Ht by (apply HtN; discriminate).
    destruct (if bc then sel_broadcast (xrd xw) (cvq xw) else sel_signal (xrd xw) (cvq xw)) as [[wk kp] allr].
    destruct wk as [|f wk']; [|destruct (nrec xw f)]; cbn [fst]; xn Hx; tsame H1 Ht Hx'.
  - (* XvLoad1 *) assert (t < length (xthr xw))%nat as Ht by (apply HtN; discriminate).
    destruct (xfer_wanted (wtype (mw xw)) (word (mw xw)) k); cbn [fst]; xn Hx;
      [|unfold wake_loop; destruct (k_wake k)]; tsame H1 Ht Hx'.
  - (* XvCas1 *) assert (t < length (xthr xw))%nat as Ht by (apply HtN; discriminate).
    unfold cas. destruct (word (mw xw) =? wake_waiters_cas1_old old); cbv beta iota.
    + destruct (xfer (nrec xw) (wtype (mw xw)) (first_cant_acquire (wtype (mw xw)) old (k_wake k)) (k_wake k)) as [[moved stay] set_on].
      cbn [fst]. xn Hx. apply (TInv_upd xw _ t H1); cbn [mw xferred].
      * intros p N. now rewrite xget_lupd_other.
      * intros p [Hq | [u Hu]] _; [left; cbn [queue set_queue]; apply in_or_app; now left | right; exists u; exact Hu].
      * intros p Hw _. left. exact Hw.
      * intros p Hf. apply set_all_true in Hf. destruct Hf as [Hf | [Hf _]]; [left; exact Hf|].
        right. left. cbn [queue set_queue]. apply in_or_app. now right.
      * rewrite xget_lupd_same by exact Ht. cbn [x_pc wphase]. discriminate.
    + cbn [fst]. xn Hx. unfold wake_loop; destruct (k_wake k); tsame H1 Ht Hx'.
  - (* XvLoad3 *) assert (t < length (xthr xw))%nat as Ht by (apply HtN; discriminate).
    cbn [fst]; xn Hx; tsame H1 Ht Hx'.
  - (* XvCas2 *) assert (t < length (xthr xw))%nat as Ht by (apply HtN; discriminate).
    unfold cas. destruct (word (mw xw) =? wake_waiters_cas2_old old); cbv beta iota; cbn [fst]; xn Hx;
      [unfold wake_loop; destruct (k_wake k)|]; tsame H1 Ht Hx'.
  - (* XvLoad5 *) assert (t < length (xthr xw))%nat as Ht by (apply HtN; discriminate).
    cbn [fst]; xn Hx; tsame H1 Ht Hx'.
  - (* XvStore *) assert (t < length (xthr xw))%nat as Ht by (apply HtN; discriminate).
    destruct (k_wake k) as [|p rest]; cbn [fst]; xn Hx; tsame H1 Ht Hx'.
  - (* XvV *) assert (t < length (xthr xw))%nat as Ht by (apply HtN; discriminate).
    cbn [fst]; xn Hx; unfold wake_loop; destruct (k_wake k); tsame H1 Ht Hx'.
  - (* XnStore0 *) assert (t < length (xthr xw))%nat as Ht by (apply HtN; discriminate). cbn [fst]. xn Hx.
    apply TInv_own; [exact H1 | exact Ht | reflexivity | intros; reflexivity | | reflexivity].
    intros p N. cbn [waiting set_waiting]. now apply fupd_other.
  - (* XnEnq *) assert (t < length (xthr xw))%nat as Ht by (apply HtN; discriminate). destruct Hp as (PI & _).
    destruct om as [m|]; cbn [fst]; xn Hx.
    + apply TInv_own; [exact H1 | exact Ht | reflexivity | | | reflexivity].
      * intros u. change (wlt (mw xw) u) with (wlt (set_waiting (mw xw) t (negb (cv_enqueue_store1_new =? 0))) u).
        apply wlt_set_pc; [cbn [thr set_waiting]; rewrite Hlen; exact Ht | exact PI | reflexivity].
      * intros p N. cbn [waiting set_waiting set_pc set_t]. now apply fupd_other.
    + apply TInv_own; [exact H1 | exact Ht | reflexivity | intros; reflexivity | | reflexivity].
      intros p N. cbn [waiting set_waiting]. now apply fupd_other.
  - (* XnUnlock *) assert (t < length (xthr xw))%nat as Ht by (apply HtN; discriminate).
    unfold mu_step. destruct (step (mw xw) t) as [m' e] eqn:E. xnorm.
    assert (m' = fst (step (mw xw) t)) as Em by now rewrite E.
    cbn [mw]. destruct (mu_pc_idle m' t); cbn [fst]; xn Hx; rewrite Em.
    + apply TInv_mu; [exact H1 | exact Ht | cbn [x_pc wphase]; discriminate].
    + apply TInv_mu0; exact H1.
  - (* XnReady *) assert (t < length (xthr xw))%nat as Ht by (apply HtN; discriminate).
    destruct (cv_ready_time_load1_guard (b2z (waiting (mw xw) t))); cbn [fst]; xn Hx; tsame H1 Ht Hx'.
  - (* XnSem *) assert (t < length (xthr xw))%nat as Ht by (apply HtN; discriminate).
    destruct c; [destruct (0 <? sem (mw xw) t)|]; cbn [fst]; try exact H1; xn Hx; tsame H1 Ht Hx'.
  - (* XnDeq *) assert (t < length (xthr xw))%nat as Ht by (apply HtN; discriminate). destruct Hp as (PI & _).
    destruct (waiting (mw xw) t && cv_dequeue_store1_guard (b2z (mem_id t (cvq xw)))); [destruct om as [m|]|]; cbn [fst]; xn Hx;
      [| |tsame H1 Ht Hx'].
    + apply TInv_own; [exact H1 | exact Ht | reflexivity | | | reflexivity].
      * intros u. change (wlt (mw xw) u) with (wlt (set_waiting (mw xw) t (negb (cv_dequeue_store1_new =? 0))) u).
        apply wlt_set_pc; [cbn [thr set_waiting]; rewrite Hlen; exact Ht | exact PI | reflexivity].
      * intros p N. cbn [waiting set_waiting set_pc set_t]. now apply fupd_other.
    + apply TInv_own; [exact H1 | exact Ht | reflexivity | intros; reflexivity | | reflexivity].
      intros p N. cbn [waiting set_waiting]. now apply fupd_other.
  - (* XnSpin *) assert (t < length (xthr xw))%nat as Ht by (apply HtN; discriminate). destruct Hp as (PI & _).
    destruct (waiting (mw xw) t); [|destruct om as [m|]]; cbn [fst]; try exact H1; xn Hx; [|tsame H1 Ht Hx'].
    apply TInv_own; [exact H1 | exact Ht | reflexivity | | reflexivity | reflexivity].
    intros u. apply wlt_set_pc; [rewrite Hlen; exact Ht | exact PI | reflexivity].
  - (* XnReacq *) assert (t < length (xthr xw))%nat as Ht by (apply HtN; discriminate).
    unfold mu_step. destruct (step (mw xw) t) as [m' e] eqn:E. xnorm.
    assert (m' = fst (step (mw xw) t)) as Em by now rewrite E.
    cbn [mw]. destruct (mu_pc_idle m' t); cbn [fst]; xn Hx.
    + rewrite nth_lupd_same by exact Ht. cbn [x_ops x_rets]. rewrite Em.
      apply TInv_mu; [exact H1 | exact Ht | cbn [x_pc wphase]; discriminate].
    + rewrite Em. apply TInv_mu0; exact H1.
  - (* XgStore *) assert (t < length (xthr xw))%nat as Ht by (apply HtN; discriminate). cbn [fst]. xn Hx.
    apply TInv_same; [exact H1 | exact Ht | reflexivity | intros; reflexivity | | | ].
    + intros p Hw Hf. unfold set_waiting in Hw; cbn [waiting] in Hw. unfold fupd in *.
      destruct (Nat.eqb p t); [discriminate Hf | exact Hw].
    + intros p Hf. apply fupd_true_inv in Hf. exact Hf.
    + intros _. right. apply fupd_same.
Qed.
End TransferInvariant.

Section TransferRun.
Variable n : nat.
Hypothesis Hn : Z.of_nat n < 16777215.

Lemma xstep_tinv xw a : XInv n xw -> TInv xw -> TInv (fst (xstep xw a)).
Proof.
  destruct a as [t c|p]; [apply xstep_thr_tinv; exact Hn|]. intros _ H0. cbn [xstep fst].
  intros q Wp Xp Wt. apply (H0 q Wp Xp Wt).
Qed.

Lemma xrun_tinv sched : forall xw, XInv n xw -> TInv xw -> XInv n (xrun xw sched) /\ TInv (xrun xw sched).
Proof.
  unfold xrun. induction sched as [|a rest IH]; intros xw H HT; cbn [fold_left]; [split; assumption|].
  apply IH; [apply xstep_inv; assumption | apply xstep_tinv; assumption].
Qed.
End TransferRun.

Lemma xinit_tinv progs : TInv (xinit progs).
Proof. intros p _ Xp. discriminate Xp. Qed.

(* the waiters a releaser has taken off the mutex queue and not yet woken (nsync_mu_unlock_slow_'s wake list) *)
Definition wake_of (p : pc) : list nat :=
  match p with
  | UsRelLoad _ u | UsRelCas _ u _ | UsWakeStore _ u | UsWakeV _ _ u => wake u
  | _ => []
  end.
Lemma wake_of_wl p : wake_of p = wl (role_of p).
Proof. destruct p; reflexivity. Qed.

Lemma transfer_sound : forall progs sched p,
  Z.of_nat (length progs) < 2 ^ 24 - 1 ->
  let xw := xrun (xinit progs) sched in
  wphase (x_pc (xget xw p)) = true -> xferred xw p = true -> waiting (mw xw) p = true ->
  In p (queue (mw xw)) \/ exists u, In p (wake_of (t_pc (get (mw xw) u))).
Proof.
  intros progs sched p H xw Wp Xp Wt.
  destruct (xrun_tinv (length progs) H sched (xinit progs) (xinit_inv progs) (xinit_tinv progs)) as [_ HT].
  destruct (HT p Wp Xp Wt) as [Hq | [u Hu]]; [left; exact Hq | right; exists u].
  rewrite wake_of_wl. exact Hu.
Qed.

(* ================================================================== *)
(* Part 3: quiescent worlds                                            *)
(* ================================================================== *)
(* a thread that cannot move unless somebody posts its semaphore (waits without deadline: the choice CGo) *)
Definition x_asleep (xw : xworld) (t : nat) : Prop := snd (xstep_thr xw t CGo) = XMu EvBlocked.
Definition x_done (xw : xworld) (t : nat) : Prop :=
  x_pc (xget xw t) = XIdle /\ x_ops (xget xw t) = [] /\ mu_idle (mw xw) t = true.
Definition x_quiescent (xw : xworld) : Prop := forall t, (t < length (xthr xw))%nat -> x_asleep xw t \/ x_done xw t.
Definition x_holder (xw : xworld) : Prop := exists t m, held (get (mw xw) t) = Some m.

(* C04x_no_lost_transfer at full strength: in a quiescent world no waiter that wake_waiters handed to the mutex queue
   sleeps in its cv wait while nobody holds the mutex.  NOT PROVED here: it needs MuProof3's hand-off invariant HInv
   (MU_DESIG_WAKER / MU_WAITING accounting with "agents") re-established over the wrapper, where a queued thread can
   be a cv waiter whose MuModel pc is Idle (or even its own unlock).  Kept as a definition; no weaker theorem is
   given under this name. *)
Definition no_lost_transfer_full : Prop := forall progs sched l p,
  Z.of_nat (length progs) < 2 ^ 24 - 1 ->
  let xw := xrun (xinit progs) sched in
  x_quiescent xw -> x_pc (xget xw p) = XwSem l -> xferred xw p = true -> x_holder xw.

(* what holds: such a waiter, as long as nobody has cleared its waiting flag, is ON THE MUTEX QUEUE itself (a releaser
   that had taken it onto its wake list could still move), where nsync_mu_unlock_slow_ will find it *)
Lemma wake_pc_event w u : wake_of (t_pc (get w u)) <> [] -> snd (step w u) <> EvBlocked.
Proof.
  intros Hw. assert (t_pc (get w u) <> Idle) as NI by (intros E; rewrite E in Hw; now apply Hw).
  unfold step. rewrite (begin_op_nonidle _ _ NI). cbv zeta.
  destruct (t_pc (get w u)); try (now elim Hw); unfold cas; brk; cbn [snd]; discriminate.
Qed.

Lemma releaser_moves n xw u : XInv n xw -> wake_of (t_pc (get (mw xw) u)) <> [] ->
  ~ (x_asleep xw u \/ x_done xw u).
Proof.
  intros (HI & HL & HT) Hw. destruct (HT u) as [Hp _].
  assert (t_pc (get (mw xw) u) <> Idle) as NI by (intros E; rewrite E in Hw; now apply Hw).
  assert (mu_idle (mw xw) u = false) as MI.
  { unfold mu_idle. destruct (t_pc (get (mw xw) u)); try reflexivity. now elim NI. }
  intros [A | (D1 & D2 & D3)]; [|congruence].
  unfold x_asleep, xstep_thr in A.
  assert (xbegin xw u = xw) as XB.
  { unfold xbegin. cbv zeta. destruct (x_pc (xget xw u)); try reflexivity.
    destruct (x_ops (xget xw u)); try reflexivity. rewrite MI. reflexivity. }
  rewrite XB in A. cbv zeta in A.
  pose proof (wake_pc_event _ _ Hw) as NB.
  unfold mu_step in A. destruct (step (mw xw) u) as [m' e] eqn:E. cbn [snd] in NB.
  destruct (x_pc (xget xw u)); cbn [xpc_ok] in Hp;
    try (assert (t_pc (get (mw xw) u) = Idle) as PI by (first [exact Hp | exact (proj1 Hp)]); now elim NI);
    try (apply proj1 in Hp; destruct (t_pc (get (mw xw) u)); try discriminate Hp; now elim Hw).
  - cbn [snd] in A. congruence.
  - destruct (mu_pc_idle (mw (set_mw xw m')) u); cbn [snd] in A; congruence.
  - destruct (mu_pc_idle (mw (set_mw xw m')) u); cbn [snd] in A; congruence.
  - destruct (t_pc (get (mw xw) u)); try discriminate Hp; now elim Hw.
Qed.

Lemma no_lost_transfer_partial : forall progs sched l p,
  Z.of_nat (length progs) < 2 ^ 24 - 1 ->
  let xw := xrun (xinit progs) sched in
  x_quiescent xw -> x_pc (xget xw p) = XwSem l -> xferred xw p = true -> waiting (mw xw) p = true ->
  In p (queue (mw xw)).
Proof.
  intros progs sched l p H xw Q Pp Xp Wt.
  assert (wphase (x_pc (xget xw p)) = true) as Wp by (rewrite Pp; reflexivity).
  destruct (transfer_sound progs sched p H Wp Xp Wt) as [Hq | [u Hu]]; [exact Hq | exfalso].
  pose proof (xreachable_inv progs sched H) as HI. fold xw in HI, Hu.
  assert (wake_of (t_pc (get (mw xw) u)) <> []) as Hw by (intros E; rewrite E in Hu; destruct Hu).
  assert (u < length (xthr xw))%nat as Lu.
  { destruct HI as (HI & HL & _). rewrite HL. destruct HI as (<- & _). apply get_inb.
    intros E. rewrite E in Hw. now apply Hw. }
  apply (releaser_moves _ _ u HI Hw). apply Q, Lu.
Qed.

(* ================================================================== *)
(* Part 4: examples                                                    *)
(* ================================================================== *)
Lemma xrun_app xw a b : xrun (xrun xw a) b = xrun xw (a ++ b).
Proof. unfold xrun. symmetry. apply fold_left_app. Qed.

Definition ex_xprogs : list (list xop) :=
  [[XOp (OLock W); XWait W; XOp OUnlock]; [XOp (OLock W); XSignal; XOp OUnlock]].
Definition go (t : nat) : actor := Thr t CGo.

(* thread 0 waits (store, load of the word, enqueue, unlock, loop, blocked at its semaphore); thread 1 locks, signals:
   load of the cv word, selection, wake_waiters load / CAS (the transfer) / load / releasing CAS; then unlocks through
   nsync_mu_unlock_slow_ (which finds thread 0 on the mutex queue, clears its flag and posts); thread 0 wakes, re-enters
   nsync_mu_lock_slow_ as the designated waker and acquires *)
Definition ex_xsched_a : list actor := map go [0;0;0;0;0;0;0; 1;1;1;1;1;1;1]%nat.
Definition ex_xsched_b : list actor := map go [1;1;1;1;1;1;1;1;1; 0;0;0]%nat.
Definition ex_xsched_c : list actor := map go [0]%nat.

Lemma example_transfer : exists progs sa sb sc,
  let xa := xrun (xinit progs) sa in          (* after the signal under the held lock *)
  let xb := xrun xa sb in                     (* after the holder's unlock and the waiter's wake-up *)
  let xc := xrun xb sc in                     (* after the waiter's next step *)
  (holds (mw xa) 1%nat W /\ xferred xa 0%nat = true /\ queue (mw xa) = [0%nat] /\ cvq xa = [] /\
   waiting (mw xa) 0%nat = true /\ has (word (mw xa)) MU_WAITING = true /\ has (word (mw xa)) MU_SPINLOCK = false /\
   exists l, x_pc (xget xa 0%nat) = XwSem l) /\
  (t_pc (get (mw xb) 0%nat) = LsLoad W (ls_desig W) /\ has (word (mw xb)) MU_DESIG_WAKER = true /\
   (exists l, x_pc (xget xb 0%nat) = XwReacq l) /\ held (get (mw xb) 0%nat) = None /\ held (get (mw xb) 1%nat) = None) /\
  (exists l, x_pc (xget xc 0%nat) = XwReacq l /\ t_pc (get (mw xc) 0%nat) = LsCasAcq W (ls_desig W) 8) /\
  let xd := xrun xc (map go [0]%nat) in
  holds (mw xd) 0%nat W /\ x_rets (xget xd 0%nat) = [(W, Some W)] /\ has (word (mw xd)) MU_DESIG_WAKER = false /\ excl (mw xd).
Proof.
  exists ex_xprogs, ex_xsched_a, ex_xsched_b, ex_xsched_c. cbv zeta.
  split; [|split; [|split]].
  - vm_compute. repeat split; try reflexivity. eexists; reflexivity.
  - vm_compute. repeat split; try reflexivity. eexists; reflexivity.
  - vm_compute. eexists; split; reflexivity.
  - split; [vm_compute; reflexivity|]. split; [vm_compute; reflexivity|]. split; [vm_compute; reflexivity|].
    rewrite !xrun_app. apply xexcl_reachable. vm_compute. reflexivity.
Qed.

(* the same, but thread 0 times out (CAlt) right after wake_waiters' transferring CAS, while the waker still owns the
   mutex spinlock: its confirmation section finds it is no longer on the cv queue (XSec 1112 0) and it keeps waiting for
   waiting == 0, which the holder's unlock provides; it then acquires as the designated waker *)
Definition ex_xsched_t1 : list actor := map go [0;0;0;0;0;0; 1;1;1;1;1]%nat ++ [Thr 0%nat CAlt] ++ map go [0]%nat.
Definition ex_xsched_t2 : list actor := map go [0;0;0;0; 1;1; 1;1;1;1;1;1;1;1; 0;0;0;0;0]%nat.

Lemma example_timeout_vs_transfer : exists progs s1 s2,
  let x1 := xrun (xinit progs) s1 in
  let x2 := xrun x1 s2 in
  (xferred x1 0%nat = true /\ In 0%nat (queue (mw x1)) /\ has (word (mw x1)) MU_SPINLOCK = true /\
   (exists l, x_pc (xget x1 0%nat) = XwConfirm l /\ w_so l = true) /\
   snd (xstep x1 (go 0%nat)) = XSec 1112 0) /\
  holds (mw x2) 0%nat W /\ x_rets (xget x2 0%nat) = [(W, Some W)] /\ excl (mw x2).
Proof.
  exists ex_xprogs, ex_xsched_t1, ex_xsched_t2. cbv zeta. split; [|split; [|split]].
  - vm_compute. repeat split; try reflexivity; [now left | eexists; split; reflexivity].
  - vm_compute. reflexivity.
  - vm_compute. reflexivity.
  - rewrite xrun_app. apply xexcl_reachable. vm_compute. reflexivity.
Qed.
