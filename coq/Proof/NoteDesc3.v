(* NoteDesc3: C08, the descendants clause in its LOCAL form and the release of the waiters (Props/Properties_C08c.v).
   (1) descendants_path: `quiet` of C08_descendants_full is replaced by quiet_for w m a -- no note_notify_child on a note of
       the creation path from m up to a, and m not yet unlinked by its own nsync_note_free; both parts are needed
       (path_quiet_alone_refuted, not_unlinked_alone_refuted);  (3) the ancestor may be notified by a non-positive expiry
       only (obs_notified w a);  (2) AInv / waiter_armed / waiters_released: a thread blocked in the semaphore wait of
       nsync_note_wait is still queued, or between removal and V of its notifier, or has a post pending; a model without
       the V falsifies it (waiters_released_variant_refuted);  (4) descendants_nonvacuous.
   Continues Proof/NoteDesc2.v. *)
From Coq Require Import String.
From NsyncBase Require Import CSem.
From NsyncGen Require Import Consts Sites.
From NsyncModel Require Import NoteModel.
From NsyncProof Require Import NoteProof NoteProof2 NoteProof3 NoteProof4 NoteProof5 NoteProof6 NoteProof7 NoteDesc NoteDesc2.
From Coq Require Import List ZArith Bool Lia Arith.
Import ListNotations.
Local Open Scope Z_scope.

(* ================= (1) the LOCAL form of the descendants clause ================= *)
(* no note_notify_child () is running on a note of the creation path from m up to a (m and a included) *)
Definition path_quiet (w : world) (m a : nat) : Prop :=
  forall t r par s, In (FC r par s) (stk w t) -> cpath w m r -> cpath w r a -> False.
(* m's own nsync_note_free, if any, has not yet unlinked m from its parent *)
Definition not_unlinked (w : world) (m : nat) : Prop := forall t s par, In (FF m s par) (stk w t) -> post s = false.
Definition quiet_for (w : world) (m a : nat) : Prop := path_quiet w m a /\ not_unlinked w m.

Lemma quiet_quiet_for w m a : quiet w -> quiet_for w m a.
Proof. intros Q. split; [intros t r par s Hin _ _; exact (Q t _ Hin)|intros t s par Hin; destruct (Q t _ Hin)]. Qed.

Lemma climb_local w : reachable w -> broken (gh w) = false ->
  forall m, (m < nnext w)%nat -> scope w m -> comp w m -> ~ gone w m -> flag (nt w m) = 0 ->
  forall a, cpath w m a -> flag (nt w a) <> 0 -> path_quiet w m a -> False.
Proof.
  intros R B. destruct (InvK_reachable w R B) as (K & _ & _).
  destruct (InvC_reachable w R) as (I & H & N & U0). pose proof (U0 B) as U. pose proof (InvD_reachable w R) as D.
  destruct (iu_tree _ U) as (T1 & T2 & T3 & T0).
  induction m as [m IH] using lt_wf_ind. intros Hm Sc Cp Ng F0 a Pa Fa Q.
  assert (a <> m) as Hne by congruence.
  destruct (K m a Hm Sc Cp Ng Pa Hne) as [[_ X]|(r & Hr & Hra)]; [congruence|].
  destruct (ia_par _ I m r Hm Hr) as [Hrl Hmr]. pose proof (T0 m r Hm Hr) as Hrm. pose proof (T1 m r Hm Hr) as Hin.
  assert (children (nt w r) <> []) as Hc by (intros E; rewrite E in Hin; destruct Hin).
  assert (flag (nt w r) = 0) as Fr.
  { destruct (Z.eq_dec (flag (nt w r)) 0) as [E|E]; [exact E|]. exfalso.
    destruct (d_ch _ D r Hrl E Hc) as (t & par & s & Hf & _). exact (Q t r par s Hf Hmr Hra). }
  apply (IH r Hrm Hrl) with (a := a); auto.
  - right. exact Hc.
  - intros t par dl s Hf Hu. exfalso. destruct (p_ucf _ (iu_priv _ U) t par dl s r Hf Hu) as (E & _). auto.
  - intros [Hf|(t & s & par & Hf & Hs)].
    + destruct (p_dead _ (iu_priv _ U) r Hf) as [(_ & _ & E) _]. auto.
    + pose proof (iu_fr _ U _ _ Hf) as FU. destruct s; try discriminate Hs; cbn [fokU] in FU.
      * destruct FU as ((_ & E) & _). auto.
      * destruct FU as ((_ & E) & _). auto.
      * destruct (p_ret _ (iu_priv _ U) t par r Hf) as [(_ & _ & E) _]. auto.
  - intros t r' par s Hf H1 H2. apply (Q t r' par s Hf); [eapply cpath_trans; eauto|exact H2].
Qed.

(* a positive expiry time is inherited from positive expiry times all the way up the creation path *)
Lemma expiry_pos_up w : reachable w -> broken (gh w) = false ->
  forall m a, cpath w m a -> (m < nnext w)%nat -> ~ uc w m -> tpos (expiry (nt w m)) = true -> tpos (expiry (nt w a)) = true.
Proof.
  intros R B. destruct (InvXY_reachable w R B) as [X _]. pose proof (InvA_reachable w R) as I.
  induction 1 as [n|n p a Hc Hp IH]; [auto|]. intros Hn Hu Hx.
  rewrite (ex_done _ X n Hn Hu) in Hx. unfold espec in Hx. rewrite Hc in Hx. apply tpos_tmin in Hx. destruct Hx as [Hx _].
  destruct (cpz (nt w n)); [discriminate Hx|].
  pose proof (ia_lt _ I n p Hn Hc). apply IH; [lia|eapply (ex_par _ X); eauto|exact Hx].
Qed.

Theorem descendants_path w a m :
  reachable w -> broken (gh w) = false -> (m < nnext w)%nat -> ~ uc w m -> ~ In m (freed (gh w)) ->
  cpath w m a -> obs_notified w a -> quiet_for w m a -> obs_notified w m /\ waiters (nt w m) = [].
Proof.
  intros R B Hm Hu Hnf Pa Oa [Q NU].
  assert (obs_notified w m) as Ho.
  { unfold obs_notified. destruct (Z.eq_dec (flag (nt w m)) 0) as [F0|F0]; [|left; exact F0].
    destruct (tpos (expiry (nt w m))) eqn:X0; [|right; reflexivity]. exfalso.
    destruct Oa as [Fa|Xa].
    - apply (climb_local w R B m Hm) with (a := a); auto.
      + left. split; auto.
      + intros t par dl s Hf Hus. exfalso. apply Hu. exists t. eauto.
      + intros [X|(t & s & par & Hf & Hs)]; [auto|]. rewrite (NU t s par Hf) in Hs. discriminate Hs.
    - rewrite (expiry_pos_up w R B m a Pa Hm Hu X0) in Xa. discriminate Xa. }
  split; [exact Ho|].
  destruct Ho as [F|X].
  - apply (descendants_local w m R Hm F). intros (t & par & s & Hf). apply (Q t m par s Hf); [constructor|exact Pa].
  - destruct (InvK_reachable w R B) as (_ & _ & W).
    destruct (waiters (nt w m)) as [|y l] eqn:Ew; [reflexivity|]. exfalso.
    destruct (W m Hm) as [X1 _]; [rewrite Ew; discriminate|]. congruence.
Qed.

(* ---------- the semaphore count of a thread through the update layers ---------- *)
Lemma sem_setst w t st o : sem (thr (setst w t st) o) = sem (thr w o).
Proof. unfold setst, set_thr, get. cbn. unfold fupd. destruct (Nat.eqb_spec o t); subst; reflexivity. Qed.
Lemma sem_set_tw w t v o : sem (thr (set_tw w t v) o) = sem (thr w o).
Proof. unfold set_tw, set_thr, get. cbn. unfold fupd. destruct (Nat.eqb_spec o t); subst; reflexivity. Qed.
Lemma sem_finish w t o' r o : sem (thr (finish w t o' r) o) = sem (thr w o).
Proof. unfold finish, set_thr, get. destruct o', r; cbn; unfold fupd; destruct (Nat.eqb_spec o t); subst; reflexivity. Qed.
Lemma sem_ret_D w t r v o : sem (thr (ret_D w t r v) o) = sem (thr w o).
Proof. unfold ret_D. split_match; rewrite ?sem_setst, ?sem_finish, ?sem_set_tw; reflexivity. Qed.
Lemma sem_ret_N w t r o : sem (thr (ret_N w t r) o) = sem (thr w o).
Proof. unfold ret_N. split_match; rewrite ?sem_ret_D, ?sem_finish; reflexivity. Qed.
Lemma sem_ret_C w t r o : sem (thr (ret_C w t r) o) = sem (thr w o).
Proof. unfold ret_C. split_match; rewrite ?sem_setst; reflexivity. Qed.
Lemma sem_set_sem w t v o : sem (thr (set_sem w t v) o) = if Nat.eqb o t then v else sem (thr w o).
Proof. unfold set_sem, set_thr, get. cbn. unfold fupd. destruct (Nat.eqb_spec o t); subst; reflexivity. Qed.
Ltac sem_norm := repeat (progress (rewrite ?sem_ret_D, ?sem_ret_N, ?sem_ret_C, ?sem_finish, ?sem_setst, ?sem_set_tw, ?sem_set_sem;
                                   cbn [thr set_note acquire release set_gh])).

Lemma step1_sem w t c o :
  (sem (thr w o) <= sem (thr (fst (step1 w t c)) o))%nat \/ (o = t /\ exists m dl d, top w t = Some (AWait m dl (S1 d))).
Proof.
  unfold top, stk. leaves.
  all: sem_norm.
  all: try (left; apply Nat.le_refl).
  all: try solve [destruct (Nat.eqb_spec o o0); subst; left; unfold get; lia].
  all: destruct (Nat.eqb_spec o t); subst; [right; split; [reflexivity|do 3 eexists; reflexivity]|left; lia].
Qed.
Lemma step1_deq w t c m o :
  (m < nnext w)%nat -> In o (waiters (nt w m)) ->
  In o (waiters (nt (fst (step1 w t c)) m)) \/ (exists par, In (FC m par (C3 o)) (stk (fst (step1 w t c)) t)) \/
  (o = t /\ exists dl, top w t = Some (AWait m dl Q2)).
Proof.
  unfold top, stk. leaves.
  all: rewrite ?stack_setst, ?stack_finish.
  all: try match goal with H : waiters _ = _ :: _ |- _ => hyp_ns H end.
  all: intros Hm; unfold nt in *; nsimpl.
  all: try lia.
  all: try (intros H; left; exact H).
  all: try (intros H; left; apply in_or_app; left; exact H).
  all: try match goal with H : waiters _ = ?x :: _ |- _ => rewrite H; intros [<-|Hx]; [right; left; eexists; left; reflexivity|left; exact Hx] end.
  all: try (intros H; destruct (Nat.eq_dec o t) as [->|Hne]; [right; right; split; [reflexivity|eexists; reflexivity]|left; apply remove_nat_other; auto]).
Qed.

Lemma step1_c3 w t c m par o : top w t = Some (FC m par (C3 o)) ->
  In (FC m par (C4 o)) (stk (fst (step1 w t c)) t).
Proof.
  unfold top, step1, get, stk. destruct (stack (thr w t)) as [|f r]; [discriminate|]. cbn [hd_error]. intros E; inversion E; subst.
  cbn [step_C fst]. rewrite stack_setst. left; reflexivity.
Qed.
Lemma step1_c4 w t c m par o : top w t = Some (FC m par (C4 o)) ->
  sem (thr (fst (step1 w t c)) o) = S (sem (thr w o)).
Proof.
  unfold top, step1, get, stk. destruct (stack (thr w t)) as [|f r]; [discriminate|]. cbn [hd_error]. intros E; inversion E; subst.
  cbn [step_C fst]. unfold c_wloop, c_loop, c_wait, c_finish. split_match; sem_norm; rewrite ?Nat.eqb_refl; reflexivity.
Qed.

Definition armed (w : world) (o m : nat) : Prop :=
  In o (waiters (nt w m)) \/ (exists t par, In (FC m par (C3 o)) (stk w t)) \/
  (exists t par, In (FC m par (C4 o)) (stk w t)) \/ (0 < sem (thr w o))%nat.
Definition inq (w : world) (o m : nat) : Prop := In o (waiters (nt w m)) \/ obs_notified w m.
Definition wfact (w : world) (o : nat) (st : list frame) : Prop :=
  forall m dl s, In (AWait m dl s) st ->
    (m < nnext w)%nat /\
    match s with
    | E3 | E4 | E5 | WLoop => inq w o m
    | S1 _ => inq w o m /\ armed w o m
    | _ => True
    end /\
    (s = WLoop -> forall x, (In (FD m (D4 x)) st -> armed w o m \/ tpos x = false) /\ (In (FD m (D5 x)) st -> armed w o m)).

Lemma not_incall_top w t f : shape (stk w t) -> In f (stk w t) -> ~ incall f -> top w t = Some f.
Proof.
  unfold top. destruct (stk w t) as [|g r]; [intros _ []|]. intros Sh [->|Hin] Hn; [reflexivity|].
  exfalso. apply Hn. eapply shape_incall; eauto.
Qed.

Lemma armed_keep w t c o m : InvA w -> (m < nnext w)%nat -> armed w o m ->
  (o = t -> forall n dl s, top w t <> Some (AWait n dl s)) -> armed (fst (step1 w t c)) o m.
Proof.
  intros I Hm A NT. pose proof (step1_ext w t c) as E. pose proof (ia_shape _ I t) as Sh.
  assert ((0 < sem (thr w o))%nat -> (0 < sem (thr (fst (step1 w t c)) o))%nat) as SK.
  { intros Hs. destruct (step1_sem w t c o) as [Hle|(-> & n & dl & d & Ht)]; [lia|]. exfalso. eapply NT; eauto. }
  destruct A as [A|[(t0 & par & A)|[(t0 & par & A)|A]]].
  - destruct (step1_deq w t c m o Hm A) as [A'|[(par & A')|(-> & dl & Ht)]].
    + left. exact A'.
    + right; left. exists t, par. exact A'.
    + exfalso. eapply NT; eauto.
  - destruct (Nat.eq_dec t0 t) as [->|Ht0].
    + pose proof (not_incall_top w t _ Sh A (fun x => x)) as Ht.
      right; right; left. exists t, par. eapply step1_c3; eauto.
    + right; left. exists t0, par. rewrite (stk_other _ _ _ _ E Ht0). exact A.
  - destruct (Nat.eq_dec t0 t) as [->|Ht0].
    + pose proof (not_incall_top w t _ Sh A (fun x => x)) as Ht.
      right; right; right. rewrite (step1_c4 w t c m par o Ht). lia.
    + right; right; left. exists t0, par. rewrite (stk_other _ _ _ _ E Ht0). exact A.
  - right; right; right. auto.
Qed.
Lemma inq_keep w t c o m : InvA w -> (m < nnext w)%nat -> inq w o m ->
  (o = t -> forall n dl s, top w t <> Some (AWait n dl s)) -> inq (fst (step1 w t c)) o m.
Proof.
  intros I Hm [A|A] NT; [|right; eapply obs_ext; eauto using step1_ext].
  destruct (step1_deq w t c m o Hm A) as [A'|[(par & A')|(-> & dl & Ht)]].
  - left. exact A'.
  - right. left. pose proof (ia_fok _ (InvA_step1 w t c I) _ _ A') as F. cbn [fok] in F. destruct F as (_ & _ & F & _). apply F. reflexivity.
  - exfalso. eapply NT; eauto.
Qed.

Lemma tmin_npos' x dl : tpos x = false -> tpos (if tlt x dl then x else dl) = false.
Proof. intros H. exact (tmin_npos x dl H). Qed.

Lemma step1_wfact w t c :
  InvA w -> wfact w t (stk w t) ->
  (forall m, (m < nnext w)%nat -> armed w t m -> (forall n dl s, top w t <> Some (AWait n dl s)) -> armed (fst (step1 w t c)) t m) ->
  (forall m, (m < nnext w)%nat -> inq w t m -> (forall n dl s, top w t <> Some (AWait n dl s)) -> inq (fst (step1 w t c)) t m) ->
  wfact (fst (step1 w t c)) t (stk (fst (step1 w t c)) t).
Proof.
  intros I WF. pose proof (step1_ext w t c) as E.
  pose proof (ia_shape w I t) as Sh. pose proof (ia_fok w I t) as Fk.
  remember (fst (step1 w t c)) as w' eqn:Hw'. revert Hw'. unfold top. unfold stk in Sh, Fk, WF |- * at 1 2 3.
  leaves.
  all: intros ->; cbn [fst] in *.
  all: try (intros _ _; unfold stk; rewrite Hst; exact WF).
  all: bottom_nil Sh.
  all: rets Sh.
  all: rewrite ?stk_setst, ?stk_finish, ?stack_setst, ?stack_finish.
  all: intros KA KQ m0 dl0 s0 Hin; cbn [In] in Hin.
  all: try contradiction.
  all: repeat match goal with H : _ \/ _ |- _ => destruct H as [H|H] end; try contradiction; try discriminate.
  all: try (inversion Hin; subst; clear Hin).
  all: pose proof (x_next _ _ _ E) as Hnx.
  (* the old facts about the thread's nsync_note_wait frame *)
  all: try (match goal with Hin : In (AWait ?m ?dl ?s) ?l |- _ => destruct (WF m dl s ltac:(cbn [In]; auto 8)) as (Hm0 & Hs0 & Hd0) end).
  all: try (match goal with Hst : stack _ = ?st |- _ => match st with context [AWait ?m ?dl ?s] => destruct (WF m dl s ltac:(cbn [In]; auto 8)) as (Hm0 & Hs0 & Hd0) end end).
  all: (split; [lia|]).
  all: try (exfalso; match goal with H1 : tpos ?x = false, H2 : tlt ?x ?d = false, H3 : tpos ?d = true |- _ => pose proof (tmin_npos' x d H1) as X; rewrite H2 in X; congruence end).
  all: try (exfalso; match goal with H2 : tlt tzero ?d = false, H3 : tpos ?d = true |- _ => pose proof (tmin_zero_not_pos d) as X; rewrite H2 in X; congruence end).
  all: try (exfalso; congruence).
  all: split.
  all: try exact Logic.I.
  (* frames below the top: kept *)
  all: try (match goal with |- match ?s with _ => _ end => destruct s; try exact Logic.I; cbn beta iota in Hs0 |- * end).
  all: try solve [apply KQ; [exact Hm0 | exact Hs0 | intros ? ? ? X; cbn [hd_error] in X; discriminate X]].
  all: try solve [destruct Hs0 as [Hq Ha]; split; [apply KQ|apply KA]; auto; intros ? ? ? X; cbn [hd_error] in X; discriminate X].
  all: try solve [intros Es; discriminate Es].
  all: try solve [intros _ xx; split; intros Hd; cbn [In] in Hd; repeat (destruct Hd as [Hd|Hd]; try discriminate Hd); contradiction].
  all: try solve [intros Es xx; match type of Es with ?a = _ => try subst a end; cbn beta iota in Hs0;
                  destruct (Hd0 eq_refl xx) as [D4f D5f]; split; intros Hd; cbn [In] in Hd;
                  repeat (destruct Hd as [Hd|Hd]; try discriminate Hd); try contradiction; try (inversion Hd; subst);
                  match goal with
                  | |- _ \/ tpos _ = false =>
                      first [ destruct (D4f ltac:(cbn [In]; auto 8)) as [A|A]; [left; apply KA; auto; intros ? ? ? X; cbn [hd_error] in X; discriminate X | right; exact A]
                            | destruct Hs0 as [Hq|Ho]; [left; apply KA; [assumption | left; exact Hq | intros ? ? ? X; cbn [hd_error] in X; discriminate X] | right; apply obs_ntime; exact Ho] ]
                  | |- armed _ _ _ =>
                      apply KA; [assumption | | intros ? ? ? X; cbn [hd_error] in X; discriminate X];
                      first [ solve [apply D5f; cbn [In]; auto 8] | destruct (D4f ltac:(cbn [In]; auto 8)) as [A|A]; [exact A | congruence] ]
                  end].
  (* S1 is entered from D5 only *)
  all: try solve [match goal with Hst : stack _ = FD _ (D5 ?x) :: _ |- _ => destruct (Hd0 eq_refl x) as [_ D5f] end;
                  split; [apply KQ | apply KA]; auto; try (apply D5f; cbn [In]; auto 8); intros ? ? ? X; cbn [hd_error] in X; discriminate X].
  (* the steps of nsync_note_wait itself *)
  all: try solve [left; unfold nt; nsimpl; apply in_or_app; right; left; reflexivity].
  all: try solve [right; eapply obs_ext; [exact I | exact E | exact Hm0 | apply ntime_obs; assumption]].
  all: try solve [destruct Hs0 as [Hq|Ho]; [left; revert Hq; unfold nt; nsimpl; auto | right; eapply obs_ext; eauto]].
  all: try solve [destruct Hs0 as [[Hq|Ho] _]; [left; revert Hq; unfold nt; nsimpl; auto | right; eapply obs_ext; eauto]].
Qed.

(* ---------- the waiter invariant ---------- *)
Definition AInv (w : world) : Prop := forall o, wfact w o (stk w o).

Lemma AInv_step1 w t c : InvA w -> AInv w -> AInv (fst (step1 w t c)).
Proof.
  intros I A o. pose proof (step1_ext w t c) as E.
  destruct (Nat.eq_dec o t) as [->|Hne].
  - apply step1_wfact; auto.
    + intros m Hm Ha NT. apply armed_keep; auto.
    + intros m Hm Hq NT. apply inq_keep; auto.
  - rewrite (stk_other _ _ _ _ E Hne). intros m dl s Hin. destruct (A o m dl s Hin) as (Hm & Hs & Hd).
    assert (armed w o m -> armed (fst (step1 w t c)) o m) as KA by (intros Ha; apply armed_keep; auto; congruence).
    assert (inq w o m -> inq (fst (step1 w t c)) o m) as KQ by (intros Hq; apply inq_keep; auto; congruence).
    split; [pose proof (x_next _ _ _ E); lia|]. split.
    + destruct s; auto. destruct Hs; split; auto.
    + intros Es x. destruct (Hd Es x) as [D4f D5f]. split; intros Hf.
      * destruct (D4f Hf) as [Ha|Hx]; [left; apply KA; auto|right; exact Hx].
      * apply KA; auto.
Qed.

Lemma sem_begin w t o : sem (thr (begin_call w t) o) = sem (thr w o).
Proof.
  unfold begin_call, get. destruct (stack (thr w t)) eqn:Es; [|reflexivity].
  destruct (prog (thr w t)) as [|op rest]; [reflexivity|].
  assert (forall st rest' h b g, sem (thr (set_gh (set_thr w t (mk_t st rest' h (tw (thr w t)) (sem (thr w t)) b)) g) o) = sem (thr w o)) as X.
  { intros. cbn. unfold fupd. destruct (Nat.eqb_spec o t); subst; reflexivity. }
  assert (forall st rest' h b, sem (thr (set_thr w t (mk_t st rest' h (tw (thr w t)) (sem (thr w t)) b)) o) = sem (thr w o)) as Y.
  { intros. cbn. unfold fupd. destruct (Nat.eqb_spec o t); subst; reflexivity. }
  destruct (op_note op) as [n|].
  - destruct (Nat.ltb n (nnext w)); [apply X|apply Y].
  - destruct op; try reflexivity. apply Y.
Qed.
Lemma begin_frames w t t0 f : In f (stk (begin_call w t) t0) ->
  In f (stk w t0) \/ exists o, In f (init_stack o) /\ forall n, op_note o = Some n -> (n < nnext w)%nat.
Proof.
  destruct (Nat.eq_dec t0 t) as [->|Ht0].
  - destruct (begin_stack w t) as [->|[[_ ->]|(_ & o & rest & _ & -> & Hlt)]]; eauto. intros [].
  - pose proof (tonly_begin t w) as T. pose proof (psame_ext _ _ _ (tonly_psame _ _ _ T)) as E.
    rewrite (stk_other _ _ _ _ E Ht0). auto.
Qed.
Lemma armed_begin w t o m : armed w o m -> armed (begin_call w t) o m.
Proof.
  intros [A|[(t0 & par & A)|[(t0 & par & A)|A]]].
  - left. rewrite nt_begin. exact A.
  - right; left. exists t0, par. apply begin_keeps. exact A.
  - right; right; left. exists t0, par. apply begin_keeps. exact A.
  - right; right; right. rewrite sem_begin. exact A.
Qed.
Lemma inq_begin w t o m : inq w o m -> inq (begin_call w t) o m.
Proof. unfold inq, obs_notified. rewrite !nt_begin. auto. Qed.
Lemma AInv_begin w t : AInv w -> AInv (begin_call w t).
Proof.
  intros A o m dl s Hin.
  destruct (begin_frames w t o _ Hin) as [Hin0|(op & Hop)].
  - destruct (A o m dl s Hin0) as (Hm & Hs & Hd). rewrite nnext_begin. split; [exact Hm|]. split.
    + destruct s; auto using inq_begin. destruct Hs; split; auto using inq_begin, armed_begin.
    + intros Es x. destruct (Hd Es x) as [D4f D5f]. split; intros Hf.
      * destruct (begin_frames w t o _ Hf) as [Hf0|(op & Hop & _)].
        -- destruct (D4f Hf0) as [Ha|Hx]; [left; apply armed_begin; exact Ha|right; exact Hx].
        -- exfalso. destruct op; cbn in Hop; repeat (destruct Hop as [Hop|Hop]; try discriminate Hop); contradiction.
      * destruct (begin_frames w t o _ Hf) as [Hf0|(op & Hop & _)].
        -- apply armed_begin. auto.
        -- exfalso. destruct op; cbn in Hop; repeat (destruct Hop as [Hop|Hop]; try discriminate Hop); contradiction.
  - (* the frame of a call that starts now: stage WReady *)
    destruct Hop as [Hop Hlt].
    destruct op; cbn in Hop; repeat (destruct Hop as [Hop|Hop]; try discriminate Hop); try contradiction.
    inversion Hop; subst. rewrite nnext_begin. split; [apply Hlt; reflexivity|]. split; [exact Logic.I|]. intros Es; discriminate Es.
Qed.
Lemma AInv_init c0 progs : AInv (init c0 progs).
Proof.
  assert (forall t, stk (init c0 progs) t = []) as S.
  { intros t. unfold stk, init. cbn. destruct (nth_in_or_default t (map (fun p => mk_t [] p [] 0 O false) progs) dflt) as [H|H].
    - apply in_map_iff in H. destruct H as (p & <- & _). reflexivity.
    - rewrite H. reflexivity. }
  intros o m dl s. rewrite S. intros [].
Qed.
Lemma AInv_exec w a : InvA w -> AInv w -> AInv (exec w a).
Proof.
  intros I A. destruct a as [t c|d]; cbn [exec].
  - rewrite step_step1. apply AInv_step1; [apply InvA_begin, I|apply AInv_begin, A].
  - intros o. exact (A o).
Qed.
Lemma AInv_run sched : forall w, InvA w -> AInv w -> AInv (run w sched).
Proof. induction sched as [|a r IH]; intros w I A; cbn; auto. apply IH; [apply InvA_exec, I|apply AInv_exec; auto]. Qed.
Theorem AInv_reachable w : reachable w -> AInv w.
Proof. intros (c0 & progs & sched & H0 & ->). apply AInv_run; [apply InvA_init, H0|apply AInv_init]. Qed.

(* ================= (2) every thread waiting on a notified note is released ================= *)
(* a thread blocked in the semaphore wait of nsync_note_wait (m) is always "armed": still queued on m, or its notifier is
   between the removal of its record and the V, or a post is pending on its semaphore *)
Theorem waiter_armed w o m dl d : reachable w -> top w o = Some (AWait m dl (S1 d)) -> armed w o m /\ inq w o m.
Proof.
  intros R Ht. destruct (AInv_reachable w R o m dl (S1 d) (top_In _ _ _ Ht)) as (_ & (Hq & Ha) & _). auto.
Qed.
Definition waiters_released_in (R : world -> Prop) : Prop :=
  forall w o m dl d, R w -> broken (gh w) = false -> top w o = Some (AWait m dl (S1 d)) ->
    obs_notified w m -> ~ notifying w m -> (0 < sem (thr w o))%nat.
Theorem waiters_released : waiters_released_in reachable.
Proof.
  intros w o m dl d R B Ht Ho Hn.
  pose proof (ia_fok _ (InvA_reachable w R) _ _ (top_In _ _ _ Ht)) as F. cbn [fok] in F. destruct F as (Hm & _).
  assert (waiters (nt w m) = []) as Ew.
  { destruct Ho as [F|X]; [apply (descendants_local w m R Hm F Hn)|].
    destruct (InvK_reachable w R B) as (_ & _ & W).
    destruct (waiters (nt w m)) as [|y l] eqn:Ew; [reflexivity|]. exfalso.
    destruct (W m Hm) as [X1 _]; [rewrite Ew; discriminate|]. congruence. }
  destruct (waiter_armed w o m dl d R Ht) as [[A|[(t & par & A)|[(t & par & A)|A]]] _].
  - rewrite Ew in A. destruct A.
  - exfalso. apply Hn. exists t, par, (C3 o). exact A.
  - exfalso. apply Hn. exists t, par, (C4 o). exact A.
  - exact A.
Qed.

(* a parametrised form of the clause, to compare side conditions *)
Definition descendants_stmt (Q : world -> nat -> nat -> Prop) : Prop :=
  forall w a m, reachable w -> broken (gh w) = false -> (m < nnext w)%nat -> ~ uc w m -> ~ In m (freed (gh w)) ->
    cpath w m a -> obs_notified w a -> Q w m a -> obs_notified w m /\ waiters (nt w m) = [].
Theorem descendants_stmt_quiet_for : descendants_stmt quiet_for.
Proof. intros w a m R B Hm Hu Hf Pa Oa Q. eapply descendants_path; eauto. Qed.

(* ---------- a model WITHOUT the V of note_notify_child: the waiter theorem fails on it ---------- *)
Definition step_C_noV (w : world) (t : nat) (n : nat) (par : option nat) (s : cst) (rest : list frame) : world * ev :=
  match s with
  | C4 o => (c_wloop w t n par rest, EvV o)          (* nsync_mu_semaphore_v (nw->sem) dropped *)
  | _ => step_C w t n par s rest
  end.
Definition step_noV (w0 : world) (t : nat) (c : bool) : world * ev :=
  let w := begin_call w0 t in
  match stack (get w t) with
  | FC n par s :: rest => step_C_noV w t n par s rest
  | _ => step w0 t c
  end.
Definition exec_noV (w : world) (a : act) : world := match a with AStep t c => fst (step_noV w t c) | ATick d => tick w d end.
Definition run_noV (w : world) (sched : list act) : world := fold_left exec_noV sched w.
Definition reachable_noV (w : world) : Prop := exists c0 progs sched, 0 <= c0 /\ w = run_noV (init c0 progs) sched.

(* a = nsync_note_new (NULL, no deadline); thread 0 blocks in nsync_note_wait (a); thread 1: nsync_note_notify (a), to the end *)
Definition progs_v : list (list op) := [[ONew None None; OWait 0%nat None]; [ONotify 0%nat]].
Definition sched_v : list act := repeat (AStep 0 false) 40 ++ repeat (AStep 1 false) 60.
Definition wv := run_noV (init 0 progs_v) sched_v.
Definition wv_real := run (init 0 progs_v) sched_v.
(* all computations on concrete worlds are done in goals (vm_compute leaves a VM cast there), never in hypotheses *)
Ltac frames_of Hstk Hf :=
  rewrite Hstk in Hf;
  match type of Hf with In _ (match ?t with _ => _ end) => destruct t as [|[|[|[|t]]]] end; cbn in Hf;
  repeat (destruct Hf as [Hf|Hf]; try discriminate Hf); try contradiction.
Lemma wv_stk t : stk wv t = match t with 0%nat => [AWait 0 None (S1 None)] | _ => [] end.
Proof. destruct t as [|[|[|[|[|t]]]]]; vm_compute; reflexivity. Qed.
Lemma wv_facts : flag (nt wv 0) = 1 /\ broken (gh wv) = false /\ sem (thr wv 0) = 0%nat /\
                 sem (thr wv_real 0) = 1%nat /\ stk wv_real 0 = [AWait 0 None (S1 None)].
Proof. vm_compute. repeat split; reflexivity. Qed.
Theorem waiters_released_variant_refuted : ~ waiters_released_in reachable_noV.
Proof.
  intros F. destruct wv_facts as (Ff & Fb & Fs & _).
  assert (0 < sem (thr wv 0))%nat as X; [|rewrite Fs in X; lia].
  apply (F wv 0%nat 0%nat None None).
  - exists 0, progs_v, sched_v. split; [lia|reflexivity].
  - exact Fb.
  - unfold top. rewrite wv_stk. reflexivity.
  - left. rewrite Ff. discriminate.
  - intros (t & par & s & Hf). frames_of wv_stk Hf.
Qed.

(* ---------- (4) non-vacuity: tree 0 -> 1 -> 2, a waiter on 2, nsync_note_free (1) interleaved with nsync_note_notify (0),
              and an unrelated nsync_note_notify (3) still in progress ---------- *)
Definition p4 : list (list op) :=
 [[ONew None None; ONew (Some 0%nat) None; ONew (Some 1%nat) None; ONew None None; OWait 2%nat None];
  [OFree 1%nat]; [ONotify 0%nat]; [ONotify 3%nat]].
Fixpoint alt (k : nat) : list act := match k with O => [] | S k => AStep 1 false :: AStep 2 false :: alt k end.
Definition sched4 : list act := repeat (AStep 0 false) 50 ++ alt 60 ++ repeat (AStep 3 false) 8.
Definition w4 := run (init 0 p4) sched4.
Lemma w4_reachable : reachable w4.
Proof. exists 0, p4, sched4. split; [lia|reflexivity]. Qed.
Lemma w4_stk t : stk w4 t = match t with 0%nat => [AWait 2 None (S1 None)] | 3%nat => [FC 3 None C2; FN 3 N9 None true; ANotify 3] | _ => [] end.
Proof. destruct t as [|[|[|[|[|t]]]]]; vm_compute; reflexivity. Qed.
Lemma w4_facts : broken (gh w4) = false /\ nnext w4 = 4%nat /\ freed (gh w4) = [1%nat] /\
  cpar (nt w4 2) = Some 1%nat /\ cpar (nt w4 1) = Some 0%nat /\
  flag (nt w4 0) = 1 /\ flag (nt w4 2) = 1 /\ waiters (nt w4 2) = [] /\ sem (thr w4 0) = 1%nat.
Proof. vm_compute. repeat split; reflexivity. Qed.
Example descendants_nonvacuous :
  reachable w4 /\ broken (gh w4) = false /\ (2 < nnext w4)%nat /\ ~ uc w4 2 /\ ~ In 2%nat (freed (gh w4)) /\
  In 1%nat (freed (gh w4)) /\ cpath w4 2 0 /\ flag (nt w4 0) <> 0 /\ quiet_for w4 2 0 /\ ~ quiet w4 /\
  top w4 0 = Some (AWait 2 None (S1 None)) /\ ~ notifying w4 2 /\
  (* ... and what the theorems then give *)
  flag (nt w4 2) = 1 /\ waiters (nt w4 2) = [] /\ sem (thr w4 0) = 1%nat.
Proof.
  destruct w4_facts as (Fb & Fn & Ffr & Fc2 & Fc1 & Ff0 & Ff2 & Fw2 & Fs).
  split; [exact w4_reachable|]. split; [exact Fb|]. split; [rewrite Fn; lia|].
  split; [intros (t & f & Hf & Hu); frames_of w4_stk Hf; subst f; discriminate Hu|].
  split; [rewrite Ffr; intros [X|[]]; discriminate X|]. split; [rewrite Ffr; left; reflexivity|].
  split; [apply (cp_step w4 2 1 0); [exact Fc2|]; apply (cp_step w4 1 0 0); [exact Fc1|constructor]|].
  split; [rewrite Ff0; discriminate|].
  split; [split|].
  - intros t r par s Hf H1 _. frames_of w4_stk Hf. inversion Hf; subst.
    assert (2 < nnext w4)%nat as Hlt by (rewrite Fn; lia).
    pose proof (cpath_le _ _ _ (ia_lt _ (InvA_reachable _ w4_reachable)) Hlt H1). lia.
  - intros t s par Hf. frames_of w4_stk Hf.
  - split; [intros Q; apply (Q 3%nat (FC 3 None C2)); rewrite w4_stk; left; reflexivity|].
    split; [unfold top; rewrite w4_stk; reflexivity|]. split; [intros (t & par & s & Hf); frames_of w4_stk Hf; inversion Hf|].
    auto.
Qed.

(* ---------- (1) both parts of quiet_for are needed ---------- *)
(* without "m's nsync_note_free has not unlinked m": nsync_note_free (1) has unlinked 1 from 0 and stands before free ();
   then nsync_note_notify (0) runs to its end and never sees 1 *)
Definition pa : list (list op) := [[ONew None None; ONew (Some 0%nat) None]; [OFree 1%nat]; [ONotify 0%nat]].
Definition scheda : list act := repeat (AStep 0 false) 30 ++ repeat (AStep 1 false) 4 ++ repeat (AStep 2 false) 60.
Definition wa := run (init 0 pa) scheda.
Lemma wa_reachable : reachable wa.
Proof. exists 0, pa, scheda. split; [lia|reflexivity]. Qed.
Lemma wa_stk t : stk wa t = match t with 1%nat => [FF 1 F13 (Some 0%nat)] | _ => [] end.
Proof. destruct t as [|[|[|[|[|t]]]]]; vm_compute; reflexivity. Qed.
Lemma wa_facts : broken (gh wa) = false /\ nnext wa = 2%nat /\ freed (gh wa) = [] /\ cpar (nt wa 1) = Some 0%nat /\
  flag (nt wa 0) = 1 /\ flag (nt wa 1) = 0 /\ expiry (nt wa 1) = None /\ parent (nt wa 1) = None.
Proof. vm_compute. repeat split; reflexivity. Qed.
Example path_quiet_alone_refuted : ~ descendants_stmt (fun w m a => path_quiet w m a).
Proof.
  destruct wa_facts as (Fb & Fn & Ffr & Fc1 & Ff0 & Ff1 & Fe1 & _).
  intros F. destruct (F wa 0%nat 1%nat wa_reachable) as [[X|X] _].
  - exact Fb.
  - rewrite Fn. lia.
  - intros (t & f & Hf & Hu). frames_of wa_stk Hf; subst f; discriminate Hu.
  - rewrite Ffr. intros [].
  - apply (cp_step wa 1 0 0); [exact Fc1|constructor].
  - left. rewrite Ff0. discriminate.
  - intros t r par s Hf _ _. frames_of wa_stk Hf.
  - apply X. exact Ff1.
  - rewrite Fe1 in X. discriminate X.
Qed.
(* without "no note_notify_child on the path": nsync_note_notify (0) has stored 0's word and not yet reached its child 1 *)
Definition pb : list (list op) := [[ONew None None; ONew (Some 0%nat) None]; [ONotify 0%nat]].
Definition schedb : list act := repeat (AStep 0 false) 30 ++ repeat (AStep 1 false) 9.
Definition wb := run (init 0 pb) schedb.
Lemma wb_reachable : reachable wb.
Proof. exists 0, pb, schedb. split; [lia|reflexivity]. Qed.
Lemma wb_stk t : stk wb t = match t with 1%nat => [FC 0 None (C5 1 None); FN 0 N9 None true; ANotify 0] | _ => [] end.
Proof. destruct t as [|[|[|[|[|t]]]]]; vm_compute; reflexivity. Qed.
Lemma wb_facts : broken (gh wb) = false /\ nnext wb = 2%nat /\ freed (gh wb) = [] /\ cpar (nt wb 1) = Some 0%nat /\
  flag (nt wb 0) = 1 /\ flag (nt wb 1) = 0 /\ expiry (nt wb 1) = None.
Proof. vm_compute. repeat split; reflexivity. Qed.
Example not_unlinked_alone_refuted : ~ descendants_stmt (fun w m _ => not_unlinked w m).
Proof.
  destruct wb_facts as (Fb & Fn & Ffr & Fc1 & Ff0 & Ff1 & Fe1).
  intros F. destruct (F wb 0%nat 1%nat wb_reachable) as [[X|X] _].
  - exact Fb.
  - rewrite Fn. lia.
  - intros (t & f & Hf & Hu). frames_of wb_stk Hf; subst f; discriminate Hu.
  - rewrite Ffr. intros [].
  - apply (cp_step wb 1 0 0); [exact Fc1|constructor].
  - left. rewrite Ff0. discriminate.
  - intros t s par Hf. frames_of wb_stk Hf.
  - apply X. exact Ff1.
  - rewrite Fe1 in X. discriminate X.
Qed.

(* ---------- corollaries ---------- *)
Theorem waiters_released_quiet w o m dl d : reachable w -> broken (gh w) = false -> quiet w ->
  top w o = Some (AWait m dl (S1 d)) -> obs_notified w m -> (0 < sem (thr w o))%nat.
Proof. intros R B Q Ht Ho. apply (waiters_released w o m dl d R B Ht Ho). apply quiet_not_notifying. exact Q. Qed.
(* the whole clause: a is (observed) notified, nothing is in progress on the creation path m .. a: every thread in the
   semaphore wait of nsync_note_wait (m) has a post pending *)
Theorem descendants_waiters_released w a m o dl d :
  reachable w -> broken (gh w) = false -> ~ In m (freed (gh w)) -> cpath w m a -> obs_notified w a -> quiet_for w m a ->
  top w o = Some (AWait m dl (S1 d)) -> obs_notified w m /\ (0 < sem (thr w o))%nat.
Proof.
  intros R B Hnf Pa Oa Q Ht.
  pose proof (InvC_reachable w R) as (I & H & N & U0). pose proof (U0 B) as U.
  pose proof (top_In _ _ _ Ht) as Hin.
  pose proof (ia_fok _ I _ _ Hin) as F. cbn [fok] in F. destruct F as (Hm & _).
  assert (~ uc w m) as Hu.
  { intros (t & f & Hf & Huf). destruct (Nat.eq_dec t o) as [->|Hne].
    - rewrite (top_stk w o _ (ia_shape _ I o) Ht Logic.I) in Hf. destruct Hf as [<-|[]]. discriminate Huf.
    - eapply (p_uc _ (iu_priv _ U) t f m Hf Huf o (AWait m dl (S1 d))); auto. cbn. auto. }
  destruct (descendants_path w a m R B Hm Hu Hnf Pa Oa Q) as [Ho _].
  split; [exact Ho|]. apply (waiters_released w o m dl d R B Ht Ho).
  intros (t & par & s & Hf). destruct Q as [Q _]. apply (Q t m par s Hf); [constructor|exact Pa].
Qed.
