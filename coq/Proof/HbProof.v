(* C03 proofs: every mutex hand-off of MuModel is a happens-before edge of the instrumentation of
   Model/HbModel.v (which credits ONLY the memory orders requested in the C source, Gen/Sites.v),
   plus the closed facts about the site inventory that Props/Properties_C03.v states.
   No axioms, nothing admitted. *)
From Coq Require Import List ZArith Bool String Lia PeanoNat.
From NsyncBase Require Import CSem.
From NsyncGen Require Import Consts Sites.
From NsyncModel Require Import SitesExpected.
From NsyncProof Require Import SitesPinned.
(* MuModel last: its [get] must win over Coq.Strings.String.get *)
From NsyncModel Require Import MuModel HbModel.
Import ListNotations.
Local Open Scope nat_scope.

(* the generated word expressions play no role here *)
Local Opaque wrap_u wrap_s Z.land Z.lor Z.lxor Z.shiftl.

(* ================================================================== *)
(* Part 1: the inventory facts                                         *)
(* ================================================================== *)

Lemma inventory_current :
  map site_sig sites_mu_c = expected_mu_c /\ map site_sig sites_cv_c = expected_cv_c /\
  map site_sig sites_mu_wait_c = expected_mu_wait_c /\ map site_sig sites_once_c = expected_once_c /\
  map site_sig sites_note_c = expected_note_c /\ map site_sig sites_counter_c = expected_counter_c /\
  map site_sig sites_wait_c = expected_wait_c /\ map site_sig sites_sem_wait_c = expected_sem_wait_c /\
  map site_sig sites_common_c = expected_common_c /\ map site_sig sites_debug_c = expected_debug_c /\
  map site_sig sites_nsync_semaphore_futex_c = expected_nsync_semaphore_futex_c.
Proof.
  exact (conj pinned_mu_c (conj pinned_cv_c (conj pinned_mu_wait_c (conj pinned_once_c (conj pinned_note_c
         (conj pinned_counter_c (conj pinned_wait_c (conj pinned_sem_wait_c (conj pinned_common_c
         (conj pinned_debug_c pinned_nsync_semaphore_futex_c)))))))))).
Qed.

(* ---- the hand-offs other than the mutex: publishing site release, observing site acquire, each looked up in the
        REGENERATED list of its file with its kind and its target ---- *)
Lemma publication_orders :
  (* once *)
  has_rel (order_at sites_once_c "nsync_run_once_impl" 4 Kstore "once") = true /\
  Forall (fun f => has_acq (order_at sites_once_c (fst f) (snd f) Kload "once") = true)
         [("nsync_run_once_impl", 1); ("nsync_run_once_impl", 5); ("nsync_run_once", 1); ("nsync_run_once_arg", 1);
          ("nsync_run_once_spin", 1); ("nsync_run_once_arg_spin", 1)]%string /\
  (* note *)
  has_rel (order_at sites_note_c "note_notify_child" 2 Kstore "notified.n") = true /\
  Forall (fun n => has_acq (order_at sites_note_c "nsync_note_notified_deadline_" n Kload "notified.n") = true) [1; 2] /\
  has_rel (order_at sites_note_c "note_notify_child" 3 Kstore "waiting.nw") = true /\
  (* counter *)
  has_rel (order_at sites_counter_c "nsync_counter_add" 3 Kcas "value.c") = true /\
  has_acq (order_at sites_counter_c "nsync_counter_add" 3 Kcas "value.c") = true /\
  Forall (fun f => has_acq (order_at sites_counter_c (fst f) (snd f) Kload "value.c") = true)
         [("nsync_counter_add", 1); ("nsync_counter_value", 1); ("nsync_counter_wait", 1); ("counter_ready_time", 2);
          ("counter_enqueue", 1); ("counter_dequeue", 1)]%string /\
  has_rel (order_at sites_counter_c "nsync_counter_add" 5 Kstore "waiting.nw") = true /\
  has_acq (order_at sites_counter_c "counter_dequeue" 2 Kload "waiting.nw") = true /\
  (* mutex wake-up *)
  has_rel (order_at sites_mu_c "nsync_mu_unlock_slow_" 7 Kstore "waiting.nsync_dll_nsync_waiter_.p") = true /\
  has_acq (order_at sites_mu_c "nsync_mu_lock_slow_" 5 Kload "waiting.nw.w") = true /\
  has_acq (order_at sites_mu_wait_c "nsync_mu_wait_with_deadline" 6 Kload "waiting.nw.w") = true /\
  (* condition variable signal / broadcast *)
  has_rel (order_at sites_cv_c "wake_waiters" 6 Kstore "waiting.p_nw") = true /\
  has_acq (order_at sites_cv_c "nsync_cv_wait_with_deadline_generic" 5 Kload "waiting.nw.w") = true /\
  has_acq (order_at sites_cv_c "wake_waiters" 2 Kcas "word.pmu") = true /\
  has_rel (order_at sites_cv_c "wake_waiters" 4 Kcas "word.pmu") = true /\
  (* mu_wait.c *)
  has_rel (order_at sites_mu_wait_c "nsync_mu_wait_with_deadline" 5 Kcas "word.mu") = true /\
  Forall (fun n => has_rel (order_at sites_mu_wait_c "nsync_mu_unlock_without_wakeup" n Kcas "word.mu") = true) [1; 3] /\
  has_acq (order_at sites_mu_wait_c "mu_try_acquire_after_timeout_or_cancel" 2 Kcas "word.mu") = true /\
  Forall (fun n => has_rel (order_at sites_mu_wait_c "mu_try_acquire_after_timeout_or_cancel" n Kstore "word.mu") = true) [8; 9].
Proof.
  (* one site at a time, so that a failure names the conjunct: "Unable to unify true with false" *)
  repeat match goal with |- _ /\ _ => split end;
    repeat (apply Forall_cons; [vm_compute; reflexivity|]); try apply Forall_nil; vm_compute; reflexivity.
Qed.

Lemma mutex_orders :
  Forall (fun s => has_acq (order_of Kcas s) = true) [101; 103; 201; 203; 301; 303; 401; 403; 502]%Z /\
  Forall (fun s => has_rel (order_of Kcas s) = true) [701; 703; 801; 803; 902; 903; 905; 602]%Z.
Proof. split; repeat (apply Forall_cons; [vm_compute; reflexivity|]); apply Forall_nil. Qed.

(* ---- every write to the word of an nsync_mu, in every file of the inventory ---- *)
(* [mu_word_writes], [mu_word_releasing], [mu_word_acquiring], [word_target]: Model/HbModel.v *)
Lemma mutex_word_writes :
  map (fun x => (s_fn x, s_ord x, s_order x)) (filter (is_kind Kstore) mu_word_writes) =
    [("mu_try_acquire_after_timeout_or_cancel", 8, Orel); ("mu_try_acquire_after_timeout_or_cancel", 9, Orel)]%string /\
  map site_id (filter (id_in mu_word_releasing) mu_word_writes) = mu_word_releasing /\
  Forall (fun x => has_rel (s_order x) = true) (filter (id_in mu_word_releasing) mu_word_writes) /\
  map site_id (filter (id_in mu_word_acquiring) mu_word_writes) = mu_word_acquiring /\
  Forall (fun x => has_acq (s_order x) = true) (filter (id_in mu_word_acquiring) mu_word_writes) /\
  Forall (fun x => id_in mu_word_releasing x || id_in mu_word_acquiring x = true) mu_word_writes /\
  Forall (fun x => word_target x = true -> on_mu_word x || on_cv_word x = true) all_sites /\
  Forall (fun x => String.eqb (s_fn x) "nsync_spin_test_and_set_" = true -> String.eqb (s_target x) "w" = true) all_sites.
Proof.
  split; [vm_compute; reflexivity|]. split; [vm_compute; reflexivity|].
  split; [vm_compute; repeat constructor|]. split; [vm_compute; reflexivity|].
  split; [vm_compute; repeat constructor|]. split; [vm_compute; repeat constructor|].
  split; apply Forall_forall; intros x Hin.
  - assert (H : forallb (fun x => negb (word_target x) || (on_mu_word x || on_cv_word x)) all_sites = true)
      by (vm_compute; reflexivity).
    rewrite forallb_forall in H. specialize (H x Hin). intros E. rewrite E in H. exact H.
  - assert (H : forallb (fun x => negb (String.eqb (s_fn x) "nsync_spin_test_and_set_") || String.eqb (s_target x) "w")
                        all_sites = true) by (vm_compute; reflexivity).
    rewrite forallb_forall in H. specialize (H x Hin). intros E. rewrite E in H. exact H.
Qed.

(* ================================================================== *)
(* Part 2: views                                                       *)
(* ================================================================== *)

Lemma vle_refl a : vle a a.
Proof. intros x; lia. Qed.
Lemma vle_trans a b c : vle a b -> vle b c -> vle a c.
Proof. intros H1 H2 x; specialize (H1 x); specialize (H2 x); lia. Qed.
Lemma vle_join_l a b : vle a (vjoin a b).
Proof. intros x; unfold vjoin; lia. Qed.
Lemma vle_join_r a b : vle b (vjoin a b).
Proof. intros x; unfold vjoin; lia. Qed.

(* a successful release-RMW publishes the thread's (new) view in the word's release view *)
Lemma hb_cas_rel h t s o n : has_rel (order_of Kcas s) = true ->
  vle (views (hb_step h t (EvCas s o n true)) t) (rel_word (hb_step h t (EvCas s o n true))).
Proof.
  intros Hr. unfold hb_step. rewrite Hr. cbn [views rel_word]. rewrite Nat.eqb_refl. apply vle_join_r.
Qed.

(* a successful acquire-RMW pulls the word's release view into the thread's view *)
Lemma hb_cas_acq h t s o n : has_acq (order_of Kcas s) = true ->
  vle (rel_word h) (views (hb_step h t (EvCas s o n true)) t).
Proof.
  intros Ha. unfold hb_step. rewrite Ha. cbn [views rel_word set_view]. rewrite Nat.eqb_refl.
  apply vle_join_r.
Qed.

(* the word's release view never shrinks: nothing but a CAS writes the word *)
Lemma hb_rel_mono h t e : vle (rel_word h) (rel_word (hb_step h t e)).
Proof.
  unfold hb_step. destruct e as [s o n [|]|s v| | | | | | |]; cbn [rel_word set_view]; try apply vle_refl.
  - destruct (has_rel (order_of Kcas s)); [apply vle_join_l | apply vle_refl].
  - destruct (has_acq (order_of Kload s)); cbn [rel_word set_view]; apply vle_refl.
Qed.

(* ================================================================== *)
(* Part 3: which steps change the ghost [held] of the stepping thread  *)
(* ================================================================== *)

Lemma len_lupd {A} (l : list A) k v : length (lupd l k v) = length l.
Proof. revert k; induction l; intros [|k]; simpl; auto. Qed.

Lemma nth_lupd_eq {A} (l : list A) k v d : k < length l -> nth k (lupd l k v) d = v.
Proof. revert k; induction l; intros [|k] H; simpl in *; try lia; auto. apply IHl; lia. Qed.

Lemma get_out w t : length (thr w) <= t -> get w t = dflt_t.
Proof. intros. unfold get. now apply nth_overflow. Qed.

Lemma get_set_t w t s : t < length (thr w) -> get (set_t w t s) t = s.
Proof. intros H. unfold get, set_t. cbn [thr]. now apply nth_lupd_eq. Qed.

Lemma len_set_t w t s : length (thr (set_t w t s)) = length (thr w).
Proof. unfold set_t. cbn [thr]. apply len_lupd. Qed.

Lemma held_set_t w t s : t < length (thr w) -> held (get (set_t w t s) t) = held s.
Proof. intros H. now rewrite get_set_t. Qed.

(* a thread-state update that copies [held] keeps it, in range or not *)
Lemma held_set_t_keep w t s : held s = held (get w t) -> held (get (set_t w t s) t) = held (get w t).
Proof.
  intros E. destruct (Nat.lt_ge_cases t (length (thr w))) as [H|H].
  - now rewrite get_set_t.
  - rewrite (get_out (set_t w t s)) by (rewrite len_set_t; exact H). now rewrite (get_out w).
Qed.

Lemma held_set_pc w t p : held (get (set_pc w t p) t) = held (get w t).
Proof. unfold set_pc. apply held_set_t_keep. reflexivity. Qed.

Lemma held_set_try w t b : held (get (set_try w t b) t) = held (get w t).
Proof. unfold set_try. apply held_set_t_keep. reflexivity. Qed.

Lemma held_acquire w t m : t < length (thr w) -> held (get (acquire w t m) t) = Some m.
Proof. intros H. unfold acquire. now rewrite held_set_t. Qed.

Lemma held_released w t : t < length (thr w) -> held (get (released w t) t) = None.
Proof. intros H. unfold released. now rewrite held_set_t. Qed.

Lemma len_set_pc w t p : length (thr (set_pc w t p)) = length (thr w).
Proof. unfold set_pc. apply len_set_t. Qed.

Lemma begin_op_len w t : length (thr (begin_op w t)) = length (thr w).
Proof.
  unfold begin_op. destruct (t_pc (get w t)); try reflexivity.
  destruct (t_ops (get w t)); try reflexivity. apply len_set_t.
Qed.

Lemma begin_op_held w t : held (get (begin_op w t) t) = held (get w t).
Proof.
  unfold begin_op. destruct (t_pc (get w t)); try reflexivity.
  destruct (t_ops (get w t)); try reflexivity. apply held_set_t_keep. reflexivity.
Qed.

Lemma step_out w t : length (thr w) <= t -> step w t = (w, EvNone).
Proof.
  intros H. unfold step, begin_op. rewrite (get_out w t H). cbn [t_pc t_ops dflt_t].
  rewrite (get_out w t H). reflexivity.
Qed.

(* what a step of thread t can do to t's own [held], given what it was (b) *)
Definition cls (b : option mode) (w' : world) (e : ev) (t : nat) : Prop :=
  held (get w' t) = b \/
  (held (get w' t) = None /\ exists s o n, e = EvCas s o n true /\ has_rel (order_of Kcas s) = true) \/
  (held (get w' t) <> None /\ exists s o n, e = EvCas s o n true /\ has_acq (order_of Kcas s) = true).

Ltac site_order := match goal with |- _ (order_of _ _) = true => try (destruct_mode); vm_compute; reflexivity end
with destruct_mode := match goal with m : mode |- _ => destruct m end.

Ltac cls_keep :=
  left; rewrite ?held_set_try, ?held_set_pc; reflexivity.
Ltac cls_rel Hr :=
  right; left; split;
  [ apply held_released; rewrite ?len_set_pc; exact Hr
  | eexists _, _, _; split; [reflexivity | site_order] ].
Ltac cls_acq Hr :=
  right; right; split;
  [ rewrite ?held_set_try; rewrite held_acquire by exact Hr; discriminate
  | eexists _, _, _; split; [reflexivity | site_order] ].
Ltac cls_solve Hr := first [ solve [cls_keep] | solve [cls_rel Hr] | solve [cls_acq Hr] ].

Lemma step_cls w t : t < length (thr w) ->
  cls (held (get w t)) (fst (step w t)) (snd (step w t)) t.
Proof.
  intros Hr0. unfold step.
  rewrite <- (begin_op_held w t).
  assert (Hr : t < length (thr (begin_op w t))) by (rewrite begin_op_len; exact Hr0).
  generalize dependent (begin_op w t). clear Hr0 w. intros w Hr.
  cbv zeta.
  destruct (t_pc (get w t)) eqn:Epc; unfold cas;
    repeat match goal with
           | |- context [if ?c then _ else _] => destruct c
           | |- context [us_after_scan ?x] => destruct (us_after_scan x)
           | |- context [match wake ?u with _ => _ end] => destruct (wake u)
           end;
    cbv beta iota delta [fst snd];
    try (cls_solve Hr).
  (* LsSemP: the thread state is rebuilt field by field *)
  left. rewrite held_set_t by exact Hr. reflexivity.
Qed.

(* ================================================================== *)
(* Part 4: the hand-off theorem                                        *)
(* ================================================================== *)

Lemma run_hb_cons w h t rest :
  run_hb w h (t :: rest) =
  mk_obs t (held (get w t)) (held (get (fst (step w t)) t)) (views (hb_step h t (snd (step w t))) t)
    :: run_hb (fst (step w t)) (hb_step h t (snd (step w t))) rest.
Proof. unfold run_hb; fold run_hb. destruct (step w t); reflexivity. Qed.

(* a step after which the thread holds the mutex, having held nothing before, joined the word's release view *)
Lemma acquire_step w h t :
  held (get w t) = None -> held (get (fst (step w t)) t) <> None ->
  vle (rel_word h) (views (hb_step h t (snd (step w t))) t).
Proof.
  intros Hb Ha. destruct (Nat.lt_ge_cases t (length (thr w))) as [Hr|Hr].
  - destruct (step_cls w t Hr) as [E|[[E _]|[_ (s & o & n & Ee & Ho)]]].
    + congruence.
    + congruence.
    + rewrite Ee. apply hb_cas_acq, Ho.
  - rewrite (step_out w t Hr) in Ha. cbn [fst] in Ha. congruence.
Qed.

(* a step after which the thread holds nothing, having held the mutex before, published its view *)
Lemma release_step w h t :
  held (get w t) <> None -> held (get (fst (step w t)) t) = None ->
  vle (views (hb_step h t (snd (step w t))) t) (rel_word (hb_step h t (snd (step w t)))).
Proof.
  intros Hb Ha. destruct (Nat.lt_ge_cases t (length (thr w))) as [Hr|Hr].
  - destruct (step_cls w t Hr) as [E|[[_ (s & o & n & Ee & Ho)]|[E _]]].
    + congruence.
    + rewrite Ee. apply hb_cas_rel, Ho.
    + congruence.
  - rewrite (step_out w t Hr) in Ha. cbn [fst] in Ha. congruence.
Qed.

(* anything below the word's release view is below the view of every later acquirer *)
Lemma acquire_later : forall sched w h j oj r,
  vle r (rel_word h) -> nth_error (run_hb w h sched) j = Some oj -> is_acquire oj -> vle r (o_view oj).
Proof.
  induction sched as [|t rest IH]; intros w h j oj r Hr Hj Hacq.
  - destruct j; discriminate Hj.
  - rewrite run_hb_cons in Hj. destruct j as [|j]; cbn [nth_error] in Hj.
    + injection Hj as <-. destruct Hacq as [Hb Ha]. cbn [o_before o_after o_view] in *.
      eapply vle_trans; [exact Hr|]. apply acquire_step; assumption.
    + eapply IH; [|exact Hj|exact Hacq].
      eapply vle_trans; [exact Hr|]. apply hb_rel_mono.
Qed.

Lemma handoff_gen : forall sched w h i j oi oj,
  nth_error (run_hb w h sched) i = Some oi -> nth_error (run_hb w h sched) j = Some oj -> i < j ->
  is_release oi -> is_acquire oj -> vle (o_view oi) (o_view oj).
Proof.
  induction sched as [|t rest IH]; intros w h i j oi oj Hi Hj Hlt Hrel Hacq.
  - destruct i; discriminate Hi.
  - rewrite run_hb_cons in Hi, Hj. destruct j as [|j]; [lia|]. cbn [nth_error] in Hj.
    destruct i as [|i]; cbn [nth_error] in Hi.
    + injection Hi as <-. destruct Hrel as [Hb Ha]. cbn [o_before o_after o_view] in *.
      eapply acquire_later; [|exact Hj|exact Hacq].
      apply release_step; assumption.
    + eapply IH; [exact Hi|exact Hj|lia|exact Hrel|exact Hacq].
Qed.

Lemma mutex_handoff : forall progs sched i j oi oj,
  let tr := run_hb (init progs) hb0 sched in
  nth_error tr i = Some oi -> nth_error tr j = Some oj -> (i < j)%nat ->
  is_release oi -> is_acquire oj ->
  vle (o_view oi) (o_view oj).
Proof. intros progs sched i j oi oj tr. subst tr. apply handoff_gen. Qed.
